import AcraModel.Wire.LenEncLemmas
/-!
Proofs about the MySQL length-encoded integer/string codec (`decryptor/mysql/base/utils.go`), whose
tables are regenerated from the source. The property theorems of C12 in `Props/C12.lean` restate them.
-/
namespace AcraModel.Wire.LenEnc.Proofs
open AcraModel AcraModel.Wire.LenEnc Generated.LenEnc

/-! ## facts the proofs need from the regenerated tables -/

/-- The reader's switch has exactly the protocol's four markers, each guarded by the length it reads. -/
theorem fact_readCases :
    readCases = [(251, 0, 1, true, []), (252, 3, 3, false, pairsFrom 1 0 2),
      (253, 4, 4, false, pairsFrom 1 0 3), (254, 9, 9, false, pairsFrom 1 0 8)] := by rfl

theorem fact_readDefault : readDefault = (1, pairsFrom 0 0 1) ∧ emptyIsError = true := by decide

/-- The writer's thresholds are the protocol's: 250, 2^16-1, 2^24-1, 2^64-1 with markers fc, fd, fe. -/
theorem fact_putCases :
    putCases = [(250, -1, (List.range 1).map (fun j => 0 + 8 * j)), (65535, 252, (List.range 2).map (fun j => 0 + 8 * j)),
      (16777215, 253, (List.range 3).map (fun j => 0 + 8 * j)), (2^64 - 1, 254, (List.range 8).map (fun j => 0 + 8 * j))] := by decide

/-- `LengthEncodedString` looks at the error of `LengthEncodedInt` before using the length. -/
theorem fact_strChecksErr : strChecksErrFirst = true := by decide

/-! ## the writer -/

theorem put_small (n : Nat) (h : n ≤ 250) : putLengthEncodedInt n = [UInt8.ofNat n] := by
  have : n % 256 = n := by omega
  simp [putLengthEncodedInt, fact_putCases, putWith, h, this]

theorem put_marker (n : Nat) :
    putLengthEncodedInt n =
      if n ≤ 250 then leBytes 1 n
      else if n ≤ 65535 then 252 :: leBytes 2 n
      else if n ≤ 16777215 then 253 :: leBytes 3 n
      else if n ≤ 2^64 - 1 then 254 :: leBytes 8 n
      else [] := by
  have e := fun k => map_shifts_eq_leBytes n k 0
  simp only [Nat.shiftRight_zero] at e
  unfold putLengthEncodedInt
  rw [fact_putCases]
  simp only [putWith, e]
  repeat' split
  all_goals first | rfl | simp_all

/-! ## the reader on marker-prefixed input -/

theorem read_marker (m : UInt8) (k : Nat) (body r : Bytes) (hk : body.length = k)
    (hm : (m.toNat = 252 ∧ k = 2) ∨ (m.toNat = 253 ∧ k = 3) ∨ (m.toNat = 254 ∧ k = 8)) :
    lengthEncodedInt (m :: body ++ r) = .ok ⟨leVal body, false, k + 1⟩ := by
  have hor : orVal (m :: (body ++ r)) (pairsFrom 1 0 k) = .ok (leVal body) := by
    rw [orVal_pairsFrom _ k 1 0 (by simp; omega) (by omega)]
    simp [← hk]
  unfold lengthEncodedInt readIntWith
  rw [fact_readCases, fact_readDefault.2]
  simp only [List.cons_append, goIndex_cons_zero, Out.bind_ok]
  rcases hm with ⟨h, rfl⟩ | ⟨h, rfl⟩ | ⟨h, rfl⟩ <;>
    simp [List.find?, h, hor, hk] <;> omega

theorem read_small (x : UInt8) (r : Bytes) (h : x.toNat ≤ 250) :
    lengthEncodedInt (x :: r) = .ok ⟨x.toNat, false, 1⟩ := by
  have hor : orVal (x :: r) (pairsFrom 0 0 1) = .ok x.toNat := by
    rw [orVal_pairsFrom _ 1 0 0 (by simp) (by omega)]
    simp [leVal]
  unfold lengthEncodedInt readIntWith
  rw [fact_readCases, fact_readDefault.1, fact_readDefault.2]
  have h1 : ¬ 251 = x.toNat := by omega
  have h2 : ¬ 252 = x.toNat := by omega
  have h3 : ¬ 253 = x.toNat := by omega
  have h4 : ¬ 254 = x.toNat := by omega
  simp [goIndex_cons_zero, List.find?, h1, h2, h3, h4, hor]

/-! ## property theorems -/

/-- **Integer round trip.** Every 64-bit value written by `PutLengthEncodedInt`, followed by any
bytes, is read back by `LengthEncodedInt` as the same value, not NULL, consuming exactly the bytes
written. Covers every threshold (250/251, 2^16, 2^24) at once. -/
theorem lenenc_int_roundtrip (n : Nat) (r : Bytes) (h : n < 2^64) :
    lengthEncodedInt (putLengthEncodedInt n ++ r) = .ok ⟨n, false, (putLengthEncodedInt n).length⟩ := by
  rw [put_marker]
  by_cases h1 : n ≤ 250
  · have hb : (UInt8.ofNat (n % 256)).toNat = n := by rw [ofNat_toNat_mod]; omega
    simp only [h1, if_true, leBytes, List.cons_append, List.nil_append, List.length_cons, List.length_nil]
    rw [read_small _ _ (by omega), hb]
  · by_cases h2 : n ≤ 65535
    · simp only [h1, h2, if_true, if_false]
      rw [read_marker 252 2 (leBytes 2 n) r (by simp) (by decide), leVal_leBytes_of_lt 2 n (by omega)]
      simp
    · by_cases h3 : n ≤ 16777215
      · simp only [h1, h2, h3, if_true, if_false]
        rw [read_marker 253 3 (leBytes 3 n) r (by simp) (by decide), leVal_leBytes_of_lt 3 n (by omega)]
        simp
      · have h4 : n ≤ 2^64 - 1 := by omega
        simp only [h1, h2, h3, h4, if_true, if_false]
        rw [read_marker 254 8 (leBytes 8 n) r (by simp) (by decide), leVal_leBytes_of_lt 8 n (by omega)]
        simp

/-- **String round trip, NULL ≠ empty.** A value (or SQL NULL) written by `PutLengthEncodedString`
followed by any bytes is read back identically, consuming exactly what was written; NULL comes back
as NULL and the empty string as the empty string. -/
theorem lenenc_str_roundtrip (v : Option Bytes) (r : Bytes) (h : ∀ b, v = some b → b.length < 2^64) :
    lengthEncodedString (putLengthEncodedString v ++ r) = .ok (v, (putLengthEncodedString v).length) := by
  cases v with
  | none =>
    have : lengthEncodedInt (0xfb :: r) = .ok ⟨0, true, 1⟩ := by
      unfold lengthEncodedInt readIntWith
      rw [fact_readCases, fact_readDefault.2]
      simp [goIndex_cons_zero, List.find?, orVal]
    simp [putLengthEncodedString, lengthEncodedString, this]
  | some b =>
    have hb := h b rfl
    simp only [putLengthEncodedString, lengthEncodedString, List.append_assoc]
    rw [lenenc_int_roundtrip b.length (b ++ r) hb]
    simp only [Out.bind_ok, List.length_append]
    have hle : ¬ b.length > (putLengthEncodedInt b.length).length + (b.length + r.length) - (putLengthEncodedInt b.length).length := by omega
    simp only [Bool.false_eq_true, if_false, hle]
    have := goSlice_append_mid (putLengthEncodedInt b.length) b r
    rw [List.append_assoc] at this
    rw [this]
    simp

/-- **Closed form of the reader** (the independent specification decoder): on a non-empty input the
reader's result is determined by the first byte exactly as the MySQL protocol says. -/
theorem lenenc_int_spec (x : UInt8) (r : Bytes) :
    lengthEncodedInt (x :: r) =
      if x.toNat = 251 then .ok ⟨0, true, 1⟩
      else if x.toNat = 252 then (if r.length < 2 then .err else .ok ⟨leVal (r.take 2), false, 3⟩)
      else if x.toNat = 253 then (if r.length < 3 then .err else .ok ⟨leVal (r.take 3), false, 4⟩)
      else if x.toNat = 254 then (if r.length < 8 then .err else .ok ⟨leVal (r.take 8), false, 9⟩)
      else .ok ⟨x.toNat, false, 1⟩ := by
  have hk : ∀ k, k ≤ 8 → k ≤ r.length → orVal (x :: r) (pairsFrom 1 0 k) = .ok (leVal (r.take k)) := by
    intro k hk8 hlen
    rw [orVal_pairsFrom _ k 1 0 (by simp; omega) (by omega)]; simp
  have hdef : orVal (x :: r) (pairsFrom 0 0 1) = .ok x.toNat := by
    rw [orVal_pairsFrom _ 1 0 0 (by simp) (by omega)]; simp [leVal]
  unfold lengthEncodedInt readIntWith
  rw [fact_readCases, fact_readDefault.1, fact_readDefault.2]
  simp only [List.length_cons, goIndex_cons_zero, Out.bind_ok]
  rw [if_neg (by omega)]
  by_cases h1 : x.toNat = 251
  · simp [List.find?, h1, orVal]
  by_cases h2 : x.toNat = 252
  · simp only [List.find?, h2]
    by_cases hl : r.length < 2
    · simp [hl]; omega
    · simp [hl, hk 2 (by omega) (by omega)]; omega
  by_cases h3 : x.toNat = 253
  · simp only [List.find?, h3]
    by_cases hl : r.length < 3
    · simp [hl]; omega
    · simp [hl, hk 3 (by omega) (by omega)]; omega
  by_cases h4 : x.toNat = 254
  · simp only [List.find?, h4]
    by_cases hl : r.length < 8
    · simp [hl]; omega
    · simp [hl, hk 8 (by omega) (by omega)]; omega
  have e1 : ¬ 251 = x.toNat := fun h => h1 h.symm
  have e2 : ¬ 252 = x.toNat := fun h => h2 h.symm
  have e3 : ¬ 253 = x.toNat := fun h => h3 h.symm
  have e4 : ¬ 254 = x.toNat := fun h => h4 h.symm
  simp [List.find?, h1, h2, h3, h4, e1, e2, e3, e4, hdef]

theorem lenenc_int_empty : lengthEncodedInt [] = .err := by
  unfold lengthEncodedInt readIntWith; rw [fact_readDefault.2]; simp

/-- **No panic.** `LengthEncodedInt` never panics, whatever the input. -/
theorem lenenc_int_no_panic (data : Bytes) : lengthEncodedInt data ≠ .panic := by
  cases data with
  | nil => rw [lenenc_int_empty]; simp
  | cons x r => rw [lenenc_int_spec]; repeat' split
                all_goals simp

/-- A successful integer read consumes between 1 and `|data|` bytes. -/
theorem lenenc_int_progress (data : Bytes) (res : IntRes) (h : lengthEncodedInt data = .ok res) :
    0 < res.n ∧ res.n ≤ data.length := by
  cases data with
  | nil => rw [lenenc_int_empty] at h; cases h
  | cons x r =>
    rw [lenenc_int_spec] at h
    repeat' split at h
    all_goals (first | cases h | skip)
    all_goals (simp only [List.length_cons]; omega)

theorem lenenc_str_no_panic (data : Bytes) : lengthEncodedString data ≠ .panic := by
  unfold lengthEncodedString
  cases hr : lengthEncodedInt data with
  | panic => exact absurd hr (lenenc_int_no_panic data)
  | err => simp
  | ok res =>
    have hp := lenenc_int_progress data res hr
    simp only [Out.bind_ok]
    split
    · simp
    · split
      · simp
      · next hn =>
        have : goSlice data res.n (res.n + res.num) = .ok ((data.take (res.n + res.num)).drop res.n) := by
          unfold goSlice; rw [if_pos]; omega
        simp [this]

/-- **Progress.** A successful string read consumes at least one byte and never more than the input
holds – so a caller's loop over a row terminates inside the buffer. -/
theorem lenenc_str_progress (data : Bytes) (v : Option Bytes) (n : Nat)
    (h : lengthEncodedString data = .ok (v, n)) : 0 < n ∧ n ≤ data.length := by
  unfold lengthEncodedString at h
  cases hr : lengthEncodedInt data with
  | panic => simp [hr] at h
  | err => simp [hr] at h
  | ok res =>
    have hp := lenenc_int_progress data res hr
    simp only [hr, Out.bind_ok] at h
    split at h
    · simp at h; omega
    · split at h
      · simp at h
      · next hn =>
        have : goSlice data res.n (res.n + res.num) = .ok ((data.take (res.n + res.num)).drop res.n) := by
          unfold goSlice; rw [if_pos]; omega
        simp [this] at h
        omega

theorem lenenc_skip_no_panic (data : Bytes) : skipLengthEncodedString data ≠ .panic := by
  unfold skipLengthEncodedString
  cases hr : lengthEncodedInt data with
  | panic => exact absurd hr (lenenc_int_no_panic data)
  | err => simp
  | ok res => simp only [Out.bind_ok]; repeat' split
              all_goals simp

/-- non-vacuity: the hypotheses are met by a concrete 300-byte value (0xfc branch) with a suffix -/
example : lengthEncodedString (putLengthEncodedString (some (List.replicate 300 7)) ++ [1, 2, 3])
    = .ok (some (List.replicate 300 7), (putLengthEncodedString (some (List.replicate 300 7))).length) :=
  lenenc_str_roundtrip _ _ (by intro b hb; cases hb; rw [List.length_replicate]; decide)

end AcraModel.Wire.LenEnc.Proofs
