import AcraModel.Wire.LenEnc
/-! Helper lemmas for the length-encoded codec (kept apart from the property theorems). -/
namespace AcraModel.Wire.LenEnc
open AcraModel

theorem lor_shift (a b k : Nat) (h : a < 2 ^ k) : a ||| (b <<< k) = a + b * 2 ^ k := by
  rw [Nat.or_comm, ← Nat.shiftLeft_add_eq_or_of_lt h, Nat.shiftLeft_eq]; omega

theorem ofNat_toNat_mod (m : Nat) : (UInt8.ofNat (m % 256)).toNat = m % 256 := by
  simp [UInt8.toNat_ofNat']

theorem goIndex_cons_zero (x : UInt8) (r : Bytes) : goIndex (x :: r) 0 = .ok x := rfl
theorem goIndex_cons_succ (x : UInt8) (r : Bytes) (i : Nat) : goIndex (x :: r) (i+1) = goIndex r i := by
  simp [goIndex]

theorem goIndex_ne_panic_of_lt (b : Bytes) (i : Nat) (h : i < b.length) : ∃ x, goIndex b i = .ok x := by
  unfold goIndex
  rw [List.getElem?_eq_getElem h]
  exact ⟨_, rfl⟩

end AcraModel.Wire.LenEnc

namespace AcraModel.Wire.LenEnc
open AcraModel

/-- consecutive (index, shift) pairs: `(i, sh), (i+1, sh+8), …` (`k` of them) -/
def pairsFrom : Nat → Nat → Nat → List (Nat × Nat)
  | _, _, 0 => []
  | i, sh, k+1 => (i, sh) :: pairsFrom (i+1) (sh+8) k

theorem or_step (x z k : Nat) (hx : x < 256) (hk : k + 8 ≤ 64) :
    (x <<< k) % 2^64 ||| (z * 2^(k+8)) = x * 2^k + z * 2^(k+8) := by
  have h1 : x <<< k = x * 2^k := Nat.shiftLeft_eq x k
  have h2 : x * 2^k < 2^(k+8) := by
    rw [Nat.pow_add, Nat.mul_comm]
    exact Nat.mul_lt_mul_of_pos_left hx (Nat.pow_pos (by decide))
  have h3 : 2^(k+8) ≤ 2^64 := Nat.pow_le_pow_right (by decide) hk
  rw [h1, Nat.mod_eq_of_lt (by omega), Nat.or_comm, ← Nat.shiftLeft_eq z (k+8),
    ← Nat.shiftLeft_add_eq_or_of_lt h2]
  omega

/-- reading `k` consecutive little-endian bytes by OR-ing shifted bytes gives their `leVal` -/
theorem orVal_pairsFrom (data : Bytes) (k i sh : Nat) (hi : i + k ≤ data.length) (hs : sh + 8 * k ≤ 64) :
    orVal data (pairsFrom i sh k) = .ok (leVal ((data.drop i).take k) * 2^sh) := by
  induction k generalizing i sh with
  | zero => simp [pairsFrom, orVal, leVal]
  | succ k ih =>
    have hlt : i < data.length := by omega
    obtain ⟨x, hx⟩ := goIndex_ne_panic_of_lt data i hlt
    have hd : data.drop i = x :: data.drop (i+1) := by
      unfold goIndex at hx
      rw [List.getElem?_eq_getElem hlt] at hx
      cases hx
      exact List.drop_eq_getElem_cons hlt
    simp only [pairsFrom, orVal, hx, Out.bind_ok]
    rw [ih (i+1) (sh+8) (by omega) (by omega)]
    simp only [Out.bind_ok, Out.pure_eq, hd, List.take_succ_cons, leVal]
    congr 1
    have hx8 := x.toNat_lt
    rw [show sh + 8 = sh + 8 from rfl, or_step x.toNat _ sh (by omega) (by omega)]
    rw [Nat.pow_add]
    simp only [Nat.add_mul]
    rw [Nat.mul_assoc, Nat.mul_comm (2^sh) (2^8)]
    simp [Nat.mul_assoc, Nat.mul_comm]

/-- the bytes `PutLengthEncodedInt` writes for shifts `0, 8, …` are the little-endian bytes -/
theorem map_shifts_eq_leBytes (n k : Nat) (sh : Nat) :
    ((List.range k).map (fun j => sh + 8 * j)).map (fun s => UInt8.ofNat ((n >>> s) % 256)) = leBytes k (n >>> sh) := by
  induction k generalizing sh with
  | zero => simp [leBytes]
  | succ k ih =>
    rw [List.range_succ_eq_map]
    simp only [List.map_cons, List.map_map, leBytes, Nat.mul_zero, Nat.add_zero]
    congr 1
    have := ih (sh + 8)
    simp only [List.map_map] at this
    rw [show (n >>> sh) / 256 = n >>> (sh + 8) by rw [Nat.shiftRight_add]; simp [Nat.shiftRight_eq_div_pow]]
    rw [← this]
    apply List.map_congr_left
    intro j _
    simp only [Function.comp]
    congr 3
    omega

end AcraModel.Wire.LenEnc
