import AcraModel.Wire.PgBind
import AcraModel.Wire.PgLemmas
/-!
Lemmas about the PostgreSQL extended-protocol models (`PgParse.lean`, `PgBind.lean`): the handlers
read what the specification codec writes, marshal it back byte-identically, and a rewritten
Parse/Bind packet is the specification encoding of the rewritten message.
-/
namespace AcraModel.Wire.Pg
open AcraModel

/-- a byte string without zero bytes (a C string body) -/
def NoZero (s : Bytes) : Prop := ∀ c ∈ s, c.toNat ≠ 0

theorem NoZero.tail {c : UInt8} {s : Bytes} (h : NoZero (c :: s)) : NoZero s :=
  fun x hx => h x (List.mem_cons_of_mem _ hx)

/-! ### small facts -/

theorem goSlice_mid (a b c : Bytes) (lo hi : Nat) (hlo : lo = a.length)
    (hhi : hi = a.length + b.length) : goSlice (a ++ b ++ c) lo hi = .ok b := by
  subst hlo hhi
  exact goSlice_append_mid a b c

theorem flatten_be4_length (oids : List Nat) :
    ((oids.map (beBytes 4)).flatten).length = 4 * oids.length := by
  induction oids with
  | nil => rfl
  | cons o os ih =>
    simp only [List.map_cons, List.flatten_cons, List.length_append, beBytes_length, ih,
      List.length_cons]
    omega

theorem flatten_be2_length (fs : List Nat) :
    ((fs.map (beBytes 2)).flatten).length = 2 * fs.length := by
  induction fs with
  | nil => rfl
  | cons o os ih =>
    simp only [List.map_cons, List.flatten_cons, List.length_append, beBytes_length, ih,
      List.length_cons]
    omega

/-! ### Parse -/

/-- 1. `bytes.Index` finds the terminator of a C string -/
theorem indexZero_append (s r : Bytes) (h : NoZero s) : indexZero (s ++ 0 :: r) = some s.length := by
  induction s with
  | nil => rfl
  | cons c s ih =>
    have hc : c.toNat ≠ 0 := h c List.mem_cons_self
    rw [List.cons_append]
    unfold indexZero
    rw [if_neg hc, ih h.tail]
    rfl

theorem readParams_flatten (ps : List Bytes) (hps : ∀ p ∈ ps, p.length = 4) (pre post : Bytes)
    (pos : Nat) (hpos : pos = pre.length) :
    readParams (pre ++ ps.flatten ++ post) ps.length pos = .ok ps := by
  induction ps generalizing pre pos with
  | nil => rfl
  | cons p ps ih =>
    have hp : p.length = 4 := hps p List.mem_cons_self
    have e : pre ++ (p :: ps).flatten ++ post = pre ++ p ++ (ps.flatten ++ post) := by
      simp [List.append_assoc]
    have e' : pre ++ (p :: ps).flatten ++ post = (pre ++ p) ++ ps.flatten ++ post := by
      simp [List.append_assoc]
    have hs : goSlice (pre ++ (p :: ps).flatten ++ post) pos (pos + 4) = .ok p := by
      rw [e]
      exact goSlice_mid pre p _ pos (pos + 4) hpos (by omega)
    have hr : readParams (pre ++ (p :: ps).flatten ++ post) ps.length (pos + 4) = .ok ps := by
      rw [e']
      exact ih (fun q hq => hps q (List.mem_cons_of_mem _ hq)) (pre ++ p) (pos + 4)
        (by rw [List.length_append]; omega)
    rw [List.length_cons]
    unfold readParams
    rw [hs]
    simp only [Out.bind_ok]
    rw [hr]
    rfl

theorem encodeParse_length (name query : Bytes) (oids : List Nat) :
    (encodeParse name query oids).length = name.length + 1 + (query.length + 1) + 2 + 4 * oids.length := by
  unfold encodeParse
  simp only [List.length_append, beBytes_length, flatten_be4_length, List.length_cons, List.length_nil]
  omega

set_option linter.unusedVariables false in
/-- 2. `NewParsePacket` reads what the specification encoder writes -/
theorem newParsePacket_encodeParse (name query : Bytes) (oids : List Nat) (hn : NoZero name)
    (hq : NoZero query) (hl : oids.length < 2^16) (ho : ∀ o ∈ oids, o < 2^32) :
    newParsePacket (encodeParse name query oids) =
      .ok ⟨name ++ [0], query ++ [0], beBytes 2 oids.length, oids.map (beBytes 4)⟩ := by
  have hlen := encodeParse_length name query oids
  have e1 : encodeParse name query oids =
      name ++ 0 :: (query ++ 0 :: (beBytes 2 oids.length ++ (oids.map (beBytes 4)).flatten)) := by
    simp [encodeParse, List.append_assoc]
  have e2 : encodeParse name query oids =
      (name ++ [0]) ++ (query ++ 0 :: (beBytes 2 oids.length ++ (oids.map (beBytes 4)).flatten)) := by
    simp [encodeParse, List.append_assoc]
  have e3 : encodeParse name query oids =
      (name ++ [0]) ++ (query ++ [0]) ++ (beBytes 2 oids.length ++ (oids.map (beBytes 4)).flatten) := by
    simp [encodeParse, List.append_assoc]
  have e4 : encodeParse name query oids =
      (name ++ [0] ++ (query ++ [0])) ++ beBytes 2 oids.length ++ (oids.map (beBytes 4)).flatten := by
    simp [encodeParse, List.append_assoc]
  have e5 : encodeParse name query oids =
      (name ++ [0] ++ (query ++ [0]) ++ beBytes 2 oids.length) ++ (oids.map (beBytes 4)).flatten ++ [] := by
    simp [encodeParse, List.append_assoc]
  have hi0 : indexZero (encodeParse name query oids) = some name.length := by
    rw [e1]; exact indexZero_append _ _ hn
  have hdrop : (encodeParse name query oids).drop (name.length + 1) =
      query ++ 0 :: (beBytes 2 oids.length ++ (oids.map (beBytes 4)).flatten) := by
    rw [e2]; exact List.drop_left' (by simp)
  have hi1 : indexZero (query ++ 0 :: (beBytes 2 oids.length ++ (oids.map (beBytes 4)).flatten)) =
      some query.length := indexZero_append _ _ hq
  have hname : goSlice (encodeParse name query oids) 0 (name.length + 1) = .ok (name ++ [0]) := by
    rw [e2]
    have := goSlice_prefix (name ++ [0])
      (query ++ 0 :: (beBytes 2 oids.length ++ (oids.map (beBytes 4)).flatten))
    simpa using this
  have hquery : goSlice (encodeParse name query oids) (name.length + 1)
      (query.length + (name.length + 1) + 1) = .ok (query ++ [0]) := by
    rw [e3]
    exact goSlice_mid _ _ _ _ _ (by simp) (by simp; omega)
  have hnum : goSlice (encodeParse name query oids) (query.length + (name.length + 1) + 1)
      (query.length + (name.length + 1) + 1 + 2) = .ok (beBytes 2 oids.length) := by
    rw [e4]
    exact goSlice_mid _ _ _ _ _ (by simp; omega) (by simp; omega)
  have hpar : readParams (encodeParse name query oids) oids.length
      (query.length + (name.length + 1) + 1 + 2) = .ok (oids.map (beBytes 4)) := by
    rw [e5]
    have := readParams_flatten (oids.map (beBytes 4)) (by
        intro p hp
        obtain ⟨o, _, rfl⟩ := List.mem_map.mp hp
        exact beBytes_length _ _)
      (name ++ [0] ++ (query ++ [0]) ++ beBytes 2 oids.length) []
      (query.length + (name.length + 1) + 1 + 2) (by simp; omega)
    rwa [List.length_map] at this
  unfold newParsePacket
  rw [hi0]
  simp only [hdrop, hi1, hname, hquery, hnum, Out.bind_ok, beVal_beBytes2 _ hl]
  by_cases hc : query.length + (name.length + 1) + 1 + 2 < (encodeParse name query oids).length
  · rw [if_pos hc, hpar]
    rfl
  · rw [if_neg hc]
    have h0 : oids = [] := List.eq_nil_of_length_eq_zero (by omega)
    subst h0
    rfl

/-- 3. relay identity: a parsed Parse message marshals back byte-identically -/
theorem marshal_newParsePacket (name query : Bytes) (oids : List Nat) (hn : NoZero name)
    (hq : NoZero query) (hl : oids.length < 2^16) (ho : ∀ o ∈ oids, o < 2^32) :
    ∃ p, newParsePacket (encodeParse name query oids) = .ok p ∧
      p.marshal = encodeParse name query oids ∧
      p.length = (encodeParse name query oids).length := by
  refine ⟨_, newParsePacket_encodeParse name query oids hn hq hl ho, ?_, ?_⟩
  · simp [ParsePacket.marshal, encodeParse, List.append_assoc]
  · rw [encodeParse_length]
    simp [ParsePacket.length]

set_option linter.unusedVariables false in
/-- 4. **rewrite_wellformed for Parse**: after `ReplaceQuery` the packet holds the specification
encoding of the Parse message with the new query and the matching length field -/
theorem replaceParseQuery_wellformed (name query q lb : Bytes) (oids : List Nat) (hn : NoZero name)
    (hq : NoZero query) (hl : oids.length < 2^16) (ho : ∀ o ∈ oids, o < 2^32) (hq' : NoZero q)
    (hsz : (encodeParse name q oids).length + 4 < 2^32) :
    replaceParseQuery ⟨80, lb, encodeParse name query oids⟩ q =
      .ok ⟨80, beBytes 4 ((encodeParse name q oids).length + 4), encodeParse name q oids⟩ := by
  have hb : (ParsePacket.replaceQuery
      ⟨name ++ [0], query ++ [0], beBytes 2 oids.length, oids.map (beBytes 4)⟩ q).marshal =
      encodeParse name q oids := by
    simp [ParsePacket.replaceQuery, ParsePacket.marshal, encodeParse, List.append_assoc]
  have hL : (ParsePacket.replaceQuery
      ⟨name ++ [0], query ++ [0], beBytes 2 oids.length, oids.map (beBytes 4)⟩ q).length =
      (encodeParse name q oids).length := by
    rw [encodeParse_length]
    simp [ParsePacket.replaceQuery, ParsePacket.length]
  unfold replaceParseQuery
  simp only [newParsePacket_encodeParse name query oids hn hq hl ho, hb, hL]
  unfold packetLength
  rw [lenSize_eq, Nat.mod_eq_of_lt hsz]

/-- 4, on the wire: the rewritten packet marshals to a well-framed Parse message -/
theorem replaceParseQuery_marshal (name query q lb : Bytes) (oids : List Nat) (hn : NoZero name)
    (hq : NoZero query) (hl : oids.length < 2^16) (ho : ∀ o ∈ oids, o < 2^32) (hq' : NoZero q)
    (hsz : (encodeParse name q oids).length + 4 < 2^32) :
    ∃ p, replaceParseQuery ⟨80, lb, encodeParse name query oids⟩ q = .ok p ∧
      marshal p = encodeMsg 80 (encodeParse name q oids) :=
  ⟨_, replaceParseQuery_wellformed name query q lb oids hn hq hl ho hq' hsz,
    marshal_encodeMsg 80 _ (by decide)⟩

theorem range_decode_be4 (oids : List Nat) (ho : ∀ o ∈ oids, o < 2^32) :
    (List.range oids.length).map
      (fun k => beVal (((oids.map (beBytes 4)).flatten.drop (4 * k)).take 4)) = oids := by
  induction oids with
  | nil => rfl
  | cons o os ih =>
    have ih' := ih (fun x hx => ho x (List.mem_cons_of_mem _ hx))
    have h0 : beVal ((((o :: os).map (beBytes 4)).flatten.drop (4 * 0)).take 4) = o := by
      simp only [Nat.mul_zero, List.drop_zero, List.map_cons, List.flatten_cons]
      rw [List.take_left' (beBytes_length _ _), beVal_beBytes4 _ (ho o List.mem_cons_self)]
    have ht : ∀ k, ((((o :: os).map (beBytes 4)).flatten.drop (4 * (k + 1))).take 4) =
        ((os.map (beBytes 4)).flatten.drop (4 * k)).take 4 := by
      intro k
      rw [List.map_cons, List.flatten_cons, show 4 * (k + 1) = 4 + 4 * k by omega, ← List.drop_drop,
        List.drop_left' (beBytes_length _ _)]
    rw [List.length_cons, List.range_succ_eq_map, List.map_cons, List.map_map]
    have hc : ∀ (a b : Nat) (l m : List Nat), a = b → l = m → a :: l = b :: m := by
      intro a b l m h1 h2; rw [h1, h2]
    refine hc _ _ _ _ h0 (Eq.trans ?_ ih')
    apply List.map_congr_left
    intro k _
    simp only [Function.comp]
    rw [ht]

/-- 5. round trip of the specification codec -/
theorem decodeParse_encodeParse (name query : Bytes) (oids : List Nat) (hn : NoZero name)
    (hq : NoZero query) (hl : oids.length < 2^16) (ho : ∀ o ∈ oids, o < 2^32) :
    decodeParse (encodeParse name query oids) = some (name, query, oids) := by
  have e1 : encodeParse name query oids =
      name ++ 0 :: (query ++ 0 :: (beBytes 2 oids.length ++ (oids.map (beBytes 4)).flatten)) := by
    simp [encodeParse, List.append_assoc]
  have e2 : encodeParse name query oids =
      (name ++ [0]) ++ (query ++ 0 :: (beBytes 2 oids.length ++ (oids.map (beBytes 4)).flatten)) := by
    simp [encodeParse, List.append_assoc]
  have hi0 : indexZero (encodeParse name query oids) = some name.length := by
    rw [e1]; exact indexZero_append _ _ hn
  have hdrop : (encodeParse name query oids).drop (name.length + 1) =
      query ++ 0 :: (beBytes 2 oids.length ++ (oids.map (beBytes 4)).flatten) := by
    rw [e2]; exact List.drop_left' (by simp)
  have hi1 : indexZero (query ++ 0 :: (beBytes 2 oids.length ++ (oids.map (beBytes 4)).flatten)) =
      some query.length := indexZero_append _ _ hq
  have htail : (query ++ 0 :: (beBytes 2 oids.length ++ (oids.map (beBytes 4)).flatten)).drop
      (query.length + 1) = beBytes 2 oids.length ++ (oids.map (beBytes 4)).flatten := by
    have : query ++ 0 :: (beBytes 2 oids.length ++ (oids.map (beBytes 4)).flatten) =
        (query ++ [0]) ++ (beBytes 2 oids.length ++ (oids.map (beBytes 4)).flatten) := by simp
    rw [this]; exact List.drop_left' (by simp)
  have htake0 : (encodeParse name query oids).take name.length = name := by
    rw [e1]; exact List.take_left' rfl
  have htake1 : (query ++ 0 :: (beBytes 2 oids.length ++ (oids.map (beBytes 4)).flatten)).take
      query.length = query := List.take_left' rfl
  unfold decodeParse
  rw [hi0]
  simp only [hdrop, hi1, htail, htake0, htake1]
  rw [if_neg (by simp [List.length_append])]
  rw [List.take_left' (beBytes_length _ _), List.drop_left' (beBytes_length _ _),
    beVal_beBytes2 _ hl]
  rw [if_neg (by rw [flatten_be4_length]; simp)]
  rw [range_decode_be4 oids ho]

/-! ### Bind: reading -/

theorem readString_append (s r : Bytes) (h : NoZero s) : readString (s ++ 0 :: r) = .ok (s, r) := by
  have h1 : (s ++ 0 :: r).take s.length = s := List.take_left' rfl
  have h2 : (s ++ 0 :: r).drop (s.length + 1) = r := by
    have : s ++ 0 :: r = (s ++ [0]) ++ r := by simp
    rw [this]; exact List.drop_left' (by simp)
  unfold readString
  rw [indexZero_append s r h]
  simp only [h1, h2]

theorem readU16s_encode (fs : List Nat) (rest : Bytes) (hf : ∀ f ∈ fs, f < 2^16) :
    readU16s fs.length ((fs.map (beBytes 2)).flatten ++ rest) = fs := by
  induction fs with
  | nil => rfl
  | cons f fs ih =>
    rw [List.length_cons, List.map_cons, List.flatten_cons, List.append_assoc]
    unfold readU16s
    rw [List.take_left' (beBytes_length _ _), List.drop_left' (beBytes_length _ _),
      beVal_beBytes2 _ (hf f List.mem_cons_self), ih (fun x hx => hf x (List.mem_cons_of_mem _ hx))]

theorem readUint16Array_encode (fs : List Nat) (rest : Bytes) (hl : fs.length < 2^16)
    (hf : ∀ f ∈ fs, f < 2^16) :
    readUint16Array (beBytes 2 fs.length ++ ((fs.map (beBytes 2)).flatten ++ rest)) = .ok (fs, rest) := by
  have hd : ((fs.map (beBytes 2)).flatten ++ rest).drop (2 * fs.length) = rest :=
    List.drop_left' (flatten_be2_length fs)
  unfold readUint16Array
  rw [if_neg (by simp [List.length_append])]
  simp only [List.take_left' (beBytes_length 2 fs.length), List.drop_left' (beBytes_length 2 fs.length),
    beVal_beBytes2 _ hl]
  rw [if_neg (by rw [List.length_append, flatten_be2_length]; omega)]
  rw [readU16s_encode fs rest hf, hd]

theorem readParamsArr_encode (pv : List (Option Bytes)) (rest : Bytes)
    (hb : ∀ b, some b ∈ pv → b.length < 2^32 - 1) :
    readParamsArr pv.length ((pv.map writeParam).flatten ++ rest) = .ok (pv, rest) := by
  induction pv with
  | nil => rfl
  | cons v pv ih =>
    have ih' := ih (fun b hm => hb b (List.mem_cons_of_mem _ hm))
    rw [List.length_cons, List.map_cons, List.flatten_cons, List.append_assoc]
    cases v with
    | none =>
      show readParamsArr (pv.length + 1) (beBytes 4 0xFFFFFFFF ++ _) = _
      simp only [readParamsArr]
      rw [if_neg (by simp [List.length_append])]
      rw [List.take_left' (beBytes_length _ _), List.drop_left' (beBytes_length _ _),
        beVal_beBytes4 _ (by omega), if_pos rfl, ih']
      rfl
    | some b =>
      have hbl := hb b List.mem_cons_self
      show readParamsArr (pv.length + 1) ((beBytes 4 b.length ++ b) ++ _) = _
      rw [List.append_assoc]
      simp only [readParamsArr]
      rw [if_neg (by simp [List.length_append])]
      rw [List.take_left' (beBytes_length _ _), List.drop_left' (beBytes_length _ _),
        beVal_beBytes4 _ (by omega), if_neg (by omega), if_neg (by simp [List.length_append]),
        List.take_left' rfl, List.drop_left' rfl, ih']
      rfl

theorem readParameterArray_encode (pv : List (Option Bytes)) (rest : Bytes) (hl : pv.length < 2^16)
    (hb : ∀ b, some b ∈ pv → b.length < 2^32 - 1) :
    readParameterArray (beBytes 2 pv.length ++ ((pv.map writeParam).flatten ++ rest)) =
      .ok (pv, rest) := by
  unfold readParameterArray
  rw [if_neg (by simp [List.length_append])]
  rw [List.take_left' (beBytes_length _ _), List.drop_left' (beBytes_length _ _),
    beVal_beBytes2 _ hl, readParamsArr_encode pv rest hb]

theorem encodeBind_eq (portal stmt : Bytes) (pf : List Nat) (pv : List (Option Bytes)) (rf : List Nat) :
    encodeBind portal stmt pf pv rf =
      portal ++ 0 :: (stmt ++ 0 :: (beBytes 2 pf.length ++ ((pf.map (beBytes 2)).flatten ++
        (beBytes 2 pv.length ++ ((pv.map writeParam).flatten ++
          (beBytes 2 rf.length ++ ((rf.map (beBytes 2)).flatten ++ []))))))) := by
  simp [encodeBind, List.append_assoc]

/-- 6. `NewBindPacket` reads what the specification encoder writes -/
theorem newBindPacket_encodeBind (portal stmt : Bytes) (pf : List Nat) (pv : List (Option Bytes))
    (rf : List Nat) (hp : NoZero portal) (hs : NoZero stmt)
    (hpf : pf.length < 2^16 ∧ ∀ f ∈ pf, f < 2^16) (hrf : rf.length < 2^16 ∧ ∀ f ∈ rf, f < 2^16)
    (hpv : pv.length < 2^16 ∧ ∀ b, some b ∈ pv → b.length < 2^32 - 1) :
    newBindPacket (encodeBind portal stmt pf pv rf) = .ok ⟨portal, stmt, pf, pv, rf⟩ := by
  rw [encodeBind_eq]
  unfold newBindPacket
  rw [readString_append _ _ hp]
  simp only [Out.bind_ok]
  rw [readString_append _ _ hs]
  simp only [Out.bind_ok]
  rw [readUint16Array_encode pf _ hpf.1 hpf.2]
  simp only [Out.bind_ok]
  rw [readParameterArray_encode pv _ hpv.1 hpv.2]
  simp only [Out.bind_ok]
  rw [readUint16Array_encode rf _ hrf.1 hrf.2]
  rfl

/-! ### Bind: marshalling -/

theorem writeUint16Array_ok (vs : List Nat) (h : vs.length < 2^16) :
    writeUint16Array vs = .ok (beBytes 2 vs.length ++ (vs.map (beBytes 2)).flatten) := by
  unfold writeUint16Array
  rw [if_neg (by omega)]

theorem writeParameterArray_ok (ps : List (Option Bytes)) (h : ps.length < 2^16)
    (hb : ∀ b, some b ∈ ps → b.length < 2^32) :
    writeParameterArray ps = .ok (beBytes 2 ps.length ++ (ps.map writeParam).flatten) := by
  unfold writeParameterArray
  rw [if_neg (by omega)]
  split
  · next hc =>
    exfalso
    rw [List.any_eq_true] at hc
    obtain ⟨p, hp, hpc⟩ := hc
    cases p with
    | none => simp at hpc
    | some b =>
      have := hb b hp
      simp at hpc
      omega
  · rfl

theorem BindPacket.marshal_ok (portal stmt : Bytes) (pf : List Nat) (pv : List (Option Bytes))
    (rf : List Nat) (hpf : pf.length < 2^16) (hrf : rf.length < 2^16) (hpv : pv.length < 2^16)
    (hb : ∀ b, some b ∈ pv → b.length < 2^32) :
    BindPacket.marshal ⟨portal, stmt, pf, pv, rf⟩ = .ok (encodeBind portal stmt pf pv rf) := by
  unfold BindPacket.marshal
  simp only [writeUint16Array_ok pf hpf, writeUint16Array_ok rf hrf, writeParameterArray_ok pv hpv hb,
    Out.bind_ok, Out.pure_eq]
  simp [encodeBind, List.append_assoc]

/-- 7. relay identity: a parsed Bind message marshals back byte-identically -/
theorem marshal_newBindPacket (portal stmt : Bytes) (pf : List Nat) (pv : List (Option Bytes))
    (rf : List Nat) (hp : NoZero portal) (hs : NoZero stmt)
    (hpf : pf.length < 2^16 ∧ ∀ f ∈ pf, f < 2^16) (hrf : rf.length < 2^16 ∧ ∀ f ∈ rf, f < 2^16)
    (hpv : pv.length < 2^16 ∧ ∀ b, some b ∈ pv → b.length < 2^32 - 1) :
    ∃ p, newBindPacket (encodeBind portal stmt pf pv rf) = .ok p ∧
      p = ⟨portal, stmt, pf, pv, rf⟩ ∧
      BindPacket.marshal p = .ok (encodeBind portal stmt pf pv rf) :=
  ⟨_, newBindPacket_encodeBind portal stmt pf pv rf hp hs hpf hrf hpv, rfl,
    BindPacket.marshal_ok portal stmt pf pv rf hpf.1 hrf.1 hpv.1
      (fun b hm => by have := hpv.2 b hm; omega)⟩

end AcraModel.Wire.Pg
