import AcraModel.Wire.PgBind
import AcraModel.Wire.PgLemmas
/-!
Lemmas about the PostgreSQL extended-protocol models (`PgParse.lean`, `PgBind.lean`): the handlers
read what the specification codec writes, marshal it back byte-identically, and a rewritten
Parse/Bind packet is the specification encoding of the rewritten message.
-/
namespace AcraModel.Wire.Pg
open AcraModel

/-- a byte string without zero bytes (a C string body) -/
def NoZero (s : Bytes) : Prop := ∀ c ∈ s, c.toNat ≠ 0

theorem NoZero.tail {c : UInt8} {s : Bytes} (h : NoZero (c :: s)) : NoZero s :=
  fun x hx => h x (List.mem_cons_of_mem _ hx)

/-! ### small facts -/

theorem goSlice_mid (a b c : Bytes) (lo hi : Nat) (hlo : lo = a.length)
    (hhi : hi = a.length + b.length) : goSlice (a ++ b ++ c) lo hi = .ok b := by
  subst hlo hhi
  exact goSlice_append_mid a b c

theorem flatten_be4_length (oids : List Nat) :
    ((oids.map (beBytes 4)).flatten).length = 4 * oids.length := by
  induction oids with
  | nil => rfl
  | cons o os ih =>
    simp only [List.map_cons, List.flatten_cons, List.length_append, beBytes_length, ih,
      List.length_cons]
    omega

theorem flatten_be2_length (fs : List Nat) :
    ((fs.map (beBytes 2)).flatten).length = 2 * fs.length := by
  induction fs with
  | nil => rfl
  | cons o os ih =>
    simp only [List.map_cons, List.flatten_cons, List.length_append, beBytes_length, ih,
      List.length_cons]
    omega

/-! ### Parse -/

theorem chkSlice_eq_of_goSlice_ok {b : Bytes} {lo hi : Nat} {x : Bytes}
    (h : goSlice b lo hi = .ok x) : chkSlice b lo hi = .ok x := by
  unfold chkSlice
  rw [h]

/-- 1. `bytes.Index` finds the terminator of a C string -/
theorem indexZero_append (s r : Bytes) (h : NoZero s) : indexZero (s ++ 0 :: r) = some s.length := by
  induction s with
  | nil => rfl
  | cons c s ih =>
    have hc : c.toNat ≠ 0 := h c List.mem_cons_self
    rw [List.cons_append]
    unfold indexZero
    rw [if_neg hc, ih h.tail]
    rfl

/-! #### the integer conversions of utils.go under the regenerated facts -/

theorem wrapSigned64_of_lt (n : Nat) (h : n < 2 ^ 63) : wrapSigned 64 (n : Int) = n := by
  unfold wrapSigned
  have h1 : (n : Int) % ((2 ^ 64 : Nat) : Int) = n := Int.emod_eq_of_lt (by omega) (by omega)
  dsimp only
  rw [h1, if_pos (by omega)]

theorem goConv_int (v : Int) : goConv "int" v = wrapSigned 64 v := by
  rw [goConv]
  exact if_pos (Or.inl rfl)

theorem goConvs_single (c : String) (n : Nat) : goConvs [c] n = goConv c (n : Int) := rfl

theorem goConvs_nil (n : Nat) : goConvs [] n = n := rfl

/-- `int(binary.BigEndian.UintN(x))` is the unsigned value (N ≤ 32; Go's `int` has 64 bits) -/
theorem goConvs_int (n : Nat) (h : n < 2 ^ 63) : goConvs ["int"] n = n := by
  rw [goConvs_single, goConv_int, wrapSigned64_of_lt n h]

/-- **the count of a Parse message is read as an unsigned 16-bit integer**: with the conversion chain the source
has now (`pgParamsNumToInt = ["int"]`), `numParams.ToInt()` is the big-endian value of the two bytes. This is the one
place where the Parse theorems depend on the signedness of `paramsNum.ToInt`. -/
theorem paramsCount_eq (b : Bytes) (h : beVal b < 2 ^ 63) : paramsCount b = beVal b := by
  unfold paramsCount paramsNumToInt
  have e : Generated.Wire.pgParamsNumToInt = ["int"] := rfl
  rw [e, goConvs_int _ h]
  rfl

theorem readParams_flatten (ps : List Bytes) (hps : ∀ p ∈ ps, p.length = 4) (post : Bytes) :
    readParams ps.length (ps.flatten ++ post) = .ok ps := by
  induction ps with
  | nil => rfl
  | cons p ps ih =>
    have hp : p.length = 4 := hps p List.mem_cons_self
    obtain ⟨a, b, c, d, rfl⟩ : ∃ a b c d, p = [a, b, c, d] := by
      match p, hp with
      | [a, b, c, d], _ => exact ⟨a, b, c, d, rfl⟩
    have ih' := ih (fun q hq => hps q (List.mem_cons_of_mem _ hq))
    show readParams (ps.length + 1) (a :: b :: c :: d :: (ps.flatten ++ post)) = _
    unfold readParams
    rw [ih']
    rfl

theorem encodeParse_length (name query : Bytes) (oids : List Nat) :
    (encodeParse name query oids).length = name.length + 1 + (query.length + 1) + 2 + 4 * oids.length := by
  unfold encodeParse
  simp only [List.length_append, beBytes_length, flatten_be4_length, List.length_cons, List.length_nil]
  omega

set_option linter.unusedVariables false in
/-- 2. `NewParsePacket` reads what the specification encoder writes -/
theorem newParsePacket_encodeParse (name query : Bytes) (oids : List Nat) (hn : NoZero name)
    (hq : NoZero query) (hl : oids.length < 2^16) (ho : ∀ o ∈ oids, o < 2^32) :
    newParsePacket (encodeParse name query oids) =
      .ok ⟨name ++ [0], query ++ [0], beBytes 2 oids.length, oids.map (beBytes 4)⟩ := by
  have hlen := encodeParse_length name query oids
  have e1 : encodeParse name query oids =
      name ++ 0 :: (query ++ 0 :: (beBytes 2 oids.length ++ (oids.map (beBytes 4)).flatten)) := by
    simp [encodeParse, List.append_assoc]
  have e2 : encodeParse name query oids =
      (name ++ [0]) ++ (query ++ 0 :: (beBytes 2 oids.length ++ (oids.map (beBytes 4)).flatten)) := by
    simp [encodeParse, List.append_assoc]
  have e3 : encodeParse name query oids =
      (name ++ [0]) ++ (query ++ [0]) ++ (beBytes 2 oids.length ++ (oids.map (beBytes 4)).flatten) := by
    simp [encodeParse, List.append_assoc]
  have e4 : encodeParse name query oids =
      (name ++ [0] ++ (query ++ [0])) ++ beBytes 2 oids.length ++ (oids.map (beBytes 4)).flatten := by
    simp [encodeParse, List.append_assoc]
  have e5 : encodeParse name query oids =
      (name ++ [0] ++ (query ++ [0]) ++ beBytes 2 oids.length) ++ (oids.map (beBytes 4)).flatten ++ [] := by
    simp [encodeParse, List.append_assoc]
  have hi0 : indexZero (encodeParse name query oids) = some name.length := by
    rw [e1]; exact indexZero_append _ _ hn
  have hdrop : (encodeParse name query oids).drop (name.length + 1) =
      query ++ 0 :: (beBytes 2 oids.length ++ (oids.map (beBytes 4)).flatten) := by
    rw [e2]; exact List.drop_left' (by simp)
  have hi1 : indexZero (query ++ 0 :: (beBytes 2 oids.length ++ (oids.map (beBytes 4)).flatten)) =
      some query.length := indexZero_append _ _ hq
  have hname : goSlice (encodeParse name query oids) 0 (name.length + 1) = .ok (name ++ [0]) := by
    rw [e2]
    have := goSlice_prefix (name ++ [0])
      (query ++ 0 :: (beBytes 2 oids.length ++ (oids.map (beBytes 4)).flatten))
    simpa using this
  have hquery : goSlice (encodeParse name query oids) (name.length + 1)
      (query.length + (name.length + 1) + 1) = .ok (query ++ [0]) := by
    rw [e3]
    exact goSlice_mid _ _ _ _ _ (by simp) (by simp; omega)
  have hnum : chkSlice (encodeParse name query oids) (query.length + (name.length + 1) + 1)
      (query.length + (name.length + 1) + 1 + 2) = .ok (beBytes 2 oids.length) := by
    rw [e4]
    exact chkSlice_eq_of_goSlice_ok (goSlice_mid _ _ _ _ _ (by simp; omega) (by simp; omega))
  have hdrop2 : (encodeParse name query oids).drop (query.length + (name.length + 1) + 1 + 2) =
      (oids.map (beBytes 4)).flatten ++ [] := by
    rw [e5, List.append_assoc]
    exact List.drop_left' (by simp; omega)
  have hpar : readParams oids.length ((encodeParse name query oids).drop
      (query.length + (name.length + 1) + 1 + 2)) = .ok (oids.map (beBytes 4)) := by
    rw [hdrop2]
    have := readParams_flatten (oids.map (beBytes 4)) (by
        intro p hp
        obtain ⟨o, _, rfl⟩ := List.mem_map.mp hp
        exact beBytes_length _ _) []
    rwa [List.length_map] at this
  have hcnt : paramsCount (beBytes 2 oids.length) = oids.length := by
    rw [paramsCount_eq _ (by rw [beVal_beBytes2 _ hl]; omega), beVal_beBytes2 _ hl]
  unfold newParsePacket
  rw [hi0]
  simp only [hdrop, hi1, hname, hquery, hnum, Out.bind_ok, hcnt]
  by_cases hc : query.length + (name.length + 1) + 1 + 2 < (encodeParse name query oids).length
  · rw [if_pos hc, hpar]
    rfl
  · rw [if_neg hc]
    have h0 : oids = [] := List.eq_nil_of_length_eq_zero (by omega)
    subst h0
    rfl

/-- 3. relay identity: a parsed Parse message marshals back byte-identically -/
theorem marshal_newParsePacket (name query : Bytes) (oids : List Nat) (hn : NoZero name)
    (hq : NoZero query) (hl : oids.length < 2^16) (ho : ∀ o ∈ oids, o < 2^32) :
    ∃ p, newParsePacket (encodeParse name query oids) = .ok p ∧
      p.marshal = encodeParse name query oids ∧
      p.length = (encodeParse name query oids).length := by
  refine ⟨_, newParsePacket_encodeParse name query oids hn hq hl ho, ?_, ?_⟩
  · simp [ParsePacket.marshal, encodeParse, List.append_assoc]
  · rw [encodeParse_length]
    simp [ParsePacket.length]

set_option linter.unusedVariables false in
/-- 4. **rewrite_wellformed for Parse**: after `ReplaceQuery` the packet holds the specification
encoding of the Parse message with the new query and the matching length field -/
theorem replaceParseQuery_wellformed (name query q lb : Bytes) (oids : List Nat) (hn : NoZero name)
    (hq : NoZero query) (hl : oids.length < 2^16) (ho : ∀ o ∈ oids, o < 2^32) (hq' : NoZero q)
    (hsz : (encodeParse name q oids).length + 4 < 2^32) :
    replaceParseQuery ⟨80, lb, encodeParse name query oids⟩ q =
      .ok ⟨80, beBytes 4 ((encodeParse name q oids).length + 4), encodeParse name q oids⟩ := by
  have hb : (ParsePacket.replaceQuery
      ⟨name ++ [0], query ++ [0], beBytes 2 oids.length, oids.map (beBytes 4)⟩ q).marshal =
      encodeParse name q oids := by
    simp [ParsePacket.replaceQuery, ParsePacket.marshal, encodeParse, List.append_assoc]
  have hL : (ParsePacket.replaceQuery
      ⟨name ++ [0], query ++ [0], beBytes 2 oids.length, oids.map (beBytes 4)⟩ q).length =
      (encodeParse name q oids).length := by
    rw [encodeParse_length]
    simp [ParsePacket.replaceQuery, ParsePacket.length]
  unfold replaceParseQuery
  simp only [newParsePacket_encodeParse name query oids hn hq hl ho, hb, hL]
  unfold packetLength
  rw [lenSize_eq, Nat.mod_eq_of_lt hsz]

/-- 4, on the wire: the rewritten packet marshals to a well-framed Parse message -/
theorem replaceParseQuery_marshal (name query q lb : Bytes) (oids : List Nat) (hn : NoZero name)
    (hq : NoZero query) (hl : oids.length < 2^16) (ho : ∀ o ∈ oids, o < 2^32) (hq' : NoZero q)
    (hsz : (encodeParse name q oids).length + 4 < 2^32) :
    ∃ p, replaceParseQuery ⟨80, lb, encodeParse name query oids⟩ q = .ok p ∧
      marshal p = encodeMsg 80 (encodeParse name q oids) :=
  ⟨_, replaceParseQuery_wellformed name query q lb oids hn hq hl ho hq' hsz,
    marshal_encodeMsg 80 _ (by decide)⟩

theorem mapIdx_oids (oids : List Nat) (sel : Nat → Bool) (b : Nat) :
    (oids.map (beBytes 4)).mapIdx (fun i x => if sel i then beBytes 4 b else x) =
    (setParseOids oids sel b).map (beBytes 4) := by
  apply List.ext_getElem?
  intro i
  simp only [setParseOids, List.getElem?_mapIdx, List.getElem?_map]
  cases oids[i]? with
  | none => rfl
  | some o => simp only [Option.map_some]; split <;> rfl

theorem setParseOids_length (oids : List Nat) (sel : Nat → Bool) (b : Nat) :
    (setParseOids oids sel b).length = oids.length := by
  simp [setParseOids]

theorem setParseOids_lt (oids : List Nat) (sel : Nat → Bool) (b : Nat) (ho : ∀ o ∈ oids, o < 2^32)
    (hb : b < 2^32) : ∀ o ∈ setParseOids oids sel b, o < 2^32 := by
  intro o hm
  obtain ⟨i, hi, rfl⟩ := List.getElem_of_mem hm
  simp only [setParseOids, List.getElem_mapIdx]
  split
  · exact hb
  · exact ho _ (List.getElem_mem _)

theorem setParseOids_getElem? (oids : List Nat) (sel : Nat → Bool) (b i o : Nat) (h : oids[i]? = some o) :
    (setParseOids oids sel b)[i]? = some (if sel i then b else o) := by
  simp [setParseOids, List.getElem?_mapIdx, h]

/-- 4b. **rewrite_wellformed for Parse, parameter types**: `replaceOIDsInParsePackets` + `SetParsePacket` on a
well-formed Parse message yields the specification encoding of the Parse message with the selected parameter types
replaced (same name, same query, SAME NUMBER of parameter types – the declared count is the number of OIDs that
follow) and the matching length field; when no parameter is selected the packet is untouched -/
theorem replaceParseOids_wellformed (name query lb : Bytes) (oids : List Nat) (sel : Nat → Bool) (b : Nat)
    (hn : NoZero name) (hq : NoZero query) (hl : oids.length < 2^16) (ho : ∀ o ∈ oids, o < 2^32)
    (hsz : (encodeParse name query oids).length + 4 < 2^32) :
    replaceParseOids ⟨80, lb, encodeParse name query oids⟩ sel b =
      .ok (if (List.range oids.length).any sel
        then ⟨80, beBytes 4 ((encodeParse name query (setParseOids oids sel b)).length + 4),
              encodeParse name query (setParseOids oids sel b)⟩
        else ⟨80, lb, encodeParse name query oids⟩) := by
  have hm : (ParsePacket.marshal ⟨name ++ [0], query ++ [0], beBytes 2 oids.length,
      (setParseOids oids sel b).map (beBytes 4)⟩) = encodeParse name query (setParseOids oids sel b) := by
    simp [ParsePacket.marshal, encodeParse, List.append_assoc, setParseOids_length]
  have hlen : (encodeParse name query (setParseOids oids sel b)).length = (encodeParse name query oids).length := by
    rw [encodeParse_length, encodeParse_length, setParseOids_length]
  unfold replaceParseOids
  rw [newParsePacket_encodeParse name query oids hn hq hl ho, Out.bind_ok]
  simp only [List.length_map, mapIdx_oids, hm]
  split
  · unfold packetLength
    rw [lenSize_eq, Nat.mod_eq_of_lt (by rw [hlen]; exact hsz)]
    rfl
  · rfl

theorem setParseOids_none (oids : List Nat) (sel : Nat → Bool) (b : Nat)
    (h : (List.range oids.length).any sel = false) : setParseOids oids sel b = oids := by
  apply List.ext_getElem?
  intro i
  simp only [setParseOids, List.getElem?_mapIdx]
  cases hi : oids[i]? with
  | none => rfl
  | some o =>
    have hlt : i < oids.length := by
      rcases Nat.lt_or_ge i oids.length with h1 | h1
      · exact h1
      · rw [List.getElem?_eq_none h1] at hi; cases hi
    have hs : sel i = false := by
      cases hsi : sel i with
      | false => rfl
      | true =>
        have : (List.range oids.length).any sel = true :=
          List.any_eq_true.mpr ⟨i, List.mem_range.mpr hlt, hsi⟩
        rw [h] at this; cases this
    simp [hs]

/-- 4c. **the Parse message as the proxy forwards it**: query text replaced by the observers and/or parameter types
replaced – always the specification encoding of (same name, new-or-same query, re-typed-or-same OIDs) with the length
field of the bytes that follow; untouched when nothing was replaced -/
theorem handleParse_wellformed (name query lb : Bytes) (oids : List Nat) (q : Option Bytes) (sel : Nat → Bool)
    (b : Nat) (hn : NoZero name) (hq : NoZero query) (hl : oids.length < 2^16) (ho : ∀ o ∈ oids, o < 2^32)
    (hq' : ∀ x, q = some x → NoZero x)
    (hsz : (encodeParse name (q.getD query) oids).length + 4 < 2^32) :
    handleParse ⟨80, lb, encodeParse name query oids⟩ q sel b =
      .ok (if q.isSome || (List.range oids.length).any sel
        then ⟨80, beBytes 4 ((encodeParse name (q.getD query) (setParseOids oids sel b)).length + 4),
              encodeParse name (q.getD query) (setParseOids oids sel b)⟩
        else ⟨80, lb, encodeParse name query oids⟩) := by
  unfold handleParse
  cases q with
  | none =>
    simp only [Option.getD_none] at hsz
    rw [Out.bind_ok, replaceParseOids_wellformed name query lb oids sel b hn hq hl ho hsz]
    simp
  | some t =>
    simp only [Option.getD_some] at hsz
    simp only [Option.getD_some, Option.isSome_some, Bool.true_or, if_true]
    rw [replaceParseQuery_wellformed name query t lb oids hn hq hl ho (hq' t rfl) hsz, Out.bind_ok,
      replaceParseOids_wellformed name t _ oids sel b hn (hq' t rfl) hl ho hsz]
    cases hs : (List.range oids.length).any sel with
    | true => rfl
    | false => simp [setParseOids_none oids sel b hs]

theorem decodeOids_encode (oids : List Nat) (ho : ∀ o ∈ oids, o < 2^32) :
    decodeOids oids.length ((oids.map (beBytes 4)).flatten) = some oids := by
  induction oids with
  | nil => rfl
  | cons o os ih =>
    have ih' := ih (fun x hx => ho x (List.mem_cons_of_mem _ hx))
    have hv := beVal_beBytes4 o (ho o List.mem_cons_self)
    obtain ⟨a, b, c, d, he⟩ : ∃ a b c d, beBytes 4 o = [a, b, c, d] := by
      have hlen := beBytes_length 4 o
      match beBytes 4 o, hlen with
      | [a, b, c, d], _ => exact ⟨a, b, c, d, rfl⟩
    rw [he] at hv
    show decodeOids (os.length + 1) ((beBytes 4 o) ++ (os.map (beBytes 4)).flatten) = _
    rw [he]
    show decodeOids (os.length + 1) (a :: b :: c :: d :: (os.map (beBytes 4)).flatten) = _
    unfold decodeOids
    rw [ih', hv]
    rfl

/-- 5. round trip of the specification codec -/
theorem decodeParse_encodeParse (name query : Bytes) (oids : List Nat) (hn : NoZero name)
    (hq : NoZero query) (hl : oids.length < 2^16) (ho : ∀ o ∈ oids, o < 2^32) :
    decodeParse (encodeParse name query oids) = some (name, query, oids) := by
  have e1 : encodeParse name query oids =
      name ++ 0 :: (query ++ 0 :: (beBytes 2 oids.length ++ (oids.map (beBytes 4)).flatten)) := by
    simp [encodeParse, List.append_assoc]
  have e2 : encodeParse name query oids =
      (name ++ [0]) ++ (query ++ 0 :: (beBytes 2 oids.length ++ (oids.map (beBytes 4)).flatten)) := by
    simp [encodeParse, List.append_assoc]
  have hi0 : indexZero (encodeParse name query oids) = some name.length := by
    rw [e1]; exact indexZero_append _ _ hn
  have hdrop : (encodeParse name query oids).drop (name.length + 1) =
      query ++ 0 :: (beBytes 2 oids.length ++ (oids.map (beBytes 4)).flatten) := by
    rw [e2]; exact List.drop_left' (by simp)
  have hi1 : indexZero (query ++ 0 :: (beBytes 2 oids.length ++ (oids.map (beBytes 4)).flatten)) =
      some query.length := indexZero_append _ _ hq
  have htail : (query ++ 0 :: (beBytes 2 oids.length ++ (oids.map (beBytes 4)).flatten)).drop
      (query.length + 1) = beBytes 2 oids.length ++ (oids.map (beBytes 4)).flatten := by
    have : query ++ 0 :: (beBytes 2 oids.length ++ (oids.map (beBytes 4)).flatten) =
        (query ++ [0]) ++ (beBytes 2 oids.length ++ (oids.map (beBytes 4)).flatten) := by simp
    rw [this]; exact List.drop_left' (by simp)
  have htake0 : (encodeParse name query oids).take name.length = name := by
    rw [e1]; exact List.take_left' rfl
  have htake1 : (query ++ 0 :: (beBytes 2 oids.length ++ (oids.map (beBytes 4)).flatten)).take
      query.length = query := List.take_left' rfl
  unfold decodeParse
  rw [hi0]
  simp only [hdrop, hi1, htail, htake0, htake1]
  rw [if_neg (by simp [List.length_append])]
  rw [List.take_left' (beBytes_length _ _), List.drop_left' (beBytes_length _ _),
    beVal_beBytes2 _ hl]
  rw [decodeOids_encode oids ho]
  rfl

/-! ### Bind: reading -/

theorem readString_append (s r : Bytes) (h : NoZero s) : readString (s ++ 0 :: r) = .ok (s, r) := by
  have h1 : (s ++ 0 :: r).take s.length = s := List.take_left' rfl
  have h2 : (s ++ 0 :: r).drop (s.length + 1) = r := by
    have : s ++ 0 :: r = (s ++ [0]) ++ r := by simp
    rw [this]; exact List.drop_left' (by simp)
  unfold readString
  rw [indexZero_append s r h]
  simp only [h1, h2]

theorem beVal_lt (b : Bytes) : beVal b < 256 ^ b.length := by
  unfold beVal
  have := leVal_lt b.reverse
  rwa [List.length_reverse] at this

theorem beVal_lt_of_le (b : Bytes) (k : Nat) (h : b.length ≤ k) (hk : k ≤ 7) : beVal b < 2 ^ 63 := by
  have h1 := beVal_lt b
  have h2 : 256 ^ b.length ≤ 256 ^ 7 := Nat.pow_le_pow_right (by decide) (by omega)
  have h3 : (256 : Nat) ^ 7 < 2 ^ 63 := by decide
  omega

/-- the counts of `readUint16Array` / `readParameterArray` and the value length of `readParameterArray` are read with
`int(binary.BigEndian.UintN(…))` – unsigned (regenerated `pgIntReads`) -/
theorem countConv_u16arr (b : Bytes) (h : beVal b < 2 ^ 63) :
    countConv Generated.Wire.pgU16ArrayCountConv b = beVal b := by
  unfold countConv
  have e : Generated.Wire.pgU16ArrayCountConv = ["int"] := rfl
  rw [e, goConvs_int _ h]

theorem countConv_params (b : Bytes) (h : beVal b < 2 ^ 63) :
    countConv Generated.Wire.pgParamArrayCountConv b = beVal b := by
  unfold countConv
  have e : Generated.Wire.pgParamArrayCountConv = ["int"] := rfl
  rw [e, goConvs_int _ h]

theorem lenConv_eq (b : Bytes) (h : beVal b < 2 ^ 63) : lenConv b = beVal b := by
  unfold lenConv
  have e : Generated.Wire.pgParamArrayLenConv = ["int"] := rfl
  rw [e, goConvs_int _ h]

theorem readU16s_encode (fs : List Nat) (rest : Bytes) (hf : ∀ f ∈ fs, f < 2^16) :
    readU16s fs.length ((fs.map (beBytes 2)).flatten ++ rest) = fs := by
  induction fs with
  | nil => rfl
  | cons f fs ih =>
    rw [List.length_cons, List.map_cons, List.flatten_cons, List.append_assoc]
    unfold readU16s
    rw [List.take_left' (beBytes_length _ _), List.drop_left' (beBytes_length _ _),
      beVal_beBytes2 _ (hf f List.mem_cons_self), ih (fun x hx => hf x (List.mem_cons_of_mem _ hx))]

theorem readUint16Array_encode (fs : List Nat) (rest : Bytes) (hl : fs.length < 2^16)
    (hf : ∀ f ∈ fs, f < 2^16) :
    readUint16Array (beBytes 2 fs.length ++ ((fs.map (beBytes 2)).flatten ++ rest)) = .ok (fs, rest) := by
  have hd : ((fs.map (beBytes 2)).flatten ++ rest).drop (2 * fs.length) = rest :=
    List.drop_left' (flatten_be2_length fs)
  have hc : countConv Generated.Wire.pgU16ArrayCountConv (beBytes 2 fs.length) = (fs.length : Int) := by
    rw [countConv_u16arr _ (by rw [beVal_beBytes2 _ hl]; omega), beVal_beBytes2 _ hl]
  unfold readUint16Array
  rw [if_neg (by simp [List.length_append])]
  simp only [List.take_left' (beBytes_length 2 fs.length), List.drop_left' (beBytes_length 2 fs.length), hc]
  rw [if_neg (by rw [List.length_append, flatten_be2_length]; omega), if_neg (by omega)]
  rw [Int.toNat_natCast, readU16s_encode fs rest hf, hd]

theorem readParamsArr_encode (pv : List (Option Bytes)) (rest : Bytes)
    (hb : ∀ b, some b ∈ pv → b.length < 2^32 - 1) :
    readParamsArr pv.length ((pv.map writeParam).flatten ++ rest) = .ok (pv, rest) := by
  induction pv with
  | nil => rfl
  | cons v pv ih =>
    have ih' := ih (fun b hm => hb b (List.mem_cons_of_mem _ hm))
    rw [List.length_cons, List.map_cons, List.flatten_cons, List.append_assoc]
    cases v with
    | none =>
      show readParamsArr (pv.length + 1) (beBytes 4 0xFFFFFFFF ++ _) = _
      have hc : lenConv (beBytes 4 0xFFFFFFFF) = 0xFFFFFFFF := by
        rw [lenConv_eq _ (by rw [beVal_beBytes4 _ (by omega)]; omega), beVal_beBytes4 _ (by omega)]
        rfl
      simp only [readParamsArr]
      rw [if_neg (by simp [List.length_append])]
      rw [List.take_left' (beBytes_length _ _), List.drop_left' (beBytes_length _ _), hc, if_pos rfl, ih']
      rfl
    | some b =>
      have hbl := hb b List.mem_cons_self
      show readParamsArr (pv.length + 1) ((beBytes 4 b.length ++ b) ++ _) = _
      have hc : lenConv (beBytes 4 b.length) = (b.length : Int) := by
        rw [lenConv_eq _ (by rw [beVal_beBytes4 _ (by omega)]; omega), beVal_beBytes4 _ (by omega)]
      rw [List.append_assoc]
      simp only [readParamsArr]
      rw [if_neg (by simp [List.length_append])]
      rw [List.take_left' (beBytes_length _ _), List.drop_left' (beBytes_length _ _), hc,
        if_neg (by omega), if_neg (by simp [List.length_append]; omega), if_neg (by omega), Int.toNat_natCast,
        List.take_left' rfl, List.drop_left' rfl, ih']
      rfl

theorem readParameterArray_encode (pv : List (Option Bytes)) (rest : Bytes) (hl : pv.length < 2^16)
    (hb : ∀ b, some b ∈ pv → b.length < 2^32 - 1) :
    readParameterArray (beBytes 2 pv.length ++ ((pv.map writeParam).flatten ++ rest)) =
      .ok (pv, rest) := by
  have hc : countConv Generated.Wire.pgParamArrayCountConv (beBytes 2 pv.length) = (pv.length : Int) := by
    rw [countConv_params _ (by rw [beVal_beBytes2 _ hl]; omega), beVal_beBytes2 _ hl]
  unfold readParameterArray
  rw [if_neg (by simp [List.length_append])]
  simp only [List.take_left' (beBytes_length _ _), List.drop_left' (beBytes_length _ _), hc]
  rw [if_neg (by omega), Int.toNat_natCast, readParamsArr_encode pv rest hb]

theorem encodeBind_eq (portal stmt : Bytes) (pf : List Nat) (pv : List (Option Bytes)) (rf : List Nat) :
    encodeBind portal stmt pf pv rf =
      portal ++ 0 :: (stmt ++ 0 :: (beBytes 2 pf.length ++ ((pf.map (beBytes 2)).flatten ++
        (beBytes 2 pv.length ++ ((pv.map writeParam).flatten ++
          (beBytes 2 rf.length ++ ((rf.map (beBytes 2)).flatten ++ []))))))) := by
  simp [encodeBind, List.append_assoc]

/-- 6. `NewBindPacket` reads what the specification encoder writes -/
theorem newBindPacket_encodeBind (portal stmt : Bytes) (pf : List Nat) (pv : List (Option Bytes))
    (rf : List Nat) (hp : NoZero portal) (hs : NoZero stmt)
    (hpf : pf.length < 2^16 ∧ ∀ f ∈ pf, f < 2^16) (hrf : rf.length < 2^16 ∧ ∀ f ∈ rf, f < 2^16)
    (hpv : pv.length < 2^16 ∧ ∀ b, some b ∈ pv → b.length < 2^32 - 1) :
    newBindPacket (encodeBind portal stmt pf pv rf) = .ok ⟨portal, stmt, pf, pv, rf⟩ := by
  rw [encodeBind_eq]
  unfold newBindPacket
  -- (`rw`, not `simp only`: a definitional step here makes the kernel compare the unevaluated readers)
  rw [readString_append _ _ hp, Out.bind_ok]
  dsimp only
  rw [readString_append _ _ hs, Out.bind_ok]
  dsimp only
  rw [readUint16Array_encode pf _ hpf.1 hpf.2, Out.bind_ok]
  dsimp only
  rw [readParameterArray_encode pv _ hpv.1 hpv.2, Out.bind_ok]
  dsimp only
  rw [readUint16Array_encode rf _ hrf.1 hrf.2, Out.bind_ok]
  rfl

/-! ### Bind: marshalling -/

theorem writeUint16Array_ok (vs : List Nat) (h : vs.length < 2^16) :
    writeUint16Array vs = .ok (beBytes 2 vs.length ++ (vs.map (beBytes 2)).flatten) := by
  unfold writeUint16Array
  rw [if_neg (by omega)]

theorem writeParameterArray_ok (ps : List (Option Bytes)) (h : ps.length < 2^16)
    (hb : ∀ b, some b ∈ ps → b.length < 2^32) :
    writeParameterArray ps = .ok (beBytes 2 ps.length ++ (ps.map writeParam).flatten) := by
  unfold writeParameterArray
  rw [if_neg (by omega)]
  split
  · next hc =>
    exfalso
    rw [List.any_eq_true] at hc
    obtain ⟨p, hp, hpc⟩ := hc
    cases p with
    | none => simp at hpc
    | some b =>
      have := hb b hp
      simp at hpc
      omega
  · rfl

theorem BindPacket.marshal_ok (portal stmt : Bytes) (pf : List Nat) (pv : List (Option Bytes))
    (rf : List Nat) (hpf : pf.length < 2^16) (hrf : rf.length < 2^16) (hpv : pv.length < 2^16)
    (hb : ∀ b, some b ∈ pv → b.length < 2^32) :
    BindPacket.marshal ⟨portal, stmt, pf, pv, rf⟩ = .ok (encodeBind portal stmt pf pv rf) := by
  unfold BindPacket.marshal
  simp only [writeUint16Array_ok pf hpf, writeUint16Array_ok rf hrf, writeParameterArray_ok pv hpv hb,
    Out.bind_ok, Out.pure_eq]
  simp [encodeBind, List.append_assoc]

set_option linter.unusedVariables false in
/-- 7. relay identity: the packet `NewBindPacket` reads from an encoded Bind message
(`newBindPacket_encodeBind`) marshals back byte-identically -/
theorem marshal_newBindPacket (portal stmt : Bytes) (pf : List Nat) (pv : List (Option Bytes))
    (rf : List Nat) (hp : NoZero portal) (hs : NoZero stmt)
    (hpf : pf.length < 2^16 ∧ ∀ f ∈ pf, f < 2^16) (hrf : rf.length < 2^16 ∧ ∀ f ∈ rf, f < 2^16)
    (hpv : pv.length < 2^16 ∧ ∀ b, some b ∈ pv → b.length < 2^32 - 1) :
    BindPacket.marshal ⟨portal, stmt, pf, pv, rf⟩ = .ok (encodeBind portal stmt pf pv rf) :=
  BindPacket.marshal_ok portal stmt pf pv rf hpf.1 hrf.1 hpv.1
    (fun b hm => by have := hpv.2 b hm; omega)

/-- 7, in one statement: parse, then marshal -/
theorem marshal_newBindPacket_relay (portal stmt : Bytes) (pf : List Nat) (pv : List (Option Bytes))
    (rf : List Nat) (hp : NoZero portal) (hs : NoZero stmt)
    (hpf : pf.length < 2^16 ∧ ∀ f ∈ pf, f < 2^16) (hrf : rf.length < 2^16 ∧ ∀ f ∈ rf, f < 2^16)
    (hpv : pv.length < 2^16 ∧ ∀ b, some b ∈ pv → b.length < 2^32 - 1) :
    ∃ p, newBindPacket (encodeBind portal stmt pf pv rf) = .ok p ∧
      BindPacket.marshal p = .ok (encodeBind portal stmt pf pv rf) :=
  ⟨_, newBindPacket_encodeBind portal stmt pf pv rf hp hs hpf hrf hpv,
    marshal_newBindPacket portal stmt pf pv rf hp hs hpf hrf hpv⟩

/-! ### Bind: rewriting -/

/-- the format of parameter `i` as a boolean (`true` = binary); `false` when the lookup fails -/
def fmtBool (i : Nat) (pf : List Nat) : Bool :=
  match formatByIndex i pf with
  | .ok b => b
  | _ => false

/-- the wire code of a format -/
def fmtCode (b : Bool) : Nat :=
  if b then Generated.Wire.pgBindFormatBinary else Generated.Wire.pgBindFormatText

/-- the formats of parameters `i, i+1, …, i+n-1` -/
def fmtBools (pf : List Nat) : Nat → Nat → List Bool
  | _, 0 => []
  | i, n+1 => fmtBool i pf :: fmtBools pf (i+1) n

/-- the format codes `SetParameters` writes for `n` parameters whose formats are given by `pf`:
nothing for no parameter, a single entry when all parameters have the same format, otherwise one
entry per parameter -/
def canonFormats (pf : List Nat) (n : Nat) : List Nat :=
  match fmtBools pf 0 n with
  | [] => []
  | f0 :: rest => if rest.all (fun b => b = f0) then [fmtCode f0] else (f0 :: rest).map fmtCode

/-- what `GetParameters` returns -/
def paramsOf (pf : List Nat) : Nat → List (Option Bytes) → List (Bool × Option Bytes)
  | _, [] => []
  | i, v :: vs => (fmtBool i pf, v) :: paramsOf pf (i+1) vs

theorem fmtBools_length (pf : List Nat) (s n : Nat) : (fmtBools pf s n).length = n := by
  induction n generalizing s with
  | zero => rfl
  | succ n ih => simp [fmtBools, ih]

theorem fmtBools_getElem? (pf : List Nat) (s n j : Nat) (h : j < n) :
    (fmtBools pf s n)[j]? = some (fmtBool (s + j) pf) := by
  induction n generalizing s j with
  | zero => omega
  | succ n ih =>
    cases j with
    | zero => simp [fmtBools]
    | succ j =>
      simp only [fmtBools, List.getElem?_cons_succ]
      rw [ih (s + 1) j (by omega)]
      congr 2
      omega

theorem paramsOf_fst (pf : List Nat) (i : Nat) (vs : List (Option Bytes)) :
    (paramsOf pf i vs).map (·.1) = fmtBools pf i vs.length := by
  induction vs generalizing i with
  | nil => rfl
  | cons v vs ih => simp [paramsOf, fmtBools, ih]

theorem paramsOf_snd (pf : List Nat) (i : Nat) (vs : List (Option Bytes)) :
    (paramsOf pf i vs).map (·.2) = vs := by
  induction vs generalizing i with
  | nil => rfl
  | cons v vs ih => simp [paramsOf, ih]

theorem getParameters_go (p : BindPacket) (i : Nat) (vs : List (Option Bytes))
    (hf : ∀ j, j < vs.length → ∃ b, formatByIndex (i + j) p.paramFormats = .ok b) :
    BindPacket.getParameters.go p i vs = .ok (paramsOf p.paramFormats i vs) := by
  induction vs generalizing i with
  | nil => rfl
  | cons v vs ih =>
    obtain ⟨b, hb⟩ := hf 0 (by simp)
    rw [Nat.add_zero] at hb
    have hfb : fmtBool i p.paramFormats = b := by simp [fmtBool, hb]
    unfold BindPacket.getParameters.go
    rw [hb]
    simp only [Out.bind_ok]
    rw [ih (i + 1) (fun j hj => by
      have := hf (j + 1) (by simp; omega)
      rwa [show i + (j + 1) = i + 1 + j by omega] at this)]
    simp only [Out.bind_ok, Out.pure_eq, paramsOf, hfb]

theorem rewriteBind_go (g : Nat → Bool → Option Bytes → Out (Option Bytes)) (f : Nat → Bytes → Bytes)
    (hg : ∀ i b v, g i b v = .ok (v.map (f i))) (pf : List Nat) (i : Nat) (vs : List (Option Bytes)) :
    rewriteBind.go g i (paramsOf pf i vs) = .ok (paramsOf pf i (mapRow f i vs)) := by
  induction vs generalizing i with
  | nil => rfl
  | cons v vs ih =>
    cases v with
    | none => simp [paramsOf, rewriteBind.go, hg, mapRow, ih]
    | some b => simp [paramsOf, rewriteBind.go, hg, mapRow, ih]

theorem setParameters_paramsOf (portal stmt : Bytes) (pf0 pf : List Nat) (pv0 vs : List (Option Bytes))
    (rf : List Nat) (hne : vs ≠ []) :
    BindPacket.setParameters ⟨portal, stmt, pf0, pv0, rf⟩ (paramsOf pf 0 vs) =
      ⟨portal, stmt, canonFormats pf vs.length, vs, rf⟩ := by
  cases vs with
  | nil => exact absurd rfl hne
  | cons v vs =>
    have h1 := paramsOf_fst pf 1 vs
    have h2 := paramsOf_snd pf 1 vs
    simp only [paramsOf, BindPacket.setParameters, canonFormats, List.length_cons, fmtBools, ← h1,
      List.all_map, List.map_cons, List.map_map, h2, Nat.zero_add]
    rfl

theorem formatByIndex_single (i : Nat) (b : Bool) : formatByIndex i [fmtCode b] = .ok b := by
  cases b <;> rfl

theorem formatByIndex_codes (i : Nat) (bs : List Bool) (hl : bs.length ≠ 1) (b : Bool)
    (h : bs[i]? = some b) : formatByIndex i (bs.map fmtCode) = .ok b := by
  cases bs with
  | nil => simp at h
  | cons x xs =>
    have hl' : ¬ ((x :: xs).map fmtCode).length = 1 := by rwa [List.length_map]
    have hg : ((x :: xs).map fmtCode)[i]? = some (fmtCode b) := by
      rw [List.getElem?_map, h]; rfl
    unfold formatByIndex
    simp only [List.map_cons] at hl' hg ⊢
    rw [if_neg hl', hg]
    cases b <;> rfl

theorem canonFormats_length_le (pf : List Nat) (n : Nat) : (canonFormats pf n).length ≤ n := by
  cases n with
  | zero => simp [canonFormats, fmtBools]
  | succ n =>
    simp only [canonFormats, fmtBools]
    split
    · simp
    · simp [fmtBools_length]

/-- 8, formats: the format codes written by `SetParameters` denote, for every parameter, the format
it had before -/
theorem formatByIndex_canonFormats (pf : List Nat) (n : Nat)
    (hf : ∀ i, i < n → ∃ b, formatByIndex i pf = .ok b) :
    ∀ i, i < n → formatByIndex i (canonFormats pf n) = formatByIndex i pf := by
  intro i hi
  obtain ⟨b, hb⟩ := hf i hi
  have hfb : fmtBool i pf = b := by simp [fmtBool, hb]
  rw [hb]
  cases n with
  | zero => omega
  | succ n =>
    have hget := fmtBools_getElem? pf 0 (n + 1) i hi
    rw [Nat.zero_add, hfb] at hget
    simp only [fmtBools] at hget
    simp only [canonFormats, fmtBools]
    split
    · next hall =>
      rw [formatByIndex_single]
      congr 1
      cases i with
      | zero => simpa using hget
      | succ j =>
        rw [List.getElem?_cons_succ] at hget
        have hm := List.mem_of_getElem? hget
        rw [List.all_eq_true] at hall
        have := hall b hm
        exact (by simpa using this : b = fmtBool 0 pf).symm
    · next hnall =>
      apply formatByIndex_codes i _ _ b hget
      intro hlen
      apply hnall
      have : fmtBools pf (0 + 1) n = [] := by
        apply List.eq_nil_of_length_eq_zero
        simpa using hlen
      rw [this]
      rfl

/-- 8. **rewrite_wellformed for Bind**: after a total per-parameter transformation (NULL stays NULL)
the packet holds the specification encoding of the Bind message with the transformed parameters and
the canonical format codes, and the matching length field -/
theorem rewriteBind_wellformed (f : Nat → Bytes → Bytes)
    (g : Nat → Bool → Option Bytes → Out (Option Bytes))
    (hg : ∀ i b v, g i b v = .ok (v.map (f i)))
    (portal stmt lb : Bytes) (pf : List Nat) (pv : List (Option Bytes)) (rf : List Nat)
    (hp : NoZero portal) (hs : NoZero stmt)
    (hpf : pf.length < 2^16 ∧ ∀ f ∈ pf, f < 2^16) (hrf : rf.length < 2^16 ∧ ∀ f ∈ rf, f < 2^16)
    (hpv : pv.length < 2^16 ∧ ∀ b, some b ∈ pv → b.length < 2^32 - 1)
    (hpv' : ∀ b, some b ∈ mapRow f 0 pv → b.length < 2^32 - 1)
    (hne : pv ≠ [])
    (hfmt : ∀ i, i < pv.length → ∃ b, formatByIndex i pf = .ok b)
    (hsz : (encodeBind portal stmt (canonFormats pf pv.length) (mapRow f 0 pv) rf).length + 4 < 2^32) :
    rewriteBind g ⟨66, lb, encodeBind portal stmt pf pv rf⟩ =
      .ok ⟨66, beBytes 4 ((encodeBind portal stmt (canonFormats pf pv.length) (mapRow f 0 pv) rf).length + 4),
        encodeBind portal stmt (canonFormats pf pv.length) (mapRow f 0 pv) rf⟩ := by
  have hget : BindPacket.getParameters ⟨portal, stmt, pf, pv, rf⟩ = .ok (paramsOf pf 0 pv) := by
    unfold BindPacket.getParameters
    exact getParameters_go ⟨portal, stmt, pf, pv, rf⟩ 0 pv (fun j hj => by simpa using hfmt j hj)
  have hne' : mapRow f 0 pv ≠ [] := by
    intro h
    have := mapRow_length f 0 pv
    rw [h] at this
    exact hne (List.eq_nil_of_length_eq_zero this.symm)
  have hset := setParameters_paramsOf portal stmt pf pf pv (mapRow f 0 pv) rf hne'
  rw [mapRow_length] at hset
  have hcl := canonFormats_length_le pf pv.length
  have hmar := BindPacket.marshal_ok portal stmt (canonFormats pf pv.length) (mapRow f 0 pv) rf
    (by omega) hrf.1 (by rw [mapRow_length]; exact hpv.1) (fun b hm => by have := hpv' b hm; omega)
  unfold rewriteBind
  simp only [newBindPacket_encodeBind portal stmt pf pv rf hp hs hpf hrf hpv, Out.bind_ok, hget,
    rewriteBind_go g f hg, hset, hmar, Out.pure_eq]
  unfold packetLength
  rw [lenSize_eq, Nat.mod_eq_of_lt hsz]

/-- 8, on the wire: the rewritten packet marshals to a well-framed Bind message -/
theorem rewriteBind_marshal (f : Nat → Bytes → Bytes)
    (g : Nat → Bool → Option Bytes → Out (Option Bytes))
    (hg : ∀ i b v, g i b v = .ok (v.map (f i)))
    (portal stmt lb : Bytes) (pf : List Nat) (pv : List (Option Bytes)) (rf : List Nat)
    (hp : NoZero portal) (hs : NoZero stmt)
    (hpf : pf.length < 2^16 ∧ ∀ f ∈ pf, f < 2^16) (hrf : rf.length < 2^16 ∧ ∀ f ∈ rf, f < 2^16)
    (hpv : pv.length < 2^16 ∧ ∀ b, some b ∈ pv → b.length < 2^32 - 1)
    (hpv' : ∀ b, some b ∈ mapRow f 0 pv → b.length < 2^32 - 1)
    (hne : pv ≠ [])
    (hfmt : ∀ i, i < pv.length → ∃ b, formatByIndex i pf = .ok b)
    (hsz : (encodeBind portal stmt (canonFormats pf pv.length) (mapRow f 0 pv) rf).length + 4 < 2^32) :
    ∃ p, rewriteBind g ⟨66, lb, encodeBind portal stmt pf pv rf⟩ = .ok p ∧
      marshal p = encodeMsg 66 (encodeBind portal stmt (canonFormats pf pv.length) (mapRow f 0 pv) rf) :=
  ⟨_, rewriteBind_wellformed f g hg portal stmt lb pf pv rf hp hs hpf hrf hpv hpv' hne hfmt hsz,
    marshal_encodeMsg 66 _ (by decide)⟩

/-! ### no panic, whatever the input -/

theorem Out.bind_ne_panic {α β : Type} {x : Out α} {f : α → Out β} (hx : x ≠ .panic)
    (hf : ∀ a, f a ≠ .panic) : (x >>= f) ≠ .panic := by
  cases x with
  | ok a => exact hf a
  | err => intro h; cases h
  | panic => exact absurd rfl hx

theorem goSlice_ok_of_le (b : Bytes) (lo hi : Nat) (h : lo ≤ hi ∧ hi ≤ b.length) :
    goSlice b lo hi = .ok ((b.take hi).drop lo) := by
  unfold goSlice
  rw [if_pos h]

theorem chkSlice_no_panic (b : Bytes) (lo hi : Nat) : chkSlice b lo hi ≠ .panic := by
  unfold chkSlice
  cases h : goSlice b lo hi <;> simp

theorem readParams_no_panic (k : Nat) (rest : Bytes) : readParams k rest ≠ .panic := by
  induction k generalizing rest with
  | zero => simp [readParams]
  | succ k ih =>
    match rest with
    | a :: b :: c :: d :: r =>
      unfold readParams
      exact Out.bind_ne_panic (ih r) (fun ps => by simp)
    | [] | [_] | [_, _] | [_, _, _] => simp [readParams]

theorem indexZero_lt {data : Bytes} {i : Nat} (h : indexZero data = some i) : i < data.length := by
  induction data generalizing i with
  | nil => cases h
  | cons b r ih =>
    unfold indexZero at h
    split at h
    · cases h; simp
    · cases hr : indexZero r with
      | none => rw [hr] at h; cases h
      | some j =>
        rw [hr] at h
        cases h
        have := ih hr
        simp; omega

theorem newParsePacket_no_panic (data : Bytes) : newParsePacket data ≠ .panic := by
  cases h0 : indexZero data with
  | none => simp [newParsePacket, h0]
  | some i0 =>
    have l0 := indexZero_lt h0
    cases h1 : indexZero (data.drop (i0 + 1)) with
    | none => simp [newParsePacket, h0, h1]
    | some i1 =>
      have l1 := indexZero_lt h1
      rw [List.length_drop] at l1
      simp only [newParsePacket, h0, h1]
      rw [goSlice_ok_of_le data 0 (i0 + 1) (by omega),
        goSlice_ok_of_le data (i0 + 1) (i1 + (i0 + 1) + 1) (by omega)]
      simp only [Out.bind_ok]
      refine Out.bind_ne_panic (chkSlice_no_panic _ _ _) (fun np => ?_)
      split
      · exact Out.bind_ne_panic (readParams_no_panic _ _) (fun ps => by simp)
      · simp

theorem replaceParseQuery_no_panic (p : Packet) (q : Bytes) : replaceParseQuery p q ≠ .panic := by
  have h := newParsePacket_no_panic p.body
  unfold replaceParseQuery
  cases hc : newParsePacket p.body with
  | ok pp => simp
  | err => simp
  | panic => exact absurd hc h

theorem replaceParseOids_no_panic (p : Packet) (sel : Nat → Bool) (b : Nat) : replaceParseOids p sel b ≠ .panic := by
  unfold replaceParseOids
  refine Out.bind_ne_panic (newParsePacket_no_panic _) (fun pp => ?_)
  split <;> simp

theorem handleParse_no_panic (p : Packet) (q : Option Bytes) (sel : Nat → Bool) (b : Nat) :
    handleParse p q sel b ≠ .panic := by
  unfold handleParse
  refine Out.bind_ne_panic ?_ (fun p1 => replaceParseOids_no_panic _ _ _)
  cases q with
  | none => simp
  | some t => exact replaceParseQuery_no_panic p t

theorem readString_no_panic (data : Bytes) : readString data ≠ .panic := by
  unfold readString
  split <;> simp

theorem take_len_le (b : Bytes) (k : Nat) : (b.take k).length ≤ k := by
  rw [List.length_take]; omega

theorem readUint16Array_no_panic (data : Bytes) : readUint16Array data ≠ .panic := by
  have hc := countConv_u16arr (data.take 2) (beVal_lt_of_le _ 2 (take_len_le _ _) (by decide))
  unfold readUint16Array
  split
  · simp
  · simp only [hc]
    split
    · simp
    · rw [if_neg (by omega)]
      simp

theorem readParamsArr_no_panic (k : Nat) (s : Bytes) : readParamsArr k s ≠ .panic := by
  induction k generalizing s with
  | zero => simp [readParamsArr]
  | succ k ih =>
    have hc := lenConv_eq (s.take 4) (beVal_lt_of_le _ 4 (take_len_le _ _) (by decide))
    simp only [readParamsArr, hc]
    split
    · simp
    · split
      · exact Out.bind_ne_panic (ih _) (fun a => by obtain ⟨r, rest⟩ := a; simp)
      · split
        · simp
        · rw [if_neg (by omega)]
          exact Out.bind_ne_panic (ih _) (fun a => by obtain ⟨r, rest⟩ := a; simp)

theorem readParameterArray_no_panic (data : Bytes) : readParameterArray data ≠ .panic := by
  have hc := countConv_params (data.take 2) (beVal_lt_of_le _ 2 (take_len_le _ _) (by decide))
  unfold readParameterArray
  split
  · simp
  · simp only [hc]
    rw [if_neg (by omega)]
    exact readParamsArr_no_panic _ _

theorem newBindPacket_no_panic (data : Bytes) : newBindPacket data ≠ .panic := by
  unfold newBindPacket
  refine Out.bind_ne_panic (readString_no_panic _) (fun a => ?_)
  obtain ⟨portal, d1⟩ := a
  refine Out.bind_ne_panic (readString_no_panic _) (fun a => ?_)
  obtain ⟨stmt, d2⟩ := a
  refine Out.bind_ne_panic (readUint16Array_no_panic _) (fun a => ?_)
  obtain ⟨pf, d3⟩ := a
  refine Out.bind_ne_panic (readParameterArray_no_panic _) (fun a => ?_)
  obtain ⟨pv, d4⟩ := a
  refine Out.bind_ne_panic (readUint16Array_no_panic _) (fun a => ?_)
  obtain ⟨rf, d5⟩ := a
  simp

theorem writeUint16Array_no_panic (vs : List Nat) : writeUint16Array vs ≠ .panic := by
  unfold writeUint16Array
  split <;> simp

theorem writeParameterArray_no_panic (ps : List (Option Bytes)) : writeParameterArray ps ≠ .panic := by
  unfold writeParameterArray
  split
  · simp
  · split <;> simp

theorem BindPacket.marshal_no_panic (p : BindPacket) : p.marshal ≠ .panic := by
  unfold BindPacket.marshal
  refine Out.bind_ne_panic (writeUint16Array_no_panic _) (fun a => ?_)
  refine Out.bind_ne_panic (writeParameterArray_no_panic _) (fun b => ?_)
  refine Out.bind_ne_panic (writeUint16Array_no_panic _) (fun c => ?_)
  simp

theorem getParameters_go_no_panic (p : BindPacket) (i : Nat) (vs : List (Option Bytes)) :
    BindPacket.getParameters.go p i vs ≠ .panic := by
  induction vs generalizing i with
  | nil => simp [BindPacket.getParameters.go]
  | cons v vs ih =>
    unfold BindPacket.getParameters.go
    refine Out.bind_ne_panic (formatByIndex_no_panic _ _) (fun f => ?_)
    refine Out.bind_ne_panic (ih _) (fun r => ?_)
    simp

theorem getParameters_no_panic (p : BindPacket) : p.getParameters ≠ .panic := by
  unfold BindPacket.getParameters
  exact getParameters_go_no_panic p 0 _

theorem rewriteBind_go_no_panic (g : Nat → Bool → Option Bytes → Out (Option Bytes))
    (hg : ∀ i b v, g i b v ≠ .panic) (i : Nat) (ps : List (Bool × Option Bytes)) :
    rewriteBind.go g i ps ≠ .panic := by
  induction ps generalizing i with
  | nil => simp [rewriteBind.go]
  | cons x ps ih =>
    obtain ⟨f, v⟩ := x
    unfold rewriteBind.go
    refine Out.bind_ne_panic (hg _ _ _) (fun v' => ?_)
    refine Out.bind_ne_panic (ih _) (fun r => ?_)
    simp

/-- the Bind handling never panics, whatever the packet, as long as the observers do not -/
theorem rewriteBind_no_panic (g : Nat → Bool → Option Bytes → Out (Option Bytes))
    (hg : ∀ i b v, g i b v ≠ .panic) (p : Packet) : rewriteBind g p ≠ .panic := by
  unfold rewriteBind
  refine Out.bind_ne_panic (newBindPacket_no_panic _) (fun bp => ?_)
  cases h1 : bp.getParameters with
  | panic => exact absurd h1 (getParameters_no_panic bp)
  | err => simp
  | ok params =>
    simp only []
    cases h2 : rewriteBind.go g 0 params with
    | panic => exact absurd h2 (rewriteBind_go_no_panic g hg 0 params)
    | err => simp
    | ok params' =>
      simp only []
      cases h3 : (bp.setParameters params').marshal with
      | panic => exact absurd h3 (BindPacket.marshal_no_panic _)
      | err => simp
      | ok body => simp

/-! ### sanity checks -/

example : canonFormats [] 2 = [0] := by decide
example : canonFormats [1] 3 = [1] := by decide
example : canonFormats [1, 1] 2 = [1] := by decide
example : canonFormats [0, 1] 2 = [0, 1] := by decide

/-- non-vacuity of `rewriteBind_wellformed`: two parameters (text value, binary NULL) -/
example : rewriteBind (fun i _ v => .ok (v.map ((fun _ d => d ++ [2]) i)))
      ⟨66, [], encodeBind [112] [115] [0, 1] [some [1], none] [1]⟩ =
    .ok ⟨66, beBytes 4 ((encodeBind [112] [115] (canonFormats [0, 1] 2)
        (mapRow (fun _ d => d ++ [2]) 0 [some [1], none]) [1]).length + 4),
      encodeBind [112] [115] (canonFormats [0, 1] 2) (mapRow (fun _ d => d ++ [2]) 0 [some [1], none]) [1]⟩ :=
  rewriteBind_wellformed (fun _ d => d ++ [2]) _ (fun _ _ _ => rfl) [112] [115] [] [0, 1]
    [some [1], none] [1]
    (by intro c hc; simp at hc; subst hc; decide) (by intro c hc; simp at hc; subst hc; decide)
    ⟨by decide, by intro x hx; simp at hx; omega⟩ ⟨by decide, by intro x hx; simp at hx; omega⟩
    ⟨by decide, by intro b hb; simp at hb; subst hb; decide⟩
    (by intro b hb; simp [mapRow] at hb; subst hb; decide)
    (by simp)
    (by
      intro i hi
      have : i = 0 ∨ i = 1 := by simp at hi; omega
      rcases this with h | h <;> subst h <;> exact ⟨_, rfl⟩)
    (by decide)

end AcraModel.Wire.Pg
