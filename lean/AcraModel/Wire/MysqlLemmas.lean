import AcraModel.Wire.MysqlRow
import AcraModel.Wire.LenEncProofs
/-!
Lemmas about the MySQL wire models (`MysqlPacket.lean`, `MysqlRow.lean`):
packet framing (single packets are relayed identically, `SetData`/`replaceQuery` keep the declared
length right below 2^24-1, and the two known defects for payloads of 2^24-1 bytes and more),
text rows and binary rows (specification codec round trips, and the row processors produce the
specification encoding of the transformed row).
-/
namespace AcraModel.Wire.My
open AcraModel AcraModel.Wire.LenEnc AcraModel.Wire.LenEnc.Proofs

/-! ## A. packets -/

theorem maxPayloadLen_eq : maxPayloadLen = 16777215 := rfl
theorem headerSize_eq : headerSize = 4 := rfl

theorem frame_eq (seq : Nat) (payload : Bytes) :
    frame seq payload = (leBytes 3 payload.length ++ [UInt8.ofNat (seq % 256)]) ++ payload := rfl

theorem frame_length (seq : Nat) (payload : Bytes) : (frame seq payload).length = 4 + payload.length := by
  simp [frame]; omega

/-- the declared length of a header whose first three bytes are `leBytes 3 n` -/
theorem payloadLength_leBytes (n : Nat) (t : Bytes) (h : n < 16777216) :
    payloadLength (leBytes 3 n ++ t) = n := by
  unfold payloadLength
  rw [List.take_left' (by simp)]
  exact leVal_leBytes_of_lt 3 n (by omega)

/-- one step of `readPacket` on a stream that starts with a complete fragment -/
theorem readPacket_step (h p rest : Bytes) (hh : h.length = 4) (hp : payloadLength h = p.length)
    (h1 : 1 ≤ p.length) :
    readPacket (h ++ p ++ rest) =
      if p.length < maxPayloadLen then .ok (h, p, rest)
      else match readPacket rest with
        | .ok (h', d', rest') => .ok (h', p ++ d', rest')
        | .err => .err
        | .panic => .panic := by
  rw [readPacket]
  have e1 : List.take headerSize (h ++ p ++ rest) = h := by
    rw [List.append_assoc]; exact List.take_left' (by rw [hh]; rfl)
  have e2 : List.drop headerSize (h ++ p ++ rest) = p ++ rest := by
    rw [List.append_assoc]; exact List.drop_left' (by rw [hh]; rfl)
  have e3 : ¬ (h ++ p ++ rest).length < headerSize := by
    simp only [List.length_append, headerSize_eq]; omega
  rw [if_neg e3]
  simp only [e1, e2, hp]
  rw [if_neg (by omega), if_neg (by simp)]
  simp only [List.take_left' rfl, List.drop_left' rfl]
  split
  · rfl
  · cases readPacket rest with
    | ok x => rfl
    | err => rfl
    | panic => rfl

theorem readPacket_frame (seq : Nat) (payload rest : Bytes) (h1 : 1 ≤ payload.length)
    (h2 : payload.length < maxPayloadLen) :
    readPacket (frame seq payload ++ rest) =
      .ok (leBytes 3 payload.length ++ [UInt8.ofNat (seq % 256)], payload, rest) := by
  rw [frame_eq, readPacket_step _ _ _ (by simp) (payloadLength_leBytes _ _ (by rw [maxPayloadLen_eq] at h2; omega)) h1,
    if_pos h2]

/-- **Relay identity for single packets**: a packet with a payload of 1 … 2^24-2 bytes is read back
with its header and payload, leaving the rest of the stream. -/
theorem read_frame (seq : Nat) (payload rest : Bytes) (h1 : 1 ≤ payload.length)
    (h2 : payload.length < maxPayloadLen) :
    read (frame seq payload ++ rest) =
      .ok (⟨leBytes 3 payload.length ++ [UInt8.ofNat (seq % 256)], payload⟩, rest) := by
  unfold read
  rw [readPacket_frame seq payload rest h1 h2]
  rfl

/-- … and `Dump` of what was read is byte-identical to what was received. -/
theorem dump_read_frame (seq : Nat) (payload rest : Bytes) (h1 : 1 ≤ payload.length)
    (h2 : payload.length < maxPayloadLen) :
    ∃ p, read (frame seq payload ++ rest) = .ok (p, rest) ∧ dump p = frame seq payload :=
  ⟨_, read_frame seq payload rest h1 h2, rfl⟩

/-- `SetData` below the fragment limit: the dumped packet is length ++ old sequence id ++ new data,
and the declared length is the actual one. -/
theorem setData_wellformed (h old d : Bytes) (hd : d.length < maxPayloadLen) (hh : h.length = 4) :
    dump (setData ⟨h, old⟩ d) = leBytes 3 d.length ++ h.drop 3 ++ d ∧
    (h.drop 3).length = 1 ∧
    payloadLength (setData ⟨h, old⟩ d).header = d.length := by
  refine ⟨rfl, by simp [hh], ?_⟩
  show payloadLength (leBytes 3 d.length ++ h.drop 3) = d.length
  exact payloadLength_leBytes _ _ (by rw [maxPayloadLen_eq] at hd; omega)

/-- **Known defect**: `SetData` with 2^24 bytes declares a payload length of 0 (the size is
truncated to three bytes and no continuation packet is produced). -/
theorem setData_truncates (h old d : Bytes) (hd : d.length = 16777216) (_hh : h.length = 4) :
    payloadLength (setData ⟨h, old⟩ d).header = 0 := by
  show payloadLength (leBytes 3 d.length ++ h.drop 3) = 0
  unfold payloadLength
  rw [List.take_left' (by simp), leVal_leBytes, hd]

theorem encodePayload_small (seq : Nat) (p : Bytes) (h : p.length < maxPayloadLen) :
    encodePayload seq p = frame seq p := by
  rw [encodePayload, if_pos h]

theorem encodePayload_two (seq : Nat) (p1 p2 : Bytes) (hp1 : p1.length = maxPayloadLen)
    (h2 : p2.length < maxPayloadLen) :
    encodePayload seq (p1 ++ p2) = frame seq p1 ++ frame (seq + 1) p2 := by
  rw [encodePayload, if_neg (by simp only [List.length_append]; omega),
    List.take_left' hp1, List.drop_left' hp1, encodePayload_small _ _ h2]

theorem encodePayload_exact (seq : Nat) (p1 : Bytes) (hp1 : p1.length = maxPayloadLen) :
    encodePayload seq p1 = frame seq p1 ++ frame (seq + 1) [] := by
  have := encodePayload_two seq p1 [] hp1 (by rw [maxPayloadLen_eq]; simp)
  simpa using this

theorem read_multi (seq : Nat) (p1 p2 : Bytes) (hp1 : p1.length = maxPayloadLen)
    (h1 : 1 ≤ p2.length) (h2 : p2.length < maxPayloadLen) :
    read (encodePayload seq (p1 ++ p2)) =
      .ok (⟨leBytes 3 p2.length ++ [UInt8.ofNat ((seq + 1) % 256)], p1 ++ p2⟩, []) := by
  have hr := readPacket_frame (seq + 1) p2 [] h1 h2
  rw [List.append_nil] at hr
  unfold read
  rw [encodePayload_two seq p1 p2 hp1 h2, frame_eq seq p1,
    readPacket_step _ _ _ (by simp) (payloadLength_leBytes _ _ (by rw [hp1, maxPayloadLen_eq]; omega))
      (by rw [hp1, maxPayloadLen_eq]; omega),
    if_neg (by omega), hr]
  rfl

/-- **Known defect**: a payload sent in two fragments is read as one packet that keeps only the
*last* header; dumping it yields 4 bytes fewer than were received (the relayed bytes differ from
the received ones, and the declared length is that of the last fragment only). -/
theorem read_multi_not_identity (seq : Nat) (p1 p2 : Bytes) (hp1 : p1.length = maxPayloadLen)
    (h1 : 1 ≤ p2.length) (h2 : p2.length < maxPayloadLen) :
    encodePayload seq (p1 ++ p2) = frame seq p1 ++ frame (seq + 1) p2 ∧
    read (encodePayload seq (p1 ++ p2)) =
      .ok (⟨leBytes 3 p2.length ++ [UInt8.ofNat ((seq + 1) % 256)], p1 ++ p2⟩, []) ∧
    (dump ⟨leBytes 3 p2.length ++ [UInt8.ofNat ((seq + 1) % 256)], p1 ++ p2⟩).length + 4
      = (encodePayload seq (p1 ++ p2)).length ∧
    dump ⟨leBytes 3 p2.length ++ [UInt8.ofNat ((seq + 1) % 256)], p1 ++ p2⟩
      ≠ encodePayload seq (p1 ++ p2) := by
  have hlen : (dump ⟨leBytes 3 p2.length ++ [UInt8.ofNat ((seq + 1) % 256)], p1 ++ p2⟩).length + 4
      = (encodePayload seq (p1 ++ p2)).length := by
    rw [encodePayload_two seq p1 p2 hp1 h2]
    simp only [dump, List.length_append, frame_length, leBytes_length, List.length_cons, List.length_nil]
    omega
  refine ⟨encodePayload_two seq p1 p2 hp1 h2, read_multi seq p1 p2 hp1 h1 h2, hlen, ?_⟩
  intro he
  rw [he] at hlen
  omega

/-- **Known defect**: a payload of exactly 2^24-1 bytes is terminated by an empty packet, which
`readPacket` rejects. -/
theorem read_multi_exact_err (seq : Nat) (p1 : Bytes) (hp1 : p1.length = maxPayloadLen) :
    read (encodePayload seq p1) = .err := by
  have hr : readPacket (frame (seq + 1) []) = .err := by
    rw [readPacket]
    have e3 : ¬ (frame (seq + 1) []).length < headerSize := by
      rw [frame_length, headerSize_eq]; simp
    rw [if_neg e3]
    have e1 : payloadLength (List.take headerSize (frame (seq + 1) [])) = 0 := by
      rw [frame_eq, List.append_nil, List.take_of_length_le (by simp [headerSize_eq])]
      exact payloadLength_leBytes 0 _ (by omega)
    simp only [e1]
    rfl
  unfold read
  rw [encodePayload_exact seq p1 hp1, frame_eq seq p1,
    readPacket_step _ _ _ (by simp) (payloadLength_leBytes _ _ (by rw [hp1, maxPayloadLen_eq]; omega))
      (by rw [hp1, maxPayloadLen_eq]; omega),
    if_neg (by omega), hr]
  rfl

/-- `replaceQuery` below the fragment limit: command byte kept, query replaced, declared length right. -/
theorem replaceQuery_wellformed (h old q : Bytes) (c : UInt8) (hq : q.length + 1 < maxPayloadLen)
    (hh : h.length = 4) :
    replaceQuery ⟨h, c :: old⟩ q = .ok ⟨leBytes 3 (q.length + 1) ++ h.drop 3, c :: q⟩ ∧
    (h.drop 3).length = 1 ∧
    payloadLength (leBytes 3 (q.length + 1) ++ h.drop 3) = (c :: q).length := by
  refine ⟨rfl, by simp [hh], ?_⟩
  rw [payloadLength_leBytes _ _ (by rw [maxPayloadLen_eq] at hq; omega)]
  rfl

/-! ## B. text rows -/

/-- the transformed row: NULLs stay, value `j` becomes `f j value` (positions start at `i`) -/
def mapRowMy (f : Nat → Bytes → Bytes) : Nat → Row → Row
  | _, [] => []
  | i, none :: r => none :: mapRowMy f (i+1) r
  | i, some b :: r => some (f i b) :: mapRowMy f (i+1) r

theorem encodeTextRow_cons (v : Option Bytes) (r : Row) :
    encodeTextRow (v :: r) = putLengthEncodedString v ++ encodeTextRow r := by
  simp [encodeTextRow]

theorem putLengthEncodedString_none : putLengthEncodedString none = [0xfb] := rfl

/-- **Text row round trip** of the specification codec (NULL ≠ empty string, every length class). -/
theorem decodeTextRow_encodeTextRow (r : Row) (h : ∀ b, some b ∈ r → b.length < 2^64) :
    decodeTextRow r.length (encodeTextRow r) = some r := by
  induction r with
  | nil => rfl
  | cons v r ih =>
    have hv : ∀ b, v = some b → b.length < 2^64 := by
      intro b hb; exact h b (by rw [hb]; exact List.mem_cons_self)
    have hr : ∀ b, some b ∈ r → b.length < 2^64 := fun b hb => h b (List.mem_cons_of_mem _ hb)
    rw [encodeTextRow_cons, List.length_cons, decodeTextRow]
    simp only [lenenc_str_roundtrip v (encodeTextRow r) hv, List.drop_left' rfl, ih hr]
    rfl

/-- the loop of `processTextDataRow`, started anywhere inside the row buffer -/
theorem processTextRow_encodeTextRow (f : Nat → Bytes → Bytes) (r : Row)
    (h : ∀ b, some b ∈ r → b.length < 2^64) (i : Nat) (pre out : Bytes) :
    processTextRow (fun i v => .ok (putLengthEncodedString (some (f i v)))) r.length i
        (pre ++ encodeTextRow r) pre.length out
      = .ok (out ++ encodeTextRow (mapRowMy f i r)) := by
  induction r generalizing i pre out with
  | nil => simp [processTextRow, mapRowMy, encodeTextRow]
  | cons v r ih =>
    have hv : ∀ b, v = some b → b.length < 2^64 := by
      intro b hb; exact h b (by rw [hb]; exact List.mem_cons_self)
    have hr : ∀ b, some b ∈ r → b.length < 2^64 := fun b hb => h b (List.mem_cons_of_mem _ hb)
    rw [encodeTextRow_cons, List.length_cons, processTextRow]
    simp only [goSliceFrom_append, Out.bind_ok, lenenc_str_roundtrip v (encodeTextRow r) hv]
    have hlen : pre.length + (putLengthEncodedString v).length = (pre ++ putLengthEncodedString v).length := by
      simp
    have hrow : pre ++ (putLengthEncodedString v ++ encodeTextRow r)
        = (pre ++ putLengthEncodedString v) ++ encodeTextRow r := by simp
    cases v with
    | none =>
      simp only []
      rw [hrow, goSlice_append_mid]
      simp only [Out.bind_ok]
      rw [hlen, ih hr]
      simp [mapRowMy, encodeTextRow_cons, putLengthEncodedString_none]
    | some b =>
      simp only []
      rw [hrow, hlen, ih hr]
      simp [mapRowMy, encodeTextRow_cons]

/-- **Rewritten text rows are well formed**: when every non-NULL value `v` of column `i` is replaced
by the length-encoded form of `f i v`, `processTextDataRow` outputs exactly the protocol encoding of
the transformed row (NULL columns are copied). No bound on the transformed values is needed. -/
theorem textRow_encodeTextRow (f : Nat → Bytes → Bytes) (r : Row)
    (h : ∀ b, some b ∈ r → b.length < 2^64) :
    textRow (fun i v => .ok (putLengthEncodedString (some (f i v)))) r.length (encodeTextRow r)
      = .ok (encodeTextRow (mapRowMy f 0 r)) := by
  have := processTextRow_encodeTextRow f r h 0 [] []
  simpa [textRow] using this

theorem mapRowMy_id (i : Nat) (r : Row) : mapRowMy (fun _ v => v) i r = r := by
  induction r generalizing i with
  | nil => rfl
  | cons v r ih => cases v <;> simp [mapRowMy, ih]

/-- **Relay identity for text rows**: with subscribers that leave every value alone the row is unchanged. -/
theorem textRow_identity (r : Row) (h : ∀ b, some b ∈ r → b.length < 2^64) :
    textRow (fun _ v => .ok (putLengthEncodedString (some v))) r.length (encodeTextRow r)
      = .ok (encodeTextRow r) := by
  have := textRow_encodeTextRow (fun _ v => v) r h
  rw [mapRowMy_id] at this
  exact this

theorem mapRowMy_length (f : Nat → Bytes → Bytes) (i : Nat) (r : Row) : (mapRowMy f i r).length = r.length := by
  induction r generalizing i with
  | nil => rfl
  | cons v r ih => cases v <;> simp [mapRowMy, ih]

theorem mem_mapRowMy (f : Nat → Bytes → Bytes) (i : Nat) (r : Row) (b : Bytes)
    (hb : some b ∈ mapRowMy f i r) : ∃ j v, some v ∈ r ∧ b = f j v := by
  induction r generalizing i with
  | nil => simp [mapRowMy] at hb
  | cons x r ih =>
    cases x with
    | none =>
      simp only [mapRowMy, List.mem_cons] at hb
      rcases hb with hb | hb
      · cases hb
      · obtain ⟨j, v, hv, e⟩ := ih (i+1) hb
        exact ⟨j, v, List.mem_cons_of_mem _ hv, e⟩
    | some a =>
      simp only [mapRowMy, List.mem_cons] at hb
      rcases hb with hb | hb
      · cases hb; exact ⟨i, a, List.mem_cons_self, rfl⟩
      · obtain ⟨j, v, hv, e⟩ := ih (i+1) hb
        exact ⟨j, v, List.mem_cons_of_mem _ hv, e⟩

/-- the output of the text-row processor decodes (with the specification decoder) to the transformed row -/
theorem textRow_decodable (f : Nat → Bytes → Bytes) (r : Row)
    (h : ∀ b, some b ∈ r → b.length < 2^64)
    (hf : ∀ j b, some b ∈ r → (f j b).length < 2^64) :
    ∃ out, textRow (fun i v => .ok (putLengthEncodedString (some (f i v)))) r.length (encodeTextRow r) = .ok out
      ∧ decodeTextRow r.length out = some (mapRowMy f 0 r) := by
  refine ⟨_, textRow_encodeTextRow f r h, ?_⟩
  have := decodeTextRow_encodeTextRow (mapRowMy f 0 r) (by
    intro b hb
    obtain ⟨j, v, hv, e⟩ := mem_mapRowMy f 0 r b hb
    rw [e]; exact hf j v hv)
  rw [mapRowMy_length] at this
  exact this

/-! ## C. binary rows -/

theorem foldl_bits (Q : Nat → Prop) [DecidablePred Q] (n : Nat) :
    (List.range n).foldl (fun acc bit => if Q bit then acc + 2^bit else acc) 0 < 2^n ∧
    ∀ k, k < n → ((List.range n).foldl (fun acc bit => if Q bit then acc + 2^bit else acc) 0).testBit k
      = decide (Q k) := by
  induction n with
  | zero => simp
  | succ n ih =>
    rw [List.range_succ, List.foldl_append]
    generalize (List.range n).foldl _ 0 = F at ih ⊢
    obtain ⟨hlt, hb⟩ := ih
    simp only [List.foldl_cons, List.foldl_nil]
    by_cases hq : Q n
    · rw [if_pos hq, Nat.add_comm]
      refine ⟨by rw [Nat.pow_succ]; omega, ?_⟩
      intro k hk
      by_cases hkn : k = n
      · subst hkn; rw [Nat.testBit_two_pow_add_eq, Nat.testBit_lt_two_pow hlt]; simp [hq]
      · rw [Nat.testBit_two_pow_add_gt (by omega)]; exact hb k (by omega)
    · rw [if_neg hq]
      refine ⟨by rw [Nat.pow_succ]; omega, ?_⟩
      intro k hk
      by_cases hkn : k = n
      · subst hkn; rw [Nat.testBit_lt_two_pow hlt]; simp [hq]
      · exact hb k (by omega)

theorem nullBitmap_length (r : Row) : (nullBitmap r).length = (r.length + 7 + 2) / 8 := by
  simp [nullBitmap]

theorem bitSet_nullBitmap (r : Row) (i : Nat) (hi : i < r.length) :
    bitSet (nullBitmap r) (i + 2) = decide (r[i]? = some none) := by
  obtain ⟨hlt, hb⟩ := foldl_bits (fun bit => (i+2)/8*8 + bit ≥ 2 ∧ r[(i+2)/8*8 + bit - 2]? = some none) 8
  have hbk := hb ((i+2) % 8) (by omega)
  have e : (i+2)/8*8 + (i+2)%8 = i + 2 := by omega
  simp only [e, Nat.add_sub_cancel] at hbk
  unfold bitSet nullBitmap
  simp only [List.getElem?_map]
  rw [List.getElem?_range (by omega)]
  simp only [Option.map_some, UInt8.toNat_ofNat']
  generalize List.foldl _ 0 (List.range 8) = F at hlt hbk ⊢
  rw [Nat.mod_eq_of_lt (a := F) hlt, Nat.shiftRight_eq_div_pow, ← Nat.testBit_eq_decide_div_mod_eq, hbk]
  simp

theorem encodeBinVals_nil : encodeBinVals [] [] = [] := by simp [encodeBinVals]
theorem encodeBinVals_none (t : Nat) (ts : List Nat) (r : Row) :
    encodeBinVals (t :: ts) (none :: r) = encodeBinVals ts r := by simp [encodeBinVals]
theorem encodeBinVals_some (t : Nat) (ts : List Nat) (v : Bytes) (r : Row) :
    encodeBinVals (t :: ts) (some v :: r) = encodeBinVal t v ++ encodeBinVals ts r := by simp [encodeBinVals]

theorem decodeBinVals_encodeBinVals (bm : Bytes) (ts : List Nat) (r : Row) (i : Nat)
    (hlen : ts.length = r.length)
    (hbm : ∀ j, j < r.length → bitSet bm (i + j + 2) = decide (r[j]? = some none))
    (hT : ∀ t, t ∈ ts → widthOf t ≠ .unknown)
    (hV : ∀ t v, (t, some v) ∈ ts.zip r →
      (∀ k, widthOf t = .fixed k → v.length = k) ∧ (widthOf t = .lenenc → v.length < 2^64)) :
    decodeBinVals bm ts i (encodeBinVals ts r) = some r := by
  induction ts generalizing r i with
  | nil =>
    cases r with
    | nil => simp [encodeBinVals_nil, decodeBinVals]
    | cons x r => simp at hlen
  | cons t ts ih =>
    cases r with
    | nil => simp at hlen
    | cons x r =>
      have hlen' : ts.length = r.length := by simpa using hlen
      have hbm' : ∀ j, j < r.length → bitSet bm (i + 1 + j + 2) = decide (r[j]? = some none) := by
        intro j hj
        have := hbm (j+1) (by simp; omega)
        rw [show i + 1 + j + 2 = i + (j + 1) + 2 by omega, this]
        simp
      have hT' : ∀ t, t ∈ ts → widthOf t ≠ .unknown := fun t' h' => hT t' (List.mem_cons_of_mem _ h')
      have hV' : ∀ t v, (t, some v) ∈ ts.zip r →
          (∀ k, widthOf t = .fixed k → v.length = k) ∧ (widthOf t = .lenenc → v.length < 2^64) := by
        intro t' v' h'
        exact hV t' v' (by rw [List.zip_cons_cons]; exact List.mem_cons_of_mem _ h')
      have hb0 := hbm 0 (by simp)
      simp only [Nat.add_zero, List.getElem?_cons_zero] at hb0
      have ih' := ih r (i+1) hlen' hbm' hT' hV'
      cases x with
      | none =>
        rw [encodeBinVals_none, decodeBinVals, hb0]
        simp [ih']
      | some v =>
        have hv := hV t v (by rw [List.zip_cons_cons]; exact List.mem_cons_self)
        have ht := hT t List.mem_cons_self
        rw [encodeBinVals_some, decodeBinVals, hb0]
        simp only [Option.some.injEq, reduceCtorEq, decide_false, Bool.false_eq_true, if_false]
        unfold encodeBinVal
        cases hw : widthOf t with
        | fixed k =>
          have hk := hv.1 k hw
          simp only []
          rw [if_neg (by simp; omega), List.drop_left' hk, List.take_left' hk, ih']
          rfl
        | lenenc =>
          have hk := hv.2 hw
          simp only []
          rw [lenenc_str_roundtrip (some v) _ (by intro b hb; cases hb; exact hk)]
          simp only [List.drop_left' rfl, ih']
          rfl
        | unknown => exact absurd hw ht

/-- **Binary row round trip** of the specification codec. -/
theorem decodeBinRow_encodeBinRow (types : List Nat) (r : Row)
    (hlen : types.length = r.length)
    (hT : ∀ t, t ∈ types → widthOf t ≠ .unknown)
    (hV : ∀ t v, (t, some v) ∈ types.zip r →
      (∀ k, widthOf t = .fixed k → v.length = k) ∧ (widthOf t = .lenenc → v.length < 2^64)) :
    decodeBinRow types (encodeBinRow types r) = some r := by
  have hbl : (nullBitmap r).length = (types.length + 7 + 2) / 8 := by rw [nullBitmap_length, hlen]
  unfold decodeBinRow encodeBinRow
  simp only [List.cons_append, List.nil_append]
  rw [if_neg (by simp; omega), List.take_left' hbl, List.drop_left' hbl]
  apply decodeBinVals_encodeBinVals _ _ _ _ hlen _ hT hV
  intro j hj
  rw [Nat.zero_add]
  exact bitSet_nullBitmap r j hj

theorem encodeBinVal_fixed (t k : Nat) (v : Bytes) (hw : widthOf t = .fixed k) : encodeBinVal t v = v := by
  unfold encodeBinVal; rw [hw]
theorem encodeBinVal_lenenc (t : Nat) (v : Bytes) (hw : widthOf t = .lenenc) :
    encodeBinVal t v = putLengthEncodedString (some v) := by
  unfold encodeBinVal; rw [hw]

theorem processBinCols_encodeBinVals (types : List Nat) (f : Nat → Bytes → Bytes) (bm : Bytes)
    (ts : List Nat) (r : Row) (i : Nat) (pre out : Bytes)
    (hdrop : types.drop i = ts)
    (hlen : ts.length = r.length)
    (hbm : ∀ j, j < r.length →
      (i + j + 2) / 8 < bm.length ∧ bitSet bm (i + j + 2) = decide (r[j]? = some none))
    (hT : ∀ t, t ∈ ts → widthOf t ≠ .unknown)
    (hV : ∀ t v, (t, some v) ∈ ts.zip r →
      (∀ k, widthOf t = .fixed k → v.length = k) ∧ (widthOf t = .lenenc → v.length < 2^64)) :
    processBinCols (fun i v => .ok (encodeBinVal (types[i]!) (f i v))) bm (pre ++ encodeBinVals ts r)
        ts i pre.length out
      = .ok (out ++ encodeBinVals ts (mapRowMy f i r)) := by
  induction ts generalizing r i pre out with
  | nil =>
    cases r with
    | nil => simp [processBinCols, mapRowMy, encodeBinVals_nil]
    | cons x r => simp at hlen
  | cons t ts ih =>
    cases r with
    | nil => simp at hlen
    | cons x r =>
      have hlen' : ts.length = r.length := by simpa using hlen
      have hbm' : ∀ j, j < r.length →
          (i + 1 + j + 2) / 8 < bm.length ∧ bitSet bm (i + 1 + j + 2) = decide (r[j]? = some none) := by
        intro j hj
        have := hbm (j+1) (by simp; omega)
        rw [show i + 1 + j + 2 = i + (j + 1) + 2 by omega]
        simpa using this
      have hT' : ∀ t, t ∈ ts → widthOf t ≠ .unknown := fun t' h' => hT t' (List.mem_cons_of_mem _ h')
      have hV' : ∀ t v, (t, some v) ∈ ts.zip r →
          (∀ k, widthOf t = .fixed k → v.length = k) ∧ (widthOf t = .lenenc → v.length < 2^64) := by
        intro t' v' h'
        exact hV t' v' (by rw [List.zip_cons_cons]; exact List.mem_cons_of_mem _ h')
      have hb0 := hbm 0 (by simp)
      simp only [Nat.add_zero, List.getElem?_cons_zero] at hb0
      have hti : types[i]! = t := by
        have : (types.drop i)[0]? = some t := by rw [hdrop]; rfl
        rw [List.getElem?_drop, Nat.add_zero] at this
        rw [List.getElem!_eq_getElem?_getD, this]; rfl
      have hdrop' : types.drop (i+1) = ts := by
        rw [← List.drop_drop, hdrop]; rfl
      rw [processBinCols, if_neg (by omega), hb0.2]
      cases x with
      | none =>
        simp only [decide_true, if_true]
        rw [encodeBinVals_none, ih r (i+1) pre out hdrop' hlen' hbm' hT' hV']
        simp [mapRowMy, encodeBinVals_none]
      | some v =>
        have hv := hV t v (by rw [List.zip_cons_cons]; exact List.mem_cons_self)
        have ht := hT t List.mem_cons_self
        simp only [Option.some.injEq, reduceCtorEq, decide_false, Bool.false_eq_true, if_false]
        rw [encodeBinVals_some, hti]
        unfold extractData
        cases hw : widthOf t with
        | fixed k =>
          have hk := hv.1 k hw
          subst hk
          simp only []
          rw [encodeBinVal_fixed t _ v hw, ← List.append_assoc,
            if_neg (by simp only [List.length_append]; omega), goSlice_append_mid]
          simp only [Out.bind_ok, Out.pure_eq]
          rw [show pre.length + v.length = (pre ++ v).length by simp,
            ih r (i+1) (pre ++ v) _ hdrop' hlen' hbm' hT' hV']
          simp [mapRowMy, encodeBinVals_some]
        | lenenc =>
          have hk := hv.2 hw
          simp only []
          rw [encodeBinVal_lenenc t v hw, if_neg (by simp only [List.length_append]; omega),
            goSliceFrom_append]
          simp only [Out.bind_ok, Out.pure_eq,
            lenenc_str_roundtrip (some v) _ (by intro b hb; cases hb; exact hk), Option.getD_some]
          rw [← List.append_assoc,
            show pre.length + (putLengthEncodedString (some v)).length
              = (pre ++ putLengthEncodedString (some v)).length by simp,
            ih r (i+1) _ _ hdrop' hlen' hbm' hT' hV']
          simp [mapRowMy, encodeBinVals_some]
        | unknown => exact absurd hw ht

theorem getElem?_mapRowMy_none (f : Nat → Bytes → Bytes) (i : Nat) (r : Row) (j : Nat) :
    ((mapRowMy f i r)[j]? = some none) = (r[j]? = some none) := by
  induction r generalizing i j with
  | nil => rfl
  | cons x r ih =>
    cases x <;> cases j <;> simp [mapRowMy, ih]

theorem nullBitmap_mapRowMy (f : Nat → Bytes → Bytes) (i : Nat) (r : Row) :
    nullBitmap (mapRowMy f i r) = nullBitmap r := by
  unfold nullBitmap
  simp only [mapRowMy_length, getElem?_mapRowMy_none]

/-- **Rewritten binary rows are well formed**: when every non-NULL value `v` of column `i` is replaced
by the binary encoding (under the column's storage type) of `f i v`, `processBinaryDataRow` outputs
exactly the protocol encoding of the transformed row: same header byte, same NULL bitmap, values in
order. -/
theorem binRow_encodeBinRow (types : List Nat) (f : Nat → Bytes → Bytes) (r : Row)
    (hlen : types.length = r.length)
    (hT : ∀ t, t ∈ types → widthOf t ≠ .unknown)
    (hV : ∀ t v, (t, some v) ∈ types.zip r →
      (∀ k, widthOf t = .fixed k → v.length = k) ∧ (widthOf t = .lenenc → v.length < 2^64)) :
    binRow (fun i v => .ok (encodeBinVal (types[i]!) (f i v))) types (encodeBinRow types r)
      = .ok (encodeBinRow types (mapRowMy f 0 r)) := by
  have hbl : (nullBitmap r).length = (types.length + 7 + 2) / 8 := by rw [nullBitmap_length, hlen]
  have hpos : 1 + ((types.length + 7 + 2) >>> 3) = ([0] ++ nullBitmap r).length := by
    rw [Nat.shiftRight_eq_div_pow, List.length_append, hbl]; rfl
  have hrow : encodeBinRow types r = ([0] ++ nullBitmap r) ++ encodeBinVals types r := rfl
  have hi : goIndex ([0] ++ nullBitmap r ++ encodeBinVals types r) 0 = .ok 0 := rfl
  have hs1 : goSlice ([0] ++ nullBitmap r ++ encodeBinVals types r) 1 (1 + ((types.length + 7 + 2) >>> 3))
      = .ok (nullBitmap r) := by
    rw [hpos, List.length_append]
    exact goSlice_append_mid [0] (nullBitmap r) (encodeBinVals types r)
  have hs0 : goSlice ([0] ++ nullBitmap r ++ encodeBinVals types r) 0 (1 + ((types.length + 7 + 2) >>> 3))
      = .ok ([0] ++ nullBitmap r) := by
    rw [hpos]
    exact goSlice_prefix ([0] ++ nullBitmap r) (encodeBinVals types r)
  unfold binRow
  rw [hrow]
  have hguard : ¬ (([0] ++ nullBitmap r ++ encodeBinVals types r).length = 0 ∨
      ([0] ++ nullBitmap r ++ encodeBinVals types r).length < 1 + ((types.length + 7 + 2) >>> 3)) := by
    rw [hpos]; simp only [List.length_append, List.length_cons, List.length_nil]; omega
  rw [if_neg hguard]
  simp only [hi, hs1, hs0, Out.bind_ok]
  rw [if_neg (by decide), if_neg (by decide), hpos,
    processBinCols_encodeBinVals types f (nullBitmap r) types r 0 _ _ rfl hlen _ hT hV]
  · rw [encodeBinRow, nullBitmap_mapRowMy]
  · intro j hj
    rw [Nat.zero_add]
    exact ⟨by rw [hbl]; omega, bitSet_nullBitmap r j hj⟩

/-- **Relay identity for binary rows**: with subscribers that leave every value alone the row is unchanged. -/
theorem binRow_identity (types : List Nat) (r : Row)
    (hlen : types.length = r.length)
    (hT : ∀ t, t ∈ types → widthOf t ≠ .unknown)
    (hV : ∀ t v, (t, some v) ∈ types.zip r →
      (∀ k, widthOf t = .fixed k → v.length = k) ∧ (widthOf t = .lenenc → v.length < 2^64)) :
    binRow (fun i v => .ok (encodeBinVal (types[i]!) v)) types (encodeBinRow types r)
      = .ok (encodeBinRow types r) := by
  have := binRow_encodeBinRow types (fun _ v => v) r hlen hT hV
  rw [mapRowMy_id] at this
  exact this

theorem mem_zip_mapRowMy (f : Nat → Bytes → Bytes) (ts : List Nat) (i : Nat) (r : Row) (t : Nat) (b : Bytes)
    (hb : (t, some b) ∈ ts.zip (mapRowMy f i r)) : ∃ j v, (t, some v) ∈ ts.zip r ∧ b = f j v := by
  induction ts generalizing i r with
  | nil => simp at hb
  | cons t' ts ih =>
    cases r with
    | nil => simp [mapRowMy] at hb
    | cons x r =>
      cases x with
      | none =>
        simp only [mapRowMy, List.zip_cons_cons, List.mem_cons] at hb
        rcases hb with hb | hb
        · cases hb
        · obtain ⟨j, v, hv, e⟩ := ih (i+1) r hb
          exact ⟨j, v, by rw [List.zip_cons_cons]; exact List.mem_cons_of_mem _ hv, e⟩
      | some a =>
        simp only [mapRowMy, List.zip_cons_cons, List.mem_cons] at hb
        rcases hb with hb | hb
        · cases hb; exact ⟨i, a, by rw [List.zip_cons_cons]; exact List.mem_cons_self, rfl⟩
        · obtain ⟨j, v, hv, e⟩ := ih (i+1) r hb
          exact ⟨j, v, by rw [List.zip_cons_cons]; exact List.mem_cons_of_mem _ hv, e⟩

/-- if moreover the transformation keeps the width of fixed-width columns (and the other results are
shorter than 2^64), the output of the binary-row processor decodes (with the specification decoder)
to the transformed row -/
theorem binRow_decodable (types : List Nat) (f : Nat → Bytes → Bytes) (r : Row)
    (hlen : types.length = r.length)
    (hT : ∀ t, t ∈ types → widthOf t ≠ .unknown)
    (hV : ∀ t v, (t, some v) ∈ types.zip r →
      (∀ k, widthOf t = .fixed k → v.length = k) ∧ (widthOf t = .lenenc → v.length < 2^64))
    (hF : ∀ t v j, (t, some v) ∈ types.zip r →
      (∀ k, widthOf t = .fixed k → (f j v).length = k) ∧ (widthOf t = .lenenc → (f j v).length < 2^64)) :
    ∃ out, binRow (fun i v => .ok (encodeBinVal (types[i]!) (f i v))) types (encodeBinRow types r) = .ok out
      ∧ decodeBinRow types out = some (mapRowMy f 0 r) := by
  refine ⟨_, binRow_encodeBinRow types f r hlen hT hV, ?_⟩
  apply decodeBinRow_encodeBinRow types _ (by rw [mapRowMy_length, hlen]) hT
  intro t b hb
  obtain ⟨j, v, hv, e⟩ := mem_zip_mapRowMy f types 0 r t b hb
  rw [e]
  exact hF t v j hv

/-! non-vacuity: the hypotheses are met by concrete rows (a NULL, a fixed-width and a length-encoded value) -/

example : textRow (fun _ v => .ok (putLengthEncodedString (some v))) 3 (encodeTextRow [some [1, 2], none, some []])
    = .ok (encodeTextRow [some [1, 2], none, some []]) :=
  textRow_identity [some [1, 2], none, some []] (by
    intro b hb
    have : b.length ≤ 2 := by
      simp only [List.mem_cons, Option.some.injEq, reduceCtorEq, List.not_mem_nil, or_false, false_or] at hb
      rcases hb with rfl | rfl <;> simp
    omega)

example : decodeBinRow [3, 253, 8] (encodeBinRow [3, 253, 8] [some [1, 2, 3, 4], some [7], none])
    = some [some [1, 2, 3, 4], some [7], none] :=
  decodeBinRow_encodeBinRow _ _ rfl (by decide) (by
    intro t v h
    simp only [List.zip_cons_cons, List.zip_nil_right, List.mem_cons, Prod.mk.injEq, Option.some.injEq,
      reduceCtorEq, and_false, List.not_mem_nil, or_false] at h
    rcases h with ⟨rfl, rfl⟩ | ⟨rfl, rfl⟩
    · exact ⟨(by intro k hk; cases hk; rfl), (by intro hk; cases hk)⟩
    · exact ⟨(by intro k hk; cases hk), (by intro _; decide)⟩)

/-! ## D. no panics, whatever the input -/

theorem goSlice_ok_of_le (b : Bytes) (lo hi : Nat) (h1 : lo ≤ hi) (h2 : hi ≤ b.length) :
    goSlice b lo hi = .ok ((b.take hi).drop lo) := by
  unfold goSlice; rw [if_pos ⟨h1, h2⟩]

theorem goSliceFrom_ok_of_le (b : Bytes) (lo : Nat) (h : lo ≤ b.length) :
    goSliceFrom b lo = .ok (b.drop lo) := by
  unfold goSliceFrom; rw [if_pos h]

/-- `readPacket` never panics. -/
theorem readPacket_no_panic (s : Bytes) : readPacket s ≠ .panic := by
  have key : ∀ n, ∀ s : Bytes, s.length = n → readPacket s ≠ .panic := by
    intro n
    induction n using Nat.strongRecOn with
    | ind n ih =>
      intro s hs
      rw [readPacket]
      by_cases h0 : s.length < headerSize
      · rw [if_pos h0]; simp
      · rw [if_neg h0]
        simp only []
        by_cases h1 : payloadLength (List.take headerSize s) < 1
        · rw [if_pos h1]; simp
        · rw [if_neg h1]
          by_cases h2 : (List.drop headerSize s).length < payloadLength (List.take headerSize s)
          · rw [if_pos h2]; simp
          · rw [if_neg h2]
            by_cases h3 : payloadLength (List.take headerSize s) < maxPayloadLen
            · rw [if_pos h3]; simp
            · rw [if_neg h3]
              have hlt : (List.drop (payloadLength (List.take headerSize s)) (List.drop headerSize s)).length < n := by
                simp only [List.length_drop, headerSize_eq] at h0 h2 ⊢
                omega
              have := ih _ hlt _ rfl
              cases hr : readPacket (List.drop (payloadLength (List.take headerSize s)) (List.drop headerSize s)) with
              | ok x => simp
              | err => simp
              | panic => exact absurd hr this
  exact key _ s rfl

/-- `ReadPacket` never panics. -/
theorem read_no_panic (s : Bytes) : read s ≠ .panic := by
  unfold read
  cases hr : readPacket s with
  | ok x => simp
  | err => simp
  | panic => exact absurd hr (readPacket_no_panic s)

/-- `replaceQuery` never panics (an empty payload is left alone). -/
theorem replaceQuery_no_panic (p : Packet) (q : Bytes) : replaceQuery p q ≠ .panic := by
  unfold replaceQuery
  cases p.data <;> simp

/-- `extractData` never panics: both slices are guarded. -/
theorem extractData_no_panic (typ : Nat) (row : Bytes) (pos : Nat) : extractData typ row pos ≠ .panic := by
  unfold extractData
  cases widthOf typ with
  | fixed k =>
    simp only []
    by_cases h : pos > row.length ∨ k > row.length - pos
    · rw [if_pos h]; simp
    · rw [if_neg h, goSlice_ok_of_le _ _ _ (by omega) (by omega)]; simp
  | lenenc =>
    simp only []
    by_cases h : pos > row.length
    · rw [if_pos h]; simp
    · rw [if_neg h, goSliceFrom_ok_of_le _ _ (by omega)]
      simp only [Out.bind_ok]
      cases hr : lengthEncodedString (List.drop pos row) with
      | ok x => simp
      | err => simp
      | panic => exact absurd hr (lenenc_str_no_panic _)
  | unknown => simp

/-- the loop of `processTextDataRow` never panics when the subscribers do not, from any position inside the row -/
theorem processTextRow_no_panic (g : Nat → Bytes → Out Bytes) (hg : ∀ i v, g i v ≠ .panic)
    (k i : Nat) (row : Bytes) (pos : Nat) (out : Bytes) (hpos : pos ≤ row.length) :
    processTextRow g k i row pos out ≠ .panic := by
  induction k generalizing i pos out with
  | zero => simp [processTextRow]
  | succ k ih =>
    rw [processTextRow, goSliceFrom_ok_of_le _ _ hpos]
    simp only [Out.bind_ok]
    cases hr : lengthEncodedString (List.drop pos row) with
    | err => simp
    | panic => exact absurd hr (lenenc_str_no_panic _)
    | ok x =>
      obtain ⟨v, n⟩ := x
      have hp := lenenc_str_progress _ v n hr
      have hn : pos + n ≤ row.length := by
        have := hp.2; rw [List.length_drop] at this; omega
      simp only [Out.bind_ok]
      cases v with
      | none =>
        simp only []
        rw [goSlice_ok_of_le _ _ _ (by omega) hn]
        simp only [Out.bind_ok]
        exact ih _ _ _ hn
      | some v =>
        simp only []
        cases hgv : g i v with
        | ok v' => simp only [Out.bind_ok]; exact ih _ _ _ hn
        | err => simp
        | panic => exact absurd hgv (hg i v)

/-- `processTextDataRow` never panics when the subscribers do not. -/
theorem textRow_no_panic (g : Nat → Bytes → Out Bytes) (hg : ∀ i v, g i v ≠ .panic) (n : Nat) (row : Bytes) :
    textRow g n row ≠ .panic :=
  processTextRow_no_panic g hg n 0 row 0 [] (Nat.zero_le _)

/-- the column loop of `processBinaryDataRow` never panics when the bitmap covers the remaining columns -/
theorem processBinCols_no_panic (g : Nat → Bytes → Out Bytes) (hg : ∀ i v, g i v ≠ .panic)
    (bitmap row : Bytes) (ts : List Nat) (i pos : Nat) (out : Bytes)
    (hbm : (i + ts.length + 1) / 8 < bitmap.length) :
    processBinCols g bitmap row ts i pos out ≠ .panic := by
  induction ts generalizing i pos out with
  | nil => simp [processBinCols]
  | cons t ts ih =>
    have hbm' : (i + 1 + ts.length + 1) / 8 < bitmap.length := by
      rw [List.length_cons] at hbm
      rw [show i + 1 + ts.length + 1 = i + (ts.length + 1) + 1 by omega]; exact hbm
    rw [processBinCols, if_neg (by rw [List.length_cons] at hbm; omega)]
    split
    · exact ih _ _ _ hbm'
    · cases he : extractData t row pos with
      | err => simp
      | panic => exact absurd he (extractData_no_panic _ _ _)
      | ok x =>
        obtain ⟨v, n⟩ := x
        simp only [Out.bind_ok]
        cases hgv : g i v with
        | ok v' => simp only [Out.bind_ok]; exact ih _ _ _ hbm'
        | err => simp
        | panic => exact absurd hgv (hg i v)

/-- `processBinaryDataRow` never panics when the subscribers do not, whatever the row and field list. -/
theorem binRow_no_panic (g : Nat → Bytes → Out Bytes) (hg : ∀ i v, g i v ≠ .panic)
    (types : List Nat) (row : Bytes) : binRow g types row ≠ .panic := by
  unfold binRow
  by_cases hguard : row.length = 0 ∨ row.length < 1 + ((types.length + 7 + 2) >>> 3)
  · rw [if_pos hguard]
    split
    · simp
    · cases row.head? with
      | none => simp
      | some b0 => simp only []; split <;> simp
  · rw [if_neg hguard]
    have hsh : (types.length + 7 + 2) >>> 3 = (types.length + 7 + 2) / 8 := by
      rw [Nat.shiftRight_eq_div_pow]
    rw [hsh] at hguard ⊢
    obtain ⟨x, hx⟩ := goIndex_ne_panic_of_lt row 0 (by omega)
    rw [hx]
    simp only [Out.bind_ok]
    split
    · simp
    · split
      · simp
      · rw [goSlice_ok_of_le _ _ _ (by omega) (by omega), goSlice_ok_of_le _ _ _ (by omega) (by omega)]
        simp only [Out.bind_ok]
        apply processBinCols_no_panic g hg
        simp only [List.length_drop, List.length_take]
        omega

end AcraModel.Wire.My
