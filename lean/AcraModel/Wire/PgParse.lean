import AcraModel.Wire.PgMsg
/-
PostgreSQL Parse message: model of `NewParsePacket`, `ParsePacket.{Marshal,Length,ReplaceQuery}`
(decryptor/postgresql/utils.go), `PacketHandler.ReplaceQuery` for Parse packets, `SetParsePacket` and
the OID replacement of `replaceOIDsInParsePackets` (pg_decryptor.go), plus the specification codec.
Slices are taken on a buffer with capacity = length (`descriptionBufferCopy`), so a short packet panics.
-/
namespace AcraModel.Wire.Pg
open AcraModel

/-- `bytes.Index(data, terminator)` -/
def indexZero : Bytes → Option Nat
  | [] => none
  | b :: r => if b.toNat = 0 then some 0 else (indexZero r).map (· + 1)

structure ParsePacket where
  name : Bytes        -- with terminator
  query : Bytes       -- with terminator
  paramsNum : Bytes   -- 2 bytes
  params : List Bytes -- 4 bytes each
deriving Repr, DecidableEq

/-- a slice guarded by the bounds check the `fix:` added (`ErrPacketTruncated` instead of a panic) -/
def chkSlice (b : Bytes) (lo hi : Nat) : Out Bytes :=
  match goSlice b lo hi with
  | .panic => .err
  | r => r

/-- `paramsNum.ToInt`: `binary.BigEndian.Uint16(num)` under the conversions the source applies (regenerated
`pgParamsNumToInt`; PostgreSQL reads this Int16 as an UNSIGNED count) -/
def paramsNumToInt (num : Bytes) : Int := goConvs Generated.Wire.pgParamsNumToInt (beVal num)

/-- number of iterations of `for i := 0; i < numParams.ToInt(); i++` (none for a negative bound) -/
def paramsCount (num : Bytes) : Nat := (paramsNumToInt num).toNat

/-- the parameter-OID loop of `NewParsePacket` on the bytes from `endIndex` on: `k` times
`len(data) < endIndex+4 → ErrPacketTruncated`, `params = append(params, data[endIndex:endIndex+4])`, `endIndex += 4` -/
def readParams : Nat → Bytes → Out (List Bytes)
  | 0, _ => .ok []
  | k+1, a :: b :: c :: d :: rest => do
    let ps ← readParams k rest
    pure ([a, b, c, d] :: ps)
  | _+1, _ => .err

/-- `NewParsePacket` -/
def newParsePacket (data : Bytes) : Out ParsePacket :=
  match indexZero data with
  | none => .err
  | some i0 =>
    let start := i0 + 1
    match indexZero (data.drop start) with
    | none => .err
    | some i1 =>
      let endIdx := i1 + start + 1
      do
        let name ← goSlice data 0 start
        let query ← goSlice data start endIdx
        let numParams ← chkSlice data endIdx (endIdx + 2)
        let e2 := endIdx + 2
        let params ← if e2 < data.length then readParams (paramsCount numParams) (data.drop e2) else .ok []
        pure ⟨name, query, numParams, params⟩

/-- `ParsePacket.Marshal` -/
def ParsePacket.marshal (p : ParsePacket) : Bytes := p.name ++ p.query ++ p.paramsNum ++ p.params.flatten

/-- `ParsePacket.Length` -/
def ParsePacket.length (p : ParsePacket) : Nat := p.name.length + p.query.length + p.paramsNum.length + 4 * p.params.length

/-- `ParsePacket.ReplaceQuery` -/
def ParsePacket.replaceQuery (p : ParsePacket) (q : Bytes) : ParsePacket := { p with query := q ++ [0] }

/-- `PacketHandler.ReplaceQuery` on a Parse packet (a packet that does not parse is left unchanged) -/
def replaceParseQuery (p : Packet) (q : Bytes) : Out Packet :=
  match newParsePacket p.body with
  | .ok pp =>
    let pp' := pp.replaceQuery q
    .ok { p with body := pp'.marshal, lenBuf := packetLength pp'.length }
  | .err => .ok p
  | .panic => .panic

/-- `replaceOIDsInParsePackets` + `SetParsePacket`: parameters selected by `sel i` get the bytea OID -/
def replaceParseOids (p : Packet) (sel : Nat → Bool) (byteaOid : Nat) : Out Packet := do
  let pp ← newParsePacket p.body
  let params' := pp.params.mapIdx fun i x => if sel i then beBytes 4 byteaOid else x
  if (List.range pp.params.length).any sel then
    let pp' := { pp with params := params' }
    pure { p with body := pp'.marshal, lenBuf := packetLength pp'.marshal.length }
  else pure p

/-- Parse part of `handleClientPacket` (pg_decryptor.go): `handleQueryPacket` replaces the query text when the query
observers changed it (`q = some text`), then `GetParseData` re-parses the packet and `replaceOIDsInParsePackets`
re-types the selected parameters -/
def handleParse (p : Packet) (q : Option Bytes) (sel : Nat → Bool) (byteaOid : Nat) : Out Packet :=
  (match q with
    | some text => replaceParseQuery p text
    | none => .ok p) >>= fun p1 => replaceParseOids p1 sel byteaOid

/-! ### specification codec -/

/-- body of a Parse message: statement name, query (both without zero bytes), parameter type OIDs -/
def encodeParse (name query : Bytes) (oids : List Nat) : Bytes :=
  name ++ [0] ++ query ++ [0] ++ beBytes 2 oids.length ++ (oids.map (beBytes 4)).flatten

/-- exactly `n` big-endian 32-bit OIDs and nothing else -/
def decodeOids : Nat → Bytes → Option (List Nat)
  | 0, [] => some []
  | 0, _ :: _ => none
  | n+1, a :: b :: c :: d :: r => (decodeOids n r).map (beVal [a, b, c, d] :: ·)
  | _+1, _ => none

def decodeParse (b : Bytes) : Option (Bytes × Bytes × List Nat) :=
  match indexZero b with
  | none => none
  | some i0 =>
    let rest := b.drop (i0 + 1)
    match indexZero rest with
    | none => none
    | some i1 =>
      let tail := rest.drop (i1 + 1)
      if tail.length < 2 then none else
      let n := beVal (tail.take 2)
      (decodeOids n (tail.drop 2)).map fun oids => (b.take i0, rest.take i1, oids)

/-- specification side of `replaceOIDsInParsePackets`: the parameter types after the rewrite -/
def setParseOids (oids : List Nat) (sel : Nat → Bool) (byteaOid : Nat) : List Nat :=
  oids.mapIdx fun i o => if sel i then byteaOid else o

end AcraModel.Wire.Pg
