import AcraModel.Wire.PgMsg
/-
PostgreSQL Parse message: model of `NewParsePacket`, `ParsePacket.{Marshal,Length,ReplaceQuery}`
(decryptor/postgresql/utils.go), `PacketHandler.ReplaceQuery` for Parse packets, `SetParsePacket` and
the OID replacement of `replaceOIDsInParsePackets` (pg_decryptor.go), plus the specification codec.
Slices are taken on a buffer with capacity = length (`descriptionBufferCopy`), so a short packet panics.
-/
namespace AcraModel.Wire.Pg
open AcraModel

/-- `bytes.Index(data, terminator)` -/
def indexZero : Bytes → Option Nat
  | [] => none
  | b :: r => if b.toNat = 0 then some 0 else (indexZero r).map (· + 1)

structure ParsePacket where
  name : Bytes        -- with terminator
  query : Bytes       -- with terminator
  paramsNum : Bytes   -- 2 bytes
  params : List Bytes -- 4 bytes each
deriving Repr, DecidableEq

/-- a slice guarded by the bounds check the `fix:` added (`ErrPacketTruncated` instead of a panic) -/
def chkSlice (b : Bytes) (lo hi : Nat) : Out Bytes :=
  match goSlice b lo hi with
  | .panic => .err
  | r => r

def readParams (data : Bytes) : Nat → Nat → Out (List Bytes)
  | 0, _ => .ok []
  | k+1, pos => do
    let p ← chkSlice data pos (pos + 4)
    let rest ← readParams data k (pos + 4)
    pure (p :: rest)

/-- `NewParsePacket` -/
def newParsePacket (data : Bytes) : Out ParsePacket :=
  match indexZero data with
  | none => .err
  | some i0 =>
    let start := i0 + 1
    match indexZero (data.drop start) with
    | none => .err
    | some i1 =>
      let endIdx := i1 + start + 1
      do
        let name ← goSlice data 0 start
        let query ← goSlice data start endIdx
        let numParams ← chkSlice data endIdx (endIdx + 2)
        let e2 := endIdx + 2
        let params ← if e2 < data.length then readParams data (beVal numParams) e2 else .ok []
        pure ⟨name, query, numParams, params⟩

/-- `ParsePacket.Marshal` -/
def ParsePacket.marshal (p : ParsePacket) : Bytes := p.name ++ p.query ++ p.paramsNum ++ p.params.flatten

/-- `ParsePacket.Length` -/
def ParsePacket.length (p : ParsePacket) : Nat := p.name.length + p.query.length + p.paramsNum.length + 4 * p.params.length

/-- `ParsePacket.ReplaceQuery` -/
def ParsePacket.replaceQuery (p : ParsePacket) (q : Bytes) : ParsePacket := { p with query := q ++ [0] }

/-- `PacketHandler.ReplaceQuery` on a Parse packet (a packet that does not parse is left unchanged) -/
def replaceParseQuery (p : Packet) (q : Bytes) : Out Packet :=
  match newParsePacket p.body with
  | .ok pp =>
    let pp' := pp.replaceQuery q
    .ok { p with body := pp'.marshal, lenBuf := packetLength pp'.length }
  | .err => .ok p
  | .panic => .panic

/-- `replaceOIDsInParsePackets` + `SetParsePacket`: parameters selected by `sel i` get the bytea OID -/
def replaceParseOids (p : Packet) (sel : Nat → Bool) (byteaOid : Nat) : Out Packet := do
  let pp ← newParsePacket p.body
  let params' := pp.params.mapIdx fun i x => if sel i then beBytes 4 byteaOid else x
  if (List.range pp.params.length).any sel then
    let pp' := { pp with params := params' }
    pure { p with body := pp'.marshal, lenBuf := packetLength pp'.marshal.length }
  else pure p

/-! ### specification codec -/

/-- body of a Parse message: statement name, query (both without zero bytes), parameter type OIDs -/
def encodeParse (name query : Bytes) (oids : List Nat) : Bytes :=
  name ++ [0] ++ query ++ [0] ++ beBytes 2 oids.length ++ (oids.map (beBytes 4)).flatten

def decodeParse (b : Bytes) : Option (Bytes × Bytes × List Nat) :=
  match indexZero b with
  | none => none
  | some i0 =>
    let rest := b.drop (i0 + 1)
    match indexZero rest with
    | none => none
    | some i1 =>
      let tail := rest.drop (i1 + 1)
      if tail.length < 2 then none else
      let n := beVal (tail.take 2)
      let ps := tail.drop 2
      if ps.length ≠ 4 * n then none
      else some (b.take i0, rest.take i1, (List.range n).map fun k => beVal ((ps.drop (4 * k)).take 4))

end AcraModel.Wire.Pg
