import AcraModel.Wire.PgParse
/-
PostgreSQL RowDescription ('T') and ParameterDescription ('t'): model of `handleRowDescription` /
`handleParameterDescription` (decryptor/postgresql/pg_decryptor.go) over the pgproto3 codec Acra uses
(`RowDescription.{Decode,Encode}`, `ParameterDescription.{Decode,Encode}` of the pinned jackc/pgx), plus the
specification codec.

Acra decodes the body, replaces the data type OID of the columns / parameters whose setting declares a type,
re-encodes the message with pgproto3 and – only when some OID was replaced – puts the new body into the packet.
The packet's length buffer is NOT recomputed (`Generated.Wire.pgHandle*UpdatesLength = false`).

The member layout of a field description (`TableOID 4, TableAttributeNumber 2, DataTypeOID 4, DataTypeSize 2,
TypeModifier 4, Format 2`) is read from the pgproto3 source by factgen; the model interprets that table.
What the settings resolve to is a parameter: `items = none` – no settings registered for the statement;
`items = some l` – `l[i] = some oid` when column/parameter `i` has a type-aware setting whose type maps to `oid`.
-/
namespace AcraModel.Wire.Pg
open AcraModel

def fdLayout : List (String × Nat) := Generated.Wire.pgFieldDescLayout
def fdFixedLen : Nat := Generated.Wire.pgFieldDescFixedLen
/-- position of the member Acra assigns (`Fields[i].DataTypeOID`) in the layout -/
def oidIndex : Nat := fdLayout.findIdx (·.1 = "DataTypeOID")

/-- `pgproto3.FieldDescription`: name and the fixed-width members in layout order (as unsigned values) -/
structure FieldDesc where
  name : Bytes
  members : List Nat
deriving Repr, DecidableEq

def encMembers : List (String × Nat) → List Nat → Bytes
  | (_, w) :: l, v :: vs => beBytes w v ++ encMembers l vs
  | _, _ => []

def decMembers : List (String × Nat) → Bytes → List Nat
  | [], _ => []
  | (_, w) :: l, s => beVal (s.take w) :: decMembers l (s.drop w)

def layoutLen (l : List (String × Nat)) : Nat := (l.map (·.2)).sum

/-- the field loop of `RowDescription.Decode` (bytes after the last field are ignored) -/
def decodeFields : Nat → Bytes → Option (List FieldDesc)
  | 0, _ => some []
  | k+1, s =>
    match indexZero s with
    | none => none
    | some idx =>
      let r := s.drop (idx + 1)
      if r.length < fdFixedLen then none
      else (decodeFields k (r.drop (layoutLen fdLayout))).map (⟨s.take idx, decMembers fdLayout r⟩ :: ·)

/-- `RowDescription.Decode` -/
def decodeRowDesc (src : Bytes) : Option (List FieldDesc) :=
  if src.length < 2 then none else decodeFields (beVal (src.take 2)) (src.drop 2)

def encField (f : FieldDesc) : Bytes := f.name ++ [0] ++ encMembers fdLayout f.members

/-- body written by `RowDescription.Encode` (`none`: "too many fields") -/
def encodeRowDesc (fs : List FieldDesc) : Option Bytes :=
  if fs.length > 65535 then none else some (beBytes 2 fs.length ++ fs.flatMap encField)

/-- the OID replacement loop: `Fields[i].DataTypeOID = newOID` for the selected columns -/
def setOids : List FieldDesc → List (Option Nat) → List FieldDesc
  | f :: fs, some oid :: its => { f with members := f.members.set oidIndex oid } :: setOids fs its
  | f :: fs, none :: its => f :: setOids fs its
  | fs, _ => fs

/-- `handleRowDescription` -/
def handleRowDescription (p : Packet) (items : Option (List (Option Nat))) : Packet :=
  match items with
  | none => p
  | some its =>
    match decodeRowDesc p.body with
    | none => p
    | some fs =>
      if its.length ≠ fs.length then p
      else if its.any (·.isSome) then
        match encodeRowDesc (setOids fs its) with
        | none => p
        | some b => { p with body := b }
      else p

/-- `ParameterDescription.Decode`: the count field is skipped, the number of OIDs is inferred from the size -/
def decodeParamDesc (src : Bytes) : Option (List Nat) :=
  if src.length < 2 then none
  else
    let r := src.drop 2
    some ((List.range (r.length / 4)).map fun k => beVal ((r.drop (4 * k)).take 4))

/-- body written by `ParameterDescription.Encode` -/
def encodeParamDesc (oids : List Nat) : Option Bytes :=
  if oids.length > 65535 then none else some (beBytes 2 oids.length ++ oids.flatMap (beBytes 4))

/-- `ParameterOIDs[i] = newOID` for the parameters with a typed setting (`items` is a map: missing = no setting) -/
def setParamOids (oids : List Nat) (its : List (Option Nat)) : List Nat :=
  oids.mapIdx fun i o => ((its[i]?).join).getD o

/-- `handleParameterDescription` -/
def handleParameterDescription (p : Packet) (items : Option (List (Option Nat))) : Packet :=
  match items with
  | none => p
  | some its =>
    match decodeParamDesc p.body with
    | none => p
    | some oids =>
      if (List.range oids.length).any (fun i => ((its[i]?).join).isSome) then
        match encodeParamDesc (setParamOids oids its) with
        | none => p
        | some b => { p with body := b }
      else p

end AcraModel.Wire.Pg
