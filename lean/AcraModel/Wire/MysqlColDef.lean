import AcraModel.Wire.LenEnc
import AcraModel.Wire.MysqlPacket
/-
MySQL column definition (`Protocol::ColumnDefinition41`): model of `ParseResultField`,
`ColumnDescription.Dump` (decryptor/mysql/column_field.go), of the two places that re-type a column
(`updateFieldEncodedType` in type_conversion.go and `ParamsTrackHandler` in prepared_statements.go), and the
specification codec `encodeColDef`.

The model follows the code after the `fix:` commits 09/10 (bounds checks in `ParseResultField`; the default-value
length written as a length-encoded integer). Constants (catalog string, 0x0C marker, size of the fixed block,
`TypeConfigurations`, `specificTypes`, `BlobFlag`) come from `Generated.Wire`.
-/
namespace AcraModel.Wire.My
open AcraModel AcraModel.Wire.LenEnc

/-- `ColumnDescription`; `none` strings are Go nil slices (a NULL length-encoded string) -/
structure ColDef where
  changed : Bool
  originType : Nat
  maria : Bool            -- mariaDBExtendedTypeInfo
  data : Bytes
  header : Bytes
  schema : Option Bytes
  table : Option Bytes
  orgTable : Option Bytes
  name : Option Bytes
  orgName : Option Bytes
  extInfo : Bytes         -- ExtendedTypeInfo with its length prefix ([] when absent/empty)
  charset : Nat
  columnLength : Nat
  typ : Nat
  flag : Nat
  decimal : Nat
  defaultLen : Nat
  defaultValue : Option Bytes
deriving Repr, DecidableEq

def catalog : Bytes := Generated.Wire.myColDefCatalog.map UInt8.ofNat
def marker : UInt8 := UInt8.ofNat Generated.Wire.myColDefMarker
def fixedBlockLen : Nat := Generated.Wire.myColDefFixedGuard

/-- `base.LengthEncodedString(packet.data[pos:])` -/
def strAt (d : Bytes) (pos : Nat) : Out (Option Bytes × Nat) := do
  let rest ← goSliceFrom d pos
  lengthEncodedString rest

/-- the five consecutive `field.X, n, err = LengthEncodedString(data[pos:]); pos += n` blocks -/
def readStrs (d : Bytes) : Nat → Nat → Out (List (Option Bytes) × Nat)
  | 0, pos => .ok ([], pos)
  | k+1, pos => do
    let (v, n) ← strAt d pos
    let (vs, pos') ← readStrs d k (pos + n)
    pure (v :: vs, pos')

/-- `binary.LittleEndian.UintNN(packet.data[pos:])`: slicing panics beyond the end, the read panics on a short slice -/
def leAt (d : Bytes) (pos k : Nat) : Out Nat := do
  let rest ← goSliceFrom d pos
  if rest.length < k then .panic else pure (leVal (rest.take k))

/-- the MariaDB extended-type-info block: returns (ExtendedTypeInfo, new pos) -/
def readExt (d : Bytes) (pos : Nat) : Out (Bytes × Nat) :=
  if pos ≥ d.length then .err else do
    let b ← goIndex d pos
    if b.toNat = 0 then pure ([], pos + 1)
    else do
      let rest ← goSliceFrom d pos
      let r ← lengthEncodedInt rest
      if r.num > d.length - pos - r.n then .err
      else do
        let offset := r.n + r.num
        let ext ← goSlice d pos (pos + offset)
        pure (ext, pos + offset)

/-- the optional default value (COM_FIELD_LIST): returns (DefaultValueLength, DefaultValue) -/
def readDefault (d : Bytes) (pos : Nat) : Out (Nat × Option Bytes) :=
  if d.length > pos then do
    let rest ← goSliceFrom d pos
    let r ← lengthEncodedInt rest
    let pos := pos + r.n
    if r.num > d.length - pos then .err
    else do
      let dv ← goSlice d pos (pos + r.num)
      pure (r.num, some dv)
  else pure (0, none)

/-- the fixed block behind the 0x0C marker: `pos++` (marker), charset, column length, type, flags, decimals,
`pos += 2` (filler). Returns the values and the new position. -/
def readFixedBlock (d : Bytes) (pos : Nat) : Out (Nat × Nat × UInt8 × Nat × UInt8 × Nat) := do
  let pos := pos + 1
  let charset ← leAt d pos 2
  let pos := pos + 2
  let columnLength ← leAt d pos 4
  let pos := pos + 4
  let typ ← goIndex d pos
  let pos := pos + 1
  let flag ← leAt d pos 2
  let pos := pos + 2
  let decimal ← goIndex d pos
  let pos := pos + 1
  let pos := pos + 2
  pure (charset, columnLength, typ, flag, decimal, pos)

/-- the part of `ParseResultField` behind the strings and the extended type info: the guard of the fixed block,
the fixed block, the optional default value -/
def parseTail (p : Packet) (maria : Bool) (strs : List (Option Bytes)) (ext : Bytes) (pos : Nat) : Out ColDef :=
  if p.data.length - pos < fixedBlockLen then .err
  else do
    let (charset, columnLength, typ, flag, decimal, pos) ← readFixedBlock p.data pos
    let (dl, dv) ← readDefault p.data pos
    pure { changed := false, originType := 0, maria := maria, data := p.data, header := p.header,
           schema := (strs[0]?).join, table := (strs[1]?).join, orgTable := (strs[2]?).join,
           name := (strs[3]?).join, orgName := (strs[4]?).join, extInfo := ext,
           charset := charset, columnLength := columnLength, typ := typ.toNat, flag := flag,
           decimal := decimal.toNat, defaultLen := dl, defaultValue := dv }

/-- `ParseResultField(packet, mariaDBExtendedTypeInfo)` -/
def parseResultField (p : Packet) (maria : Bool) : Out ColDef :=
  skipLengthEncodedString p.data >>= fun n0 =>
  readStrs p.data 5 n0 >>= fun sp =>
  (if maria then readExt p.data sp.2 else pure ([], sp.2)) >>= fun ep =>
  parseTail p maria sp.1 ep.1 ep.2

/-- the payload `Dump` builds for a changed description -/
def ColDef.build (f : ColDef) : Bytes :=
  putLengthEncodedString (some catalog) ++ putLengthEncodedString f.schema ++ putLengthEncodedString f.table
    ++ putLengthEncodedString f.orgTable ++ putLengthEncodedString f.name ++ putLengthEncodedString f.orgName
    ++ (if f.maria then (if f.extInfo.length > 0 then f.extInfo else [0]) else [])
    ++ [marker] ++ leBytes 2 f.charset ++ leBytes 4 f.columnLength ++ [UInt8.ofNat f.typ]
    ++ leBytes 2 f.flag ++ [UInt8.ofNat f.decimal] ++ [0, 0]
    ++ (match f.defaultValue with
        | some dv => putLengthEncodedInt f.defaultLen ++ dv
        | none => [])

/-- `ColumnDescription.Dump`: an unchanged description is written as received; a changed one is rebuilt
behind the header as received (the header is NOT recomputed) -/
def ColDef.dump (f : ColDef) : Bytes :=
  if ¬ f.changed then f.header ++ f.data else f.header ++ f.build

/-- `Flags.RemoveFlag` -/
def removeFlag (flag bit : Nat) : Nat := if (flag / bit) % 2 = 1 then flag - bit else flag

/-- `updateFieldEncodedType` once the setting of the column has been resolved to a MySQL type code
(`newType = none`: no schema / no setting / no mapped type – the description is left alone) -/
def retype (f : ColDef) (newType : Option Nat) : ColDef :=
  match newType with
  | none => f
  | some nt =>
    match Generated.Wire.myTypeConfigurations.find? (·.1 = nt) with
    | none => f
    | some (_, cs, len, dec) =>
      let f' := { f with originType := f.typ, typ := nt, changed := true, charset := cs, columnLength := len, decimal := dec }
      if (f.flag / Generated.Wire.myBlobFlag) % 2 = 1 ∧ Generated.Wire.mySpecificTypes.contains nt
      then { f' with flag := removeFlag f.flag Generated.Wire.myBlobFlag } else f'

/-- `ParamsTrackHandler`: a parameter definition only gets the new type -/
def retypeParam (f : ColDef) (newType : Option Nat) : ColDef :=
  match newType with
  | none => f
  | some nt => { f with originType := f.typ, typ := nt, changed := true }

/-! ### specification codec -/

/-- a column definition as the protocol describes it -/
structure ColSpec where
  schema : Option Bytes
  table : Option Bytes
  orgTable : Option Bytes
  name : Option Bytes
  orgName : Option Bytes
  ext : Option Bytes       -- content of the MariaDB extended type info (only with the capability)
  charset : Nat
  columnLength : Nat
  typ : Nat
  flag : Nat
  decimal : Nat
  default : Option Bytes   -- only in COM_FIELD_LIST responses
deriving Repr, DecidableEq

/-- `lenenc catalog "def", 5 lenenc strings, [lenenc ext info], 0x0c, charset(2), length(4), type(1), flags(2),
decimals(1), 00 00, [lenenc default]` -/
def encodeColDef (s : ColSpec) : Bytes :=
  putLengthEncodedString (some catalog) ++ putLengthEncodedString s.schema ++ putLengthEncodedString s.table
    ++ putLengthEncodedString s.orgTable ++ putLengthEncodedString s.name ++ putLengthEncodedString s.orgName
    ++ (match s.ext with | some e => putLengthEncodedString (some e) | none => [])
    ++ [marker] ++ leBytes 2 s.charset ++ leBytes 4 s.columnLength ++ [UInt8.ofNat s.typ]
    ++ leBytes 2 s.flag ++ [UInt8.ofNat s.decimal] ++ [0, 0]
    ++ (match s.default with | some dv => putLengthEncodedString (some dv) | none => [])

end AcraModel.Wire.My
