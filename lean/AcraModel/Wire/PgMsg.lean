import AcraModel.Basic.Bytes
import AcraModel.Generated.Wire
/-
PostgreSQL message framing: model of `decryptor/postgresql/packet_handler.go`
(`readGeneralPacket`, `readStartupPacket`, `ReadPacket`, `readData`, `Marshal`, `ReplaceQuery` for
simple queries) plus the independent specification codec `encodeMsg`/`decodeMsg`.

A connection is modelled as the byte string still to be read; `io.ReadFull`/`io.CopyN` of `k` bytes
fail (error) when fewer than `k` bytes are left. The handler is a fresh one (empty `descriptionBuf`).
Constants (type bytes, start-up tags, size of the length field) come from `Generated.Wire`.
-/
namespace AcraModel.Wire.Pg
open AcraModel

/-- `io.ReadFull(reader, buf[:k])` on the rest of the stream -/
def readN (s : Bytes) (k : Nat) : Out (Bytes × Bytes) :=
  if s.length < k then .err else .ok (s.take k, s.drop k)

/-- state of a `PacketHandler` that matters for marshalling -/
structure Packet where
  typ : UInt8        -- messageType[0]; 0 = WithoutMessageType (start-up packets)
  lenBuf : Bytes     -- descriptionLengthBuf (4 bytes)
  body : Bytes       -- descriptionBuf
deriving Repr, DecidableEq

def lenSize : Nat := Generated.Wire.pgDataRowLengthBufSize

/-- `Marshal` -/
def marshal (p : Packet) : Bytes :=
  (if p.typ.toNat ≠ Generated.Wire.pgWithoutMessageType then [p.typ] else []) ++ p.lenBuf ++ p.body

/-- `readData(false)` with `packet.dataLength = dl`, appending to `pre` (the current buffer):
a negative data length is rejected (`ErrPacketTruncated`, after the `fix:` – it used to panic in
`descriptionBuf.Grow`), `io.CopyN` fails on a short stream. -/
def readData (pre : Bytes) (dl : Int) (s : Bytes) : Out (Bytes × Bytes) :=
  if dl < 0 then .err else do
    let (d, rest) ← readN s dl.toNat
    pure (pre ++ d, rest)

/-- `setDataLengthBuffer`: data length without the length field itself -/
def dataLength (lenBuf : Bytes) : Int := (beVal lenBuf : Int) - (lenBuf.length : Int)

/-- `readGeneralPacket` (client side, after start-up) -/
def readGeneral (s : Bytes) : Out (Packet × Bytes) := do
  let (hdr, rest) ← readN s 5
  let tag := hdr.headD 0
  let lenBuf := hdr.drop 1
  if tag.toNat = 88 ∧ hdr = Generated.Wire.pgTerminatePacket.map UInt8.ofNat then
    pure (⟨tag, lenBuf, []⟩, rest)
  else do
    let (body, rest') ← readData [] (dataLength lenBuf) rest
    pure (⟨tag, lenBuf, body⟩, rest')

/-- `ReadPacket` (database side): type byte, then `readData(true)` -/
def readDb (s : Bytes) : Out (Packet × Bytes) := do
  let (t, rest) ← readN s 1
  let (lenBuf, rest1) ← readN rest 4
  let (body, rest2) ← readData [] (dataLength lenBuf) rest1
  pure (⟨t.headD 0, lenBuf, body⟩, rest2)

def startupTags : List Bytes := [Generated.Wire.pgStartupRequest.map UInt8.ofNat]
def startupHeaders : List Bytes :=
  [Generated.Wire.pgSSLRequestHeader.map UInt8.ofNat, Generated.Wire.pgCancelRequestHeader.map UInt8.ofNat,
   Generated.Wire.pgGSSENCRequestHeader.map UInt8.ofNat]

/-- `readStartupPacket` -/
def readStartup (s : Bytes) : Out (Packet × Bytes) := do
  let (buf, rest) ← readN s 8
  if ¬ (startupTags.contains (buf.drop 4) ∨ startupHeaders.contains buf) then .err else do
    let lenBuf := buf.take 4
    let (body, rest') ← readData (buf.drop 4) (dataLength lenBuf - 4) rest
    pure (⟨UInt8.ofNat Generated.Wire.pgWithoutMessageType, lenBuf, body⟩, rest')

/-- `ReadClientPacket` -/
def readClient (started : Bool) (s : Bytes) : Out (Packet × Bytes) :=
  if started then readGeneral s else readStartup s

/-- `updatePacketLength(newLength)`: `uint32(newLength + DataRowLengthBufSize)` big-endian -/
def packetLength (newLength : Nat) : Bytes := beBytes 4 ((newLength + lenSize) % 2^32)

/-- `ReplaceQuery` on a simple `Query` packet -/
def replaceSimpleQuery (p : Packet) (q : Bytes) : Packet :=
  { p with body := q ++ [0], lenBuf := packetLength (q.length + 1) }

/-! ### Go integer conversions of `utils.go` (interpreted from the regenerated `pgIntReads`) -/

/-- two's complement reinterpretation of an integer as a signed `bits`-bit Go integer -/
def wrapSigned (bits : Nat) (v : Int) : Int :=
  let m : Int := ((2 ^ bits : Nat) : Int)
  let r := v % m
  if r < m / 2 then r else r - m

/-- one Go integer conversion `T(v)` (`int`/`uint` are 64 bits); an unknown name is the identity (factgen
refuses to emit names outside this list) -/
def goConv (name : String) (v : Int) : Int :=
  if name = "int" ∨ name = "int64" then wrapSigned 64 v
  else if name = "int32" then wrapSigned 32 v
  else if name = "int16" then wrapSigned 16 v
  else if name = "int8" then wrapSigned 8 v
  else if name = "uint" ∨ name = "uint64" then v % ((2 ^ 64 : Nat) : Int)
  else if name = "uint32" then v % ((2 ^ 32 : Nat) : Int)
  else if name = "uint16" then v % ((2 ^ 16 : Nat) : Int)
  else if name = "uint8" ∨ name = "byte" then v % ((2 ^ 8 : Nat) : Int)
  else v

/-- a chain of conversions, innermost first, applied to the value `binary.BigEndian.UintN` returned -/
def goConvs (chain : List String) (v : Nat) : Int := chain.foldl (fun x c => goConv c x) (v : Int)

/-! ### specification codec -/

/-- a well-framed message: type byte, 4-byte big-endian length (counting itself), body -/
def encodeMsg (t : UInt8) (body : Bytes) : Bytes := t :: beBytes 4 (body.length + 4) ++ body

/-- specification decoder: first message of a stream and the remaining bytes -/
def decodeMsg (s : Bytes) : Option (UInt8 × Bytes × Bytes) :=
  match s with
  | t :: r =>
    if r.length < 4 then none else
    let n := beVal (r.take 4)
    if n < 4 ∨ (r.drop 4).length < n - 4 then none
    else some (t, (r.drop 4).take (n - 4), (r.drop 4).drop (n - 4))
  | [] => none

end AcraModel.Wire.Pg
