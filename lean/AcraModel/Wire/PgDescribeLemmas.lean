import AcraModel.Wire.PgDescribe
import AcraModel.Wire.PgExtLemmas
/-! Lemmas about the RowDescription / ParameterDescription model (`Wire/PgDescribe.lean`). -/
namespace AcraModel.Wire.Pg
open AcraModel

/-- the members of a field description fit the widths of the layout -/
def MembersOk : List (String × Nat) → List Nat → Prop
  | (_, w) :: l, v :: vs => v < 256 ^ w ∧ MembersOk l vs
  | [], [] => True
  | _, _ => False

/-- a field description as the protocol allows it: a name without zero bytes, members within their widths -/
def FieldOk (f : FieldDesc) : Prop := NoZero f.name ∧ MembersOk fdLayout f.members

theorem fdLayout_eq : fdLayout = [("TableOID", 4), ("TableAttributeNumber", 2), ("DataTypeOID", 4), ("DataTypeSize", 2),
    ("TypeModifier", 4), ("Format", 2)] := by decide
theorem layoutLen_fdLayout : layoutLen fdLayout = fdFixedLen := by decide
theorem oidIndex_eq : oidIndex = 2 := by decide

theorem MembersOk.length_eq {l : List (String × Nat)} {vs : List Nat} (h : MembersOk l vs) : vs.length = l.length := by
  induction l generalizing vs with
  | nil => cases vs with
    | nil => rfl
    | cons _ _ => exact absurd h (by simp [MembersOk])
  | cons x l ih => cases vs with
    | nil => exact absurd h (by simp [MembersOk])
    | cons v vs => simp only [List.length_cons]; rw [ih h.2]

theorem encMembers_length (l : List (String × Nat)) (vs : List Nat) (h : vs.length = l.length) :
    (encMembers l vs).length = layoutLen l := by
  induction l generalizing vs with
  | nil => cases vs <;> simp [encMembers, layoutLen]
  | cons x l ih =>
    cases vs with
    | nil => simp at h
    | cons v vs =>
      obtain ⟨nm, w⟩ := x
      simp only [List.length_cons, Nat.add_right_cancel_iff] at h
      have := ih vs h
      simp only [layoutLen] at this
      simp [encMembers, layoutLen, this]

theorem decMembers_encMembers (l : List (String × Nat)) (vs : List Nat) (rest : Bytes) (h : MembersOk l vs) :
    decMembers l (encMembers l vs ++ rest) = vs := by
  induction l generalizing vs with
  | nil => cases vs with
    | nil => rfl
    | cons _ _ => exact absurd h (by simp [MembersOk])
  | cons x l ih =>
    cases vs with
    | nil => exact absurd h (by simp [MembersOk])
    | cons v vs =>
      obtain ⟨nm, w⟩ := x
      simp only [encMembers, decMembers, List.append_assoc]
      rw [List.take_left' (beBytes_length w v), List.drop_left' (beBytes_length w v), ih vs h.2,
        beVal_beBytes_of_lt w v h.1]

theorem encField_length (f : FieldDesc) (h : f.members.length = fdLayout.length) :
    (encField f).length = f.name.length + 1 + fdFixedLen := by
  simp only [encField, List.length_append, List.length_cons, List.length_nil,
    encMembers_length fdLayout f.members h, layoutLen_fdLayout]

/-- the field loop of the pgproto3 decoder inverts the encoder (and leaves what follows alone) -/
theorem decodeFields_flatMap (fs : List FieldDesc) (rest : Bytes) (h : ∀ f ∈ fs, FieldOk f) :
    decodeFields fs.length (fs.flatMap encField ++ rest) = some fs := by
  induction fs with
  | nil => rfl
  | cons f fs ih =>
    have hf := h f List.mem_cons_self
    have hfs : ∀ g ∈ fs, FieldOk g := fun g hg => h g (List.mem_cons_of_mem _ hg)
    have hlen := hf.2.length_eq
    have hs : (f :: fs).flatMap encField ++ rest
        = f.name ++ 0 :: (encMembers fdLayout f.members ++ (fs.flatMap encField ++ rest)) := by
      simp [encField, List.flatMap_cons]
    rw [hs, List.length_cons, decodeFields, indexZero_append _ _ hf.1]
    simp only []
    have hd : (f.name ++ 0 :: (encMembers fdLayout f.members ++ (fs.flatMap encField ++ rest))).drop (f.name.length + 1)
        = encMembers fdLayout f.members ++ (fs.flatMap encField ++ rest) := by
      rw [show f.name ++ 0 :: (encMembers fdLayout f.members ++ (fs.flatMap encField ++ rest))
          = (f.name ++ [0]) ++ (encMembers fdLayout f.members ++ (fs.flatMap encField ++ rest)) by simp]
      exact List.drop_left' (by simp)
    have ht : (f.name ++ 0 :: (encMembers fdLayout f.members ++ (fs.flatMap encField ++ rest))).take f.name.length = f.name :=
      List.take_left' rfl
    rw [hd, ht]
    have hml := encMembers_length fdLayout f.members hlen
    have hge : ¬ (encMembers fdLayout f.members ++ (fs.flatMap encField ++ rest)).length < fdFixedLen := by
      rw [List.length_append, hml, layoutLen_fdLayout]; omega
    rw [if_neg hge, List.drop_left' hml, ih hfs, decMembers_encMembers _ _ _ hf.2]
    rfl

/-- **RowDescription round trip** (pgproto3 `Decode ∘ Encode` on protocol-conformant field lists) -/
theorem decodeRowDesc_encodeRowDesc (fs : List FieldDesc) (b : Bytes) (h : ∀ f ∈ fs, FieldOk f)
    (he : encodeRowDesc fs = some b) : decodeRowDesc b = some fs := by
  unfold encodeRowDesc at he
  split at he
  · cases he
  · next hl =>
    cases he
    have hl' : fs.length < 2^16 := by omega
    unfold decodeRowDesc
    have h2 : ¬ (beBytes 2 fs.length ++ fs.flatMap encField).length < 2 := by simp
    rw [if_neg h2, List.take_left' (beBytes_length 2 _), List.drop_left' (beBytes_length 2 _),
      beVal_beBytes2 _ hl']
    have := decodeFields_flatMap fs [] h
    simpa using this

theorem setOids_length (fs : List FieldDesc) (its : List (Option Nat)) : (setOids fs its).length = fs.length := by
  induction fs generalizing its with
  | nil => cases its with
    | nil => rfl
    | cons i its => cases i <;> rfl
  | cons f fs ih =>
    cases its with
    | nil => rfl
    | cons i its => cases i <;> simp [setOids, ih]

theorem setOids_none (fs : List FieldDesc) (its : List (Option Nat)) (h : its.any (·.isSome) = false) :
    setOids fs its = fs := by
  induction fs generalizing its with
  | nil => cases its with
    | nil => rfl
    | cons i its => cases i <;> rfl
  | cons f fs ih =>
    cases its with
    | nil => rfl
    | cons i its =>
      cases i with
      | none => simp only [List.any_cons, Option.isSome_none, Bool.false_or] at h; simp [setOids, ih its h]
      | some o => simp at h

theorem membersOk_set_oid (ms : List Nat) (oid : Nat) (h : MembersOk fdLayout ms) (ho : oid < 2^32) :
    MembersOk fdLayout (ms.set oidIndex oid) := by
  rw [oidIndex_eq]
  rw [fdLayout_eq] at h ⊢
  match ms, h with
  | [a, b, c, d, e, f], h =>
    simp only [MembersOk] at h ⊢
    simp only [List.set_cons_succ, List.set_cons_zero]
    exact ⟨h.1, h.2.1, by omega, h.2.2.2.1, h.2.2.2.2.1, h.2.2.2.2.2.1, trivial⟩

theorem setOids_fieldOk (fs : List FieldDesc) (its : List (Option Nat)) (h : ∀ f ∈ fs, FieldOk f)
    (ho : ∀ o, some o ∈ its → o < 2^32) : ∀ f ∈ setOids fs its, FieldOk f := by
  induction fs generalizing its with
  | nil => cases its with
    | nil => exact h
    | cons i its => cases i <;> exact h
  | cons f fs ih =>
    cases its with
    | nil => exact h
    | cons i its =>
      have hf := h f List.mem_cons_self
      have hfs : ∀ g ∈ fs, FieldOk g := fun g hg => h g (List.mem_cons_of_mem _ hg)
      have ho' : ∀ o, some o ∈ its → o < 2^32 := fun o hm => ho o (List.mem_cons_of_mem _ hm)
      cases i with
      | none =>
        intro g hg
        simp only [setOids, List.mem_cons] at hg
        rcases hg with rfl | hg
        · exact hf
        · exact ih its hfs ho' g hg
      | some o =>
        intro g hg
        simp only [setOids, List.mem_cons] at hg
        rcases hg with rfl | hg
        · exact ⟨hf.1, membersOk_set_oid _ _ hf.2 (ho o List.mem_cons_self)⟩
        · exact ih its hfs ho' g hg

/-- the encoded length of a field list does not depend on the member values -/
theorem flatMap_encField_length_setOids (fs : List FieldDesc) (its : List (Option Nat))
    (h : ∀ f ∈ fs, f.members.length = fdLayout.length) :
    ((setOids fs its).flatMap encField).length = (fs.flatMap encField).length := by
  induction fs generalizing its with
  | nil => cases its with
    | nil => rfl
    | cons i its => cases i <;> rfl
  | cons f fs ih =>
    cases its with
    | nil => rfl
    | cons i its =>
      have hf := h f List.mem_cons_self
      have hfs : ∀ g ∈ fs, g.members.length = fdLayout.length := fun g hg => h g (List.mem_cons_of_mem _ hg)
      cases i with
      | none => simp [setOids, ih its hfs]
      | some o =>
        simp only [setOids, List.flatMap_cons, List.length_append, ih its hfs]
        rw [encField_length _ (by simpa using hf), encField_length _ hf]

/-- what the column `i` of the rewritten description is: the received one with, at most, another data type OID -/
theorem setOids_getElem (fs : List FieldDesc) (its : List (Option Nat)) (i : Nat) (f : FieldDesc)
    (hi : fs[i]? = some f) :
    (setOids fs its)[i]? = some (match (its[i]?).join with
      | some oid => { f with members := f.members.set oidIndex oid }
      | none => f) := by
  induction fs generalizing its i with
  | nil => simp at hi
  | cons g fs ih =>
    cases its with
    | nil => simp [setOids, hi]
    | cons it its =>
      cases i with
      | zero =>
        simp only [List.getElem?_cons_zero, Option.some.injEq] at hi
        subst hi
        cases it <;> simp [setOids]
      | succ i =>
        simp only [List.getElem?_cons_succ] at hi
        cases it <;> simp [setOids, ih its i hi]

/-- **RowDescription rewrite** on a protocol-conformant message: the new body is the encoding of the received
field list with the selected OIDs replaced; the type byte and the length buffer are untouched. -/
theorem handleRowDescription_encode (t : UInt8) (lb b : Bytes) (fs : List FieldDesc) (its : List (Option Nat))
    (h : ∀ f ∈ fs, FieldOk f) (he : encodeRowDesc fs = some b) (hl : its.length = fs.length) :
    ∃ b', encodeRowDesc (setOids fs its) = some b' ∧ b'.length = b.length ∧
      handleRowDescription ⟨t, lb, b⟩ (some its) = ⟨t, lb, b'⟩ := by
  have hdec := decodeRowDesc_encodeRowDesc fs b h he
  have hlen : fs.length ≤ 65535 := by
    unfold encodeRowDesc at he
    split at he
    · cases he
    · omega
  have he' : encodeRowDesc (setOids fs its) = some (beBytes 2 fs.length ++ (setOids fs its).flatMap encField) := by
    unfold encodeRowDesc
    rw [setOids_length, if_neg (by omega)]
  have hb : b = beBytes 2 fs.length ++ fs.flatMap encField := by
    unfold encodeRowDesc at he
    rw [if_neg (by omega)] at he
    cases he; rfl
  refine ⟨_, he', ?_, ?_⟩
  · rw [hb]
    simp only [List.length_append, beBytes_length]
    rw [flatMap_encField_length_setOids fs its (fun f hf => (h f hf).2.length_eq)]
  · unfold handleRowDescription
    simp only [hdec, hl, ne_eq, not_true_eq_false, if_false]
    cases hany : its.any (·.isSome) with
    | true => simp [he']
    | false =>
      simp only [Bool.false_eq_true, if_false]
      rw [setOids_none fs its hany, ← hb]

/-! ### ParameterDescription -/

theorem flatMap_beBytes4_length (oids : List Nat) : (oids.flatMap (beBytes 4)).length = 4 * oids.length := by
  induction oids with
  | nil => rfl
  | cons o os ih => simp [List.flatMap_cons, ih]; omega

theorem drop_flatMap_beBytes4 (pre oids : List Nat) :
    ((pre ++ oids).flatMap (beBytes 4)).drop (4 * pre.length) = oids.flatMap (beBytes 4) := by
  rw [List.flatMap_append]
  exact List.drop_left' (flatMap_beBytes4_length pre)

theorem decode_oids_aux (oids : List Nat) (ho : ∀ o ∈ oids, o < 2^32) (k : Nat) (hk : k < oids.length) :
    beVal (((oids.flatMap (beBytes 4)).drop (4 * k)).take 4) = oids[k] := by
  have hsplit : oids = oids.take k ++ oids[k] :: oids.drop (k+1) := by
    rw [← List.drop_eq_getElem_cons hk, List.take_append_drop]
  have hlen : (oids.take k).length = k := by simp; omega
  have := drop_flatMap_beBytes4 (oids.take k) (oids[k] :: oids.drop (k+1))
  rw [← hsplit, hlen] at this
  rw [this, List.flatMap_cons, List.take_left' (beBytes_length 4 _)]
  exact beVal_beBytes4 _ (ho _ (List.getElem_mem hk))

/-- **ParameterDescription round trip** -/
theorem decodeParamDesc_encodeParamDesc (oids : List Nat) (b : Bytes) (ho : ∀ o ∈ oids, o < 2^32)
    (he : encodeParamDesc oids = some b) : decodeParamDesc b = some oids := by
  unfold encodeParamDesc at he
  split at he
  · cases he
  · cases he
    unfold decodeParamDesc
    have h2 : ¬ (beBytes 2 oids.length ++ oids.flatMap (beBytes 4)).length < 2 := by simp
    rw [if_neg h2]
    simp only [List.drop_left' (beBytes_length 2 _), flatMap_beBytes4_length]
    rw [Nat.mul_div_cancel_left _ (by decide : 0 < 4)]
    congr 1
    apply List.ext_getElem
    · simp
    · intro k h1 h2
      simp only [List.getElem_map, List.getElem_range]
      exact decode_oids_aux oids ho k (by simpa using h1)

theorem setParamOids_length (oids : List Nat) (its : List (Option Nat)) : (setParamOids oids its).length = oids.length := by
  simp [setParamOids]

theorem setParamOids_none (oids : List Nat) (its : List (Option Nat))
    (h : (List.range oids.length).any (fun i => ((its[i]?).join).isSome) = false) : setParamOids oids its = oids := by
  apply List.ext_getElem
  · simp [setParamOids]
  · intro k h1 h2
    simp only [setParamOids, List.getElem_mapIdx]
    have hk : k < oids.length := by simpa [setParamOids] using h1
    have := List.any_eq_false.mp h k (List.mem_range.mpr hk)
    cases hj : (its[k]?).join with
    | none => rfl
    | some o => rw [hj] at this; simp at this

/-- **ParameterDescription rewrite** on a protocol-conformant message -/
theorem handleParameterDescription_encode (t : UInt8) (lb b : Bytes) (oids : List Nat) (its : List (Option Nat))
    (ho : ∀ o ∈ oids, o < 2^32) (he : encodeParamDesc oids = some b) :
    ∃ b', encodeParamDesc (setParamOids oids its) = some b' ∧ b'.length = b.length ∧
      handleParameterDescription ⟨t, lb, b⟩ (some its) = ⟨t, lb, b'⟩ := by
  have hdec := decodeParamDesc_encodeParamDesc oids b ho he
  have hlen : oids.length ≤ 65535 := by
    unfold encodeParamDesc at he
    split at he
    · cases he
    · omega
  have hb : b = beBytes 2 oids.length ++ oids.flatMap (beBytes 4) := by
    unfold encodeParamDesc at he
    rw [if_neg (by omega)] at he
    cases he; rfl
  have he' : encodeParamDesc (setParamOids oids its)
      = some (beBytes 2 oids.length ++ (setParamOids oids its).flatMap (beBytes 4)) := by
    unfold encodeParamDesc
    rw [setParamOids_length, if_neg (by omega)]
  refine ⟨_, he', ?_, ?_⟩
  · rw [hb]
    simp only [List.length_append, beBytes_length]
    rw [flatMap_beBytes4_length, flatMap_beBytes4_length, setParamOids_length]
  · unfold handleParameterDescription
    simp only [hdec]
    cases hany : (List.range oids.length).any (fun i => ((its[i]?).join).isSome) with
    | true => simp [he']
    | false =>
      simp only [Bool.false_eq_true, if_false]
      rw [setParamOids_none oids its hany, ← hb]

end AcraModel.Wire.Pg
