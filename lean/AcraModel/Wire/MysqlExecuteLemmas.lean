import AcraModel.Wire.MysqlExecute
import AcraModel.Wire.MysqlLemmas
/-! Lemmas about the COM_STMT_EXECUTE model (`Wire/MysqlExecute.lean`): tables, decimal text, no panic, frame. -/
namespace AcraModel.Wire.My
open AcraModel AcraModel.Wire.LenEnc AcraModel.Wire.LenEnc.Proofs

/-! ## A. the regenerated tables agree with each other -/

theorem storageBytes_mem (t sb : Nat) (h : storageBytes t = some sb) : (t, sb) ∈ Generated.Wire.myNumericStorageBytes := by
  unfold storageBytes at h
  cases hf : Generated.Wire.myNumericStorageBytes.find? (·.1 = t) with
  | none => simp [hf] at h
  | some x =>
    simp only [hf, Option.map_some, Option.some.injEq] at h
    have hm := List.mem_of_find?_eq_some hf
    have hp := List.find?_some hf
    simp only [decide_eq_true_eq] at hp
    obtain ⟨a, b⟩ := x
    simp only at h hp
    subst h; subst hp
    exact hm

/-- the width `NewMysqlBoundValue` reads, the width `Encode` writes and `NumericTypesStorageBytes` are the same
number for every numeric type (so `n` returned by the reader is what it consumed, and `Encode` fills its buffer) -/
theorem tables_agree (t sb : Nat) (h : storageBytes t = some sb) :
    (decodeKind t = some (.int sb) ∧ encodeKind t = some (.int sb)) ∨
    (decodeKind t = some (.float sb) ∧ encodeKind t = some (.float sb)) ∨
    (decodeKind t = some .null ∧ encodeKind t = some .null ∧ sb = 0) := by
  have hm := storageBytes_mem t sb h
  simp only [Generated.Wire.myNumericStorageBytes, List.mem_cons, Prod.mk.injEq, List.not_mem_nil, or_false] at hm
  rcases hm with ⟨rfl, rfl⟩ | ⟨rfl, rfl⟩ | ⟨rfl, rfl⟩ | ⟨rfl, rfl⟩ | ⟨rfl, rfl⟩ | ⟨rfl, rfl⟩ | ⟨rfl, rfl⟩ | ⟨rfl, rfl⟩ | ⟨rfl, rfl⟩ <;> decide

/-! ## B. decimal text of integers -/

theorem parseDigits_append (acc : Nat) (a : Bytes) (c : UInt8) (hc : 48 ≤ c.toNat ∧ c.toNat ≤ 57) :
    parseDigits acc (a ++ [c]) = (parseDigits acc a).map (fun v => 10 * v + (c.toNat - 48)) := by
  induction a generalizing acc with
  | nil => simp [parseDigits, hc]
  | cons x a ih =>
    simp only [List.cons_append, parseDigits]
    split
    · exact ih _
    · rfl

theorem digit_toNat (d : Nat) (h : d < 10) : (UInt8.ofNat (48 + d)).toNat = 48 + d := by
  simp [UInt8.toNat_ofNat']; omega

theorem natDec_ne_nil (n : Nat) : natDec n ≠ [] := by
  rw [natDec]; split <;> simp

/-- `ParseUint(FormatUint(n))` = n -/
theorem parseDigits_natDec (n : Nat) : parseDigits 0 (natDec n) = some n := by
  induction n using Nat.strongRecOn with
  | _ n ih =>
    rw [natDec]
    split
    · next h => simp [parseDigits, UInt8.toNat_ofNat']; omega
    · next h =>
      have hd : n % 10 < 10 := Nat.mod_lt _ (by decide)
      rw [parseDigits_append _ _ _ (by rw [digit_toNat _ hd]; omega), ih (n / 10) (by omega), digit_toNat _ hd]
      simp only [Option.map_some, Option.some.injEq]
      omega

theorem parseNatDec_natDec (n : Nat) : parseNatDec (natDec n) = some n := by
  unfold parseNatDec
  rw [if_neg (natDec_ne_nil n)]
  exact parseDigits_natDec n

theorem natDec_head (n : Nat) : ∃ c r, natDec n = c :: r ∧ 48 ≤ c.toNat ∧ c.toNat ≤ 57 := by
  induction n using Nat.strongRecOn with
  | _ n ih =>
    rw [natDec]
    split
    · next h => exact ⟨_, [], rfl, by rw [digit_toNat n h]; omega⟩
    · next h =>
      obtain ⟨c, r, hc, hr⟩ := ih (n / 10) (by omega)
      exact ⟨c, r ++ [UInt8.ofNat (48 + n % 10)], by rw [hc]; rfl, hr⟩

theorem parseInt_digit (bits : Nat) (c : UInt8) (r : Bytes) (hc : 48 ≤ c.toNat ∧ c.toNat ≤ 57) :
    parseInt bits (c :: r) = (match parseNatDec (c :: r) with
      | none => none
      | some un => if un ≥ 2^(bits-1) then none else some (un : Int)) := by
  have h1 : ¬ c.toNat = 45 := by omega
  have h3 : ¬ c.toNat = 43 := by omega
  unfold parseInt
  simp only [h1, h3, or_self, if_false]
  cases parseNatDec (c :: r) with
  | none => rfl
  | some un => simp

theorem parseInt_minus (bits : Nat) (r : Bytes) :
    parseInt bits (45 :: r) = (match parseNatDec r with
      | none => none
      | some un => if un > 2^(bits-1) then none else some (-(un : Int))) := by
  have h45 : ((45 : UInt8).toNat = 45) := rfl
  unfold parseInt
  simp only [h45, or_true, if_true]
  cases parseNatDec r with
  | none => rfl
  | some un => simp

/-- **`ParseInt(FormatInt(i), 10, bits) = i`** for every `i` of the `bits`-bit signed range -/
theorem parseInt_fmtInt (bits : Nat) (i : Int) (hlo : -((2^(bits-1) : Nat) : Int) ≤ i) (hhi : i < ((2^(bits-1) : Nat) : Int)) :
    parseInt bits (fmtInt i) = some i := by
  unfold fmtInt
  by_cases hneg : i < 0
  · rw [if_pos hneg, parseInt_minus, parseNatDec_natDec]
    have hle : ¬ (i.natAbs > 2^(bits-1)) := by omega
    simp only [hle, if_false, Option.some.injEq]
    omega
  · rw [if_neg hneg]
    obtain ⟨c, r, hc, hr⟩ := natDec_head i.natAbs
    rw [hc, parseInt_digit bits c r hr, ← hc, parseNatDec_natDec]
    have hlt : ¬ (i.natAbs ≥ 2^(bits-1)) := by omega
    simp only [hlt, if_false, Option.some.injEq]
    omega

theorem toSigned_range (w : Nat) (hw : 0 < w) (v : Nat) (hv : v < 2^(8*w)) :
    -((2^(8*w-1) : Nat) : Int) ≤ toSigned (8*w) v ∧ toSigned (8*w) v < ((2^(8*w-1) : Nat) : Int) := by
  have hp : 2^(8*w) = 2 * 2^(8*w-1) := by
    rw [show 8*w = (8*w-1) + 1 by omega, Nat.pow_succ]; simp; omega
  unfold toSigned
  split <;> constructor <;> omega

/-- `binary.Write(intN(ParseInt(FormatInt(binary.Read …))))` gives the bytes back -/
theorem intBytes_toSigned (w : Nat) (b : Bytes) (hb : b.length = w) :
    intBytes w (toSigned (8*w) (leVal b)) = b := by
  have hv : leVal b < 2^(8*w) := by
    have := leVal_lt b
    rw [hb, show (256 : Nat) = 2^8 by rfl, ← Nat.pow_mul] at this
    exact this
  have key : (toSigned (8*w) (leVal b) % ((2^(8*w) : Nat) : Int)).toNat = leVal b := by
    unfold toSigned
    split
    · rw [Int.emod_eq_of_lt (by omega) (by omega)]; simp
    · have : ((leVal b : Int) - ((2^(8*w) : Nat) : Int)) % ((2^(8*w) : Nat) : Int) = (leVal b : Int) := by
        rw [Int.sub_emod, Int.emod_self]
        simp only [Int.sub_zero, Int.emod_emod]
        exact Int.emod_eq_of_lt (by omega) (by omega)
      rw [this]; simp
  unfold intBytes
  rw [key, ← hb]
  exact leBytes_leVal b

end AcraModel.Wire.My

namespace AcraModel.Wire.My
open AcraModel AcraModel.Wire.LenEnc AcraModel.Wire.LenEnc.Proofs

/-! ## C. one parameter value: `NewMysqlBoundValue`, `SetData`, `Encode` -/

theorem fit_self (sb : Nat) (w : Bytes) (h : w.length = sb) : (w ++ List.replicate (sb - w.length) 0).take sb = w := by
  rw [h, Nat.sub_self]; simp [← h]

/-- an integer parameter that is not changed is re-encoded to exactly its wire bytes -/
theorem value_roundtrip_int (fo : FloatOps) (t w : Nat) (raw rest : Bytes) (hs : storageBytes t = some w)
    (hd : decodeKind t = some (.int w)) (he : encodeKind t = some (.int w)) (hw : 0 < w) (hr : raw.length = w) :
    newBoundValue fo (raw ++ rest) t = .ok (⟨t, some (fmtInt (toSigned (8 * w) (leVal raw)))⟩, w) ∧
    (⟨t, some (fmtInt (toSigned (8 * w) (leVal raw)))⟩ : BoundValue).encode fo = .ok raw := by
  have hv : leVal raw < 2^(8*w) := by
    have := leVal_lt raw
    rw [hr, show (256 : Nat) = 2^8 by rfl, ← Nat.pow_mul] at this
    exact this
  constructor
  · unfold newBoundValue
    simp only [hs, hd]
    rw [if_neg (by simp only [List.length_append]; omega), List.take_left' hr]
    rfl
  · unfold BoundValue.encode
    simp only [hs, he, Option.getD_some]
    have hrng := toSigned_range w hw (leVal raw) hv
    rw [parseInt_fmtInt (8*w) _ hrng.1 hrng.2]
    simp only []
    rw [intBytes_toSigned w raw hr, fit_self w raw hr]

/-- a FLOAT/DOUBLE parameter that is not changed is re-encoded to its wire bytes whenever strconv's text round trip
holds for that value (`fo.parse w (fo.fmt w raw) = some raw`: every finite value and the infinities) -/
theorem value_roundtrip_float (fo : FloatOps) (t w : Nat) (raw rest : Bytes) (hs : storageBytes t = some w)
    (hd : decodeKind t = some (.float w)) (he : encodeKind t = some (.float w)) (hr : raw.length = w)
    (hlaw : fo.parse w (fo.fmt w raw) = some raw) :
    newBoundValue fo (raw ++ rest) t = .ok (⟨t, some (fo.fmt w raw)⟩, w) ∧
    (⟨t, some (fo.fmt w raw)⟩ : BoundValue).encode fo = .ok raw := by
  constructor
  · unfold newBoundValue
    simp only [hs, hd]
    rw [if_neg (by simp only [List.length_append]; omega), List.take_left' hr]
    rfl
  · unfold BoundValue.encode
    simp only [hs, he, Option.getD_some, hlaw]
    rw [fit_self w raw hr]

theorem storageBytes_changedType : storageBytes changedType = none := by decide

/-- a string-like parameter: read as its bytes; unchanged it is re-encoded to the same length-encoded string, changed
to `b'` it travels as a BLOB (`changedType`) holding exactly the length-encoded `b'` -/
theorem value_roundtrip_str (fo : FloatOps) (t : Nat) (b b' rest : Bytes) (hs : storageBytes t = none) (hb : b.length < 2^64) :
    newBoundValue fo (putLengthEncodedString (some b) ++ rest) t = .ok (⟨t, some b⟩, (putLengthEncodedString (some b)).length) ∧
    ((⟨t, some b⟩ : BoundValue).setData b).paramType = t ∧
    ((⟨t, some b⟩ : BoundValue).setData b).encode fo = .ok (putLengthEncodedString (some b)) ∧
    (b' ≠ b → ((⟨t, some b⟩ : BoundValue).setData b').paramType = changedType ∧
      ((⟨t, some b⟩ : BoundValue).setData b').encode fo = .ok (putLengthEncodedString (some b'))) := by
  refine ⟨?_, ?_, ?_, ?_⟩
  · unfold newBoundValue
    simp only [hs]
    rw [lenenc_str_roundtrip (some b) rest (by intro x hx; cases hx; exact hb)]
    rfl
  · simp [BoundValue.setData]
  · simp [BoundValue.setData, BoundValue.encode, hs]
  · intro hne
    have : ¬ ((some b : Option Bytes).getD [] = b') := by simpa using fun h => hne h.symm
    simp only [BoundValue.setData, this, if_false, BoundValue.encode, storageBytes_changedType, and_self]

/-! ## D. no panic -/

theorem newBoundValue_no_panic (fo : FloatOps) (data : Bytes) (t : Nat) : newBoundValue fo data t ≠ .panic := by
  unfold newBoundValue
  cases hs : storageBytes t with
  | none =>
    simp only []
    cases hr : lengthEncodedString data with
    | panic => exact absurd hr (lenenc_str_no_panic _)
    | err => simp
    | ok x => simp
  | some sb =>
    simp only []
    rcases tables_agree t sb hs with ⟨h, _⟩ | ⟨h, _⟩ | ⟨h, _, _⟩ <;> rw [h] <;> simp only [] <;> (try split) <;> simp

theorem newBoundValue_le (fo : FloatOps) (data : Bytes) (t : Nat) (v : BoundValue) (n : Nat)
    (h : newBoundValue fo data t = .ok (v, n)) : n ≤ data.length := by
  unfold newBoundValue at h
  cases hs : storageBytes t with
  | none =>
    simp only [hs] at h
    cases hr : lengthEncodedString data with
    | panic => simp [hr] at h
    | err => simp [hr] at h
    | ok x =>
      obtain ⟨val, k⟩ := x
      simp only [hr, Out.bind_ok, Out.pure_eq, Out.ok.injEq, Prod.mk.injEq] at h
      have := (lenenc_str_progress data val k hr).2
      omega
  | some sb =>
    simp only [hs] at h
    rcases tables_agree t sb hs with ⟨hk, _⟩ | ⟨hk, _⟩ | ⟨hk, _, h0⟩
    · rw [hk] at h; simp only [] at h
      split at h
      · cases h
      · simp only [Out.pure_eq, Out.ok.injEq, Prod.mk.injEq] at h; omega
    · rw [hk] at h; simp only [] at h
      split at h
      · cases h
      · simp only [Out.pure_eq, Out.ok.injEq, Prod.mk.injEq] at h; omega
    · rw [hk] at h; simp only [Out.pure_eq, Out.ok.injEq, Prod.mk.injEq] at h; omega

theorem readTypes_ok (d : Bytes) (k pos : Nat) (h : pos + 2 * k ≤ d.length) :
    ∃ ts, readTypes d k pos = .ok ts ∧ ts.length = k := by
  induction k generalizing pos with
  | zero => exact ⟨[], rfl, rfl⟩
  | succ k ih =>
    obtain ⟨x, hx⟩ := goIndex_ne_panic_of_lt d pos (by omega)
    obtain ⟨ts, hts, hl⟩ := ih (pos + 2) (by omega)
    exact ⟨x.toNat :: ts, by simp [readTypes, hx, hts], by simp [hl]⟩

theorem readVals_no_panic (fo : FloatOps) (d bitmap : Bytes) (ts : List Nat) (i pos : Nat) (hpos : pos ≤ d.length)
    (hb : i + ts.length ≤ 8 * bitmap.length) : readVals fo d bitmap ts i pos ≠ .panic := by
  induction ts generalizing i pos with
  | nil => simp [readVals]
  | cons t ts ih =>
    simp only [List.length_cons] at hb
    rw [readVals]
    have hnull : ∃ bnull : Bool, (if bitmap.length > 0 then do
        let b ← goIndex bitmap (i / 8)
        pure (decide ((b.toNat >>> (i % 8)) % 2 = 1))
      else pure false : Out Bool) = .ok bnull := by
      split
      · obtain ⟨b, hbx⟩ := goIndex_ne_panic_of_lt bitmap (i / 8) (by omega)
        exact ⟨decide ((b.toNat >>> (i % 8)) % 2 = 1), by rw [hbx]; rfl⟩
      · exact ⟨false, rfl⟩
    obtain ⟨bnull, hbn⟩ := hnull
    rw [hbn]
    simp only [Out.bind_ok]
    cases bnull with
    | true =>
      simp only [if_true]
      cases hr : readVals fo d bitmap ts (i + 1) pos with
      | panic => exact absurd hr (ih _ _ hpos (by omega))
      | err => simp
      | ok x => simp
    | false =>
      simp only [Bool.false_eq_true, if_false]
      rw [goSliceFrom_ok_of_le _ _ hpos]
      simp only [Out.bind_ok]
      cases hv : newBoundValue fo (d.drop pos) t with
      | panic => exact absurd hv (newBoundValue_no_panic _ _ _)
      | err => simp
      | ok x =>
        obtain ⟨v, n⟩ := x
        have hn := newBoundValue_le fo _ t v n hv
        rw [List.length_drop] at hn
        simp only [Out.bind_ok]
        cases hr : readVals fo d bitmap ts (i + 1) (pos + n) with
        | panic => exact absurd hr (ih _ _ (by omega) (by omega))
        | err => simp
        | ok y => simp

theorem hdrLen_eq : hdrLen = 10 := rfl

/-- **`GetBindParameters` never panics**, whatever the packet and the parameter count (true since `fix:` 11). -/
theorem getBindParameters_no_panic (fo : FloatOps) (d : Bytes) (paramNum : Nat) :
    getBindParameters fo d paramNum ≠ .panic := by
  unfold getBindParameters
  split
  · simp
  · next hn =>
    simp only []
    split
    · simp
    · next hg =>
      have hnbl : 0 < (paramNum + 7) / 8 := by omega
      rw [if_pos hnbl, goSlice_ok_of_le _ _ _ (by omega) (by omega)]
      simp only [Out.bind_ok]
      obtain ⟨fl, hfl⟩ := goIndex_ne_panic_of_lt d (hdrLen + (paramNum + 7) / 8) (by omega)
      rw [hfl]
      simp only [Out.bind_ok]
      split
      · simp
      · split
        · simp
        · next hg2 =>
          obtain ⟨ts, hts, hl⟩ := readTypes_ok d paramNum (hdrLen + (paramNum + 7) / 8 + 1) (by omega)
          rw [hts]
          simp only [Out.bind_ok]
          have hbl : ((d.take (hdrLen + (paramNum + 7) / 8)).drop hdrLen).length = (paramNum + 7) / 8 := by
            simp only [List.length_drop, List.length_take]; omega
          cases hr : readVals fo d ((d.take (hdrLen + (paramNum + 7) / 8)).drop hdrLen) ts 0
              (hdrLen + (paramNum + 7) / 8 + 1 + 2 * paramNum) with
          | panic => exact absurd hr (readVals_no_panic _ _ _ _ _ _ (by omega) (by rw [hbl, hl]; omega))
          | err => simp
          | ok x => simp

/-! ## E. frame of a rewritten packet -/

/-- **What `SetParameters` keeps.** When it succeeds the new payload starts with the first `10 + (n+7)/8 + 1` bytes of
the received one – command byte, statement id, flags, iteration count, NULL bitmap and new-params-bound flag are
byte-identical – followed by two bytes per parameter and the encoded values of the non-NULL parameters; the header
declares the new payload length (below 2^24-1) and keeps the sequence id. -/
theorem setParameters_frame (fo : FloatOps) (p p' : Packet) (vs : List BoundValue) (hne : vs ≠ [])
    (h : setParameters fo p vs = .ok p') :
    ∃ types vals, setTypes p.data vs (hdrLen + ((vs.length + 7) >>> 3) + 1) = .ok types ∧ encodeVals fo vs = .ok vals ∧
      p'.data = p.data.take (hdrLen + ((vs.length + 7) >>> 3) + 1) ++ types ++ vals ∧
      hdrLen + ((vs.length + 7) >>> 3) + 1 ≤ p.data.length ∧
      p'.header = updatePacketSize p.header p'.data.length := by
  unfold setParameters at h
  have hl : ¬ vs.length = 0 := by
    intro h0; exact hne (List.length_eq_zero_iff.mp h0)
  rw [if_neg hl] at h
  simp only [] at h
  unfold goSlice at h
  split at h
  · next hc =>
    simp only [Out.bind_ok, List.drop_zero] at h
    cases ht : setTypes p.data vs (hdrLen + ((vs.length + 7) >>> 3) + 1) with
    | panic => simp [ht] at h
    | err => simp [ht] at h
    | ok types =>
      simp only [ht, Out.bind_ok] at h
      cases hv : encodeVals fo vs with
      | panic => simp [hv] at h
      | err => simp [hv] at h
      | ok vals =>
        simp only [hv, Out.bind_ok, Out.pure_eq, Out.ok.injEq] at h
        subst h
        exact ⟨types, vals, rfl, rfl, rfl, hc.2, rfl⟩
  · simp at h

theorem setTypes_length (d : Bytes) (vs : List BoundValue) (pos : Nat) (types : Bytes) (h : setTypes d vs pos = .ok types) :
    types.length = 2 * vs.length := by
  induction vs generalizing pos types with
  | nil => simp only [setTypes, Out.ok.injEq] at h; subst h; rfl
  | cons v vs ih =>
    rw [setTypes] at h
    cases h1 : goSlice d pos (pos + 2) with
    | panic => simp [h1] at h
    | err => simp [h1] at h
    | ok pt =>
      simp only [h1, Out.bind_ok] at h
      generalize hfl : (if Generated.Wire.mySignFlagTypes.contains v.paramType = true then
          match v.data with
          | none => (pure ((pt.drop 1).headD 0) : Out UInt8)
          | some data =>
            match parseInt 64 data with
            | none => Out.err
            | some i => pure (if i < 0 then UInt8.ofNat Generated.Wire.mySignedBinaryValue
                              else UInt8.ofNat Generated.Wire.myUnsignedBinaryValue)
        else pure ((pt.drop 1).headD 0)) = fl at h
      cases fl with
      | panic => simp at h
      | err => simp at h
      | ok f =>
        simp only [Out.bind_ok] at h
        cases h2 : setTypes d vs (pos + 2) with
        | panic => simp [h2] at h
        | err => simp [h2] at h
        | ok rest =>
          simp only [h2, Out.bind_ok, Out.pure_eq, Out.ok.injEq] at h
          subst h
          simp [ih _ _ h2]; omega

end AcraModel.Wire.My

namespace AcraModel.Wire.My
open AcraModel AcraModel.Wire.LenEnc AcraModel.Wire.LenEnc.Proofs

/-! ## F. the whole rewrite never panics -/

theorem readVals_length (fo : FloatOps) (d bitmap : Bytes) (ts : List Nat) (i pos : Nat) (vs : List BoundValue)
    (h : readVals fo d bitmap ts i pos = .ok vs) : vs.length = ts.length := by
  induction ts generalizing i pos vs with
  | nil => simp only [readVals, Out.ok.injEq] at h; subst h; rfl
  | cons t ts ih =>
    rw [readVals] at h
    generalize (if bitmap.length > 0 then do
        let b ← goIndex bitmap (i / 8)
        pure (decide ((b.toNat >>> (i % 8)) % 2 = 1))
      else pure false : Out Bool) = nb at h
    cases nb with
    | panic => simp at h
    | err => simp at h
    | ok bn =>
      simp only [Out.bind_ok] at h
      cases bn with
      | true =>
        simp only [if_true] at h
        cases hr : readVals fo d bitmap ts (i + 1) pos with
        | panic => simp [hr] at h
        | err => simp [hr] at h
        | ok rest =>
          simp only [hr, Out.bind_ok, Out.pure_eq, Out.ok.injEq] at h
          subst h; simp [ih _ _ _ hr]
      | false =>
        simp only [Bool.false_eq_true, if_false] at h
        cases hs : goSliceFrom d pos with
        | panic => simp [hs] at h
        | err => simp [hs] at h
        | ok tail =>
          simp only [hs, Out.bind_ok] at h
          cases hv : newBoundValue fo tail t with
          | panic => simp [hv] at h
          | err => simp [hv] at h
          | ok x =>
            obtain ⟨v, n⟩ := x
            simp only [hv, Out.bind_ok] at h
            cases hr : readVals fo d bitmap ts (i + 1) (pos + n) with
            | panic => simp [hr] at h
            | err => simp [hr] at h
            | ok rest =>
              simp only [hr, Out.bind_ok, Out.pure_eq, Out.ok.injEq] at h
              subst h; simp [ih _ _ _ hr]

/-- when `GetBindParameters` returns values there is one per parameter and the packet holds the whole type list -/
theorem getBindParameters_some (fo : FloatOps) (d : Bytes) (n : Nat) (vs : List BoundValue) (hn : 0 < n)
    (h : getBindParameters fo d n = .ok (some vs)) :
    vs.length = n ∧ hdrLen + (n + 7) / 8 + 1 + 2 * n ≤ d.length := by
  unfold getBindParameters at h
  rw [if_neg (by omega)] at h
  simp only [] at h
  split at h
  · cases h
  · next hg =>
    have hnbl : (n + 7) / 8 > 0 := by omega
    rw [if_pos hnbl, goSlice_ok_of_le _ _ _ (by omega) (by omega)] at h
    obtain ⟨fl, hf⟩ := goIndex_ne_panic_of_lt d (hdrLen + (n + 7) / 8) (by omega)
    rw [hf] at h
    simp only [Out.bind_ok] at h
    split at h
    · cases h
    · split at h
      · cases h
      · next hg2 =>
        obtain ⟨ts, hts, hl⟩ := readTypes_ok d n (hdrLen + (n + 7) / 8 + 1) (by omega)
        rw [hts] at h
        simp only [Out.bind_ok] at h
        cases hr : readVals fo d ((d.take (hdrLen + (n + 7) / 8)).drop hdrLen) ts 0 (hdrLen + (n + 7) / 8 + 1 + 2 * n) with
        | panic => simp [hr] at h
        | err => simp [hr] at h
        | ok vals =>
          simp only [hr, Out.bind_ok, Out.pure_eq, Out.ok.injEq, Option.some.injEq] at h
          subst h
          exact ⟨by rw [readVals_length _ _ _ _ _ _ _ hr, hl], by omega⟩

theorem transformVals_length (g : Nat → Bytes → Out Bytes) (vs : List BoundValue) (i : Nat) (vs' : List BoundValue)
    (h : transformVals g vs i = .ok vs') : vs'.length = vs.length := by
  induction vs generalizing i vs' with
  | nil => simp only [transformVals, Out.ok.injEq] at h; subst h; rfl
  | cons v vs ih =>
    rw [transformVals] at h
    have key : ∀ (r : Out BoundValue), (r >>= fun v' => do
        let rest ← transformVals g vs (i + 1)
        pure (v' :: rest)) = .ok vs' → vs'.length = (v :: vs).length := by
      intro r hr0
      cases r with
      | panic => simp at hr0
      | err => simp at hr0
      | ok v' =>
        simp only [Out.bind_ok] at hr0
        cases hr : transformVals g vs (i + 1) with
        | panic => simp [hr] at hr0
        | err => simp [hr] at hr0
        | ok rest =>
          simp only [hr, Out.bind_ok, Out.pure_eq, Out.ok.injEq] at hr0
          subst hr0; simp [ih _ _ hr]
    exact key _ h

theorem transformVals_no_panic (g : Nat → Bytes → Out Bytes) (hg : ∀ i d, g i d ≠ .panic) (vs : List BoundValue) (i : Nat) :
    transformVals g vs i ≠ .panic := by
  induction vs generalizing i with
  | nil => simp [transformVals]
  | cons v vs ih =>
    rw [transformVals]
    cases hd : v.data with
    | none =>
      simp only [Out.pure_eq, Out.bind_ok]
      cases hr : transformVals g vs (i + 1) with
      | panic => exact absurd hr (ih _)
      | err => simp
      | ok x => simp
    | some d =>
      simp only []
      cases hgd : g i d with
      | panic => exact absurd hgd (hg i d)
      | err => simp
      | ok d' =>
        simp only [Out.bind_ok, Out.pure_eq]
        cases hr : transformVals g vs (i + 1) with
        | panic => exact absurd hr (ih _)
        | err => simp
        | ok x => simp

theorem setTypes_no_panic (d : Bytes) (vs : List BoundValue) (pos : Nat) (h : pos + 2 * vs.length ≤ d.length) :
    setTypes d vs pos ≠ .panic := by
  induction vs generalizing pos with
  | nil => simp [setTypes]
  | cons v vs ih =>
    simp only [List.length_cons] at h
    rw [setTypes, goSlice_ok_of_le _ _ _ (by omega) (by omega)]
    simp only [Out.bind_ok]
    have hfl : ∀ x : Out UInt8, x ≠ .panic → (x >>= fun flag => do
        let rest ← setTypes d vs (pos + 2)
        pure (UInt8.ofNat v.paramType :: flag :: rest)) ≠ .panic := by
      intro x hx
      cases x with
      | panic => exact absurd rfl hx
      | err => simp
      | ok f =>
        simp only [Out.bind_ok]
        cases hr : setTypes d vs (pos + 2) with
        | panic => exact absurd hr (ih _ (by omega))
        | err => simp
        | ok r => simp
    apply hfl
    split
    · cases v.data with
      | none => simp
      | some data => simp only []; cases parseInt 64 data <;> simp
    · simp

theorem encode_no_panic (fo : FloatOps) (v : BoundValue) : v.encode fo ≠ .panic := by
  unfold BoundValue.encode
  cases storageBytes v.paramType with
  | none => simp
  | some sb =>
    simp only []
    cases encodeKind v.paramType with
    | none => simp
    | some k =>
      cases k with
      | null => simp only []; split <;> simp
      | int w => simp only []; cases parseInt (8 * w) (v.data.getD []) <;> simp
      | float w => simp only []; cases fo.parse w (v.data.getD []) <;> simp

theorem encodeVals_no_panic (fo : FloatOps) (vs : List BoundValue) : encodeVals fo vs ≠ .panic := by
  induction vs with
  | nil => simp [encodeVals]
  | cons v vs ih =>
    rw [encodeVals]
    cases v.data with
    | none => exact ih
    | some _ =>
      simp only []
      cases he : v.encode fo with
      | panic => exact absurd he (encode_no_panic fo v)
      | err => simp
      | ok e =>
        simp only [Out.bind_ok]
        cases hr : encodeVals fo vs with
        | panic => exact absurd hr ih
        | err => simp
        | ok r => simp

/-- **The COM_STMT_EXECUTE rewrite never panics**: for every packet, parameter count and (non-panicking) observer. -/
theorem rewriteExecute_no_panic (fo : FloatOps) (g : Nat → Bytes → Out Bytes) (hg : ∀ i d, g i d ≠ .panic)
    (p : Packet) (n : Nat) : rewriteExecute fo g p n ≠ .panic := by
  unfold rewriteExecute
  cases hb : getBindParameters fo p.data n with
  | panic => exact absurd hb (getBindParameters_no_panic _ _ _)
  | err => simp
  | ok o =>
    simp only [Out.bind_ok]
    cases o with
    | none => simp
    | some vs =>
      simp only []
      cases ht : transformVals g vs 0 with
      | panic => exact absurd ht (transformVals_no_panic g hg _ _)
      | err => simp
      | ok vs' =>
        simp only [Out.bind_ok]
        have hl := transformVals_length g vs 0 vs' ht
        have hsp : setParameters fo p vs' ≠ .panic := by
          unfold setParameters
          split
          · simp
          · next hne =>
            have hn : 0 < n := by
              cases n with
              | zero =>
                simp only [getBindParameters, if_true, Out.ok.injEq, Option.some.injEq] at hb
                subst hb; exact absurd hl hne
              | succ k => omega
            obtain ⟨hvl, hlen⟩ := getBindParameters_some fo p.data n vs hn hb
            have hsh : (vs'.length + 7) >>> 3 = (n + 7) / 8 := by
              rw [hl, hvl, Nat.shiftRight_eq_div_pow]
            simp only []
            rw [hsh, goSlice_ok_of_le _ _ _ (by omega) (by omega)]
            simp only [Out.bind_ok]
            cases hst : setTypes p.data vs' (hdrLen + (n + 7) / 8 + 1) with
            | panic => exact absurd hst (setTypes_no_panic _ _ _ (by rw [hl, hvl]; omega))
            | err => simp
            | ok types =>
              simp only [Out.bind_ok]
              cases hev : encodeVals fo vs' with
              | panic => exact absurd hev (encodeVals_no_panic fo vs')
              | err => simp
              | ok vals => simp
        cases hs : setParameters fo p vs' with
        | panic => exact absurd hs hsp
        | err => simp
        | ok p' => simp

/-! ## F. the whole parameter block: `GetBindParameters` on the specification encoding -/

/-- the byte with bit `j` set iff `c j` -/
def byteOf (c : Nat → Bool) : Nat :=
  (List.range 8).foldl (fun acc bit => if c bit then acc + 2^bit else acc) 0

theorem byteOf_eq (c : Nat → Bool) :
    byteOf c = (if c 0 then 1 else 0) + (if c 1 then 2 else 0) + (if c 2 then 4 else 0) + (if c 3 then 8 else 0) +
      (if c 4 then 16 else 0) + (if c 5 then 32 else 0) + (if c 6 then 64 else 0) + (if c 7 then 128 else 0) := by
  unfold byteOf
  simp only [List.range, List.range.loop, List.foldl]
  cases c 0 <;> cases c 1 <;> cases c 2 <;> cases c 3 <;> cases c 4 <;> cases c 5 <;> cases c 6 <;> cases c 7 <;> rfl

theorem byteOf_lt (c : Nat → Bool) : byteOf c < 256 := by
  rw [byteOf_eq]
  cases c 0 <;> cases c 1 <;> cases c 2 <;> cases c 3 <;> cases c 4 <;> cases c 5 <;> cases c 6 <;> cases c 7 <;> decide

theorem byteOf_bit (c : Nat → Bool) (k : Nat) (hk : k < 8) : (byteOf c >>> k) % 2 = if c k then 1 else 0 := by
  rw [byteOf_eq]
  have : k = 0 ∨ k = 1 ∨ k = 2 ∨ k = 3 ∨ k = 4 ∨ k = 5 ∨ k = 6 ∨ k = 7 := by omega
  rcases this with rfl | rfl | rfl | rfl | rfl | rfl | rfl | rfl <;>
    cases c 0 <;> cases c 1 <;> cases c 2 <;> cases c 3 <;> cases c 4 <;> cases c 5 <;> cases c 6 <;> cases c 7 <;> decide

theorem execBitmap_length (vals : List (Option Bytes)) : (execBitmap vals).length = (vals.length + 7) / 8 := by
  simp [execBitmap]

theorem execBitmap_get (vals : List (Option Bytes)) (byte : Nat) (h : byte < (vals.length + 7) / 8) :
    (execBitmap vals)[byte]? = some (UInt8.ofNat (byteOf fun bit => decide (vals[byte * 8 + bit]? = some none))) := by
  unfold execBitmap
  rw [List.getElem?_map, List.getElem?_range h]
  simp [byteOf]

/-- reading bit `i` of the NULL bitmap the way `GetBindParameters` does gives "parameter `i` is NULL" -/
theorem execBitmap_bit (vals : List (Option Bytes)) (i : Nat) (hi : i < vals.length) :
    ∃ b, goIndex (execBitmap vals) (i / 8) = .ok b ∧
      (decide ((b.toNat >>> (i % 8)) % 2 = 1) = decide (vals[i]? = some none)) := by
  have hb : i / 8 < (vals.length + 7) / 8 := by omega
  have hg := execBitmap_get vals (i / 8) hb
  have hlt : i / 8 < (execBitmap vals).length := by rw [execBitmap_length]; exact hb
  refine ⟨UInt8.ofNat (byteOf fun bit => decide (vals[i / 8 * 8 + bit]? = some none)), ?_, ?_⟩
  · unfold goIndex
    rw [hg]
  · have hlt256 := byteOf_lt (fun bit => decide (vals[i / 8 * 8 + bit]? = some none))
    have htn : (UInt8.ofNat (byteOf fun bit => decide (vals[i / 8 * 8 + bit]? = some none))).toNat =
        byteOf fun bit => decide (vals[i / 8 * 8 + bit]? = some none) := by
      simp [UInt8.toNat_ofNat']
      omega
    rw [htn, byteOf_bit _ (i % 8) (by omega)]
    have hidx : i / 8 * 8 + i % 8 = i := by omega
    simp only [hidx]
    cases hd : decide (vals[i]? = some none) <;> simp

/-! ### one value -/

/-- a wire value is well-formed for its type: fixed-width numerics have their storage width, everything else fits a
length-encoded string -/
def WireOk (t : Nat) (v : Bytes) : Prop :=
  match storageBytes t with
  | some sb => v.length = sb
  | none => v.length < 2^64

/-- the value Acra holds (as text) for a parameter of type `t` whose wire value is `v` (`none` = NULL) -/
def boundOf (fo : FloatOps) (t : Nat) (v : Option Bytes) : BoundValue :=
  match v with
  | none => ⟨t, none⟩
  | some v =>
    match storageBytes t with
    | none => ⟨t, some v⟩
    | some _ =>
      match decodeKind t with
      | some (.int w) => ⟨t, some (fmtInt (toSigned (8 * w) (leVal v)))⟩
      | some (.float w) => ⟨t, some (fo.fmt w v)⟩
      | _ => ⟨t, none⟩

/-- `NewMysqlBoundValue` on the wire form of a well-formed value followed by anything: the text value of the
specification, consuming exactly the bytes of the value -/
theorem newBoundValue_encodeParamVal (fo : FloatOps) (t : Nat) (v rest : Bytes) (h : WireOk t v) :
    newBoundValue fo (encodeParamVal t v ++ rest) t = .ok (boundOf fo t (some v), (encodeParamVal t v).length) := by
  unfold WireOk at h
  unfold encodeParamVal boundOf
  cases hs : storageBytes t with
  | none =>
    rw [hs] at h
    simp only
    exact (value_roundtrip_str fo t v v rest hs h).1
  | some sb =>
    rw [hs] at h
    simp only
    rcases tables_agree t sb hs with ⟨hd, _⟩ | ⟨hd, _⟩ | ⟨hd, _, h0⟩
    · unfold newBoundValue
      simp only [hs, hd]
      rw [if_neg (by simp only [List.length_append]; omega), List.take_left' h, h]
      rfl
    · unfold newBoundValue
      simp only [hs, hd]
      rw [if_neg (by simp only [List.length_append]; omega), List.take_left' h, h]
      rfl
    · unfold newBoundValue
      simp only [hs, hd]
      subst h0
      rw [h]
      rfl

/-! ### the type list -/

def typeBytes (types : List (Nat × Nat)) : Bytes := types.flatMap (fun tf => [UInt8.ofNat tf.1, UInt8.ofNat tf.2])

theorem typeBytes_length (types : List (Nat × Nat)) : (typeBytes types).length = 2 * types.length := by
  induction types with
  | nil => rfl
  | cons x xs ih => simp [typeBytes, List.flatMap_cons] at ih ⊢; omega

theorem readTypes_typeBytes (pre post : Bytes) (types : List (Nat × Nat)) (hty : ∀ tf ∈ types, tf.1 < 256) :
    readTypes (pre ++ typeBytes types ++ post) types.length pre.length = .ok (types.map (·.1)) := by
  induction types generalizing pre with
  | nil => rfl
  | cons x xs ih =>
    obtain ⟨t, f⟩ := x
    have ht : t < 256 := hty (t, f) List.mem_cons_self
    have e : pre ++ typeBytes ((t, f) :: xs) ++ post = (pre ++ [UInt8.ofNat t, UInt8.ofNat f]) ++ typeBytes xs ++ post := by
      simp [typeBytes, List.flatMap_cons, List.append_assoc]
    have hidx : goIndex (pre ++ typeBytes ((t, f) :: xs) ++ post) pre.length = .ok (UInt8.ofNat t) := by
      unfold goIndex
      simp [typeBytes, List.flatMap_cons, List.append_assoc]
    have hrec := ih (pre ++ [UInt8.ofNat t, UInt8.ofNat f]) (fun tf h => hty tf (List.mem_cons_of_mem _ h))
    rw [← e] at hrec
    have hlen : (pre ++ [UInt8.ofNat t, UInt8.ofNat f]).length = pre.length + 2 := by simp
    rw [hlen] at hrec
    rw [List.length_cons]
    unfold readTypes
    rw [hidx, Out.bind_ok, hrec, Out.bind_ok]
    simp [UInt8.toNat_ofNat']
    omega

/-! ### the value loop -/

/-- all parameters of an execute as Acra holds them -/
def boundAll (fo : FloatOps) : List (Nat × Nat) → List (Option Bytes) → List BoundValue
  | tf :: ts, v :: vs => boundOf fo tf.1 v :: boundAll fo ts vs
  | _, _ => []

/-- **the value loop of `GetBindParameters` reads what the specification encoder writes**: on the value block of
`types`/`vals` (the parameters from index `k` on) placed at `pos` behind any bytes, with the NULL bitmap of the whole
parameter list, it returns the specification's values – NULL exactly where the bitmap says so, every other value
consumed with exactly its wire length -/
theorem readVals_encode (fo : FloatOps) (allVals : List (Option Bytes)) (post : Bytes)
    (types : List (Nat × Nat)) (vals : List (Option Bytes)) (pre : Bytes) (k : Nat)
    (hsuf : allVals.drop k = vals) (hl : types.length = vals.length)
    (hw : ∀ (j t f : Nat) (v : Bytes), types[j]? = some (t, f) → vals[j]? = some (some v) → WireOk t v) :
    readVals fo (pre ++ encodeParamVals types vals ++ post) (execBitmap allVals) (types.map (·.1)) k pre.length =
      .ok (boundAll fo types vals) := by
  induction vals generalizing types pre k with
  | nil =>
    have : types = [] := List.eq_nil_of_length_eq_zero (by simpa using hl)
    subst this
    rfl
  | cons v vs ih =>
    match types, hl with
    | (t, f) :: ts, hl =>
      have hl' : ts.length = vs.length := by simpa using hl
      have hk : k < allVals.length := by
        rcases Nat.lt_or_ge k allVals.length with h | h
        · exact h
        · rw [List.drop_eq_nil_of_le h] at hsuf; cases hsuf
      have hget : allVals[k]? = some v := by
        have := congrArg (fun l => l[0]?) hsuf
        simpa [List.getElem?_drop] using this
      have hsuf' : allVals.drop (k + 1) = vs := by
        have := congrArg (List.drop 1) hsuf
        simpa [List.drop_drop, Nat.add_comm] using this
      obtain ⟨b, hb, hbit⟩ := execBitmap_bit allVals k hk
      have hblen : (execBitmap allVals).length > 0 := by
        rw [execBitmap_length]; omega
      have hw' : ∀ (j t' f' : Nat) (x : Bytes), ts[j]? = some (t', f') → vs[j]? = some (some x) → WireOk t' x :=
        fun j t' f' x h1 h2 => hw (j + 1) t' f' x (by simpa using h1) (by simpa using h2)
      simp only [List.map_cons]
      unfold readVals
      rw [if_pos hblen, hb]
      simp only [Out.bind_ok, Out.pure_eq]
      rw [hbit, hget]
      cases v with
      | none =>
        simp only [decide_true, if_true]
        have e : encodeParamVals ((t, f) :: ts) (none :: vs) = encodeParamVals ts vs := rfl
        rw [e, ih ts pre (k + 1) hsuf' hl' hw']
        rfl
      | some x =>
        have hne : decide ((some (some x) : Option (Option Bytes)) = some none) = false := by simp
        rw [hne]
        simp only [Bool.false_eq_true, if_false]
        have hwx : WireOk t x := hw 0 t f x rfl rfl
        have e : pre ++ encodeParamVals ((t, f) :: ts) (some x :: vs) ++ post =
            pre ++ (encodeParamVal t x ++ (encodeParamVals ts vs ++ post)) := by
          simp [encodeParamVals, List.append_assoc]
        have e2 : pre ++ encodeParamVals ((t, f) :: ts) (some x :: vs) ++ post =
            (pre ++ encodeParamVal t x) ++ encodeParamVals ts vs ++ post := by
          simp [encodeParamVals, List.append_assoc]
        have hfrom : goSliceFrom (pre ++ encodeParamVals ((t, f) :: ts) (some x :: vs) ++ post) pre.length =
            .ok (encodeParamVal t x ++ (encodeParamVals ts vs ++ post)) := by
          rw [e]; exact goSliceFrom_append pre _
        rw [hfrom, Out.bind_ok, newBoundValue_encodeParamVal fo t x _ hwx, Out.bind_ok]
        simp only
        have hrec := ih ts (pre ++ encodeParamVal t x) (k + 1) hsuf' hl' hw'
        rw [← e2, List.length_append] at hrec
        rw [hrec]
        rfl

/-! ### the whole parameter block -/

/-- **`GetBindParameters` reads what the specification encoder writes**: on a COM_STMT_EXECUTE payload built by
`encodeExecute` (10-byte head, NULL bitmap, new-params-bound flag 1, `n ≥ 1` (type, flag) pairs, the wire values of the
non-NULL parameters) it returns the specification's list of values. -/
theorem getBindParameters_encodeExecute (fo : FloatOps) (head : Bytes) (types : List (Nat × Nat))
    (vals : List (Option Bytes)) (hh : head.length = 10) (hl : types.length = vals.length) (hn : 0 < vals.length)
    (hty : ∀ tf ∈ types, tf.1 < 256)
    (hw : ∀ (j t f : Nat) (v : Bytes), types[j]? = some (t, f) → vals[j]? = some (some v) → WireOk t v) :
    getBindParameters fo (encodeExecute head types vals) vals.length = .ok (some (boundAll fo types vals)) := by
  have hbl := execBitmap_length vals
  have htl := typeBytes_length types
  have e0 : encodeExecute head types vals =
      head ++ execBitmap vals ++ [1] ++ typeBytes types ++ encodeParamVals types vals := rfl
  have e1 : encodeExecute head types vals =
      head ++ execBitmap vals ++ ([1] ++ typeBytes types ++ encodeParamVals types vals) := by
    rw [e0]; simp [List.append_assoc]
  have e2 : encodeExecute head types vals =
      (head ++ execBitmap vals ++ [1]) ++ typeBytes types ++ encodeParamVals types vals := e0
  have e3 : encodeExecute head types vals =
      (head ++ execBitmap vals ++ [1] ++ typeBytes types) ++ encodeParamVals types vals ++ [] := by
    rw [e0]; simp
  have hlen : (encodeExecute head types vals).length =
      10 + (vals.length + 7) / 8 + 1 + 2 * types.length + (encodeParamVals types vals).length := by
    rw [e0]; simp only [List.length_append, hh, hbl, htl, List.length_cons, List.length_nil]
  have hbm : goSlice (encodeExecute head types vals) hdrLen (hdrLen + (vals.length + 7) / 8) = .ok (execBitmap vals) := by
    rw [e1, hdrLen_eq]
    have := goSlice_append_mid head (execBitmap vals) ([1] ++ typeBytes types ++ encodeParamVals types vals)
    rw [hh, hbl] at this
    exact this
  have hflag : goIndex (encodeExecute head types vals) (hdrLen + (vals.length + 7) / 8) = .ok 1 := by
    rw [e1, hdrLen_eq]
    unfold goIndex
    have : (head ++ execBitmap vals ++ ([1] ++ typeBytes types ++ encodeParamVals types vals))[10 + (vals.length + 7) / 8]? = some 1 := by
      rw [List.getElem?_append_right (by simp [hh, hbl])]
      simp [hh, hbl]
    rw [this]
  have hpre : (head ++ execBitmap vals ++ [1]).length = hdrLen + (vals.length + 7) / 8 + 1 := by
    simp only [List.length_append, hh, hbl, hdrLen_eq, List.length_cons, List.length_nil]
  have htypes : readTypes (encodeExecute head types vals) vals.length (hdrLen + (vals.length + 7) / 8 + 1) =
      .ok (types.map (·.1)) := by
    have := readTypes_typeBytes (head ++ execBitmap vals ++ [1]) (encodeParamVals types vals) types hty
    rw [hpre, hl] at this
    rw [e2]
    exact this
  have hpre2 : (head ++ execBitmap vals ++ [1] ++ typeBytes types).length =
      hdrLen + (vals.length + 7) / 8 + 1 + 2 * vals.length := by
    simp only [List.length_append, hh, hbl, htl, hdrLen_eq, hl, List.length_cons, List.length_nil]
  have hvals : readVals fo (encodeExecute head types vals) (execBitmap vals) (types.map (·.1)) 0
      (hdrLen + (vals.length + 7) / 8 + 1 + 2 * vals.length) = .ok (boundAll fo types vals) := by
    have := readVals_encode fo vals [] types vals (head ++ execBitmap vals ++ [1] ++ typeBytes types) 0 rfl hl hw
    rw [hpre2] at this
    rw [e3]
    exact this
  unfold getBindParameters
  rw [if_neg (by omega)]
  simp only []
  rw [if_neg (by rw [hlen, hdrLen_eq]; omega), if_pos (by omega), hbm, Out.bind_ok, hflag, Out.bind_ok]
  rw [if_neg (by decide)]
  rw [if_neg (by rw [hlen, hdrLen_eq, hl]; omega), htypes, Out.bind_ok, hvals]
  rfl

/-! ### write side: the values after an observer, and their re-encoding -/

/-- the observer changes parameter `i` (its text value differs after `f`) -/
def changedAt (fo : FloatOps) (f : Nat → Bytes → Bytes) (i t : Nat) (v : Option Bytes) : Bool :=
  match (boundOf fo t v).data with
  | some text => decide (text ≠ f i text)
  | none => false

/-- the bound values after the observer: a changed value becomes a BLOB holding the new text -/
def outBound (fo : FloatOps) (f : Nat → Bytes → Bytes) : Nat → List (Nat × Nat) → List (Option Bytes) → List BoundValue
  | i, tf :: ts, v :: vs =>
    (match (boundOf fo tf.1 v).data with
     | some text => if text = f i text then boundOf fo tf.1 v else ⟨changedType, some (f i text)⟩
     | none => boundOf fo tf.1 v) :: outBound fo f (i + 1) ts vs
  | _, _, _ => []

/-- specification side: the (type, flag) pairs and the wire values of the rewritten execute -/
def outTypes (fo : FloatOps) (f : Nat → Bytes → Bytes) : Nat → List (Nat × Nat) → List (Option Bytes) → List (Nat × Nat)
  | i, tf :: ts, v :: vs => (if changedAt fo f i tf.1 v then (changedType, tf.2) else tf) :: outTypes fo f (i + 1) ts vs
  | _, _, _ => []

def outVals (fo : FloatOps) (f : Nat → Bytes → Bytes) : Nat → List (Nat × Nat) → List (Option Bytes) → List (Option Bytes)
  | i, tf :: ts, v :: vs =>
    (if changedAt fo f i tf.1 v then (boundOf fo tf.1 v).data.map (f i) else v) :: outVals fo f (i + 1) ts vs
  | _, _, _ => []

theorem transformVals_boundAll (fo : FloatOps) (f : Nat → Bytes → Bytes) (g : Nat → Bytes → Out Bytes)
    (hg : ∀ i d, g i d = .ok (f i d)) (types : List (Nat × Nat)) (vals : List (Option Bytes)) (i : Nat) :
    transformVals g (boundAll fo types vals) i = .ok (outBound fo f i types vals) := by
  induction vals generalizing types i with
  | nil => cases types <;> rfl
  | cons v vs ih =>
    match types with
    | [] => rfl
    | tf :: ts =>
      simp only [boundAll, outBound]
      unfold transformVals
      rw [ih ts (i + 1)]
      cases hd : (boundOf fo tf.1 v).data with
      | none => simp
      | some text =>
        simp only [hd, hg, Out.bind_ok, Out.pure_eq, BoundValue.setData, Option.getD_some]

/-- every FLOAT/DOUBLE value of the execute satisfies strconv's shortest-text round trip (all finite values and the
infinities do; NaN payloads are canonicalised) -/
def FloatLaw (fo : FloatOps) (types : List (Nat × Nat)) (vals : List (Option Bytes)) : Prop :=
  ∀ (j t fl w : Nat) (v : Bytes), types[j]? = some (t, fl) → vals[j]? = some (some v) →
    decodeKind t = some (.float w) → fo.parse w (fo.fmt w v) = some v

theorem encode_changed (fo : FloatOps) (d : Bytes) :
    (⟨changedType, some d⟩ : BoundValue).encode fo = .ok (putLengthEncodedString (some d)) := by
  simp [BoundValue.encode, storageBytes_changedType]

theorem encodeParamVal_changed (d : Bytes) : encodeParamVal changedType d = putLengthEncodedString (some d) := by
  simp [encodeParamVal, storageBytes_changedType]

/-- **the value loop of `SetParameters` writes the specification encoding of the values after the observer** -/
theorem encodeVals_outBound (fo : FloatOps) (f : Nat → Bytes → Bytes) (types : List (Nat × Nat))
    (vals : List (Option Bytes)) (i : Nat) (hl : types.length = vals.length)
    (hw : ∀ (j t fl : Nat) (v : Bytes), types[j]? = some (t, fl) → vals[j]? = some (some v) → WireOk t v)
    (hlaw : FloatLaw fo types vals) :
    encodeVals fo (outBound fo f i types vals) =
      .ok (encodeParamVals (outTypes fo f i types vals) (outVals fo f i types vals)) := by
  induction vals generalizing types i with
  | nil => cases types <;> rfl
  | cons v vs ih =>
    match types, hl with
    | (t, fl) :: ts, hl =>
      have hl' : ts.length = vs.length := by simpa using hl
      have hw' : ∀ (j t' fl' : Nat) (x : Bytes), ts[j]? = some (t', fl') → vs[j]? = some (some x) → WireOk t' x :=
        fun j t' fl' x h1 h2 => hw (j + 1) t' fl' x (by simpa using h1) (by simpa using h2)
      have hlaw' : FloatLaw fo ts vs :=
        fun j t' fl' w x h1 h2 h3 => hlaw (j + 1) t' fl' w x (by simpa using h1) (by simpa using h2) h3
      have hrec := ih ts (i + 1) hl' hw' hlaw'
      simp only [outBound, outTypes, outVals]
      cases v with
      | none =>
        have hb : boundOf fo t none = ⟨t, none⟩ := rfl
        simp only [hb, changedAt, Bool.false_eq_true, if_false]
        unfold encodeVals
        simp only [hrec]
        rfl
      | some w =>
        have hwx : WireOk t w := hw 0 t fl w rfl rfl
        unfold WireOk at hwx
        cases hs : storageBytes t with
        | none =>
          have hb : boundOf fo t (some w) = ⟨t, some w⟩ := by simp [boundOf, hs]
          simp only [hb, changedAt]
          by_cases hc : w = f i w
          · have hdc : decide (w ≠ f i w) = false := by simp; exact hc
            rw [if_pos hc, hdc]
            simp only [Bool.false_eq_true, if_false]
            unfold encodeVals
            simp only [hrec, BoundValue.encode, hs, Out.bind_ok, Out.pure_eq]
            simp [encodeParamVals, encodeParamVal, hs]
          · have hdc : decide (w ≠ f i w) = true := by simp [hc]
            rw [if_neg hc, hdc]
            simp only [if_true, Option.map_some]
            unfold encodeVals
            simp only [hrec, encode_changed, Out.bind_ok, Out.pure_eq]
            simp [encodeParamVals, encodeParamVal_changed]
        | some sb =>
          rw [hs] at hwx
          rcases tables_agree t sb hs with ⟨hd, he⟩ | ⟨hd, he⟩ | ⟨hd, he, h0⟩
          · -- integer
            have hsb : 0 < sb := by
              have hm := storageBytes_mem t sb hs
              simp only [Generated.Wire.myNumericStorageBytes, List.mem_cons, Prod.mk.injEq, List.not_mem_nil, or_false] at hm
              rcases hm with ⟨rfl, rfl⟩ | ⟨rfl, rfl⟩ | ⟨rfl, rfl⟩ | ⟨rfl, rfl⟩ | ⟨rfl, rfl⟩ | ⟨rfl, rfl⟩ | ⟨rfl, rfl⟩ | ⟨rfl, rfl⟩ | ⟨rfl, rfl⟩ <;>
                first | decide | (exfalso; revert hd; decide)
            have hb : boundOf fo t (some w) = ⟨t, some (fmtInt (toSigned (8 * sb) (leVal w)))⟩ := by
              simp [boundOf, hs, hd]
            have henc := (value_roundtrip_int fo t sb w [] hs hd he hsb hwx).2
            simp only [hb, changedAt]
            by_cases hc : fmtInt (toSigned (8 * sb) (leVal w)) = f i (fmtInt (toSigned (8 * sb) (leVal w)))
            · have hdc : decide (fmtInt (toSigned (8 * sb) (leVal w)) ≠ f i (fmtInt (toSigned (8 * sb) (leVal w)))) = false := by
                simp; exact hc
              rw [if_pos hc, hdc]
              simp only [Bool.false_eq_true, if_false]
              unfold encodeVals
              simp only [hrec, henc, Out.bind_ok, Out.pure_eq]
              simp [encodeParamVals, encodeParamVal, hs]
            · have hdc : decide (fmtInt (toSigned (8 * sb) (leVal w)) ≠ f i (fmtInt (toSigned (8 * sb) (leVal w)))) = true := by
                simp [hc]
              rw [if_neg hc, hdc]
              simp only [if_true, Option.map_some]
              unfold encodeVals
              simp only [hrec, encode_changed, Out.bind_ok, Out.pure_eq]
              simp [encodeParamVals, encodeParamVal_changed]
          · -- float
            have hb : boundOf fo t (some w) = ⟨t, some (fo.fmt sb w)⟩ := by simp [boundOf, hs, hd]
            have henc := (value_roundtrip_float fo t sb w [] hs hd he hwx (hlaw 0 t fl sb w rfl rfl hd)).2
            simp only [hb, changedAt]
            by_cases hc : fo.fmt sb w = f i (fo.fmt sb w)
            · have hdc : decide (fo.fmt sb w ≠ f i (fo.fmt sb w)) = false := by simp; exact hc
              rw [if_pos hc, hdc]
              simp only [Bool.false_eq_true, if_false]
              unfold encodeVals
              simp only [hrec, henc, Out.bind_ok, Out.pure_eq]
              simp [encodeParamVals, encodeParamVal, hs]
            · have hdc : decide (fo.fmt sb w ≠ f i (fo.fmt sb w)) = true := by simp [hc]
              rw [if_neg hc, hdc]
              simp only [if_true, Option.map_some]
              unfold encodeVals
              simp only [hrec, encode_changed, Out.bind_ok, Out.pure_eq]
              simp [encodeParamVals, encodeParamVal_changed]
          · -- NULL type with a (zero-length) value slot
            subst h0
            have hw0 : w = [] := List.eq_nil_of_length_eq_zero hwx
            subst hw0
            have hb : boundOf fo t (some []) = ⟨t, none⟩ := by simp [boundOf, hs, hd]
            simp only [hb, changedAt, Bool.false_eq_true, if_false]
            unfold encodeVals
            simp only [hrec]
            simp [encodeParamVals, encodeParamVal, hs]

/-! ### the type loop of `SetParameters` -/

theorem boundOf_paramType (fo : FloatOps) (t : Nat) (v : Option Bytes) : (boundOf fo t v).paramType = t := by
  unfold boundOf
  cases v with
  | none => rfl
  | some w =>
    simp only
    cases storageBytes t with
    | none => rfl
    | some sb =>
      simp only
      cases decodeKind t with
      | none => rfl
      | some k => cases k <;> rfl

/-- no LONG / LONGLONG parameter carries an unsigned flag that disagrees with the sign of its value read as a signed
integer – the complement of the input class of the known finding `my-execute-sign-flag` -/
def SignFlagsCanonical (types : List (Nat × Nat)) (vals : List (Option Bytes)) : Prop :=
  ∀ (j t fl sb : Nat) (v : Bytes), types[j]? = some (t, fl) → vals[j]? = some (some v) →
    Generated.Wire.mySignFlagTypes.contains t = true → storageBytes t = some sb →
    fl = (if toSigned (8 * sb) (leVal v) < 0 then Generated.Wire.mySignedBinaryValue else Generated.Wire.myUnsignedBinaryValue)

theorem signType_cases (t : Nat) (h : Generated.Wire.mySignFlagTypes.contains t = true) :
    (t = 3 ∧ storageBytes t = some 4 ∧ decodeKind t = some (.int 4)) ∨
    (t = 8 ∧ storageBytes t = some 8 ∧ decodeKind t = some (.int 8)) := by
  simp only [Generated.Wire.mySignFlagTypes, List.contains_cons, List.contains_nil, Bool.or_false, Bool.or_eq_true, beq_iff_eq] at h
  rcases h with rfl | rfl
  · left; exact ⟨rfl, by decide, by decide⟩
  · right; exact ⟨rfl, by decide, by decide⟩

theorem changedType_not_sign : Generated.Wire.mySignFlagTypes.contains changedType = false := by decide

theorem parseInt64_fmtInt_toSigned (sb : Nat) (hsb : sb = 4 ∨ sb = 8) (v : Bytes) (hv : v.length = sb) :
    parseInt 64 (fmtInt (toSigned (8 * sb) (leVal v))) = some (toSigned (8 * sb) (leVal v)) := by
  have hlt : leVal v < 2 ^ (8 * sb) := by
    have := leVal_lt v
    rw [hv, show (256 : Nat) = 2 ^ 8 by rfl, ← Nat.pow_mul] at this
    exact this
  have hr := toSigned_range sb (by omega) (leVal v) hlt
  apply parseInt_fmtInt 64
  · rcases hsb with rfl | rfl
    · have : ((2 ^ (8 * 4 - 1) : Nat) : Int) ≤ ((2 ^ (64 - 1) : Nat) : Int) := by decide
      omega
    · exact hr.1
  · rcases hsb with rfl | rfl
    · have : ((2 ^ (8 * 4 - 1) : Nat) : Int) ≤ ((2 ^ (64 - 1) : Nat) : Int) := by decide
      omega
    · exact hr.2

/-- **the type loop of `SetParameters` writes the (type, flag) pairs of the specification**: the type byte of a changed
parameter becomes BLOB, every other pair is written back as it was read (the recomputed unsigned flag of a LONG /
LONGLONG parameter equals the received one under `SignFlagsCanonical`) -/
theorem setTypes_outBound (fo : FloatOps) (f : Nat → Bytes → Bytes) (post : Bytes) (types : List (Nat × Nat))
    (vals : List (Option Bytes)) (pre : Bytes) (i : Nat) (hl : types.length = vals.length)
    (hty : ∀ tf ∈ types, tf.1 < 256 ∧ tf.2 < 256)
    (hw : ∀ (j t fl : Nat) (v : Bytes), types[j]? = some (t, fl) → vals[j]? = some (some v) → WireOk t v)
    (hsf : SignFlagsCanonical types vals) :
    setTypes (pre ++ typeBytes types ++ post) (outBound fo f i types vals) pre.length =
      .ok (typeBytes (outTypes fo f i types vals)) := by
  induction vals generalizing types pre i with
  | nil => cases types <;> rfl
  | cons v vs ih =>
    match types, hl with
    | (t, fl) :: ts, hl =>
      have hl' : ts.length = vs.length := by simpa using hl
      have hty' : ∀ tf ∈ ts, tf.1 < 256 ∧ tf.2 < 256 := fun tf h => hty tf (List.mem_cons_of_mem _ h)
      have hw' : ∀ (j t' fl' : Nat) (x : Bytes), ts[j]? = some (t', fl') → vs[j]? = some (some x) → WireOk t' x :=
        fun j t' fl' x h1 h2 => hw (j + 1) t' fl' x (by simpa using h1) (by simpa using h2)
      have hsf' : SignFlagsCanonical ts vs :=
        fun j t' fl' sb x h1 h2 h3 h4 => hsf (j + 1) t' fl' sb x (by simpa using h1) (by simpa using h2) h3 h4
      have e : pre ++ typeBytes ((t, fl) :: ts) ++ post = (pre ++ [UInt8.ofNat t, UInt8.ofNat fl]) ++ typeBytes ts ++ post := by
        simp [typeBytes, List.flatMap_cons, List.append_assoc]
      have e' : pre ++ typeBytes ((t, fl) :: ts) ++ post = pre ++ [UInt8.ofNat t, UInt8.ofNat fl] ++ (typeBytes ts ++ post) := by
        simp [typeBytes, List.flatMap_cons, List.append_assoc]
      have hpt : goSlice (pre ++ typeBytes ((t, fl) :: ts) ++ post) pre.length (pre.length + 2) =
          .ok [UInt8.ofNat t, UInt8.ofNat fl] := by
        rw [e']
        exact goSlice_append_mid pre [UInt8.ofNat t, UInt8.ofNat fl] _
      have hrec := ih ts (pre ++ [UInt8.ofNat t, UInt8.ofNat fl]) (i + 1) hl' hty' hw' hsf'
      rw [← e] at hrec
      have hlen : (pre ++ [UInt8.ofNat t, UInt8.ofNat fl]).length = pre.length + 2 := by simp
      rw [hlen] at hrec
      simp only [outBound, outTypes]
      -- the element and whether it is changed
      have key : ∀ (e : BoundValue) (ot : Nat × Nat),
          (ot.1 = e.paramType) → (ot.2 = fl) →
          (Generated.Wire.mySignFlagTypes.contains e.paramType = true → ∀ d, e.data = some d →
            ∃ x : Int, parseInt 64 d = some x ∧
              UInt8.ofNat fl = (if x < 0 then UInt8.ofNat Generated.Wire.mySignedBinaryValue else UInt8.ofNat Generated.Wire.myUnsignedBinaryValue)) →
          setTypes (pre ++ typeBytes ((t, fl) :: ts) ++ post) (e :: outBound fo f (i + 1) ts vs) pre.length =
            .ok (typeBytes (ot :: outTypes fo f (i + 1) ts vs)) := by
        intro e ot h1 h2 h3
        unfold setTypes
        rw [hpt, Out.bind_ok]
        simp only [List.drop_succ_cons, List.drop_zero, List.headD_cons]
        by_cases hc : Generated.Wire.mySignFlagTypes.contains e.paramType = true
        · rw [if_pos hc]
          cases hd : e.data with
          | none =>
            simp only [Out.pure_eq, Out.bind_ok, hrec]
            obtain ⟨o1, o2⟩ := ot
            simp only at h1 h2
            subst h1; subst h2
            simp [typeBytes, List.flatMap_cons]
          | some d =>
            obtain ⟨x, hx, hfx⟩ := h3 hc d hd
            simp only [hx, Out.pure_eq, Out.bind_ok, hrec]
            obtain ⟨o1, o2⟩ := ot
            simp only at h1 h2
            subst h1; subst h2
            rw [← hfx]
            simp [typeBytes, List.flatMap_cons]
        · rw [if_neg hc]
          simp only [Out.pure_eq, Out.bind_ok, hrec]
          obtain ⟨o1, o2⟩ := ot
          simp only at h1 h2
          subst h1; subst h2
          simp [typeBytes, List.flatMap_cons]
      cases hd : (boundOf fo t v).data with
      | none =>
        have hca : changedAt fo f i t v = false := by simp [changedAt, hd]
        simp only [hca, Bool.false_eq_true, if_false]
        exact key (boundOf fo t v) (t, fl) (boundOf_paramType fo t v).symm rfl (fun _ d h => by rw [hd] at h; cases h)
      | some text =>
        by_cases hc : text = f i text
        · have hca : changedAt fo f i t v = false := by
            simp only [changedAt, hd]
            simp; exact hc
          simp only [hca, Bool.false_eq_true, if_false]
          rw [if_pos hc]
          refine key (boundOf fo t v) (t, fl) (boundOf_paramType fo t v).symm rfl ?_
          intro hsign d hdd
          rw [boundOf_paramType] at hsign
          rw [hd] at hdd
          cases hdd
          cases v with
          | none => simp [boundOf] at hd
          | some w =>
            have hwx : WireOk t w := hw 0 t fl w rfl rfl
            rcases signType_cases t hsign with ⟨_, hs, hk⟩ | ⟨_, hs, hk⟩
            · have htext : text = fmtInt (toSigned (8 * 4) (leVal w)) := by
                have : (boundOf fo t (some w)).data = some (fmtInt (toSigned (8 * 4) (leVal w))) := by simp [boundOf, hs, hk]
                rw [hd] at this
                exact Option.some.inj this
              unfold WireOk at hwx
              rw [hs] at hwx
              refine ⟨toSigned (8 * 4) (leVal w), by rw [htext]; exact parseInt64_fmtInt_toSigned 4 (Or.inl rfl) w hwx, ?_⟩
              rw [hsf 0 t fl 4 w rfl rfl hsign hs]
              split <;> rfl
            · have htext : text = fmtInt (toSigned (8 * 8) (leVal w)) := by
                have : (boundOf fo t (some w)).data = some (fmtInt (toSigned (8 * 8) (leVal w))) := by simp [boundOf, hs, hk]
                rw [hd] at this
                exact Option.some.inj this
              unfold WireOk at hwx
              rw [hs] at hwx
              refine ⟨toSigned (8 * 8) (leVal w), by rw [htext]; exact parseInt64_fmtInt_toSigned 8 (Or.inr rfl) w hwx, ?_⟩
              rw [hsf 0 t fl 8 w rfl rfl hsign hs]
              split <;> rfl
        · have hca : changedAt fo f i t v = true := by
            simp only [changedAt, hd]
            simp [hc]
          simp only [hca, if_true]
          rw [if_neg hc]
          exact key ⟨changedType, some (f i text)⟩ (changedType, fl) rfl rfl
            (fun hsign => by rw [changedType_not_sign] at hsign; cases hsign)

/-! ### the whole packet -/

theorem execBitmap_congr (a b : List (Option Bytes)) (hl : a.length = b.length)
    (h : ∀ j : Nat, (a[j]? = some none) ↔ (b[j]? = some none)) : execBitmap a = execBitmap b := by
  apply List.ext_getElem?
  intro k
  by_cases hk : k < (a.length + 7) / 8
  · rw [execBitmap_get a k hk, execBitmap_get b k (by rw [← hl]; exact hk)]
    have : (fun bit => decide (a[k * 8 + bit]? = some none)) = (fun bit => decide (b[k * 8 + bit]? = some none)) := by
      funext bit
      exact decide_eq_decide.mpr (h _)
    rw [this]
  · rw [List.getElem?_eq_none (by rw [execBitmap_length]; omega),
      List.getElem?_eq_none (by rw [execBitmap_length, ← hl]; omega)]

theorem outVals_length (fo : FloatOps) (f : Nat → Bytes → Bytes) (i : Nat) (types : List (Nat × Nat))
    (vals : List (Option Bytes)) (hl : types.length = vals.length) : (outVals fo f i types vals).length = vals.length := by
  induction vals generalizing types i with
  | nil => cases types <;> rfl
  | cons v vs ih =>
    match types, hl with
    | tf :: ts, hl => simp [outVals, ih (i + 1) ts (by simpa using hl)]

theorem outTypes_length (fo : FloatOps) (f : Nat → Bytes → Bytes) (i : Nat) (types : List (Nat × Nat))
    (vals : List (Option Bytes)) (hl : types.length = vals.length) : (outTypes fo f i types vals).length = vals.length := by
  induction vals generalizing types i with
  | nil => cases types <;> rfl
  | cons v vs ih =>
    match types, hl with
    | tf :: ts, hl => simp [outTypes, ih (i + 1) ts (by simpa using hl)]

theorem outBound_length (fo : FloatOps) (f : Nat → Bytes → Bytes) (i : Nat) (types : List (Nat × Nat))
    (vals : List (Option Bytes)) (hl : types.length = vals.length) : (outBound fo f i types vals).length = vals.length := by
  induction vals generalizing types i with
  | nil => cases types <;> rfl
  | cons v vs ih =>
    match types, hl with
    | tf :: ts, hl => simp [outBound, ih (i + 1) ts (by simpa using hl)]

/-- NULL parameters stay NULL and no other parameter becomes NULL -/
theorem outVals_none_iff (fo : FloatOps) (f : Nat → Bytes → Bytes) (i : Nat) (types : List (Nat × Nat))
    (vals : List (Option Bytes)) (hl : types.length = vals.length) (j : Nat) :
    (outVals fo f i types vals)[j]? = some none ↔ vals[j]? = some none := by
  induction vals generalizing types i j with
  | nil => cases types <;> simp [outVals]
  | cons v vs ih =>
    match types, hl with
    | tf :: ts, hl =>
      cases j with
      | succ j => simpa [outVals] using ih (i + 1) ts (by simpa using hl) j
      | zero =>
        simp only [outVals, List.getElem?_cons_zero, Option.some.injEq]
        cases v with
        | none => simp [changedAt, boundOf]
        | some w =>
          by_cases hc : changedAt fo f i tf.1 (some w) = true
          · rw [if_pos hc]
            unfold changedAt at hc
            cases hd : (boundOf fo tf.1 (some w)).data with
            | none => rw [hd] at hc; cases hc
            | some text => simp
          · rw [if_neg hc]

/-- **`GetBindParameters → OnBind → SetParameters` on the specification encoding.** -/
theorem rewriteExecute_encodeExecute (fo : FloatOps) (f : Nat → Bytes → Bytes) (g : Nat → Bytes → Out Bytes)
    (hg : ∀ i d, g i d = .ok (f i d)) (h head : Bytes) (types : List (Nat × Nat)) (vals : List (Option Bytes))
    (hh : head.length = 10) (hl : types.length = vals.length) (hn : 0 < vals.length)
    (hty : ∀ tf ∈ types, tf.1 < 256 ∧ tf.2 < 256)
    (hw : ∀ (j t fl : Nat) (v : Bytes), types[j]? = some (t, fl) → vals[j]? = some (some v) → WireOk t v)
    (hlaw : FloatLaw fo types vals) (hsf : SignFlagsCanonical types vals) :
    rewriteExecute fo g ⟨h, encodeExecute head types vals⟩ vals.length =
      .ok (some (setData ⟨h, encodeExecute head types vals⟩
        (encodeExecute head (outTypes fo f 0 types vals) (outVals fo f 0 types vals)))) := by
  have hbl := execBitmap_length vals
  have hob := outBound_length fo f 0 types vals hl
  have hbm : execBitmap (outVals fo f 0 types vals) = execBitmap vals :=
    execBitmap_congr _ _ (outVals_length fo f 0 types vals hl) (outVals_none_iff fo f 0 types vals hl)
  have e0 : encodeExecute head types vals =
      head ++ execBitmap vals ++ [1] ++ typeBytes types ++ encodeParamVals types vals := rfl
  have epre : (head ++ execBitmap vals ++ [1]).length = hdrLen + ((vals.length + 7) >>> 3) + 1 := by
    simp only [List.length_append, hh, hbl, hdrLen_eq, List.length_cons, List.length_nil, Nat.shiftRight_eq_div_pow]
  have hhead : goSlice (encodeExecute head types vals) 0 (hdrLen + ((vals.length + 7) >>> 3) + 1) =
      .ok (head ++ execBitmap vals ++ [1]) := by
    rw [e0, ← epre]
    have := goSlice_prefix (head ++ execBitmap vals ++ [1]) (typeBytes types ++ encodeParamVals types vals)
    simpa [List.append_assoc] using this
  have htypes : setTypes (encodeExecute head types vals) (outBound fo f 0 types vals)
      (hdrLen + ((vals.length + 7) >>> 3) + 1) = .ok (typeBytes (outTypes fo f 0 types vals)) := by
    have := setTypes_outBound fo f (encodeParamVals types vals) types vals (head ++ execBitmap vals ++ [1]) 0 hl hty hw hsf
    rw [epre] at this
    rw [e0]
    exact this
  unfold rewriteExecute
  rw [getBindParameters_encodeExecute fo head types vals hh hl hn (fun tf htf => (hty tf htf).1) hw, Out.bind_ok]
  simp only
  rw [transformVals_boundAll fo f g hg types vals 0, Out.bind_ok]
  unfold setParameters
  rw [hob, if_neg (by omega)]
  simp only
  rw [hhead, Out.bind_ok, htypes, Out.bind_ok, encodeVals_outBound fo f types vals 0 hl hw hlaw, Out.bind_ok]
  simp only [Out.pure_eq, Out.bind_ok]
  have : head ++ execBitmap vals ++ [1] ++ typeBytes (outTypes fo f 0 types vals) ++
      encodeParamVals (outTypes fo f 0 types vals) (outVals fo f 0 types vals) =
      encodeExecute head (outTypes fo f 0 types vals) (outVals fo f 0 types vals) := by
    show _ = head ++ execBitmap (outVals fo f 0 types vals) ++ [1] ++ typeBytes (outTypes fo f 0 types vals) ++ _
    rw [hbm]
  rw [this]

theorem outTypes_getElem? (fo : FloatOps) (f : Nat → Bytes → Bytes) (i : Nat) (types : List (Nat × Nat))
    (vals : List (Option Bytes)) (j t fl : Nat) (v : Option Bytes) (h1 : types[j]? = some (t, fl)) (h2 : vals[j]? = some v) :
    (outTypes fo f i types vals)[j]? = some (if changedAt fo f (i + j) t v then (changedType, fl) else (t, fl)) := by
  induction vals generalizing types i j with
  | nil => simp at h2
  | cons x xs ih =>
    match types with
    | [] => simp at h1
    | tf :: ts =>
      cases j with
      | zero =>
        simp only [List.getElem?_cons_zero, Option.some.injEq] at h1 h2
        subst h1; subst h2
        rfl
      | succ j =>
        simp only [outTypes, List.getElem?_cons_succ]
        rw [ih (i + 1) ts j (by simpa using h1) (by simpa using h2)]
        have : i + 1 + j = i + (j + 1) := by omega
        rw [this]

theorem outVals_getElem? (fo : FloatOps) (f : Nat → Bytes → Bytes) (i : Nat) (types : List (Nat × Nat))
    (vals : List (Option Bytes)) (j t fl : Nat) (v : Option Bytes) (h1 : types[j]? = some (t, fl)) (h2 : vals[j]? = some v) :
    (outVals fo f i types vals)[j]? =
      some (if changedAt fo f (i + j) t v then (boundOf fo t v).data.map (f (i + j)) else v) := by
  induction vals generalizing types i j with
  | nil => simp at h2
  | cons x xs ih =>
    match types with
    | [] => simp at h1
    | tf :: ts =>
      cases j with
      | zero =>
        simp only [List.getElem?_cons_zero, Option.some.injEq] at h1 h2
        subst h1; subst h2
        rfl
      | succ j =>
        simp only [outVals, List.getElem?_cons_succ]
        rw [ih (i + 1) ts j (by simpa using h1) (by simpa using h2)]
        have : i + 1 + j = i + (j + 1) := by omega
        rw [this]

end AcraModel.Wire.My
