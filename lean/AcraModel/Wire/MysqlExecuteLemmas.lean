import AcraModel.Wire.MysqlExecute
import AcraModel.Wire.MysqlLemmas
/-! Lemmas about the COM_STMT_EXECUTE model (`Wire/MysqlExecute.lean`): tables, decimal text, no panic, frame. -/
namespace AcraModel.Wire.My
open AcraModel AcraModel.Wire.LenEnc AcraModel.Wire.LenEnc.Proofs

/-! ## A. the regenerated tables agree with each other -/

theorem storageBytes_mem (t sb : Nat) (h : storageBytes t = some sb) : (t, sb) ∈ Generated.Wire.myNumericStorageBytes := by
  unfold storageBytes at h
  cases hf : Generated.Wire.myNumericStorageBytes.find? (·.1 = t) with
  | none => simp [hf] at h
  | some x =>
    simp only [hf, Option.map_some, Option.some.injEq] at h
    have hm := List.mem_of_find?_eq_some hf
    have hp := List.find?_some hf
    simp only [decide_eq_true_eq] at hp
    obtain ⟨a, b⟩ := x
    simp only at h hp
    subst h; subst hp
    exact hm

/-- the width `NewMysqlBoundValue` reads, the width `Encode` writes and `NumericTypesStorageBytes` are the same
number for every numeric type (so `n` returned by the reader is what it consumed, and `Encode` fills its buffer) -/
theorem tables_agree (t sb : Nat) (h : storageBytes t = some sb) :
    (decodeKind t = some (.int sb) ∧ encodeKind t = some (.int sb)) ∨
    (decodeKind t = some (.float sb) ∧ encodeKind t = some (.float sb)) ∨
    (decodeKind t = some .null ∧ encodeKind t = some .null ∧ sb = 0) := by
  have hm := storageBytes_mem t sb h
  simp only [Generated.Wire.myNumericStorageBytes, List.mem_cons, Prod.mk.injEq, List.not_mem_nil, or_false] at hm
  rcases hm with ⟨rfl, rfl⟩ | ⟨rfl, rfl⟩ | ⟨rfl, rfl⟩ | ⟨rfl, rfl⟩ | ⟨rfl, rfl⟩ | ⟨rfl, rfl⟩ | ⟨rfl, rfl⟩ | ⟨rfl, rfl⟩ | ⟨rfl, rfl⟩ <;> decide

/-! ## B. decimal text of integers -/

theorem parseDigits_append (acc : Nat) (a : Bytes) (c : UInt8) (hc : 48 ≤ c.toNat ∧ c.toNat ≤ 57) :
    parseDigits acc (a ++ [c]) = (parseDigits acc a).map (fun v => 10 * v + (c.toNat - 48)) := by
  induction a generalizing acc with
  | nil => simp [parseDigits, hc]
  | cons x a ih =>
    simp only [List.cons_append, parseDigits]
    split
    · exact ih _
    · rfl

theorem digit_toNat (d : Nat) (h : d < 10) : (UInt8.ofNat (48 + d)).toNat = 48 + d := by
  simp [UInt8.toNat_ofNat']; omega

theorem natDec_ne_nil (n : Nat) : natDec n ≠ [] := by
  rw [natDec]; split <;> simp

/-- `ParseUint(FormatUint(n))` = n -/
theorem parseDigits_natDec (n : Nat) : parseDigits 0 (natDec n) = some n := by
  induction n using Nat.strongRecOn with
  | _ n ih =>
    rw [natDec]
    split
    · next h => simp [parseDigits, UInt8.toNat_ofNat']; omega
    · next h =>
      have hd : n % 10 < 10 := Nat.mod_lt _ (by decide)
      rw [parseDigits_append _ _ _ (by rw [digit_toNat _ hd]; omega), ih (n / 10) (by omega), digit_toNat _ hd]
      simp only [Option.map_some, Option.some.injEq]
      omega

theorem parseNatDec_natDec (n : Nat) : parseNatDec (natDec n) = some n := by
  unfold parseNatDec
  rw [if_neg (natDec_ne_nil n)]
  exact parseDigits_natDec n

theorem natDec_head (n : Nat) : ∃ c r, natDec n = c :: r ∧ 48 ≤ c.toNat ∧ c.toNat ≤ 57 := by
  induction n using Nat.strongRecOn with
  | _ n ih =>
    rw [natDec]
    split
    · next h => exact ⟨_, [], rfl, by rw [digit_toNat n h]; omega⟩
    · next h =>
      obtain ⟨c, r, hc, hr⟩ := ih (n / 10) (by omega)
      exact ⟨c, r ++ [UInt8.ofNat (48 + n % 10)], by rw [hc]; rfl, hr⟩

theorem parseInt_digit (bits : Nat) (c : UInt8) (r : Bytes) (hc : 48 ≤ c.toNat ∧ c.toNat ≤ 57) :
    parseInt bits (c :: r) = (match parseNatDec (c :: r) with
      | none => none
      | some un => if un ≥ 2^(bits-1) then none else some (un : Int)) := by
  have h1 : ¬ c.toNat = 45 := by omega
  have h3 : ¬ c.toNat = 43 := by omega
  unfold parseInt
  simp only [h1, h3, or_self, if_false]
  cases parseNatDec (c :: r) with
  | none => rfl
  | some un => simp

theorem parseInt_minus (bits : Nat) (r : Bytes) :
    parseInt bits (45 :: r) = (match parseNatDec r with
      | none => none
      | some un => if un > 2^(bits-1) then none else some (-(un : Int))) := by
  have h45 : ((45 : UInt8).toNat = 45) := rfl
  unfold parseInt
  simp only [h45, or_true, if_true]
  cases parseNatDec r with
  | none => rfl
  | some un => simp

/-- **`ParseInt(FormatInt(i), 10, bits) = i`** for every `i` of the `bits`-bit signed range -/
theorem parseInt_fmtInt (bits : Nat) (i : Int) (hlo : -((2^(bits-1) : Nat) : Int) ≤ i) (hhi : i < ((2^(bits-1) : Nat) : Int)) :
    parseInt bits (fmtInt i) = some i := by
  unfold fmtInt
  by_cases hneg : i < 0
  · rw [if_pos hneg, parseInt_minus, parseNatDec_natDec]
    have hle : ¬ (i.natAbs > 2^(bits-1)) := by omega
    simp only [hle, if_false, Option.some.injEq]
    omega
  · rw [if_neg hneg]
    obtain ⟨c, r, hc, hr⟩ := natDec_head i.natAbs
    rw [hc, parseInt_digit bits c r hr, ← hc, parseNatDec_natDec]
    have hlt : ¬ (i.natAbs ≥ 2^(bits-1)) := by omega
    simp only [hlt, if_false, Option.some.injEq]
    omega

theorem toSigned_range (w : Nat) (hw : 0 < w) (v : Nat) (hv : v < 2^(8*w)) :
    -((2^(8*w-1) : Nat) : Int) ≤ toSigned (8*w) v ∧ toSigned (8*w) v < ((2^(8*w-1) : Nat) : Int) := by
  have hp : 2^(8*w) = 2 * 2^(8*w-1) := by
    rw [show 8*w = (8*w-1) + 1 by omega, Nat.pow_succ]; simp; omega
  unfold toSigned
  split <;> constructor <;> omega

/-- `binary.Write(intN(ParseInt(FormatInt(binary.Read …))))` gives the bytes back -/
theorem intBytes_toSigned (w : Nat) (b : Bytes) (hb : b.length = w) :
    intBytes w (toSigned (8*w) (leVal b)) = b := by
  have hv : leVal b < 2^(8*w) := by
    have := leVal_lt b
    rw [hb, show (256 : Nat) = 2^8 by rfl, ← Nat.pow_mul] at this
    exact this
  have key : (toSigned (8*w) (leVal b) % ((2^(8*w) : Nat) : Int)).toNat = leVal b := by
    unfold toSigned
    split
    · rw [Int.emod_eq_of_lt (by omega) (by omega)]; simp
    · have : ((leVal b : Int) - ((2^(8*w) : Nat) : Int)) % ((2^(8*w) : Nat) : Int) = (leVal b : Int) := by
        rw [Int.sub_emod, Int.emod_self]
        simp only [Int.sub_zero, Int.emod_emod]
        exact Int.emod_eq_of_lt (by omega) (by omega)
      rw [this]; simp
  unfold intBytes
  rw [key, ← hb]
  exact leBytes_leVal b

end AcraModel.Wire.My

namespace AcraModel.Wire.My
open AcraModel AcraModel.Wire.LenEnc AcraModel.Wire.LenEnc.Proofs

/-! ## C. one parameter value: `NewMysqlBoundValue`, `SetData`, `Encode` -/

theorem fit_self (sb : Nat) (w : Bytes) (h : w.length = sb) : (w ++ List.replicate (sb - w.length) 0).take sb = w := by
  rw [h, Nat.sub_self]; simp [← h]

/-- an integer parameter that is not changed is re-encoded to exactly its wire bytes -/
theorem value_roundtrip_int (fo : FloatOps) (t w : Nat) (raw rest : Bytes) (hs : storageBytes t = some w)
    (hd : decodeKind t = some (.int w)) (he : encodeKind t = some (.int w)) (hw : 0 < w) (hr : raw.length = w) :
    newBoundValue fo (raw ++ rest) t = .ok (⟨t, some (fmtInt (toSigned (8 * w) (leVal raw)))⟩, w) ∧
    (⟨t, some (fmtInt (toSigned (8 * w) (leVal raw)))⟩ : BoundValue).encode fo = .ok raw := by
  have hv : leVal raw < 2^(8*w) := by
    have := leVal_lt raw
    rw [hr, show (256 : Nat) = 2^8 by rfl, ← Nat.pow_mul] at this
    exact this
  constructor
  · unfold newBoundValue
    simp only [hs, hd]
    rw [if_neg (by simp only [List.length_append]; omega), List.take_left' hr]
    rfl
  · unfold BoundValue.encode
    simp only [hs, he, Option.getD_some]
    have hrng := toSigned_range w hw (leVal raw) hv
    rw [parseInt_fmtInt (8*w) _ hrng.1 hrng.2]
    simp only []
    rw [intBytes_toSigned w raw hr, fit_self w raw hr]

/-- a FLOAT/DOUBLE parameter that is not changed is re-encoded to its wire bytes whenever strconv's text round trip
holds for that value (`fo.parse w (fo.fmt w raw) = some raw`: every finite value and the infinities) -/
theorem value_roundtrip_float (fo : FloatOps) (t w : Nat) (raw rest : Bytes) (hs : storageBytes t = some w)
    (hd : decodeKind t = some (.float w)) (he : encodeKind t = some (.float w)) (hr : raw.length = w)
    (hlaw : fo.parse w (fo.fmt w raw) = some raw) :
    newBoundValue fo (raw ++ rest) t = .ok (⟨t, some (fo.fmt w raw)⟩, w) ∧
    (⟨t, some (fo.fmt w raw)⟩ : BoundValue).encode fo = .ok raw := by
  constructor
  · unfold newBoundValue
    simp only [hs, hd]
    rw [if_neg (by simp only [List.length_append]; omega), List.take_left' hr]
    rfl
  · unfold BoundValue.encode
    simp only [hs, he, Option.getD_some, hlaw]
    rw [fit_self w raw hr]

theorem storageBytes_changedType : storageBytes changedType = none := by decide

/-- a string-like parameter: read as its bytes; unchanged it is re-encoded to the same length-encoded string, changed
to `b'` it travels as a BLOB (`changedType`) holding exactly the length-encoded `b'` -/
theorem value_roundtrip_str (fo : FloatOps) (t : Nat) (b b' rest : Bytes) (hs : storageBytes t = none) (hb : b.length < 2^64) :
    newBoundValue fo (putLengthEncodedString (some b) ++ rest) t = .ok (⟨t, some b⟩, (putLengthEncodedString (some b)).length) ∧
    ((⟨t, some b⟩ : BoundValue).setData b).paramType = t ∧
    ((⟨t, some b⟩ : BoundValue).setData b).encode fo = .ok (putLengthEncodedString (some b)) ∧
    (b' ≠ b → ((⟨t, some b⟩ : BoundValue).setData b').paramType = changedType ∧
      ((⟨t, some b⟩ : BoundValue).setData b').encode fo = .ok (putLengthEncodedString (some b'))) := by
  refine ⟨?_, ?_, ?_, ?_⟩
  · unfold newBoundValue
    simp only [hs]
    rw [lenenc_str_roundtrip (some b) rest (by intro x hx; cases hx; exact hb)]
    rfl
  · simp [BoundValue.setData]
  · simp [BoundValue.setData, BoundValue.encode, hs]
  · intro hne
    have : ¬ ((some b : Option Bytes).getD [] = b') := by simpa using fun h => hne h.symm
    simp only [BoundValue.setData, this, if_false, BoundValue.encode, storageBytes_changedType, and_self]

/-! ## D. no panic -/

theorem newBoundValue_no_panic (fo : FloatOps) (data : Bytes) (t : Nat) : newBoundValue fo data t ≠ .panic := by
  unfold newBoundValue
  cases hs : storageBytes t with
  | none =>
    simp only []
    cases hr : lengthEncodedString data with
    | panic => exact absurd hr (lenenc_str_no_panic _)
    | err => simp
    | ok x => simp
  | some sb =>
    simp only []
    rcases tables_agree t sb hs with ⟨h, _⟩ | ⟨h, _⟩ | ⟨h, _, _⟩ <;> rw [h] <;> simp only [] <;> (try split) <;> simp

theorem newBoundValue_le (fo : FloatOps) (data : Bytes) (t : Nat) (v : BoundValue) (n : Nat)
    (h : newBoundValue fo data t = .ok (v, n)) : n ≤ data.length := by
  unfold newBoundValue at h
  cases hs : storageBytes t with
  | none =>
    simp only [hs] at h
    cases hr : lengthEncodedString data with
    | panic => simp [hr] at h
    | err => simp [hr] at h
    | ok x =>
      obtain ⟨val, k⟩ := x
      simp only [hr, Out.bind_ok, Out.pure_eq, Out.ok.injEq, Prod.mk.injEq] at h
      have := (lenenc_str_progress data val k hr).2
      omega
  | some sb =>
    simp only [hs] at h
    rcases tables_agree t sb hs with ⟨hk, _⟩ | ⟨hk, _⟩ | ⟨hk, _, h0⟩
    · rw [hk] at h; simp only [] at h
      split at h
      · cases h
      · simp only [Out.pure_eq, Out.ok.injEq, Prod.mk.injEq] at h; omega
    · rw [hk] at h; simp only [] at h
      split at h
      · cases h
      · simp only [Out.pure_eq, Out.ok.injEq, Prod.mk.injEq] at h; omega
    · rw [hk] at h; simp only [Out.pure_eq, Out.ok.injEq, Prod.mk.injEq] at h; omega

theorem readTypes_ok (d : Bytes) (k pos : Nat) (h : pos + 2 * k ≤ d.length) :
    ∃ ts, readTypes d k pos = .ok ts ∧ ts.length = k := by
  induction k generalizing pos with
  | zero => exact ⟨[], rfl, rfl⟩
  | succ k ih =>
    obtain ⟨x, hx⟩ := goIndex_ne_panic_of_lt d pos (by omega)
    obtain ⟨ts, hts, hl⟩ := ih (pos + 2) (by omega)
    exact ⟨x.toNat :: ts, by simp [readTypes, hx, hts], by simp [hl]⟩

theorem readVals_no_panic (fo : FloatOps) (d bitmap : Bytes) (ts : List Nat) (i pos : Nat) (hpos : pos ≤ d.length)
    (hb : i + ts.length ≤ 8 * bitmap.length) : readVals fo d bitmap ts i pos ≠ .panic := by
  induction ts generalizing i pos with
  | nil => simp [readVals]
  | cons t ts ih =>
    simp only [List.length_cons] at hb
    rw [readVals]
    have hnull : ∃ bnull : Bool, (if bitmap.length > 0 then do
        let b ← goIndex bitmap (i / 8)
        pure (decide ((b.toNat >>> (i % 8)) % 2 = 1))
      else pure false : Out Bool) = .ok bnull := by
      split
      · obtain ⟨b, hbx⟩ := goIndex_ne_panic_of_lt bitmap (i / 8) (by omega)
        exact ⟨decide ((b.toNat >>> (i % 8)) % 2 = 1), by rw [hbx]; rfl⟩
      · exact ⟨false, rfl⟩
    obtain ⟨bnull, hbn⟩ := hnull
    rw [hbn]
    simp only [Out.bind_ok]
    cases bnull with
    | true =>
      simp only [if_true]
      cases hr : readVals fo d bitmap ts (i + 1) pos with
      | panic => exact absurd hr (ih _ _ hpos (by omega))
      | err => simp
      | ok x => simp
    | false =>
      simp only [Bool.false_eq_true, if_false]
      rw [goSliceFrom_ok_of_le _ _ hpos]
      simp only [Out.bind_ok]
      cases hv : newBoundValue fo (d.drop pos) t with
      | panic => exact absurd hv (newBoundValue_no_panic _ _ _)
      | err => simp
      | ok x =>
        obtain ⟨v, n⟩ := x
        have hn := newBoundValue_le fo _ t v n hv
        rw [List.length_drop] at hn
        simp only [Out.bind_ok]
        cases hr : readVals fo d bitmap ts (i + 1) (pos + n) with
        | panic => exact absurd hr (ih _ _ (by omega) (by omega))
        | err => simp
        | ok y => simp

theorem hdrLen_eq : hdrLen = 10 := rfl

/-- **`GetBindParameters` never panics**, whatever the packet and the parameter count (true since `fix:` 11). -/
theorem getBindParameters_no_panic (fo : FloatOps) (d : Bytes) (paramNum : Nat) :
    getBindParameters fo d paramNum ≠ .panic := by
  unfold getBindParameters
  split
  · simp
  · next hn =>
    simp only []
    split
    · simp
    · next hg =>
      have hnbl : 0 < (paramNum + 7) / 8 := by omega
      rw [if_pos hnbl, goSlice_ok_of_le _ _ _ (by omega) (by omega)]
      simp only [Out.bind_ok]
      obtain ⟨fl, hfl⟩ := goIndex_ne_panic_of_lt d (hdrLen + (paramNum + 7) / 8) (by omega)
      rw [hfl]
      simp only [Out.bind_ok]
      split
      · simp
      · split
        · simp
        · next hg2 =>
          obtain ⟨ts, hts, hl⟩ := readTypes_ok d paramNum (hdrLen + (paramNum + 7) / 8 + 1) (by omega)
          rw [hts]
          simp only [Out.bind_ok]
          have hbl : ((d.take (hdrLen + (paramNum + 7) / 8)).drop hdrLen).length = (paramNum + 7) / 8 := by
            simp only [List.length_drop, List.length_take]; omega
          cases hr : readVals fo d ((d.take (hdrLen + (paramNum + 7) / 8)).drop hdrLen) ts 0
              (hdrLen + (paramNum + 7) / 8 + 1 + 2 * paramNum) with
          | panic => exact absurd hr (readVals_no_panic _ _ _ _ _ _ (by omega) (by rw [hbl, hl]; omega))
          | err => simp
          | ok x => simp

/-! ## E. frame of a rewritten packet -/

/-- **What `SetParameters` keeps.** When it succeeds the new payload starts with the first `10 + (n+7)/8 + 1` bytes of
the received one – command byte, statement id, flags, iteration count, NULL bitmap and new-params-bound flag are
byte-identical – followed by two bytes per parameter and the encoded values of the non-NULL parameters; the header
declares the new payload length (below 2^24-1) and keeps the sequence id. -/
theorem setParameters_frame (fo : FloatOps) (p p' : Packet) (vs : List BoundValue) (hne : vs ≠ [])
    (h : setParameters fo p vs = .ok p') :
    ∃ types vals, setTypes p.data vs (hdrLen + ((vs.length + 7) >>> 3) + 1) = .ok types ∧ encodeVals fo vs = .ok vals ∧
      p'.data = p.data.take (hdrLen + ((vs.length + 7) >>> 3) + 1) ++ types ++ vals ∧
      hdrLen + ((vs.length + 7) >>> 3) + 1 ≤ p.data.length ∧
      p'.header = updatePacketSize p.header p'.data.length := by
  unfold setParameters at h
  have hl : ¬ vs.length = 0 := by
    intro h0; exact hne (List.length_eq_zero_iff.mp h0)
  rw [if_neg hl] at h
  simp only [] at h
  unfold goSlice at h
  split at h
  · next hc =>
    simp only [Out.bind_ok, List.drop_zero] at h
    cases ht : setTypes p.data vs (hdrLen + ((vs.length + 7) >>> 3) + 1) with
    | panic => simp [ht] at h
    | err => simp [ht] at h
    | ok types =>
      simp only [ht, Out.bind_ok] at h
      cases hv : encodeVals fo vs with
      | panic => simp [hv] at h
      | err => simp [hv] at h
      | ok vals =>
        simp only [hv, Out.bind_ok, Out.pure_eq, Out.ok.injEq] at h
        subst h
        exact ⟨types, vals, rfl, rfl, rfl, hc.2, rfl⟩
  · simp at h

theorem setTypes_length (d : Bytes) (vs : List BoundValue) (pos : Nat) (types : Bytes) (h : setTypes d vs pos = .ok types) :
    types.length = 2 * vs.length := by
  induction vs generalizing pos types with
  | nil => simp only [setTypes, Out.ok.injEq] at h; subst h; rfl
  | cons v vs ih =>
    rw [setTypes] at h
    cases h1 : goSlice d pos (pos + 2) with
    | panic => simp [h1] at h
    | err => simp [h1] at h
    | ok pt =>
      simp only [h1, Out.bind_ok] at h
      generalize hfl : (if Generated.Wire.mySignFlagTypes.contains v.paramType = true then
          match v.data with
          | none => (pure ((pt.drop 1).headD 0) : Out UInt8)
          | some data =>
            match parseInt 64 data with
            | none => Out.err
            | some i => pure (if i < 0 then UInt8.ofNat Generated.Wire.mySignedBinaryValue
                              else UInt8.ofNat Generated.Wire.myUnsignedBinaryValue)
        else pure ((pt.drop 1).headD 0)) = fl at h
      cases fl with
      | panic => simp at h
      | err => simp at h
      | ok f =>
        simp only [Out.bind_ok] at h
        cases h2 : setTypes d vs (pos + 2) with
        | panic => simp [h2] at h
        | err => simp [h2] at h
        | ok rest =>
          simp only [h2, Out.bind_ok, Out.pure_eq, Out.ok.injEq] at h
          subst h
          simp [ih _ _ h2]; omega

end AcraModel.Wire.My

namespace AcraModel.Wire.My
open AcraModel AcraModel.Wire.LenEnc AcraModel.Wire.LenEnc.Proofs

/-! ## F. the whole rewrite never panics -/

theorem readVals_length (fo : FloatOps) (d bitmap : Bytes) (ts : List Nat) (i pos : Nat) (vs : List BoundValue)
    (h : readVals fo d bitmap ts i pos = .ok vs) : vs.length = ts.length := by
  induction ts generalizing i pos vs with
  | nil => simp only [readVals, Out.ok.injEq] at h; subst h; rfl
  | cons t ts ih =>
    rw [readVals] at h
    generalize (if bitmap.length > 0 then do
        let b ← goIndex bitmap (i / 8)
        pure (decide ((b.toNat >>> (i % 8)) % 2 = 1))
      else pure false : Out Bool) = nb at h
    cases nb with
    | panic => simp at h
    | err => simp at h
    | ok bn =>
      simp only [Out.bind_ok] at h
      cases bn with
      | true =>
        simp only [if_true] at h
        cases hr : readVals fo d bitmap ts (i + 1) pos with
        | panic => simp [hr] at h
        | err => simp [hr] at h
        | ok rest =>
          simp only [hr, Out.bind_ok, Out.pure_eq, Out.ok.injEq] at h
          subst h; simp [ih _ _ _ hr]
      | false =>
        simp only [Bool.false_eq_true, if_false] at h
        cases hs : goSliceFrom d pos with
        | panic => simp [hs] at h
        | err => simp [hs] at h
        | ok tail =>
          simp only [hs, Out.bind_ok] at h
          cases hv : newBoundValue fo tail t with
          | panic => simp [hv] at h
          | err => simp [hv] at h
          | ok x =>
            obtain ⟨v, n⟩ := x
            simp only [hv, Out.bind_ok] at h
            cases hr : readVals fo d bitmap ts (i + 1) (pos + n) with
            | panic => simp [hr] at h
            | err => simp [hr] at h
            | ok rest =>
              simp only [hr, Out.bind_ok, Out.pure_eq, Out.ok.injEq] at h
              subst h; simp [ih _ _ _ hr]

/-- when `GetBindParameters` returns values there is one per parameter and the packet holds the whole type list -/
theorem getBindParameters_some (fo : FloatOps) (d : Bytes) (n : Nat) (vs : List BoundValue) (hn : 0 < n)
    (h : getBindParameters fo d n = .ok (some vs)) :
    vs.length = n ∧ hdrLen + (n + 7) / 8 + 1 + 2 * n ≤ d.length := by
  unfold getBindParameters at h
  rw [if_neg (by omega)] at h
  simp only [] at h
  split at h
  · cases h
  · next hg =>
    have hnbl : (n + 7) / 8 > 0 := by omega
    rw [if_pos hnbl, goSlice_ok_of_le _ _ _ (by omega) (by omega)] at h
    obtain ⟨fl, hf⟩ := goIndex_ne_panic_of_lt d (hdrLen + (n + 7) / 8) (by omega)
    rw [hf] at h
    simp only [Out.bind_ok] at h
    split at h
    · cases h
    · split at h
      · cases h
      · next hg2 =>
        obtain ⟨ts, hts, hl⟩ := readTypes_ok d n (hdrLen + (n + 7) / 8 + 1) (by omega)
        rw [hts] at h
        simp only [Out.bind_ok] at h
        cases hr : readVals fo d ((d.take (hdrLen + (n + 7) / 8)).drop hdrLen) ts 0 (hdrLen + (n + 7) / 8 + 1 + 2 * n) with
        | panic => simp [hr] at h
        | err => simp [hr] at h
        | ok vals =>
          simp only [hr, Out.bind_ok, Out.pure_eq, Out.ok.injEq, Option.some.injEq] at h
          subst h
          exact ⟨by rw [readVals_length _ _ _ _ _ _ _ hr, hl], by omega⟩

theorem transformVals_length (g : Nat → Bytes → Out Bytes) (vs : List BoundValue) (i : Nat) (vs' : List BoundValue)
    (h : transformVals g vs i = .ok vs') : vs'.length = vs.length := by
  induction vs generalizing i vs' with
  | nil => simp only [transformVals, Out.ok.injEq] at h; subst h; rfl
  | cons v vs ih =>
    rw [transformVals] at h
    have key : ∀ (r : Out BoundValue), (r >>= fun v' => do
        let rest ← transformVals g vs (i + 1)
        pure (v' :: rest)) = .ok vs' → vs'.length = (v :: vs).length := by
      intro r hr0
      cases r with
      | panic => simp at hr0
      | err => simp at hr0
      | ok v' =>
        simp only [Out.bind_ok] at hr0
        cases hr : transformVals g vs (i + 1) with
        | panic => simp [hr] at hr0
        | err => simp [hr] at hr0
        | ok rest =>
          simp only [hr, Out.bind_ok, Out.pure_eq, Out.ok.injEq] at hr0
          subst hr0; simp [ih _ _ hr]
    exact key _ h

theorem transformVals_no_panic (g : Nat → Bytes → Out Bytes) (hg : ∀ i d, g i d ≠ .panic) (vs : List BoundValue) (i : Nat) :
    transformVals g vs i ≠ .panic := by
  induction vs generalizing i with
  | nil => simp [transformVals]
  | cons v vs ih =>
    rw [transformVals]
    cases hd : v.data with
    | none =>
      simp only [Out.pure_eq, Out.bind_ok]
      cases hr : transformVals g vs (i + 1) with
      | panic => exact absurd hr (ih _)
      | err => simp
      | ok x => simp
    | some d =>
      simp only []
      cases hgd : g i d with
      | panic => exact absurd hgd (hg i d)
      | err => simp
      | ok d' =>
        simp only [Out.bind_ok, Out.pure_eq]
        cases hr : transformVals g vs (i + 1) with
        | panic => exact absurd hr (ih _)
        | err => simp
        | ok x => simp

theorem setTypes_no_panic (d : Bytes) (vs : List BoundValue) (pos : Nat) (h : pos + 2 * vs.length ≤ d.length) :
    setTypes d vs pos ≠ .panic := by
  induction vs generalizing pos with
  | nil => simp [setTypes]
  | cons v vs ih =>
    simp only [List.length_cons] at h
    rw [setTypes, goSlice_ok_of_le _ _ _ (by omega) (by omega)]
    simp only [Out.bind_ok]
    have hfl : ∀ x : Out UInt8, x ≠ .panic → (x >>= fun flag => do
        let rest ← setTypes d vs (pos + 2)
        pure (UInt8.ofNat v.paramType :: flag :: rest)) ≠ .panic := by
      intro x hx
      cases x with
      | panic => exact absurd rfl hx
      | err => simp
      | ok f =>
        simp only [Out.bind_ok]
        cases hr : setTypes d vs (pos + 2) with
        | panic => exact absurd hr (ih _ (by omega))
        | err => simp
        | ok r => simp
    apply hfl
    split
    · cases v.data with
      | none => simp
      | some data => simp only []; cases parseInt 64 data <;> simp
    · simp

theorem encode_no_panic (fo : FloatOps) (v : BoundValue) : v.encode fo ≠ .panic := by
  unfold BoundValue.encode
  cases storageBytes v.paramType with
  | none => simp
  | some sb =>
    simp only []
    cases encodeKind v.paramType with
    | none => simp
    | some k =>
      cases k with
      | null => simp only []; split <;> simp
      | int w => simp only []; cases parseInt (8 * w) (v.data.getD []) <;> simp
      | float w => simp only []; cases fo.parse w (v.data.getD []) <;> simp

theorem encodeVals_no_panic (fo : FloatOps) (vs : List BoundValue) : encodeVals fo vs ≠ .panic := by
  induction vs with
  | nil => simp [encodeVals]
  | cons v vs ih =>
    rw [encodeVals]
    cases v.data with
    | none => exact ih
    | some _ =>
      simp only []
      cases he : v.encode fo with
      | panic => exact absurd he (encode_no_panic fo v)
      | err => simp
      | ok e =>
        simp only [Out.bind_ok]
        cases hr : encodeVals fo vs with
        | panic => exact absurd hr ih
        | err => simp
        | ok r => simp

/-- **The COM_STMT_EXECUTE rewrite never panics**: for every packet, parameter count and (non-panicking) observer. -/
theorem rewriteExecute_no_panic (fo : FloatOps) (g : Nat → Bytes → Out Bytes) (hg : ∀ i d, g i d ≠ .panic)
    (p : Packet) (n : Nat) : rewriteExecute fo g p n ≠ .panic := by
  unfold rewriteExecute
  cases hb : getBindParameters fo p.data n with
  | panic => exact absurd hb (getBindParameters_no_panic _ _ _)
  | err => simp
  | ok o =>
    simp only [Out.bind_ok]
    cases o with
    | none => simp
    | some vs =>
      simp only []
      cases ht : transformVals g vs 0 with
      | panic => exact absurd ht (transformVals_no_panic g hg _ _)
      | err => simp
      | ok vs' =>
        simp only [Out.bind_ok]
        have hl := transformVals_length g vs 0 vs' ht
        have hsp : setParameters fo p vs' ≠ .panic := by
          unfold setParameters
          split
          · simp
          · next hne =>
            have hn : 0 < n := by
              cases n with
              | zero =>
                simp only [getBindParameters, if_true, Out.ok.injEq, Option.some.injEq] at hb
                subst hb; exact absurd hl hne
              | succ k => omega
            obtain ⟨hvl, hlen⟩ := getBindParameters_some fo p.data n vs hn hb
            have hsh : (vs'.length + 7) >>> 3 = (n + 7) / 8 := by
              rw [hl, hvl, Nat.shiftRight_eq_div_pow]
            simp only []
            rw [hsh, goSlice_ok_of_le _ _ _ (by omega) (by omega)]
            simp only [Out.bind_ok]
            cases hst : setTypes p.data vs' (hdrLen + (n + 7) / 8 + 1) with
            | panic => exact absurd hst (setTypes_no_panic _ _ _ (by rw [hl, hvl]; omega))
            | err => simp
            | ok types =>
              simp only [Out.bind_ok]
              cases hev : encodeVals fo vs' with
              | panic => exact absurd hev (encodeVals_no_panic fo vs')
              | err => simp
              | ok vals => simp
        cases hs : setParameters fo p vs' with
        | panic => exact absurd hs hsp
        | err => simp
        | ok p' => simp

/-! ## F. the whole parameter block: `GetBindParameters` on the specification encoding -/

/-- the byte with bit `j` set iff `c j` -/
def byteOf (c : Nat → Bool) : Nat :=
  (List.range 8).foldl (fun acc bit => if c bit then acc + 2^bit else acc) 0

theorem byteOf_eq (c : Nat → Bool) :
    byteOf c = (if c 0 then 1 else 0) + (if c 1 then 2 else 0) + (if c 2 then 4 else 0) + (if c 3 then 8 else 0) +
      (if c 4 then 16 else 0) + (if c 5 then 32 else 0) + (if c 6 then 64 else 0) + (if c 7 then 128 else 0) := by
  unfold byteOf
  simp only [List.range, List.range.loop, List.foldl]
  cases c 0 <;> cases c 1 <;> cases c 2 <;> cases c 3 <;> cases c 4 <;> cases c 5 <;> cases c 6 <;> cases c 7 <;> rfl

theorem byteOf_lt (c : Nat → Bool) : byteOf c < 256 := by
  rw [byteOf_eq]
  cases c 0 <;> cases c 1 <;> cases c 2 <;> cases c 3 <;> cases c 4 <;> cases c 5 <;> cases c 6 <;> cases c 7 <;> decide

theorem byteOf_bit (c : Nat → Bool) (k : Nat) (hk : k < 8) : (byteOf c >>> k) % 2 = if c k then 1 else 0 := by
  rw [byteOf_eq]
  have : k = 0 ∨ k = 1 ∨ k = 2 ∨ k = 3 ∨ k = 4 ∨ k = 5 ∨ k = 6 ∨ k = 7 := by omega
  rcases this with rfl | rfl | rfl | rfl | rfl | rfl | rfl | rfl <;>
    cases c 0 <;> cases c 1 <;> cases c 2 <;> cases c 3 <;> cases c 4 <;> cases c 5 <;> cases c 6 <;> cases c 7 <;> decide

theorem execBitmap_length (vals : List (Option Bytes)) : (execBitmap vals).length = (vals.length + 7) / 8 := by
  simp [execBitmap]

theorem execBitmap_get (vals : List (Option Bytes)) (byte : Nat) (h : byte < (vals.length + 7) / 8) :
    (execBitmap vals)[byte]? = some (UInt8.ofNat (byteOf fun bit => decide (vals[byte * 8 + bit]? = some none))) := by
  unfold execBitmap
  rw [List.getElem?_map, List.getElem?_range h]
  simp [byteOf]

/-- reading bit `i` of the NULL bitmap the way `GetBindParameters` does gives "parameter `i` is NULL" -/
theorem execBitmap_bit (vals : List (Option Bytes)) (i : Nat) (hi : i < vals.length) :
    ∃ b, goIndex (execBitmap vals) (i / 8) = .ok b ∧
      (decide ((b.toNat >>> (i % 8)) % 2 = 1) = decide (vals[i]? = some none)) := by
  have hb : i / 8 < (vals.length + 7) / 8 := by omega
  have hg := execBitmap_get vals (i / 8) hb
  have hlt : i / 8 < (execBitmap vals).length := by rw [execBitmap_length]; exact hb
  refine ⟨UInt8.ofNat (byteOf fun bit => decide (vals[i / 8 * 8 + bit]? = some none)), ?_, ?_⟩
  · unfold goIndex
    rw [hg]
  · have hlt256 := byteOf_lt (fun bit => decide (vals[i / 8 * 8 + bit]? = some none))
    have htn : (UInt8.ofNat (byteOf fun bit => decide (vals[i / 8 * 8 + bit]? = some none))).toNat =
        byteOf fun bit => decide (vals[i / 8 * 8 + bit]? = some none) := by
      simp [UInt8.toNat_ofNat']
      omega
    rw [htn, byteOf_bit _ (i % 8) (by omega)]
    have hidx : i / 8 * 8 + i % 8 = i := by omega
    simp only [hidx]
    cases hd : decide (vals[i]? = some none) <;> simp

/-! ### one value -/

/-- a wire value is well-formed for its type: fixed-width numerics have their storage width, everything else fits a
length-encoded string -/
def WireOk (t : Nat) (v : Bytes) : Prop :=
  match storageBytes t with
  | some sb => v.length = sb
  | none => v.length < 2^64

/-- the value Acra holds (as text) for a parameter of type `t` whose wire value is `v` (`none` = NULL) -/
def boundOf (fo : FloatOps) (t : Nat) (v : Option Bytes) : BoundValue :=
  match v with
  | none => ⟨t, none⟩
  | some v =>
    match storageBytes t with
    | none => ⟨t, some v⟩
    | some _ =>
      match decodeKind t with
      | some (.int w) => ⟨t, some (fmtInt (toSigned (8 * w) (leVal v)))⟩
      | some (.float w) => ⟨t, some (fo.fmt w v)⟩
      | _ => ⟨t, none⟩

/-- `NewMysqlBoundValue` on the wire form of a well-formed value followed by anything: the text value of the
specification, consuming exactly the bytes of the value -/
theorem newBoundValue_encodeParamVal (fo : FloatOps) (t : Nat) (v rest : Bytes) (h : WireOk t v) :
    newBoundValue fo (encodeParamVal t v ++ rest) t = .ok (boundOf fo t (some v), (encodeParamVal t v).length) := by
  unfold WireOk at h
  unfold encodeParamVal boundOf
  cases hs : storageBytes t with
  | none =>
    rw [hs] at h
    simp only
    exact (value_roundtrip_str fo t v v rest hs h).1
  | some sb =>
    rw [hs] at h
    simp only
    rcases tables_agree t sb hs with ⟨hd, _⟩ | ⟨hd, _⟩ | ⟨hd, _, h0⟩
    · unfold newBoundValue
      simp only [hs, hd]
      rw [if_neg (by simp only [List.length_append]; omega), List.take_left' h, h]
      rfl
    · unfold newBoundValue
      simp only [hs, hd]
      rw [if_neg (by simp only [List.length_append]; omega), List.take_left' h, h]
      rfl
    · unfold newBoundValue
      simp only [hs, hd]
      subst h0
      rw [h]
      rfl

/-! ### the type list -/

def typeBytes (types : List (Nat × Nat)) : Bytes := types.flatMap (fun tf => [UInt8.ofNat tf.1, UInt8.ofNat tf.2])

theorem typeBytes_length (types : List (Nat × Nat)) : (typeBytes types).length = 2 * types.length := by
  induction types with
  | nil => rfl
  | cons x xs ih => simp [typeBytes, List.flatMap_cons] at ih ⊢; omega

theorem readTypes_typeBytes (pre post : Bytes) (types : List (Nat × Nat)) (hty : ∀ tf ∈ types, tf.1 < 256) :
    readTypes (pre ++ typeBytes types ++ post) types.length pre.length = .ok (types.map (·.1)) := by
  induction types generalizing pre with
  | nil => rfl
  | cons x xs ih =>
    obtain ⟨t, f⟩ := x
    have ht : t < 256 := hty (t, f) List.mem_cons_self
    have e : pre ++ typeBytes ((t, f) :: xs) ++ post = (pre ++ [UInt8.ofNat t, UInt8.ofNat f]) ++ typeBytes xs ++ post := by
      simp [typeBytes, List.flatMap_cons, List.append_assoc]
    have hidx : goIndex (pre ++ typeBytes ((t, f) :: xs) ++ post) pre.length = .ok (UInt8.ofNat t) := by
      unfold goIndex
      simp [typeBytes, List.flatMap_cons, List.append_assoc]
    have hrec := ih (pre ++ [UInt8.ofNat t, UInt8.ofNat f]) (fun tf h => hty tf (List.mem_cons_of_mem _ h))
    rw [← e] at hrec
    have hlen : (pre ++ [UInt8.ofNat t, UInt8.ofNat f]).length = pre.length + 2 := by simp
    rw [hlen] at hrec
    rw [List.length_cons]
    unfold readTypes
    rw [hidx, Out.bind_ok, hrec, Out.bind_ok]
    simp [UInt8.toNat_ofNat']
    omega

/-! ### the value loop -/

/-- all parameters of an execute as Acra holds them -/
def boundAll (fo : FloatOps) : List (Nat × Nat) → List (Option Bytes) → List BoundValue
  | tf :: ts, v :: vs => boundOf fo tf.1 v :: boundAll fo ts vs
  | _, _ => []

/-- **the value loop of `GetBindParameters` reads what the specification encoder writes**: on the value block of
`types`/`vals` (the parameters from index `k` on) placed at `pos` behind any bytes, with the NULL bitmap of the whole
parameter list, it returns the specification's values – NULL exactly where the bitmap says so, every other value
consumed with exactly its wire length -/
theorem readVals_encode (fo : FloatOps) (allVals : List (Option Bytes)) (post : Bytes)
    (types : List (Nat × Nat)) (vals : List (Option Bytes)) (pre : Bytes) (k : Nat)
    (hsuf : allVals.drop k = vals) (hl : types.length = vals.length)
    (hw : ∀ (j t f : Nat) (v : Bytes), types[j]? = some (t, f) → vals[j]? = some (some v) → WireOk t v) :
    readVals fo (pre ++ encodeParamVals types vals ++ post) (execBitmap allVals) (types.map (·.1)) k pre.length =
      .ok (boundAll fo types vals) := by
  induction vals generalizing types pre k with
  | nil =>
    have : types = [] := List.eq_nil_of_length_eq_zero (by simpa using hl)
    subst this
    rfl
  | cons v vs ih =>
    match types, hl with
    | (t, f) :: ts, hl =>
      have hl' : ts.length = vs.length := by simpa using hl
      have hk : k < allVals.length := by
        rcases Nat.lt_or_ge k allVals.length with h | h
        · exact h
        · rw [List.drop_eq_nil_of_le h] at hsuf; cases hsuf
      have hget : allVals[k]? = some v := by
        have := congrArg (fun l => l[0]?) hsuf
        simpa [List.getElem?_drop] using this
      have hsuf' : allVals.drop (k + 1) = vs := by
        have := congrArg (List.drop 1) hsuf
        simpa [List.drop_drop, Nat.add_comm] using this
      obtain ⟨b, hb, hbit⟩ := execBitmap_bit allVals k hk
      have hblen : (execBitmap allVals).length > 0 := by
        rw [execBitmap_length]; omega
      have hw' : ∀ (j t' f' : Nat) (x : Bytes), ts[j]? = some (t', f') → vs[j]? = some (some x) → WireOk t' x :=
        fun j t' f' x h1 h2 => hw (j + 1) t' f' x (by simpa using h1) (by simpa using h2)
      simp only [List.map_cons]
      unfold readVals
      rw [if_pos hblen, hb]
      simp only [Out.bind_ok, Out.pure_eq]
      rw [hbit, hget]
      cases v with
      | none =>
        simp only [decide_true, if_true]
        have e : encodeParamVals ((t, f) :: ts) (none :: vs) = encodeParamVals ts vs := rfl
        rw [e, ih ts pre (k + 1) hsuf' hl' hw']
        rfl
      | some x =>
        have hne : decide ((some (some x) : Option (Option Bytes)) = some none) = false := by simp
        rw [hne]
        simp only [Bool.false_eq_true, if_false]
        have hwx : WireOk t x := hw 0 t f x rfl rfl
        have e : pre ++ encodeParamVals ((t, f) :: ts) (some x :: vs) ++ post =
            pre ++ (encodeParamVal t x ++ (encodeParamVals ts vs ++ post)) := by
          simp [encodeParamVals, List.append_assoc]
        have e2 : pre ++ encodeParamVals ((t, f) :: ts) (some x :: vs) ++ post =
            (pre ++ encodeParamVal t x) ++ encodeParamVals ts vs ++ post := by
          simp [encodeParamVals, List.append_assoc]
        have hfrom : goSliceFrom (pre ++ encodeParamVals ((t, f) :: ts) (some x :: vs) ++ post) pre.length =
            .ok (encodeParamVal t x ++ (encodeParamVals ts vs ++ post)) := by
          rw [e]; exact goSliceFrom_append pre _
        rw [hfrom, Out.bind_ok, newBoundValue_encodeParamVal fo t x _ hwx, Out.bind_ok]
        simp only
        have hrec := ih ts (pre ++ encodeParamVal t x) (k + 1) hsuf' hl' hw'
        rw [← e2, List.length_append] at hrec
        rw [hrec]
        rfl

/-! ### the whole parameter block -/

/-- **`GetBindParameters` reads what the specification encoder writes**: on a COM_STMT_EXECUTE payload built by
`encodeExecute` (10-byte head, NULL bitmap, new-params-bound flag 1, `n ≥ 1` (type, flag) pairs, the wire values of the
non-NULL parameters) it returns the specification's list of values. -/
theorem getBindParameters_encodeExecute (fo : FloatOps) (head : Bytes) (types : List (Nat × Nat))
    (vals : List (Option Bytes)) (hh : head.length = 10) (hl : types.length = vals.length) (hn : 0 < vals.length)
    (hty : ∀ tf ∈ types, tf.1 < 256)
    (hw : ∀ (j t f : Nat) (v : Bytes), types[j]? = some (t, f) → vals[j]? = some (some v) → WireOk t v) :
    getBindParameters fo (encodeExecute head types vals) vals.length = .ok (some (boundAll fo types vals)) := by
  have hbl := execBitmap_length vals
  have htl := typeBytes_length types
  have e0 : encodeExecute head types vals =
      head ++ execBitmap vals ++ [1] ++ typeBytes types ++ encodeParamVals types vals := rfl
  have e1 : encodeExecute head types vals =
      head ++ execBitmap vals ++ ([1] ++ typeBytes types ++ encodeParamVals types vals) := by
    rw [e0]; simp [List.append_assoc]
  have e2 : encodeExecute head types vals =
      (head ++ execBitmap vals ++ [1]) ++ typeBytes types ++ encodeParamVals types vals := e0
  have e3 : encodeExecute head types vals =
      (head ++ execBitmap vals ++ [1] ++ typeBytes types) ++ encodeParamVals types vals ++ [] := by
    rw [e0]; simp
  have hlen : (encodeExecute head types vals).length =
      10 + (vals.length + 7) / 8 + 1 + 2 * types.length + (encodeParamVals types vals).length := by
    rw [e0]; simp only [List.length_append, hh, hbl, htl, List.length_cons, List.length_nil]
  have hbm : goSlice (encodeExecute head types vals) hdrLen (hdrLen + (vals.length + 7) / 8) = .ok (execBitmap vals) := by
    rw [e1, hdrLen_eq]
    have := goSlice_append_mid head (execBitmap vals) ([1] ++ typeBytes types ++ encodeParamVals types vals)
    rw [hh, hbl] at this
    exact this
  have hflag : goIndex (encodeExecute head types vals) (hdrLen + (vals.length + 7) / 8) = .ok 1 := by
    rw [e1, hdrLen_eq]
    unfold goIndex
    have : (head ++ execBitmap vals ++ ([1] ++ typeBytes types ++ encodeParamVals types vals))[10 + (vals.length + 7) / 8]? = some 1 := by
      rw [List.getElem?_append_right (by simp [hh, hbl])]
      simp [hh, hbl]
    rw [this]
  have hpre : (head ++ execBitmap vals ++ [1]).length = hdrLen + (vals.length + 7) / 8 + 1 := by
    simp only [List.length_append, hh, hbl, hdrLen_eq, List.length_cons, List.length_nil]
  have htypes : readTypes (encodeExecute head types vals) vals.length (hdrLen + (vals.length + 7) / 8 + 1) =
      .ok (types.map (·.1)) := by
    have := readTypes_typeBytes (head ++ execBitmap vals ++ [1]) (encodeParamVals types vals) types hty
    rw [hpre, hl] at this
    rw [e2]
    exact this
  have hpre2 : (head ++ execBitmap vals ++ [1] ++ typeBytes types).length =
      hdrLen + (vals.length + 7) / 8 + 1 + 2 * vals.length := by
    simp only [List.length_append, hh, hbl, htl, hdrLen_eq, hl, List.length_cons, List.length_nil]
  have hvals : readVals fo (encodeExecute head types vals) (execBitmap vals) (types.map (·.1)) 0
      (hdrLen + (vals.length + 7) / 8 + 1 + 2 * vals.length) = .ok (boundAll fo types vals) := by
    have := readVals_encode fo vals [] types vals (head ++ execBitmap vals ++ [1] ++ typeBytes types) 0 rfl hl hw
    rw [hpre2] at this
    rw [e3]
    exact this
  unfold getBindParameters
  rw [if_neg (by omega)]
  simp only []
  rw [if_neg (by rw [hlen, hdrLen_eq]; omega), if_pos (by omega), hbm, Out.bind_ok, hflag, Out.bind_ok]
  rw [if_neg (by decide)]
  rw [if_neg (by rw [hlen, hdrLen_eq, hl]; omega), htypes, Out.bind_ok, hvals]
  rfl

end AcraModel.Wire.My
