import AcraModel.Wire.MysqlExecute
import AcraModel.Wire.MysqlLemmas
/-! Lemmas about the COM_STMT_EXECUTE model (`Wire/MysqlExecute.lean`): tables, decimal text, no panic, frame. -/
namespace AcraModel.Wire.My
open AcraModel AcraModel.Wire.LenEnc AcraModel.Wire.LenEnc.Proofs

/-! ## A. the regenerated tables agree with each other -/

theorem storageBytes_mem (t sb : Nat) (h : storageBytes t = some sb) : (t, sb) ∈ Generated.Wire.myNumericStorageBytes := by
  unfold storageBytes at h
  cases hf : Generated.Wire.myNumericStorageBytes.find? (·.1 = t) with
  | none => simp [hf] at h
  | some x =>
    simp only [hf, Option.map_some, Option.some.injEq] at h
    have hm := List.mem_of_find?_eq_some hf
    have hp := List.find?_some hf
    simp only [decide_eq_true_eq] at hp
    obtain ⟨a, b⟩ := x
    simp only at h hp
    subst h; subst hp
    exact hm

/-- the width `NewMysqlBoundValue` reads, the width `Encode` writes and `NumericTypesStorageBytes` are the same
number for every numeric type (so `n` returned by the reader is what it consumed, and `Encode` fills its buffer) -/
theorem tables_agree (t sb : Nat) (h : storageBytes t = some sb) :
    (decodeKind t = some (.int sb) ∧ encodeKind t = some (.int sb)) ∨
    (decodeKind t = some (.float sb) ∧ encodeKind t = some (.float sb)) ∨
    (decodeKind t = some .null ∧ encodeKind t = some .null ∧ sb = 0) := by
  have hm := storageBytes_mem t sb h
  simp only [Generated.Wire.myNumericStorageBytes, List.mem_cons, Prod.mk.injEq, List.not_mem_nil, or_false] at hm
  rcases hm with ⟨rfl, rfl⟩ | ⟨rfl, rfl⟩ | ⟨rfl, rfl⟩ | ⟨rfl, rfl⟩ | ⟨rfl, rfl⟩ | ⟨rfl, rfl⟩ | ⟨rfl, rfl⟩ | ⟨rfl, rfl⟩ | ⟨rfl, rfl⟩ <;> decide

/-! ## B. decimal text of integers -/

theorem parseDigits_append (acc : Nat) (a : Bytes) (c : UInt8) (hc : 48 ≤ c.toNat ∧ c.toNat ≤ 57) :
    parseDigits acc (a ++ [c]) = (parseDigits acc a).map (fun v => 10 * v + (c.toNat - 48)) := by
  induction a generalizing acc with
  | nil => simp [parseDigits, hc]
  | cons x a ih =>
    simp only [List.cons_append, parseDigits]
    split
    · exact ih _
    · rfl

theorem digit_toNat (d : Nat) (h : d < 10) : (UInt8.ofNat (48 + d)).toNat = 48 + d := by
  simp [UInt8.toNat_ofNat']; omega

theorem natDec_ne_nil (n : Nat) : natDec n ≠ [] := by
  rw [natDec]; split <;> simp

/-- `ParseUint(FormatUint(n))` = n -/
theorem parseDigits_natDec (n : Nat) : parseDigits 0 (natDec n) = some n := by
  induction n using Nat.strongRecOn with
  | _ n ih =>
    rw [natDec]
    split
    · next h => simp [parseDigits, UInt8.toNat_ofNat']; omega
    · next h =>
      have hd : n % 10 < 10 := Nat.mod_lt _ (by decide)
      rw [parseDigits_append _ _ _ (by rw [digit_toNat _ hd]; omega), ih (n / 10) (by omega), digit_toNat _ hd]
      simp only [Option.map_some, Option.some.injEq]
      omega

theorem parseNatDec_natDec (n : Nat) : parseNatDec (natDec n) = some n := by
  unfold parseNatDec
  rw [if_neg (natDec_ne_nil n)]
  exact parseDigits_natDec n

theorem natDec_head (n : Nat) : ∃ c r, natDec n = c :: r ∧ 48 ≤ c.toNat ∧ c.toNat ≤ 57 := by
  induction n using Nat.strongRecOn with
  | _ n ih =>
    rw [natDec]
    split
    · next h => exact ⟨_, [], rfl, by rw [digit_toNat n h]; omega⟩
    · next h =>
      obtain ⟨c, r, hc, hr⟩ := ih (n / 10) (by omega)
      exact ⟨c, r ++ [UInt8.ofNat (48 + n % 10)], by rw [hc]; rfl, hr⟩

theorem parseInt_digit (bits : Nat) (c : UInt8) (r : Bytes) (hc : 48 ≤ c.toNat ∧ c.toNat ≤ 57) :
    parseInt bits (c :: r) = (match parseNatDec (c :: r) with
      | none => none
      | some un => if un ≥ 2^(bits-1) then none else some (un : Int)) := by
  have h1 : ¬ c.toNat = 45 := by omega
  have h3 : ¬ c.toNat = 43 := by omega
  unfold parseInt
  simp only [h1, h3, or_self, if_false]
  cases parseNatDec (c :: r) with
  | none => rfl
  | some un => simp

theorem parseInt_minus (bits : Nat) (r : Bytes) :
    parseInt bits (45 :: r) = (match parseNatDec r with
      | none => none
      | some un => if un > 2^(bits-1) then none else some (-(un : Int))) := by
  have h45 : ((45 : UInt8).toNat = 45) := rfl
  unfold parseInt
  simp only [h45, or_true, if_true]
  cases parseNatDec r with
  | none => rfl
  | some un => simp

/-- **`ParseInt(FormatInt(i), 10, bits) = i`** for every `i` of the `bits`-bit signed range -/
theorem parseInt_fmtInt (bits : Nat) (i : Int) (hlo : -((2^(bits-1) : Nat) : Int) ≤ i) (hhi : i < ((2^(bits-1) : Nat) : Int)) :
    parseInt bits (fmtInt i) = some i := by
  unfold fmtInt
  by_cases hneg : i < 0
  · rw [if_pos hneg, parseInt_minus, parseNatDec_natDec]
    have hle : ¬ (i.natAbs > 2^(bits-1)) := by omega
    simp only [hle, if_false, Option.some.injEq]
    omega
  · rw [if_neg hneg]
    obtain ⟨c, r, hc, hr⟩ := natDec_head i.natAbs
    rw [hc, parseInt_digit bits c r hr, ← hc, parseNatDec_natDec]
    have hlt : ¬ (i.natAbs ≥ 2^(bits-1)) := by omega
    simp only [hlt, if_false, Option.some.injEq]
    omega

theorem toSigned_range (w : Nat) (hw : 0 < w) (v : Nat) (hv : v < 2^(8*w)) :
    -((2^(8*w-1) : Nat) : Int) ≤ toSigned (8*w) v ∧ toSigned (8*w) v < ((2^(8*w-1) : Nat) : Int) := by
  have hp : 2^(8*w) = 2 * 2^(8*w-1) := by
    rw [show 8*w = (8*w-1) + 1 by omega, Nat.pow_succ]; simp; omega
  unfold toSigned
  split <;> constructor <;> omega

/-- `binary.Write(intN(ParseInt(FormatInt(binary.Read …))))` gives the bytes back -/
theorem intBytes_toSigned (w : Nat) (b : Bytes) (hb : b.length = w) :
    intBytes w (toSigned (8*w) (leVal b)) = b := by
  have hv : leVal b < 2^(8*w) := by
    have := leVal_lt b
    rw [hb, show (256 : Nat) = 2^8 by rfl, ← Nat.pow_mul] at this
    exact this
  have key : (toSigned (8*w) (leVal b) % ((2^(8*w) : Nat) : Int)).toNat = leVal b := by
    unfold toSigned
    split
    · rw [Int.emod_eq_of_lt (by omega) (by omega)]; simp
    · have : ((leVal b : Int) - ((2^(8*w) : Nat) : Int)) % ((2^(8*w) : Nat) : Int) = (leVal b : Int) := by
        rw [Int.sub_emod, Int.emod_self]
        simp only [Int.sub_zero, Int.emod_emod]
        exact Int.emod_eq_of_lt (by omega) (by omega)
      rw [this]; simp
  unfold intBytes
  rw [key, ← hb]
  exact leBytes_leVal b

end AcraModel.Wire.My

namespace AcraModel.Wire.My
open AcraModel AcraModel.Wire.LenEnc AcraModel.Wire.LenEnc.Proofs

/-! ## C. one parameter value: `NewMysqlBoundValue`, `SetData`, `Encode` -/

theorem fit_self (sb : Nat) (w : Bytes) (h : w.length = sb) : (w ++ List.replicate (sb - w.length) 0).take sb = w := by
  rw [h, Nat.sub_self]; simp [← h]

/-- an integer parameter that is not changed is re-encoded to exactly its wire bytes -/
theorem value_roundtrip_int (fo : FloatOps) (t w : Nat) (raw rest : Bytes) (hs : storageBytes t = some w)
    (hd : decodeKind t = some (.int w)) (he : encodeKind t = some (.int w)) (hw : 0 < w) (hr : raw.length = w) :
    newBoundValue fo (raw ++ rest) t = .ok (⟨t, some (fmtInt (toSigned (8 * w) (leVal raw)))⟩, w) ∧
    (⟨t, some (fmtInt (toSigned (8 * w) (leVal raw)))⟩ : BoundValue).encode fo = .ok raw := by
  have hv : leVal raw < 2^(8*w) := by
    have := leVal_lt raw
    rw [hr, show (256 : Nat) = 2^8 by rfl, ← Nat.pow_mul] at this
    exact this
  constructor
  · unfold newBoundValue
    simp only [hs, hd]
    rw [if_neg (by simp only [List.length_append]; omega), List.take_left' hr]
    rfl
  · unfold BoundValue.encode
    simp only [hs, he, Option.getD_some]
    have hrng := toSigned_range w hw (leVal raw) hv
    rw [parseInt_fmtInt (8*w) _ hrng.1 hrng.2]
    simp only []
    rw [intBytes_toSigned w raw hr, fit_self w raw hr]

/-- a FLOAT/DOUBLE parameter that is not changed is re-encoded to its wire bytes whenever strconv's text round trip
holds for that value (`fo.parse w (fo.fmt w raw) = some raw`: every finite value and the infinities) -/
theorem value_roundtrip_float (fo : FloatOps) (t w : Nat) (raw rest : Bytes) (hs : storageBytes t = some w)
    (hd : decodeKind t = some (.float w)) (he : encodeKind t = some (.float w)) (hr : raw.length = w)
    (hlaw : fo.parse w (fo.fmt w raw) = some raw) :
    newBoundValue fo (raw ++ rest) t = .ok (⟨t, some (fo.fmt w raw)⟩, w) ∧
    (⟨t, some (fo.fmt w raw)⟩ : BoundValue).encode fo = .ok raw := by
  constructor
  · unfold newBoundValue
    simp only [hs, hd]
    rw [if_neg (by simp only [List.length_append]; omega), List.take_left' hr]
    rfl
  · unfold BoundValue.encode
    simp only [hs, he, Option.getD_some, hlaw]
    rw [fit_self w raw hr]

theorem storageBytes_changedType : storageBytes changedType = none := by decide

/-- a string-like parameter: read as its bytes; unchanged it is re-encoded to the same length-encoded string, changed
to `b'` it travels as a BLOB (`changedType`) holding exactly the length-encoded `b'` -/
theorem value_roundtrip_str (fo : FloatOps) (t : Nat) (b b' rest : Bytes) (hs : storageBytes t = none) (hb : b.length < 2^64) :
    newBoundValue fo (putLengthEncodedString (some b) ++ rest) t = .ok (⟨t, some b⟩, (putLengthEncodedString (some b)).length) ∧
    ((⟨t, some b⟩ : BoundValue).setData b).paramType = t ∧
    ((⟨t, some b⟩ : BoundValue).setData b).encode fo = .ok (putLengthEncodedString (some b)) ∧
    (b' ≠ b → ((⟨t, some b⟩ : BoundValue).setData b').paramType = changedType ∧
      ((⟨t, some b⟩ : BoundValue).setData b').encode fo = .ok (putLengthEncodedString (some b'))) := by
  refine ⟨?_, ?_, ?_, ?_⟩
  · unfold newBoundValue
    simp only [hs]
    rw [lenenc_str_roundtrip (some b) rest (by intro x hx; cases hx; exact hb)]
    rfl
  · simp [BoundValue.setData]
  · simp [BoundValue.setData, BoundValue.encode, hs]
  · intro hne
    have : ¬ ((some b : Option Bytes).getD [] = b') := by simpa using fun h => hne h.symm
    simp only [BoundValue.setData, this, if_false, BoundValue.encode, storageBytes_changedType, and_self]

/-! ## D. no panic -/

theorem newBoundValue_no_panic (fo : FloatOps) (data : Bytes) (t : Nat) : newBoundValue fo data t ≠ .panic := by
  unfold newBoundValue
  cases hs : storageBytes t with
  | none =>
    simp only []
    cases hr : lengthEncodedString data with
    | panic => exact absurd hr (lenenc_str_no_panic _)
    | err => simp
    | ok x => simp
  | some sb =>
    simp only []
    rcases tables_agree t sb hs with ⟨h, _⟩ | ⟨h, _⟩ | ⟨h, _, _⟩ <;> rw [h] <;> simp only [] <;> (try split) <;> simp

theorem newBoundValue_le (fo : FloatOps) (data : Bytes) (t : Nat) (v : BoundValue) (n : Nat)
    (h : newBoundValue fo data t = .ok (v, n)) : n ≤ data.length := by
  unfold newBoundValue at h
  cases hs : storageBytes t with
  | none =>
    simp only [hs] at h
    cases hr : lengthEncodedString data with
    | panic => simp [hr] at h
    | err => simp [hr] at h
    | ok x =>
      obtain ⟨val, k⟩ := x
      simp only [hr, Out.bind_ok, Out.pure_eq, Out.ok.injEq, Prod.mk.injEq] at h
      have := (lenenc_str_progress data val k hr).2
      omega
  | some sb =>
    simp only [hs] at h
    rcases tables_agree t sb hs with ⟨hk, _⟩ | ⟨hk, _⟩ | ⟨hk, _, h0⟩
    · rw [hk] at h; simp only [] at h
      split at h
      · cases h
      · simp only [Out.pure_eq, Out.ok.injEq, Prod.mk.injEq] at h; omega
    · rw [hk] at h; simp only [] at h
      split at h
      · cases h
      · simp only [Out.pure_eq, Out.ok.injEq, Prod.mk.injEq] at h; omega
    · rw [hk] at h; simp only [Out.pure_eq, Out.ok.injEq, Prod.mk.injEq] at h; omega

theorem readTypes_ok (d : Bytes) (k pos : Nat) (h : pos + 2 * k ≤ d.length) :
    ∃ ts, readTypes d k pos = .ok ts ∧ ts.length = k := by
  induction k generalizing pos with
  | zero => exact ⟨[], rfl, rfl⟩
  | succ k ih =>
    obtain ⟨x, hx⟩ := goIndex_ne_panic_of_lt d pos (by omega)
    obtain ⟨ts, hts, hl⟩ := ih (pos + 2) (by omega)
    exact ⟨x.toNat :: ts, by simp [readTypes, hx, hts], by simp [hl]⟩

theorem readVals_no_panic (fo : FloatOps) (d bitmap : Bytes) (ts : List Nat) (i pos : Nat) (hpos : pos ≤ d.length)
    (hb : i + ts.length ≤ 8 * bitmap.length) : readVals fo d bitmap ts i pos ≠ .panic := by
  induction ts generalizing i pos with
  | nil => simp [readVals]
  | cons t ts ih =>
    simp only [List.length_cons] at hb
    rw [readVals]
    have hnull : ∃ bnull : Bool, (if bitmap.length > 0 then do
        let b ← goIndex bitmap (i / 8)
        pure (decide ((b.toNat >>> (i % 8)) % 2 = 1))
      else pure false : Out Bool) = .ok bnull := by
      split
      · obtain ⟨b, hbx⟩ := goIndex_ne_panic_of_lt bitmap (i / 8) (by omega)
        exact ⟨decide ((b.toNat >>> (i % 8)) % 2 = 1), by rw [hbx]; rfl⟩
      · exact ⟨false, rfl⟩
    obtain ⟨bnull, hbn⟩ := hnull
    rw [hbn]
    simp only [Out.bind_ok]
    cases bnull with
    | true =>
      simp only [if_true]
      cases hr : readVals fo d bitmap ts (i + 1) pos with
      | panic => exact absurd hr (ih _ _ hpos (by omega))
      | err => simp
      | ok x => simp
    | false =>
      simp only [Bool.false_eq_true, if_false]
      rw [goSliceFrom_ok_of_le _ _ hpos]
      simp only [Out.bind_ok]
      cases hv : newBoundValue fo (d.drop pos) t with
      | panic => exact absurd hv (newBoundValue_no_panic _ _ _)
      | err => simp
      | ok x =>
        obtain ⟨v, n⟩ := x
        have hn := newBoundValue_le fo _ t v n hv
        rw [List.length_drop] at hn
        simp only [Out.bind_ok]
        cases hr : readVals fo d bitmap ts (i + 1) (pos + n) with
        | panic => exact absurd hr (ih _ _ (by omega) (by omega))
        | err => simp
        | ok y => simp

theorem hdrLen_eq : hdrLen = 10 := rfl

/-- **`GetBindParameters` never panics**, whatever the packet and the parameter count (true since `fix:` 11). -/
theorem getBindParameters_no_panic (fo : FloatOps) (d : Bytes) (paramNum : Nat) :
    getBindParameters fo d paramNum ≠ .panic := by
  unfold getBindParameters
  split
  · simp
  · next hn =>
    simp only []
    split
    · simp
    · next hg =>
      have hnbl : 0 < (paramNum + 7) / 8 := by omega
      rw [if_pos hnbl, goSlice_ok_of_le _ _ _ (by omega) (by omega)]
      simp only [Out.bind_ok]
      obtain ⟨fl, hfl⟩ := goIndex_ne_panic_of_lt d (hdrLen + (paramNum + 7) / 8) (by omega)
      rw [hfl]
      simp only [Out.bind_ok]
      split
      · simp
      · split
        · simp
        · next hg2 =>
          obtain ⟨ts, hts, hl⟩ := readTypes_ok d paramNum (hdrLen + (paramNum + 7) / 8 + 1) (by omega)
          rw [hts]
          simp only [Out.bind_ok]
          have hbl : ((d.take (hdrLen + (paramNum + 7) / 8)).drop hdrLen).length = (paramNum + 7) / 8 := by
            simp only [List.length_drop, List.length_take]; omega
          cases hr : readVals fo d ((d.take (hdrLen + (paramNum + 7) / 8)).drop hdrLen) ts 0
              (hdrLen + (paramNum + 7) / 8 + 1 + 2 * paramNum) with
          | panic => exact absurd hr (readVals_no_panic _ _ _ _ _ _ (by omega) (by rw [hbl, hl]; omega))
          | err => simp
          | ok x => simp

/-! ## E. frame of a rewritten packet -/

/-- **What `SetParameters` keeps.** When it succeeds the new payload starts with the first `10 + (n+7)/8 + 1` bytes of
the received one – command byte, statement id, flags, iteration count, NULL bitmap and new-params-bound flag are
byte-identical – followed by two bytes per parameter and the encoded values of the non-NULL parameters; the header
declares the new payload length (below 2^24-1) and keeps the sequence id. -/
theorem setParameters_frame (fo : FloatOps) (p p' : Packet) (vs : List BoundValue) (hne : vs ≠ [])
    (h : setParameters fo p vs = .ok p') :
    ∃ types vals, setTypes p.data vs (hdrLen + ((vs.length + 7) >>> 3) + 1) = .ok types ∧ encodeVals fo vs = .ok vals ∧
      p'.data = p.data.take (hdrLen + ((vs.length + 7) >>> 3) + 1) ++ types ++ vals ∧
      hdrLen + ((vs.length + 7) >>> 3) + 1 ≤ p.data.length ∧
      p'.header = updatePacketSize p.header p'.data.length := by
  unfold setParameters at h
  have hl : ¬ vs.length = 0 := by
    intro h0; exact hne (List.length_eq_zero_iff.mp h0)
  rw [if_neg hl] at h
  simp only [] at h
  unfold goSlice at h
  split at h
  · next hc =>
    simp only [Out.bind_ok, List.drop_zero] at h
    cases ht : setTypes p.data vs (hdrLen + ((vs.length + 7) >>> 3) + 1) with
    | panic => simp [ht] at h
    | err => simp [ht] at h
    | ok types =>
      simp only [ht, Out.bind_ok] at h
      cases hv : encodeVals fo vs with
      | panic => simp [hv] at h
      | err => simp [hv] at h
      | ok vals =>
        simp only [hv, Out.bind_ok, Out.pure_eq, Out.ok.injEq] at h
        subst h
        exact ⟨types, vals, rfl, rfl, rfl, hc.2, rfl⟩
  · simp at h

theorem setTypes_length (d : Bytes) (vs : List BoundValue) (pos : Nat) (types : Bytes) (h : setTypes d vs pos = .ok types) :
    types.length = 2 * vs.length := by
  induction vs generalizing pos types with
  | nil => simp only [setTypes, Out.ok.injEq] at h; subst h; rfl
  | cons v vs ih =>
    rw [setTypes] at h
    cases h1 : goSlice d pos (pos + 2) with
    | panic => simp [h1] at h
    | err => simp [h1] at h
    | ok pt =>
      simp only [h1, Out.bind_ok] at h
      generalize hfl : (if Generated.Wire.mySignFlagTypes.contains v.paramType = true then
          match v.data with
          | none => (pure ((pt.drop 1).headD 0) : Out UInt8)
          | some data =>
            match parseInt 64 data with
            | none => Out.err
            | some i => pure (if i < 0 then UInt8.ofNat Generated.Wire.mySignedBinaryValue
                              else UInt8.ofNat Generated.Wire.myUnsignedBinaryValue)
        else pure ((pt.drop 1).headD 0)) = fl at h
      cases fl with
      | panic => simp at h
      | err => simp at h
      | ok f =>
        simp only [Out.bind_ok] at h
        cases h2 : setTypes d vs (pos + 2) with
        | panic => simp [h2] at h
        | err => simp [h2] at h
        | ok rest =>
          simp only [h2, Out.bind_ok, Out.pure_eq, Out.ok.injEq] at h
          subst h
          simp [ih _ _ h2]; omega

end AcraModel.Wire.My

namespace AcraModel.Wire.My
open AcraModel AcraModel.Wire.LenEnc AcraModel.Wire.LenEnc.Proofs

/-! ## F. the whole rewrite never panics -/

theorem readVals_length (fo : FloatOps) (d bitmap : Bytes) (ts : List Nat) (i pos : Nat) (vs : List BoundValue)
    (h : readVals fo d bitmap ts i pos = .ok vs) : vs.length = ts.length := by
  induction ts generalizing i pos vs with
  | nil => simp only [readVals, Out.ok.injEq] at h; subst h; rfl
  | cons t ts ih =>
    rw [readVals] at h
    generalize (if bitmap.length > 0 then do
        let b ← goIndex bitmap (i / 8)
        pure (decide ((b.toNat >>> (i % 8)) % 2 = 1))
      else pure false : Out Bool) = nb at h
    cases nb with
    | panic => simp at h
    | err => simp at h
    | ok bn =>
      simp only [Out.bind_ok] at h
      cases bn with
      | true =>
        simp only [if_true] at h
        cases hr : readVals fo d bitmap ts (i + 1) pos with
        | panic => simp [hr] at h
        | err => simp [hr] at h
        | ok rest =>
          simp only [hr, Out.bind_ok, Out.pure_eq, Out.ok.injEq] at h
          subst h; simp [ih _ _ _ hr]
      | false =>
        simp only [Bool.false_eq_true, if_false] at h
        cases hs : goSliceFrom d pos with
        | panic => simp [hs] at h
        | err => simp [hs] at h
        | ok tail =>
          simp only [hs, Out.bind_ok] at h
          cases hv : newBoundValue fo tail t with
          | panic => simp [hv] at h
          | err => simp [hv] at h
          | ok x =>
            obtain ⟨v, n⟩ := x
            simp only [hv, Out.bind_ok] at h
            cases hr : readVals fo d bitmap ts (i + 1) (pos + n) with
            | panic => simp [hr] at h
            | err => simp [hr] at h
            | ok rest =>
              simp only [hr, Out.bind_ok, Out.pure_eq, Out.ok.injEq] at h
              subst h; simp [ih _ _ _ hr]

/-- when `GetBindParameters` returns values there is one per parameter and the packet holds the whole type list -/
theorem getBindParameters_some (fo : FloatOps) (d : Bytes) (n : Nat) (vs : List BoundValue) (hn : 0 < n)
    (h : getBindParameters fo d n = .ok (some vs)) :
    vs.length = n ∧ hdrLen + (n + 7) / 8 + 1 + 2 * n ≤ d.length := by
  unfold getBindParameters at h
  rw [if_neg (by omega)] at h
  simp only [] at h
  split at h
  · cases h
  · next hg =>
    have hnbl : (n + 7) / 8 > 0 := by omega
    rw [if_pos hnbl, goSlice_ok_of_le _ _ _ (by omega) (by omega)] at h
    obtain ⟨fl, hf⟩ := goIndex_ne_panic_of_lt d (hdrLen + (n + 7) / 8) (by omega)
    rw [hf] at h
    simp only [Out.bind_ok] at h
    split at h
    · cases h
    · split at h
      · cases h
      · next hg2 =>
        obtain ⟨ts, hts, hl⟩ := readTypes_ok d n (hdrLen + (n + 7) / 8 + 1) (by omega)
        rw [hts] at h
        simp only [Out.bind_ok] at h
        cases hr : readVals fo d ((d.take (hdrLen + (n + 7) / 8)).drop hdrLen) ts 0 (hdrLen + (n + 7) / 8 + 1 + 2 * n) with
        | panic => simp [hr] at h
        | err => simp [hr] at h
        | ok vals =>
          simp only [hr, Out.bind_ok, Out.pure_eq, Out.ok.injEq, Option.some.injEq] at h
          subst h
          exact ⟨by rw [readVals_length _ _ _ _ _ _ _ hr, hl], by omega⟩

theorem transformVals_length (g : Nat → Bytes → Out Bytes) (vs : List BoundValue) (i : Nat) (vs' : List BoundValue)
    (h : transformVals g vs i = .ok vs') : vs'.length = vs.length := by
  induction vs generalizing i vs' with
  | nil => simp only [transformVals, Out.ok.injEq] at h; subst h; rfl
  | cons v vs ih =>
    rw [transformVals] at h
    have key : ∀ (r : Out BoundValue), (r >>= fun v' => do
        let rest ← transformVals g vs (i + 1)
        pure (v' :: rest)) = .ok vs' → vs'.length = (v :: vs).length := by
      intro r hr0
      cases r with
      | panic => simp at hr0
      | err => simp at hr0
      | ok v' =>
        simp only [Out.bind_ok] at hr0
        cases hr : transformVals g vs (i + 1) with
        | panic => simp [hr] at hr0
        | err => simp [hr] at hr0
        | ok rest =>
          simp only [hr, Out.bind_ok, Out.pure_eq, Out.ok.injEq] at hr0
          subst hr0; simp [ih _ _ hr]
    exact key _ h

theorem transformVals_no_panic (g : Nat → Bytes → Out Bytes) (hg : ∀ i d, g i d ≠ .panic) (vs : List BoundValue) (i : Nat) :
    transformVals g vs i ≠ .panic := by
  induction vs generalizing i with
  | nil => simp [transformVals]
  | cons v vs ih =>
    rw [transformVals]
    cases hd : v.data with
    | none =>
      simp only [Out.pure_eq, Out.bind_ok]
      cases hr : transformVals g vs (i + 1) with
      | panic => exact absurd hr (ih _)
      | err => simp
      | ok x => simp
    | some d =>
      simp only []
      cases hgd : g i d with
      | panic => exact absurd hgd (hg i d)
      | err => simp
      | ok d' =>
        simp only [Out.bind_ok, Out.pure_eq]
        cases hr : transformVals g vs (i + 1) with
        | panic => exact absurd hr (ih _)
        | err => simp
        | ok x => simp

theorem setTypes_no_panic (d : Bytes) (vs : List BoundValue) (pos : Nat) (h : pos + 2 * vs.length ≤ d.length) :
    setTypes d vs pos ≠ .panic := by
  induction vs generalizing pos with
  | nil => simp [setTypes]
  | cons v vs ih =>
    simp only [List.length_cons] at h
    rw [setTypes, goSlice_ok_of_le _ _ _ (by omega) (by omega)]
    simp only [Out.bind_ok]
    have hfl : ∀ x : Out UInt8, x ≠ .panic → (x >>= fun flag => do
        let rest ← setTypes d vs (pos + 2)
        pure (UInt8.ofNat v.paramType :: flag :: rest)) ≠ .panic := by
      intro x hx
      cases x with
      | panic => exact absurd rfl hx
      | err => simp
      | ok f =>
        simp only [Out.bind_ok]
        cases hr : setTypes d vs (pos + 2) with
        | panic => exact absurd hr (ih _ (by omega))
        | err => simp
        | ok r => simp
    apply hfl
    split
    · cases v.data with
      | none => simp
      | some data => simp only []; cases parseInt 64 data <;> simp
    · simp

theorem encode_no_panic (fo : FloatOps) (v : BoundValue) : v.encode fo ≠ .panic := by
  unfold BoundValue.encode
  cases storageBytes v.paramType with
  | none => simp
  | some sb =>
    simp only []
    cases encodeKind v.paramType with
    | none => simp
    | some k =>
      cases k with
      | null => simp only []; split <;> simp
      | int w => simp only []; cases parseInt (8 * w) (v.data.getD []) <;> simp
      | float w => simp only []; cases fo.parse w (v.data.getD []) <;> simp

theorem encodeVals_no_panic (fo : FloatOps) (vs : List BoundValue) : encodeVals fo vs ≠ .panic := by
  induction vs with
  | nil => simp [encodeVals]
  | cons v vs ih =>
    rw [encodeVals]
    cases v.data with
    | none => exact ih
    | some _ =>
      simp only []
      cases he : v.encode fo with
      | panic => exact absurd he (encode_no_panic fo v)
      | err => simp
      | ok e =>
        simp only [Out.bind_ok]
        cases hr : encodeVals fo vs with
        | panic => exact absurd hr ih
        | err => simp
        | ok r => simp

/-- **The COM_STMT_EXECUTE rewrite never panics**: for every packet, parameter count and (non-panicking) observer. -/
theorem rewriteExecute_no_panic (fo : FloatOps) (g : Nat → Bytes → Out Bytes) (hg : ∀ i d, g i d ≠ .panic)
    (p : Packet) (n : Nat) : rewriteExecute fo g p n ≠ .panic := by
  unfold rewriteExecute
  cases hb : getBindParameters fo p.data n with
  | panic => exact absurd hb (getBindParameters_no_panic _ _ _)
  | err => simp
  | ok o =>
    simp only [Out.bind_ok]
    cases o with
    | none => simp
    | some vs =>
      simp only []
      cases ht : transformVals g vs 0 with
      | panic => exact absurd ht (transformVals_no_panic g hg _ _)
      | err => simp
      | ok vs' =>
        simp only [Out.bind_ok]
        have hl := transformVals_length g vs 0 vs' ht
        have hsp : setParameters fo p vs' ≠ .panic := by
          unfold setParameters
          split
          · simp
          · next hne =>
            have hn : 0 < n := by
              cases n with
              | zero =>
                simp only [getBindParameters, if_true, Out.ok.injEq, Option.some.injEq] at hb
                subst hb; exact absurd hl hne
              | succ k => omega
            obtain ⟨hvl, hlen⟩ := getBindParameters_some fo p.data n vs hn hb
            have hsh : (vs'.length + 7) >>> 3 = (n + 7) / 8 := by
              rw [hl, hvl, Nat.shiftRight_eq_div_pow]
            simp only []
            rw [hsh, goSlice_ok_of_le _ _ _ (by omega) (by omega)]
            simp only [Out.bind_ok]
            cases hst : setTypes p.data vs' (hdrLen + (n + 7) / 8 + 1) with
            | panic => exact absurd hst (setTypes_no_panic _ _ _ (by rw [hl, hvl]; omega))
            | err => simp
            | ok types =>
              simp only [Out.bind_ok]
              cases hev : encodeVals fo vs' with
              | panic => exact absurd hev (encodeVals_no_panic fo vs')
              | err => simp
              | ok vals => simp
        cases hs : setParameters fo p vs' with
        | panic => exact absurd hs hsp
        | err => simp
        | ok p' => simp

end AcraModel.Wire.My
