import AcraModel.Wire.LenEnc
import AcraModel.Wire.MysqlPacket
/-
MySQL result-set rows: model of `processTextDataRow`, `processBinaryDataRow`, `extractData`
(decryptor/mysql/response_proxy.go) and the specification codecs of text and binary rows.

The subscriber chain is a function `g i value` returning the *already encoded* replacement (in the
real proxy the last subscriber, `DataEncoderProcessor`, produces the length-encoded / fixed-width form).
-/
namespace AcraModel.Wire.My
open AcraModel AcraModel.Wire.LenEnc

/-- `processTextDataRow`: one length-encoded string per field; NULL markers are copied, every other
value is replaced by what the subscribers return -/
def processTextRow (g : Nat → Bytes → Out Bytes) : Nat → Nat → Bytes → Nat → Bytes → Out Bytes
  | 0, _, _, _, out => .ok out
  | k+1, i, row, pos, out => do
    let rest ← goSliceFrom row pos
    let (value, n) ← lengthEncodedString rest
    match value with
    | none => do
      let raw ← goSlice row pos (pos + n)
      processTextRow g k (i+1) row (pos + n) (out ++ raw)
    | some v => do
      let v' ← g i v
      processTextRow g k (i+1) row (pos + n) (out ++ v')

/-- `processTextDataRow(ctx, rowData, fields)` for `nfields` fields -/
def textRow (g : Nat → Bytes → Out Bytes) (nfields : Nat) (row : Bytes) : Out Bytes :=
  processTextRow g nfields 0 row 0 []

/-- how `extractData` reads a value of a (type-code) column: fixed width or length-encoded -/
inductive Width where
  | fixed (k : Nat)
  | lenenc
  | unknown
deriving Repr, DecidableEq

def widthOf (typ : Nat) : Width :=
  match Generated.Wire.myExtractFixed.find? (·.1 = typ) with
  | some (_, k) => .fixed k
  | none => if Generated.Wire.myExtractLenEnc.contains typ then .lenenc else .unknown

/-- `extractData(pos, rowData, field)`; `typ` is the type the value is stored under
(`originType` when the description was changed) -/
def extractData (typ : Nat) (row : Bytes) (pos : Nat) : Out (Bytes × Nat) :=
  match widthOf typ with
  | .fixed k =>
    -- a fixed-width value must lie inside the row (`ErrMalformPacket`, after the `fix:`)
    if pos > row.length ∨ k > row.length - pos then .err else do
    let v ← goSlice row pos (pos + k)
    pure (v, k)
  | .lenenc =>
    if pos > row.length then .err else do
    let rest ← goSliceFrom row pos
    let (v, n) ← lengthEncodedString rest
    pure (v.getD [], n)
  | .unknown => .err

def bitSet (bitmap : Bytes) (j : Nat) : Bool :=
  match bitmap[j / 8]? with
  | some b => (b.toNat >>> (j % 8)) % 2 = 1
  | none => false

def processBinCols (g : Nat → Bytes → Out Bytes) (bitmap : Bytes) (row : Bytes) : List Nat → Nat → Nat → Bytes → Out Bytes
  | [], _, _, out => .ok out
  | t :: ts, i, pos, out =>
    -- nullBitmap[(i+2)/8] : index panics when the bitmap is too short (cannot happen: its length is derived from the field count)
    if (i + 2) / 8 ≥ bitmap.length then .panic
    else if bitSet bitmap (i + 2) then processBinCols g bitmap row ts (i+1) pos out
    else do
      let (v, n) ← extractData t row pos
      let v' ← g i v
      processBinCols g bitmap row ts (i+1) (pos + n) (out ++ v')

/-- `processBinaryDataRow(ctx, rowData, fields)`; `types` are the storage types of the fields -/
def binRow (g : Nat → Bytes → Out Bytes) (types : List Nat) (row : Bytes) : Out Bytes :=
  -- an empty row, or one without room for the NULL bitmap, is malformed (after the `fix:`)
  if row.length = 0 ∨ row.length < 1 + ((types.length + 7 + 2) >>> 3) then
    (if row.length = 0 then .err
     else match row.head? with
      | some b0 => if b0.toNat = Generated.Wire.myEOFPacket then .ok row else .err
      | none => .err)
  else do
  let b0 ← goIndex row 0
  if b0.toNat = Generated.Wire.myEOFPacket then pure row
  else if b0.toNat ≠ Generated.Wire.myOkPacket then .err
  else do
    let pos := 1 + ((types.length + 7 + 2) >>> 3)
    let bitmap ← goSlice row 1 pos
    let head ← goSlice row 0 pos
    processBinCols g bitmap row types 0 pos head

/-! ### specification codecs -/

abbrev Row := List (Option Bytes)

/-- text protocol row: every value a length-encoded string, NULL = 0xfb -/
def encodeTextRow (r : Row) : Bytes := r.flatMap putLengthEncodedString

def decodeTextRow : Nat → Bytes → Option Row
  | 0, [] => some []
  | 0, _ :: _ => none
  | n+1, s =>
    match lengthEncodedString s with
    | .ok (v, k) => (decodeTextRow n (s.drop k)).map (v :: ·)
    | _ => none

/-- the NULL bitmap of a binary row: bit `i+2` set iff value `i` is NULL -/
def nullBitmap (r : Row) : Bytes :=
  let nbytes := (r.length + 7 + 2) / 8
  (List.range nbytes).map fun byte =>
    UInt8.ofNat ((List.range 8).foldl (fun acc bit =>
      let j := byte * 8 + bit
      if j ≥ 2 ∧ (r[j - 2]? = some none) then acc + 2^bit else acc) 0)

/-- encoding of one non-NULL binary value under a type: fixed-width bytes as they are, otherwise length-encoded -/
def encodeBinVal (typ : Nat) (v : Bytes) : Bytes :=
  match widthOf typ with
  | .fixed _ => v
  | _ => putLengthEncodedString (some v)

def encodeBinVals : List Nat → Row → Bytes
  | t :: ts, some v :: r => encodeBinVal t v ++ encodeBinVals ts r
  | _ :: ts, none :: r => encodeBinVals ts r
  | _, _ => []

/-- binary protocol row: 0x00, NULL bitmap (offset 2), then the non-NULL values -/
def encodeBinRow (types : List Nat) (r : Row) : Bytes :=
  [0] ++ nullBitmap r ++ encodeBinVals types r

def decodeBinVals (bitmap : Bytes) : List Nat → Nat → Bytes → Option Row
  | [], _, [] => some []
  | [], _, _ :: _ => none
  | t :: ts, i, s =>
    if bitSet bitmap (i + 2) then (decodeBinVals bitmap ts (i+1) s).map (none :: ·)
    else match widthOf t with
      | .fixed k => if s.length < k then none else (decodeBinVals bitmap ts (i+1) (s.drop k)).map (some (s.take k) :: ·)
      | .lenenc =>
        match lengthEncodedString s with
        | .ok (some v, n) => (decodeBinVals bitmap ts (i+1) (s.drop n)).map (some v :: ·)
        | _ => none
      | .unknown => none

def decodeBinRow (types : List Nat) (b : Bytes) : Option Row :=
  let nb := (types.length + 7 + 2) / 8
  match b with
  | x :: rest =>
    if x.toNat ≠ 0 ∨ rest.length < nb then none
    else decodeBinVals (rest.take nb) types 0 (rest.drop nb)
  | [] => none

end AcraModel.Wire.My
