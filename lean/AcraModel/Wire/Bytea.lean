import AcraModel.Basic.Bytes
/-
PostgreSQL bytea text codecs: model of `utils/dbByteArrayEncoders.go` (`EncodeToOctal`, `DecodeOctal`,
`PgEncodeToHex`, `DecodeEscaped`), of `encoding/hex` as far as they use it, and of the parts of Go's
UTF-8 handling `DecodeOctal` depends on (`[]rune(string)`, `utf8.EncodeRune`, `unicode.IsControl`).
-/
namespace AcraModel.Wire.Bytea
open AcraModel

/-! ### encoding/hex -/

def hexChar (n : Nat) : UInt8 := UInt8.ofNat (if n < 10 then 48 + n else 87 + n)

/-- `hex.Encode` (lower case) -/
def hexEncode : Bytes → Bytes
  | [] => []
  | b :: r => hexChar (b.toNat / 16) :: hexChar (b.toNat % 16) :: hexEncode r

def fromHexChar (c : UInt8) : Option Nat :=
  let n := c.toNat
  if 48 ≤ n ∧ n ≤ 57 then some (n - 48)
  else if 97 ≤ n ∧ n ≤ 102 then some (n - 87)
  else if 65 ≤ n ∧ n ≤ 70 then some (n - 55)
  else none

/-- `hex.Decode`: `none` on an invalid digit or an odd length -/
def hexDecode : Bytes → Option Bytes
  | [] => some []
  | [_] => none
  | a :: b :: r => do
    let x ← fromHexChar a
    let y ← fromHexChar b
    let rest ← hexDecode r
    pure (UInt8.ofNat (16 * x + y) :: rest)

/-! ### Go's UTF-8 decoding (`[]rune(s)`) and encoding (`utf8.EncodeRune`) -/

def runeError : Nat := 0xFFFD

def isCont (b : UInt8) : Bool := 0x80 ≤ b.toNat ∧ b.toNat ≤ 0xBF

/-- `utf8.DecodeRune` on a non-empty input: (rune, width); invalid encodings give (U+FFFD, 1) -/
def decodeRune : Bytes → Nat × Nat
  | [] => (runeError, 0)
  | b0 :: r =>
    let x := b0.toNat
    if x < 0x80 then (x, 1)
    else if 0xC2 ≤ x ∧ x ≤ 0xDF then
      match r with
      | b1 :: _ => if isCont b1 then ((x % 32) * 64 + b1.toNat % 64, 2) else (runeError, 1)
      | _ => (runeError, 1)
    else if 0xE0 ≤ x ∧ x ≤ 0xEF then
      match r with
      | b1 :: b2 :: _ =>
        let lo := if x = 0xE0 then 0xA0 else 0x80
        let hi := if x = 0xED then 0x9F else 0xBF
        if lo ≤ b1.toNat ∧ b1.toNat ≤ hi ∧ isCont b2 then ((x % 16) * 4096 + (b1.toNat % 64) * 64 + b2.toNat % 64, 3)
        else (runeError, 1)
      | _ => (runeError, 1)
    else if 0xF0 ≤ x ∧ x ≤ 0xF4 then
      match r with
      | b1 :: b2 :: b3 :: _ =>
        let lo := if x = 0xF0 then 0x90 else 0x80
        let hi := if x = 0xF4 then 0x8F else 0xBF
        if lo ≤ b1.toNat ∧ b1.toNat ≤ hi ∧ isCont b2 ∧ isCont b3 then
          ((x % 8) * 262144 + (b1.toNat % 64) * 4096 + (b2.toNat % 64) * 64 + b3.toNat % 64, 4)
        else (runeError, 1)
      | _ => (runeError, 1)
    else (runeError, 1)

/-- `[]rune(string(data))` -/
def toRunes (s : Bytes) : List Nat :=
  match s with
  | [] => []
  | b :: r =>
    let (c, w) := decodeRune (b :: r)
    c :: toRunes ((b :: r).drop (max w 1))
termination_by s.length
decreasing_by simp only [List.length_drop, List.length_cons]; omega

/-- `utf8.EncodeRune` -/
def encodeRune (c : Nat) : Bytes :=
  if c < 0x80 then [UInt8.ofNat c]
  else if c < 0x800 then [UInt8.ofNat (0xC0 + c / 64), UInt8.ofNat (0x80 + c % 64)]
  else if (0xD800 ≤ c ∧ c ≤ 0xDFFF) ∨ c > 0x10FFFF then [0xEF, 0xBF, 0xBD]
  else if c < 0x10000 then [UInt8.ofNat (0xE0 + c / 4096), UInt8.ofNat (0x80 + c / 64 % 64), UInt8.ofNat (0x80 + c % 64)]
  else [UInt8.ofNat (0xF0 + c / 262144), UInt8.ofNat (0x80 + c / 4096 % 64), UInt8.ofNat (0x80 + c / 64 % 64), UInt8.ofNat (0x80 + c % 64)]

/-- `unicode.IsControl` (category Cc lies inside Latin-1) -/
def isControl (c : Nat) : Bool := c ≤ 0x1F ∨ (0x7F ≤ c ∧ c ≤ 0x9F)

/-! ### Acra's codecs -/

/-- `IsPrintableEscapeChar` -/
def isPrintable (c : UInt8) : Bool := 32 ≤ c.toNat ∧ c.toNat ≤ 126

/-- `EncodeToOctal` -/
def encodeToOctal : Bytes → Bytes
  | [] => []
  | c :: r =>
    if c.toNat = 92 then 92 :: 92 :: encodeToOctal r
    else if ¬ isPrintable c then
      92 :: UInt8.ofNat (48 + c.toNat / 64) :: UInt8.ofNat (48 + c.toNat / 8 % 8) :: UInt8.ofNat (48 + c.toNat % 8) :: encodeToOctal r
    else c :: encodeToOctal r

def octDigit (c : Nat) : Option Nat := if 48 ≤ c ∧ c ≤ 55 then some (c - 48) else none

/-- the loop of `DecodeOctal` over the runes of the input -/
def decodeOctalRunes : List Nat → Option Bytes
  | [] => some []
  | ch :: rest =>
    if isControl ch then none
    else if ch ≠ 92 then (decodeOctalRunes rest).map (encodeRune ch ++ ·)
    else
      match rest with
      | [] => none                                   -- `i >= len(text)-1`
      | 92 :: rest' => (decodeOctalRunes rest').map (92 :: ·)
      | d1 :: d2 :: d3 :: rest' =>                   -- `i+3 < len(text)`
        match octDigit d1, octDigit d2, octDigit d3 with
        | some a, some b, some c =>
          -- `b = (b << 3) | digit` on a `byte`
          (decodeOctalRunes rest').map (UInt8.ofNat ((((a * 8) % 256 + b) * 8) % 256 + c) :: ·)
        | _, _, _ => none
      | _ => none

/-- `DecodeOctal` -/
def decodeOctal (data : Bytes) : Option Bytes := decodeOctalRunes (toRunes data)

/-- `PgEncodeToHex` -/
def pgEncodeToHex (data : Bytes) : Bytes := 92 :: 120 :: hexEncode data

inductive EscErr where
  | hex      -- error of `hex.Decode`
  | octal    -- `ErrDecodeOctalString`
deriving Repr, DecidableEq

/-- `DecodeEscaped`: hex after a `\x` prefix, octal otherwise -/
def decodeEscaped (data : Bytes) : Except EscErr Bytes :=
  match data with
  | 92 :: 120 :: h =>
    match hexDecode h with
    | some b => .ok b
    | none => .error .hex
  | _ =>
    match decodeOctal data with
    | some b => .ok b
    | none => .error .octal

end AcraModel.Wire.Bytea
