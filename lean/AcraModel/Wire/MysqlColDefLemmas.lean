import AcraModel.Wire.MysqlColDef
import AcraModel.Wire.MysqlLemmas
/-! Lemmas about the MySQL column definition model (`Wire/MysqlColDef.lean`): no panic, round trip, re-typing. -/
namespace AcraModel.Wire.My
open AcraModel AcraModel.Wire.LenEnc AcraModel.Wire.LenEnc.Proofs

/-! ## A. no panic -/

theorem skip_le (data : Bytes) (n : Nat) (h : skipLengthEncodedString data = .ok n) : n ≤ data.length := by
  unfold skipLengthEncodedString at h
  cases hr : lengthEncodedInt data with
  | panic => simp [hr] at h
  | err => simp [hr] at h
  | ok res =>
    have hp := lenenc_int_progress data res hr
    simp only [hr, Out.bind_ok] at h
    split at h
    · cases h; exact hp.2
    · split at h
      · cases h
      · cases h; omega

theorem strAt_no_panic (d : Bytes) (pos : Nat) (h : pos ≤ d.length) : strAt d pos ≠ .panic := by
  unfold strAt
  rw [goSliceFrom_ok_of_le _ _ h]
  exact lenenc_str_no_panic _

theorem strAt_le (d : Bytes) (pos : Nat) (v : Option Bytes) (n : Nat) (h : pos ≤ d.length)
    (hr : strAt d pos = .ok (v, n)) : pos + n ≤ d.length := by
  unfold strAt at hr
  rw [goSliceFrom_ok_of_le _ _ h] at hr
  have := (lenenc_str_progress _ v n hr).2
  rw [List.length_drop] at this
  omega

theorem readStrs_no_panic (d : Bytes) (k pos : Nat) (h : pos ≤ d.length) : readStrs d k pos ≠ .panic := by
  induction k generalizing pos with
  | zero => simp [readStrs]
  | succ k ih =>
    rw [readStrs]
    cases hr : strAt d pos with
    | panic => exact absurd hr (strAt_no_panic d pos h)
    | err => simp
    | ok x =>
      obtain ⟨v, n⟩ := x
      have hn := strAt_le d pos v n h hr
      simp only [Out.bind_ok]
      cases hk : readStrs d k (pos + n) with
      | panic => exact absurd hk (ih _ hn)
      | err => simp
      | ok y => obtain ⟨vs, p'⟩ := y; simp

theorem readStrs_le (d : Bytes) (k pos : Nat) (vs : List (Option Bytes)) (pos' : Nat) (h : pos ≤ d.length)
    (hr : readStrs d k pos = .ok (vs, pos')) : pos' ≤ d.length := by
  induction k generalizing pos vs with
  | zero => simp only [readStrs, Out.ok.injEq, Prod.mk.injEq] at hr; omega
  | succ k ih =>
    rw [readStrs] at hr
    cases hs : strAt d pos with
    | panic => simp [hs] at hr
    | err => simp [hs] at hr
    | ok x =>
      obtain ⟨v, n⟩ := x
      have hn := strAt_le d pos v n h hs
      simp only [hs, Out.bind_ok] at hr
      cases hk : readStrs d k (pos + n) with
      | panic => simp [hk] at hr
      | err => simp [hk] at hr
      | ok y =>
        obtain ⟨vs', p'⟩ := y
        simp only [hk, Out.bind_ok, Out.pure_eq, Out.ok.injEq, Prod.mk.injEq] at hr
        obtain ⟨_, hp⟩ := hr
        subst hp
        exact ih (pos + n) vs' hn hk

theorem readExt_no_panic (d : Bytes) (pos : Nat) : readExt d pos ≠ .panic := by
  unfold readExt
  split
  · simp
  · next hlt =>
    have hlt : pos < d.length := by omega
    obtain ⟨b, hb⟩ := goIndex_ne_panic_of_lt d pos hlt
    simp only [hb, Out.bind_ok]
    split
    · simp
    · rw [goSliceFrom_ok_of_le _ _ (by omega)]
      simp only [Out.bind_ok]
      cases hr : lengthEncodedInt (d.drop pos) with
      | panic => exact absurd hr (lenenc_int_no_panic _)
      | err => simp
      | ok r =>
        have hp := lenenc_int_progress _ r hr
        rw [List.length_drop] at hp
        simp only [Out.bind_ok]
        split
        · simp
        · next hg =>
          rw [goSlice_ok_of_le _ _ _ (by omega) (by omega)]
          simp

theorem readExt_le (d : Bytes) (pos : Nat) (e : Bytes) (pos' : Nat) (hr : readExt d pos = .ok (e, pos')) :
    pos' ≤ d.length := by
  unfold readExt at hr
  split at hr
  · cases hr
  · next hlt =>
    have hlt : pos < d.length := by omega
    obtain ⟨b, hb⟩ := goIndex_ne_panic_of_lt d pos hlt
    simp only [hb, Out.bind_ok] at hr
    split at hr
    · simp only [Out.pure_eq, Out.ok.injEq, Prod.mk.injEq] at hr; omega
    · rw [goSliceFrom_ok_of_le _ _ (by omega)] at hr
      simp only [Out.bind_ok] at hr
      cases hi : lengthEncodedInt (d.drop pos) with
      | panic => simp [hi] at hr
      | err => simp [hi] at hr
      | ok r =>
        have hp := lenenc_int_progress _ r hi
        rw [List.length_drop] at hp
        simp only [hi, Out.bind_ok] at hr
        split at hr
        · cases hr
        · next hg =>
          rw [goSlice_ok_of_le _ _ _ (by omega) (by omega)] at hr
          simp only [Out.bind_ok, Out.pure_eq, Out.ok.injEq, Prod.mk.injEq] at hr
          omega

theorem leAt_no_panic (d : Bytes) (pos k : Nat) (h : pos + k ≤ d.length) : ∃ v, leAt d pos k = .ok v := by
  unfold leAt
  rw [goSliceFrom_ok_of_le _ _ (by omega)]
  simp only [Out.bind_ok]
  rw [if_neg (by rw [List.length_drop]; omega)]
  exact ⟨_, rfl⟩

theorem fixedBlockLen_eq : fixedBlockLen = 13 := rfl

theorem readFixedBlock_ok (d : Bytes) (pos : Nat) (h : pos + 13 ≤ d.length) :
    ∃ cs cl ty fl dc, readFixedBlock d pos = .ok (cs, cl, ty, fl, dc, pos + 13) := by
  unfold readFixedBlock
  obtain ⟨cs, h1⟩ := leAt_no_panic d (pos + 1) 2 (by omega)
  obtain ⟨cl, h2⟩ := leAt_no_panic d (pos + 1 + 2) 4 (by omega)
  obtain ⟨ty, h3⟩ := goIndex_ne_panic_of_lt d (pos + 1 + 2 + 4) (by omega)
  obtain ⟨fl, h4⟩ := leAt_no_panic d (pos + 1 + 2 + 4 + 1) 2 (by omega)
  obtain ⟨dc, h5⟩ := goIndex_ne_panic_of_lt d (pos + 1 + 2 + 4 + 1 + 2) (by omega)
  simp only [h1, h2, h3, h4, h5, Out.bind_ok, Out.pure_eq]
  exact ⟨cs, cl, ty, fl, dc, rfl⟩

theorem readDefault_no_panic (d : Bytes) (pos : Nat) : readDefault d pos ≠ .panic := by
  unfold readDefault
  split
  · next hlt =>
    rw [goSliceFrom_ok_of_le _ _ (by omega)]
    simp only [Out.bind_ok]
    cases hr : lengthEncodedInt (d.drop pos) with
    | panic => exact absurd hr (lenenc_int_no_panic _)
    | err => simp
    | ok r =>
      have hp := lenenc_int_progress _ r hr
      rw [List.length_drop] at hp
      simp only [Out.bind_ok]
      split
      · simp
      · rw [goSlice_ok_of_le _ _ _ (by omega) (by omega)]
        simp
  · simp

theorem parseTail_no_panic (p : Packet) (maria : Bool) (strs : List (Option Bytes)) (ext : Bytes) (pos : Nat) :
    parseTail p maria strs ext pos ≠ .panic := by
  unfold parseTail
  split
  · simp
  · next hg =>
    rw [fixedBlockLen_eq] at hg
    obtain ⟨cs, cl, ty, fl, dc, hf⟩ := readFixedBlock_ok p.data pos (by omega)
    simp only [hf, Out.bind_ok]
    cases hd : readDefault p.data (pos + 13) with
    | panic => exact absurd hd (readDefault_no_panic _ _)
    | err => simp
    | ok y => obtain ⟨dl, dv⟩ := y; simp

/-- **`ParseResultField` never panics**, whatever the packet and the capability flag (true since `fix:` 09). -/
theorem parseResultField_no_panic (p : Packet) (maria : Bool) : parseResultField p maria ≠ .panic := by
  unfold parseResultField
  cases h0 : skipLengthEncodedString p.data with
  | panic => exact absurd h0 (lenenc_skip_no_panic _)
  | err => simp
  | ok n0 =>
    have hn0 := skip_le _ _ h0
    simp only [Out.bind_ok]
    cases h1 : readStrs p.data 5 n0 with
    | panic => exact absurd h1 (readStrs_no_panic _ _ _ hn0)
    | err => simp
    | ok x =>
      obtain ⟨strs, pos⟩ := x
      simp only [Out.bind_ok]
      cases maria with
      | false =>
        simp only [Bool.false_eq_true, if_false, Out.pure_eq, Out.bind_ok]
        exact parseTail_no_panic _ _ _ _ _
      | true =>
        simp only [if_true]
        cases he : readExt p.data pos with
        | panic => exact absurd he (readExt_no_panic _ _)
        | err => simp
        | ok z => simp only [Out.bind_ok]; exact parseTail_no_panic _ _ _ _ _

end AcraModel.Wire.My

namespace AcraModel.Wire.My
open AcraModel AcraModel.Wire.LenEnc AcraModel.Wire.LenEnc.Proofs

/-! ## B. reading the parts of a well-formed definition -/

theorem goSliceFrom_append_add (pre xs : Bytes) (k : Nat) (hk : k ≤ xs.length) :
    goSliceFrom (pre ++ xs) (pre.length + k) = .ok (xs.drop k) := by
  unfold goSliceFrom
  rw [if_pos (by simp only [List.length_append]; omega)]
  congr 1
  rw [← List.drop_drop]
  simp

theorem goIndex_append_add (pre xs : Bytes) (k : Nat) (x : UInt8) (h : xs[k]? = some x) :
    goIndex (pre ++ xs) (pre.length + k) = .ok x := by
  unfold goIndex
  rw [List.getElem?_append_right (by omega)]
  simp [h]

theorem strAt_append (pre : Bytes) (v : Option Bytes) (post : Bytes) (hv : ∀ b, v = some b → b.length < 2^64) :
    strAt (pre ++ (putLengthEncodedString v ++ post)) pre.length = .ok (v, (putLengthEncodedString v).length) := by
  unfold strAt
  rw [goSliceFrom_append]
  simp only [Out.bind_ok]
  exact lenenc_str_roundtrip v post hv

theorem readStrs_append (vs : List (Option Bytes)) (pre post : Bytes) (hv : ∀ b, some b ∈ vs → b.length < 2^64) :
    readStrs (pre ++ (encodeTextRow vs ++ post)) vs.length pre.length = .ok (vs, pre.length + (encodeTextRow vs).length) := by
  induction vs generalizing pre with
  | nil => simp [readStrs, encodeTextRow]
  | cons v vs ih =>
    have hv1 : ∀ b, v = some b → b.length < 2^64 := fun b hb => hv b (by rw [hb]; exact List.mem_cons_self)
    have hvs : ∀ b, some b ∈ vs → b.length < 2^64 := fun b hb => hv b (List.mem_cons_of_mem _ hb)
    rw [encodeTextRow_cons, List.length_cons, readStrs, List.append_assoc, strAt_append pre v _ hv1]
    simp only [Out.bind_ok]
    have e1 : pre ++ (putLengthEncodedString v ++ (encodeTextRow vs ++ post))
        = (pre ++ putLengthEncodedString v) ++ (encodeTextRow vs ++ post) := by simp
    have p1 : pre.length + (putLengthEncodedString v).length = (pre ++ putLengthEncodedString v).length := by simp
    rw [e1, p1, ih _ hvs]
    simp only [Out.bind_ok, Out.pure_eq, List.length_append]
    congr 2
    omega

theorem catalog_enc : putLengthEncodedString (some catalog) = [3, 100, 101, 102] := by decide

theorem skip_catalog (post : Bytes) :
    skipLengthEncodedString (putLengthEncodedString (some catalog) ++ post) = .ok (putLengthEncodedString (some catalog)).length := by
  rw [catalog_enc]
  unfold skipLengthEncodedString
  have : lengthEncodedInt ([3, 100, 101, 102] ++ post) = .ok ⟨3, false, 1⟩ := read_small 3 _ (by decide)
  rw [this]
  simp only [Out.bind_ok, List.length_append, List.length_cons, List.length_nil]
  rw [if_neg (by omega), if_neg (by omega)]
  rfl

theorem readExt_zero (pre post : Bytes) : readExt (pre ++ ([0] ++ post)) pre.length = .ok ([], pre.length + 1) := by
  unfold readExt
  rw [if_neg (by simp)]
  have : goIndex (pre ++ ([0] ++ post)) pre.length = .ok 0 := by
    have := goIndex_append_add pre ([0] ++ post) 0 0 (by simp)
    simpa using this
  rw [this]
  simp

theorem putInt_head (n : Nat) (h0 : 0 < n) (h : n < 2^64) :
    ∃ x r, putLengthEncodedInt n = x :: r ∧ x.toNat ≠ 0 := by
  rw [put_marker]
  by_cases h1 : n ≤ 250
  · refine ⟨UInt8.ofNat (n % 256), [], by simp [h1, leBytes], ?_⟩
    rw [ofNat_toNat_mod]; omega
  · by_cases h2 : n ≤ 65535
    · exact ⟨252, leBytes 2 n, by simp [h1, h2], by decide⟩
    · by_cases h3 : n ≤ 16777215
      · exact ⟨253, leBytes 3 n, by simp [h1, h2, h3], by decide⟩
      · have h4 : n ≤ 2^64 - 1 := by omega
        exact ⟨254, leBytes 8 n, by simp [h1, h2, h3, h4], by decide⟩

theorem readExt_nonempty (pre e post : Bytes) (he : e ≠ []) (hl : e.length < 2^64) :
    readExt (pre ++ (putLengthEncodedString (some e) ++ post)) pre.length
      = .ok (putLengthEncodedString (some e), pre.length + (putLengthEncodedString (some e)).length) := by
  have hpos : 0 < e.length := List.length_pos_iff.mpr he
  obtain ⟨x, r, hx, hx0⟩ := putInt_head e.length hpos hl
  unfold readExt
  rw [if_neg (by simp [putLengthEncodedString, hx])]
  have hidx : goIndex (pre ++ (putLengthEncodedString (some e) ++ post)) pre.length = .ok x := by
    have := goIndex_append_add pre (putLengthEncodedString (some e) ++ post) 0 x (by simp [putLengthEncodedString, hx])
    simpa using this
  rw [hidx]
  simp only [Out.bind_ok, if_neg hx0]
  rw [goSliceFrom_append]
  simp only [Out.bind_ok, putLengthEncodedString, List.append_assoc]
  rw [lenenc_int_roundtrip e.length (e ++ post) hl]
  simp only [Out.bind_ok]
  rw [if_neg (by simp only [List.length_append]; omega)]
  have := goSlice_append_mid pre (putLengthEncodedInt e.length ++ e) post
  simp only [List.append_assoc, List.length_append] at this
  rw [this]
  simp [List.length_append]

theorem leAt_append_add (pre xs : Bytes) (off k : Nat) (h : off + k ≤ xs.length) :
    leAt (pre ++ xs) (pre.length + off) k = .ok (leVal ((xs.drop off).take k)) := by
  unfold leAt
  rw [goSliceFrom_append_add pre xs off (by omega)]
  simp only [Out.bind_ok]
  rw [if_neg (by rw [List.length_drop]; omega)]
  rfl

/-- the fixed block: marker, charset, column length, type, flags, decimals, two filler bytes -/
def fixedBlock (cs cl ty fl dc : Nat) : Bytes :=
  [marker] ++ leBytes 2 cs ++ leBytes 4 cl ++ [UInt8.ofNat ty] ++ leBytes 2 fl ++ [UInt8.ofNat dc] ++ [0, 0]

theorem fixedBlock_length (cs cl ty fl dc : Nat) : (fixedBlock cs cl ty fl dc).length = 13 := by
  simp [fixedBlock]

theorem readFixedBlock_append (pre post : Bytes) (cs cl ty fl dc : Nat) (h1 : cs < 2^16) (h2 : cl < 2^32) (h4 : fl < 2^16) :
    readFixedBlock (pre ++ (fixedBlock cs cl ty fl dc ++ post)) pre.length
      = .ok (cs, cl, UInt8.ofNat ty, fl, UInt8.ofNat dc, pre.length + 13) := by
  obtain ⟨c0, c1, hc⟩ : ∃ c0 c1, leBytes 2 cs = [c0, c1] := ⟨_, _, rfl⟩
  obtain ⟨l0, l1, l2, l3, hl⟩ : ∃ l0 l1 l2 l3, leBytes 4 cl = [l0, l1, l2, l3] := ⟨_, _, _, _, rfl⟩
  obtain ⟨f0, f1, hf⟩ : ∃ f0 f1, leBytes 2 fl = [f0, f1] := ⟨_, _, rfl⟩
  have vc : leVal [c0, c1] = cs := by rw [← hc]; exact leVal_leBytes_of_lt 2 cs (by omega)
  have vl : leVal [l0, l1, l2, l3] = cl := by rw [← hl]; exact leVal_leBytes_of_lt 4 cl (by omega)
  have vf : leVal [f0, f1] = fl := by rw [← hf]; exact leVal_leBytes_of_lt 2 fl (by omega)
  have hx : fixedBlock cs cl ty fl dc ++ post
      = marker :: c0 :: c1 :: l0 :: l1 :: l2 :: l3 :: UInt8.ofNat ty :: f0 :: f1 :: UInt8.ofNat dc :: 0 :: 0 :: post := by
    simp [fixedBlock, hc, hl, hf]
  rw [hx]
  unfold readFixedBlock
  have a1 := leAt_append_add pre (marker :: c0 :: c1 :: l0 :: l1 :: l2 :: l3 :: UInt8.ofNat ty :: f0 :: f1 :: UInt8.ofNat dc :: 0 :: 0 :: post) 1 2
    (by simp only [List.length_cons]; omega)
  have a2 := leAt_append_add pre (marker :: c0 :: c1 :: l0 :: l1 :: l2 :: l3 :: UInt8.ofNat ty :: f0 :: f1 :: UInt8.ofNat dc :: 0 :: 0 :: post) 3 4
    (by simp only [List.length_cons]; omega)
  have a3 := goIndex_append_add pre (marker :: c0 :: c1 :: l0 :: l1 :: l2 :: l3 :: UInt8.ofNat ty :: f0 :: f1 :: UInt8.ofNat dc :: 0 :: 0 :: post) 7
    (UInt8.ofNat ty) rfl
  have a4 := leAt_append_add pre (marker :: c0 :: c1 :: l0 :: l1 :: l2 :: l3 :: UInt8.ofNat ty :: f0 :: f1 :: UInt8.ofNat dc :: 0 :: 0 :: post) 8 2
    (by simp only [List.length_cons]; omega)
  have a5 := goIndex_append_add pre (marker :: c0 :: c1 :: l0 :: l1 :: l2 :: l3 :: UInt8.ofNat ty :: f0 :: f1 :: UInt8.ofNat dc :: 0 :: 0 :: post) 10
    (UInt8.ofNat dc) rfl
  simp only [List.drop_succ_cons, List.drop_zero, List.take_succ_cons, List.take_zero, vc, vl, vf] at a1 a2 a4
  have e2 : pre.length + 1 + 2 = pre.length + 3 := by omega
  have e3 : pre.length + 3 + 4 = pre.length + 7 := by omega
  have e4 : pre.length + 7 + 1 = pre.length + 8 := by omega
  have e5 : pre.length + 8 + 2 = pre.length + 10 := by omega
  have e6 : pre.length + 10 + 1 + 2 = pre.length + 13 := by omega
  simp only [a1, Out.bind_ok, e2, a2, e3, a3, e4, a4, e5, a5, e6, Out.pure_eq]

theorem readDefault_none (pre : Bytes) : readDefault pre pre.length = .ok (0, none) := by
  unfold readDefault
  rw [if_neg (by omega)]
  rfl

theorem readDefault_some (pre dv : Bytes) (hl : dv.length < 2^64) :
    readDefault (pre ++ (putLengthEncodedInt dv.length ++ dv)) pre.length = .ok (dv.length, some dv) := by
  have hne : 0 < (putLengthEncodedInt dv.length).length := by
    have := lenenc_int_progress _ _ (lenenc_int_roundtrip dv.length [] hl)
    simpa using this.1
  unfold readDefault
  rw [if_pos (by simp only [List.length_append]; omega), goSliceFrom_append]
  simp only [Out.bind_ok]
  rw [lenenc_int_roundtrip dv.length dv hl]
  simp only [Out.bind_ok]
  rw [if_neg (by simp only [List.length_append]; omega)]
  have := goSlice_append_mid (pre ++ putLengthEncodedInt dv.length) dv []
  simp only [List.append_nil, List.append_assoc, List.length_append] at this
  rw [this]
  rfl

end AcraModel.Wire.My

namespace AcraModel.Wire.My
open AcraModel AcraModel.Wire.LenEnc AcraModel.Wire.LenEnc.Proofs

/-! ## C. `Dump ∘ ParseResultField` on well-formed definitions -/

/-- the values of a definition fit their fields (strings shorter than 2^64 bytes, integers within their widths) -/
structure ColSpec.Ok (s : ColSpec) : Prop where
  strs : ∀ b, some b ∈ [s.schema, s.table, s.orgTable, s.name, s.orgName] → b.length < 2^64
  ext : ∀ e, s.ext = some e → e.length < 2^64
  charset : s.charset < 2^16
  columnLength : s.columnLength < 2^32
  typ : s.typ < 256
  flag : s.flag < 2^16
  decimal : s.decimal < 256
  default : ∀ d, s.default = some d → d.length < 2^64

/-- wire form of the MariaDB extended type info -/
def extBytes : Option Bytes → Bytes
  | some e => putLengthEncodedString (some e)
  | none => []

/-- what `ParseResultField` keeps of the extended type info: nothing for an empty one, the raw bytes otherwise -/
def extKept : Option Bytes → Bytes
  | some e => if e = [] then [] else putLengthEncodedString (some e)
  | none => []

def defaultBytes : Option Bytes → Bytes
  | some dv => putLengthEncodedString (some dv)
  | none => []

/-- the `ColumnDescription` of a specification-level definition -/
def ColSpec.toColDef (s : ColSpec) (h : Bytes) : ColDef :=
  { changed := false, originType := 0, maria := s.ext.isSome, data := encodeColDef s, header := h,
    schema := s.schema, table := s.table, orgTable := s.orgTable, name := s.name, orgName := s.orgName,
    extInfo := extKept s.ext, charset := s.charset, columnLength := s.columnLength, typ := s.typ, flag := s.flag,
    decimal := s.decimal, defaultLen := (s.default.map List.length).getD 0, defaultValue := s.default }

theorem encodeColDef_eq (s : ColSpec) :
    encodeColDef s = putLengthEncodedString (some catalog) ++ (encodeTextRow [s.schema, s.table, s.orgTable, s.name, s.orgName]
      ++ (extBytes s.ext ++ (fixedBlock s.charset s.columnLength s.typ s.flag s.decimal ++ defaultBytes s.default))) := by
  unfold encodeColDef fixedBlock extBytes defaultBytes
  cases s.ext <;> cases s.default <;> simp [encodeTextRow]

theorem readExt_spec (pre post : Bytes) (ext : Option Bytes) (h : ∀ e, ext = some e → e.length < 2^64) :
    (if ext.isSome then readExt (pre ++ (extBytes ext ++ post)) pre.length else (pure ([], pre.length) : Out (Bytes × Nat)))
      = .ok (extKept ext, pre.length + (extBytes ext).length) := by
  cases ext with
  | none => simp [extKept, extBytes]
  | some e =>
    simp only [Option.isSome_some, if_true, extBytes, extKept]
    by_cases he : e = []
    · subst he
      have : putLengthEncodedString (some ([] : Bytes)) = [0] := by decide
      rw [this, readExt_zero]
      simp
    · rw [if_neg he]
      exact readExt_nonempty pre e post he (h e rfl)

theorem readDefault_spec (pre : Bytes) (dflt : Option Bytes) (h : ∀ d, dflt = some d → d.length < 2^64) :
    readDefault (pre ++ defaultBytes dflt) pre.length = .ok ((dflt.map List.length).getD 0, dflt) := by
  cases dflt with
  | none => simp only [defaultBytes, List.append_nil]; exact readDefault_none pre
  | some dv =>
    simp only [defaultBytes, putLengthEncodedString]
    exact readDefault_some pre dv (h dv rfl)

/-- **`ParseResultField` on a well-formed column definition** returns exactly its fields. -/
theorem parseResultField_encodeColDef (s : ColSpec) (h : Bytes) (hs : s.Ok) :
    parseResultField ⟨h, encodeColDef s⟩ s.ext.isSome = .ok (s.toColDef h) := by
  have hd := encodeColDef_eq s
  generalize hA : putLengthEncodedString (some catalog) = A at hd
  generalize hS : encodeTextRow [s.schema, s.table, s.orgTable, s.name, s.orgName] = S at hd
  generalize hE : extBytes s.ext = E at hd
  generalize hF : fixedBlock s.charset s.columnLength s.typ s.flag s.decimal = F at hd
  generalize hD : defaultBytes s.default = D at hd
  have hFl : F.length = 13 := by rw [← hF]; exact fixedBlock_length _ _ _ _ _
  have hskip : skipLengthEncodedString (A ++ (S ++ (E ++ (F ++ D)))) = .ok A.length := by
    rw [← hA]; exact skip_catalog _
  have hstrs : readStrs (A ++ (S ++ (E ++ (F ++ D)))) 5 A.length
      = .ok ([s.schema, s.table, s.orgTable, s.name, s.orgName], A.length + S.length) := by
    rw [← hS]
    exact readStrs_append [s.schema, s.table, s.orgTable, s.name, s.orgName] A _ hs.strs
  have e2 : A ++ (S ++ (E ++ (F ++ D))) = (A ++ S) ++ (E ++ (F ++ D)) := by simp
  have p2 : A.length + S.length = (A ++ S).length := by simp
  have hext : (if s.ext.isSome then readExt ((A ++ S) ++ (E ++ (F ++ D))) (A ++ S).length
      else (pure ([], (A ++ S).length) : Out (Bytes × Nat))) = .ok (extKept s.ext, (A ++ S).length + E.length) := by
    rw [← hE]; exact readExt_spec (A ++ S) _ s.ext hs.ext
  have e3 : (A ++ S) ++ (E ++ (F ++ D)) = (A ++ S ++ E) ++ (F ++ D) := by simp
  have p3 : (A ++ S).length + E.length = (A ++ S ++ E).length := by simp only [List.length_append]
  have hguard : ¬ ((A ++ S ++ E) ++ (F ++ D)).length - (A ++ S ++ E).length < fixedBlockLen := by
    rw [fixedBlockLen_eq]; simp only [List.length_append, hFl]; omega
  have hfix : readFixedBlock ((A ++ S ++ E) ++ (F ++ D)) (A ++ S ++ E).length
      = .ok (s.charset, s.columnLength, UInt8.ofNat s.typ, s.flag, UInt8.ofNat s.decimal, (A ++ S ++ E).length + 13) := by
    rw [← hF]; exact readFixedBlock_append _ _ _ _ _ _ _ hs.charset hs.columnLength hs.flag
  have e4 : (A ++ S ++ E) ++ (F ++ D) = (A ++ S ++ E ++ F) ++ D := by simp
  have p4 : (A ++ S ++ E).length + 13 = (A ++ S ++ E ++ F).length := by simp only [List.length_append, hFl]
  have hdef : readDefault ((A ++ S ++ E ++ F) ++ D) (A ++ S ++ E ++ F).length
      = .ok ((s.default.map List.length).getD 0, s.default) := by
    rw [← hD]; exact readDefault_spec _ s.default hs.default
  have ht : (UInt8.ofNat s.typ).toNat = s.typ := by
    have := hs.typ; simp [UInt8.toNat_ofNat']; omega
  have hdc : (UInt8.ofNat s.decimal).toNat = s.decimal := by
    have := hs.decimal; simp [UInt8.toNat_ofNat']; omega
  unfold parseResultField
  simp only []
  rw [hd, hskip]
  simp only [Out.bind_ok]
  rw [hstrs]
  simp only [Out.bind_ok]
  rw [e2, p2, hext]
  simp only [Out.bind_ok]
  unfold parseTail
  simp only []
  rw [e3, p3, if_neg hguard, hfix]
  simp only [Out.bind_ok]
  rw [e4, p4, hdef]
  simp only [Out.bind_ok, Out.pure_eq, ColSpec.toColDef, ht, hdc]
  congr 1
  simp only [hd, List.append_assoc, List.getElem?_cons_zero, List.getElem?_cons_succ, Option.join_some]

/-- the payload `Dump` rebuilds from the parsed fields of a well-formed definition is that definition -/
theorem build_toColDef (s : ColSpec) (h : Bytes) : (s.toColDef h).build = encodeColDef s := by
  have hz : putLengthEncodedString (some ([] : Bytes)) = [0] := by decide
  have hext : (if s.ext.isSome = true then (if (extKept s.ext).length > 0 then extKept s.ext else [0]) else [])
      = (match s.ext with | some e => putLengthEncodedString (some e) | none => []) := by
    cases s.ext with
    | none => rfl
    | some e =>
      by_cases he : e = []
      · subst he; simp [extKept, hz]
      · have hpos : 0 < (putLengthEncodedString (some e)).length := by
          simp only [putLengthEncodedString, List.length_append]
          have := List.length_pos_iff.mpr he
          omega
        simp [extKept, he, hpos]
  unfold ColDef.build ColSpec.toColDef encodeColDef
  simp only []
  rw [hext]
  cases s.default <;> rfl

end AcraModel.Wire.My

namespace AcraModel.Wire.My
open AcraModel AcraModel.Wire.LenEnc AcraModel.Wire.LenEnc.Proofs

/-! ## D. relaying and re-typing a well-formed definition -/

/-- the flag `updateFieldEncodedType` leaves: BlobFlag removed when it was set and the new type is a "specific" one -/
def retypeFlag (flag nt : Nat) : Nat :=
  if (flag / Generated.Wire.myBlobFlag) % 2 = 1 ∧ Generated.Wire.mySpecificTypes.contains nt
  then removeFlag flag Generated.Wire.myBlobFlag else flag

/-- the definition Acra is expected to send for a column re-typed to `nt` (configuration `cs/len/dec`):
type, charset, column length, decimals replaced; BlobFlag removed for the "specific" types; all else as received -/
def retypeSpec (s : ColSpec) (nt cs len dec : Nat) : ColSpec :=
  { s with typ := nt, charset := cs, columnLength := len, decimal := dec, flag := retypeFlag s.flag nt }

theorem encodeColDef_length_retypeSpec (s : ColSpec) (nt cs len dec : Nat) :
    (encodeColDef (retypeSpec s nt cs len dec)).length = (encodeColDef s).length := by
  simp [encodeColDef, retypeSpec, List.length_append]

theorem dump_unchanged (s : ColSpec) (h : Bytes) : (s.toColDef h).dump = h ++ encodeColDef s := by
  simp [ColDef.dump, ColSpec.toColDef]

theorem dump_changed (s : ColSpec) (h : Bytes) : ({ s.toColDef h with changed := true }).dump = h ++ encodeColDef s := by
  have : ({ s.toColDef h with changed := true } : ColDef).build = (s.toColDef h).build := rfl
  simp only [ColDef.dump, this, build_toColDef]
  simp [ColSpec.toColDef]

theorem retype_eq (f : ColDef) (nt cs len dec : Nat)
    (hcfg : Generated.Wire.myTypeConfigurations.find? (·.1 = nt) = some (nt, cs, len, dec)) :
    retype f (some nt) = { f with originType := f.typ, typ := nt, changed := true, charset := cs, columnLength := len, decimal := dec, flag := retypeFlag f.flag nt } := by
  unfold retypeFlag
  unfold retype
  simp only [hcfg]
  split <;> rfl

theorem retype_dump (s : ColSpec) (h : Bytes) (nt cs len dec : Nat)
    (hcfg : Generated.Wire.myTypeConfigurations.find? (·.1 = nt) = some (nt, cs, len, dec)) :
    (retype (s.toColDef h) (some nt)).changed = true ∧ (retype (s.toColDef h) (some nt)).originType = s.typ ∧
    (retype (s.toColDef h) (some nt)).dump = h ++ encodeColDef (retypeSpec s nt cs len dec) := by
  rw [retype_eq _ nt cs len dec hcfg]
  refine ⟨rfl, rfl, ?_⟩
  rw [← build_toColDef (retypeSpec s nt cs len dec) h]
  simp only [ColDef.dump, ColDef.build, ColSpec.toColDef, retypeSpec]
  simp

theorem retype_none (f : ColDef) : retype f none = f := rfl

/-- a parameter definition re-typed by `ParamsTrackHandler`: only the type byte differs -/
theorem retypeParam_dump (s : ColSpec) (h : Bytes) (nt : Nat) :
    (retypeParam (s.toColDef h) (some nt)).dump = h ++ encodeColDef { s with typ := nt } := by
  have hb : (retypeParam (s.toColDef h) (some nt)).build = (({ s with typ := nt } : ColSpec).toColDef h).build := rfl
  unfold ColDef.dump
  rw [hb, build_toColDef]
  simp [retypeParam, ColSpec.toColDef]

end AcraModel.Wire.My
