import AcraModel.Wire.MysqlColDef
import AcraModel.Wire.MysqlLemmas
/-! Lemmas about the MySQL column definition model (`Wire/MysqlColDef.lean`): no panic, round trip, re-typing. -/
namespace AcraModel.Wire.My
open AcraModel AcraModel.Wire.LenEnc AcraModel.Wire.LenEnc.Proofs

/-! ## A. no panic -/

theorem skip_le (data : Bytes) (n : Nat) (h : skipLengthEncodedString data = .ok n) : n ≤ data.length := by
  unfold skipLengthEncodedString at h
  cases hr : lengthEncodedInt data with
  | panic => simp [hr] at h
  | err => simp [hr] at h
  | ok res =>
    have hp := lenenc_int_progress data res hr
    simp only [hr, Out.bind_ok] at h
    split at h
    · cases h; exact hp.2
    · split at h
      · cases h
      · cases h; omega

theorem strAt_no_panic (d : Bytes) (pos : Nat) (h : pos ≤ d.length) : strAt d pos ≠ .panic := by
  unfold strAt
  rw [goSliceFrom_ok_of_le _ _ h]
  exact lenenc_str_no_panic _

theorem strAt_le (d : Bytes) (pos : Nat) (v : Option Bytes) (n : Nat) (h : pos ≤ d.length)
    (hr : strAt d pos = .ok (v, n)) : pos + n ≤ d.length := by
  unfold strAt at hr
  rw [goSliceFrom_ok_of_le _ _ h] at hr
  have := (lenenc_str_progress _ v n hr).2
  rw [List.length_drop] at this
  omega

theorem readStrs_no_panic (d : Bytes) (k pos : Nat) (h : pos ≤ d.length) : readStrs d k pos ≠ .panic := by
  induction k generalizing pos with
  | zero => simp [readStrs]
  | succ k ih =>
    rw [readStrs]
    cases hr : strAt d pos with
    | panic => exact absurd hr (strAt_no_panic d pos h)
    | err => simp
    | ok x =>
      obtain ⟨v, n⟩ := x
      have hn := strAt_le d pos v n h hr
      simp only [Out.bind_ok]
      cases hk : readStrs d k (pos + n) with
      | panic => exact absurd hk (ih _ hn)
      | err => simp
      | ok y => obtain ⟨vs, p'⟩ := y; simp

theorem readStrs_le (d : Bytes) (k pos : Nat) (vs : List (Option Bytes)) (pos' : Nat) (h : pos ≤ d.length)
    (hr : readStrs d k pos = .ok (vs, pos')) : pos' ≤ d.length := by
  induction k generalizing pos vs with
  | zero => simp only [readStrs, Out.ok.injEq, Prod.mk.injEq] at hr; omega
  | succ k ih =>
    rw [readStrs] at hr
    cases hs : strAt d pos with
    | panic => simp [hs] at hr
    | err => simp [hs] at hr
    | ok x =>
      obtain ⟨v, n⟩ := x
      have hn := strAt_le d pos v n h hs
      simp only [hs, Out.bind_ok] at hr
      cases hk : readStrs d k (pos + n) with
      | panic => simp [hk] at hr
      | err => simp [hk] at hr
      | ok y =>
        obtain ⟨vs', p'⟩ := y
        simp only [hk, Out.bind_ok, Out.pure_eq, Out.ok.injEq, Prod.mk.injEq] at hr
        obtain ⟨_, hp⟩ := hr
        subst hp
        exact ih (pos + n) vs' hn hk

theorem readExt_no_panic (d : Bytes) (pos : Nat) : readExt d pos ≠ .panic := by
  unfold readExt
  split
  · simp
  · next hlt =>
    have hlt : pos < d.length := by omega
    obtain ⟨b, hb⟩ := goIndex_ne_panic_of_lt d pos hlt
    simp only [hb, Out.bind_ok]
    split
    · simp
    · rw [goSliceFrom_ok_of_le _ _ (by omega)]
      simp only [Out.bind_ok]
      cases hr : lengthEncodedInt (d.drop pos) with
      | panic => exact absurd hr (lenenc_int_no_panic _)
      | err => simp
      | ok r =>
        have hp := lenenc_int_progress _ r hr
        rw [List.length_drop] at hp
        simp only [Out.bind_ok]
        split
        · simp
        · next hg =>
          rw [goSlice_ok_of_le _ _ _ (by omega) (by omega)]
          simp

theorem readExt_le (d : Bytes) (pos : Nat) (e : Bytes) (pos' : Nat) (hr : readExt d pos = .ok (e, pos')) :
    pos' ≤ d.length := by
  unfold readExt at hr
  split at hr
  · cases hr
  · next hlt =>
    have hlt : pos < d.length := by omega
    obtain ⟨b, hb⟩ := goIndex_ne_panic_of_lt d pos hlt
    simp only [hb, Out.bind_ok] at hr
    split at hr
    · simp only [Out.pure_eq, Out.ok.injEq, Prod.mk.injEq] at hr; omega
    · rw [goSliceFrom_ok_of_le _ _ (by omega)] at hr
      simp only [Out.bind_ok] at hr
      cases hi : lengthEncodedInt (d.drop pos) with
      | panic => simp [hi] at hr
      | err => simp [hi] at hr
      | ok r =>
        have hp := lenenc_int_progress _ r hi
        rw [List.length_drop] at hp
        simp only [hi, Out.bind_ok] at hr
        split at hr
        · cases hr
        · next hg =>
          rw [goSlice_ok_of_le _ _ _ (by omega) (by omega)] at hr
          simp only [Out.bind_ok, Out.pure_eq, Out.ok.injEq, Prod.mk.injEq] at hr
          omega

theorem leAt_no_panic (d : Bytes) (pos k : Nat) (h : pos + k ≤ d.length) : ∃ v, leAt d pos k = .ok v := by
  unfold leAt
  rw [goSliceFrom_ok_of_le _ _ (by omega)]
  simp only [Out.bind_ok]
  rw [if_neg (by rw [List.length_drop]; omega)]
  exact ⟨_, rfl⟩

theorem fixedBlockLen_eq : fixedBlockLen = 13 := rfl

theorem readFixedBlock_ok (d : Bytes) (pos : Nat) (h : pos + 13 ≤ d.length) :
    ∃ cs cl ty fl dc, readFixedBlock d pos = .ok (cs, cl, ty, fl, dc, pos + 13) := by
  unfold readFixedBlock
  obtain ⟨cs, h1⟩ := leAt_no_panic d (pos + 1) 2 (by omega)
  obtain ⟨cl, h2⟩ := leAt_no_panic d (pos + 1 + 2) 4 (by omega)
  obtain ⟨ty, h3⟩ := goIndex_ne_panic_of_lt d (pos + 1 + 2 + 4) (by omega)
  obtain ⟨fl, h4⟩ := leAt_no_panic d (pos + 1 + 2 + 4 + 1) 2 (by omega)
  obtain ⟨dc, h5⟩ := goIndex_ne_panic_of_lt d (pos + 1 + 2 + 4 + 1 + 2) (by omega)
  simp only [h1, h2, h3, h4, h5, Out.bind_ok, Out.pure_eq]
  exact ⟨cs, cl, ty, fl, dc, rfl⟩

theorem readDefault_no_panic (d : Bytes) (pos : Nat) : readDefault d pos ≠ .panic := by
  unfold readDefault
  split
  · next hlt =>
    rw [goSliceFrom_ok_of_le _ _ (by omega)]
    simp only [Out.bind_ok]
    cases hr : lengthEncodedInt (d.drop pos) with
    | panic => exact absurd hr (lenenc_int_no_panic _)
    | err => simp
    | ok r =>
      have hp := lenenc_int_progress _ r hr
      rw [List.length_drop] at hp
      simp only [Out.bind_ok]
      split
      · simp
      · rw [goSlice_ok_of_le _ _ _ (by omega) (by omega)]
        simp
  · simp

/-- **`ParseResultField` never panics**, whatever the packet and the capability flag (true since `fix:` 09). -/
theorem parseResultField_no_panic (p : Packet) (maria : Bool) : parseResultField p maria ≠ .panic := by
  unfold parseResultField
  simp only []
  cases h0 : skipLengthEncodedString p.data with
  | panic => exact absurd h0 (lenenc_skip_no_panic _)
  | err => simp
  | ok n0 =>
    have hn0 := skip_le _ _ h0
    simp only [Out.bind_ok]
    cases h1 : readStrs p.data 5 n0 with
    | panic => exact absurd h1 (readStrs_no_panic _ _ _ hn0)
    | err => simp
    | ok x =>
      obtain ⟨strs, pos⟩ := x
      have hpos := readStrs_le _ _ _ _ _ hn0 h1
      simp only [Out.bind_ok]
      have key : ∀ (ext : Bytes) (pos : Nat),
          (if p.data.length - pos < fixedBlockLen then (Out.err : Out ColDef)
           else do
            let (charset, columnLength, typ, flag, decimal, pos') ← readFixedBlock p.data pos
            let (dl, dv) ← readDefault p.data pos'
            pure { changed := false, originType := 0, maria := maria, data := p.data, header := p.header,
                   schema := (strs[0]?).join, table := (strs[1]?).join, orgTable := (strs[2]?).join,
                   name := (strs[3]?).join, orgName := (strs[4]?).join, extInfo := ext,
                   charset := charset, columnLength := columnLength, typ := typ.toNat, flag := flag,
                   decimal := decimal.toNat, defaultLen := dl, defaultValue := dv }) ≠ .panic := by
        intro ext pos
        split
        · simp
        · next hg =>
          rw [fixedBlockLen_eq] at hg
          obtain ⟨cs, cl, ty, fl, dc, hf⟩ := readFixedBlock_ok p.data pos (by omega)
          simp only [hf, Out.bind_ok]
          cases hd : readDefault p.data (pos + 13) with
          | panic => exact absurd hd (readDefault_no_panic _ _)
          | err => simp
          | ok y => obtain ⟨dl, dv⟩ := y; simp
      cases maria with
      | false => simp only [Bool.false_eq_true, if_false, Out.pure_eq, Out.bind_ok]; exact key [] pos
      | true =>
        simp only [if_true]
        cases he : readExt p.data pos with
        | panic => exact absurd he (readExt_no_panic _ _)
        | err => simp
        | ok z => obtain ⟨ext, pos'⟩ := z; simp only [Out.bind_ok]; exact key ext pos'

end AcraModel.Wire.My
