import AcraModel.Wire.PgMsg
/-
PostgreSQL DataRow: model of `parseColumns`, `ColumnData.{ReadLength,readData,SetData,Length}`,
`updateDataFromColumns` (packet_handler.go) and of the column loop of `handleQueryDataPacket`
(pg_decryptor.go), plus the specification codec `encodeRow`/`decodeRow`.
-/
namespace AcraModel.Wire.Pg
open AcraModel

/-- `ColumnData` -/
structure Col where
  lenBuf : Bytes      -- LengthBuf [4]byte
  data : Bytes
  isNull : Bool
  changed : Bool
deriving Repr, DecidableEq

/-- the length marker of NULL read as `uint32` (`int32(length) == NullColumnValue`) -/
def nullLen : Nat := (Generated.Wire.pgNullColumnValue % (2^32 : Int)).toNat

/-- `ColumnData.Length` -/
def Col.length (c : Col) : Nat := if c.isNull then 0 else beVal c.lenBuf

/-- `ColumnData.SetData` -/
def Col.setData (c : Col) (d : Bytes) : Col :=
  { c with changed := true, data := d, lenBuf := beBytes 4 (d.length % 2^32) }

/-- `GetParameterFormatByIndex`: `ok true` = binary, `ok false` = text -/
def formatByIndex (i : Nat) (fmts : List Nat) : Out Bool :=
  match fmts with
  | [] => .ok false
  | _ =>
    let f? : Option Nat := if fmts.length = 1 then fmts.head? else fmts[i]?
    match f? with
    | none => .err
    | some f =>
      if f = Generated.Wire.pgBindFormatText then .ok false
      else if f = Generated.Wire.pgBindFormatBinary then .ok true
      else .err

/-- compiled form of `formatByIndex` (no `fmts.length` per call); the theorems are about `formatByIndex`, the equality
below is kernel-checked -/
def formatByIndexFast (i : Nat) (fmts : List Nat) : Out Bool :=
  let code (f : Nat) : Out Bool :=
    if f = Generated.Wire.pgBindFormatText then .ok false
    else if f = Generated.Wire.pgBindFormatBinary then .ok true
    else .err
  match fmts with
  | [] => .ok false
  | [f] => code f
  | _ :: _ :: _ =>
    match fmts[i]? with
    | none => .err
    | some f => code f

@[csimp] theorem formatByIndex_eq_fast : @formatByIndex = @formatByIndexFast := by
  funext i fmts
  match fmts with
  | [] => rfl
  | [f] => simp [formatByIndex, formatByIndexFast]
  | a :: b :: r =>
    simp only [formatByIndex, formatByIndexFast, List.length_cons]
    rw [if_neg (by omega)]

/-- one iteration of the loop in `parseColumns`: `ReadLength`, format lookup, `readData` -/
def readCol (i : Nat) (fmts : List Nat) (s : Bytes) : Out (Col × Bytes) := do
  let (lb, rest) ← readN s 4
  let _ ← formatByIndex i fmts
  let length := beVal lb
  if length = nullLen then pure (⟨lb, [], true, false⟩, rest)
  else if length = 0 then pure (⟨lb, [], false, false⟩, rest)
  else do
    let (d, rest') ← readN rest length
    pure (⟨lb, d, false, false⟩, rest')

def readCols (fmts : List Nat) : Nat → Nat → Bytes → Out (List Col)
  | 0, _, _ => .ok []
  | n+1, i, s => do
    let (c, rest) ← readCol i fmts s
    let cs ← readCols fmts n (i+1) rest
    pure (c :: cs)

/-- `parseColumns` on the body of a packet: a body without room for the column count is rejected
(`ErrPacketTruncated`, after the `fix:`); a column that declares more bytes than the body holds fails in
`readCol`. Returns the column count and the columns. -/
def parseColumns (body : Bytes) (fmts : List Nat) : Out (Nat × List Col) :=
  if body.length < 2 then .err else
  let cnt := beVal (body.take 2)
  if cnt = 0 then .ok (0, [])
  else do
    let cs ← readCols fmts cnt 0 (body.drop 2)
    pure (cnt, cs)

/-- `updateDataFromColumns`: new (length buffer, body) when a column changed, otherwise unchanged -/
def updateDataFromColumns (p : Packet) (cnt : Nat) (cols : List Col) : Packet :=
  if cols.any (·.changed) then
    let body := beBytes 2 (cnt % 2^16) ++ cols.flatMap (fun c => c.lenBuf ++ c.data)
    let newLen := cnt * 4 + 2 + (cols.map Col.length).sum
    { p with body := body, lenBuf := packetLength newLen }
  else p

/-- the column loop of `handleQueryDataPacket`: NULL columns are skipped, every other column is
handed to the subscribers (`f i data`, which may fail) and replaced by the result -/
def processCols (f : Nat → Bytes → Out Bytes) : Nat → List Col → Out (List Col)
  | _, [] => .ok []
  | i, c :: cs =>
    if c.isNull then do
      let r ← processCols f (i+1) cs
      pure (c :: r)
    else do
      let d ← f i c.data
      let r ← processCols f (i+1) cs
      pure (c.setData d :: r)

/-- `BindPacket.GetResultFormats`: every declared result format must be text or binary -/
def checkFormats (fmts : List Nat) : Out Unit :=
  (List.range fmts.length).foldl (fun acc i => do let _ ← acc; let _ ← formatByIndex i fmts; pure ()) (.ok ())

/-- DataRow part of `handleQueryDataPacket`: result formats, parse, transform, rebuild -/
def rewriteRow (f : Nat → Bytes → Out Bytes) (fmts : List Nat) (p : Packet) : Out Packet := do
  checkFormats fmts
  let (cnt, cols) ← parseColumns p.body fmts
  if cnt = 0 then pure p else do
    let cols' ← processCols f 0 cols
    pure (updateDataFromColumns p cnt cols')

/-! ### specification codec -/

abbrev Row := List (Option Bytes)

def encodeCol : Option Bytes → Bytes
  | none => beBytes 4 (2^32 - 1)
  | some b => beBytes 4 b.length ++ b

/-- body of a DataRow message -/
def encodeRow (r : Row) : Bytes := beBytes 2 r.length ++ r.flatMap encodeCol

def decodeCols : Nat → Bytes → Option (Row × Bytes)
  | 0, s => some ([], s)
  | n+1, s =>
    if s.length < 4 then none else
    let l := beVal (s.take 4)
    let s1 := s.drop 4
    if l = 2^32 - 1 then
      (decodeCols n s1).map fun (r, rest) => (none :: r, rest)
    else if s1.length < l then none
    else (decodeCols n (s1.drop l)).map fun (r, rest) => (some (s1.take l) :: r, rest)

/-- specification decoder of a DataRow body: every byte must be consumed -/
def decodeRow (b : Bytes) : Option Row :=
  if b.length < 2 then none else
  match decodeCols (beVal (b.take 2)) (b.drop 2) with
  | some (r, []) => some r
  | _ => none

/-- the transformation a row undergoes, column by column (NULL stays NULL) -/
def mapRow (f : Nat → Bytes → Bytes) : Nat → Row → Row
  | _, [] => []
  | i, none :: r => none :: mapRow f (i+1) r
  | i, some b :: r => some (f i b) :: mapRow f (i+1) r

end AcraModel.Wire.Pg
