import AcraModel.Wire.PgRow
/-!
Lemmas about the PostgreSQL wire models (`PgMsg.lean`, `PgRow.lean`): the handlers read what the
specification codec writes, marshal it back byte-identically, and a rewritten DataRow is the
specification encoding of the transformed row.
-/
namespace AcraModel.Wire.Pg
open AcraModel

/-! ### small facts -/

theorem nullLen_eq : nullLen = 2^32 - 1 := by decide

theorem lenSize_eq : lenSize = 4 := rfl

theorem beVal_beBytes4 (n : Nat) (h : n < 2^32) : beVal (beBytes 4 n) = n :=
  beVal_beBytes_of_lt 4 n (by omega)

theorem beVal_beBytes2 (n : Nat) (h : n < 2^16) : beVal (beBytes 2 n) = n :=
  beVal_beBytes_of_lt 2 n (by omega)

theorem readN_append (a s : Bytes) : readN (a ++ s) a.length = .ok (a, s) := by
  unfold readN
  rw [if_neg (by simp [List.length_append])]
  simp

theorem readN_append' (a s : Bytes) (k : Nat) (h : a.length = k) : readN (a ++ s) k = .ok (a, s) := by
  subst h; exact readN_append a s

theorem readData_nil_append (body rest : Bytes) (dl : Int) (h : dl = (body.length : Int)) :
    readData [] dl (body ++ rest) = .ok (body, rest) := by
  subst h
  unfold readData
  rw [if_neg (by omega)]
  simp [readN_append]

theorem dataLength_beBytes (n : Nat) (h : n + 4 < 2^32) : dataLength (beBytes 4 (n + 4)) = (n : Int) := by
  unfold dataLength
  rw [beVal_beBytes4 _ h, beBytes_length]
  omega

theorem encodeMsg_append (t : UInt8) (body rest : Bytes) :
    encodeMsg t body ++ rest = [t] ++ (beBytes 4 (body.length + 4) ++ (body ++ rest)) := by
  simp [encodeMsg]

/-! ### framing -/

/-- 1. the database-side reader reads exactly one well-framed message -/
theorem readDb_encodeMsg (t : UInt8) (body rest : Bytes) (h : body.length + 4 < 2^32) :
    readDb (encodeMsg t body ++ rest) = .ok (⟨t, beBytes 4 (body.length + 4), body⟩, rest) := by
  rw [encodeMsg_append]
  unfold readDb
  rw [readN_append' [t] _ 1 rfl]
  simp only [Out.bind_ok]
  rw [readN_append' (beBytes 4 (body.length + 4)) _ 4 (beBytes_length _ _)]
  simp only [Out.bind_ok]
  rw [readData_nil_append body rest _ (dataLength_beBytes _ h)]
  rfl

/-- 2. marshalling the packet read from a well-framed message gives the message back -/
theorem marshal_encodeMsg (t : UInt8) (body : Bytes) (ht : t.toNat ≠ 0) :
    marshal ⟨t, beBytes 4 (body.length + 4), body⟩ = encodeMsg t body := by
  unfold marshal encodeMsg
  have : t.toNat ≠ Generated.Wire.pgWithoutMessageType := ht
  simp [this]

/-- relay identity on the database side -/
theorem marshal_readDb_encodeMsg (t : UInt8) (body rest : Bytes) (ht : t.toNat ≠ 0)
    (h : body.length + 4 < 2^32) :
    ∃ p, readDb (encodeMsg t body ++ rest) = .ok (p, rest) ∧ marshal p = encodeMsg t body :=
  ⟨_, readDb_encodeMsg t body rest h, marshal_encodeMsg t body ht⟩

/-- 3. the client-side reader (after start-up) reads exactly one well-framed message -/
theorem readGeneral_encodeMsg (t : UInt8) (body rest : Bytes) (h : body.length + 4 < 2^32) :
    readGeneral (encodeMsg t body ++ rest) = .ok (⟨t, beBytes 4 (body.length + 4), body⟩, rest) := by
  have e : encodeMsg t body ++ rest = (t :: beBytes 4 (body.length + 4)) ++ (body ++ rest) := by
    simp [encodeMsg]
  rw [e]
  unfold readGeneral
  rw [readN_append' (t :: beBytes 4 (body.length + 4)) _ 5 (by simp)]
  simp only [Out.bind_ok, List.headD_cons, List.drop_succ_cons, List.drop_zero]
  split
  · next hc =>
    have h2 : beBytes 4 (body.length + 4) = [0, 0, 0, 4] := by
      have := hc.2
      simp [Generated.Wire.pgTerminatePacket] at this
      exact this.2
    have h3 : beVal (beBytes 4 (body.length + 4)) = 4 := by rw [h2]; decide
    rw [beVal_beBytes4 _ h] at h3
    have h4 : body = [] := List.eq_nil_of_length_eq_zero (by omega)
    subst h4
    simp
  · rw [readData_nil_append body rest _ (dataLength_beBytes _ h)]
    rfl

/-- 4. the specification decoder inverts the specification encoder -/
theorem decodeMsg_encodeMsg (t : UInt8) (body rest : Bytes) (h : body.length + 4 < 2^32) :
    decodeMsg (encodeMsg t body ++ rest) = some (t, body, rest) := by
  have e : encodeMsg t body ++ rest = t :: (beBytes 4 (body.length + 4) ++ (body ++ rest)) := by
    simp [encodeMsg]
  rw [e]
  unfold decodeMsg
  have hl : (beBytes 4 (body.length + 4)).length = 4 := beBytes_length _ _
  have ht : (beBytes 4 (body.length + 4) ++ (body ++ rest)).take 4 = beBytes 4 (body.length + 4) :=
    List.take_left' hl
  have hd : (beBytes 4 (body.length + 4) ++ (body ++ rest)).drop 4 = body ++ rest :=
    List.drop_left' hl
  simp only [ht, hd, beVal_beBytes4 _ h]
  rw [if_neg (by simp [List.length_append])]
  rw [if_neg (by simp [List.length_append])]
  simp

/-- 8. a replaced simple query is a well-framed `Query` message -/
theorem replaceSimpleQuery_wellformed (lb old q : Bytes) (h : q.length + 5 < 2^32) :
    marshal (replaceSimpleQuery ⟨81, lb, old⟩ q) = encodeMsg 81 (q ++ [0]) := by
  unfold replaceSimpleQuery packetLength
  have h1 : (q.length + 1 + lenSize) % 2^32 = (q ++ [0]).length + 4 := by
    rw [lenSize_eq, Nat.mod_eq_of_lt (by omega)]; simp
  simp only [h1]
  exact marshal_encodeMsg 81 (q ++ [0]) (by decide)

/-! ### DataRow: the specification codec -/

theorem decodeCols_succ_none (n : Nat) (s : Bytes) :
    decodeCols (n + 1) (beBytes 4 (2^32 - 1) ++ s) =
      (decodeCols n s).map fun (r, rest) => (none :: r, rest) := by
  have hl : (beBytes 4 (2^32 - 1)).length = 4 := beBytes_length _ _
  simp only [decodeCols]
  rw [List.take_left' hl, List.drop_left' hl, beVal_beBytes4 _ (by omega)]
  rw [if_neg (by simp [List.length_append])]
  rw [if_pos rfl]

theorem decodeCols_succ_some (n : Nat) (b s : Bytes) (h : b.length < 2^32 - 1) :
    decodeCols (n + 1) (beBytes 4 b.length ++ (b ++ s)) =
      (decodeCols n s).map fun (r, rest) => (some b :: r, rest) := by
  have hl : (beBytes 4 b.length).length = 4 := beBytes_length _ _
  simp only [decodeCols]
  rw [List.take_left' hl, List.drop_left' hl, beVal_beBytes4 _ (by omega)]
  rw [if_neg (by simp [List.length_append])]
  rw [if_neg (by omega)]
  rw [if_neg (by simp [List.length_append])]
  rw [List.take_left' rfl, List.drop_left' rfl]

theorem decodeCols_encode (r : Row) (rest : Bytes) (hb : ∀ b, some b ∈ r → b.length < 2^32 - 1) :
    decodeCols r.length (r.flatMap encodeCol ++ rest) = some (r, rest) := by
  induction r with
  | nil => simp [decodeCols]
  | cons v r ih =>
    have ih' := ih (fun b hm => hb b (List.mem_cons_of_mem _ hm))
    cases v with
    | none =>
      rw [List.flatMap_cons, List.length_cons, List.append_assoc]
      show decodeCols (r.length + 1) (beBytes 4 (2^32 - 1) ++ _) = _
      rw [decodeCols_succ_none, ih']
      rfl
    | some b =>
      have hbl := hb b List.mem_cons_self
      rw [List.flatMap_cons, List.length_cons, List.append_assoc]
      show decodeCols (r.length + 1) ((beBytes 4 b.length ++ b) ++ _) = _
      rw [List.append_assoc, decodeCols_succ_some _ _ _ hbl, ih']
      rfl

theorem encodeRow_length_ge (r : Row) : 2 ≤ (encodeRow r).length := by
  unfold encodeRow
  rw [List.length_append, beBytes_length]
  omega

/-- 5. round trip of the specification codec -/
theorem decodeRow_encodeRow (r : Row) (hr : r.length < 2^16)
    (hb : ∀ b, some b ∈ r → b.length < 2^32 - 1) : decodeRow (encodeRow r) = some r := by
  unfold decodeRow
  rw [if_neg (by have := encodeRow_length_ge r; omega)]
  have hl : (beBytes 2 r.length).length = 2 := beBytes_length _ _
  have ht : (encodeRow r).take 2 = beBytes 2 r.length := List.take_left' hl
  have hd : (encodeRow r).drop 2 = r.flatMap encodeCol := List.drop_left' hl
  rw [ht, hd, beVal_beBytes2 _ hr]
  have := decodeCols_encode r [] hb
  rw [List.append_nil] at this
  rw [this]

/-! ### DataRow: the handler reads what the codec writes -/

/-- the `ColumnData` the handler holds after reading one encoded column -/
def colOf : Option Bytes → Col
  | none => ⟨beBytes 4 (2^32 - 1), [], true, false⟩
  | some b => ⟨beBytes 4 b.length, b, false, false⟩

theorem readCol_encodeCol (i : Nat) (fmts : List Nat) (v : Option Bytes) (rest : Bytes)
    (hf : ∃ b, formatByIndex i fmts = .ok b) (hv : ∀ b, v = some b → b.length < 2^32 - 1) :
    readCol i fmts (encodeCol v ++ rest) = .ok (colOf v, rest) := by
  obtain ⟨fb, hf⟩ := hf
  cases v with
  | none =>
    show readCol i fmts (beBytes 4 (2^32 - 1) ++ rest) = _
    unfold readCol
    rw [readN_append' _ _ 4 (beBytes_length _ _)]
    simp only [Out.bind_ok, hf]
    rw [beVal_beBytes4 _ (by omega), if_pos nullLen_eq.symm]
    rfl
  | some b =>
    have hbl := hv b rfl
    show readCol i fmts ((beBytes 4 b.length ++ b) ++ rest) = _
    rw [List.append_assoc]
    unfold readCol
    rw [readN_append' _ _ 4 (beBytes_length _ _)]
    simp only [Out.bind_ok, hf]
    rw [beVal_beBytes4 _ (by omega), if_neg (by rw [nullLen_eq]; omega)]
    by_cases h0 : b.length = 0
    · have : b = [] := List.eq_nil_of_length_eq_zero h0
      subst this
      rfl
    · rw [if_neg h0, readN_append]
      rfl

theorem readCols_encode (fmts : List Nat) (r : Row) (i : Nat) (rest : Bytes)
    (hb : ∀ b, some b ∈ r → b.length < 2^32 - 1)
    (hf : ∀ j, j < r.length → ∃ b, formatByIndex (i + j) fmts = .ok b) :
    readCols fmts r.length i (r.flatMap encodeCol ++ rest) = .ok (r.map colOf) := by
  induction r generalizing i with
  | nil => rfl
  | cons v r ih =>
    rw [List.flatMap_cons, List.length_cons, List.append_assoc]
    unfold readCols
    rw [readCol_encodeCol i fmts v _ (hf 0 (by simp))
      (fun b hvb => hb b (by rw [hvb]; exact List.mem_cons_self))]
    simp only [Out.bind_ok]
    rw [ih (i + 1) (fun b hm => hb b (List.mem_cons_of_mem _ hm))
      (fun j hj => by
        have := hf (j + 1) (by simp; omega)
        rwa [show i + (j + 1) = i + 1 + j by omega] at this)]
    rfl

/-- 6. `parseColumns` on an encoded non-empty row -/
theorem parseColumns_encodeRow (r : Row) (fmts : List Nat) (hne : r ≠ []) (hr : r.length < 2^16)
    (hb : ∀ b, some b ∈ r → b.length < 2^32 - 1)
    (hf : ∀ i, i < r.length → ∃ b, formatByIndex i fmts = .ok b) :
    parseColumns (encodeRow r) fmts = .ok (r.length, r.map colOf) := by
  have hl : (beBytes 2 r.length).length = 2 := beBytes_length _ _
  have ht : (encodeRow r).take 2 = beBytes 2 r.length := List.take_left' hl
  have hd : (encodeRow r).drop 2 = r.flatMap encodeCol := List.drop_left' hl
  have hpos : r.length ≠ 0 := fun h => hne (List.eq_nil_of_length_eq_zero h)
  unfold parseColumns
  simp only [ht, hd, beVal_beBytes2 _ hr]
  rw [if_neg (by have := encodeRow_length_ge r; omega), if_neg hpos]
  have := readCols_encode fmts r 0 [] hb (fun j hj => by simpa using hf j hj)
  rw [List.append_nil] at this
  rw [this]
  rfl

/-- `parseColumns` on the encoding of the empty row -/
theorem parseColumns_encodeRow_nil (fmts : List Nat) :
    parseColumns (encodeRow []) fmts = .ok (0, []) := by
  have h : beVal ((encodeRow []).take 2) = 0 := by decide
  have h2 : ¬ (encodeRow []).length < 2 := by decide
  unfold parseColumns
  rw [if_neg h2]
  simp only [h]
  rfl

/-! ### DataRow: rewriting -/

/-- the columns after the column loop, for a total transformation -/
def procRow (f : Nat → Bytes → Bytes) : Nat → Row → List Col
  | _, [] => []
  | i, none :: r => colOf none :: procRow f (i + 1) r
  | i, some b :: r => (colOf (some b)).setData (f i b) :: procRow f (i + 1) r

theorem processCols_map_colOf (f : Nat → Bytes → Bytes) (i : Nat) (r : Row) :
    processCols (fun i d => .ok (f i d)) i (r.map colOf) = .ok (procRow f i r) := by
  induction r generalizing i with
  | nil => rfl
  | cons v r ih =>
    cases v with
    | none => simp [processCols, colOf, procRow, ih]
    | some b => simp [processCols, colOf, procRow, ih]

theorem processCols_allNull (g : Nat → Bytes → Out Bytes) (i : Nat) (r : Row)
    (hn : ∀ v, v ∈ r → v = none) :
    processCols g i (r.map colOf) = .ok (r.map colOf) := by
  induction r generalizing i with
  | nil => rfl
  | cons v r ih =>
    have hv := hn v List.mem_cons_self
    subst hv
    simp [processCols, colOf, ih (i + 1) (fun v hm => hn v (List.mem_cons_of_mem _ hm))]

theorem map_colOf_not_changed (r : Row) : (r.map colOf).any (·.changed) = false := by
  induction r with
  | nil => rfl
  | cons v r ih =>
    cases v <;> simp [colOf, ih]

theorem procRow_any_changed (f : Nat → Bytes → Bytes) (i : Nat) (r : Row) (h : ∃ b, some b ∈ r) :
    (procRow f i r).any (·.changed) = true := by
  induction r generalizing i with
  | nil => obtain ⟨b, hb⟩ := h; cases hb
  | cons v r ih =>
    cases v with
    | none =>
      obtain ⟨b, hb⟩ := h
      have hb' : some b ∈ r := by
        cases hb with
        | tail _ hm => exact hm
      simp [procRow, ih (i + 1) ⟨b, hb'⟩]
    | some b => simp [procRow, Col.setData]

theorem mapRow_length (f : Nat → Bytes → Bytes) (i : Nat) (r : Row) :
    (mapRow f i r).length = r.length := by
  induction r generalizing i with
  | nil => rfl
  | cons v r ih => cases v <;> simp [mapRow, ih]

theorem procRow_flatMap (f : Nat → Bytes → Bytes) (i : Nat) (r : Row)
    (hb : ∀ b, some b ∈ mapRow f i r → b.length < 2^32 - 1) :
    (procRow f i r).flatMap (fun c => c.lenBuf ++ c.data) = (mapRow f i r).flatMap encodeCol := by
  induction r generalizing i with
  | nil => rfl
  | cons v r ih =>
    cases v with
    | none =>
      have := ih (i + 1) (fun b hm => hb b (by simp only [mapRow]; exact List.mem_cons_of_mem _ hm))
      simp only [procRow, mapRow, List.flatMap_cons, this]
      rfl
    | some b =>
      have := ih (i + 1) (fun b hm => hb b (by simp only [mapRow]; exact List.mem_cons_of_mem _ hm))
      have hl : (f i b).length < 2^32 - 1 := hb (f i b) (by simp only [mapRow]; exact List.mem_cons_self)
      simp only [procRow, mapRow, List.flatMap_cons, this, Col.setData, colOf, encodeCol]
      rw [Nat.mod_eq_of_lt (by omega)]

theorem procRow_length_sum (f : Nat → Bytes → Bytes) (i : Nat) (r : Row)
    (hb : ∀ b, some b ∈ mapRow f i r → b.length < 2^32 - 1) :
    r.length * 4 + ((procRow f i r).map Col.length).sum = ((mapRow f i r).flatMap encodeCol).length := by
  induction r generalizing i with
  | nil => rfl
  | cons v r ih =>
    cases v with
    | none =>
      have := ih (i + 1) (fun b hm => hb b (by simp only [mapRow]; exact List.mem_cons_of_mem _ hm))
      simp only [procRow, mapRow, List.flatMap_cons, List.map_cons, List.sum_cons, List.length_cons,
        List.length_append, encodeCol, beBytes_length]
      have hc : (colOf none).length = 0 := rfl
      rw [hc]
      omega
    | some b =>
      have := ih (i + 1) (fun b hm => hb b (by simp only [mapRow]; exact List.mem_cons_of_mem _ hm))
      have hl : (f i b).length < 2^32 - 1 := hb (f i b) (by simp only [mapRow]; exact List.mem_cons_self)
      have hc : ((colOf (some b)).setData (f i b)).length = (f i b).length := by
        simp only [Col.length, Col.setData, colOf]
        rw [Nat.mod_eq_of_lt (by omega), beVal_beBytes4 _ (by omega)]
        rfl
      simp only [procRow, mapRow, List.flatMap_cons, List.map_cons, List.sum_cons, List.length_cons,
        List.length_append, encodeCol, beBytes_length, hc]
      omega

/-- 7. **rewrite_wellformed for DataRow**: after a total per-column transformation of a row with at
least one non-NULL column the packet holds the specification encoding of the transformed row and
the matching length field. -/
theorem rewriteRow_encodeRow (f : Nat → Bytes → Bytes) (fmts : List Nat) (t : UInt8) (lb : Bytes)
    (r : Row) (hne : r ≠ []) (hr : r.length < 2^16)
    (hb : ∀ b, some b ∈ r → b.length < 2^32 - 1)
    (hb' : ∀ b, some b ∈ mapRow f 0 r → b.length < 2^32 - 1)
    (hsz : (encodeRow (mapRow f 0 r)).length + 4 < 2^32)
    (hf : ∀ i, i < r.length → ∃ b, formatByIndex i fmts = .ok b)
    (hck : checkFormats fmts = .ok ())
    (hnn : ∃ b, some b ∈ r) :
    rewriteRow (fun i d => .ok (f i d)) fmts ⟨t, lb, encodeRow r⟩ =
      .ok ⟨t, beBytes 4 ((encodeRow (mapRow f 0 r)).length + 4), encodeRow (mapRow f 0 r)⟩ := by
  have hpos : r.length ≠ 0 := fun h => hne (List.eq_nil_of_length_eq_zero h)
  unfold rewriteRow
  rw [hck]
  simp only [Out.bind_ok]
  rw [parseColumns_encodeRow r fmts hne hr hb hf]
  simp only [Out.bind_ok]
  rw [if_neg hpos, processCols_map_colOf]
  simp only [Out.bind_ok, Out.pure_eq]
  unfold updateDataFromColumns
  rw [if_pos (procRow_any_changed f 0 r hnn)]
  have hbody : beBytes 2 (r.length % 2^16) ++ (procRow f 0 r).flatMap (fun c => c.lenBuf ++ c.data)
      = encodeRow (mapRow f 0 r) := by
    unfold encodeRow
    rw [procRow_flatMap f 0 r hb', mapRow_length, Nat.mod_eq_of_lt hr]
  have hlen : r.length * 4 + 2 + ((procRow f 0 r).map Col.length).sum
      = (encodeRow (mapRow f 0 r)).length := by
    have := procRow_length_sum f 0 r hb'
    unfold encodeRow
    rw [List.length_append, beBytes_length]
    omega
  simp only [hbody, hlen]
  unfold packetLength
  rw [lenSize_eq, Nat.mod_eq_of_lt hsz]

/-- 7, companion: a row whose columns are all NULL (or the empty row) is left untouched, whatever
the subscribers do -/
theorem rewriteRow_encodeRow_allNull (g : Nat → Bytes → Out Bytes) (fmts : List Nat) (t : UInt8)
    (lb : Bytes) (r : Row) (hr : r.length < 2^16)
    (hf : ∀ i, i < r.length → ∃ b, formatByIndex i fmts = .ok b)
    (hck : checkFormats fmts = .ok ())
    (hn : ∀ v, v ∈ r → v = none) :
    rewriteRow g fmts ⟨t, lb, encodeRow r⟩ = .ok ⟨t, lb, encodeRow r⟩ := by
  unfold rewriteRow
  rw [hck]
  simp only [Out.bind_ok]
  cases r with
  | nil =>
    rw [parseColumns_encodeRow_nil]
    rfl
  | cons v r' =>
    have hb : ∀ b, some b ∈ v :: r' → b.length < 2^32 - 1 := by
      intro b hm
      cases hn _ hm
    rw [parseColumns_encodeRow (v :: r') fmts (by simp) hr hb hf]
    simp only [Out.bind_ok]
    rw [if_neg (by simp), processCols_allNull g 0 _ hn]
    simp only [Out.bind_ok, Out.pure_eq]
    unfold updateDataFromColumns
    rw [map_colOf_not_changed]
    rfl

theorem processCols_fail (g : Nat → Bytes → Out Bytes) (i : Nat) (pre post : Row) (b : Bytes)
    (hpre : ∀ j d, pre[j]? = some (some d) → ∃ d', g (i + j) d = .ok d')
    (hg : g (i + pre.length) b = .err) :
    processCols g i ((pre ++ some b :: post).map colOf) = .err := by
  induction pre generalizing i with
  | nil =>
    have hg' : g i b = .err := by simpa using hg
    simp [processCols, colOf, hg']
  | cons v pre ih =>
    have ih' := ih (i + 1)
      (fun j d hj => by
        have := hpre (j + 1) d (by simpa using hj)
        rwa [show i + (j + 1) = i + 1 + j by omega] at this)
      (by rw [← hg]; congr 1; simp; omega)
    cases v with
    | none =>
      simp [processCols, colOf] at ih' ⊢
      rw [ih']; rfl
    | some d =>
      obtain ⟨d', hd⟩ := hpre 0 d (by simp)
      have hd' : g i d = .ok d' := by simpa using hd
      simp [processCols, colOf, hd'] at ih' ⊢
      rw [ih']; rfl

/-- 7, failure: when the subscribers fail on a non-NULL column (and succeed on the earlier ones) the
whole DataRow handling fails; nothing is panicking and no partial packet is produced -/
theorem rewriteRow_fail (g : Nat → Bytes → Out Bytes) (fmts : List Nat) (t : UInt8) (lb : Bytes)
    (pre post : Row) (b : Bytes) (hr : (pre ++ some b :: post).length < 2^16)
    (hb : ∀ x, some x ∈ pre ++ some b :: post → x.length < 2^32 - 1)
    (hf : ∀ i, i < (pre ++ some b :: post).length → ∃ fb, formatByIndex i fmts = .ok fb)
    (hck : checkFormats fmts = .ok ())
    (hpre : ∀ j d, pre[j]? = some (some d) → ∃ d', g j d = .ok d')
    (hg : g pre.length b = .err) :
    rewriteRow g fmts ⟨t, lb, encodeRow (pre ++ some b :: post)⟩ = .err := by
  unfold rewriteRow
  rw [hck]
  simp only [Out.bind_ok]
  rw [parseColumns_encodeRow _ fmts (by simp) hr hb hf]
  simp only [Out.bind_ok]
  rw [if_neg (by simp)]
  rw [processCols_fail g 0 pre post b (fun j d hj => by simpa using hpre j d hj) (by simpa using hg)]
  rfl

/-- non-vacuity of `rewriteRow_encodeRow`: a two-column row (one value, one NULL), no declared formats -/
example : rewriteRow (fun i d => .ok ((fun _ d => d ++ [2]) i d)) [] ⟨68, [], encodeRow [some [1], none]⟩ =
    .ok ⟨68, beBytes 4 ((encodeRow (mapRow (fun _ d => d ++ [2]) 0 [some [1], none])).length + 4),
      encodeRow (mapRow (fun _ d => d ++ [2]) 0 [some [1], none])⟩ :=
  rewriteRow_encodeRow _ [] 68 [] [some [1], none] (by simp) (by simp)
    (by intro b hb; simp at hb; subst hb; decide)
    (by intro b hb; simp [mapRow] at hb; subst hb; decide)
    (by decide) (by intro i _; exact ⟨false, rfl⟩) (by rfl) ⟨[1], by simp⟩

/-! ### no panics, whatever the input -/

theorem bind_ne_panic {α β} {x : Out α} {f : α → Out β} (hx : x ≠ .panic)
    (hf : ∀ a, f a ≠ .panic) : (x >>= f) ≠ .panic := by
  cases x with
  | ok a => exact hf a
  | err => simp
  | panic => exact absurd rfl hx

theorem readN_no_panic (s : Bytes) (k : Nat) : readN s k ≠ .panic := by
  unfold readN; split <;> simp

theorem readData_no_panic (pre : Bytes) (dl : Int) (s : Bytes) : readData pre dl s ≠ .panic := by
  unfold readData
  split
  · simp
  · apply bind_ne_panic (readN_no_panic _ _)
    intro ⟨d, rest⟩
    simp

theorem readGeneral_no_panic (s : Bytes) : readGeneral s ≠ .panic := by
  unfold readGeneral
  apply bind_ne_panic (readN_no_panic _ _)
  intro ⟨hdr, rest⟩
  dsimp only
  split
  · simp
  · apply bind_ne_panic (readData_no_panic _ _ _)
    intro ⟨b, r⟩
    simp

theorem readDb_no_panic (s : Bytes) : readDb s ≠ .panic := by
  unfold readDb
  apply bind_ne_panic (readN_no_panic _ _)
  intro ⟨t, rest⟩
  dsimp only
  apply bind_ne_panic (readN_no_panic _ _)
  intro ⟨lenBuf, rest1⟩
  dsimp only
  apply bind_ne_panic (readData_no_panic _ _ _)
  intro ⟨b, r⟩
  simp

theorem readStartup_no_panic (s : Bytes) : readStartup s ≠ .panic := by
  unfold readStartup
  apply bind_ne_panic (readN_no_panic _ _)
  intro ⟨buf, rest⟩
  dsimp only
  split
  · simp
  · apply bind_ne_panic (readData_no_panic _ _ _)
    intro ⟨b, r⟩
    simp

theorem readClient_no_panic (started : Bool) (s : Bytes) : readClient started s ≠ .panic := by
  unfold readClient
  split
  · exact readGeneral_no_panic s
  · exact readStartup_no_panic s

theorem formatByIndex_no_panic (i : Nat) (fmts : List Nat) : formatByIndex i fmts ≠ .panic := by
  unfold formatByIndex
  split
  · simp
  · dsimp only
    generalize (if fmts.length = 1 then fmts.head? else fmts[i]?) = o
    cases o with
    | none => simp
    | some f =>
      dsimp only
      repeat' split
      all_goals simp

theorem readCol_no_panic (i : Nat) (fmts : List Nat) (s : Bytes) : readCol i fmts s ≠ .panic := by
  unfold readCol
  apply bind_ne_panic (readN_no_panic _ _)
  intro ⟨lb, rest⟩
  dsimp only
  apply bind_ne_panic (formatByIndex_no_panic _ _)
  intro _
  split
  · simp
  · split
    · simp
    · apply bind_ne_panic (readN_no_panic _ _)
      intro ⟨d, r⟩
      simp

theorem readCols_no_panic (fmts : List Nat) (n i : Nat) (s : Bytes) : readCols fmts n i s ≠ .panic := by
  induction n generalizing i s with
  | zero => simp [readCols]
  | succ n ih =>
    unfold readCols
    apply bind_ne_panic (readCol_no_panic _ _ _)
    intro ⟨c, rest⟩
    dsimp only
    apply bind_ne_panic (ih _ _)
    intro cs
    simp

theorem parseColumns_no_panic (body : Bytes) (fmts : List Nat) : parseColumns body fmts ≠ .panic := by
  unfold parseColumns
  split
  · simp
  · dsimp only
    split
    · simp
    · apply bind_ne_panic (readCols_no_panic _ _ _ _)
      intro cs
      simp

theorem checkFormats_foldl_no_panic (fmts : List Nat) (l : List Nat) (acc : Out Unit) (h : acc ≠ .panic) :
    l.foldl (fun acc i => do let _ ← acc; let _ ← formatByIndex i fmts; pure ()) acc ≠ .panic := by
  induction l generalizing acc with
  | nil => exact h
  | cons i l ih =>
    rw [List.foldl_cons]
    apply ih
    apply bind_ne_panic h
    intro _
    apply bind_ne_panic (formatByIndex_no_panic _ _)
    intro _
    simp

theorem checkFormats_no_panic (fmts : List Nat) : checkFormats fmts ≠ .panic := by
  unfold checkFormats
  exact checkFormats_foldl_no_panic fmts _ _ (by simp)

theorem processCols_no_panic (g : Nat → Bytes → Out Bytes) (hg : ∀ i d, g i d ≠ .panic) (i : Nat)
    (cols : List Col) : processCols g i cols ≠ .panic := by
  induction cols generalizing i with
  | nil => simp [processCols]
  | cons c cs ih =>
    unfold processCols
    split
    · apply bind_ne_panic (ih _)
      intro r
      simp
    · apply bind_ne_panic (hg _ _)
      intro d
      apply bind_ne_panic (ih _)
      intro r
      simp

theorem rewriteRow_no_panic (g : Nat → Bytes → Out Bytes) (fmts : List Nat) (p : Packet)
    (hg : ∀ i d, g i d ≠ .panic) : rewriteRow g fmts p ≠ .panic := by
  unfold rewriteRow
  apply bind_ne_panic (checkFormats_no_panic _)
  intro _
  apply bind_ne_panic (parseColumns_no_panic _ _)
  intro ⟨cnt, cols⟩
  dsimp only
  split
  · simp
  · apply bind_ne_panic (processCols_no_panic g hg _ _)
    intro cols'
    simp

end AcraModel.Wire.Pg
