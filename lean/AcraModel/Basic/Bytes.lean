/-
Basic vocabulary shared by all models: byte strings, Go-style outcomes (`ok | err | panic`),
Go slice expressions, little/big-endian integers, and hex helpers for the line protocol.
Core Lean only (no Mathlib) so that the driver links as a `lean_exe`.
-/
namespace AcraModel

abbrev Bytes := List UInt8

/-- Outcome of a Go function: a value, a returned error, or a run-time panic. -/
inductive Out (α : Type) where
  | ok : α → Out α
  | err : Out α
  | panic : Out α
deriving Repr, DecidableEq

namespace Out
@[inline] def bind {α β} (x : Out α) (f : α → Out β) : Out β :=
  match x with
  | ok a => f a
  | err => err
  | panic => panic
instance : Monad Out where
  pure := ok
  bind := bind
@[simp] theorem bind_ok {α β} (a : α) (f : α → Out β) : (ok a >>= f) = f a := rfl
@[simp] theorem bind_err {α β} (f : α → Out β) : ((err : Out α) >>= f) = err := rfl
@[simp] theorem bind_panic {α β} (f : α → Out β) : ((panic : Out α) >>= f) = panic := rfl
@[simp] theorem pure_eq {α} (a : α) : (pure a : Out α) = ok a := rfl
def isOk {α} : Out α → Bool | ok _ => true | _ => false
def ofOption {α} : Option α → Out α | some a => ok a | none => err
end Out

/-- Go `b[lo:hi]` on a slice whose capacity equals its length: panics when out of range. -/
def goSlice (b : Bytes) (lo hi : Nat) : Out Bytes :=
  if lo ≤ hi ∧ hi ≤ b.length then .ok ((b.take hi).drop lo) else .panic

/-- Go `b[lo:]`. -/
def goSliceFrom (b : Bytes) (lo : Nat) : Out Bytes :=
  if lo ≤ b.length then .ok (b.drop lo) else .panic

/-- Go `b[i]`. -/
def goIndex (b : Bytes) (i : Nat) : Out UInt8 :=
  match b[i]? with
  | some x => .ok x
  | none => .panic

theorem goSlice_append_mid (a b c : Bytes) :
    goSlice (a ++ b ++ c) a.length (a.length + b.length) = .ok b := by
  unfold goSlice
  have h : a.length ≤ a.length + b.length ∧ a.length + b.length ≤ (a ++ b ++ c).length := by
    simp [List.length_append]
  rw [if_pos h]
  simp [List.take_append]

theorem goSlice_prefix (a c : Bytes) : goSlice (a ++ c) 0 a.length = .ok a := by
  have := goSlice_append_mid [] a c
  simpa using this

theorem goSliceFrom_append (a c : Bytes) : goSliceFrom (a ++ c) a.length = .ok c := by
  unfold goSliceFrom; simp

theorem goSlice_length {b r : Bytes} {lo hi : Nat} (h : goSlice b lo hi = .ok r) : r.length = hi - lo := by
  unfold goSlice at h
  split at h
  · next hc => cases h; simp [List.length_drop, List.length_take]; omega
  · cases h

/-- little-endian encoding of `n` on `k` bytes (Go `binary.LittleEndian.PutUintNN`, truncating). -/
def leBytes : Nat → Nat → Bytes
  | 0, _ => []
  | k+1, n => UInt8.ofNat (n % 256) :: leBytes k (n / 256)

def leVal : Bytes → Nat
  | [] => 0
  | b :: bs => b.toNat + 256 * leVal bs

/-- big-endian encoding of `n` on `k` bytes. -/
def beBytes (k n : Nat) : Bytes := (leBytes k n).reverse

def beVal (b : Bytes) : Nat := leVal b.reverse

@[simp] theorem leBytes_length (k n : Nat) : (leBytes k n).length = k := by
  induction k generalizing n with
  | zero => rfl
  | succ k ih => simp [leBytes, ih]

@[simp] theorem beBytes_length (k n : Nat) : (beBytes k n).length = k := by simp [beBytes]

theorem leVal_leBytes (k n : Nat) : leVal (leBytes k n) = n % 256 ^ k := by
  induction k generalizing n with
  | zero => simp [leBytes, leVal, Nat.mod_one]
  | succ k ih =>
    simp only [leBytes, leVal, ih]
    have h : (UInt8.ofNat (n % 256)).toNat = n % 256 := by
      simp [UInt8.toNat_ofNat']
    rw [h, Nat.pow_succ, Nat.mul_comm (256 ^ k) 256, Nat.mod_mul]

theorem leVal_leBytes_of_lt (k n : Nat) (h : n < 256 ^ k) : leVal (leBytes k n) = n := by
  rw [leVal_leBytes, Nat.mod_eq_of_lt h]

theorem beVal_beBytes_of_lt (k n : Nat) (h : n < 256 ^ k) : beVal (beBytes k n) = n := by
  simp [beVal, beBytes, leVal_leBytes_of_lt k n h]

theorem leVal_lt (b : Bytes) : leVal b < 256 ^ b.length := by
  induction b with
  | nil => simp [leVal]
  | cons x xs ih =>
    simp only [leVal, List.length_cons, Nat.pow_succ]
    have := x.toNat_lt
    omega

theorem leBytes_leVal (b : Bytes) : leBytes b.length (leVal b) = b := by
  induction b with
  | nil => rfl
  | cons x xs ih =>
    simp only [List.length_cons, leBytes, leVal]
    have hx := x.toNat_lt
    have h1 : (x.toNat + 256 * leVal xs) % 256 = x.toNat := by omega
    have h2 : (x.toNat + 256 * leVal xs) / 256 = leVal xs := by omega
    rw [h1, h2, ih]
    simp

/-- Reinterpretation of a 64-bit pattern as Go `int64`/`int` (two's complement). -/
def toInt64 (n : Nat) : Int :=
  if n % 2^64 < 2^63 then ((n % 2^64 : Nat) : Int) else ((n % 2^64 : Nat) : Int) - ((2^64 : Nat) : Int)

/-! ### hex helpers (driver only) -/

def hexDigit (n : Nat) : Char := if n < 10 then Char.ofNat (48 + n) else Char.ofNat (87 + n)

def hexOf (b : Bytes) : String :=
  if b.isEmpty then "-" else
  String.ofList (b.flatMap fun x => [hexDigit (x.toNat / 16), hexDigit (x.toNat % 16)])

def hexVal (c : Char) : Option Nat :=
  if '0' ≤ c ∧ c ≤ '9' then some (c.toNat - 48)
  else if 'a' ≤ c ∧ c ≤ 'f' then some (c.toNat - 87)
  else if 'A' ≤ c ∧ c ≤ 'F' then some (c.toNat - 55)
  else none

/-- tail-recursive (inputs of many megabytes must not overflow the stack) -/
def ofHexCharsAux : List Char → Array UInt8 → Option Bytes
  | [], acc => some acc.toList
  | [_], _ => none
  | a :: b :: r, acc =>
    match hexVal a, hexVal b with
    | some x, some y => ofHexCharsAux r (acc.push (UInt8.ofNat (16 * x + y)))
    | _, _ => none

def ofHexChars (l : List Char) : Option Bytes := ofHexCharsAux l #[]

/-- `-` is the empty string; otherwise an even number of hex digits. -/
def ofHex (s : String) : Option Bytes :=
  if s = "-" then some [] else ofHexChars s.toList

def Out.render {α} (f : α → String) : Out α → String
  | .ok a => "ok " ++ f a
  | .err => "err"
  | .panic => "panic"

end AcraModel
