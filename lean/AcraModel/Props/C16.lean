import AcraModel.Sql.RedactLemmas
import AcraModel.Sql.ShapeLemmas
import AcraModel.Sql.LogModel
import AcraModel.Sql.LogSites
import AcraModel.Sql.ErrText
/-!
# C16 — literal values from statements never appear in logs nor in the redacted form

Property theorems only (helper lemmas: `Sql/RedactLemmas.lean`; model: `Sql/{Tree,Redact,Shape}.lean`).

What is stated here, about the model of `RedactSQLQuery` / `Parser.HandleRawSQLQuery`
(`redact = maskLiterals ∘ Normalize` on generic trees whose tables are regenerated from the source):

* facts about the regenerated tables (`fact_*`): which `ValType`s are literals, that Acra's masking
  pass covers all of them, that both entry points run `Normalize` then `maskLiterals` and print the tree
  they redacted, which fields no `walkSubtree` visits, that log calls mention no variable holding raw
  or merely normalised statement text;
* `redact_no_literals` – no literal is left in the redacted tree;
* `redact_shape` – the redacted tree has the shape of the original;
* `fresh_names` – a generated placeholder name never collides with a bind variable already present
  (nor with an earlier generated one);
* `log_args_redacted` – in the censor/proxy logging model only redacted text or constants reach a log call.
-/
namespace AcraModel.Props.C16
open AcraModel AcraModel.Sql Generated.SqlLiterals

/-! ## facts about the regenerated tables -/

/-- The `ValType` constants, in the order the harness numbers them. -/
theorem fact_valTypes :
    valTypes = ["StrVal", "IntVal", "FloatVal", "HexNum", "HexVal", "ValArg", "BitVal", "PgEscapeString",
      "PgPlaceholder", "UnknownVal"] := by decide

/-- Every alternative of the grammar rule `value:` that builds an `SQLVal` from a token is classified
here as carrying literal text or as a placeholder – a new kind of value token forces a decision. -/
theorem fact_value_tokens_classified :
    ∀ r ∈ valueTokens, r.2 = [] ∨ r.1 ∈ literalTokens ∨ r.1 ∈ placeholderTokens ∨ r.1 = "value typecast" := by
  decide

/-- The literal `ValType`s are exactly these seven (all quoting forms of strings, all numeric forms). -/
theorem fact_literal_kinds :
    literalKindNames = ["StrVal", "HexVal", "BitVal", "IntVal", "FloatVal", "HexNum", "PgEscapeString"] := by decide

/-- **Every literal `ValType` is masked**: `maskLiterals` has a case for each literal kind the grammar
produces. (On the pinned tree there was no such pass and `sqlToBindvar` handled only
`StrVal/IntVal/FloatVal` – DESIGN §8 #7.) -/
theorem fact_literal_kinds_masked : ∀ k ∈ literalKindNames, k ∈ maskCases := by decide

/-- Placeholders are never "masked" again: only literal kinds are. -/
theorem fact_masked_only_literals : ∀ k ∈ maskCases, k ∈ literalKindNames := by decide

/-- What `Normalize` converts is a subset of the literal kinds, and its failing validator is limited to
the numeric bind types (the model's `Validator` is consulted for exactly these). -/
theorem fact_bindvar_cases :
    bindvarCases = [("StrVal", "VarBinary", true), ("IntVal", "Int64", true), ("FloatVal", "Float64", true)] := by decide

/-- Both entry points parse, run `Normalize` and then `maskLiterals` on the same statement and print that
statement afterwards (`HandleRawSQLQuery` prints it once before, for the normalised text). -/
theorem fact_redact_pipeline :
    redactPipeline =
      [("RedactSQLQuery", ["Parse", "Normalize(stmt)", "maskLiterals(stmt)", "String(stmt)"]),
       ("HandleRawSQLQuery", ["Parse", "Parse", "String(stmt)", "Normalize(stmt)", "maskLiterals(stmt)", "String(stmt)"])] := by
  decide

/-- `SQLVal.Format` has a case for every `ValType` (no statement can make it panic "unexpected"). -/
theorem fact_format_total : ∀ v ∈ valTypes, v ∈ formatCases.map (·.1) := by decide

/-- fields that may hold an `SQLVal` and that the owner's `walkSubtree` does not hand to `Walk` -/
def unwalkedHolders : List (String × String) :=
  nodes.flatMap fun r =>
    (r.2.2.1.filter fun f => f.2.2 && !r.2.2.2.contains f.1).map fun f => (r.1, f.1)

/-- **Traversal coverage.** The only fields that can hold a value node and are not visited are the ones
listed: DDL column/index options, type lengths, SHOW filters (known findings, see `known_findings.json`)
and the operand of a cast of NULL/DEFAULT (`SQLVal.unknown`, which the grammar never fills with a
literal). In particular every clause of SELECT/UNION/INSERT/UPDATE/DELETE/EXECUTE is visited.
(On the pinned tree the list also had Union.OrderBy/Limit, Insert.Returning, Update.From/Returning,
Delete.Targets/Returning and Execute.Values.) -/
theorem fact_walk_covers_children :
    unwalkedHolders =
      [("DDL", "TableSpec"), ("DDL", "PartitionSpec"),
       ("ColumnType", "Default"), ("ColumnType", "OnUpdate"), ("ColumnType", "Comment"), ("ColumnType", "Length"),
       ("ColumnType", "Scale"),
       ("IndexDefinition", "Columns"), ("IndexDefinition", "Options"),
       ("IndexColumn", "Length"), ("LengthScaleOption", "Length"), ("LengthScaleOption", "Scale"),
       ("IndexOption", "Value"),
       ("Show", "ShowTablesOpt"), ("ShowTablesOpt", "Filter"), ("ShowFilter", "Filter"),
       ("SQLVal", "unknown"),
       ("ConvertType", "Length"), ("ConvertType", "Scale")] := by decide

/-- strictly increasing list of numbers -/
def increasing : List Nat → Bool
  | a :: b :: r => a < b && increasing (b :: r)
  | _ => true

/-- **The model's traversal order is the code's.** Every `walkSubtree` of a struct type passes fields in
declaration order, each at most once – so visiting the children left to right (what `Sql.walk` does) is
the traversal of `Walk`, with the same order of generated names. (On the pinned tree `Delete` passed
`TableExprs` twice and `Execute` passed `Using` before `PreparedStatementName`.) -/
theorem fact_walk_field_order :
    (nodes.all fun r => r.2.1 != "struct" ||
      increasing (r.2.2.2.filterMap fun w => indexOf? w (r.2.2.1.map (·.1)))) = true := by decide

/-- identifiers that hold statement text which must not be printed: the raw statement, the merely
normalised statement, and parser input -/
def taintedIdents : List String :=
  ["sql", "query", "rawQuery", "sqlQuery", "normalizedQuery", "normalizedQ", "sqlStripped", "blob", "Query",
   "parsePacket", "data"]

/-- **Log call sites.** No logging call (nor `WithField/WithError` on a logger) in the anchored files –
AcraCensor and its handlers, the query writer, both proxies' packet loops, the parser – mentions a
variable that holds raw or normalised statement text. The only statement text that reaches a log call is
`queryWithHiddenValues`. (On the pinned tree `ParseWithDialect` logged `sql`.) -/
theorem fact_log_args_untainted :
    (logIdents.all fun r => r.2.2.all fun i => !taintedIdents.contains i) = true := by decide

/-- the functions whose log calls print statement text print the redacted one -/
theorem fact_log_statement_text :
    (logIdents.filter fun r => r.2.2.contains "queryWithHiddenValues").map (fun r => r.2.1) =
      ["AcraCensor.logAllowedQuery", "AcraCensor.logDeniedQuery", "PgProxy.handleQueryPacket",
       "Handler.ProxyClientConnection"] := by decide


/-! ## facts about every log call site on the query path (`Generated/LogSites.lean`) -/

section LogSites
open AcraModel.Generated.LogSites AcraModel.Sql.LogSites
-- the tables have several hundred rows: `decide` walks them recursively
set_option maxRecDepth 100000

/-- The walk covers both proxies, the query observers (encryptor, searchable filter, tokenizer, hmac), the response
processors, AcraCensor and its handlers, the parser, and the function of acra-server that ends a session. -/
theorem fact_walk_covers_query_path :
    (["decryptor/postgresql/pg_decryptor.go", "decryptor/postgresql/protocol.go", "decryptor/postgresql/prepared_statements.go",
      "decryptor/postgresql/data_encoder.go", "decryptor/mysql/response_proxy.go", "decryptor/mysql/prepared_statements.go",
      "decryptor/mysql/data_encoder.go", "decryptor/base/decryptionNotification.go",
      "encryptor/postgresql/queryDataEncryptor.go", "encryptor/postgresql/searchable_query_filter.go", "encryptor/postgresql/observer.go",
      "encryptor/mysql/queryDataEncryptor.go", "encryptor/mysql/searchable_query_filter.go", "encryptor/mysql/observer.go",
      "hmac/decryptor/postgresql/hashQuery.go", "hmac/decryptor/mysql/hashQuery.go", "hmac/dataEncryptor.go",
      "pseudonymization/postgresql_tokenize_query.go", "pseudonymization/mysql_tokenize_query.go", "pseudonymization/dataTokenizer.go",
      "masking/dataProcessor.go", "crypto/envelope_detector.go", "acra-censor/acra-censor_implementation.go",
      "acra-censor/handlers/deny_handler.go", "sqlparser/ast_methods.go", "cmd/acra-server/common/listener.go"].all
        fun f => walkedFiles.contains f) = true := by decide

/-- Every call site has constant text in its message: no site prints a message made of variables only (such a site
could print anything, and no captured entry could be told from it). -/
theorem fact_sites_not_opaque : (logSites.all fun s => !isOpaque s.2.2.2) = true := by decide

/-- **No tainted identifier reaches a log call.** In every function of the walked files, no argument of a printing
call nor of `WithField/WithFields/WithError` on a logger mentions a name under which the code holds statement text,
a literal, a bound value or a column value – except at the listed places, where the name holds a placeholder's own
text (`?`, `:v1`). Lengths (`len(x)`) are not values. -/
theorem fact_site_idents_untainted :
    (siteIdents.all fun r => r.2.2.all fun i =>
      !valueIdents.contains i || exemptions.any fun e => e.1 == r.1 && e.2.1 == r.2.1 && e.2.2.1 == i) = true := by decide

/-- every exemption is in use (a stale one would hide a future leak under the same name) -/
theorem fact_exemptions_used :
    (exemptions.all fun e => siteIdents.any fun r => r.1 == e.1 && r.2.1 == e.2.1 && r.2.2.contains e.2.2.1) = true := by decide

/-- The only statement text any function on the query path hands to a logger is `queryWithHiddenValues`, and these
are the functions that do. -/
theorem fact_statement_text_sites :
    (siteIdents.filter fun r => r.2.2.contains "queryWithHiddenValues").map (fun r => (r.1, r.2.1)) =
      [("acra-censor/acra-censor_implementation.go", "AcraCensor.logAllowedQuery"),
       ("acra-censor/acra-censor_implementation.go", "AcraCensor.logDeniedQuery"),
       ("decryptor/postgresql/pg_decryptor.go", "PgProxy.handleQueryPacket"),
       ("decryptor/mysql/response_proxy.go", "Handler.ProxyClientConnection")] := by decide

/-- **Errors that wrap a value.** `strconv`'s errors quote their input. Every conversion on the query path whose
error can travel on (returned, logged, or used in a way the extractor does not recognise) converts configuration or
a placeholder's number – all conversions of statement literals, bound parameters and column values either only test
the error or pass it through `utils.ErrorWithoutValue`. (Before repo patch 81 the tokenizer and the MySQL/PostgreSQL
value encoders returned the raw error and a dozen call sites logged it.) -/
theorem fact_value_conversions_sanitized :
    (conversions.all fun c =>
      !escaping c.2.2.2.2 || nonValueConversions.any fun n => n.1 == c.1 && n.2.1 == c.2.1) = true := by decide

/-- every entry of `nonValueConversions` is in use -/
theorem fact_non_value_conversions_used :
    (nonValueConversions.all fun n => conversions.any fun c => c.1 == n.1 && c.2.1 == n.2.1 && escaping c.2.2.2.2) = true := by decide

/-- PostgreSQL's parser is called at one place only, `postgresql.ParseQuery`, which drops the `at or near "<token>"`
part of a syntax error (the token can be a literal). (Before repo patch 82: three direct calls, errors logged at
debug and – through the end of the session – at error level.) -/
theorem fact_pg_parse_sanitized : pgParseCalls = [("encryptor/postgresql/observer.go", "ParseQuery")] := by decide

/-- the matcher on examples: a formatted message fits its pattern, a constant pattern fits only itself, and statement
text fits neither -/
example : matchPieces ["Parsing error on query: ", ""] "Parsing error on query: " = true := by decide
example : matchPieces ["parsedQuery: ", ", queryWithHiddenValues: ", ""] "parsedQuery: *sqlparser.Select, queryWithHiddenValues: select 1" = true := by decide
example : matchPieces ["New query"] "New query" = true ∧ matchPieces ["New query"] "New query select 'x'" = false := by decide
example : matchPieces ["Parsing error on query: ", ""] "select a from t where b = 'x'" = false := by decide
example : levelOf "Debugf" = "debug" ∧ levelOf "Warningln" = "warning" ∧ levelOf "Printf" = "info" := by decide

end LogSites

/-- the facts the traversal proofs use, from the regenerated tables -/
theorem tableFacts : TableFacts where
  lit_masked := by
    intro ty h
    have hall : literalKinds.all (fun x => maskedKinds.contains x) = true := by decide
    rw [List.all_eq_true] at hall
    exact hall ty (by simpa using h)
  valarg_not_lit := by decide
  valarg_dec := by decide
  listarg_leaf := by decide

/-! ## property theorems -/

/-- **No literal survives redaction.** For every statement tree whose literals sit where the traversal
goes (`covered`: what `fact_walk_covers_children` leaves open is checked by the harness on every parsed
statement) and whatever `sqltypes.NewValue` accepts, the tree printed by `RedactSQLQuery` /
`HandleRawSQLQuery` contains no literal of any kind, at any position. -/
theorem redact_no_literals (valid : Validator) (t : Tree) (h : covered t = true) :
    lits (redact valid t) = [] := by
  unfold redact maskLiterals normalize
  exact maskWalk_lits tableFacts _ _ _ (walk_covered tableFacts valid _ false t _ h)

/-- what the shape proofs use from the regenerated tables: only literal kinds are converted or masked -/
theorem shapeFacts : ShapeFacts where
  masked_lit := by
    intro ty h
    have hall : maskedKinds.all (fun x => literalKinds.contains x) = true := by decide
    rw [List.all_eq_true] at hall
    exact hall ty (by simpa using h)
  converted_lit := by
    intro ty h
    have hall : convertedKinds.all (fun x => literalKinds.contains x) = true := by decide
    rw [List.all_eq_true] at hall
    exact hall ty (by simpa using h)
  valarg_dec := by decide

/-- **Redaction keeps the statement's shape.** For every statement tree (covered or not) and whatever
`sqltypes.NewValue` accepts, the redacted tree and the original have the same shape: every node, field,
identifier, operator and keyword is unchanged, a placeholder stands exactly where a literal (or an older
placeholder) stood, and an IN list of values is still a list of values (`::name` or a tuple of placeholders). -/
theorem redact_shape (valid : Validator) (t : Tree) : shape (redact valid t) = shape t := by
  unfold redact maskLiterals normalize
  rw [(maskWalk_sameLook shapeFacts _ _ _).shape_eq, (walk_sameLook shapeFacts valid _ false t _).shape_eq]

/-- the same for `Normalize` alone, with any prefix -/
theorem normalize_shape (valid : Validator) (pfx : Bytes) (t : Tree) : shape (normalize valid pfx t) = shape t :=
  (walk_sameLook shapeFacts valid pfx false t _).shape_eq

/-- `Normalize` alone (the first pass, any prefix) never un-covers a statement: nothing it rewrites can
hide a literal from the masking pass. -/
theorem normalize_keeps_covered (valid : Validator) (pfx : Bytes) (t : Tree) (h : covered t = true) :
    covered (normalize valid pfx t) = true :=
  walk_covered tableFacts valid pfx false t _ h

/-- **Fresh names.** The name `newName` hands out is not reserved – neither a bind variable that was
already in the statement (`reserved` starts as `GetBindvars`) nor a name handed out before – and it is
reserved from then on. The loop always finds one within `|reserved| + 1` steps. -/
theorem fresh_names (pfx : Bytes) (s : St) :
    (newName pfx s).1 ∉ s.reserved ∧ (newName pfx s).2.reserved = (newName pfx s).1 :: s.reserved ∧
    ∃ c, s.counter ≤ c ∧ (newName pfx s).1 = nameOf pfx c := by
  have hf := newNameAux_fresh pfx s.reserved (s.reserved.length + 1) s.counter (exists_free pfx s.reserved s.counter)
  exact ⟨hf.1, rfl, _, hf.2.2, hf.2.1⟩

/-- distinct counters give distinct names (so two generated placeholders coincide only by dedup) -/
theorem names_injective (pfx : Bytes) (a b : Nat) (h : nameOf pfx a = nameOf pfx b) : a = b := nameOf_inj pfx h

open LogModel in
/-- **Only redacted text (or none) reaches a log call.** In the model of the query-logging path – the
proxies' debug block followed by `AcraCensor.HandleQuery` with any list of handlers, any handler decisions,
either parse-error policy and either level – every entry prints a constant message, or the redacted
statement; never the raw or the merely normalised statement. (The model is compared entry by entry with
the captured output of the real AcraCensor and handlers: op `C16.logtrace`.) -/
theorem log_args_redacted (c : Config) (p : Parse) :
    ∀ e ∈ (proxyQuery c p).1, e.payload = none ∨ e.payload = some .redacted := by
  intro e he
  have he := mem_proxyQuery he
  unfold proxyQueryAll at he
  simp only [List.mem_append] at he
  rcases he with (hd | hq) | hb
  · cases hdbg : c.debug <;> simp [hdbg] at hd
    cases p <;> simp at hd <;> (rw [hd]; simp)
  · unfold handleQuery at hq
    split at hq
    · simp at hq
    · cases p with
      | fail =>
        simp only at hq
        split at hq
        · rcases List.mem_cons.mp hq with h | h
          · rw [h]; simp
          · exact runHandlers_payload _ _ e h
        · simp at hq; rw [hq]; simp
      | ok b => exact runHandlers_payload _ _ e hq
  · split at hb <;> simp at hb
    rw [hb]; simp

open LogModel in
/-- **Unparseable statements never appear in log messages.** When `HandleRawSQLQuery` reports a syntax error
no entry on the path carries any statement text at all – whatever the handlers, the parse-error policy
(`ignore_parse_error`) and the level. (The operator's separate capture file, `parse_errors_log`, is not a log.) -/
theorem unparseable_never_logged (c : Config) :
    ∀ e ∈ (proxyQuery c .fail).1, e.payload = none := by
  intro e he
  have he := mem_proxyQuery he
  unfold proxyQueryAll at he
  simp only [List.mem_append] at he
  rcases he with (hd | hq) | hb
  · cases hdbg : c.debug <;> simp [hdbg] at hd
    rw [hd]
  · unfold handleQuery at hq
    split at hq
    · simp at hq
    · simp only at hq
      split at hq
      · rcases List.mem_cons.mp hq with h | h
        · rw [h]
        · exact runHandlers_fail _ e h
      · simp at hq; rw [hq]
  · split at hb <;> simp at hb
    rw [hb]


/-! ## errors that reach log calls carry no value -/

open ErrText in
/-- **A conversion error says nothing about the value.** The text of `utils.ErrorWithoutValue(err)` for `strconv`'s
error depends on the function and the cause only – two inputs that fail the same way give the same text (the text of
the unrepaired error differs, see the example below). Compared with the real function on generated values: op `C16.numerr`. -/
theorem error_without_value_hides_input (f : String) (c : Cause) (v w : String) :
    withoutValue ⟨f, v, c⟩ = withoutValue ⟨f, w, c⟩ := rfl

open ErrText Generated.ErrText in
/-- `ParseQuery` cuts PostgreSQL's message at the FIRST ` at or near ` (`strings.Index`; with `strings.LastIndex` –
seeded change C16-4 – a token that itself contains the phrase keeps its beginning in the error), keeps what stands
before it, and builds the new error from that and the cursor position only; of the parser's error it reads nothing
but `Message` and `Cursorpos` -/
theorem fact_pg_sanitiser : pgCutSearch = "strings.Index" ∧ pgCutSeparator = " at or near " ∧ pgCutKeeps = "message[:i]" ∧
    pgErrorFormat = "%s at position %d" ∧ pgErrorArgs = ["message", "parseErr.Cursorpos"] ∧
    pgErrorFieldsUsed = ["Cursorpos", "Message"] := by decide

open ErrText Generated.ErrText in
/-- **A PostgreSQL syntax error says nothing about the token next to it.** Whatever follows ` at or near ` in the
parser's message – the token, which can be a literal or the rest of an unterminated string, and may itself contain
` at or near `, quotes and line breaks – the text `ParseQuery` returns is the same. `pgError` is the function the code
computes NOW (search function, separator and format regenerated). Compared with the real function on generated
statements and messages: ops `C16.pgerr`, `C16.pgsan`. -/
theorem pg_error_hides_token (kind tok tok' : List Char) (pos : Nat) :
    pgError (kind ++ atOrNear ++ tok) pos = pgError (kind ++ atOrNear ++ tok') pos := by
  unfold pgError atOrNear
  rw [fact_pg_sanitiser.1, fact_pg_sanitiser.2.1, fact_pg_sanitiser.2.2.2.1, pgErrorWith_std, pgErrorWith_std]
  unfold pgErrorStd
  rw [cut_append, cut_append " at or near ".toList kind tok']

open ErrText Generated.ErrText in
/-- **The sanitised message is a function of (kind, position) only.** For EVERY message of PostgreSQL's shape
`<kind> at or near <token>` – the token arbitrary: a string literal, the rest of an unterminated quoted or dollar-quoted
string, text that contains ` at or near ` again, quotes, line breaks – and every cursor position, `ParseQuery`'s error
is `<kind> at position <pos>`: no character of the token is in it. (`kind` is one of PostgreSQL's fixed texts – `syntax
error`, `unterminated quoted string` … – none of which contains the phrase: hypothesis `hk`, discharged for them in
`pg_kinds_clean`.) -/
theorem pg_error_sanitised_is_token_free (kind tok : List Char) (pos : Nat)
    (hk : occurs atOrNear (kind ++ atOrNear.dropLast) = false) :
    pgError (kind ++ atOrNear ++ tok) pos = kind ++ " at position ".toList ++ (toString pos).toList := by
  unfold pgError
  unfold atOrNear at hk ⊢
  rw [fact_pg_sanitiser.1, fact_pg_sanitiser.2.1, fact_pg_sanitiser.2.2.2.1, pgErrorWith_std]
  rw [fact_pg_sanitiser.2.1] at hk
  unfold pgErrorStd
  rw [cut_clean " at or near ".toList kind tok (by decide) hk]

/-- the message kinds of PostgreSQL's scanner and grammar that come with ` at or near "<token>"` -/
def pgKinds : List String :=
  ["syntax error", "unterminated quoted string", "unterminated dollar-quoted string", "unterminated quoted identifier",
   "unterminated /* comment", "unterminated bit string literal", "unterminated hexadecimal string literal",
   "zero-length delimited identifier", "trailing junk after numeric literal", "trailing junk after parameter",
   "invalid Unicode escape", "invalid Unicode escape value", "invalid Unicode surrogate pair", "operator too long", "parameter number too large",
   "invalid hexadecimal integer", "invalid octal integer", "invalid binary integer"]

open ErrText in
/-- none of these kinds hosts the start of an ` at or near ` -/
theorem pg_kinds_clean : ∀ k ∈ pgKinds, occurs atOrNear (k.toList ++ atOrNear.dropLast) = false := by decide

open ErrText in
/-- **Seeded change C16-4 as a theorem about the model.** With the cut at the LAST ` at or near ` the beginning of a
token that contains the phrase stays in the error text; with the first one it does not. -/
theorem last_index_cut_keeps_token_counterexample :
    pgErrorWith "strings.LastIndex" " at or near " "%s at position %d"
        "syntax error at or near \"'SECRET was seen at or near the gate'\"".toList 29 =
      "syntax error at or near \"'SECRET was seen at position 29".toList ∧
    pgErrorWith "strings.Index" " at or near " "%s at position %d"
        "syntax error at or near \"'SECRET was seen at or near the gate'\"".toList 29 =
      "syntax error at position 29".toList := by decide

open ErrText in
/-- `strconv`'s own text does tell the inputs apart – the repair is not vacuous -/
example : (NumError.text ⟨"ParseInt", "secret1", .syntax⟩ == NumError.text ⟨"ParseInt", "secret2", .syntax⟩) = false := by decide
open ErrText in
example : withoutValue ⟨"ParseInt", "secret1", .syntax⟩ = "strconv.ParseInt: invalid syntax" := by decide
open ErrText in
example : pgError "syntax error at or near \"'secret'\"".toList 27 = "syntax error at position 27".toList := by decide
open ErrText in
/-- `pg_error_sanitised_is_token_free` on an unterminated string whose rest contains the phrase, a quote and a line break -/
example : pgError ("unterminated quoted string".toList ++ atOrNear ++ "\"'Zq9 seen at or near \"the\" gate\nnext".toList) 31 =
    "unterminated quoted string at position 31".toList :=
  pg_error_sanitised_is_token_free _ _ 31 (pg_kinds_clean "unterminated quoted string" (by decide))

/-! ## non-vacuity -/

/-- `select a from t where b = X'AB' union select c from u limit 7`-like tree: covered, with literals. -/
def exampleTree : Tree :=
  .node "Union" [.atom [], .node "ParenSelect" [.node "nil" []], .node "ParenSelect" [.node "nil" []],
    .node "OrderBy" [.node "Order" [mkSqlVal 4 [65, 66] [.atom [], .node "nil" []], .atom []]],
    .node "Limit" [.node "nil" [], mkSqlVal 1 [55] [.atom [], .node "nil" []], .atom [48]], .atom []]

example : covered exampleTree = true := by decide
example : lits exampleTree = [[65, 66], [55]] := by decide
example : lits (redact (fun _ _ => true) exampleTree) = [] := redact_no_literals _ _ (by decide)
example : shape (redact (fun _ _ => false) exampleTree) = shape exampleTree := redact_shape _ _
example : (shape exampleTree == exampleTree) = false := by decide

open LogModel in
/-- a configuration in which text is printed: debug level, a deny-by-table handler that blocks -/
example : (proxyQuery ⟨[.capture, .security .deny true], false, false, true⟩ (.ok false)).1 =
    [⟨.proxyNewQuery, some .redacted⟩, ⟨.handlerOwn, none⟩, ⟨.deniedShown, some .redacted⟩, ⟨.deniedBy, none⟩,
     ⟨.censorBlocked, none⟩] := by decide

end AcraModel.Props.C16
