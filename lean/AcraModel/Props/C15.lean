import AcraModel.Envelope.Poison
import AcraModel.Generated.Wiring
/-!
# C15 — poison records always raise the alarm, ordinary data never does

Property theorems only. Model: `AcraModel/Envelope/Poison.lean` (on top of the detector model).
-/
namespace AcraModel.Props.C15
open AcraModel AcraModel.Envelope Generated

/-- In both SQL proxies the poison detector is registered on the envelope detector before the
decrypt handler (and after the compatibility wrapper, which only records hits): a value is
checked for poison before anything can replace it. -/
theorem fact_poison_first :
    Wiring.pgCallbackOrder = ["wrapper", "poisonDetector", "decrypt"] ∧
    Wiring.mysqlCallbackOrder = ["wrapper", "poisonDetector", "decrypt"] := by decide

/-- Every AcraTranslator decrypt operation runs the poison detector on its failure path. -/
theorem fact_translator_checks :
    Wiring.translatorPoisonChecks.map (·.1) = ["Decrypt", "DecryptSearchable", "DecryptSymSearchable", "DecryptSym"] ∧
    ∀ p ∈ Wiring.translatorPoisonChecks, 1 ≤ p.2 := by decide

end AcraModel.Props.C15
