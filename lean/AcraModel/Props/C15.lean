import AcraModel.Envelope.Poison
import AcraModel.Envelope.PoisonLemmas
import AcraModel.Generated.Wiring
import AcraModel.Props.C01
import AcraModel.Props.C06
import AcraModel.Keystore.V1CacheKeys
import AcraModel.Generated.V1CacheKeys
/-!
# C15 — poison records always raise the alarm, ordinary data never does

Property theorems only. Model: `AcraModel/Envelope/Poison.lean` (on top of the detector model).
-/
namespace AcraModel.Props.C15
open AcraModel AcraModel.Envelope Generated AcraModel.Props.C01

/-- In both SQL proxies the poison detector is registered on the envelope detector before the
decrypt handler (and after the compatibility wrapper, which only records hits): a value is
checked for poison before anything can replace it. -/
theorem fact_poison_first :
    Wiring.pgCallbackOrder = ["wrapper", "poisonDetector", "decrypt"] ∧
    Wiring.mysqlCallbackOrder = ["wrapper", "poisonDetector", "decrypt"] := by decide

/-- Every AcraTranslator decrypt operation runs the poison detector on its failure path. -/
theorem fact_translator_checks :
    Wiring.translatorPoisonChecks.map (·.1) = ["Decrypt", "DecryptSearchable", "DecryptSymSearchable", "DecryptSym"] ∧
    ∀ p ∈ Wiring.translatorPoisonChecks, 1 ≤ p.2 := by decide

/-- **What each poison check of AcraTranslator scans.** Every `service.poisonDetector.OnColumn` call of the four
decrypt operations, with the variable it receives and what that variable HOLDS on the path to the call (data flow
regenerated from `service.go` and `hmac.ExtractHashAndData`): after a failed reveal the detector gets the very buffer
`DecryptWithHandler` had received; when no hash can be cut off (`hashPart == nil`) it gets `dataToDecrypt` – NOT
`containerData`, which is `nil` on that path (seeded change C15-4). -/
theorem fact_translator_sites :
    Wiring.translatorPoisonSites =
      [("Decrypt", "decrypt-failed", "acraStruct", "input", "input"),
       ("DecryptSearchable", "no-hash", "dataToDecrypt", "hash++input", "-"),
       ("DecryptSearchable", "decrypt-failed", "containerData", "rest-after-hash", "rest-after-hash"),
       ("DecryptSymSearchable", "no-hash", "dataToDecrypt", "hash++input", "-"),
       ("DecryptSymSearchable", "decrypt-failed", "containerData", "rest-after-hash", "rest-after-hash"),
       ("DecryptSym", "decrypt-failed", "acraBlock", "input", "input")] ∧
    Wiring.extractHashAndDataNilTogether = true := by decide

/-- the same read the way the model reads it: on every failure path the detector scans data of the caller – the
whole `dataToDecrypt` when no hash was found, the rest behind the hash when the reveal failed -/
theorem fact_searchable_scans (k : Kind) (data d rest : Bytes) :
    Translator.siteBuffer (Translator.siteHolds (Translator.searchableOp k) "no-hash") data d rest = d ∧
    Translator.siteBuffer (Translator.siteHolds (Translator.searchableOp k) "decrypt-failed") data d rest = rest := by
  have h1 : Translator.siteHolds "DecryptSearchable" "no-hash" = "hash++input" := by decide
  have h2 : Translator.siteHolds "DecryptSymSearchable" "no-hash" = "hash++input" := by decide
  have h3 : Translator.siteHolds "DecryptSearchable" "decrypt-failed" = "rest-after-hash" := by decide
  have h4 : Translator.siteHolds "DecryptSymSearchable" "decrypt-failed" = "rest-after-hash" := by decide
  cases k <;> simp [Translator.searchableOp, Translator.siteBuffer, h1, h2, h3, h4]

/-! ## 1. the traced scan computes the same bytes as the plain one

The alarm count is the second component of `scanT` / `onColumnT` / `onColumnCompatT` / `proxyOnColumn` /
`translatorDecrypt`. These functions return only after every callback has run, so a positive count
in the returned pair means: the intrusion callbacks ran BEFORE the value was delivered. The first
component is what is delivered; the theorems of this section say that it is exactly what the
untraced functions of `Detector.lean` compute, so every C01/C03 theorem about `scan`, `onColumn`,
`onColumnCompat` is a theorem about the delivered value. -/

/-- **Threading the alarm counter through the scan does not change what the scan returns**: the output
component of the traced scan is the plain scan run on the callbacks with their alarm bit dropped. -/
theorem scanT_output (cbsT : List CallbackT) (rest : Bytes) :
    (scanT cbsT rest).1 = scan (cbsT.map (fun f x => (f x).1)) rest := scanT_fst cbsT rest

/-- … in particular for callbacks that never raise the alarm (`plainT`) it is the plain scan. -/
theorem scanT_output_plain (cbs : List Callback) (rest : Bytes) :
    (scanT (cbs.map plainT) rest).1 = scan cbs rest := by
  rw [scanT_fst, outCbs_plainT]

/-- The same for `EnvelopeDetector.OnColumn` … -/
theorem onColumnT_output (cbsT : List CallbackT) (d : Bytes) :
    (onColumnT cbsT d).1 = onColumn (cbsT.map (fun f x => (f x).1)) d := onColumnT_fst cbsT d

/-- … and for the whole compatibility wrapper `OldContainerDetectorWrapper.OnColumn` (container scan,
then bare AcraStructs, then bare AcraBlocks). -/
theorem onColumnCompatT_output (cbsT : List CallbackT) (d : Bytes) :
    (onColumnCompatT cbsT d).1 = onColumnCompat (cbsT.map (fun f x => (f x).1)) d := onColumnCompatT_fst cbsT d

/-- What the SQL proxies deliver for a column value is `OldContainerDetectorWrapper.OnColumn` with the
callback list "poison detector (if callbacks are configured), decrypt handler"; the poison detector
answers "unchanged" unless it raised the alarm and the configured callbacks failed. Without
callbacks it is exactly the column processor of C01/C03. -/
theorem proxyOnColumn_output (c : CryptoOps) (cfg : PoisonCfg) (kv : KeyView) (d : Bytes) :
    (proxyOnColumn c cfg kv d).1 =
      onColumnCompat ((if cfg.hasCallbacks then [fun x => (poisonCallback c cfg x).1] else []) ++ [decryptCallback c kv]) d := by
  unfold proxyOnColumn
  rw [onColumnCompatT_fst]
  unfold proxyCallbacks outCbs
  cases cfg.hasCallbacks <;> rfl

/-! ## 4. no callbacks / no poison keys: never an alarm -/

/-- **Without configured intrusion callbacks nothing is ever reported**, whatever the value: the SQL
proxies do not register the poison detector (and the detector itself returns at once), AcraTranslator
scans with an empty callback list. -/
theorem no_callbacks_no_alarm (c : CryptoOps) (cfg : PoisonCfg) (kv : KeyView) (k : Kind) (d : Bytes)
    (h : cfg.hasCallbacks = false) :
    (proxyOnColumn c cfg kv d).2 = 0 ∧ (translatorDecrypt c cfg kv k d).2 = 0 := by
  constructor
  · apply onColumnCompatT_quiet
    intro f hf x
    cases hn : (f x).2 with
    | false => rfl
    | true => exact absurd (proxyCallbacks_alarm ⟨f, hf, hn⟩).1 (by simp [h])
  · unfold translatorDecrypt
    cases decryptWithHandler c kv k d with
    | ok m => rfl
    | panic => rfl
    | err =>
      simp only [h, Bool.false_eq_true, if_false]
      exact onColumnT_quiet [] (fun f hf => nomatch hf) d

/-- **A key store without poison keys never raises the alarm** (`GetPoison…Keys` fail: the detector
logs "skip poison record check due to a lack of poison keys" and returns the container unchanged). -/
theorem missing_poison_keys_no_alarm (c : CryptoOps) (cfg : PoisonCfg) (kv : KeyView) (k : Kind) (d : Bytes)
    (hp : cfg.pk.privs = none) (hs : cfg.pk.syms = none) :
    (proxyOnColumn c cfg kv d).2 = 0 ∧ (translatorDecrypt c cfg kv k d).2 = 0 := by
  have hq : ∀ x, (poisonCallback c cfg x).2 = false := by
    intro x
    rw [poisonCallback_alarm, isPoison_no_keys c cfg.pk hp hs]
    simp
  constructor
  · apply onColumnCompatT_quiet
    intro f hf x
    cases hn : (f x).2 with
    | false => rfl
    | true =>
      have := (proxyCallbacks_alarm ⟨f, hf, hn⟩).2
      rw [isPoison_no_keys c cfg.pk hp hs] at this
      cases this
  · unfold translatorDecrypt
    cases decryptWithHandler c kv k d with
    | ok m => rfl
    | panic => rfl
    | err =>
      simp only
      apply onColumnT_quiet
      intro f hf x
      split at hf
      · rw [List.mem_singleton.1 hf]; exact hq x
      · cases hf

/-! ## 2. a poison record always raises the alarm

`createPoison c pkW k dataLen rnd = .ok P`: `P` is a poison record of envelope kind `k` made with the
poison key(s) `pkW` (`poison.CreatePoisonRecord` / `CreateSymmetricPoisonRecord`).
`RoundTripHyps c k pkW cfg.pk …` are the hypotheses of the C01 round trip for that kind with the
detector's poison key view `cfg.pk` as reader: the key the record was made with occurs ANYWHERE in the
detector's poison key history (current or rotated), earlier keys do not accidentally open it. -/

/-- **A poison record inside a column value raises the alarm before the value is delivered** (SQL
proxies). Callbacks are configured; `P` is a poison record of either kind, made with the current or
a rotated poison key; it is stored alone or embedded: `pre ++ P ++ suf` with arbitrary `suf` and a
`pre` none of whose positions is processed by the proxy's callback stack (wrapper, poison detector,
decrypt handler) – see `poison_detected_in_text` for the checkable condition "no `%` in `pre`".
Then the alarm count returned together with the value is at least 1 – the intrusion callbacks ran
before `OnColumn` returned, i.e. before anything was delivered – and when running the callbacks
returns an error the column processing fails (`fatal`): the value is not delivered at all. -/
theorem poison_detected (c : CryptoOps) (cfg : PoisonCfg) (kv pkW : KeyView) (k : Kind) (dataLen : Nat)
    (rnd P pre suf : Bytes)
    (hcb : cfg.hasCallbacks = true)
    (hP : createPoison c pkW k dataLen rnd = .ok P)
    (h : RoundTripHyps c k pkW cfg.pk (rnd.take dataLen) (rnd.drop dataLen) P)
    (hpre : ∀ i, i < pre.length → ∃ hit,
      headStep [fun _ => Cb.same, fun x => (poisonCallback c cfg x).1, decryptCallback c kv]
        ((pre ++ P ++ suf).drop i) = .skip hit) :
    1 ≤ (proxyOnColumn c cfg kv (pre ++ P ++ suf)).2 ∧
    (cfg.callbackErr = true → (proxyOnColumn c cfg kv (pre ++ P ++ suf)).1 = .fatal) := by
  obtain ⟨e, rfl, he, hlen, hproc⟩ := createPoison_facts c k pkW cfg.pk dataLen rnd P h hP
  exact proxyOnColumn_poison c cfg kv k e pre suf hcb he hlen (isPoison_eq_true.2 ⟨_, hproc suf⟩) hpre

/-- … in particular when the bytes before the record contain no `%` (nothing there can look like a
container), and in particular for the record alone (`pre = suf = []`). -/
theorem poison_detected_in_text (c : CryptoOps) (cfg : PoisonCfg) (kv pkW : KeyView) (k : Kind) (dataLen : Nat)
    (rnd P pre suf : Bytes)
    (hcb : cfg.hasCallbacks = true)
    (hP : createPoison c pkW k dataLen rnd = .ok P)
    (h : RoundTripHyps c k pkW cfg.pk (rnd.take dataLen) (rnd.drop dataLen) P)
    (hpre : ∀ x ∈ pre, x ≠ 37) :
    1 ≤ (proxyOnColumn c cfg kv (pre ++ P ++ suf)).2 ∧
    (cfg.callbackErr = true → (proxyOnColumn c cfg kv (pre ++ P ++ suf)).1 = .fatal) :=
  poison_detected c cfg kv pkW k dataLen rnd P pre suf hcb hP h
    (by rw [List.append_assoc]; exact c01_skip_of_no_tag_byte _ pre (P ++ suf) hpre)

theorem poison_detected_alone (c : CryptoOps) (cfg : PoisonCfg) (kv pkW : KeyView) (k : Kind) (dataLen : Nat)
    (rnd P : Bytes)
    (hcb : cfg.hasCallbacks = true)
    (hP : createPoison c pkW k dataLen rnd = .ok P)
    (h : RoundTripHyps c k pkW cfg.pk (rnd.take dataLen) (rnd.drop dataLen) P) :
    1 ≤ (proxyOnColumn c cfg kv P).2 ∧ (cfg.callbackErr = true → (proxyOnColumn c cfg kv P).1 = .fatal) := by
  have := poison_detected_in_text c cfg kv pkW k dataLen rnd P [] [] hcb hP h (by intro x hx; cases hx)
  simpa using this

/-- **AcraTranslator**: a decrypt request (`Decrypt`, `DecryptSym`, … – any handler kind `k'`) whose data
contains a poison record, and which the client's own keys do not decrypt, raises the alarm and the
client gets an error (never the poison record's content, and no hint that it was one). -/
theorem poison_detected_translator (c : CryptoOps) (cfg : PoisonCfg) (kv pkW : KeyView) (k k' : Kind) (dataLen : Nat)
    (rnd P pre suf : Bytes)
    (hcb : cfg.hasCallbacks = true)
    (hP : createPoison c pkW k dataLen rnd = .ok P)
    (h : RoundTripHyps c k pkW cfg.pk (rnd.take dataLen) (rnd.drop dataLen) P)
    (hpre : ∀ x ∈ pre, x ≠ 37)
    (hfail : ∀ m, decryptWithHandler c kv k' (pre ++ P ++ suf) ≠ .ok m) :
    (translatorDecrypt c cfg kv k' (pre ++ P ++ suf)).1 = .err ∧
    1 ≤ (translatorDecrypt c cfg kv k' (pre ++ P ++ suf)).2 := by
  obtain ⟨e, rfl, he, hlen, hproc⟩ := createPoison_facts c k pkW cfg.pk dataLen rnd P h hP
  unfold translatorDecrypt
  cases hd : decryptWithHandler c kv k' (pre ++ serBytes e k.id ++ suf) with
  | ok m => exact absurd hd (hfail m)
  | panic => exact absurd hd (decryptWithHandler_ne_panic c kv k' _)
  | err =>
    simp only [hcb, if_true]
    refine ⟨trivial, ?_⟩
    exact translator_poison c cfg k e pre suf hcb he hlen (isPoison_eq_true.2 ⟨_, hproc suf⟩)
      (by rw [List.append_assoc]; exact c01_skip_of_no_tag_byte _ pre (serBytes e k.id ++ suf) hpre)

/-- the record alone, as the task of the translator's `Decrypt*` calls usually is -/
theorem poison_detected_translator_alone (c : CryptoOps) (cfg : PoisonCfg) (kv pkW : KeyView) (k k' : Kind)
    (dataLen : Nat) (rnd P : Bytes)
    (hcb : cfg.hasCallbacks = true)
    (hP : createPoison c pkW k dataLen rnd = .ok P)
    (h : RoundTripHyps c k pkW cfg.pk (rnd.take dataLen) (rnd.drop dataLen) P)
    (hfail : ∀ m, decryptWithHandler c kv k' P ≠ .ok m) :
    (translatorDecrypt c cfg kv k' P).1 = .err ∧ 1 ≤ (translatorDecrypt c cfg kv k' P).2 := by
  have := poison_detected_translator c cfg kv pkW k k' dataLen rnd P [] [] hcb hP h (by intro x hx; cases hx)
    (by simpa using hfail)
  simpa using this

/-- **AcraTranslator, searchable decrypts** (`DecryptSearchable` for `k' = .struct`, `DecryptSymSearchable`
for `k' = .block`; hash passed separately or not at all). Whatever reaches the poison detector – the whole
input when no hash can be cut off, the rest behind the hash otherwise (and the client's own keys do not
decrypt it) – if it contains a poison record, the alarm is raised and the client gets an error. On the
pinned tree `DecryptSearchable` returned the error WITHOUT running the detector when no hash could be
cut off (a poison record sent as is starts with `%`, never with a hash function number); repaired by
"fix: DecryptSearchable checks for poison records when no hash can be split off". -/
theorem poison_detected_translator_searchable (c : CryptoOps) (st : Translator.Store) (pkW : KeyView) (k k' : Kind)
    (dataLen : Nat) (rnd P pre suf data id : Bytes) (hash : Option Bytes)
    (hcb : st.poison.hasCallbacks = true)
    (hP : createPoison c pkW k dataLen rnd = .ok P)
    (h : RoundTripHyps c k pkW st.poison.pk (rnd.take dataLen) (rnd.drop dataLen) P)
    (hpre : ∀ x ∈ pre, x ≠ 37)
    (hd : (Searchable.extractHashAndData (Translator.dataToDecrypt data hash) = none ∧
            Translator.dataToDecrypt data hash = pre ++ P ++ suf) ∨
          (∃ hh, Searchable.extractHashAndData (Translator.dataToDecrypt data hash) = some (hh, pre ++ P ++ suf) ∧
            ∀ m, decryptWithHandler c (st.keys id) k' (pre ++ P ++ suf) ≠ .ok m)) :
    (Translator.decryptSearchableWith k' c st data hash (some id) none).1 = .err ∧
    1 ≤ (Translator.decryptSearchableWith k' c st data hash (some id) none).2 := by
  unfold Translator.decryptSearchableWith
  rw [Translator.checkRequest_ok false id (Or.inl rfl)]
  simp only
  rcases hd with ⟨hx, hdd⟩ | ⟨hh, hx, hfail⟩
  · rw [hx]
    simp only [(fact_searchable_scans k' data (Translator.dataToDecrypt data hash) []).1]
    refine ⟨trivial, ?_⟩
    obtain ⟨e, rfl, he, hlen, hproc⟩ := createPoison_facts c k pkW st.poison.pk dataLen rnd P h hP
    unfold Translator.poisonScan
    rw [hdd]
    simp only [hcb, if_true]
    exact translator_poison c st.poison k e pre suf hcb he hlen (isPoison_eq_true.2 ⟨_, hproc suf⟩)
      (by rw [List.append_assoc]; exact c01_skip_of_no_tag_byte _ pre (serBytes e k.id ++ suf) hpre)
  · rw [hx]
    simp only [(fact_searchable_scans k' data (Translator.dataToDecrypt data hash) (pre ++ P ++ suf)).2,
      translatorDecryptScan_self]
    obtain ⟨h1, h2⟩ := poison_detected_translator c st.poison (st.keys id) pkW k k' dataLen rnd P pre suf hcb hP h hpre hfail
    cases ht : translatorDecrypt c st.poison (st.keys id) k' (pre ++ P ++ suf) with
    | mk o a =>
      rw [ht] at h1 h2
      simp only at h1 h2
      subst h1
      exact ⟨rfl, h2⟩

/-- the record alone sent to a searchable decrypt without a hash: nothing can be cut off as a hash (a
serialized container starts with `%`), the detector runs over the record – alarm, error -/
theorem poison_detected_translator_searchable_alone (c : CryptoOps) (st : Translator.Store) (pkW : KeyView) (k k' : Kind)
    (dataLen : Nat) (rnd P id : Bytes)
    (hcb : st.poison.hasCallbacks = true)
    (hP : createPoison c pkW k dataLen rnd = .ok P)
    (h : RoundTripHyps c k pkW st.poison.pk (rnd.take dataLen) (rnd.drop dataLen) P) :
    (Translator.decryptSearchableWith k' c st P none (some id) none).1 = .err ∧
    1 ≤ (Translator.decryptSearchableWith k' c st P none (some id) none).2 := by
  have hx : Searchable.extractHashAndData (Translator.dataToDecrypt P none) = none := by
    obtain ⟨e, rfl, _, _, _⟩ := createPoison_facts c k pkW st.poison.pk dataLen rnd P h hP
    have : Searchable.extractHash (serBytes e k.id) = none := by
      unfold serBytes
      have ht : containerTag = [37, 37, 37] := by decide
      rw [ht]
      simp only [List.cons_append, Searchable.extractHash]
      have : Searchable.knownFunc 37 = false := by decide
      simp [this]
    simp [Translator.dataToDecrypt, Searchable.extractHashAndData, this]
  exact poison_detected_translator_searchable c st pkW k k' dataLen rnd P [] [] P id none hcb hP h
    (by intro x hx; cases hx) (Or.inl ⟨hx, by simp [Translator.dataToDecrypt]⟩)

/-! ## 3. no false alarm

`SeenByDetector c cfg kv d s` (in `Envelope/PoisonLemmas.lean`): `s` is one of the byte strings the
proxy's column processor can hand to the poison detector while processing `d` –
(1) the rest of `d` from a position where the container tag `%%%` starts,
(2) the serialized container built around a non-empty contiguous part of `d` cut out by the legacy
    bare-AcraStruct scan,
(3) the serialized container built around a non-empty contiguous part of `o1`, the OUTPUT of the legacy
    bare-AcraStruct scan, cut out by the legacy bare-AcraBlock scan.

Case (3) cannot be dropped, i.e. the statement "an alarm implies that some part of `d` decrypts under
a poison key" is FALSE as it stands. Counterexample (checked on the executable model with the Shim
back end): `d` = a bare AcraStruct of the client whose plaintext is a bare poison AcraBlock. With the
client's keys the column processor returns alarm count 1 (the legacy AcraStruct scan replaces the
AcraStruct by its plaintext, the legacy AcraBlock scan then finds the poison record in that OUTPUT);
with a client that has no keys the count is 0 – no part of `d` itself opens under the poison keys.
The alarm is still not "false": the poison record was in the value, one encryption layer down. -/

/-- **Every alarm is caused by bytes that decrypt under a poison key.** If the SQL proxies' column
processor reports an alarm for the column value `d`, then callbacks are configured and one of the byte
strings the poison detector was handed while processing `d` (see `SeenByDetector`) opens under the
poison keys: `isPoison` = `RegistryHandler.Process` with the poison key view succeeds. -/
theorem no_false_alarm (c : CryptoOps) (cfg : PoisonCfg) (kv : KeyView) (d : Bytes)
    (h : 1 ≤ (proxyOnColumn c cfg kv d).2) :
    cfg.hasCallbacks = true ∧ ∃ s, SeenByDetector c cfg kv d s ∧ isPoison c cfg.pk s = true :=
  proxyOnColumn_alarm c cfg kv d h

/-- AcraTranslator: an alarm means that the client got an error, callbacks are configured and the rest
of the data from some position where `%%%` starts opens under the poison keys. -/
theorem no_false_alarm_translator (c : CryptoOps) (cfg : PoisonCfg) (kv : KeyView) (k : Kind) (d : Bytes)
    (h : 1 ≤ (translatorDecrypt c cfg kv k d).2) :
    cfg.hasCallbacks = true ∧ (translatorDecrypt c cfg kv k d).1 = .err ∧
    ∃ i, i < d.length ∧ startsWith containerTag (d.drop i) = true ∧ isPoison c cfg.pk (d.drop i) = true :=
  translator_alarm c cfg kv k d h

/-- **… and what opens under a poison key is a genuine envelope sealed under that key** (ideal
authenticity of the seal, `SealLaws c`; this is C03's `reveal_genuine` for the poison key view:
`reveal c cfg.pk s = .ok m` is exactly its hypothesis). The internal envelope of the reported bytes is
an AcraBlock whose wrapped data key is a data key sealed under one of the poison symmetric keys and
whose data part is `m` sealed under that data key – or an AcraStruct whose wrapped key unwraps
under one of the poison private keys and whose body is `m` sealed under the unwrapped key. Nobody
without a poison key can make such bytes: ordinary data cannot raise the alarm. -/
theorem alarm_genuine (c : CryptoOps) (hs : SealLaws c) (cfg : PoisonCfg) (kv : KeyView) (d : Bytes)
    (h : 1 ≤ (proxyOnColumn c cfg kv d).2) :
    ∃ s, SeenByDetector c cfg kv d s ∧ ∃ internal id m, deserialize s = .ok (internal, id) ∧ reveal c cfg.pk s = .ok m ∧
      ((id = idBlock ∧ ∃ ks, cfg.pk.syms = some ks ∧ ∃ key ∈ ks, ∃ dek n1 n2,
          n1.length = nonceLen ∧ n2.length = nonceLen ∧
          c.enc key [] dek n2 = some (blockEncKey internal) ∧ c.enc dek [] m n1 = some (blockEncData internal)) ∨
       (id = idStruct ∧ ∃ ps, cfg.pk.privs = some ps ∧ ∃ priv ∈ ps, ∃ symKey n2, n2.length = nonceLen ∧ symKey ≠ [] ∧
          c.unwrap priv ((internal.drop 8).take 45) ((internal.drop 53).take 84) = some symKey ∧
          c.enc symKey [] m n2 = some (internal.drop 145))) := by
  obtain ⟨_, s, hseen, hpo⟩ := proxyOnColumn_alarm c cfg kv d h
  exact ⟨s, hseen, isPoison_genuine c hs cfg.pk s hpo⟩

/-- Contrapositive: **a value no part of which opens under a poison key raises no alarm.** -/
theorem no_poison_no_alarm (c : CryptoOps) (cfg : PoisonCfg) (kv : KeyView) (d : Bytes)
    (h : ∀ s, SeenByDetector c cfg kv d s → isPoison c cfg.pk s = false) : (proxyOnColumn c cfg kv d).2 = 0 := by
  cases hn : (proxyOnColumn c cfg kv d).2 with
  | zero => rfl
  | succ n =>
    obtain ⟨_, s, hseen, hpo⟩ := proxyOnColumn_alarm c cfg kv d (by omega)
    rw [h s hseen] at hpo
    cases hpo

/-- **Ordinary data never raises the alarm**: a column value that contains neither `%` nor `"` is not
handed to any callback – alarm count 0 for every crypto back end, all keys, every configuration
(no assumption at all). -/
theorem plain_data_no_alarm (c : CryptoOps) (cfg : PoisonCfg) (kv : KeyView) (d : Bytes) (hl : d.length + 12 < 2^64)
    (h37 : ∀ x ∈ d, x ≠ 37) (h34 : ∀ x ∈ d, x ≠ 34) : (proxyOnColumn c cfg kv d).2 = 0 :=
  proxyOnColumn_plain c cfg kv d hl h37 h34

/-- **An ordinary protected value of a client never raises the alarm**: a serialized container
(`serBytes e k.id`, what `protect` produces) that the reader's keys open to `m` and the poison keys do
not open, stored between bytes without `%`: the client receives exactly `before ++ m ++ after`, and the
alarm count is 0 – whether or not callbacks are configured. -/
theorem client_value_no_alarm (c : CryptoOps) (cfg : PoisonCfg) (kv : KeyView) (k : Kind) (e pre suf m : Bytes)
    (he : e ≠ []) (hlen : e.length + 12 < 2^63)
    (hproc : process c kv (serBytes e k.id ++ suf) = .ok m) (hne : m ≠ serBytes e k.id ++ suf)
    (hnp : isPoison c cfg.pk (serBytes e k.id ++ suf) = false)
    (hpre : ∀ x ∈ pre, x ≠ 37) (hsuf : ∀ x ∈ suf, x ≠ 37) :
    proxyOnColumn c cfg kv (pre ++ serBytes e k.id ++ suf) = (.ok (pre ++ m ++ suf) true, 0) :=
  proxyOnColumn_client_value c cfg kv k e pre suf m he hlen hproc hne hnp hpre hsuf

/-- … and under key commitment (`SealLaws` + `SealCommit`, deliberately no length law) the hypothesis
"the poison keys do not open it" holds for every AcraBlock-protected value of a client whose
symmetric key is not one of the poison keys: `protect`, store between text, read back – the client
gets its plaintext, no alarm. (`RoundTripHyps` are the C01 hypotheses for the reader; for the
AcraStruct kind the laws of Secure Message say nothing about unwrapping with a foreign private key,
so there "the poison keys do not open it" stays a hypothesis: `client_value_no_alarm`.) -/
theorem client_block_no_alarm (c : CryptoOps) (hcm : SealCommit c) (cfg : PoisonCfg) (kvW kvR : KeyView)
    (m rnd p pre suf : Bytes)
    (h : RoundTripHyps c .block kvW kvR m rnd p)
    (hnm : matchKind .block m = false) (hnr : registryMatch m = false)
    (hp : protect c kvW .block m rnd = .ok p) (hne : m ≠ p ++ suf)
    (hdisj : ∀ key ks, kvW.sym = some key → cfg.pk.syms = some ks → key ∉ ks)
    (hpre : ∀ x ∈ pre, x ≠ 37) (hsuf : ∀ x ∈ suf, x ≠ 37) :
    proxyOnColumn c cfg kvR (pre ++ p ++ suf) = (.ok (pre ++ m ++ suf) true, 0) := by
  obtain ⟨e, rfl, he, hlen, hproc⟩ := protect_roundtrip_facts c .block kvW kvR m rnd p h hnm hnr hp
  obtain ⟨hs, key, kpre, kpost, hkid, hW, _, _, hek, hpl⟩ := h
  have hnp : isPoison c cfg.pk (serBytes e Kind.block.id ++ suf) = false := by
    cases hpo : isPoison c cfg.pk (serBytes e Kind.block.id ++ suf) with
    | false => rfl
    | true =>
      obtain ⟨m', hm'⟩ := isPoison_eq_true.1 hpo
      exact absurd hm' (protect_block_not_opened c hs hcm kvW cfg.pk key m rnd _ suf hW hkid hek (by omega) hnm hnr hp
        (fun ks hks => hdisj key ks hW hks) m')
  exact proxyOnColumn_client_value c cfg kvR .block e pre suf m he hlen (hproc suf) hne hnp hpre hsuf

/-- **Damaged or foreign records never raise the alarm**: if the poison keys open neither the rest of the
value at any position where `%%%` starts nor the serialized form of any contiguous part of it, and
the client's keys do not open the serialized form of any contiguous part as an AcraStruct (so the
legacy scan replaces nothing), the alarm count is 0. -/
theorem damaged_no_alarm (c : CryptoOps) (cfg : PoisonCfg) (kv : KeyView) (d : Bytes)
    (h1 : ∀ i, i < d.length → startsWith containerTag (d.drop i) = true → isPoison c cfg.pk (d.drop i) = false)
    (h2 : ∀ x id, x <:+: d → x ≠ [] → isPoison c cfg.pk (serBytes x id) = false)
    (h3 : ∀ x, x <:+: d → x ≠ [] → ∀ m, process c kv (serBytes x idStruct) ≠ .ok m) :
    (proxyOnColumn c cfg kv d).2 = 0 :=
  proxyOnColumn_unreadable c cfg kv d h1 h2 h3

/-! ## 5. the poison check comes before anything can replace the container -/

/-- **The model's callback stack is the one the source registers, and the poison detector sees every
container before a later callback can replace it.** With callbacks configured `proxyCallbacks` is
"poison detector, decrypt handler" (after the wrapper's own callback) – the order
`fact_poison_first` reads off `proxyFactory.New` of both SQL proxies – and for ANY list `later` of
callbacks registered after the poison detector (the decrypt handler, the masking processor, …),
whatever they answer: a container that opens under the poison keys raises the alarm in the callback
loop. The poison detector itself never replaces a container (it answers "unchanged" or fails). -/
theorem poison_checked_before_replace (c : CryptoOps) (cfg : PoisonCfg) (kv : KeyView) (hcb : cfg.hasCallbacks = true) :
    proxyCallbacks c cfg kv = [poisonCallback c cfg, plainT (decryptCallback c kv)] ∧
    (["wrapper", "poisonDetector", "decrypt"] = Wiring.pgCallbackOrder ∧
      ["wrapper", "poisonDetector", "decrypt"] = Wiring.mysqlCallbackOrder) ∧
    (∀ (later : List CallbackT) (cont : Bytes), isPoison c cfg.pk cont = true →
      1 ≤ (runCallbacksT cont (plainT (fun _ => Cb.same) :: poisonCallback c cfg :: later)).2) ∧
    (∀ cont b, (poisonCallback c cfg cont).1 ≠ .replaced b) := by
  refine ⟨by unfold proxyCallbacks; rw [hcb]; rfl, ⟨by decide, by decide⟩, ?_, ?_⟩
  · intro later cont hpo
    exact runCallbacksT_alarm_ge cont [plainT (fun _ => Cb.same)] (poisonCallback c cfg) later
      (by intro g hg; rw [List.mem_singleton.1 hg]; exact Or.inl rfl)
      (by rw [poisonCallback_alarm, hcb, hpo]; rfl)
  · intro cont b
    rw [poisonCallback_out]
    split <;> exact fun h => nomatch h

/-! ## 5b. the poison keys come from the real v1 key store (with its cache)

The theorems of section 2 take the detector's poison keys as a key view and assume that the key a record was made
with occurs in it. This section discharges that assumption for the v1 filesystem key store: `Keystore/V1Cache.lean`
(C06's model of the store AND its key cache), run over any sequence of operations – rotations of the poison keys
included –, offers the key of every generation that was not destroyed (`v1_refines_spec`; with a warm cache: every
generation offered before, `cache_monotone`), hence a poison record made under ANY such generation raises the alarm.
The one source-level premise of the cache model – the refresh of the cached file-name list after a rotation addresses
the entry the reader uses – is a regenerated fact about the text of the cache key (`fact_names_cache_key_spelling`). -/

section Store
open AcraModel.Keystore

/-- **The cached list of current + rotated private key file names is read and refreshed under ONE spelling of its key.**
`GetHistoricalPrivateKeyFilenames` reads and stores the entry under `.historical.` + `filepath.Join(dir, name)`;
`SaveKeyPairWithFilename` refreshes it under the same `filepath.Join`, `generateAndSaveSymmetricKey` and
`destroyRotatedKeyByIndex` under `filepath.Clean(dir + "/" + name)` – the same text for every directory spelling.
(Seeded change C15-5: `SaveKeyPairWithFilename` refreshes under the uncleaned `dir + "/" + name`.) -/
theorem fact_names_cache_key_spelling :
    Generated.V1CacheKeys.namesCacheKeySites =
      [("GetHistoricalPrivateKeyFilenames", "get", "join"), ("GetHistoricalPrivateKeyFilenames", "load", "join"),
       ("SaveKeyPairWithFilename", "refresh", "join"), ("destroyRotatedKeyByIndex", "refresh", "clean-sprintf"),
       ("generateAndSaveSymmetricKey", "refresh", "clean-sprintf")] ∧
    Generated.V1CacheKeys.privatePathFormat = ("%s%s%s", ["store.privateKeyDirectory", "string(os.PathSeparator)", "filename"]) := by
  decide

/-- **Every refresh hits the entry the reader uses – for every spelling of the key directory and every key name**
(trailing separator, `//`, `./` … : all three writers normalise the path exactly like the reader). -/
theorem names_refresh_hits (dir name : String) :
    refreshHits "SaveKeyPairWithFilename" dir name = true ∧
    refreshHits "generateAndSaveSymmetricKey" dir name = true ∧
    refreshHits "destroyRotatedKeyByIndex" dir name = true :=
  ⟨refreshHits_of_normalising _ dir name (by decide) (by decide) (by decide),
   refreshHits_of_normalising _ dir name (by decide) (by decide) (by decide),
   refreshHits_of_normalising _ dir name (by decide) (by decide) (by decide)⟩

/-- … hence the store whose refreshes are addressed by the spelled keys (`V1.runK`, what the correspondence op
`C15.v1store` runs for each directory spelling) IS the store of `Keystore/V1Cache.lean` that C06's theorems are about. -/
theorem v1_store_with_spelled_keys_is_v1_store (dir pairName symName : String) (st : V1) (ops : List Op) :
    st.runK (refreshHits "SaveKeyPairWithFilename" dir pairName) (refreshHits "generateAndSaveSymmetricKey" dir symName) ops =
      st.run ops := by
  rw [(names_refresh_hits dir pairName).1, (names_refresh_hits dir symName).2.1, V1.runK_true]

/-- **Seeded change C15-5 as a theorem about the model.** When the refresh after a key-pair rotation misses the entry
(`hitPair = false`), a store with a warm cache offers only the NEW poison private key after the rotation: generation 1,
offered before, is gone – a poison AcraStruct made under it passes silently. With the refresh hitting, both are offered. -/
theorem refresh_miss_hides_rotated_poison_key_counterexample :
    ((V1.init 0).runK false true [.gen ppSlot, .all ppSlot, .gen ppSlot, .all ppSlot]).2 = [.ok, .keys [1], .ok, .keys [2]] ∧
    ((V1.init 0).runK true true [.gen ppSlot, .all ppSlot, .gen ppSlot, .all ppSlot]).2 = [.ok, .keys [1], .ok, .keys [2, 1]] := by
  decide +kernel

/-- **The v1 store (no cache) offers every poison key that was not destroyed – after ANY sequence of operations.**
For every run (generations/rotations of any keys, reads, listings, destructions of rotated keys by index, resets,
reopens; destroy-current excluded – C06's known finding) and every generation `g` of the poison key pair (`s = ppSlot`)
or the poison symmetric key (`s = psSlot`) that survives it, `GetPoisonPrivateKeys` / `GetPoisonSymmetricKeys` succeed
and return `g`. (From `v1_refines_spec`.) -/
theorem v1_store_offers_surviving_poison_keys (ops : List Op) (hops : ∀ o ∈ ops, o.isDcur = false) (s : Slot)
    (hs : s.kind.hasAll = true) (g : Nat)
    (hg : g ∈ ((Spec.runApi .v1 Spec.init ops).1 s).survivors) :
    ∃ l, offeredGens ((V1.init (-1)).run ops).1 s = some l ∧ g ∈ l := by
  have h := V1.run_sim ops (V1.init (-1)) V1.Inv.init hops
  have habs : (V1.init (-1)).abs = Spec.init := rfl
  rw [habs] at h
  obtain ⟨hinv, ha, _⟩ := h
  have h2 := (V1.step_sim _ (.all s) hinv rfl).2.2
  rw [ha] at h2
  have hne : ((Spec.runApi .v1 Spec.init ops).1 s).survivors ≠ [] := by
    intro he; rw [he] at hg; cases hg
  refine ⟨((Spec.runApi .v1 Spec.init ops).1 s).survivors.reverse, ?_, by simpa using hg⟩
  unfold offeredGens
  rw [h2]
  simp [Spec.stepApi, Spec.step, hs, hne, SpecSlot.allNewestFirst]

/-- **With a key cache of any size: a poison key the store offered once is offered as long as it survives.** If a
detection attempt (`GetPoisonPrivateKeys` / `GetPoisonSymmetricKeys` after `ops1`) was offered generation `g`, then
after any further operations `ops2` – rotations of the poison keys by this very handle, cache resets, reopens – `g` is
still offered, provided it was not destroyed. (From `cache_monotone`; this is what seeded change C15-5 breaks for
non-canonical key directories.) -/
theorem v1_cached_store_keeps_offering_poison_keys (cache : Int) (ops1 ops2 : List Op) (s : Slot) (g : Nat) (l1 : List Nat)
    (h1 : ∀ o ∈ ops1, o.isDcur = false) (h2 : ∀ o ∈ ops2, o.isDcur = false)
    (hobs : offeredGens ((V1.init cache).run ops1).1 s = some l1) (hg : g ∈ l1)
    (halive : g ∈ ((Spec.runApi .v1 Spec.init (ops1 ++ .all s :: ops2)).1 s).survivors) :
    ∃ l2, offeredGens (((((V1.init cache).run ops1).1.step (.all s)).1.run ops2).1) s = some l2 ∧ g ∈ l2 := by
  have hobs' : (((V1.init cache).run ops1).1.step (.all s)).2 = .keys l1 := by
    unfold offeredGens at hobs
    cases hx : (((V1.init cache).run ops1).1.step (.all s)).2 <;> rw [hx] at hobs <;> simp at hobs
    rw [hobs]
  obtain ⟨l2, hl2, hg2⟩ := AcraModel.Props.C06.cache_monotone cache ops1 ops2 s g l1 h1 h2 hobs' hg halive
  exact ⟨l2, by unfold offeredGens; rw [hl2], hg2⟩

/-- key material of the generations of the two poison keys: what `keys.New(keys.TypeEC)` / `GenerateSymmetricKey`
returned at the `g`-th generation (the store model identifies keys by generation number) -/
structure PoisonMaterial where
  priv : Nat → Bytes
  sym : Nat → Bytes

/-- the poison key view `PoisonRecordKeyStoreWrapper` presents to the detector over the store state `st`:
`GetServerDecryptionPrivateKeys` ↦ `GetPoisonPrivateKeys`, `GetClientIDSymmetricKeys` ↦ `GetPoisonSymmetricKeys` -/
def storePoisonView (km : PoisonMaterial) (st : V1) : KeyView :=
  ⟨none, (offeredGens st ppSlot).map (·.map km.priv), none, (offeredGens st psSlot).map (·.map km.sym)⟩

/-- **A poison AcraStruct made under ANY generation the store offers raises the alarm.** The detector reads its keys
from the store state `st`; the record was made with the public key of generation `g`, and `g` is among the generations
`GetPoisonPrivateKeys` returns: then the column value `pre ++ P ++ suf` raises the alarm before delivery. (`hside`: a
key offered BEFORE generation `g` either fails on the record or gives the same answer – the side condition of the C01
round trip.) -/
theorem poison_under_offered_generation_alarms_struct (c : CryptoOps) (km : PoisonMaterial) (st : V1) (g : Nat) (l : List Nat)
    (hoff : offeredGens st ppSlot = some l) (hg : g ∈ l)
    (hlaws : SealLaws c ∧ SealLen c ∧ MsgLaws c ∧ MsgLen c ∧ KeygenLaws c) (hvalid : c.validPriv (km.priv g) = true)
    (cfg : PoisonCfg) (hpk : cfg.pk = storePoisonView km st) (hcb : cfg.hasCallbacks = true)
    (kv pkW : KeyView) (hpub : pkW.pub = some (c.pubOf (km.priv g)))
    (dataLen : Nat) (rnd P pre suf : Bytes)
    (hP : createPoison c pkW .struct dataLen rnd = .ok P)
    (hside : ∀ g' ∈ l.takeWhile (fun x => x != g), ∀ s, createStruct c (c.pubOf (km.priv g)) [] (rnd.take dataLen) (rnd.drop dataLen) = .ok s →
      decryptStruct c (km.priv g') [] s = .err ∨ decryptStruct c (km.priv g') [] s = .ok (rnd.take dataLen))
    (hpre : ∀ x ∈ pre, x ≠ 37) :
    1 ≤ (proxyOnColumn c cfg kv (pre ++ P ++ suf)).2 ∧
    (cfg.callbackErr = true → (proxyOnColumn c cfg kv (pre ++ P ++ suf)).1 = .fatal) := by
  obtain ⟨b, hl⟩ := split_at_first g l hg
  obtain ⟨h1, h2, h3, h4, h5⟩ := hlaws
  apply poison_detected_in_text c cfg kv pkW .struct dataLen rnd P pre suf hcb hP _ hpre
  refine ⟨h1, h2, h3, h4, h5, km.priv g, (l.takeWhile (fun x => x != g)).map km.priv, b.map km.priv, hvalid, hpub, ?_, ?_⟩
  · rw [hpk]
    simp only [storePoisonView, hoff, Option.map_some]
    conv => lhs; rw [hl]
    simp
  · intro k' hk' s hs
    obtain ⟨g', hg', rfl⟩ := List.mem_map.mp hk'
    exact hside g' hg' s hs

/-- **A poison AcraBlock made under ANY generation the store offers raises the alarm** (`hside`, `hlen`: the side
conditions of the AcraBlock round trip – an offered key listed earlier whose 2-byte id collides does not unseal the
wrapped data key; the 2-byte id is 2 bytes and the length fields do not wrap). -/
theorem poison_under_offered_generation_alarms_block (c : CryptoOps) (km : PoisonMaterial) (st : V1) (g : Nat) (l : List Nat)
    (hoff : offeredGens st psSlot = some l) (hg : g ∈ l)
    (hlaws : SealLaws c) (hkid : (keyId c (km.sym g) []).length = 2)
    (cfg : PoisonCfg) (hpk : cfg.pk = storePoisonView km st) (hcb : cfg.hasCallbacks = true)
    (kv pkW : KeyView) (hsym : pkW.sym = some (km.sym g))
    (dataLen : Nat) (rnd P pre suf : Bytes)
    (hP : createPoison c pkW .block dataLen rnd = .ok P)
    (hside : ∀ g' ∈ l.takeWhile (fun x => x != g), ∀ encKey,
      c.enc (km.sym g) [] ((rnd.drop dataLen).take 32) (((rnd.drop dataLen).drop 44).take 12) = some encKey →
      keyId c (km.sym g') [] = keyId c (km.sym g) [] → c.dec (km.sym g') [] encKey = none)
    (hlen : ∀ encKey, c.enc (km.sym g) [] ((rnd.drop dataLen).take 32) (((rnd.drop dataLen).drop 44).take 12) = some encKey → encKey.length < 65536)
    (hplen : P.length < 2^63)
    (hpre : ∀ x ∈ pre, x ≠ 37) :
    1 ≤ (proxyOnColumn c cfg kv (pre ++ P ++ suf)).2 ∧
    (cfg.callbackErr = true → (proxyOnColumn c cfg kv (pre ++ P ++ suf)).1 = .fatal) := by
  obtain ⟨b, hl⟩ := split_at_first g l hg
  apply poison_detected_in_text c cfg kv pkW .block dataLen rnd P pre suf hcb hP _ hpre
  refine ⟨hlaws, km.sym g, (l.takeWhile (fun x => x != g)).map km.sym, b.map km.sym, hkid, hsym, ?_, ?_, hlen, hplen⟩
  · rw [hpk]
    simp only [storePoisonView, hoff, Option.map_some]
    conv => lhs; rw [hl]
    simp
  · intro k' hk' encKey henc hid
    obtain ⟨g', hg', rfl⟩ := List.mem_map.mp hk'
    exact hside g' hg' encKey henc hid

/-- **Composition, no cache: poison made under any surviving generation alarms – after any operation sequence on the
real store model.** The detector's keys are what the v1 store offers after the run `ops` (rotations of the poison key
pair included); the AcraStruct poison record was made under generation `g`, not destroyed by `ops`. -/
theorem poison_detected_v1_store_struct (c : CryptoOps) (km : PoisonMaterial) (ops : List Op) (hops : ∀ o ∈ ops, o.isDcur = false)
    (g : Nat) (hg : g ∈ ((Spec.runApi .v1 Spec.init ops).1 ppSlot).survivors)
    (hlaws : SealLaws c ∧ SealLen c ∧ MsgLaws c ∧ MsgLen c ∧ KeygenLaws c) (hvalid : c.validPriv (km.priv g) = true)
    (cfg : PoisonCfg) (hpk : cfg.pk = storePoisonView km ((V1.init (-1)).run ops).1) (hcb : cfg.hasCallbacks = true)
    (kv pkW : KeyView) (hpub : pkW.pub = some (c.pubOf (km.priv g)))
    (dataLen : Nat) (rnd P pre suf : Bytes)
    (hP : createPoison c pkW .struct dataLen rnd = .ok P)
    (hside : ∀ g' s, createStruct c (c.pubOf (km.priv g)) [] (rnd.take dataLen) (rnd.drop dataLen) = .ok s →
      decryptStruct c (km.priv g') [] s = .err ∨ decryptStruct c (km.priv g') [] s = .ok (rnd.take dataLen))
    (hpre : ∀ x ∈ pre, x ≠ 37) :
    1 ≤ (proxyOnColumn c cfg kv (pre ++ P ++ suf)).2 := by
  obtain ⟨l, hl, hgl⟩ := v1_store_offers_surviving_poison_keys ops hops ppSlot rfl g hg
  exact (poison_under_offered_generation_alarms_struct c km _ g l hl hgl hlaws hvalid cfg hpk hcb kv pkW hpub dataLen rnd P pre suf hP
    (fun g' _ s hs => hside g' s hs) hpre).1

/-- **Composition, warm cache: a poison AcraStruct made under a key that an earlier detection attempt was offered keeps
raising the alarm after any further operations of the handle** – in particular after `GeneratePoisonKeyPair` rotated
that key into the history (the scenario of seeded change C15-5). -/
theorem poison_detected_v1_cached_store_struct (c : CryptoOps) (km : PoisonMaterial) (cache : Int) (ops1 ops2 : List Op)
    (h1 : ∀ o ∈ ops1, o.isDcur = false) (h2 : ∀ o ∈ ops2, o.isDcur = false) (g : Nat) (l1 : List Nat)
    (hobs : offeredGens ((V1.init cache).run ops1).1 ppSlot = some l1) (hg : g ∈ l1)
    (halive : g ∈ ((Spec.runApi .v1 Spec.init (ops1 ++ .all ppSlot :: ops2)).1 ppSlot).survivors)
    (hlaws : SealLaws c ∧ SealLen c ∧ MsgLaws c ∧ MsgLen c ∧ KeygenLaws c) (hvalid : c.validPriv (km.priv g) = true)
    (cfg : PoisonCfg)
    (hpk : cfg.pk = storePoisonView km (((((V1.init cache).run ops1).1.step (.all ppSlot)).1.run ops2).1))
    (hcb : cfg.hasCallbacks = true)
    (kv pkW : KeyView) (hpub : pkW.pub = some (c.pubOf (km.priv g)))
    (dataLen : Nat) (rnd P pre suf : Bytes)
    (hP : createPoison c pkW .struct dataLen rnd = .ok P)
    (hside : ∀ g' s, createStruct c (c.pubOf (km.priv g)) [] (rnd.take dataLen) (rnd.drop dataLen) = .ok s →
      decryptStruct c (km.priv g') [] s = .err ∨ decryptStruct c (km.priv g') [] s = .ok (rnd.take dataLen))
    (hpre : ∀ x ∈ pre, x ≠ 37) :
    1 ≤ (proxyOnColumn c cfg kv (pre ++ P ++ suf)).2 := by
  obtain ⟨l2, hl2, hg2⟩ := v1_cached_store_keeps_offering_poison_keys cache ops1 ops2 ppSlot g l1 h1 h2 hobs hg halive
  exact (poison_under_offered_generation_alarms_struct c km _ g l2 hl2 hg2 hlaws hvalid cfg hpk hcb kv pkW hpub dataLen rnd P pre suf hP
    (fun g' _ s hs => hside g' s hs) hpre).1

/-- the same two compositions for the poison symmetric key and AcraBlock poison records (`GeneratePoisonSymmetricKey`) -/
theorem poison_detected_v1_cached_store_block (c : CryptoOps) (km : PoisonMaterial) (cache : Int) (ops1 ops2 : List Op)
    (h1 : ∀ o ∈ ops1, o.isDcur = false) (h2 : ∀ o ∈ ops2, o.isDcur = false) (g : Nat) (l1 : List Nat)
    (hobs : offeredGens ((V1.init cache).run ops1).1 psSlot = some l1) (hg : g ∈ l1)
    (halive : g ∈ ((Spec.runApi .v1 Spec.init (ops1 ++ .all psSlot :: ops2)).1 psSlot).survivors)
    (hlaws : SealLaws c) (hkid : (keyId c (km.sym g) []).length = 2)
    (cfg : PoisonCfg)
    (hpk : cfg.pk = storePoisonView km (((((V1.init cache).run ops1).1.step (.all psSlot)).1.run ops2).1))
    (hcb : cfg.hasCallbacks = true)
    (kv pkW : KeyView) (hsym : pkW.sym = some (km.sym g))
    (dataLen : Nat) (rnd P pre suf : Bytes)
    (hP : createPoison c pkW .block dataLen rnd = .ok P)
    (hside : ∀ g' encKey, g' ≠ g → c.enc (km.sym g) [] ((rnd.drop dataLen).take 32) (((rnd.drop dataLen).drop 44).take 12) = some encKey →
      keyId c (km.sym g') [] = keyId c (km.sym g) [] → c.dec (km.sym g') [] encKey = none)
    (hlen : ∀ encKey, c.enc (km.sym g) [] ((rnd.drop dataLen).take 32) (((rnd.drop dataLen).drop 44).take 12) = some encKey → encKey.length < 65536)
    (hplen : P.length < 2^63)
    (hpre : ∀ x ∈ pre, x ≠ 37) :
    1 ≤ (proxyOnColumn c cfg kv (pre ++ P ++ suf)).2 := by
  obtain ⟨l2, hl2, hg2⟩ := v1_cached_store_keeps_offering_poison_keys cache ops1 ops2 psSlot g l1 h1 h2 hobs hg halive
  exact (poison_under_offered_generation_alarms_block c km _ g l2 hl2 hg2 hlaws hkid cfg hpk hcb kv pkW hsym dataLen rnd P pre suf hP
    (fun g' hg' ek he hid => hside g' ek (mem_takeWhile_ne g g' l2 hg') he hid) hlen hplen hpre).1

end Store

/-! ## 6. non-vacuity: every hypothesis bundle above is met by a concrete instance -/

/-- 2/3 (AcraBlock poison record, stand-in back end, ROTATED poison key, embedded, failing callbacks):
the record was made with poison key `[1,2,3]`; the detector's key history is `[[4,5],[1,2,3],[1,2,9]]`;
it sits between `ab` and `c` in a column value. The alarm is raised, the value is not delivered, and
(`no_false_alarm`) the alarm is explained by bytes that open under the poison keys. -/
example :
    let pkW : KeyView := ⟨none, none, some [1,2,3], none⟩
    let pk : KeyView := ⟨none, none, some [4,5], some ([[4,5]] ++ [1,2,3] :: [[1,2,9]])⟩
    let cfg : PoisonCfg := ⟨true, true, pk⟩
    let kv : KeyView := ⟨none, none, some [8], some [[8]]⟩
    ∃ P, createPoison toyOps pkW .block 3 (List.replicate 59 5) = .ok P ∧
      1 ≤ (proxyOnColumn toyOps cfg kv ([97,98] ++ P ++ [99])).2 ∧
      (proxyOnColumn toyOps cfg kv ([97,98] ++ P ++ [99])).1 = .fatal ∧
      ∃ s, SeenByDetector toyOps cfg kv ([97,98] ++ P ++ [99]) s ∧ isPoison toyOps cfg.pk s = true := by
  intro pkW pk cfg kv
  have hs := toy_sealLaws
  have hsl := toy_sealLen
  have hkid := keyId_length toyOps toy_hashLen [1,2,3] []
  obtain ⟨b, hb⟩ := block_create_total toyOps hs [1,2,3] [] ((List.replicate 59 5).take 3) ((List.replicate 59 5).drop 3)
    (by decide) (by decide) (by decide) (by decide)
  obtain ⟨hbl, _, hek⟩ := block_sizes toyOps hs hsl _ _ _ _ b hkid hb
  have hbne : b ≠ [] := by intro h; rw [h] at hbl; simp at hbl
  have hP : createPoison toyOps pkW .block 3 (List.replicate 59 5) = .ok (serBytes b idBlock) := by
    rw [createPoison_block_eq toyOps pkW [1,2,3] 3 _ b rfl hb, c01_serialize_eq _ hbne]
  have hH : RoundTripHyps toyOps .block pkW cfg.pk ((List.replicate 59 5).take 3) ((List.replicate 59 5).drop 3)
      (serBytes b idBlock) := by
    refine ⟨hs, [1,2,3], [[4,5]], [[1,2,9]], hkid, rfl, rfl, ?_, ?_, ?_⟩
    · intro k' hk' encKey _ hid
      simp only [List.mem_singleton] at hk'
      subst hk'
      exact absurd hid (by decide)
    · intro ek h; rw [hek ek h]; decide
    · rw [c01_serBytes_length, hbl]; decide
  obtain ⟨h1, h2⟩ := poison_detected_in_text toyOps cfg kv pkW .block 3 _ _ [97,98] [99] rfl hP hH (by decide)
  exact ⟨_, hP, h1, h2 rfl, (no_false_alarm toyOps cfg kv _ h1).2⟩

/-- 2 (AcraStruct poison record, executable stand-in back end, AcraTranslator): the record alone is sent
to `DecryptSym` by a client that has no keys – error for the client, alarm raised; in the SQL proxy
with working callbacks the alarm is raised as well. -/
example :
    let priv := shimOps.privOfSeed (List.replicate 32 1)
    let other := shimOps.privOfSeed (List.replicate 32 2)
    let pkW : KeyView := ⟨some (shimOps.pubOf priv), none, none, none⟩
    let pk : KeyView := ⟨none, some ([] ++ priv :: [other]), none, none⟩
    let cfg : PoisonCfg := ⟨true, false, pk⟩
    let kv : KeyView := ⟨none, none, none, none⟩
    ∃ P, createPoison shimOps pkW .struct 4 (List.replicate 92 7) = .ok P ∧
      (translatorDecrypt shimOps cfg kv .block P).1 = .err ∧ 1 ≤ (translatorDecrypt shimOps cfg kv .block P).2 ∧
      1 ≤ (proxyOnColumn shimOps cfg kv P).2 := by
  intro priv other pkW pk cfg kv
  have hpriv : shimOps.validPriv priv = true := shim_keygenLaws.valid_seed _ (by decide)
  obtain ⟨b, hb⟩ := struct_create_total shimOps shim_sealLaws shim_msgLaws shim_keygenLaws priv []
    ((List.replicate 92 7).take 4) ((List.replicate 92 7).drop 4) hpriv (by decide) (by decide) (by decide)
  have hbne : b ≠ [] := by
    obtain ⟨encKey, encData, _, _, hss⟩ := c01_createStruct_ok hb
    rw [hss]
    intro h
    have := congrArg List.length h
    simp [c01_structTag_length] at this
  have hP : createPoison shimOps pkW .struct 4 (List.replicate 92 7) = .ok (serBytes b idStruct) := by
    rw [createPoison_struct_eq shimOps pkW _ 4 _ b rfl hb, c01_serialize_eq _ hbne]
  have hH : RoundTripHyps shimOps .struct pkW cfg.pk ((List.replicate 92 7).take 4) ((List.replicate 92 7).drop 4)
      (serBytes b idStruct) :=
    ⟨shim_sealLaws, shim_sealLen, shim_msgLaws, shim_msgLen, shim_keygenLaws, priv, [], [other], hpriv, rfl, rfl, by simp⟩
  obtain ⟨h1, h2⟩ := poison_detected_translator_alone shimOps cfg kv pkW .struct .block 4 _ _ rfl hP hH
    (fun m => decryptWithHandler_no_keys shimOps kv rfl rfl _ _ m)
  exact ⟨_, hP, h1, h2, (poison_detected_alone shimOps cfg kv pkW .struct 4 _ _ rfl hP hH).1⟩

/-- 3 (contrapositives): plain text; a value nobody can open although it carries all tags; and under key
commitment (`boxOps`) an AcraBlock-protected value of a client whose key `[1,2,3]` is not among the
poison keys `[[9,9],[1,2,4]]` (the second has the same 2-byte key id) – all with callbacks configured. -/
example :
    let pk : KeyView := ⟨none, none, some [9,9], some [[9,9],[1,2,4]]⟩
    let cfg : PoisonCfg := ⟨true, false, pk⟩
    let kvW : KeyView := ⟨none, none, some [1,2,3], none⟩
    let kvR : KeyView := ⟨none, none, some [1,2,3], some ([] ++ [1,2,3] :: [])⟩
    (proxyOnColumn boxOps cfg kvR [104,105,32,116,104,101,114,101]).2 = 0 ∧
    (proxyOnColumn boxOps ⟨true, false, ⟨none, none, none, none⟩⟩ ⟨none, none, none, none⟩
      [37,37,37,34,34,34,34,34,34,34,34,1,2,3]).2 = 0 ∧
    ∃ p, protect boxOps kvW .block [9,9] (List.replicate 56 5) = .ok p ∧
      proxyOnColumn boxOps cfg kvR ([97] ++ p ++ [98]) = (.ok ([97] ++ [9,9] ++ [98]) true, 0) := by
  intro pk cfg kvW kvR
  refine ⟨plain_data_no_alarm boxOps cfg kvR _ (by decide) (by decide) (by decide), ?_, ?_⟩
  · exact damaged_no_alarm boxOps _ _ _ (fun i _ _ => isPoison_no_keys boxOps _ rfl rfl _)
      (fun x id _ _ => isPoison_no_keys boxOps _ rfl rfl _) (fun x _ _ m => process_no_keys boxOps _ rfl rfl _ m)
  · have hs := Box.sealLaws
    have hnm : matchKind .block [9,9] = false := by decide
    have hnr : registryMatch [9,9] = false := by decide
    have hkid : (keyId boxOps [1,2,3] []).length = 2 := by decide
    have e1 : boxOps.enc ((List.replicate 56 5).take 32) [] [9,9] (((List.replicate 56 (5:UInt8)).drop 32).take 12) =
        some (Box.esc (List.replicate 32 5) ++ (Box.esc [] ++ (Box.esc (List.replicate 12 5) ++ [9,9]))) := by decide
    have e2 : boxOps.enc [1,2,3] [] ((List.replicate 56 5).take 32) (((List.replicate 56 (5:UInt8)).drop 44).take 12) =
        some (Box.esc [1,2,3] ++ (Box.esc [] ++ (Box.esc (List.replicate 12 5) ++ List.replicate 32 5))) := by decide
    have hek : ∀ encKey, boxOps.enc [1,2,3] [] ((List.replicate 56 5).take 32) (((List.replicate 56 (5:UInt8)).drop 44).take 12) = some encKey →
        encKey.length < 65536 := by
      intro encKey h; rw [e2] at h; cases h; decide
    obtain ⟨p, hp⟩ := protect_block_total boxOps hs kvW [1,2,3] [9,9] (List.replicate 56 5) rfl (by decide)
      (by decide) (by decide) (by decide)
    have hpl : 2 < p.length ∧ p.length < 2^63 := by
      obtain ⟨e, he, _, rfl⟩ := c01_protect_ok hp hnm hnr
      obtain ⟨key', hk', hcb⟩ := c01_encryptKind_block he hnm
      cases hk'
      obtain ⟨encData, encKey, h1, h2, rfl⟩ := c01_createBlock_ok hcb
      rw [e1] at h1; rw [e2] at h2
      cases h1; cases h2
      rw [c01_serBytes_length, c01_buildBlock_length _ _ _ hkid]
      decide
    refine ⟨p, hp, client_block_no_alarm boxOps Box.sealCommit cfg kvW kvR [9,9] _ p [97] [98]
      ⟨hs, [1,2,3], [], [], hkid, rfl, rfl, by simp, hek, hpl.2⟩ hnm hnr hp ?_ ?_ (by decide) (by decide)⟩
    · intro h
      have := congrArg List.length h
      rw [List.length_append] at this
      simp at this
      omega
    · intro key ks hk hks
      cases hk; cases hks
      decide

/-- 4/5: the hypotheses are plain configuration facts -/
example : (proxyOnColumn shimOps ⟨false, false, ⟨none, none, some [1], some [[1]]⟩⟩ ⟨none, none, none, none⟩ [37,37,37,1]).2 = 0 ∧
    (proxyOnColumn shimOps ⟨true, true, ⟨none, none, none, none⟩⟩ ⟨none, none, none, none⟩ [37,37,37,1]).2 = 0 :=
  ⟨(no_callbacks_no_alarm shimOps _ _ .block _ rfl).1, (missing_poison_keys_no_alarm shimOps _ _ .block _ rfl rfl).1⟩

example : proxyCallbacks boxOps ⟨true, false, ⟨none, none, some [1], some [[1]]⟩⟩ ⟨none, none, none, none⟩ =
    [poisonCallback boxOps ⟨true, false, ⟨none, none, some [1], some [[1]]⟩⟩, plainT (decryptCallback boxOps ⟨none, none, none, none⟩)] :=
  (poison_checked_before_replace boxOps _ _ rfl).1

/-! ### non-vacuity of section 5b -/

section StoreExamples
open AcraModel.Keystore

/-- `v1_store_offers_surviving_poison_keys`: after two generations of the poison key pair (and one of the symmetric key)
the rotated generation 1 is offered -/
example : ∃ l, offeredGens ((V1.init (-1)).run [.gen ppSlot, .gen ppSlot, .gen psSlot]).1 ppSlot = some l ∧ 1 ∈ l :=
  v1_store_offers_surviving_poison_keys _ (by intro o ho; simp at ho; rcases ho with rfl | rfl | rfl <;> rfl) ppSlot rfl 1
    (by decide +kernel)

/-- `v1_cached_store_keeps_offering_poison_keys`: unbounded cache, a detection attempt, then a rotation by the same handle -/
example : ∃ l2, offeredGens (((((V1.init 0).run [.gen ppSlot]).1.step (.all ppSlot)).1.run [.gen ppSlot]).1) ppSlot = some l2 ∧ 1 ∈ l2 :=
  v1_cached_store_keeps_offering_poison_keys 0 [.gen ppSlot] [.gen ppSlot] ppSlot 1 [1]
    (by intro o ho; simp at ho; subst ho; rfl) (by intro o ho; simp at ho; subst ho; rfl)
    (by decide +kernel) (by decide) (by decide +kernel)

/-- `poison_under_offered_generation_alarms_block` on the ROTATED poison symmetric key: the store (no cache) has seen two
generations, offers `[2, 1]`; the record was made under generation 1 (`[1,2,3]`), generation 2 (`[4,5]`) has another key
id; embedded between `ab` and `c` – alarm. -/
example :
    let km : PoisonMaterial := ⟨fun _ => [], fun g => if g = 1 then [1,2,3] else [4,5]⟩
    let st := ((V1.init (-1)).run [.gen psSlot, .gen psSlot]).1
    let pkW : KeyView := ⟨none, none, some [1,2,3], none⟩
    let cfg : PoisonCfg := ⟨true, false, storePoisonView km st⟩
    let kv : KeyView := ⟨none, none, some [8], some [[8]]⟩
    ∃ P, createPoison toyOps pkW .block 3 (List.replicate 59 5) = .ok P ∧
      1 ≤ (proxyOnColumn toyOps cfg kv ([97,98] ++ P ++ [99])).2 := by
  intro km st pkW cfg kv
  have hs := toy_sealLaws
  have hsl := toy_sealLen
  have hkid := keyId_length toyOps toy_hashLen [1,2,3] []
  obtain ⟨b, hb⟩ := block_create_total toyOps hs [1,2,3] [] ((List.replicate 59 5).take 3) ((List.replicate 59 5).drop 3)
    (by decide) (by decide) (by decide) (by decide)
  obtain ⟨hbl, _, hek⟩ := block_sizes toyOps hs hsl _ _ _ _ b hkid hb
  have hbne : b ≠ [] := by intro h; rw [h] at hbl; simp at hbl
  have hP : createPoison toyOps pkW .block 3 (List.replicate 59 5) = .ok (serBytes b idBlock) := by
    rw [createPoison_block_eq toyOps pkW [1,2,3] 3 _ b rfl hb, c01_serialize_eq _ hbne]
  have hoff : offeredGens st psSlot = some [2, 1] := by decide +kernel
  refine ⟨_, hP, (poison_under_offered_generation_alarms_block toyOps km st 1 [2, 1] hoff (by decide) hs hkid cfg rfl rfl kv pkW rfl
    3 _ _ [97,98] [99] hP ?_ ?_ ?_ (by decide)).1⟩
  · intro g' hg' encKey _ hid
    have : g' = 2 := by simpa using hg'
    subst this
    exact absurd hid (by decide)
  · intro ek h; rw [hek ek h]; decide
  · rw [c01_serBytes_length, hbl]; decide

end StoreExamples

end AcraModel.Props.C15
