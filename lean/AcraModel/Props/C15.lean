import AcraModel.Envelope.Poison
import AcraModel.Envelope.PoisonLemmas
import AcraModel.Generated.Wiring
/-!
# C15 — poison records always raise the alarm, ordinary data never does

Property theorems only. Model: `AcraModel/Envelope/Poison.lean` (on top of the detector model).
-/
namespace AcraModel.Props.C15
open AcraModel AcraModel.Envelope Generated

/-- In both SQL proxies the poison detector is registered on the envelope detector before the
decrypt handler (and after the compatibility wrapper, which only records hits): a value is
checked for poison before anything can replace it. -/
theorem fact_poison_first :
    Wiring.pgCallbackOrder = ["wrapper", "poisonDetector", "decrypt"] ∧
    Wiring.mysqlCallbackOrder = ["wrapper", "poisonDetector", "decrypt"] := by decide

/-- Every AcraTranslator decrypt operation runs the poison detector on its failure path. -/
theorem fact_translator_checks :
    Wiring.translatorPoisonChecks.map (·.1) = ["Decrypt", "DecryptSearchable", "DecryptSymSearchable", "DecryptSym"] ∧
    ∀ p ∈ Wiring.translatorPoisonChecks, 1 ≤ p.2 := by decide

/-! ## 1. the traced scan computes the same bytes as the plain one

The alarm count is the second component of `scanT` / `onColumnT` / `onColumnCompatT` / `proxyOnColumn` /
`translatorDecrypt`. These functions return only after every callback has run, so a positive count
in the returned pair means: the intrusion callbacks ran BEFORE the value was delivered. The first
component is what is delivered; the theorems of this section say that it is exactly what the
untraced functions of `Detector.lean` compute, so every C01/C03 theorem about `scan`, `onColumn`,
`onColumnCompat` is a theorem about the delivered value. -/

/-- **Threading the alarm counter through the scan does not change what the scan returns**: the output
component of the traced scan is the plain scan run on the callbacks with their alarm bit dropped. -/
theorem scanT_output (cbsT : List CallbackT) (rest : Bytes) :
    (scanT cbsT rest).1 = scan (cbsT.map (fun f x => (f x).1)) rest := scanT_fst cbsT rest

/-- … in particular for callbacks that never raise the alarm (`plainT`) it is the plain scan. -/
theorem scanT_output_plain (cbs : List Callback) (rest : Bytes) :
    (scanT (cbs.map plainT) rest).1 = scan cbs rest := by
  rw [scanT_fst, outCbs_plainT]

/-- The same for `EnvelopeDetector.OnColumn` … -/
theorem onColumnT_output (cbsT : List CallbackT) (d : Bytes) :
    (onColumnT cbsT d).1 = onColumn (cbsT.map (fun f x => (f x).1)) d := onColumnT_fst cbsT d

/-- … and for the whole compatibility wrapper `OldContainerDetectorWrapper.OnColumn` (container scan,
then bare AcraStructs, then bare AcraBlocks). -/
theorem onColumnCompatT_output (cbsT : List CallbackT) (d : Bytes) :
    (onColumnCompatT cbsT d).1 = onColumnCompat (cbsT.map (fun f x => (f x).1)) d := onColumnCompatT_fst cbsT d

/-- What the SQL proxies deliver for a column value is `OldContainerDetectorWrapper.OnColumn` with the
callback list "poison detector (if callbacks are configured), decrypt handler"; the poison detector
answers "unchanged" unless it raised the alarm and the configured callbacks failed. Without
callbacks it is exactly the column processor of C01/C03. -/
theorem proxyOnColumn_output (c : CryptoOps) (cfg : PoisonCfg) (kv : KeyView) (d : Bytes) :
    (proxyOnColumn c cfg kv d).1 =
      onColumnCompat ((if cfg.hasCallbacks then [fun x => (poisonCallback c cfg x).1] else []) ++ [decryptCallback c kv]) d := by
  unfold proxyOnColumn
  rw [onColumnCompatT_fst]
  unfold proxyCallbacks outCbs
  cases cfg.hasCallbacks <;> rfl

/-! ## 4. no callbacks / no poison keys: never an alarm -/

/-- **Without configured intrusion callbacks nothing is ever reported**, whatever the value: the SQL
proxies do not register the poison detector (and the detector itself returns at once), AcraTranslator
scans with an empty callback list. -/
theorem no_callbacks_no_alarm (c : CryptoOps) (cfg : PoisonCfg) (kv : KeyView) (k : Kind) (d : Bytes)
    (h : cfg.hasCallbacks = false) :
    (proxyOnColumn c cfg kv d).2 = 0 ∧ (translatorDecrypt c cfg kv k d).2 = 0 := by
  constructor
  · apply onColumnCompatT_quiet
    intro f hf x
    cases hn : (f x).2 with
    | false => rfl
    | true => exact absurd (proxyCallbacks_alarm ⟨f, hf, hn⟩).1 (by simp [h])
  · unfold translatorDecrypt
    cases decryptWithHandler c kv k d with
    | ok m => rfl
    | panic => rfl
    | err =>
      simp only [h, Bool.false_eq_true, if_false]
      exact onColumnT_quiet [] (fun f hf => nomatch hf) d

/-- **A key store without poison keys never raises the alarm** (`GetPoison…Keys` fail: the detector
logs "skip poison record check due to a lack of poison keys" and returns the container unchanged). -/
theorem missing_poison_keys_no_alarm (c : CryptoOps) (cfg : PoisonCfg) (kv : KeyView) (k : Kind) (d : Bytes)
    (hp : cfg.pk.privs = none) (hs : cfg.pk.syms = none) :
    (proxyOnColumn c cfg kv d).2 = 0 ∧ (translatorDecrypt c cfg kv k d).2 = 0 := by
  have hq : ∀ x, (poisonCallback c cfg x).2 = false := by
    intro x
    rw [poisonCallback_alarm, isPoison_no_keys c cfg.pk hp hs]
    simp
  constructor
  · apply onColumnCompatT_quiet
    intro f hf x
    cases hn : (f x).2 with
    | false => rfl
    | true =>
      have := (proxyCallbacks_alarm ⟨f, hf, hn⟩).2
      rw [isPoison_no_keys c cfg.pk hp hs] at this
      cases this
  · unfold translatorDecrypt
    cases decryptWithHandler c kv k d with
    | ok m => rfl
    | panic => rfl
    | err =>
      simp only
      apply onColumnT_quiet
      intro f hf x
      split at hf
      · rw [List.mem_singleton.1 hf]; exact hq x
      · cases hf

/-! ## 2. a poison record always raises the alarm

`createPoison c pkW k dataLen rnd = .ok P`: `P` is a poison record of envelope kind `k` made with the
poison key(s) `pkW` (`poison.CreatePoisonRecord` / `CreateSymmetricPoisonRecord`).
`RoundTripHyps c k pkW cfg.pk …` are the hypotheses of the C01 round trip for that kind with the
detector's poison key view `cfg.pk` as reader: the key the record was made with occurs ANYWHERE in the
detector's poison key history (current or rotated), earlier keys do not accidentally open it. -/

/-- **A poison record inside a column value raises the alarm before the value is delivered** (SQL
proxies). Callbacks are configured; `P` is a poison record of either kind, made with the current or
a rotated poison key; it is stored alone or embedded: `pre ++ P ++ suf` with arbitrary `suf` and a
`pre` none of whose positions is processed by the proxy's callback stack (wrapper, poison detector,
decrypt handler) – see `poison_detected_in_text` for the checkable condition "no `%` in `pre`".
Then the alarm count returned together with the value is at least 1 – the intrusion callbacks ran
before `OnColumn` returned, i.e. before anything was delivered – and when running the callbacks
returns an error the column processing fails (`fatal`): the value is not delivered at all. -/
theorem poison_detected (c : CryptoOps) (cfg : PoisonCfg) (kv pkW : KeyView) (k : Kind) (dataLen : Nat)
    (rnd P pre suf : Bytes)
    (hcb : cfg.hasCallbacks = true)
    (hP : createPoison c pkW k dataLen rnd = .ok P)
    (h : RoundTripHyps c k pkW cfg.pk (rnd.take dataLen) (rnd.drop dataLen) P)
    (hpre : ∀ i, i < pre.length → ∃ hit,
      headStep [fun _ => Cb.same, fun x => (poisonCallback c cfg x).1, decryptCallback c kv]
        ((pre ++ P ++ suf).drop i) = .skip hit) :
    1 ≤ (proxyOnColumn c cfg kv (pre ++ P ++ suf)).2 ∧
    (cfg.callbackErr = true → (proxyOnColumn c cfg kv (pre ++ P ++ suf)).1 = .fatal) := by
  obtain ⟨e, rfl, he, hlen, hproc⟩ := createPoison_facts c k pkW cfg.pk dataLen rnd P h hP
  exact proxyOnColumn_poison c cfg kv k e pre suf hcb he hlen (isPoison_eq_true.2 ⟨_, hproc suf⟩) hpre

/-- … in particular when the bytes before the record contain no `%` (nothing there can look like a
container), and in particular for the record alone (`pre = suf = []`). -/
theorem poison_detected_in_text (c : CryptoOps) (cfg : PoisonCfg) (kv pkW : KeyView) (k : Kind) (dataLen : Nat)
    (rnd P pre suf : Bytes)
    (hcb : cfg.hasCallbacks = true)
    (hP : createPoison c pkW k dataLen rnd = .ok P)
    (h : RoundTripHyps c k pkW cfg.pk (rnd.take dataLen) (rnd.drop dataLen) P)
    (hpre : ∀ x ∈ pre, x ≠ 37) :
    1 ≤ (proxyOnColumn c cfg kv (pre ++ P ++ suf)).2 ∧
    (cfg.callbackErr = true → (proxyOnColumn c cfg kv (pre ++ P ++ suf)).1 = .fatal) :=
  poison_detected c cfg kv pkW k dataLen rnd P pre suf hcb hP h
    (by rw [List.append_assoc]; exact c01_skip_of_no_tag_byte _ pre (P ++ suf) hpre)

theorem poison_detected_alone (c : CryptoOps) (cfg : PoisonCfg) (kv pkW : KeyView) (k : Kind) (dataLen : Nat)
    (rnd P : Bytes)
    (hcb : cfg.hasCallbacks = true)
    (hP : createPoison c pkW k dataLen rnd = .ok P)
    (h : RoundTripHyps c k pkW cfg.pk (rnd.take dataLen) (rnd.drop dataLen) P) :
    1 ≤ (proxyOnColumn c cfg kv P).2 ∧ (cfg.callbackErr = true → (proxyOnColumn c cfg kv P).1 = .fatal) := by
  have := poison_detected_in_text c cfg kv pkW k dataLen rnd P [] [] hcb hP h (by intro x hx; cases hx)
  simpa using this

/-- **AcraTranslator**: a decrypt request (`Decrypt`, `DecryptSym`, … – any handler kind `k'`) whose data
contains a poison record, and which the client's own keys do not decrypt, raises the alarm and the
client gets an error (never the poison record's content, and no hint that it was one). -/
theorem poison_detected_translator (c : CryptoOps) (cfg : PoisonCfg) (kv pkW : KeyView) (k k' : Kind) (dataLen : Nat)
    (rnd P pre suf : Bytes)
    (hcb : cfg.hasCallbacks = true)
    (hP : createPoison c pkW k dataLen rnd = .ok P)
    (h : RoundTripHyps c k pkW cfg.pk (rnd.take dataLen) (rnd.drop dataLen) P)
    (hpre : ∀ x ∈ pre, x ≠ 37)
    (hfail : ∀ m, decryptWithHandler c kv k' (pre ++ P ++ suf) ≠ .ok m) :
    (translatorDecrypt c cfg kv k' (pre ++ P ++ suf)).1 = .err ∧
    1 ≤ (translatorDecrypt c cfg kv k' (pre ++ P ++ suf)).2 := by
  obtain ⟨e, rfl, he, hlen, hproc⟩ := createPoison_facts c k pkW cfg.pk dataLen rnd P h hP
  unfold translatorDecrypt
  cases hd : decryptWithHandler c kv k' (pre ++ serBytes e k.id ++ suf) with
  | ok m => exact absurd hd (hfail m)
  | panic => exact absurd hd (decryptWithHandler_ne_panic c kv k' _)
  | err =>
    simp only [hcb, if_true]
    refine ⟨trivial, ?_⟩
    exact translator_poison c cfg k e pre suf hcb he hlen (isPoison_eq_true.2 ⟨_, hproc suf⟩)
      (by rw [List.append_assoc]; exact c01_skip_of_no_tag_byte _ pre (serBytes e k.id ++ suf) hpre)

/-- the record alone, as the task of the translator's `Decrypt*` calls usually is -/
theorem poison_detected_translator_alone (c : CryptoOps) (cfg : PoisonCfg) (kv pkW : KeyView) (k k' : Kind)
    (dataLen : Nat) (rnd P : Bytes)
    (hcb : cfg.hasCallbacks = true)
    (hP : createPoison c pkW k dataLen rnd = .ok P)
    (h : RoundTripHyps c k pkW cfg.pk (rnd.take dataLen) (rnd.drop dataLen) P)
    (hfail : ∀ m, decryptWithHandler c kv k' P ≠ .ok m) :
    (translatorDecrypt c cfg kv k' P).1 = .err ∧ 1 ≤ (translatorDecrypt c cfg kv k' P).2 := by
  have := poison_detected_translator c cfg kv pkW k k' dataLen rnd P [] [] hcb hP h (by intro x hx; cases hx)
    (by simpa using hfail)
  simpa using this

end AcraModel.Props.C15
