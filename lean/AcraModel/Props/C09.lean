import AcraModel.Searchable.ProcessorLemmas
import AcraModel.Generated.Wiring
import AcraModel.Crypto.Box
/-!
# C09 — equality search over protected columns finds exactly the matching rows

Property theorems only. Models: `AcraModel/Searchable/{Index,Rewrite,Eval,Processor}.lean`
(helper lemmas in `Lemmas.lean`, `ProcessorLemmas.lean`).

Cryptographic assumptions are hypotheses: `HashLen c` (HMAC-SHA256 yields 32 bytes) and collision
freedom *on the finitely many values at hand* (`NoColl c k S`) – never `HashInj` (all byte strings)
together with `HashLen`, which would be unsatisfiable.
-/
namespace AcraModel.Props.C09
open AcraModel AcraModel.Envelope AcraModel.Searchable Generated

/-! ## facts regenerated from the source -/

/-- `hmac/hash.go`: one hash function, number 127 (= `255/2`), it is the default, its MAC has 32
bytes, the stored hash has `32 + 1` bytes, `GenerateHMAC` writes the default number in front of an
HMAC computed with the default function, and `ExtractHash` takes `size + 1` bytes after checking
that that many are there. -/
theorem fact_hash_layout :
    Searchable.sha256FuncNumber = 127 ∧ Searchable.defaultFuncNumber = Searchable.sha256FuncNumber ∧
    Searchable.hashFuncs = [(127, "sha256.New")] ∧ Searchable.sha256Size = 32 ∧
    Searchable.defaultHashSizeExtra = 1 ∧ Searchable.generatePrefixesDefaultFuncNumber = true ∧
    Searchable.generateUsesDefaultFunc = true ∧ Searchable.extractTakeExtra = Searchable.defaultHashSizeExtra ∧
    Searchable.extractChecksLength = true := by decide

/-- The `substr` both query rewriters put around a searchable column starts at 1 and is exactly as
long as the hash `GenerateHMAC` writes (`GetDefaultHashSize()` = 33): PostgreSQL's
`getSubstrFuncNode` and every `SubstrExpr` MySQL's `OnQuery` builds (left side, right side of a
join). A different bound on either side would compare a truncated or over-long prefix with the
hash and no row would ever match. -/
theorem substr_len_matches :
    Searchable.pgSubstrFrom = 1 ∧ Searchable.pgSubstrLen = hashSize ∧
    Searchable.mysqlSubstrBounds = [(1, hashSize), (1, hashSize)] ∧ Searchable.pgSubstrFuncName = "substr" ∧
    ∀ d right, substrBounds d right = (1, hashSize) := by
  refine ⟨by decide, by decide, by decide, by decide, ?_⟩
  intro d right
  cases d <;> cases right <;> decide

/-- Both SQL proxies subscribe the HMAC processor exactly twice, once before and once after the
container detector, with nothing in between. -/
theorem fact_processor_around_detector :
    (Wiring.pgSubscriberOrder.filter (fun s => s = "hmacProcessor" || s = "containerDetector")) =
      ["hmacProcessor", "containerDetector", "hmacProcessor"] ∧
    (Wiring.mysqlSubscriberOrder.filter (fun s => s = "hmacProcessor" || s = "containerDetector")) =
      ["hmacProcessor", "containerDetector", "hmacProcessor"] ∧
    ((Wiring.pgSubscriberOrder.dropWhile (· ≠ "hmacProcessor")).take 3) = ["hmacProcessor", "containerDetector", "hmacProcessor"] ∧
    ((Wiring.mysqlSubscriberOrder.dropWhile (· ≠ "hmacProcessor")).take 3) = ["hmacProcessor", "containerDetector", "hmacProcessor"] := by
  decide

/-- The filters select `<column> <op> <value>` only for `=` and `<>` (MySQL also `<=>`), and
`ChangeSearchableOperator` maps exactly the equality-like operators to `=` and the inequality-like
ones to `<>`; on the operators the model distinguishes this is: -/
theorem fact_operators :
    Searchable.pgValueOps = ["=", "<>"] ∧
    Searchable.mysqlValueOps = ["sqlparser.EqualStr", "sqlparser.NotEqualStr", "sqlparser.NullSafeEqualStr"] ∧
    (∀ d, changeOp d .eq = .eq ∧ changeOp d .ne = .ne ∧ changeOp d .lt = .lt) ∧
    changeOp .mysql .nullSafeEq = .eq ∧
    (∀ d op, valueOp d op = true → hashedOp d op = true) := by
  refine ⟨by decide, by decide, ?_, by decide, valueOp_hashedOp⟩
  intro d
  cases d <;> decide

/-! ## the blind index -/

/-- What the searchable encryptor stores for a value that is not itself an envelope is the hash of
the plaintext under the client's HMAC key followed by an envelope. -/
theorem stored_shape (c : CryptoOps) (k : Bytes) (kv : KeyView) (kind : Kind) (v rnd s : Bytes)
    (hv : registryMatch v = false) (h : searchableEncrypt c (some k) kv kind v rnd = .ok s) :
    ∃ e, s = generateHMAC c k v ++ e ∧ protect c kv kind v rnd = .ok e := by
  simp only [searchableEncrypt, hv, Bool.false_eq_true, if_false] at h
  cases hp : protect c kv kind v rnd with
  | err => simp [hp] at h
  | panic => simp [hp] at h
  | ok e =>
    simp only [hp, Out.ok.injEq] at h
    exact ⟨e, h.symm, rfl⟩

/-- **Equal plaintexts written by the same client carry the same blind index**: the first 33 bytes
of a stored value (what `substr(column, 1, 33)` yields) are `GenerateHMAC(key, plaintext)`,
whatever envelope follows – in particular independent of the randomness of the encryption and of
the envelope kind. -/
theorem index_deterministic (c : CryptoOps) (hl : HashLen c) (k v e e' : Bytes) :
    index (generateHMAC c k v ++ e) = generateHMAC c k v ∧
    index (generateHMAC c k v ++ e) = index (generateHMAC c k v ++ e') := by
  rw [index_stored c hl, index_stored c hl]
  exact ⟨rfl, rfl⟩

/-- the same, end to end through the encryptor: two writes of one plaintext (different randomness,
even different envelope kinds) have equal indexes -/
theorem index_deterministic_encrypt (c : CryptoOps) (hl : HashLen c) (k : Bytes) (kv : KeyView)
    (kind kind' : Kind) (v rnd rnd' s s' : Bytes) (hv : registryMatch v = false)
    (h : searchableEncrypt c (some k) kv kind v rnd = .ok s)
    (h' : searchableEncrypt c (some k) kv kind' v rnd' = .ok s') :
    index s = index s' := by
  obtain ⟨e, hs, _⟩ := stored_shape c k kv kind v rnd s hv h
  obtain ⟨e', hs', _⟩ := stored_shape c k kv kind' v rnd' s' hv h'
  rw [hs, hs']
  exact (index_deterministic c hl k v e e').2

/-- **Different plaintexts carry different blind indexes** – for values among which HMAC under the
client's key has no collision (hypothesis about the finite set `S` of values at hand). -/
theorem index_injective (c : CryptoOps) (hl : HashLen c) (k : Bytes) (S : Bytes → Prop) (hnc : NoColl c k S)
    (v v' e e' : Bytes) (hv : S v) (hv' : S v') (hne : v ≠ v') :
    index (generateHMAC c k v ++ e) ≠ index (generateHMAC c k v' ++ e') := by
  rw [index_stored c hl, index_stored c hl]
  intro h
  exact hne (hnc v v' hv hv' ((generateHMAC_eq_iff c k v v').mp h))

/-! ## the search -/

/-- **Exactness of the rewritten search for one row.** Let `cond` be a condition whose comparisons
have a supported form (`supported`: a searchable column on the left compared by `=`/`<>` (MySQL also
`<=>`) with a literal, a cast literal (PostgreSQL) or a placeholder, or with another searchable column
of the same client; everything else must not touch searchable columns nor reuse a hashed
placeholder). If `OnQuery` rewrites it to `dc` and `OnBind` turns the bound values `params` into
`params'`, then the database – evaluating `dc` literally on the stored row with `params'` – selects
the row **iff** `cond` holds for the row's plaintexts with the original values. Closed under AND/OR
by structural recursion; inequality gives the complement; joins compare plaintexts. Hypotheses: the
row's searchable columns hold `hash ++ envelope` written under the HMAC key the session uses
(`RowOk`), HMAC yields 32 bytes, and HMAC is collision free on the plaintexts of the row and the
searched values (`S`); searched values are not themselves envelopes. -/
theorem search_exact (x : QCtx) (hl : HashLen x.c) (k : Bytes) (hk : x.hkey = some k)
    (cond : Cond) (params params' : List Bytes) (dc : DbCond)
    (hsup : supported x (itemParams x cond) cond = true)
    (hq : rewriteCond x cond = .ok dc) (hb : rewriteBind x cond params = .ok params')
    (S : Bytes → Prop) (hnc : NoColl x.c k S)
    (row : Row) (pv : ColRef → Option Bytes) (hrow : RowOk x k row pv)
    (hpvS : ∀ c p, x.searchable c = true → pv c = some p → S p)
    (hvS : ∀ v ∈ condValues x params cond, S v ∧ registryMatch v = false) :
    evalDb params' row dc = holds pv params cond := by
  obtain ⟨hlt, hp⟩ := rewriteBind_spec x k hk cond params params' (fun v hv => (hvS v hv).2) hb
  exact search_exact_aux x hl k hk (itemParams x cond) params params' hp hlt S hnc row pv hrow hpvS
    cond dc hsup (fun _ h => h) hvS hq

/-- **The rows selected are exactly the rows whose plaintexts satisfy the condition**: `search`
(rewrite statement, rewrite bound values, literal evaluation by the database) returns precisely
those stored rows whose plaintext view satisfies the condition the client wrote. `view row` is the
plaintext view of each stored row. -/
theorem search_exact_rows (x : QCtx) (hl : HashLen x.c) (k : Bytes) (hk : x.hkey = some k)
    (cond : Cond) (params : List Bytes) (rows out : List Row)
    (hsup : supported x (itemParams x cond) cond = true)
    (S : Bytes → Prop) (hnc : NoColl x.c k S)
    (view : Row → ColRef → Option Bytes)
    (hrows : ∀ row ∈ rows, RowOk x k row (view row) ∧ ∀ c p, x.searchable c = true → view row c = some p → S p)
    (hvS : ∀ v ∈ condValues x params cond, S v ∧ registryMatch v = false)
    (hs : search x cond params rows = .ok out) :
    out = rows.filter (fun row => holds (view row) params cond) := by
  unfold search at hs
  cases hq : rewriteCond x cond with
  | err => simp [hq] at hs
  | panic => simp [hq] at hs
  | ok dc =>
    simp only [hq] at hs
    cases hb : rewriteBind x cond params with
    | err => simp [hb] at hs
    | panic => simp [hb] at hs
    | ok params' =>
      simp only [hb, Out.ok.injEq] at hs
      rw [← hs]
      unfold evalRows
      apply List.filter_congr
      intro row hr
      exact search_exact x hl k hk cond params params' dc hsup hq hb S hnc row (view row) (hrows row hr).1
        (hrows row hr).2 hvS

/-- Special case spelled out (one searchable column, one stored value): `column = literal` selects
the row iff its plaintext equals the literal, `column <> literal` iff it differs. -/
theorem search_exact_literal (x : QCtx) (hl : HashLen x.c) (k : Bytes) (hk : x.hkey = some k)
    (col : ColRef) (honly : ∀ c, x.searchable c = true ↔ c = col) (v p e : Bytes) (dcEq dcNe : DbCond)
    (S : Bytes → Prop) (hnc : NoColl x.c k S) (hv : S v) (hp : S p) (hm : registryMatch v = false)
    (hqe : rewriteCond x (.cmp (.col col) .eq (.lit v)) = .ok dcEq)
    (hqn : rewriteCond x (.cmp (.col col) .ne (.lit v)) = .ok dcNe) :
    evalDb [] [(col, generateHMAC x.c k p ++ e)] dcEq = (p == v) ∧
    evalDb [] [(col, generateHMAC x.c k p ++ e)] dcNe = (p != v) := by
  have hs : x.searchable col = true := (honly col).mpr rfl
  have hveq : valueOp x.d .eq = true := by cases x.d <;> decide
  have hvne : valueOp x.d .ne = true := by cases x.d <;> decide
  have hrow : RowOk x k [(col, generateHMAC x.c k p ++ e)] (fun c => if c = col then some p else none) := by
    constructor
    · intro c hc
      have hcc := (honly c).mp hc
      subst hcc
      exact ⟨p, e, by simp, by simp [Row.get]⟩
    · intro c hc
      have hne : c ≠ col := by
        intro e'
        subst e'
        rw [hs] at hc
        cases hc
      have hne' : ¬ col = c := fun e' => hne e'.symm
      simp [Row.get, hne, hne']
  have hpvS : ∀ c q, x.searchable c = true → (fun c => if c = col then some p else none) c = some q → S q := by
    intro c q _ hq
    by_cases hcc : c = col
    · simp [hcc] at hq; subst hq; exact hp
    · simp [hcc] at hq
  have hce : classify x (.col col) .eq (.lit v) = .value col v := by simp [classify, hs, hveq]
  have hcn : classify x (.col col) .ne (.lit v) = .value col v := by simp [classify, hs, hvne]
  constructor
  · have h := search_exact x hl k hk (.cmp (.col col) .eq (.lit v)) [] [] dcEq
      (by simp [supported, supportedCmp, hce]) hqe (by simp [rewriteBind, rewriteBindWith, itemParams, hce, hashShared, bindCount, bindData, bindEntries]) S hnc _ _ hrow hpvS
      (by intro w hw; simp [condValues, hce] at hw; subst hw; exact ⟨hv, hm⟩)
    rw [h]
    simp [holds, valOf, evalCmp, evalOp]
  · have h := search_exact x hl k hk (.cmp (.col col) .ne (.lit v)) [] [] dcNe
      (by simp [supported, supportedCmp, hcn]) hqn (by simp [rewriteBind, rewriteBindWith, itemParams, hcn, hashShared, bindCount, bindData, bindEntries]) S hnc _ _ hrow hpvS
      (by intro w hw; simp [condValues, hcn] at hw; subst hw; exact ⟨hv, hm⟩)
    rw [h]
    simp [holds, valOf, evalCmp, evalOp]

/-! ### what the rewrite does *not* cover (the model follows the code) -/

/-- **Value on the left side is not rewritten** (`'v' = column`): the filter only looks at
comparisons whose *left* operand is a column, so the statement reaches the database as written and
compares the whole stored value with the literal. `search_exact` therefore requires the column on
the left (`supported`). Known finding `value-on-left`. -/
theorem value_on_left_not_rewritten (x : QCtx) (col : ColRef) (op : Op) (v : Bytes) :
    rewriteCond x (.cmp (.lit v) op (.col col)) = .ok (.cmp (.const v) op (.col col)) ∧
    rewriteCond x (.cmp (.param 0) op (.col col)) = .ok (.cmp (.param 0) op (.col col)) := by
  simp [rewriteCond, rewriteCmp, classify, Operand.toDb]

/-- … and so a row whose plaintext equals the searched value is *not* selected (the stored value is
longer than any value that hashes to its first 33 bytes … concretely: a stored value never equals
its own plaintext when the plaintext is shorter than 33 bytes). -/
theorem value_on_left_counterexample (x : QCtx) (hl : HashLen x.c) (k : Bytes) (col : ColRef) (v e : Bytes)
    (hshort : v.length < 33) :
    evalDb [] [(col, generateHMAC x.c k v ++ e)] (.cmp (.const v) .eq (.col col)) = false ∧
    holds (fun c => if c = col then some v else none) [] (.cmp (.lit v) .eq (.col col)) = true := by
  constructor
  · have hlen : (generateHMAC x.c k v ++ e).length ≥ 33 := by
      rw [List.length_append, generateHMAC_length x.c hl, hashSize_eq]; omega
    have hne : v ≠ generateHMAC x.c k v ++ e := by
      intro h
      rw [← h] at hlen
      omega
    simp [evalDb, evalExpr, Row.get, evalCmp, evalOp, hne]
  · simp [holds, valOf, evalCmp, evalOp]

/-- **A placeholder under a type cast** (PostgreSQL `column = $1::bytea`): `OnQuery` wraps the column
in `substr` but neither it nor `OnBind` looks under the cast, so the bound value reaches the
database unhashed and is compared with the 33-byte index. Known finding `cast-placeholder`. -/
theorem cast_placeholder_not_hashed (x : QCtx) (hpg : x.d = .pg) (col : ColRef) (hs : x.searchable col = true)
    (values : List Bytes) :
    rewriteCond x (.cmp (.col col) .eq (.castParam 0)) = .ok (.cmp (substrOf .pg false col false) .eq (.castParam 0)) ∧
    rewriteBind x (.cmp (.col col) .eq (.castParam 0)) values = .ok values := by
  have hv : valueOp .pg .eq = true := by decide
  have hc : changeOp .pg .eq = .eq := by decide
  simp [rewriteCond, rewriteCmp, classify, hs, hpg, hv, hc, rewriteBind, rewriteBindWith, itemParams, hashShared, bindCount, bindData, bindEntries]

/-! ## `OnBind` next to other kinds of columns, and with a placeholder used twice -/

/-- `hmac/decryptor/{postgresql,mysql}/hashQuery.go`: `OnBind` compares `len(indexes)` with the number of
`bindData` entries of SEARCHABLE columns only, and `replaceValuesWithHMACs` replaces a position once. -/
theorem fact_bind_repaired :
    SearchBind.pgBindCountsSearchableOnly = true ∧ SearchBind.mysqlBindCountsSearchableOnly = true ∧
    SearchBind.pgReplacesOnce = true ∧ SearchBind.mysqlReplacesOnce = true := by decide

/-- **The count check of `OnBind` can never make it give up**: `ParseSearchQueryPlaceholdersSettings`
also records the placeholders of consistently tokenized columns, but the entries of searchable columns
it records are never more than the placeholders `OnBind` collects – for every statement, whatever
mixture of searchable, tokenized, encrypted-only and plain columns it compares, in every order. -/
theorem bind_count_never_skips (x : QCtx) (cond : Cond) :
    bindCount true x cond ≤ (itemParams x cond).length := bindCount_own_le x cond

/-- **Every search parameter is hashed, exactly once, whatever else the statement compares**: given
an HMAC key, placeholders inside the bound values and search values that are not themselves envelopes,
`OnBind` succeeds and forwards `HMAC(value)` at every placeholder of a supported comparison with a
searchable column – also when that placeholder occurs in several comparisons – and every other bound
value as the client sent it. (Together with `search_exact` this closes the case "statement that also
compares a tokenized column".) -/
theorem bind_hashes_every_search_parameter (x : QCtx) (k : Bytes) (hk : x.hkey = some k) (cond : Cond)
    (params : List Bytes) (hlt : ∀ j ∈ itemParams x cond, j < params.length)
    (hm : ∀ v ∈ condValues x params cond, registryMatch v = false) :
    ∃ params', rewriteBind x cond params = .ok params' ∧
      ∀ j, params'[j]? = if j ∈ itemParams x cond then (params[j]?).map (generateHMAC x.c k) else params[j]? := by
  obtain ⟨params', h⟩ := rewriteBind_total x k hk cond params hlt hm
  exact ⟨params', h, (rewriteBind_spec x k hk cond params params' hm h).2⟩

/-- The pinned tree (`len(bindData) > len(indexes)`): `tok = $1 AND data = $2` with `tok` consistently
tokenized and `data` searchable – `OnBind` forwards BOTH bound values as the client sent them: the search
parameter reaches the database in clear and matches no blind index. Fixed (`fact_bind_repaired`). -/
theorem legacy_mixed_counterexample (x : QCtx) (tok data : ColRef) (ht : x.tokenized tok = true)
    (hts : x.searchable tok = false) (hd : x.searchable data = true) (a b : Bytes) :
    legacyRewriteBind x (.and (.cmp (.col tok) .eq (.param 0)) (.cmp (.col data) .eq (.param 1))) [a, b] = .ok [a, b] := by
  have hv : valueOp x.d .eq = true := by cases x.d <;> decide
  have hne : tok ≠ data := by intro e; rw [e, hd] at hts; cases hts
  simp [legacyRewriteBind, rewriteBindWith, itemParams, classify, bindCount, bindData, bindEntries, assign, ht, hts, hd, hv]

/-- The pinned tree (no `replaced` set): `data = $1 OR data = $1` – the one bound value is replaced by
the hash OF ITS HASH, which matches no blind index. Fixed (`fact_bind_repaired`). -/
theorem legacy_shared_counterexample (x : QCtx) (k : Bytes) (hk : x.hkey = some k) (data : ColRef)
    (hd : x.searchable data = true) (v : Bytes) (hm : registryMatch v = false)
    (hm2 : registryMatch (generateHMAC x.c k v) = false) :
    legacyRewriteBind x (.or (.cmp (.col data) .eq (.param 0)) (.cmp (.col data) .eq (.param 0))) [v]
      = .ok [generateHMAC x.c k (generateHMAC x.c k v)] := by
  have hv : valueOp x.d .eq = true := by cases x.d <;> decide
  simp [legacyRewriteBind, rewriteBindWith, itemParams, classify, bindCount, bindData, bindEntries, assign, hd, hv,
    hashShared, calcHmac_plain x k v hk hm, calcHmac_plain x k _ hk hm2]

/-! ## a value whose index does not match its content is not handed out -/

/-- `NewHashProcessor` (and with it `DecryptRotatedSearchableAcraStruct` / `…AcraBlock`): whenever
a value that starts with a hash is accepted, the hash is the genuine index of exactly the plaintext
handed out. Contrapositive: **a stored value whose hash differs from `GenerateHMAC(key, decrypted
content)` is not delivered as valid plaintext.** -/
theorem bad_index_not_valid (c : CryptoOps) (hl : HashLen c) (k : Bytes) (proc : Bytes → Out Bytes)
    (data h p : Bytes) (he : extractHash data = some h)
    (hok : hashProcessor c (some k) proc data = .ok p) :
    h = generateHMAC c k p ∧ proc (data.drop h.length) = .ok p := by
  obtain ⟨hp, heq⟩ := hashProcessor_checked c (some k) proc data h p he hok
  exact ⟨(isEqual_iff c hl k p he).mp heq, hp⟩

/-- the same for the two library entry points -/
theorem bad_index_not_valid_library (c : CryptoOps) (hl : HashLen c) (k : Bytes) (keys : List Bytes) (ctx : Bytes)
    (data h p : Bytes) (he : extractHash data = some h) :
    (decryptSearchableStruct c k keys ctx data = .ok p → h = generateHMAC c k p) ∧
    (decryptSearchableBlock c k keys ctx data = .ok p → h = generateHMAC c k p) :=
  ⟨fun hok => (bad_index_not_valid c hl k _ data h p he hok).1,
   fun hok => (bad_index_not_valid c hl k _ data h p he hok).1⟩

/-- AcraTranslator `DecryptSearchable` / `DecryptSymSearchable` -/
theorem bad_index_not_valid_translator (c : CryptoOps) (hl : HashLen c) (k : Bytes) (kv : KeyView) (kd : Kind)
    (data h p : Bytes) (he : extractHash data = some h)
    (hok : translatorDecrypt c (some k) kv kd data = .ok p) :
    h = generateHMAC c k p := by
  obtain ⟨_, heq⟩ := translatorDecrypt_checked c (some k) kv kd data h p he hok
  exact (isEqual_iff c hl k p he).mp heq

/-- without the client's HMAC key nothing that carries a hash is accepted -/
theorem bad_index_no_key (c : CryptoOps) (proc : Bytes → Out Bytes) (data h p : Bytes)
    (he : extractHash data = some h) : hashProcessor c none proc data ≠ .ok p := by
  intro hok
  have := (hashProcessor_checked c none proc data h p he hok).2
  simp [isEqual] at this

/-- **SQL proxies** (`hmacProcessor → containerDetector → hmacProcessor`): a column `hash ++ envelope…`
whose hash is not the index of what the detector decrypted is handed to the client *as stored* –
never the decrypted bytes –; if it is the genuine index the decrypted bytes are delivered. Either
way the processor keeps nothing for the next column. -/
theorem bad_index_not_valid_proxy (c : CryptoOps) (hl : HashLen c) (k : Bytes) (det : Bytes → ScanOut) (s : PState)
    (col h d : Bytes) (hit : Bool)
    (he : extractHash col = some h) (hm : matchEnvelope (col.drop h.length) = .ok true)
    (hd : det (col.drop h.length) = .ok d hit) :
    (h ≠ generateHMAC c k d → column c (some k) det s col = .ok (PState.init, some col)) ∧
    (h = generateHMAC c k d → column c (some k) det s col = .ok (PState.init, some d)) := by
  have hc := column_searchable c (some k) det s col h d hit he hm hd
  constructor
  · intro hne
    have : isEqual c (some k) h d = false := by
      cases hq : isEqual c (some k) h d
      · rfl
      · exact absurd ((isEqual_iff c hl k d he).mp hq) hne
    simpa [this] using hc
  · intro heq
    have : isEqual c (some k) h d = true := (isEqual_iff c hl k d he).mpr heq
    simpa [this] using hc

/-- **Columns do not influence each other**: what a column turns into does not depend on the
columns processed before it (the first call ignores and clears the state, the second leaves none).
On the pinned tree this was false – see `legacy_*`. -/
theorem columns_independent (c : CryptoOps) (hkey : Option Bytes) (det : Bytes → ScanOut) (s : PState) (col : Bytes) :
    column c hkey det s col = column c hkey det PState.init col ∧
    ∀ s1 out, column c hkey det s col = .ok (s1, some out) → s1 = PState.init :=
  ⟨column_stateless c hkey det s PState.init col, fun s1 out h => column_resets c hkey det s s1 col out h⟩

/-- A genuine searchable value comes back as its plaintext through the proxy chain, provided the
detector decrypts the envelope (`det e = ok v`) and the envelope is recognised as one. -/
theorem proxy_roundtrip (c : CryptoOps) (hl : HashLen c) (k : Bytes) (det : Bytes → ScanOut) (s : PState)
    (v e : Bytes) (hit : Bool) (hm : matchEnvelope e = .ok true) (hd : det e = .ok v hit) :
    column c (some k) det s (generateHMAC c k v ++ e) = .ok (PState.init, some v) := by
  have he := extractHash_stored c hl k v e
  have hlen : (generateHMAC c k v).length = 33 := by rw [generateHMAC_length c hl, hashSize_eq]
  have hdrop : (generateHMAC c k v ++ e).drop (generateHMAC c k v).length = e := by simp
  exact (bad_index_not_valid_proxy c hl k det s _ (generateHMAC c k v) v hit he (by rw [hdrop]; exact hm)
    (by rw [hdrop]; exact hd)).2 rfl

/-! ### the defect of the pinned tree (repaired by `fix: hmac.Processor verifies on its second call …`) -/

/-- Before the repair: after a searchable column whose (verified) plaintext itself starts with the
hash function number and is at least 33 bytes long – with no envelope after those 33 bytes – the
processor was left with `hashData` set and a nil `matchedHash`, and **every further `OnColumn` call
panicked** (nil-pointer dereference), for any data. -/
theorem legacy_next_column_panics (c : CryptoOps) (hkey : Option Bytes) (s : PState) (x h plain hp : Bytes)
    (h1 : s.hashData = some x) (h2 : s.matchedHash = some h) (hv : isEqual c hkey h plain = true)
    (he : extractHash plain = some hp) (hm : matchEnvelope (plain.drop hp.length) = .ok false) :
    ∃ o, legacyOnColumn c hkey s plain = .ok o ∧ o.data = plain ∧ ∀ next, legacyOnColumn c hkey o.st next = .panic := by
  obtain ⟨o, ho, hdata, hh, hmn⟩ := legacy_second_call_poisons c hkey s x h plain hp h1 h2 hv he hm
  exact ⟨o, ho, hdata, fun next => legacy_poisoned_panics c hkey o.st x hh hmn next⟩

/-- Before the repair: if an envelope does follow those 33 bytes, the plaintext was **delivered
without its first 33 bytes**, and the next column – unless its value happened to hash to those 33
bytes – was **replaced by this column's plaintext**. -/
theorem legacy_next_column_replaced (c : CryptoOps) (hkey : Option Bytes) (s : PState) (x h plain hp : Bytes)
    (h1 : s.hashData = some x) (h2 : s.matchedHash = some h) (hv : isEqual c hkey h plain = true)
    (he : extractHash plain = some hp) (hm : matchEnvelope (plain.drop hp.length) = .ok true) :
    ∃ o, legacyOnColumn c hkey s plain = .ok o ∧ o.data = plain.drop hp.length ∧
      ∀ next, isEqual c hkey hp next = false →
        ∃ o', legacyOnColumn c hkey o.st next = .ok o' ∧ o'.data = plain := by
  obtain ⟨o, ho, hdata, hraw, hh⟩ := legacy_second_call_truncates c hkey s x h plain hp h1 h2 hv he hm
  refine ⟨o, ho, hdata, ?_⟩
  intro next hne
  have hmh : o.st.matchedHash = some hp := by
    simp [legacyOnColumn, pProcess, h1, h2, hv, he, hm] at ho
    subst ho; rfl
  refine ⟨⟨{ o.st with hashData := none }, o.st.rawData, true⟩, ?_, hraw⟩
  simp [legacyOnColumn, pProcess, hh, hmh, hne]

/-! ## non-vacuity -/

/-- a law instance exists: the hypotheses of the theorems above are jointly satisfiable. `Box` has
injective HMAC (so `NoColl` holds for every `S`); `HashLen` is satisfied by an instance with a
constant-length hash, with `NoColl` on a finite set of values. -/
def lenOps : CryptoOps :=
  { boxOps with hmac := fun _ m => (m ++ List.replicate 32 0).take 32,
                sha256 := fun m => (m ++ List.replicate 32 0).take 32 }

/-- `HashLen` is satisfiable (together with `NoColl` on a finite set, below) -/
theorem lenOps_hashLen : HashLen lenOps where
  hmac_len := by intro k m; simp [lenOps, List.length_take]
  sha_len := by intro m; simp [lenOps, List.length_take]

example : NoColl boxOps [1] (fun _ => True) := by
  intro a b _ _ h
  exact (Box.hashInj.hmac_inj [1] a [1] b h).2

/-- `NoColl` on a finite set for a 32-byte hash -/
example : NoColl lenOps [1] (fun v => v = [1, 2] ∨ v = [3]) := by
  intro a b ha hb h
  cases ha with
  | inl ha => cases hb with
    | inl hb => rw [ha, hb]
    | inr hb => subst ha; subst hb; exact absurd h (by decide)
  | inr ha => cases hb with
    | inl hb => subst ha; subst hb; exact absurd h (by decide)
    | inr hb => rw [ha, hb]

/-- the supported fragment is inhabited by the forms the property names: literal, cast, placeholder,
inequality, AND/OR, join -/
example :
    let x : QCtx := { c := lenOps, d := .pg, hkey := some [1], kv := ⟨none, none, none, none⟩,
                      searchable := fun c => c.col = 1 }
    let cond : Cond := .and (.or (.cmp (.col ⟨0, 1⟩) .eq (.lit [65])) (.cmp (.col ⟨0, 1⟩) .ne (.param 0)))
                            (.and (.cmp (.col ⟨0, 1⟩) .eq (.col ⟨1, 1⟩)) (.cmp (.col ⟨0, 0⟩) .lt (.cast [7])))
    supported x (itemParams x cond) cond = true ∧ itemParams x cond = [0] := by decide

/-- `bind_hashes_every_search_parameter` is not vacuous: a statement that compares a tokenized column,
a searchable column (twice with the same placeholder) and a plain column -/
example :
    let x : QCtx := { c := lenOps, d := .pg, hkey := some [1], kv := ⟨none, none, none, none⟩,
                      searchable := fun c => c.col = 1, tokenized := fun c => c.col = 0 }
    let cond : Cond := .and (.cmp (.col ⟨0, 0⟩) .eq (.param 0))
                            (.or (.cmp (.col ⟨0, 1⟩) .eq (.param 1)) (.and (.cmp (.col ⟨0, 1⟩) .ne (.param 1)) (.cmp (.col ⟨0, 2⟩) .eq (.param 2))))
    itemParams x cond = [1, 1] ∧ bindCount true x cond = 1 ∧ bindCount false x cond = 2 ∧
    supported x (itemParams x cond) cond = true := by decide

/-- the legacy defect is reachable: a 33-byte plaintext `7f 00…00` with its genuine hash -/
example :
    let plain : Bytes := 0x7f :: List.replicate 32 0
    let h := generateHMAC lenOps [1] plain
    extractHash plain = some plain ∧ matchEnvelope (plain.drop 33) = .ok false ∧
    isEqual lenOps (some [1]) h plain = true := by decide

end AcraModel.Props.C09
