import AcraModel.KeystoreSec.ExportLemmas
import AcraModel.Crypto.Box
import AcraModel.KeystoreSec.Der
import AcraModel.Generated.KeystoreSec
import AcraModel.KeystoreSec.ExportV1Lemmas
import AcraModel.KeystoreSec.MigrateV1Lemmas
import AcraModel.KeystoreSec.V1NamesLemmas
import AcraModel.KeystoreSec.V1WriteLog
import AcraModel.Generated.V1Export
import AcraModel.KeystoreSec.ExportV1Codec
/-!
# C18 — exported keys import to an identical keystore and stay confidential in transit

Property theorems only; the model is `KeystoreSec/Export.lean` (v2 key store: `exportKeyRings`,
`encryptAndSignKeyRings`, `decryptAndVerifyKeyRings`, `importKeyRing`, `copyKey`).
-/
namespace AcraModel.Props.C18
open AcraModel AcraModel.KeystoreSec AcraModel.KeystoreSec.Export

/-! ## facts the model needs from the source (regenerated on every run) -/
open Generated.KeystoreSec in
/-- The bundle is produced by: marshal the rings, encrypt *those bytes* with the access encryptor,
sign the container; and opened by: verify, decrypt, unmarshal – in this order. `copyKey` admits
destroyed keys (repair 03). Every `ZeroizeBytes` of the v1 `KeyBackuper.Export` is deferred, i.e. runs
after the keys were serialised and encrypted (repair 04). -/
theorem fact_bundle_pipeline :
    encryptAndSignCalls = ["keysData.Marshal", "cryptosuite.KeyEncryptor.Encrypt", "signature.NewNotary", "notary.Sign"] ∧
    encryptAndSignEncryptArg = ["keysBytes"] ∧
    decryptAndVerifyCalls = ["notary.Verify", "cryptosuite.KeyEncryptor.Decrypt", "asn1.UnmarshalEncryptedKeys"] ∧
    importASN1Calls = ["r.copyKey", "r.pushTX", "r.store.syncKeyRing", "r.popTX"] ∧
    copyKeyCalls = ["other.ValidSince.After", "r.addKeyData"] ∧ copyKeyAdmitsDestroyed = true ∧
    v1ExportZeroize = List.replicate 6 "defer:utils.ZeroizeBytes" := by decide

open Generated.KeystoreSec Path in
/-- The context strings and constants of the model are the ones in the source. -/
theorem fact_contexts :
    exportCtx = ofStr exportKeyContext ∧
    ksCtx [] = ofStr (keyStoreContextLits.headD "") ∧
    sigCtx [] = ofStr (keyStoreContextLits.headD "" ++ keyRingSignatureContextLits.headD "") ∧
    keyRingContextLits = ["key ring ", ": ", "key ring ", ": "] ∧
    privateKeyContextLits = ["private key %d"] ∧ symmetricKeyContextLits = ["symmetric key %d"] ∧
    privCtx (ofStr "p") 7 = ofStr "AKSv2 keystore: key ring p: private key 7" ∧
    symCtx (ofStr "p") (-12) = ofStr "AKSv2 keystore: key ring p: symmetric key -12" ∧
    signSeparator = ": " ∧ signWrites = ["context", "separator", "data"] ∧
    Notary.sha256OID = sha256OID ∧
    (fmtPair : Int) = asnThemisKeyPairFormat ∧ (fmtSym : Int) = asnThemisSymmetricKeyFormat ∧
    (stDestroyed : Int) = asnKeyDestroyed ∧
    Der.typeKeyRing = asnTypeKeyRing ∧ Der.typeEncryptedKeys = asnTypeEncryptedKeys ∧ Der.keyRingVersion2 = asnKeyRingVersion2 := by
  refine ⟨by rfl, by rfl, by rfl, by decide, by decide, by decide, by rfl, by rfl, by decide, by decide, by decide, by decide, by decide, by decide, by decide, by decide, by decide⟩

/-- **Export ∘ import = identity.** For every source store, selection of ring paths and access
keys: if the export (with private data) succeeds and every exported key is importable (what
`copyKey` demands: ordered validity period, at least one data item – or none at all for a destroyed
key –, pairwise different formats),
then importing the bundle with the same access keys into a target that has none of these rings
succeeds, and afterwards every selected ring, exported again from the target under the *target's*
master key, is identical to what was exported from the source: same keys in the same order, same
sequence numbers, states, validity, key material and current marker. Rings outside the selection
are untouched. -/
theorem export_import_identity (c : CryptoOps) (hl : SealLaws c) (hne : EncNonEmpty c) (cd : Codec) (hcd : cd.Ok)
    (ν : Nonces) (hν : NoncesOk ν) (S T : Store) (paths : List Bytes) (ak : AccessKeys) (time : Int) (nonce : Bytes)
    (xs : List Ring) (b : Notary.Container)
    (hexp : exportRings c S true paths = some xs)
    (hb : exportBundle c cd S true paths ak time nonce = some b)
    (hT : T.master ≠ [])
    (himp : ∀ x ∈ xs, ∀ k ∈ x.keys, ImportableKey k)
    (hnd : (xs.map (·.purpose)).Nodup)
    (hfree : ∀ x ∈ xs, T.get x.purpose = none) :
    ∃ T', importBundle c cd ν T ak b = some (T', true) ∧ T'.master = T.master ∧
      (∀ x ∈ xs, ∃ r, T'.get x.purpose = some r ∧ exportRing c T.master x.purpose true r = .ok x) ∧
      (∀ q, q ∉ xs.map (·.purpose) → T'.get q = T.get q) := by
  simp only [exportBundle, hexp, Option.bind_some] at hb
  have hopen := bundle_roundtrip c hl cd hcd ak time nonce xs b hb
  obtain ⟨T', h1, h2, h3, h4⟩ := importRings_ok c hl hne ν hν xs T hT himp hnd hfree
  exact ⟨T', by simp [importBundle, hopen, h1], h2, h3, h4⟩

/-- **The bundle is sealed.** Whatever is exported, the bundle is the signed container whose payload
carries `enc accessEncKey exportContext (serialised rings) nonce` – the serialised plaintext rings
never appear outside the AEAD (structural form of "never in clear", DESIGN §4.3). -/
theorem bundle_sealed (c : CryptoOps) (cd : Codec) (S : Store) (wp : Bool) (paths : List Bytes) (ak : AccessKeys)
    (time : Int) (nonce : Bytes) (b : Notary.Container)
    (hb : exportBundle c cd S wp paths ak time nonce = some b) :
    ∃ xs e, exportRings c S wp paths = some xs ∧ c.enc ak.encKey exportCtx (cd.ser xs) nonce = some e ∧
      b = Notary.sign c ak.sigKey exportCtx (cd.serPayload time e) := by
  simp only [exportBundle] at hb
  cases hx : exportRings c S wp paths with
  | none => simp [hx] at hb
  | some xs =>
    simp only [hx, Option.bind_some, encryptAndSign] at hb
    cases he : c.enc ak.encKey exportCtx (cd.ser xs) nonce with
    | none => simp [he] at hb
    | some e => simp [he] at hb; exact ⟨xs, e, rfl, he, hb.symm⟩

/-- **Public-only export carries no secret.** In public-only mode every exported key data item has
empty private and symmetric parts (rings without public data are skipped altogether). -/
theorem public_export_strips (c : CryptoOps) (master path : Bytes) (seq : Int) (d d' : KeyData)
    (h : decryptKeyData c master path seq false d = .ok d') : d'.priv = [] ∧ d'.sym = [] ∧ d'.pub = d.pub := by
  simp only [decryptKeyData] at h
  split at h
  · split at h
    · cases h
    · cases h; simp
  · simp at *

/-- **A modified bundle is rejected, target unchanged.** If the signed span of the bundle differs in
any way from what was signed (any byte of the payload: content type, version, time stamp,
ciphertext), verification fails and `ImportKeyRings` returns before touching the target (`none`:
no store is produced at all). Needs collision freedom of the HMAC. -/
theorem reject_modified_payload (c : CryptoOps) (hi : HashInj c) (cd : Codec) (ν : Nonces) (T : Store) (ak : AccessKeys)
    (raw raw' : Bytes) (hne : raw' ≠ raw) :
    importBundle c cd ν T ak ⟨raw', (Notary.sign c ak.sigKey exportCtx raw).sigs⟩ = none := by
  have : Notary.verify c ak.sigKey exportCtx ⟨raw', (Notary.sign c ak.sigKey exportCtx raw).sigs⟩ ≠ true := by
    intro h
    have := (Notary.verify_forces c hi _ _ _ _ _ _ h).2
    exact hne (List.append_cancel_left (List.append_cancel_left this))
  simp [importBundle, decryptAndVerify, this]

/-- **Wrong signature key ⇒ rejected, target unchanged.** -/
theorem reject_wrong_sig_key (c : CryptoOps) (hi : HashInj c) (cd : Codec) (ν : Nonces) (T : Store) (ak ak' : AccessKeys)
    (raw : Bytes) (hk : ak'.sigKey ≠ ak.sigKey) :
    importBundle c cd ν T ak' (Notary.sign c ak.sigKey exportCtx raw) = none := by
  have : Notary.verify c ak'.sigKey exportCtx (Notary.sign c ak.sigKey exportCtx raw) ≠ true := by
    intro h
    exact hk (Notary.verify_forces c hi _ _ _ _ _ _ h).1
  simp [importBundle, decryptAndVerify, this]

/-- **Wrong encryption key ⇒ rejected, target unchanged** (key commitment of the AEAD): opening an
honest bundle with a different access encryption key fails even when the signature key is right. -/
theorem reject_wrong_enc_key (c : CryptoOps) (hl : SealLaws c) (hc : SealCommit c) (cd : Codec) (hcd : cd.Ok)
    (ν : Nonces) (T : Store) (ak ak' : AccessKeys) (time : Int) (nonce : Bytes) (rs : List Ring) (b : Notary.Container)
    (hb : encryptAndSign c cd ak time nonce rs = some b) (hk : ak'.encKey ≠ ak.encKey) :
    importBundle c cd ν T ak' b = none := by
  simp only [encryptAndSign] at hb
  cases he : c.enc ak.encKey exportCtx (cd.ser rs) nonce with
  | none => simp [he] at hb
  | some e =>
    simp [he] at hb
    subst hb
    have hraw : (Notary.sign c ak.sigKey exportCtx (cd.serPayload time e)).raw = cd.serPayload time e := rfl
    have hdec : c.dec ak'.encKey exportCtx e = none := by
      cases hd : c.dec ak'.encKey exportCtx e with
      | none => rfl
      | some m =>
        obtain ⟨n, _, hn⟩ := hl.enc_of_dec _ _ _ _ hd
        exact absurd (hc.enc_inj _ _ _ _ _ _ _ _ _ hn he).1 hk
    simp only [importBundle, decryptAndVerify]
    split
    · simp [hraw, hcd.payload, hdec]
    · simp

/-- **Destroyed keys blocked import on the pinned tree (defect, repaired by
`repo-patches/03-fix-v2-import-destroyed-key.diff`).** With `copyKey` as pinned, a ring that
contains a destroyed key (no data left) exports fine but is refused on import (`ErrNoKeyData`), and
the failure comes *after* `openKeyRing` created the ring: an empty ring is left behind in the target. -/
theorem import_destroyed_pinned_counterexample (c : CryptoOps) (ν : Nonces) (T : Store) (x : Ring) (k : Key)
    (hk : k ∈ x.keys) (hd : k.data = []) (hfree : T.get x.purpose = none) :
    (importKeyRingPinned c ν T x).2 = false ∧
      (importKeyRingPinned c ν T x).1.get x.purpose = some ⟨x.purpose, [], -1⟩ := by
  have hcopy : copyKeyPinned c ν T.master x.purpose k = none := by
    unfold copyKeyPinned
    rw [hd]
    split <;> simp
  have hall : x.keys.mapM (copyKeyPinned c ν T.master x.purpose) = none := by
    clear hfree
    generalize x.keys = ks at hk
    induction ks with
    | nil => simp at hk
    | cons a r ih =>
      simp at hk
      rcases hk with rfl | hk
      · simp [List.mapM_cons, hcopy]
      · have := ih hk
        cases hca : copyKeyPinned c ν T.master x.purpose a <;> simp [List.mapM_cons, hca, this]
  simp [importKeyRingPinned, hfree, importASN1Pinned, hall]

/-- after the repair a destroyed key is importable -/
example : ImportableKey ⟨2, stDestroyed, 0, 10, []⟩ := ⟨by decide, Or.inr rfl, by simp, by simp⟩


/-! # The v1 key store: `KeyBackuper.Export` / `Import` and the migration to v2

Models: `KeystoreSec/{V1Names, ExportV1, MigrateV1}.lean`, tied by the ops `C18.v1.*`. -/
section V1
open AcraModel.KeystoreSec.V1 AcraModel.KeystoreSec.ExportV1 AcraModel.KeystoreSec.MigrateV1
open AcraModel.CrossClient (KeyContext keyContextBytes keyEncrypt keyDecrypt Files)


/-! ## facts about the v1 sources (regenerated on every run) -/
open Generated.V1Export in
/-- The name classification of `KeyBackuper` is, statement by statement, what `V1Names.lean` models:
`isHistoricalFilename` = `time.Parse` of the base name, `isPrivate` looks at the history directory's
base name, `isPublic` at the two suffixes, `getContextFromFilename` strips `.old` from the history
directory (repair 45), compares with the two poison names, then cuts the key-kind suffix off the END
of the base name in the order `_hmac, _server, _translator, _storage, _storage_sym`. -/
theorem fact_v1_name_classification :
    isHistoricalFilenameBody = ["_, err := time.Parse(HistoricalFileNameTimeFormat, filepath.Base(name))", "return err == nil"] ∧
    isPrivateBody = ["if isHistoricalFilename(fname) { fname = filepath.Base(filepath.Dir(fname)) }", "if fname == PoisonKeyFilename { return true }", "if isPublic(fname) { return false }", "return true"] ∧
    isPublicBody = ["if strings.HasSuffix(fname, \".pub\") { return true }", "if strings.HasSuffix(fname, \".pub.old\") { return true }", "return false"] ∧
    getContextFromFilenameBody = ["if isHistoricalFilename(fname) { fname = strings.TrimSuffix(filepath.Dir(fname), historyDirSuffix) }", "if fname == PoisonKeyFilename { return keystore.NewKeyContext(keystore.PurposePoisonRecordKeyPair, []byte(fname)) }", "if fname == getSymmetricKeyName(PoisonKeyFilename) { return keystore.NewKeyContext(keystore.PurposePoisonRecordSymmetricKey, []byte(fname)) }", "fname = filepath.Base(fname)", "if strings.HasSuffix(fname, \".old\") { fname = fname[:len(fname)-len(\".old\")] }", "if strings.HasSuffix(fname, \"_hmac\") { return keystore.NewClientIDKeyContext(keystore.PurposeSearchHMAC, []byte(fname[:len(fname)-len(\"_hmac\")])) }", "if strings.HasSuffix(fname, \"_server\") { return keystore.NewClientIDKeyContext(keystore.PurposeLegacy, []byte(fname[:len(fname)-len(\"_server\")])) }", "if strings.HasSuffix(fname, \"_translator\") { return keystore.NewClientIDKeyContext(keystore.PurposeLegacy, []byte(fname[:len(fname)-len(\"_translator\")])) }", "if strings.HasSuffix(fname, \"_storage\") { return keystore.NewClientIDKeyContext(keystore.PurposeStorageClientPrivateKey, []byte(fname[:len(fname)-len(\"_storage\")])) }", "if strings.HasSuffix(fname, \"_storage_sym\") { return keystore.NewClientIDKeyContext(keystore.PurposeStorageClientSymmetricKey, []byte(fname[:len(fname)-len(\"_storage_sym\")])) }", "return keystore.NewKeyContext(keystore.PurposeUndefined, []byte(fname))"] := by
  refine ⟨by rfl, by rfl, by rfl, by rfl⟩

open Generated.V1Export in
/-- `Export` serves each key kind through the getter and the name function the model uses, reads the
whole folder for the modes "private"/"all", names each file relative to the *cleaned* folder path,
decrypts private files under the context from the name and verifies public ones, then gob-encodes and
seals under a fresh key with the empty context; `Import` unseals, decodes, and per record encrypts
(private) and writes `content`, then describes the base name. -/
theorem fact_v1_export_pipeline :
    readFilesAsKeysRelativeName = ["relativeName := strings.Replace(f, filepath.Clean(basePath)+\"/\", \"\", -1)"] ∧
    readFilesAsKeysCalls = ["storage.ReadFile", "isPrivate", "getContextFromFilename", "encryptor.Decrypt", "isPublic", "verifyPublicKey"] ∧
    exportKindCases = ["keystore.KeyPoisonPublic: store.keyStore.GetPoisonKeyPair verifyPublicKey", "keystore.KeyPoisonPrivate: store.keyStore.GetPoisonKeyPair", "keystore.KeyStoragePublic: store.keyStore.GetClientIDEncryptionPublicKey verifyPublicKey getPublicKeyFilename GetServerDecryptionKeyFilename", "keystore.KeyStoragePrivate: store.keyStore.GetServerDecryptionPrivateKey GetServerDecryptionKeyFilename", "keystore.KeySymmetric: store.keyStore.GetClientIDSymmetricKey getClientIDSymmetricKeyName", "keystore.KeySearch: store.keyStore.GetHMACSecretKey getHmacKeyFilename", "default: "] ∧
    exportPipeline = ["gob.NewEncoder", "encoder.Encode", "keystore.GenerateSymmetricKey", "keystore.NewSCellKeyEncryptor", "encryptor.Encrypt", "keystore.NewEmptyKeyContext"] ∧
    exportModeConditions = ["(mode == keystore.ExportAllKeys || mode == keystore.ExportPublicOnly) && store.publicFolder != store.privateFolder", "mode == keystore.ExportPrivateKeys || mode == keystore.ExportAllKeys"] ∧
    importCalls = ["keystore.NewSCellKeyEncryptor", "decryptor.Decrypt", "decoder.Decode", "isPrivate", "filepath.Join", "getContextFromFilename", "store.currentDecryptor.Encrypt", "filepath.Join", "store.storage.MkdirAll", "store.storage.WriteFile", "DescribeKeyFile"] ∧
    importWriteArgs = ["content"] := by
  refine ⟨by rfl, by rfl, by rfl, by rfl, by rfl, by rfl, by rfl⟩

open Generated.V1Export in
/-- In the import loop the private/public decision (`isPrivate`) and the key context
(`getContextFromFilename`) are taken from the *whole* record name – a rotated key
`<key file>.old/<timestamp>` is classified by its history directory, which is what
`ExportV1.importRecord` does (`isPrivate r.1`, `ctxOfName r.1`) – and only `DescribeKeyFile` is given the
base name. (Local names assigned once are replaced by their defining expression by the translator.) Given
only the base name, `isPrivate` would call every rotated public key private: `v1_import_rotated_public_verbatim`
below is the statement that depends on it. -/
theorem fact_v1_import_name_args :
    importNameArgs = ["isPrivate(key.Name)", "getContextFromFilename(key.Name)", "DescribeKeyFile(filepath.Base(key.Name))"] := by
  rfl

open Generated.V1Export in
/-- The migration classifier, the fused map key (with its separator, repair 49), the path merge, the
purpose → (export, import) table of `ImportKeyFileV1`, `describeNewKeyPair` taking the halves that
exist (repair 48) and `AddKey` + `SetCurrent` are what `MigrateV1.lean` models. -/
theorem fact_v1_migration :
    classifyExportedKeyBody = ["filename := filepath.Base(path)", "if filename == SecureLogKeyFilename { keyContext := keystore.NewKeyContext(keystore.PurposeAuditLog, []byte(SecureLogKeyFilename)) return NewExportedSymmetricKey(path, keyContext) }", "if strings.HasSuffix(path, \"/\"+getSymmetricKeyName(PoisonKeyFilename)) { keyContext := keystore.NewKeyContext(keystore.PurposePoisonRecordSymmetricKey, []byte(getSymmetricKeyName(PoisonKeyFilename))) return NewExportedSymmetricKey(path, keyContext) }", "if strings.HasSuffix(filename, \"_hmac\") { keyContext := keystore.NewClientIDKeyContext(keystore.PurposeSearchHMAC, []byte(strings.TrimSuffix(filename, \"_hmac\"))) return NewExportedSymmetricKey(path, keyContext) }", "if strings.HasSuffix(filename, \"_storage_sym\") { keyContext := keystore.NewClientIDKeyContext(keystore.PurposeStorageClientSymmetricKey, []byte(strings.TrimSuffix(filename, \"_storage_sym\"))) return NewExportedSymmetricKey(path, keyContext) }", "if strings.HasSuffix(path, poisonKeyFilenamePublic) { keyContext := keystore.NewKeyContext(keystore.PurposePoisonRecordKeyPair, []byte(PoisonKeyFilename)) return NewExportedPublicKey(path, keyContext) }", "if strings.HasSuffix(path, PoisonKeyFilename) { keyContext := keystore.NewKeyContext(keystore.PurposePoisonRecordKeyPair, []byte(PoisonKeyFilename)) return NewExportedPrivateKey(path, keyContext) }", "if strings.HasSuffix(filename, \"_storage.pub\") { keyContext := keystore.NewClientIDKeyContext(keystore.PurposeStorageClientKeyPair, []byte(strings.TrimSuffix(filename, \"_storage.pub\"))) return NewExportedPublicKey(path, keyContext) }", "keyContext := keystore.NewClientIDKeyContext(keystore.PurposeStorageClientKeyPair, []byte(strings.TrimSuffix(filename, \"_storage\")))", "return NewExportedPrivateKey(path, keyContext)"] ∧
    fusedIDBody = ["return key.KeyContext.Purpose.String() + \"\\x00\" + string(keystore.GetKeyContextFromContext(key.KeyContext))"] ∧
    addPathFromBody = ["if other.PublicPath != \"\" { key.PublicPath = other.PublicPath }", "if other.PrivatePath != \"\" { key.PrivatePath = other.PrivatePath }", "if other.SymmetricPath != \"\" { key.SymmetricPath = other.SymmetricPath }"] ∧
    importV1Cases = ["keystore.PurposePoisonRecordKeyPair: oldKeyStore.ExportKeyPair s.savePoisonKeyPair", "keystore.PurposeStorageClientKeyPair: oldKeyStore.ExportKeyPair s.SaveDataEncryptionKeys", "keystore.PurposeAuditLog: oldKeyStore.ExportSymmetricKey s.importLogKey", "keystore.PurposeSearchHMAC: oldKeyStore.ExportSymmetricKey s.importHmacKey", "keystore.PurposePoisonRecordSymmetricKey: oldKeyStore.ExportSymmetricKey s.importPoisonRecordSymmetricKey", "keystore.PurposeStorageClientSymmetricKey: oldKeyStore.ExportSymmetricKey s.importClientIDSymmetricKey", "default: "] ∧
    describeNewKeyPairBody = ["data := api.KeyData{Format: api.ThemisKeyPairFormat}", "if keypair.Public != nil { data.PublicKey = keypair.Public.Value }", "if keypair.Private != nil { data.PrivateKey = keypair.Private.Value }", "return api.KeyDescription{ ValidSince: time.Now(), ValidUntil: time.Now().Add(defaultKeyCryptoperiod), Data: []api.KeyData{data}, }"] ∧
    addCurrentKeyPairCalls = ["ring.AddKey", "ring.SetCurrent"] ∧
    addCurrentSymmetricKeyCalls = ["ring.AddKey", "ring.SetCurrent"] := by
  refine ⟨by rfl, by rfl, by rfl, by rfl, by rfl, by rfl, by rfl⟩

open Generated.V1Export in
/-- the purposes and key kinds of the models are the constants of `keystore/keystore.go` -/
theorem fact_v1_constants :
    pSearchHMAC = cPurposeSearchHMAC ∧ pAuditLog = cPurposeAuditLog ∧ pPoisonSym = cPurposePoisonRecordSymmetricKey ∧
    pStorageSym = cPurposeStorageClientSymmetricKey ∧ pPoisonPair = cPurposePoisonRecordKeyPair ∧
    pStoragePair = cPurposeStorageClientKeyPair ∧ pStoragePrivate = cPurposeStorageClientPrivateKey ∧
    pLegacy = cPurposeLegacy ∧ pUndefined = cPurposeUndefined ∧
    [cKeyPoisonPublic, cKeyPoisonPrivate, cKeyStoragePublic, cKeyStoragePrivate, cKeySymmetric, cKeySearch] =
      ["poison-public", "poison-private", "storage-public", "storage-private", "symmetric-key", "hmac-key"] := by
  refine ⟨by rfl, by rfl, by rfl, by rfl, by rfl, by rfl, by rfl, by rfl, by rfl, by rfl⟩

/-- **The v1 bundle is sealed.** Whatever is exported (by ids or everything, history included), the
bundle is `KeysBackup{Data: enc accessKey ⟨no context⟩ (serialised records) nonce, Keys: accessKey}`:
the serialised key list – the only place where exported secrets are in plaintext – never appears
outside the AEAD (structural "never in clear", DESIGN §4.3; with the length law `Data` is not the
serialisation itself). -/
theorem v1_bundle_sealed (e : Env) (cd : ExportV1.Codec) (S : ExportV1.Store) (ids : List ExportID) (mode : Mode)
    (accessKey nonce : Bytes) (b : Bundle) (hb : ExportV1.exportBundle e cd S ids mode accessKey nonce = some b) :
    ∃ recs, exportRecords e S ids mode = some recs ∧
      e.c.enc accessKey [] (cd.ser recs) nonce = some b.data ∧ b.keys = accessKey ∧
      (SealLen e.c → b.data ≠ cd.ser recs) := by
  unfold ExportV1.exportBundle at hb
  cases hr : exportRecords e S ids mode with
  | none => simp [hr] at hb
  | some recs =>
    simp only [hr, Option.bind_some, sealRecords] at hb
    cases he : keyEncrypt e.c accessKey emptyCtx (cd.ser recs) nonce with
    | none => simp [he] at hb
    | some d =>
      simp only [he, Option.map_some, Option.some.injEq] at hb
      subst hb
      have he' : e.c.enc accessKey [] (cd.ser recs) nonce = some d := he
      refine ⟨recs, rfl, he', rfl, fun hlen heq => ?_⟩
      have := hlen.enc_len _ _ _ _ _ he'
      simp only at heq
      rw [heq] at this
      simp [sealOverhead] at this

/-- **Export of everything carries the whole folder, rotated keys included.** The records of an
export without ids are, in `ReadDir` order, exactly the files of the key folder – the current files
and every `<file>.old/<timestamp>` – each private one decrypted under the context derived from its
name, each public one as it is. (The v1 format carries the history as ordinary files.) -/
theorem v1_export_all_covers (e : Env) (S : ExportV1.Store) (recs : List Record)
    (h : exportRecords e S [] .allKeys = some recs) :
    recs.map (·.1) = (listing S.files).map (·.1) ∧
    ∀ r ∈ recs, ∃ f ∈ listing S.files, r.1 = f.1 ∧
      (isPrivate r.1 = true → keyDecrypt e.c S.master (ctxOfName f.1) f.2 = some r.2) ∧
      (isPrivate r.1 = false → r.2 = f.2) := by
  simp only [exportRecords, exportRecordsWith, ne_eq, not_true_eq_false, if_false, or_true, if_true] at h
  constructor
  · generalize listing S.files = l at h
    induction l generalizing recs with
    | nil => simp at h; subst h; rfl
    | cons f fs ih =>
      simp only [List.mapM_cons] at h
      cases hf : readFileAsKey e ctxOfName S.master f with
      | none => simp [hf] at h
      | some r =>
        cases hfs : fs.mapM (readFileAsKey e ctxOfName S.master) with
        | none => simp [hf, hfs] at h
        | some rs =>
          simp [hf, hfs] at h
          subst h
          simp [ih rs hfs, (readFileAsKey_spec e ctxOfName S.master f r hf).1]
  · intro r hr
    obtain ⟨f, hfm, hfr⟩ := mapM_mem' _ _ _ h r hr
    obtain ⟨h1, h2, h3⟩ := readFileAsKey_spec e ctxOfName S.master f r hfr
    exact ⟨f, hfm, h1, h2, h3⟩

/-- every secret an export emits can be sealed again: it is non-empty and below the 4 GiB limit
(it came out of the AEAD), whether it was selected by id or found in the listing -/
theorem v1_exported_secrets_sealable (e : Env) (hl : SealLaws e.c) (S : ExportV1.Store) (ids : List ExportID) (mode : Mode)
    (recs : List Record) (h : exportRecords e S ids mode = some recs) :
    ∀ r ∈ recs, isPrivate r.1 = true → Sealable r.2 :=
  exportRecords_sealable e hl S ids mode recs h

/-- **Export ∘ import = identity (v1).** For every source key store, every selection (ids of any
kinds, or everything with the rotated keys) and every access key: if the export succeeds, then
importing the bundle with the access key it came with into an *empty* key store with any non-empty
master key succeeds, and afterwards the target holds exactly one file per exported record – under
the record's name – which the target reads back (decrypting private files under the context derived
from the name, with the *target's* master key) as exactly the exported value; nothing else exists in
the target. Hypotheses on the record names are those of every name the key store itself creates:
clean relative paths that `DescribeKeyFile` recognises, pairwise different. -/
theorem v1_export_import_identity (e : Env) (hl : SealLaws e.c) (cd : ExportV1.Codec) (hcd : cd.Ok)
    (ν : ExportV1.Nonces) (hν : ∀ a b, (ν a b).length = nonceLen)
    (S : ExportV1.Store) (ids : List ExportID) (mode : Mode) (accessKey nonce : Bytes) (recs : List Record) (b : Bundle)
    (hrecs : exportRecords e S ids mode = some recs)
    (hb : ExportV1.exportBundle e cd S ids mode accessKey nonce = some b)
    (tm : Bytes) (htm : tm ≠ [])
    (hnames : ∀ r ∈ recs, targetPath r.1 = r.1 ∧ describeOk (base r.1) = true)
    (hnd : (recs.map (·.1)).Nodup) :
    ∃ fs, ExportV1.importBundle e cd ν ⟨tm, []⟩ b = (fs, true) ∧
      (∀ r ∈ recs, ∃ stored, fs.get r.1 = some stored ∧ readBack e tm r.1 stored = some r.2) ∧
      (∀ p, p ∉ recs.map (·.1) → fs.get p = none) := by
  -- the bundle opens to the exported records
  have hopen : openBundle e cd b = some recs := by
    simp only [ExportV1.exportBundle, hrecs, Option.bind_some, sealRecords] at hb
    cases he : keyEncrypt e.c accessKey emptyCtx (cd.ser recs) nonce with
    | none => simp [he] at hb
    | some d =>
      simp only [he, Option.map_some, Option.some.injEq] at hb
      subst hb
      have hd : keyDecrypt e.c accessKey emptyCtx d = some (cd.ser recs) := hl.dec_enc _ _ _ _ _ he
      simp [openBundle, hd, hcd.roundtrip]
  have hseal := v1_exported_secrets_sealable e hl S ids mode recs hrecs
  obtain ⟨fs, h1, h2, h3⟩ := importRecords_ok e hl ν hν tm htm recs []
    (fun r hr => ⟨(hnames r hr).1, (hnames r hr).2, hseal r hr⟩) hnd
  refine ⟨fs, by simp [ExportV1.importBundle, hopen, h1], h2, fun p hp => ?_⟩
  rw [h3 p hp]; rfl

/-- **Whatever `Import` accepts is a genuine bundle for these access keys.** If the first phase of
the import (unseal, decode) succeeds, `Data` is an output of the AEAD under `Keys` for the
serialisation it decoded: a modified bundle – any byte string that is not such an output – is never
interpreted. -/
theorem v1_import_genuine (e : Env) (hl : SealLaws e.c) (cd : ExportV1.Codec) (b : Bundle) (recs : List Record)
    (h : openBundle e cd b = some recs) :
    ∃ n pt, e.c.enc b.keys [] pt n = some b.data ∧ cd.deser pt = some recs := by
  unfold openBundle at h
  cases hd : keyDecrypt e.c b.keys emptyCtx b.data with
  | none => simp [hd] at h
  | some pt =>
    simp only [hd, Option.bind_some] at h
    obtain ⟨n, _, hn⟩ := hl.enc_of_dec _ _ _ _ hd
    exact ⟨n, pt, hn, h⟩

/-- **Wrong access key or modified bundle ⇒ error, target untouched (v1).** For an honest bundle:
opening it with any other access key fails (key commitment), and any `Data` that is not an AEAD
output under the right key fails (authenticity); in both cases `Import` returns an error before the
first write – the target's files are exactly what they were. -/
theorem v1_reject_unchanged (e : Env) (hl : SealLaws e.c) (hc : SealCommit e.c) (cd : ExportV1.Codec) (ν : ExportV1.Nonces)
    (T : ExportV1.Store) (accessKey nonce : Bytes) (recs : List Record) (b : Bundle)
    (hb : sealRecords e cd accessKey nonce recs = some b) :
    (∀ k', k' ≠ b.keys → ExportV1.importBundle e cd ν T ⟨b.data, k'⟩ = (T.files, false)) ∧
    (∀ d', (∀ m n, e.c.enc b.keys [] m n ≠ some d') → ExportV1.importBundle e cd ν T ⟨d', b.keys⟩ = (T.files, false)) := by
  unfold sealRecords at hb
  cases he : keyEncrypt e.c accessKey emptyCtx (cd.ser recs) nonce with
  | none => simp [he] at hb
  | some d =>
    simp only [he, Option.map_some, Option.some.injEq] at hb
    subst hb
    constructor
    · intro k' hk
      have hd : keyDecrypt e.c k' emptyCtx d = none := by
        cases hd : keyDecrypt e.c k' emptyCtx d with
        | none => rfl
        | some m =>
          obtain ⟨n, _, hn⟩ := hl.enc_of_dec _ _ _ _ hd
          exact absurd (hc.enc_inj _ _ _ _ _ _ _ _ _ hn he).1 hk
      simp [ExportV1.importBundle, openBundle, hd]
    · intro d' hno
      have hd : keyDecrypt e.c accessKey emptyCtx d' = none := by
        cases hd : keyDecrypt e.c accessKey emptyCtx d' with
        | none => rfl
        | some m =>
          obtain ⟨n, _, hn⟩ := hl.enc_of_dec _ _ _ _ hd
          exact absurd hn (hno m n)
      simp [ExportV1.importBundle, openBundle, hd]

/-- a failed first phase never touches the target, whatever the reason -/
theorem v1_reject_before_write (e : Env) (cd : ExportV1.Codec) (ν : ExportV1.Nonces) (T : ExportV1.Store) (b : Bundle)
    (h : openBundle e cd b = none) : ExportV1.importBundle e cd ν T b = (T.files, false) := by
  simp [ExportV1.importBundle, h]

/-- **The export contexts are the key store's own, for every valid client.** For a client id that
`keystore.ValidateID` accepts – whatever it contains, also `_storage`, `_hmac`, `_sym` somewhere
inside – `Export`/`Import` derive from the names of the client's storage private key, storage
symmetric key and HMAC key files exactly the key context the key store seals them under
(`V1WriteLog.Op.ctx`): the suffix is cut off the end, once. Together with
`v1_export_import_identity` this makes the imported files readable by the target key store's own
getters. -/
theorem v1_export_context_client (id : Bytes) (hv : validateID id = true) :
    ctxOfName (storageName id) = V1WriteLog.Op.ctx (.genDataKeys id [] []) ∧
    ctxOfName (symName id) = V1WriteLog.Op.ctx (.genSymKey id []) ∧
    ctxOfName (hmacName id) = V1WriteLog.Op.ctx (.genHmacKey id []) :=
  ctxOfName_client id hv

/-- **… and so are the contexts of the client's rotated keys.** A rotated key file
`<file>.old/<timestamp>` of a valid client is opened (and re-sealed on import) under the very context
of the current file – the client id – for every name `time.Parse` accepts as a timestamp: the key
history of a client survives export ∘ import readable. -/
theorem v1_export_context_rotated (id ts : Bytes) (hv : validateID id = true) (hts : isTimestamp ts = true) (hne : ts ≠ []) :
    ctxOfName (histName (storageName id) ts) = V1WriteLog.Op.ctx (.genDataKeys id [] []) ∧
    ctxOfName (histName (symName id) ts) = V1WriteLog.Op.ctx (.genSymKey id []) ∧
    ctxOfName (histName (hmacName id) ts) = V1WriteLog.Op.ctx (.genHmacKey id []) :=
  ctxOfName_client_hist id ts hv hts hne

/-- **Rotated public keys are imported verbatim.** For every valid client id, every name `time.Parse`
accepts as a timestamp and every content `v`: the import loop classifies the record
`<id>_storage.pub.old/<timestamp>` as *public* (by its history directory), so it writes exactly `v` –
neither encrypted under the target's master key nor changed – and the target reads the file back as `v`:
a rotated public key survives export ∘ import byte-identical, like the current one. The classification
by the base name alone (the timestamp) would say "private" for every such record (second part): the
argument `isPrivate` is given in `Import` is pinned by `fact_v1_import_name_args`. -/
theorem v1_import_rotated_public_verbatim (e : Env) (ν : ExportV1.Nonces) (m : Bytes) (fs : Files)
    (id ts v : Bytes) (hv : validateID id = true) (hts : isTimestamp ts = true) (hne : ts ≠ []) :
    let name := histName (storagePubName id) ts
    (ExportV1.importRecord e ν m fs (name, v)).1 = fs.put (targetPath name) v ∧
    readBack e m name v = some v ∧
    isPrivate (base name) = true := by
  obtain ⟨hp, hb⟩ := isPrivate_hist_storagePub id ts hv hts hne
  refine ⟨?_, ?_, ?_⟩
  · simp [ExportV1.importRecord, hp]
  · simp [readBack, hp]
  · rw [hb]; exact isPrivate_timestamp ts hts hne

/-- … and so is a rotated public key of the poison key pair (`.poison_key/poison_key.pub.old/<timestamp>`;
the directory part makes the general statement a computation on a concrete timestamp). -/
theorem v1_import_rotated_poison_public_verbatim (e : Env) (ν : ExportV1.Nonces) (m : Bytes) (fs : Files) (v : Bytes) :
    let name := histName poisonPub (Path.ofStr "2026-09-23T08:24:04.293923735")
    (ExportV1.importRecord e ν m fs (name, v)).1 = fs.put (targetPath name) v ∧ readBack e m name v = some v := by
  have hp : isPrivate (histName poisonPub (Path.ofStr "2026-09-23T08:24:04.293923735")) = false := by decide
  exact ⟨by simp [ExportV1.importRecord, hp], by simp [readBack, hp]⟩

/-- **The export contexts are the key store's own (repairs 45).** For the poison symmetric key and
for a rotated poison key pair the context `Export`/`Import` derive from the file name is the one the
key store seals these keys with (`V1WriteLog.Op.ctx`) … -/
theorem v1_export_context_poison :
    keyContextBytes (ctxOfName poisonSym) = keyContextBytes (V1WriteLog.Op.ctx (.genPoisonSym [])) ∧
    keyContextBytes (ctxOfName (histName poisonSym (Path.ofStr "2026-09-23T08:24:04.29"))) = keyContextBytes (V1WriteLog.Op.ctx (.genPoisonSym [])) ∧
    keyContextBytes (ctxOfName (histName poisonKey (Path.ofStr "2026-09-23T08:24:04.293923735"))) = keyContextBytes (V1WriteLog.Op.ctx (.genPoisonPair [] [])) ∧
    keyContextBytes (ctxOfName logKey) = keyContextBytes (V1WriteLog.Op.ctx (.genLogKey [])) := by
  refine ⟨by decide, by decide, by decide, by decide⟩

/-- … whereas **on the pinned tree they were not**: the poison symmetric key was opened under
`.poison_key/poison_key` and a rotated poison private key under `poison_key` – `Export` of all keys
failed for every key store holding one of them (witnesses replayed by the regression corpus). -/
theorem v1_export_context_pinned_counterexample :
    keyContextBytes (ctxOfNamePinned poisonSym) ≠ keyContextBytes (V1WriteLog.Op.ctx (.genPoisonSym [])) ∧
    keyContextBytes (ctxOfNamePinned (histName poisonKey (Path.ofStr "2026-09-23T08:24:04.293923735"))) ≠
      keyContextBytes (V1WriteLog.Op.ctx (.genPoisonPair [] [])) := by
  refine ⟨by decide, by decide⟩

/-! ## migration v1 → v2 -/

/-- **Migration preserves values, and the newest key comes first.** `ImportKeyFileV1` of a key that
the v1 store can read appends it to the v2 ring of its purpose and owner with the next sequence
number and makes it current; the key data is exactly the v1 material (public key file as it is,
private / symmetric key decrypted under the exported key's context); `AllKeys` of the ring lists the
new key first followed by the former listing – so importing `k₁ … kₙ` into one ring yields
`kₙ, …, k₁` with `kₙ` current (newest first); every other ring is untouched. -/
theorem migration_preserves (e : Env) (src : ExportV1.Store) (s : V2) (k : ExportedKey) (isPair : Bool) (ring : Bytes)
    (hring : ringOf k.ctx.purpose (keyContextBytes k.ctx) = some (isPair, ring))
    (d : Export.KeyData)
    (hd : if isPair then
        ∃ pub priv, exportPublic src k = some pub ∧ exportPrivate e src k = some priv ∧ pub.getD [] ≠ [] ∧
          d = ⟨Export.fmtPair, pub.getD [], priv.getD [], []⟩
      else ∃ sym, exportSymmetric e src k = some (some sym) ∧ sym ≠ [] ∧ d = ⟨Export.fmtSym, [], [], sym⟩) :
    ∃ s', importKeyFileV1 e src s k = (s', .ok) ∧
      let old := (s.get ring).getD ⟨ring, [], -1⟩
      (∃ r', s'.get ring = some r' ∧ r'.keys = old.keys ++ [⟨nextSeq old, d⟩] ∧ r'.current = nextSeq old ∧
        allKeys r' = nextSeq old :: allKeys old) ∧
      (∀ q, q ≠ ring → s'.get q = s.get q) := by
  cases isPair with
  | true =>
    simp only [if_true] at hd
    obtain ⟨pub, priv, hpub, hpriv, hne, rfl⟩ := hd
    have hok : dataOk ⟨Export.fmtPair, pub.getD [], priv.getD [], []⟩ = true := by simp [dataOk, hne]
    obtain ⟨s', h1, h2, h3⟩ := addCurrent_ok s ring _ hok
    refine ⟨s', by simp [importKeyFileV1, hring, importPair, hpub, hpriv, h1], ⟨_, h2, rfl, rfl, ?_⟩, h3⟩
    simp [allKeys]
  | false =>
    simp only [Bool.false_eq_true, if_false] at hd
    obtain ⟨sym, hsym, hne, rfl⟩ := hd
    have hok : dataOk ⟨Export.fmtSym, [], [], sym⟩ = true := by
      simp [dataOk, hne, Export.fmtSym, Export.fmtPair]
    obtain ⟨s', h1, h2, h3⟩ := addCurrent_ok s ring _ hok
    refine ⟨s', by simp [importKeyFileV1, hring, importSym, hsym, h1], ⟨_, h2, rfl, rfl, ?_⟩, h3⟩
    simp [allKeys]

/-- the six purposes go to six different kinds of rings, per-client ones below `client/<id>/` -/
theorem migration_ring_table (id : Bytes) :
    ringOf pPoisonPair id = some (true, Path.ofStr "poison-record") ∧
    ringOf pStoragePair id = some (true, clientRing id (Path.ofStr "storage")) ∧
    ringOf pAuditLog id = some (false, Path.ofStr "audit-log") ∧
    ringOf pSearchHMAC id = some (false, clientRing id (Path.ofStr "hmac-sym")) ∧
    ringOf pPoisonSym id = some (false, Path.ofStr "poison-record-sym") ∧
    ringOf pStorageSym id = some (false, clientRing id (Path.ofStr "storage-sym")) ∧
    ringOf pUndefined id = none := by
  refine ⟨by rfl, by rfl, by rfl, by rfl, by rfl, by rfl, by rfl⟩

/-- **Rotated keys are not migrated (known finding `migrate-v1-rotated-keys`).** A history file of
a client's symmetric key is classified as the *private storage key of a client named like the
timestamp*; it is read under that context – not the owner's – so (with key commitment) the read
fails and the migration reports an error for it. -/
theorem migration_drops_history_counterexample :
    let p := Path.ofStr "/client_a_storage_sym.old/2026-09-23T08:24:04.293923735"
    (classify p).ctx = CrossClient.newClientIDKeyContext pStoragePair (Path.ofStr "2026-09-23T08:24:04.293923735") ∧
    (classify p).privPath = p ∧ (classify p).symPath = [] := by
  refine ⟨by decide, by decide, by decide⟩

/-- **The fused id on the pinned tree collided (repair 49).** Storage key pair of client
`_sym_keygamma` and storage symmetric key of client `gamma` had the same map key, now they differ. -/
theorem migration_fused_id_pinned_counterexample :
    let a := classify (Path.ofStr "/_sym_keygamma_storage")
    let b := classify (Path.ofStr "/gamma_storage_sym")
    fusedIDPinned a = fusedIDPinned b ∧ fusedID a ≠ fusedID b := by
  refine ⟨by decide, by decide⟩

end V1

/-! ## non-vacuity: the hypotheses are jointly satisfiable (Box instance, a trivial codec) -/

/-- non-vacuity (v1): a codec with the round-trip law exists, and a one-key store exports under the
Box instance -/
example : ExportV1.simpleCodec.Ok := ExportV1.simpleCodec_ok

example :
    let files : CrossClient.Files := match boxOps.enc [1] (Path.ofStr "client") [7] (List.replicate 12 0) with
      | some ct => [(V1.symName (Path.ofStr "client"), ct)]
      | none => []
    ExportV1.exportRecords ⟨boxOps, fun _ => true⟩ ⟨[1], files⟩ [] .allKeys = some [(V1.symName (Path.ofStr "client"), [7])] := by
  decide

example : V1.validateID (Path.ofStr "db_storage_eu") = true := by decide

example : V1.isTimestamp (Path.ofStr "2026-09-23T08:24:04.293923735") = true := by decide

example : SealLaws boxOps ∧ SealCommit boxOps ∧ HashInj boxOps := ⟨Box.sealLaws, Box.sealCommit, Box.hashInj⟩

example : EncNonEmpty boxOps := by
  intro k x m n h
  simp only [boxOps, Box.ops, Box.enc] at h
  split at h
  · cases h
  · have := congrArg List.length (Option.some.inj h)
    cases k <;> simp [Box.esc] at this

example : NoncesOk (fun _ _ => List.replicate 12 0) := by intro x m; simp [nonceLen]

example : ImportableKey ⟨1, 1, 0, 10, [⟨fmtSym, [], [], [1, 2, 3]⟩]⟩ :=
  ⟨by decide, Or.inl (by simp), by simp, by
    intro d hd
    simp at hd
    subst hd
    exact Or.inr ⟨rfl, by simp, rfl, rfl, by simp [maxMsgLen]⟩⟩

end AcraModel.Props.C18
