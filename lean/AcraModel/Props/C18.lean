import AcraModel.KeystoreSec.ExportLemmas
import AcraModel.Crypto.Box
import AcraModel.KeystoreSec.Der
import AcraModel.Generated.KeystoreSec
/-!
# C18 — exported keys import to an identical keystore and stay confidential in transit

Property theorems only; the model is `KeystoreSec/Export.lean` (v2 key store: `exportKeyRings`,
`encryptAndSignKeyRings`, `decryptAndVerifyKeyRings`, `importKeyRing`, `copyKey`).
-/
namespace AcraModel.Props.C18
open AcraModel AcraModel.KeystoreSec AcraModel.KeystoreSec.Export

/-! ## facts the model needs from the source (regenerated on every run) -/
open Generated.KeystoreSec in
/-- The bundle is produced by: marshal the rings, encrypt *those bytes* with the access encryptor,
sign the container; and opened by: verify, decrypt, unmarshal – in this order. `copyKey` admits
destroyed keys (repair 03). Every `ZeroizeBytes` of the v1 `KeyBackuper.Export` is deferred, i.e. runs
after the keys were serialised and encrypted (repair 04). -/
theorem fact_bundle_pipeline :
    encryptAndSignCalls = ["keysData.Marshal", "cryptosuite.KeyEncryptor.Encrypt", "signature.NewNotary", "notary.Sign"] ∧
    encryptAndSignEncryptArg = ["keysBytes"] ∧
    decryptAndVerifyCalls = ["notary.Verify", "cryptosuite.KeyEncryptor.Decrypt", "asn1.UnmarshalEncryptedKeys"] ∧
    importASN1Calls = ["r.copyKey", "r.pushTX", "r.store.syncKeyRing", "r.popTX"] ∧
    copyKeyCalls = ["other.ValidSince.After", "r.addKeyData"] ∧ copyKeyAdmitsDestroyed = true ∧
    v1ExportZeroize = List.replicate 6 "defer:utils.ZeroizeBytes" := by decide

open Generated.KeystoreSec Path in
/-- The context strings and constants of the model are the ones in the source. -/
theorem fact_contexts :
    exportCtx = ofStr exportKeyContext ∧
    ksCtx [] = ofStr (keyStoreContextLits.headD "") ∧
    sigCtx [] = ofStr (keyStoreContextLits.headD "" ++ keyRingSignatureContextLits.headD "") ∧
    keyRingContextLits = ["key ring ", ": ", "key ring ", ": "] ∧
    privateKeyContextLits = ["private key %d"] ∧ symmetricKeyContextLits = ["symmetric key %d"] ∧
    privCtx (ofStr "p") 7 = ofStr "AKSv2 keystore: key ring p: private key 7" ∧
    symCtx (ofStr "p") (-12) = ofStr "AKSv2 keystore: key ring p: symmetric key -12" ∧
    signSeparator = ": " ∧ signWrites = ["context", "separator", "data"] ∧
    Notary.sha256OID = sha256OID ∧
    (fmtPair : Int) = asnThemisKeyPairFormat ∧ (fmtSym : Int) = asnThemisSymmetricKeyFormat ∧
    (stDestroyed : Int) = asnKeyDestroyed ∧
    Der.typeKeyRing = asnTypeKeyRing ∧ Der.typeEncryptedKeys = asnTypeEncryptedKeys ∧ Der.keyRingVersion2 = asnKeyRingVersion2 := by
  refine ⟨by rfl, by rfl, by rfl, by decide, by decide, by decide, by rfl, by rfl, by decide, by decide, by decide, by decide, by decide, by decide, by decide, by decide, by decide⟩

/-- **Export ∘ import = identity.** For every source store, selection of ring paths and access
keys: if the export (with private data) succeeds and every exported key is importable (what
`copyKey` demands: ordered validity period, at least one data item – or none at all for a destroyed
key –, pairwise different formats),
then importing the bundle with the same access keys into a target that has none of these rings
succeeds, and afterwards every selected ring, exported again from the target under the *target's*
master key, is identical to what was exported from the source: same keys in the same order, same
sequence numbers, states, validity, key material and current marker. Rings outside the selection
are untouched. -/
theorem export_import_identity (c : CryptoOps) (hl : SealLaws c) (hne : EncNonEmpty c) (cd : Codec) (hcd : cd.Ok)
    (ν : Nonces) (hν : NoncesOk ν) (S T : Store) (paths : List Bytes) (ak : AccessKeys) (time : Int) (nonce : Bytes)
    (xs : List Ring) (b : Notary.Container)
    (hexp : exportRings c S true paths = some xs)
    (hb : exportBundle c cd S true paths ak time nonce = some b)
    (hT : T.master ≠ [])
    (himp : ∀ x ∈ xs, ∀ k ∈ x.keys, ImportableKey k)
    (hnd : (xs.map (·.purpose)).Nodup)
    (hfree : ∀ x ∈ xs, T.get x.purpose = none) :
    ∃ T', importBundle c cd ν T ak b = some (T', true) ∧ T'.master = T.master ∧
      (∀ x ∈ xs, ∃ r, T'.get x.purpose = some r ∧ exportRing c T.master x.purpose true r = .ok x) ∧
      (∀ q, q ∉ xs.map (·.purpose) → T'.get q = T.get q) := by
  simp only [exportBundle, hexp, Option.bind_some] at hb
  have hopen := bundle_roundtrip c hl cd hcd ak time nonce xs b hb
  obtain ⟨T', h1, h2, h3, h4⟩ := importRings_ok c hl hne ν hν xs T hT himp hnd hfree
  exact ⟨T', by simp [importBundle, hopen, h1], h2, h3, h4⟩

/-- **The bundle is sealed.** Whatever is exported, the bundle is the signed container whose payload
carries `enc accessEncKey exportContext (serialised rings) nonce` – the serialised plaintext rings
never appear outside the AEAD (structural form of "never in clear", DESIGN §4.3). -/
theorem bundle_sealed (c : CryptoOps) (cd : Codec) (S : Store) (wp : Bool) (paths : List Bytes) (ak : AccessKeys)
    (time : Int) (nonce : Bytes) (b : Notary.Container)
    (hb : exportBundle c cd S wp paths ak time nonce = some b) :
    ∃ xs e, exportRings c S wp paths = some xs ∧ c.enc ak.encKey exportCtx (cd.ser xs) nonce = some e ∧
      b = Notary.sign c ak.sigKey exportCtx (cd.serPayload time e) := by
  simp only [exportBundle] at hb
  cases hx : exportRings c S wp paths with
  | none => simp [hx] at hb
  | some xs =>
    simp only [hx, Option.bind_some, encryptAndSign] at hb
    cases he : c.enc ak.encKey exportCtx (cd.ser xs) nonce with
    | none => simp [he] at hb
    | some e => simp [he] at hb; exact ⟨xs, e, rfl, he, hb.symm⟩

/-- **Public-only export carries no secret.** In public-only mode every exported key data item has
empty private and symmetric parts (rings without public data are skipped altogether). -/
theorem public_export_strips (c : CryptoOps) (master path : Bytes) (seq : Int) (d d' : KeyData)
    (h : decryptKeyData c master path seq false d = .ok d') : d'.priv = [] ∧ d'.sym = [] ∧ d'.pub = d.pub := by
  simp only [decryptKeyData] at h
  split at h
  · split at h
    · cases h
    · cases h; simp
  · simp at *

/-- **A modified bundle is rejected, target unchanged.** If the signed span of the bundle differs in
any way from what was signed (any byte of the payload: content type, version, time stamp,
ciphertext), verification fails and `ImportKeyRings` returns before touching the target (`none`:
no store is produced at all). Needs collision freedom of the HMAC. -/
theorem reject_modified_payload (c : CryptoOps) (hi : HashInj c) (cd : Codec) (ν : Nonces) (T : Store) (ak : AccessKeys)
    (raw raw' : Bytes) (hne : raw' ≠ raw) :
    importBundle c cd ν T ak ⟨raw', (Notary.sign c ak.sigKey exportCtx raw).sigs⟩ = none := by
  have : Notary.verify c ak.sigKey exportCtx ⟨raw', (Notary.sign c ak.sigKey exportCtx raw).sigs⟩ ≠ true := by
    intro h
    have := (Notary.verify_forces c hi _ _ _ _ _ _ h).2
    exact hne (List.append_cancel_left (List.append_cancel_left this))
  simp [importBundle, decryptAndVerify, this]

/-- **Wrong signature key ⇒ rejected, target unchanged.** -/
theorem reject_wrong_sig_key (c : CryptoOps) (hi : HashInj c) (cd : Codec) (ν : Nonces) (T : Store) (ak ak' : AccessKeys)
    (raw : Bytes) (hk : ak'.sigKey ≠ ak.sigKey) :
    importBundle c cd ν T ak' (Notary.sign c ak.sigKey exportCtx raw) = none := by
  have : Notary.verify c ak'.sigKey exportCtx (Notary.sign c ak.sigKey exportCtx raw) ≠ true := by
    intro h
    exact hk (Notary.verify_forces c hi _ _ _ _ _ _ h).1
  simp [importBundle, decryptAndVerify, this]

/-- **Wrong encryption key ⇒ rejected, target unchanged** (key commitment of the AEAD): opening an
honest bundle with a different access encryption key fails even when the signature key is right. -/
theorem reject_wrong_enc_key (c : CryptoOps) (hl : SealLaws c) (hc : SealCommit c) (cd : Codec) (hcd : cd.Ok)
    (ν : Nonces) (T : Store) (ak ak' : AccessKeys) (time : Int) (nonce : Bytes) (rs : List Ring) (b : Notary.Container)
    (hb : encryptAndSign c cd ak time nonce rs = some b) (hk : ak'.encKey ≠ ak.encKey) :
    importBundle c cd ν T ak' b = none := by
  simp only [encryptAndSign] at hb
  cases he : c.enc ak.encKey exportCtx (cd.ser rs) nonce with
  | none => simp [he] at hb
  | some e =>
    simp [he] at hb
    subst hb
    have hraw : (Notary.sign c ak.sigKey exportCtx (cd.serPayload time e)).raw = cd.serPayload time e := rfl
    have hdec : c.dec ak'.encKey exportCtx e = none := by
      cases hd : c.dec ak'.encKey exportCtx e with
      | none => rfl
      | some m =>
        obtain ⟨n, _, hn⟩ := hl.enc_of_dec _ _ _ _ hd
        exact absurd (hc.enc_inj _ _ _ _ _ _ _ _ _ hn he).1 hk
    simp only [importBundle, decryptAndVerify]
    split
    · simp [hraw, hcd.payload, hdec]
    · simp

/-- **Destroyed keys blocked import on the pinned tree (defect, repaired by
`repo-patches/03-fix-v2-import-destroyed-key.diff`).** With `copyKey` as pinned, a ring that
contains a destroyed key (no data left) exports fine but is refused on import (`ErrNoKeyData`), and
the failure comes *after* `openKeyRing` created the ring: an empty ring is left behind in the target. -/
theorem import_destroyed_pinned_counterexample (c : CryptoOps) (ν : Nonces) (T : Store) (x : Ring) (k : Key)
    (hk : k ∈ x.keys) (hd : k.data = []) (hfree : T.get x.purpose = none) :
    (importKeyRingPinned c ν T x).2 = false ∧
      (importKeyRingPinned c ν T x).1.get x.purpose = some ⟨x.purpose, [], -1⟩ := by
  have hcopy : copyKeyPinned c ν T.master x.purpose k = none := by
    unfold copyKeyPinned
    rw [hd]
    split <;> simp
  have hall : x.keys.mapM (copyKeyPinned c ν T.master x.purpose) = none := by
    clear hfree
    generalize x.keys = ks at hk
    induction ks with
    | nil => simp at hk
    | cons a r ih =>
      simp at hk
      rcases hk with rfl | hk
      · simp [List.mapM_cons, hcopy]
      · have := ih hk
        cases hca : copyKeyPinned c ν T.master x.purpose a <;> simp [List.mapM_cons, hca, this]
  simp [importKeyRingPinned, hfree, importASN1Pinned, hall]

/-- after the repair a destroyed key is importable -/
example : ImportableKey ⟨2, stDestroyed, 0, 10, []⟩ := ⟨by decide, Or.inr rfl, by simp, by simp⟩

/-! ## non-vacuity: the hypotheses are jointly satisfiable (Box instance, a trivial codec) -/

example : SealLaws boxOps ∧ SealCommit boxOps ∧ HashInj boxOps := ⟨Box.sealLaws, Box.sealCommit, Box.hashInj⟩

example : EncNonEmpty boxOps := by
  intro k x m n h
  simp only [boxOps, Box.ops, Box.enc] at h
  split at h
  · cases h
  · have := congrArg List.length (Option.some.inj h)
    cases k <;> simp [Box.esc] at this

example : NoncesOk (fun _ _ => List.replicate 12 0) := by intro x m; simp [nonceLen]

example : ImportableKey ⟨1, 1, 0, 10, [⟨fmtSym, [], [], [1, 2, 3]⟩]⟩ :=
  ⟨by decide, Or.inl (by simp), by simp, by
    intro d hd
    simp at hd
    subst hd
    exact Or.inr ⟨rfl, by simp, rfl, rfl, by simp [maxMsgLen]⟩⟩

end AcraModel.Props.C18
