import AcraModel.Keystore.CrashLemmas
import AcraModel.Keystore.RefineCrash
import AcraModel.Keystore.ImportLemmas
import AcraModel.Keystore.RotateTool
import AcraModel.Keystore.SysFileLemmas
/-!
# C08 — a crash or I/O failure during a keystore write never loses or corrupts keys

Property theorems only. The models of the write operations as lists of storage / back-end calls and
their execution under faults are in `AcraModel/Keystore/{V1,Calls,CallsImport}.lean` (generate, rotate,
destroy; import, migration, kept ring handles) and `RotateTool.lean` (the key-rotation tool); helper lemmas
in `CrashLemmas.lean`, `RefineCrash.lean`, `ImportLemmas.lean`.
-/
namespace AcraModel.Props.C08
open AcraModel AcraModel.Keystore Generated

/-! ## facts regenerated from the source -/

/-- `WriteKeyFile` makes its storage calls in the order the model assumes: directory, temporary file,
data, backup of the previous version, and only then the `Rename` over the target;
`backupHistoricalKeyFile` looks at the target first and tries `Link` before `Copy`. -/
theorem fact_v1_write_order :
    KeyNames.v1WriteKeyFileCalls =
      ["WriteKeyFile.MkdirAll", "WriteKeyFile.TempFile", "WriteKeyFile.WriteFile", "WriteKeyFile.<backup>", "WriteKeyFile.Rename",
       "backupHistoricalKeyFile.Stat", "backupHistoricalKeyFile.MkdirAll", "backupHistoricalKeyFile.Link", "backupHistoricalKeyFile.Copy"] := by decide

/-- `pushASNring` writes the temporary `<ring>.keyring.new` and then renames it over the ring – nothing else. -/
theorem fact_v2_push_order : KeyNames.v2PushCalls = ["Put", "Rename"] ∧ KeyNames.v2NewSuffix = ".new" := by decide

/-! ## v1: one key file -/

/-- **v1_crash_atomic (one file).** Cut `WriteKeyFile` before any of its calls (`k` calls were made,
the final `Rename` was not): every current key file – the target included – still has its old content,
and every history directory still has all its files (it can only have gained the backup). So every key
readable before reads the same, and the key being written is still its old self. -/
theorem v1_crash_atomic (fs : FS) (f : FileId) (c : Content) (k : Nat)
    (hk : k < (writeKeyFileCalls fs f c).length) :
    (applyAll fs ((writeKeyFileCalls fs f c).take k)).1.cur = fs.cur ∧
    ∀ f', ∃ l, (applyAll fs ((writeKeyFileCalls fs f c).take k)).1.old f' = fs.old f' ++ l := by
  obtain ⟨pre, hshape, h1, h2⟩ := writeKeyFileCalls_shape fs f c
  rw [hshape] at hk ⊢
  have hk' : k ≤ pre.length := by simp at hk; omega
  rw [List.take_append_of_le_length hk']
  exact applyAll_keeps fs _ (fun x hx => h1 x (List.mem_of_mem_take hx)) (fun x hx => h2 x (List.mem_of_mem_take hx))

/-- **v1_crash_atomic (torn write).** The same when the cut tears the `WriteFile` of the temporary
(any content lands in the temporary file): a torn write never reaches a current key file. -/
theorem v1_torn_atomic (fs : FS) (f : FileId) (torn : Content) :
    (applyAll fs [.mkdirAll f, .tempFile f, .writeFile fs.nextTmp f torn]).1.cur = fs.cur ∧
    ∀ f', ∃ l, (applyAll fs [.mkdirAll f, .tempFile f, .writeFile fs.nextTmp f torn]).1.old f' = fs.old f' ++ l :=
  applyAll_keeps fs _ (by simp [Call.keepsCur]) (by simp [Call.keepsOld])

/-- **v1_write_complete.** When all calls are made, the target holds completely the new content, no
other current file changed, and no temporary file is left. Together with `v1_crash_atomic`: the key
file being written is either its old self or completely the new one – for every cut. -/
theorem v1_write_complete (fs : FS) (f : FileId) (c : Content) (hf : fs.TmpFresh) :
    (applyAll fs (writeKeyFileCalls fs f c)).2 = true ∧
    (applyAll fs (writeKeyFileCalls fs f c)).1.cur = upd fs.cur f (some c) ∧
    (applyAll fs (writeKeyFileCalls fs f c)).1.tmps = fs.tmps :=
  writeKeyFile_complete fs f c hf

/-- **v1_crash_live_partial.** A cut before `TempFile` has been executed leaves no temporary file, so
listing is not affected. (For later cuts see `v1_crash_live_counterexample`.) -/
theorem v1_crash_live_partial (fs : FS) (f : FileId) (c : Content) (k : Nat) (hk : k ≤ 1) :
    (applyAll fs ((writeKeyFileCalls fs f c).take k)).1.tmps = fs.tmps := by
  have : k = 0 ∨ k = 1 := by omega
  rcases this with rfl | rfl <;> simp [writeKeyFileCalls, applyAll, applyCall]

def ss0 : Slot := ⟨.ss, 0⟩
def sp0 : Slot := ⟨.sp, 0⟩

/-- **v1_crash_live_counterexample** (known finding `v1:leftover-temp-file`). The full liveness claim
is false for v1: generate a symmetric key, crash the rotation right after `TempFile` – the reopened
store reads the old key and accepts further writes, but `ListKeys` fails on the leftover temporary. -/
theorem v1_crash_live_counterexample :
    let cut := ((V1.init (-1)).step (.gen ss0)).1.stepF ⟨.ca, 1⟩ (.gen ss0)
    cut.2.2 = .crash ∧ (cut.1.clear.step (.cur ss0)).2 = .key 1 ∧ (cut.1.clear.step .list).2 = .err ∧
    ((cut.1.clear.step (.gen ss0)).1.step (.cur ss0)).2 = .key 3 := by decide +kernel

/-- **v1_pair_counterexample** (known finding `v1:key-pair-half-written`). A key pair is two files:
crash the rotation after the private file was renamed into place (call 9 is the `MkdirAll` that opens
the public file's `WriteKeyFile`) – the new private key is current together with the old public key. -/
theorem v1_pair_counterexample :
    let cut := ((V1.init (-1)).step (.gen sp0)).1.stepF ⟨.ca, 9⟩ (.gen sp0)
    cut.2.2 = .crash ∧ (cut.1.clear.step (.cur sp0)).2 = .key 2 ∧ (cut.1.clear.step (.pub sp0)).2 = .key 1 ∧
    (cut.1.clear.step (.all sp0)).2 = .keys [2, 1] := by decide +kernel

/-! ## v2: one locked phase (`OpenKeyRingRW`, `AddKey`, `SetCurrent`, `DestroyKey` are one phase each) -/

/-- **v2_crash_atomic.** Whatever call of a phase the fault hits and in whatever mode (error, crash
before/after, torn `Put`), afterwards every other ring is untouched and the ring of the phase is either
exactly what it was or exactly the ring the phase computed – never anything in between. -/
theorem v2_crash_atomic (ft : Fault) (x : X2) (s : Slot) (compute : Option Ring → Option (Option Ring)) :
    (∀ s', s' ≠ s → (x.phase ft s compute).st.rings s' = x.st.rings s') ∧
    ((x.phase ft s compute).st.rings s = x.st.rings s ∨
      ∃ r, compute (x.st.rings s) = some (some r) ∧ (x.phase ft s compute).st.rings s = some r) := by
  apply X2.phase_inv ft x s compute
    (fun st => (∀ s', s' ≠ s → st.rings s' = x.st.rings s') ∧
      (st.rings s = x.st.rings s ∨ ∃ r, compute (x.st.rings s) = some (some r) ∧ st.rings s = some r))
  · exact ⟨fun _ _ => rfl, Or.inl rfl⟩
  · intro st h; exact h
  · intro st r hr h
    refine ⟨fun s' hs' => ?_, Or.inr ⟨r, hr, by simp⟩⟩
    simp [upd, hs', h.1 s' hs']

/-- **v2_error_rollback (storage side).** A transaction list that fails to apply installs nothing:
the phase's `compute` is `applyTxs`, which yields no ring at all when any transaction is refused, so
by `v2_crash_atomic` the stored ring is unchanged; the next operation starts from the stored ring
(every API call opens its ring afresh), hence no partially applied transaction is ever observable. -/
theorem v2_error_rollback (ft : Fault) (x : X2) (s : Slot) (txs : List Tx) (r : Ring)
    (hr : x.st.rings s = some r) (hfail : applyTxs r txs = none) :
    (x.write ft s txs).st.rings s = some r := by
  have h := (v2_crash_atomic ft x s (writeCompute txs)).2
  unfold X2.write
  rcases h with h | ⟨r', hr', _⟩
  · rw [h, hr]
  · simp [hr, hfail, writeCompute] at hr'

/-- **v2_crash_live_counterexample** (known finding `v2:leftover-keyring-new`). Crash a rotation right
after `Put(<ring>.keyring.new)` (call 5: Lock, Get, Unlock, Lock, Get, Put): the old key still reads, but
every later write to the ring is refused and the listing fails. -/
theorem v2_crash_live_counterexample :
    let cut := (V2.init.step (.gen ss0)).1.stepF ⟨.ca, 5⟩ (.gen ss0)
    cut.2.2 = .crash ∧ (cut.1.step (.cur ss0)).2 = .key 1 ∧ (cut.1.step (.gen ss0)).2 = .err ∧ (cut.1.step .list).2 = .err := by decide +kernel

/-! ## whole write operations after an arbitrary history -/

/-- **v1_write_op_atomic.** For every cache size, every history `h` (any operations at all), every
fault (error, crash before/after, torn write) at any call, and every *single-file* key (symmetric,
HMAC, audit log – a key pair is two files: known finding `v1:key-pair-half-written`,
`v1_pair_counterexample`): after generate/rotate of slot `s` is cut by the fault – including every
error path of `WriteKeyFile`/`backupHistoricalKeyFile` (backup after a failing `Stat`, `Copy` after a
failing `Link`) – no other key file and no other history directory has changed, the history of the
key only grew, and its current file is what it was or completely the new generation; in the latter
case the previous content is in the history. Hence every generation the storage held, it still holds
with the same content (`FS.holds` is what `V1.abs` reads), and a torn write never reaches a key. -/
theorem v1_write_op_atomic (c : Int) (h : List Op) (ft : Fault) (s : Slot) (hp : s.kind.isPair = false) :
    let st := ((V1.init c).run h).1
    let fs' := (st.stepF ft (.gen s)).1.fs
    (∀ f', f' ≠ privFile s → fs'.cur f' = st.fs.cur f' ∧ fs'.old f' = st.fs.old f') ∧
    (∃ l, fs'.old (privFile s) = st.fs.old (privFile s) ++ l) ∧
    (fs'.cur (privFile s) = st.fs.cur (privFile s) ∨
      (fs'.cur (privFile s) = some (.full (st.count s + 1)) ∧
        ∀ c0, st.fs.cur (privFile s) = some c0 → ∃ t, (t, c0) ∈ fs'.old (privFile s))) ∧
    (∀ f' g, st.fs.holds f' g = true → fs'.holds f' g = true) := by
  intro st fs'
  have hw := V1.stepF_gen_atomic st ft s hp
  exact ⟨hw.others, hw.grow, hw.target, fun f' g hh => hw.holds f' g hh⟩

/-- **v1_write_op_atomic (what a reopened store reads).** Same situation; after reopening (empty cache),
reading the current key of any slot `s'` gives what it gave before the faulted rotation – or, for the
rotated slot itself, the completely new key. -/
theorem v1_write_op_atomic_reads (c : Int) (h : List Op) (ft : Fault) (s s' : Slot) (hp : s.kind.isPair = false) :
    let st := ((V1.init c).run h).1
    let st' := (st.stepF ft (.gen s)).1
    (st'.clear.step (.cur s')).2 = (st.clear.step (.cur s')).2 ∨
    (s' = s ∧ (st'.clear.step (.cur s')).2 = .key (st.count s + 1)) := by
  exact V1.stepF_gen_reads _ ft s s' hp

/-- **v1_destroy_op_atomic.** The same for destroy-rotated of a single-file key: under any fault the
storage is unchanged, or exactly the history file listed under the index is gone. -/
theorem v1_destroy_op_atomic (c : Int) (h : List Op) (ft : Fault) (s : Slot) (i : Nat) (hp : s.kind.isPair = false) :
    let st := ((V1.init c).run h).1
    let fs' := (st.stepF ft (.drot s i)).1.fs
    fs' = st.fs ∨ ∃ t c0, (st.fs.old (privFile s))[i - KeyNames.v1DestroyIndexOffset]? = some (t, c0) ∧
      fs' = { st.fs with old := upd st.fs.old (privFile s) ((st.fs.old (privFile s)).filter (·.1 ≠ t)) } :=
  V1.stepF_drot_atomic _ ft s i hp

/-- **v2_write_op_atomic.** For every history `h` without destroy-current and without read-write opens
before the first generation (the hypotheses of `C06.v2_refines_spec`), every fault at any back-end
call, and every slot that *has been generated before* (the first generation is three ring writes and
can leave a ring without current key: known finding `v2:ring-without-current-key`): after
generate/rotate of `s` is cut by the fault, every other ring is untouched and the ring of `s` is what it
was, or has the new key appended while the old key is still current, or is completely rotated. In each
case every key that was readable reads the same and the current key is the old or the new generation. -/
theorem v2_write_op_atomic (h : List Op) (hops : ∀ o ∈ h, o.isDcur = false ∧ o.idxOk = true)
    (hgf : genFirst (fun _ => false) h = true) (ft : Fault) (s : Slot) (hn : (V2.init.run h).1.count s ≠ 0) :
    let st := (V2.init.run h).1
    let st' := (st.stepF ft (.gen s)).1
    ∃ r r', st.rings s = some r ∧ st'.rings s = some r' ∧
      (∀ s', s' ≠ s → st'.rings s' = st.rings s') ∧
      (r' = r ∨ r' = ⟨r.keys ++ [⟨st.count s + 1, .preActive, some (st.count s + 1)⟩], r.current⟩ ∨ r' = r.added (st.count s)) ∧
      (∀ q g, r.material q = some g → r'.material q = some g) ∧
      (r'.current.bind r'.material = some (st.count s) ∨ r'.current.bind r'.material = some (st.count s + 1)) := by
  intro st st'
  have hinv := (V2.run_sim h V2.init (fun _ => false) V2.Inv.init (by intro s hs; cases hs) hops hgf).1
  rcases hinv.ring s with ⟨_, h0⟩ | ⟨r, hr, _, hok⟩
  · exact absurd h0 hn
  · obtain ⟨ho, hcases⟩ := V2.stepF_gen_atomic st ft s r hr hok
    have hex : ∃ r', st'.rings s = some r' ∧
        (r' = r ∨ r' = ⟨r.keys ++ [⟨st.count s + 1, .preActive, some (st.count s + 1)⟩], r.current⟩ ∨ r' = r.added (st.count s)) := by
      rcases hcases with h1 | h1 | h1
      · exact ⟨_, h1, Or.inl rfl⟩
      · exact ⟨_, h1, Or.inr (Or.inl rfl)⟩
      · exact ⟨_, h1, Or.inr (Or.inr rfl)⟩
    obtain ⟨r', hr', hc⟩ := hex
    obtain ⟨hm, hcur⟩ := gen_outcomes_read hok hn hc
    exact ⟨r, r', hr, hr', ho, hc, hm, hcur⟩

/-- **v2_destroy_op_atomic.** Destroy-rotated on an existing ring under any fault: every other ring is
untouched; the ring is what it was, or exactly the key listed under the index is destroyed. -/
theorem v2_destroy_op_atomic (st : V2) (ft : Fault) (s : Slot) (i : Nat) (r : Ring) (hr : st.rings s = some r) :
    (∀ s', s' ≠ s → (st.stepF ft (.drot s i)).1.rings s' = st.rings s') ∧
    ((st.stepF ft (.drot s i)).1.rings s = some r ∨
     ∃ act q, r.rotatedActive = some act ∧ act[i - KeyNames.v2DestroyIndexOffset]? = some q ∧
       (st.stepF ft (.drot s i)).1.rings s = some (r.destroyed q)) :=
  V2.stepF_drot_atomic st ft s i r hr

/-- **v2_first_generation_counterexample** (known finding `v2:ring-without-current-key`). The hypothesis
"generated before" of `v2_write_op_atomic` is needed: crash the very first generation of a slot after
the ring was created (call 3: Lock, Get, Put, Rename) – an empty ring without current key stays behind
and `ListKeys` fails for the whole store. Protocol: `C08.v2d ca 3 H O g:al F l`. -/
theorem v2_first_generation_counterexample :
    let cut := V2.init.stepF ⟨.ca, 3⟩ (.gen ⟨.al, 0⟩)
    cut.2.2 = .crash ∧ cut.1.rings ⟨.al, 0⟩ = some Ring.empty ∧ (cut.1.step .list).2 = .err := by decide +kernel

/-! ## import (v1 `KeyBackuper.Import`, v2 `ImportKeyRings`, v1→v2 migration `ImportKeyFileV1`) -/

/-- `KeyBackuper.Import` writes every key file through a temporary file that is renamed over the target,
and removes the temporary when the write or the rename fails (the model's `importFileCalls` and the
clean-up in `X1.importFile`). -/
theorem fact_v1_import_order :
    KeystoreCrash.v1ImportCalls =
      ["Import.MkdirAll", "Import.TempFile", "Import.WriteFile", "Import.<cleanup>", "Import.Rename", "Import.<cleanup>"] := by decide

/-- **import_atomic_per_key (v1).** For every cache size, every history `h`, every bundle (any list of
key files, in any order, with repetitions) and every fault (error, crash before/after, torn write) at any
storage call of `KeyBackuper.Import`: no history directory changes, and every current key file – imported
or not – is exactly what it was or completely the key the bundle holds for it. So every key readable
before reads the same unless the bundle replaces it, and each imported key is absent/old or complete –
never half-written. (On the pinned tree `Import` wrote the files in place and a torn write left a
truncated key under its final name; repaired, repo-patches/51.) -/
theorem import_atomic_per_key (c : Int) (h : List Op) (ft : Fault) (files : List FileId) :
    let st := ((V1.init c).run h).1
    let fs' := (st.importF ft files).1.fs
    fs'.old = st.fs.old ∧
      ∀ f, fs'.cur f = st.fs.cur f ∨ (f ∈ files ∧ fs'.cur f = some (.full (st.count f.slot + 1))) := by
  intro st fs'
  exact X1.importFiles_atomic ft (fun f => .full (st.count f.slot + 1)) files ⟨st, [], 0, .ok, false⟩

/-- **import_atomic_per_key (v2).** For every history, every bundle of rings, both delegates (refuse /
overwrite an existing ring) and every fault at any back-end call of `ImportKeyRings`: every ring – imported
or not – is exactly what it was, or completely the imported ring, or (it did not exist before) the empty
ring that `openKeyRing` creates before the keys are installed. No ring ever holds a part of an import. -/
theorem import_atomic_per_key_v2 (h : List Op) (ft : Fault) (ow : Bool) (slots : List Slot) :
    let st := (V2.init.run h).1
    let st' := (st.importF ft ow slots).1
    ∀ s, st'.rings s = st.rings s ∨
      (s ∈ slots ∧ (st'.rings s = some (oneKeyRing (st.count s + 1)) ∨ (st.rings s = none ∧ st'.rings s = some Ring.empty))) := by
  intro st st' s
  exact X2.importRings_atomic ft ow (fun s => oneKeyRing (st.count s + 1)) slots ⟨st, [], 0, .ok, false⟩ s

def hm1 : Slot := ⟨.hm, 1⟩

/-- **import_not_atomic_as_a_whole_counterexample.** Honestly stated: an import of several keys is a
sequence of per-key writes, it is NOT atomic as a whole, in either format. v1: crash right after the
`Rename` of the first of two files (call 3) – the first key is imported, the second absent. v2: crash after
the last call of the first ring (call 12: read phase 0–2, ring creation 3–7, key installation 8–12) – the
first ring is imported, the second missing. (A re-run of the import completes it: v1 overwrites; v2 needs
the overwriting delegate for the rings that already arrived.) -/
theorem import_not_atomic_as_a_whole_counterexample :
    (let cut := (V1.init (-1)).importF ⟨.ca, 3⟩ [privFile ss0, privFile hm1]
     cut.2.2.2 = .crash ∧ cut.1.fs.cur (privFile ss0) = some (.full 1) ∧ cut.1.fs.cur (privFile hm1) = none) ∧
    (let cut := V2.init.importF ⟨.ca, 12⟩ false [ss0, hm1]
     cut.2.2 = .crash ∧ cut.1.rings ss0 = some (oneKeyRing 1) ∧ cut.1.rings hm1 = none) := by decide +kernel

/-- **import_v2_empty_ring_counterexample** (known finding `v2:ring-without-current-key`). The third case
of `import_atomic_per_key_v2` happens: crash the import of a new ring after `openKeyRing` (call 7) – the
empty ring stays behind, `ListKeys` fails for the whole store, and a repeated import with the default
delegate is refused (`ErrKeyRingExists`) although no key of the ring ever arrived. -/
theorem import_v2_empty_ring_counterexample :
    let cut := V2.init.importF ⟨.ca, 7⟩ false [ss0]
    cut.2.2 = .crash ∧ cut.1.rings ss0 = some Ring.empty ∧ (cut.1.step .list).2 = .err ∧
    (cut.1.importF ⟨.none, 0⟩ false [ss0]).2.2 = .err ∧ (cut.1.importF ⟨.none, 0⟩ true [ss0]).2.2 = .ok := by decide +kernel

/-- **migrate_key_is_generate.** The v1→v2 migration imports a key with `OpenKeyRingRW`, `AddKey`,
`SetCurrent` – the model's step for one migrated key IS the generate/rotate step, so `v2_write_op_atomic`
(ring generated before) and `v2_first_generation_counterexample` (new ring) apply to every migrated key. -/
theorem migrate_key_is_generate (ft : Fault) (st : V2) (s : Slot) :
    (V2.migrateF ft st 0 false [s]).1 = (st.stepF ft (.gen s)).1 := by
  have hs : ft.shift 0 = ft := by cases ft; simp [Fault.shift]
  simp only [V2.migrateF, hs]
  generalize st.stepF ft (.gen s) = r
  obtain ⟨st1, tr, out⟩ := r
  cases out <;> rfl

/-! ## a ring handle kept across a failed write -/

/-- every handle write pops, when its sync fails, exactly the transactions it pushed -/
theorem fact_v2_tx_push_pop :
    KeystoreCrash.v2TxPushPop =
      [("setCurrent", 1, 1), ("changeKeyState", 1, 1), ("addKey", 1, 1), ("destroyKey", 2, 2), ("importASN1", 1, 1)] := by decide

/-- **v2_error_rollback (handle side).** A ring handle whose transaction log is empty has an empty log
again after any `AddKey` / `SetCurrent` / `DestroyKey` – whatever fault hit the sync (error at any back-end
call, including after the ring was replaced) and whether or not the operation was refused. Hence the next
write through the same handle applies its own transactions only: nothing of a failed operation is ever
written by a later one. (The model pops as many transactions as the regenerated table says; with the
table as it is – `fact_v2_tx_push_pop` – that is as many as were pushed.) -/
theorem v2_handle_error_rollback (ft : Fault) (s : Slot) (h : H2) (ops : List HOp) (hl : h.log = []) :
    (H2.hops ft s h ops).1.log = [] := by
  induction ops generalizing h with
  | nil => exact hl
  | cons op ops ih =>
    simp only [H2.hops]
    apply ih
    apply H2.hop_log ft s h op hl
    · cases op <;> rfl
    · decide

/-! ## the key-rotation tool (`cmd/acra-rotate`, file variant) -/

/-- the order the model of the tool follows: per key id the new pair is generated in memory, per file
read – re-encrypt – stat – write in place, and `saveRotatedKeys` after both loops; its error is not
returned; nothing is saved when a key is generated -/
theorem fact_rotate_tool_order :
    KeystoreCrash.rotateFilesCalls =
      ["1:getRotatedPublicKey", "2:ReadFile", "2:rotateAcrastruct", "2:Stat", "2:WriteFile", "0:saveRotatedKeys"] ∧
    KeystoreCrash.rotateSaveErrorReturned = false ∧ KeystoreCrash.rotateKeySavedWhenGenerated = false := by decide

/-- **rotate_tool_order_counterexample** (known finding `rotate-tool:data-rewritten-before-key-saved`).
`rotate_tool_order` – "no point of the tool's run, cut anywhere, leaves data that can be decrypted neither
with the old nor with the new key the keystore offers after restart" – is FALSE for the tool as it is. One
key id, events `read 0, rewrite 0, …, save`:
(1) crash right after the first rewrite (event 1): the file is under the new key, the keystore offers only
the old one; (2) no crash at all – the second file cannot be read (event 2 fails): the tool returns an
error without saving, the first file is lost; (3) the save itself fails (event 2 of a one-file run): the
error is logged, the tool reports success, the file is lost. -/
theorem rotate_tool_order_counterexample :
    (let cut := Rotate.exec Rotate.codeVariant ⟨.ca, 1⟩ 0 .init (Rotate.codeEvents [(0, 1)])
     cut.2 = .crash ∧ cut.1.files 0 0 = some 1 ∧ cut.1.offered 0 = [0]) ∧
    (let cut := Rotate.exec Rotate.codeVariant ⟨.err, 2⟩ 0 .init (Rotate.codeEvents [(0, 2)])
     cut.2 = .err ∧ cut.1.files 0 0 = some 1 ∧ cut.1.offered 0 = [0]) ∧
    (let cut := Rotate.exec Rotate.codeVariant ⟨.err, 2⟩ 0 .init (Rotate.codeEvents [(0, 1)])
     cut.2 = .ok ∧ cut.1.files 0 0 = some 1 ∧ cut.1.offered 0 = [0]) := by decide +kernel

/-- **rotate_tool_rewrite_error_counterexample** (known finding `rotate-tool:data-file-torn-in-place`). The tool
rewrites a data file in place (`ioutil.WriteFile`: truncate, then write). A write error while the first file is
rewritten (event 1 – disk full, quota, file size limit) makes the tool stop with an error, correctly – but the
file now holds a prefix of the new ciphertext: it can be decrypted with no key at all, old or new. -/
theorem rotate_tool_rewrite_error_counterexample :
    let cut := Rotate.exec Rotate.codeVariant ⟨.err, 1⟩ 0 .init (Rotate.codeEvents [(0, 1)])
    cut.2 = .err ∧ cut.1.files 0 0 = none ∧ cut.1.offered 0 = [0] := by decide +kernel

/-- **rotate_save_cut_keeps_old_key.** The save of the new key pair opened up into the key store's own write
operation (v1: the 16 storage calls of the rotation of a key pair = two key files; v2: the 13 back-end calls of
`AddKey` + `SetCurrent`) and cut by a crash right after ANY of its calls (`j < 32` covers every call and "no cut"):
after the restart the key store offers the old key alone or the new key and the old one – never nothing, never
the new key alone. The new key is offered exactly from the `Rename` that puts the new PRIVATE key file in place
(v1, call 8) / the `Rename` that installs the ring with the added key (v2, call 6) on; before that the rewritten
files are lost (known finding `rotate-tool:data-rewritten-before-key-saved`). In particular the v1 state "new
private key, old public key" (known finding `v1:key-pair-half-written`) already decrypts the rewritten files. -/
theorem rotate_save_cut_keeps_old_key :
    ∀ j < 32,
      ((Rotate.saveCutV1 j).2.2 = some (if 8 ≤ j then [1, 0] else [0])) ∧
      ((Rotate.saveCutV2 j).2.2 = some (if 6 ≤ j then [1, 0] else [0])) := by decide +kernel

/-- **rotate_tool_order_partial** (the order that makes `rotate_tool_order` true). If the new key pair of
an id is saved before the first file of that id is rewritten and files are replaced atomically, then for
every file map (any key ids, any numbers of files), every fault mode and every cut, every data file can be
decrypted with a key the keystore offers after restart – old files with the old key, which stays offered as
a rotated key, rewritten files with the saved new key. This is the repair the known finding asks for; it is
a statement about the model's alternative event order, not about the tool as it is. -/
theorem rotate_tool_order_partial (clients : List (Nat × Nat)) (v : Rotate.Variant) (hv : v.atomicRewrite = true)
    (ft : Fault) : (Rotate.exec v ft 0 .init (Rotate.eventsSavedFirst clients)).1.Safe :=
  (Rotate.exec_ready v hv ft _ 0 .init (fun _ => false) Rotate.Inv.init (by intro c hc; cases hc)
    (Rotate.ready_savedFirst clients _)).safe

/-! ## inside `Put` and `Copy`: failures of single system calls

The call-level theorems above treat a back-end / storage call that returns an error as not performed and one
that returns `nil` as completely performed. For `DirectoryBackend.Put` and `FileStorage.Copy` that is a claim
about Acra's code; it is proved here over the system-call level models of `Keystore/SysFile.lean`, whose
parameters are regenerated from the source (`Generated/KeystoreSys.lean`). -/

/-- `DirectoryBackend.Put` makes these error-returning calls in this order, tests the error of each before
the next; the clean-up closure is deferred after the `OpenFile` (call 3 onwards), guarded by `file != nil`,
disarmed (`file = nil`) only after the `Close` succeeded; the file is created exclusively. -/
theorem fact_put_syscalls :
    KeystoreSys.putCalls =
      [("b.osPath", "path", true), ("os.MkdirAll", "directory", true), ("os.OpenFile", "fullPath", true),
       ("file.Write", "data", true), ("file.Sync", "", true), ("file.Close", "", true)] ∧
    KeystoreSys.putDeferAt = 3 ∧ KeystoreSys.putDisarmAt = 6 ∧ KeystoreSys.putCleanupGuard = "file != nil" ∧
    KeystoreSys.putOpenFlags = ["O_CREATE", "O_EXCL", "O_WRONLY"] := by decide

/-- The clean-up closure of `Put` closes the file and removes THE PATH THAT `OpenFile` CREATED: `os.Remove`
receives the same expression as `os.OpenFile`, and that expression is the OS path `osPath(path)`, not the key
path. -/
theorem fact_put_cleanup_removes_created_file :
    KeystoreSys.putCleanupCalls = [("file.Close", ""), ("os.Remove", "fullPath")] ∧
    Sys.putCode.removeArg = some Sys.putCode.openArg ∧
    KeystoreSys.putPathDefs.lookup "fullPath" = some "b.osPath(path)" := by decide

/-- the `Put` of the source satisfies what the model's clean-up lemma needs -/
theorem put_code_sound : Sys.putCode.Sound := ⟨by decide, by decide, by decide⟩

/-- `OpenFile` of the source creates the OS path -/
theorem put_code_open_path (e : Sys.PutEnv) : e.eval Sys.putCode.openArg = some e.fullPath := by
  have h : Sys.putCode.openArg = "fullPath" := by decide
  rw [h]; rfl

/-- **put_error_leaves_no_file.** Whatever fails inside `Put` – path check, `MkdirAll`, the exclusive create,
`write(2)` after any number of bytes, `fsync`, `close`, also several of them – when `Put` returns an error (the
process did not crash, the clean-up's `Remove` worked) the directory holds exactly the files it held before:
no `<ring>.keyring.new` is left, and a file that was there before (the reason for `ErrExist`) is not removed.
This is what the call-level model assumes of a failing `Put` (`X2.call … .err`: not performed). -/
theorem put_error_leaves_no_file (e : Sys.PutEnv) (f : Sys.PutFaults) (hf : f.remove = false) (d : Sys.Disk) (data : Bytes)
    (h : (Sys.put e f d data).2 = .err) : (Sys.put e f d data).1 = d :=
  Sys.putWith_err_unchanged _ put_code_sound e f hf d data h

/-- **retry_after_put_error_succeeds.** Hence a failed write is not sticky: once the fault is gone the same
`Put` succeeds and leaves exactly the data (the path being free, as it was for the first attempt). -/
theorem retry_after_put_error_succeeds (e : Sys.PutEnv) (f : Sys.PutFaults) (hf : f.remove = false) (d : Sys.Disk) (data : Bytes)
    (hfree : d e.fullPath = none) (h : (Sys.put e f d data).2 = .err) :
    Sys.put e Sys.PutFaults.none (Sys.put e f d data).1 data = (upd d e.fullPath (some data), .ok) := by
  rw [put_error_leaves_no_file e f hf d data h]
  exact Sys.putWith_none _ e d data e.fullPath (put_code_open_path e) hfree

/-- **put_ok_complete.** A `Put` that returns `nil` found nothing at the path and left exactly the data there –
what the call-level model assumes of a successful `Put`. -/
theorem put_ok_complete (e : Sys.PutEnv) (f : Sys.PutFaults) (d : Sys.Disk) (data : Bytes) (h : (Sys.put e f d data).2 = .ok) :
    d e.fullPath = none ∧ (Sys.put e f d data).1 = upd d e.fullPath (some data) := by
  obtain ⟨p, hp, hn, he⟩ := Sys.putWith_ok _ e f d data h
  have : p = e.fullPath := by
    rw [put_code_open_path e] at hp; cases hp; rfl
  subst this; exact ⟨hn, he⟩

/-- **put_crash_leaves_prefix.** A crash inside `Put` (no clean-up runs) leaves the directory as it was or with
a prefix of the data at the path – the cases `cb`, `torn`, `ca` of the call-level fault model (known finding
`v2:leftover-keyring-new`). -/
theorem put_crash_leaves_prefix (e : Sys.PutEnv) (stage n : Nat) (d : Sys.Disk) (data : Bytes) :
    Sys.putCrash e stage n d data = d ∨ ∃ m, Sys.putCrash e stage n d data = upd d e.fullPath (some (data.take m)) :=
  Sys.putCrash_prefix e stage n d data

/-- **put_cleanup_wrong_path_counterexample.** The hypothesis that matters is WHICH path the clean-up removes:
hand `os.Remove` the key path instead of the OS path (they differ: the key path is relative) and a `write(2)`
that fails after 3 bytes leaves the torn file behind, `Put` returns an error, and the retry without any fault
is refused for ever (`O_EXCL`). -/
theorem put_cleanup_wrong_path_counterexample :
    let c : Sys.PutCode := { Sys.putCode with removeArg := some "path" }
    let e : Sys.PutEnv := ⟨"client/alice/storage-sym.keyring.new", "/keys/client/alice/storage-sym.keyring.new"⟩
    let r := Sys.putWith c e { write := some 3 } (fun _ => none) [1, 2, 3, 4, 5]
    r.2 = .err ∧ r.1 e.fullPath = some [1, 2, 3] ∧ (Sys.putWith c e Sys.PutFaults.none r.1 [1, 2, 3, 4, 5]).2 = .err := by
  decide

/-- `FileStorage.Copy` makes these error-returning calls in this order and the error of EVERY one is tested (or
returned) before `err` is assigned again; the closure that closes the destination is deferred after the
exclusive create of the destination. -/
theorem fact_copy_error_flow :
    KeystoreSys.copyCalls =
      [("os.Open", "src", true), ("srcFile.Stat", "", true), ("os.OpenFile", "dst", true),
       ("io.Copy", "dstFile", true), ("dstFile.Sync", "", true)] ∧
    KeystoreSys.copyDeferAt = 3 ∧ KeystoreSys.copyOpenFlags = ["O_CREATE", "O_EXCL", "O_WRONLY"] := by decide

/-- the error of `io.Copy` is kept -/
theorem copy_code_kept : Sys.copyCode.copyKept = true := by decide

/-- **copy_ok_complete.** `Copy` returns `nil` only when the destination did not exist and now holds exactly the
content of the source – for every fault pattern (any subset of its system calls failing, `io.Copy` after any
number of bytes). This is what the call-level model assumes of `Link`/`Copy` in `applyCall`: success = the
complete current content is in the history. -/
theorem copy_ok_complete (f : Sys.CopyFaults) (d : Sys.Disk) (src dst : Sys.Path) (h : (Sys.copy f d src dst).2 = .ok) :
    ∃ s, d src = some s ∧ d dst = none ∧ (Sys.copy f d src dst).1 = upd d dst (some s) :=
  Sys.copyWith_ok _ copy_code_kept f d src dst h

/-- **copy_unchecked_counterexample.** The hypothesis "the error of `io.Copy` is tested before `err` is assigned
again" is needed: let `err = dstFile.Sync()` overwrite it and a copy that breaks off after 2 of 5 bytes is
reported as a success. -/
theorem copy_unchecked_counterexample :
    let c : Sys.CopyCode := { Sys.copyCode with copyKept := false }
    let d : Sys.Disk := fun p => if p = "k" then some [1, 2, 3, 4, 5] else none
    let r := Sys.copyWith c { copy := some 2 } d "k" "k.old/1"
    r.2 = .ok ∧ r.1 "k.old/1" = some [1, 2] := by decide

/-- **copy_error_leaves_prefix.** A `Copy` that returns an error changed nothing, or – when its clean-up does not
remove the destination – left a prefix of the source under the destination name. -/
theorem copy_error_leaves_prefix (f : Sys.CopyFaults) (d : Sys.Disk) (src dst : Sys.Path) (h : (Sys.copy f d src dst).2 = .err) :
    (Sys.copy f d src dst).1 = d ∨
      (¬ (Sys.copyCode.removesDst = true ∧ f.remove = false) ∧ d dst = none ∧
        ∃ s n, d src = some s ∧ (Sys.copy f d src dst).1 = upd d dst (some (s.take n))) :=
  Sys.copyWith_err _ f d src dst h

/-- **rotation_ok_keeps_previous_key.** `WriteKeyFile` over the same file map, with `backupHistoricalKeyFile`
inlined and `Copy` at system-call level: when the rotation of an existing key file returns `nil`, the key file
holds the new data AND the history name holds the complete previous content – for every fault at every storage
call, every fault inside the history copy, with hard links or without. -/
theorem rotation_ok_keeps_previous_key (e : Sys.WkfEnv) (he : e.Distinct) (f : Sys.WkfFaults) (d : Sys.Disk)
    (data old : Bytes) (hold : d e.file = some old) (h : (Sys.writeKeyFileWith Sys.copyCode e f d data).2 = .ok) :
    (Sys.writeKeyFileWith Sys.copyCode e f d data).1 e.file = some data ∧
    (Sys.writeKeyFileWith Sys.copyCode e f d data).1 e.backup = some old :=
  Sys.writeKeyFileWith_ok _ copy_code_kept e he f d data old hold h

/-- **rotation_error_keeps_current_key.** And when it returns an error the key file is what it was. -/
theorem rotation_error_keeps_current_key (e : Sys.WkfEnv) (he : e.Distinct) (f : Sys.WkfFaults) (d : Sys.Disk)
    (data : Bytes) (h : (Sys.writeKeyFileWith Sys.copyCode e f d data).2 = .err) :
    (Sys.writeKeyFileWith Sys.copyCode e f d data).1 e.file = d e.file :=
  Sys.writeKeyFileWith_err _ e he f d data h

/-- **v1_nolink_rotation_atomic.** The call-level form, on a storage without hard links (every history entry is
made by `Copy`), for every state of the store, every single-file key, every size of the key file and every file
size limit the copy may hit: a rotation that reports success has the new generation current and the previous
content complete in the history; one that reports an error left the current key alone. -/
theorem v1_nolink_rotation_atomic (st : V1) (s : Slot) (len : Nat) (limit : Option Nat) (c0 : Content)
    (hc0 : st.fs.cur (privFile s) = some c0) :
    ((Sys.V1.genNoLink Sys.copyCode st s len limit).2.2 = .ok →
      (Sys.V1.genNoLink Sys.copyCode st s len limit).1.fs.cur (privFile s) = some (.full (st.count s + 1)) ∧
      ∃ t, (t, c0) ∈ (Sys.V1.genNoLink Sys.copyCode st s len limit).1.fs.old (privFile s)) ∧
    ((Sys.V1.genNoLink Sys.copyCode st s len limit).2.2 = .err →
      (Sys.V1.genNoLink Sys.copyCode st s len limit).1.fs.cur (privFile s) = some c0) :=
  ⟨Sys.V1.genNoLink_ok _ copy_code_kept st s len limit c0 hc0, Sys.V1.genNoLink_err _ st s len limit c0 hc0⟩

/-- **copy_partial_history_counterexample** (known finding `v1:partial-history-copy`, repair offered as
repo-patches/53). With a clean-up that does not remove the destination, a history copy that hits the limit after
10 of 76 bytes makes the rotation fail – correctly – but leaves a truncated file under a history name: the key
that was current still reads, "all keys" of the slot does not any more. With the removing clean-up the failed
rotation leaves the storage as it was. -/
theorem copy_partial_history_counterexample :
    let st := ((V1.init (-1)).run [.gen ss0, .gen ss0]).1
    let keep := Sys.V1.genNoLink { Sys.copyCode with removesDst := false } st ss0 76 (some 10)
    let clean := Sys.V1.genNoLink { Sys.copyCode with removesDst := true } st ss0 76 (some 10)
    keep.2.2 = .err ∧ (keep.1.clear.step (.cur ss0)).2 = .key 2 ∧ (keep.1.clear.step (.all ss0)).2 = .err ∧
    clean.2.2 = .err ∧ (clean.1.clear.step (.all ss0)).2 = .keys [2, 1] := by decide +kernel

/-! ## non-vacuity -/

/-- the freshness hypothesis holds initially and after a completed write -/
example : FS.init.TmpFresh := by intro t ht; simp [FS.init] at ht

example : (applyAll FS.init (writeKeyFileCalls FS.init (privFile ss0) (.full 1))).1.cur (privFile ss0) = some (.full 1) := by
  have h := (v1_write_complete FS.init (privFile ss0) (.full 1) (by intro t ht; simp [FS.init] at ht)).2.1
  rw [h]; simp

/-- the hypotheses of `v2_write_op_atomic` are satisfiable: a slot generated twice, fault at call 7 -/
example :
    (∀ o ∈ [Op.gen ss0, .gen ss0], o.isDcur = false ∧ o.idxOk = true) ∧ genFirst (fun _ => false) [Op.gen ss0, .gen ss0] = true ∧
    (V2.init.run [.gen ss0, .gen ss0]).1.count ss0 ≠ 0 := by decide +kernel

/-- an instance of `v1_write_op_atomic` where the fault bites: crash after the `Link` (call 5) of the
third generation – the old key 2 is current and in the history twice, nothing is lost -/
example :
    let st := ((V1.init (-1)).run [.gen ss0, .gen ss0]).1
    let fs' := (st.stepF ⟨.ca, 5⟩ (.gen ss0)).1.fs
    fs'.cur (privFile ss0) = some (.full 2) ∧ (fs'.old (privFile ss0)).map (·.2) = [.full 1, .full 2] := by decide +kernel

/-- the complete, fault-free run of the tool as it is leaves everything decryptable (two key ids, three files) -/
example :
    let fin := Rotate.exec Rotate.codeVariant ⟨.none, 0⟩ 0 .init (Rotate.codeEvents [(0, 2), (1, 1)])
    fin.2 = .ok ∧ fin.1.files 0 1 = some 1 ∧ fin.1.offered 0 = [1, 0] ∧ fin.1.files 1 0 = some 1 ∧ fin.1.offered 1 = [1, 0] := by decide +kernel

/-- an instance of `import_atomic_per_key` where the fault bites: a torn write of the second file of a
pair import – the private file is new, the public file still the old one, nothing is torn -/
example :
    let st := ((V1.init (-1)).run [.gen sp0]).1
    let cut := st.importF ⟨.torn, 6⟩ [privFile sp0, pubFile sp0]
    cut.2.2.2 = .crash ∧ cut.1.fs.cur (privFile sp0) = some (.full 2) ∧ cut.1.fs.cur (pubFile sp0) = some (.full 1) := by decide +kernel

/-- a handle operation that fails in the middle: `DestroyKey` with an error at `Put` leaves the log empty and
the stored ring untouched; the next `AddKey` through the same handle adds a key and destroys nothing -/
example :
    let st := (V2.init.run [.gen ss0, .gen ss0]).1
    let r := (H2.open st ss0).map fun h0 => H2.hops ⟨.err, 2⟩ ss0 h0 [.destroy 1, .add]
    (r.map fun p => (p.2, p.1.log, (p.1.x.st.rings ss0).map (·.keys.map (·.data)))) =
      some ([.err, .ok], [], some [some 1, some 2, some 3]) := by decide +kernel

/-- a `Put` whose `write(2)` fails after 3 bytes: error returned, directory unchanged, retry succeeds -/
example :
    let e : Sys.PutEnv := ⟨"ring.new", "/keys/ring.new"⟩
    let r := Sys.put e { write := some 3 } (fun _ => none) [1, 2, 3, 4, 5]
    r.2 = .err ∧ r.1 e.fullPath = none ∧ (Sys.put e Sys.PutFaults.none r.1 [1, 2, 3, 4, 5]).2 = .ok := by decide

/-- the hypotheses of `rotation_ok_keeps_previous_key` are satisfiable, also on the `Copy` path -/
example :
    let e : Sys.WkfEnv := ⟨"k", "k123", "k.old/t"⟩
    let d : Sys.Disk := fun p => if p = "k" then some [1, 2] else none
    (Sys.writeKeyFileWith Sys.copyCode e { link := true } d [3, 4]).2 = .ok ∧
    (Sys.writeKeyFileWith Sys.copyCode e { link := true, copy := { copy := some 1 } } d [3, 4]).2 = .err := by decide

end AcraModel.Props.C08
