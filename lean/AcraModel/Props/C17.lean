import AcraModel.KeystoreSec.ConcurrentSeq
/-!
# C17 — concurrent keystore writers never lose each other's updates

Property theorems only; the model is `KeystoreSec/Concurrent.lean` (handles as programs of back-end
calls over one shared back end), the invariant proof is in `KeystoreSec/ConcurrentLemmas.lean`.
All theorems quantify over **every schedule** (`sched : List Nat`, any interleaving of any number
of threads at the granularity of single back-end calls) and every program of operations per thread.
-/
namespace AcraModel.Props.C17
open AcraModel AcraModel.KeystoreSec.Conc

/-! ## facts the model needs from the source (regenerated on every run) -/
open Generated.KeystoreSec in
/-- The state-transition table the model's `prepare` consults is the one of
`api.KeyStateTransitionValid`: destroyed is terminal, a key can be destroyed only from pre-active,
deactivated or compromised. -/
theorem fact_transitions :
    transitions = [(1, [2, 4, 5, 6]), (2, [3, 4, 5]), (3, [2, 4, 5]), (4, [5, 6]), (5, [6])] ∧
    asnKeyPreActive = 1 ∧ asnKeyDestroyed = 6 ∧ asnNoKey = -1 ∧ firstSeqnum = 1 := by decide

open Generated.KeystoreSec in
/-- The write cycle is the program of back-end calls the model runs: `Lock` first and `Unlock`
deferred (always executed), then pull (`Get` → verify → load), apply the pending transactions, push
(sign → `Put <ring>.keyring.new` → `Rename` onto `<ring>.keyring`), commit. The read cycle is
`RLock`, deferred `RUnlock`, pull. Every mutating ring method pushes its transactions, syncs and pops
them again on error. -/
theorem fact_write_cycle :
    writeKeyRingCalls = ["s.fs.Lock", "defer:s.fs.Unlock", "s.pullRingUpdates", "ring.applyPendingTX", "s.pushNewRingState", "ring.commitTX"] ∧
    readKeyRingCalls = ["s.fs.RLock", "defer:s.fs.RUnlock", "s.pullRingUpdates"] ∧
    pullRingUpdatesCalls = ["s.fetchASNring", "s.verifyKeyRing", "ring.loadASN1"] ∧
    fetchASNringCalls = ["s.fs.Get"] ∧
    pushNewRingStateCalls = ["s.signKeyRing", "s.pushASNring"] ∧
    pushASNringCalls = ["s.fs.Put", "s.fs.Rename"] ∧ pushASNringPutPath = ["newPath"] ∧
    keyringSuffix = ".keyring" ∧ newSuffix = ".new" ∧
    addKeyCalls = ["r.pushTX", "r.store.syncKeyRing", "r.popTX"] ∧
    setCurrentCalls = ["r.pushTX", "r.store.syncKeyRing", "r.popTX"] ∧
    changeKeyStateCalls = ["r.pushTX", "r.store.syncKeyRing", "r.popTX"] ∧
    destroyKeyCalls = ["r.pushTX", "r.pushTX", "r.store.syncKeyRing", "r.popTX", "r.popTX"] := by decide

/-- the model's own constants agree with the regenerated ones -/
theorem fact_model_constants :
    noKey = Generated.KeystoreSec.asnNoKey ∧ (stPreActive : Int) = Generated.KeystoreSec.asnKeyPreActive ∧
    (stDestroyed : Int) = Generated.KeystoreSec.asnKeyDestroyed ∧
    (⟨[], noKey⟩ : Ring).nextSeq = Generated.KeystoreSec.firstSeqnum := by decide

/-- an initial state: nobody holds a lock, no temporary file, nothing committed yet, every handle idle
with an arbitrary (possibly stale) snapshot and an arbitrary program -/
structure Initial (s : St) : Prop where
  writer : s.writer = none
  readers : s.readers = []
  new : ∀ p, s.new p = none
  commits : s.commits = []
  idle : ∀ i, (s.h i).pc = .idle
  done : ∀ i, (s.h i).done = []

theorem initial_inv (s : St) (h : Initial s) : Inv s.cur s where
  holder := by intro i hi; simp [inCS, h.idle i] at hi
  rd := by intro i; simp [h.readers, isReader, h.idle i]
  rdNodup := by simp [h.readers]
  excl := by intro hc; exact absurd h.writer hc
  todoW := by intro i hi; simp [inCS, h.idle i] at hi
  todoR := by intro i hi; simp [isReader, h.idle i] at hi
  gotOk := by intro i hi; simp [h.idle i] at hi
  putOk := by intro i hi; simp [h.idle i] at hi
  noNew := by intro p hp; exact absurd (h.new p) hp
  lin := by intro p; simp [commitsOn, h.commits, replay]
  mine := by intro i; simp [commitsBy, h.commits, h.done i, okWrites, h.idle i]

/-- **Mutual exclusion.** Under every schedule at most one handle is between `Lock` and `Unlock`, and
while one is, no reader holds the shared lock. -/
theorem mutual_exclusion (s0 : St) (h0 : Initial s0) (sched : List Nat) (i j : Nat) :
    let s := run s0 sched
    (inCS (s.h i).pc → inCS (s.h j).pc → i = j) ∧ (inCS (s.h i).pc → s.readers = []) := by
  intro s
  have hinv := run_inv s0.cur s0 sched (initial_inv s0 h0)
  refine ⟨fun hi hj => cs_unique hinv hj hi, fun hi => ?_⟩
  have := hinv.holder i hi
  exact hinv.excl (by rw [this]; simp)

/-- **Linearisability, no lost update.** Under every schedule, for every ring path the stored ring
equals the sequential application – in the order of the atomic renames – of exactly the committed
transaction lists to the initial ring, every one of them applying successfully (the optimistic
checks held at commit time). -/
theorem v2_linearizable (s0 : St) (h0 : Initial s0) (sched : List Nat) (p : Nat) :
    let s := run s0 sched
    replay (s0.cur p) (commitsOn s p) = some (s.cur p) :=
  (run_inv s0.cur s0 sched (initial_inv s0 h0)).lin p

/-- **Exactly once.** Under every schedule, the transaction lists committed by a handle are exactly
those of its operations that returned success, in program order, each once – plus the one in flight
between its rename and its unlock. Operations that returned an error (stale snapshot detected by
`errTxConcurrentModification` / `errTxKeyExists` / `errTxKeyNotFound`, or rejected before taking the
lock) are not in the commit log: they left no effect. -/
theorem success_iff_committed_once (s0 : St) (h0 : Initial s0) (sched : List Nat) (i : Nat) :
    let s := run s0 sched
    commitsBy s i = okWrites (s.h i).done ++ (if (s.h i).pc = .renamed then [(s.h i).txs] else []) :=
  (run_inv s0.cur s0 sched (initial_inv s0 h0)).mine i

/-- corollary at quiescence: when handle `i` is idle its committed transaction lists are exactly its
successful operations -/
theorem quiescent_commits (s0 : St) (h0 : Initial s0) (sched : List Nat) (i : Nat)
    (hq : ((run s0 sched).h i).pc = .idle) :
    commitsBy (run s0 sched) i = okWrites ((run s0 sched).h i).done := by
  have := success_iff_committed_once s0 h0 sched i
  simp only [hq] at this
  simpa using this

/-- **Readers never see a partial write.** Under every schedule, whatever value any `Get` of a ring
file returns – to a reader under the shared lock or to a writer under the exclusive lock – is the
result of applying all transaction lists committed so far to the initial ring: a complete, committed
state (the half-written `<ring>.keyring.new` is never what a `Get` of `<ring>.keyring` returns). -/
theorem reader_sees_complete_ring (s0 : St) (h0 : Initial s0) (sched : List Nat) (i p : Nat) (v : Ring)
    (hget : (stepCall (run s0 sched) i).2 = .get p v) :
    replay (s0.cur p) (commitsOn (run s0 sched) p) = some v := by
  have hinv := run_inv s0.cur s0 sched (initial_inv s0 h0)
  have hl := hinv.lin
  generalize run s0 sched = s at *
  unfold stepCall at hget
  simp only at hget
  split at hget
  · repeat' split at hget
    all_goals simp at hget
  · split at hget <;> (simp at hget; obtain ⟨rfl, rfl⟩ := hget; exact hl _)
  · repeat' split at hget
    all_goals simp at hget
  · split at hget <;> simp at hget
  · simp at hget
  · simp at hget
  · simp at hget; obtain ⟨rfl, rfl⟩ := hget; exact hl _
  · simp at hget

/-- **A stale snapshot is safe.** Whatever snapshot a handle holds when it starts an operation, once
it has read the ring under the lock its snapshot is the stored ring, and what it then writes is its
transaction list applied to the *stored* ring (never to the stale one). -/
theorem stale_snapshot_safe (s0 : St) (h0 : Initial s0) (sched : List Nat) (i : Nat) :
    let s := run s0 sched
    ((s.h i).pc = .got → (s.h i).snap = s.cur (s.h i).path) ∧
    ((s.h i).pc = .put → s.new (s.h i).path = some (s.h i).snap ∧
        applyAll (s.h i).txs (s.cur (s.h i).path) = some (s.h i).snap) := by
  intro s
  have hinv := run_inv s0.cur s0 sched (initial_inv s0 h0)
  exact ⟨fun h => (hinv.gotOk i h).1, fun h => hinv.putOk i h⟩

/-- **Sequence numbers stay unique** (`seqnums_unique_increasing`, partial). If the initial rings
have pairwise different sequence numbers and imported key lists do too, then under every schedule
every stored ring has pairwise different sequence numbers.

*Partial:* the statement also says "increasing". What is missing for a proof: an invariant relating
every handle's stale snapshot to the stored ring (the snapshot's key list is a prefix of the stored
one and both are numbered 1..n), so that the sequence number a stale handle computes before locking
is either present in the stored ring (→ `errTxKeyExists`) or its successor. That invariant holds
only without import-overwrite: `txSetKeys` may shrink a ring, after which a stale handle can append
a number *below* the last one (stored 1,2,6 + stale snapshot 1,2 ⇒ 1,2,6,3 – unique, not
increasing; reachable only with an `ImportOverwrite` delegate, which Acra never installs). The
increasing order is checked on every final ring of every executed schedule by the oracle
`seqnum-order` and by trace validation. -/
theorem seqnums_unique_increasing_partial (s0 : St) (h0 : Initial s0) (hok : ∀ p, RingOK (s0.cur p))
    (hops : ∀ i, ∀ op ∈ (s0.h i).todo, OpOK op) (htx : ∀ i, (s0.h i).txs = [])
    (sched : List Nat) (p : Nat) :
    RingOK ((run s0 sched).cur p) := by
  have hinv := run_inv s0.cur s0 sched (initial_inv s0 h0)
  have ht0 : TxInv s0 := ⟨hops, by intro i t ht; simp [htx i] at ht, by intro c hc; simp [h0.commits] at hc⟩
  have ht := run_txinv s0 sched ht0
  refine replay_ok _ _ _ ?_ (hok p) (hinv.lin p)
  intro ts hts t htt
  simp only [commitsOn, List.mem_map, List.mem_filter] at hts
  obtain ⟨c, ⟨hc, _⟩, rfl⟩ := hts
  exact ht.commits c hc t htt

/-! ## non-vacuity: a concrete race -/

/-- two handles (threads 0 and 1) on ring 0, both with the same empty snapshot, each adding a key -/
def demo : St where
  cur := fun _ => ⟨[], noKey⟩
  new := fun _ => none
  writer := none
  readers := []
  h := fun i => ⟨0, ⟨[], noKey⟩, [], if i = 0 then [.addKey 10] else if i = 1 then [.addKey 11, .addKey 12] else [], [], .idle⟩
  commits := []

example : Initial demo := ⟨rfl, rfl, fun _ => rfl, rfl, fun _ => rfl, fun _ => rfl⟩

/-- thread 1 loses the race with a stale snapshot (its seqnum 1 exists: `errTxKeyExists`), its
retry with the refreshed snapshot succeeds: the final ring holds 10 then 12 with seqnums 1, 2 -/
example : (run demo [0, 1, 0, 0, 0, 0, 1, 1, 1, 1, 1, 1, 1, 1]).cur 0 = ⟨[⟨1, 1, 10⟩, ⟨2, 1, 12⟩], noKey⟩ := by rfl

example : ((run demo [0, 1, 0, 0, 0, 0, 1, 1, 1, 1, 1, 1, 1, 1]).h 1).done.map (·.2.isSome) = [false, true] := by rfl

/-! ## known finding: concurrent imports of one ring -/

/-- two handles, both with the snapshot of the freshly created empty ring, each importing its own key list -/
def importRace : St where
  cur := fun _ => ⟨[], noKey⟩
  new := fun _ => none
  writer := none
  readers := []
  h := fun i => ⟨0, ⟨[], noKey⟩, [], if i = 0 then [.importKeys [⟨1, 1, 10⟩] noKey] else if i = 1 then [.importKeys [⟨1, 1, 11⟩] noKey] else [], [], .idle⟩
  commits := []

/-- **Known finding (C17, `import-race-lost-update`).** `txSetKeys` carries no optimistic check:
when two handles import into the same ring at the same time both operations succeed and the key
list of the first is overwritten – the keys of a *successful* import are gone. (Linearisability in
the sense of `v2_linearizable` still holds – the stored ring is the replay of both commits – but
sequentially the second import is refused with `ErrKeyRingExists`; the check that refuses it runs
outside the lock that protects the write.) Replayed on the real key store by the harness
(`mode:import-race`, every schedule). -/
theorem import_race_counterexample :
    let s := run importRace [0, 0, 0, 0, 0, 1, 1, 1, 1, 1]
    (s.h 0).done.map (·.2.isSome) = [true] ∧ (s.h 1).done.map (·.2.isSome) = [true] ∧
    s.cur 0 = ⟨[⟨1, 1, 11⟩], noKey⟩ := by
  refine ⟨by rfl, by rfl, by rfl⟩

end AcraModel.Props.C17
