import AcraModel.KeystoreSec.ConcurrentSeq
import AcraModel.KeystoreSec.ConcurrentOrder
import AcraModel.KeystoreSec.ConcurrentRefine
import AcraModel.KeystoreSec.ConcurrentFresh
import AcraModel.KeystoreSec.ConcurrentCreate
import AcraModel.KeystoreSec.ConcurrentLock
import AcraModel.KeystoreSec.FileLockLemmas
import AcraModel.KeystoreSec.ConcurrentCurrent
import AcraModel.Generated.KeystoreCreate
import AcraModel.Generated.FileLock
/-!
# C17 — concurrent keystore writers never lose each other's updates

Property theorems only; the model is `KeystoreSec/Concurrent.lean` (handles as programs of back-end
calls over one shared back end), the invariant proofs are in `KeystoreSec/ConcurrentLemmas.lean` (locks, files, commit log),
`KeystoreSec/ConcurrentOrder.lean` (snapshot-prefix invariant), `KeystoreSec/ConcurrentRefine.lean`
(simulation by the atomic key store) and `KeystoreSec/ConcurrentCreate.lean` (ring creation, kept `AddKey`s).
Ring files may be missing at the start (`St.ex`); `OpenKeyRingRW` (`Op.open`) creates them.
All theorems quantify over **every schedule** (`sched : List Nat`, any interleaving of any number
of threads at the granularity of single back-end calls) and every program of operations per thread.

The lock itself is one abstract object in that model. The last part of this file ("the lock file's life
cycle") is about what the directory back end really locks – the inode of `<dir>/.lock`, through one descriptor
per handle – for every history of handles being opened and closed (`KeystoreSec/FileLock.lean`, invariants in
`KeystoreSec/FileLockLemmas.lean`, the tie to the abstract lock in `KeystoreSec/ConcurrentLock.lean`).
-/
namespace AcraModel.Props.C17
open AcraModel AcraModel.KeystoreSec.Conc

/-! ## facts the model needs from the source (regenerated on every run) -/
open Generated.KeystoreSec in
/-- The state-transition table the model's `prepare` consults is the one of
`api.KeyStateTransitionValid`: destroyed is terminal, a key can be destroyed only from pre-active,
deactivated or compromised. -/
theorem fact_transitions :
    transitions = [(1, [2, 4, 5, 6]), (2, [3, 4, 5]), (3, [2, 4, 5]), (4, [5, 6]), (5, [6])] ∧
    asnKeyPreActive = 1 ∧ asnKeyDestroyed = 6 ∧ asnNoKey = -1 ∧ firstSeqnum = 1 := by decide

open Generated.KeystoreSec in
/-- The write cycle is the program of back-end calls the model runs: `Lock` first and `Unlock`
deferred (always executed), then pull (`Get` → verify → load), apply the pending transactions, push
(sign → `Put <ring>.keyring.new` → `Rename` onto `<ring>.keyring`), commit. The read cycle is
`RLock`, deferred `RUnlock`, pull. Every mutating ring method pushes its transactions, syncs and pops
them again on error. -/
theorem fact_write_cycle :
    writeKeyRingCalls = ["s.fs.Lock", "defer:s.fs.Unlock", "s.pullRingUpdates", "ring.applyPendingTX", "s.pushNewRingState", "ring.commitTX"] ∧
    readKeyRingCalls = ["s.fs.RLock", "defer:s.fs.RUnlock", "s.pullRingUpdates"] ∧
    pullRingUpdatesCalls = ["s.fetchASNring", "s.verifyKeyRing", "ring.loadASN1"] ∧
    fetchASNringCalls = ["s.fs.Get"] ∧
    pushNewRingStateCalls = ["s.signKeyRing", "s.pushASNring"] ∧
    pushASNringCalls = ["s.fs.Put", "s.fs.Rename"] ∧ pushASNringPutPath = ["newPath"] ∧
    keyringSuffix = ".keyring" ∧ newSuffix = ".new" ∧
    addKeyCalls = ["r.pushTX", "r.store.syncKeyRing", "r.popTX"] ∧
    setCurrentCalls = ["r.pushTX", "r.store.syncKeyRing", "r.popTX"] ∧
    changeKeyStateCalls = ["r.pushTX", "r.store.syncKeyRing", "r.popTX"] ∧
    destroyKeyCalls = ["r.pushTX", "r.pushTX", "r.store.syncKeyRing", "r.popTX", "r.popTX"] := by decide

open Generated.KeystoreCreate in
/-- Ring creation is the program of back-end calls the model runs for `Op.open`: `OpenKeyRingRW` makes a
fresh handle object (`newKeyRing`: no keys, current marker `asn1.NoKey` – the model's `emptyRing`) and calls
`openKeyRing`, which takes the EXCLUSIVE lock first (`Unlock` deferred), pulls the ring under it, and
pushes the fresh handle's ring only inside `if err != nil { if err == backend.ErrNotExist {…} }` of that
very pull: the existence check and the creation happen under one lock, with no read/write cycle of its own
(no shared-lock pre-check) before it. `OpenKeyRing` is a fresh handle object plus the read cycle. -/
theorem fact_open_cycle :
    openCycleCalls = ["s.fs.Lock", "defer:s.fs.Unlock", "s.pullRingUpdates", "s.pushNewRingState"] ∧
    openCreateGuard = ["err != nil", "err == backend.ErrNotExist"] ∧
    openErrAssigns = ["err=s.fs.Lock()", "err2=s.fs.Unlock()", "err=err2", "err=s.pullRingUpdates()"] ∧
    openKeyRingRWCalls = ["newKeyRing", "s.openKeyRing"] ∧
    openKeyRingROCalls = ["newKeyRing", "s.readKeyRing"] ∧
    newKeyRingData = ["Purpose=asn1.LikelyUTF8String(path)", "Keys=make([]asn1.Key, 0)", "Current=asn1.NoKey"] ∧
    emptyRing = ⟨[], noKey⟩ := by decide

open Generated.KeystoreSec in
/-- The optimistic checks are the ones `Tx.apply` models, on the values `prepare` takes from the handle's
view: `KeyRing.setCurrent` records the current marker **the handle sees** (`r.data.Current`, before the
ring is pulled from the store) in the transaction, and `txSetKeyCurrent.Apply` refuses
(`errTxConcurrentModification`) when the marker found in the pulled ring is a different one, then
requires both keys to exist; `txChangeKeyState.Apply` refuses when the key's state is not the one seen;
`txAddKey.Apply` refuses a sequence number that is taken; `nextSeqnum` is "last key + 1". -/
theorem fact_optimistic_checks :
    setCurrentBody = ["oldSeqnum := r.data.Current", "r.pushTX(&txSetKeyCurrent{oldSeqnum, newSeqnum})", "err := r.store.syncKeyRing(r)", "if err != nil { r.popTX() }", "return err"] ∧
    txSetKeyCurrentApply = ["if ring.data.Current != tx.oldSeqnum { return errTxConcurrentModification }", "if tx.oldSeqnum != asn1.NoKey { oldKey, _ := ring.data.KeyWithSeqnum(tx.oldSeqnum) if oldKey == nil { return errTxKeyNotFound } }", "newKey, _ := ring.data.KeyWithSeqnum(tx.newSeqnum)", "if newKey == nil { return errTxKeyNotFound }", "ring.data.Current = tx.newSeqnum", "return nil"] ∧
    txChangeKeyStateApply = ["key, _ := ring.data.KeyWithSeqnum(tx.keySeqnum)", "if key == nil { return errTxKeyNotFound }", "oldState := asn1.KeyState(tx.oldState)", "newState := asn1.KeyState(tx.newState)", "if key.State != oldState { return errTxConcurrentModification }", "key.State = newState", "return nil"] ∧
    txAddKeyApply = ["k, _ := ring.data.KeyWithSeqnum(tx.newKey.Seqnum)", "if k != nil { return errTxKeyExists }", "ring.data.Keys = append(ring.data.Keys, *tx.newKey)", "return nil"] ∧
    nextSeqnumBody = ["if len(r.data.Keys) == 0 { return firstSeqnum }", "return r.data.Keys[len(r.data.Keys)-1].Seqnum + 1"] := by
  refine ⟨by rfl, by rfl, by rfl, by rfl, by rfl⟩

/-- the model's own constants agree with the regenerated ones -/
theorem fact_model_constants :
    noKey = Generated.KeystoreSec.asnNoKey ∧ (stPreActive : Int) = Generated.KeystoreSec.asnKeyPreActive ∧
    (stDestroyed : Int) = Generated.KeystoreSec.asnKeyDestroyed ∧
    (⟨[], noKey⟩ : Ring).nextSeq = Generated.KeystoreSec.firstSeqnum := by decide

/-- an initial state: nobody holds a lock, no temporary file, nothing committed yet, every handle idle
with an arbitrary (possibly stale) snapshot and an arbitrary program -/
structure Initial (s : St) : Prop where
  writer : s.writer = none
  readers : s.readers = []
  new : ∀ p, s.new p = none
  commits : s.commits = []
  idle : ∀ i, (s.h i).pc = .idle
  done : ∀ i, (s.h i).done = []
  /-- representation convention: the content of a ring file that does not exist is the empty ring -/
  missing : ∀ p, s.ex p = false → s.cur p = emptyRing

theorem initial_inv (s : St) (h : Initial s) : Inv s.cur s where
  holder := by intro i hi; simp [inCS, h.idle i] at hi
  rd := by intro i; simp [h.readers, isReader, h.idle i]
  rdNodup := by simp [h.readers]
  excl := by intro hc; exact absurd h.writer hc
  todoW := by intro i hi; simp [inCS, h.idle i] at hi
  todoR := by intro i hi; simp [isReader, h.idle i] at hi
  gotOk := by intro i hi; simp [h.idle i] at hi
  putOk := by intro i hi; simp [h.idle i] at hi
  noNew := by intro p hp; exact absurd (h.new p) hp
  lin := by intro p; simp [commitsOn, h.commits, replay]
  mine := by intro i; simp [commitsBy, h.commits, h.done i, okWrites, h.idle i]
  miss := by intro p hp; exact ⟨h.missing p hp, by simp [commitsOn, h.commits]⟩
  crt := by intro i hi; simp [h.idle i] at hi

/-- **Mutual exclusion.** Under every schedule at most one handle is between `Lock` and `Unlock`, and
while one is, no reader holds the shared lock. -/
theorem mutual_exclusion (s0 : St) (h0 : Initial s0) (sched : List Nat) (i j : Nat) :
    let s := run s0 sched
    (inCS (s.h i).pc → inCS (s.h j).pc → i = j) ∧ (inCS (s.h i).pc → s.readers = []) := by
  intro s
  have hinv := run_inv s0.cur s0 sched (initial_inv s0 h0)
  refine ⟨fun hi hj => cs_unique hinv hj hi, fun hi => ?_⟩
  have := hinv.holder i hi
  exact hinv.excl (by rw [this]; simp)

/-- **Linearisability as a refinement, no lost update.** Under every schedule the concurrent key store
refines the *atomic* key store, in which each handle operation is one indivisible step
(`atomicOp`: prepare the transactions from the handle's snapshot, apply them to the stored ring; success
stores the new ring, a failed optimistic check only refreshes the snapshot, a rejected operation and a
re-read store nothing). `linTrace s0 sched` lists the operations in the order of their linearisation
points – each a step of the operation's own thread between its first and last step: the atomic
`Rename` of a successful write, the `Get` under the lock of a failing write or of a re-read, the
preparation of a rejected one. With `a` the atomic store after running `linTrace s0 sched`
sequentially from the same rings and snapshots:

1. the stored state is the sequential one: `s.cur p = a.cur p` for every ring path;
2. the successful writes of the sequential run are exactly the commit log, in rename order, and for
   every ring path the stored ring is the fold of the committed transaction lists over the initial ring
   (every one applying successfully – no update is lost, none is applied twice);
3. every operation returned what the sequential run returned at its linearisation point: per thread,
   the results of the sequential run are the thread's finished operations with their results, in
   program order, followed by the one operation that has passed its linearisation point but not yet
   unlocked (`pending`; empty for an idle handle);
4. handles that are not in the middle of a write hold the snapshot the sequential run gives them. -/
theorem v2_linearizable (s0 : St) (h0 : Initial s0) (sched : List Nat) :
    let s := run s0 sched
    let a := atomicRun (AState.init s0) (linTrace s0 sched)
    (∀ p, s.cur p = a.cur p) ∧
    (committed a.log = s.commits ∧ ∀ p, replay (s0.cur p) (commitsOn s p) = some (s.cur p)) ∧
    (∀ i, resultsOf a.log i = (s.h i).done ++ pending (s.h i)) ∧
    (∀ i, (s.h i).pc ≠ .got → (s.h i).pc ≠ .put → (s.h i).snap = a.snap i) := by
  intro s a
  have hinv0 := initial_inv s0 h0
  have hsim0 : Sim s0 (AState.init s0) :=
    ⟨fun _ => rfl, fun _ _ _ => rfl, by intro i hi; simp [h0.idle i] at hi,
     by intro i; simp [resultsOf, AState.init, h0.done i, pending_of_pc (s0.h i) (by simp [h0.idle i])],
     by simp [committed, AState.init, h0.commits], fun _ => rfl⟩
  have hsim := run_sim s0.cur s0 _ sched hinv0 hsim0
  have hinv := run_inv s0.cur s0 sched hinv0
  exact ⟨fun p => (hsim.cur p).symm, ⟨hsim.commits, hinv.lin⟩, hsim.res, fun i h1 h2 => (hsim.snap i h1 h2).symm⟩

/-- corollary at quiescence: when handle `i` is idle, the results of its operations in the sequential
run are exactly the results its finished operations returned -/
theorem quiescent_results (s0 : St) (h0 : Initial s0) (sched : List Nat) (i : Nat)
    (hq : ((run s0 sched).h i).pc = .idle) :
    resultsOf (atomicRun (AState.init s0) (linTrace s0 sched)).log i = ((run s0 sched).h i).done := by
  have := (v2_linearizable s0 h0 sched).2.2.1 i
  rw [pending_of_pc _ (by simp [hq])] at this
  simpa using this

/-- **Exactly once.** Under every schedule, the transaction lists committed by a handle are exactly
those of its operations that returned success, in program order, each once – plus the one in flight
between its rename and its unlock. Operations that returned an error (stale snapshot detected by
`errTxConcurrentModification` / `errTxKeyExists` / `errTxKeyNotFound`, or rejected before taking the
lock) are not in the commit log: they left no effect. -/
theorem success_iff_committed_once (s0 : St) (h0 : Initial s0) (sched : List Nat) (i : Nat) :
    let s := run s0 sched
    commitsBy s i = okWrites (s.h i).done ++ (if (s.h i).pc = .renamed then [(s.h i).txs] else []) :=
  (run_inv s0.cur s0 sched (initial_inv s0 h0)).mine i

/-- corollary at quiescence: when handle `i` is idle its committed transaction lists are exactly its
successful operations -/
theorem quiescent_commits (s0 : St) (h0 : Initial s0) (sched : List Nat) (i : Nat)
    (hq : ((run s0 sched).h i).pc = .idle) :
    commitsBy (run s0 sched) i = okWrites ((run s0 sched).h i).done := by
  have := success_iff_committed_once s0 h0 sched i
  simp only [hq] at this
  simpa using this

/-- **Readers never see a partial write.** Under every schedule, whatever value any `Get` of a ring
file returns – to a reader under the shared lock or to a writer under the exclusive lock – is the
result of applying all transaction lists committed so far to the initial ring: a complete, committed
state (the half-written `<ring>.keyring.new` is never what a `Get` of `<ring>.keyring` returns). -/
theorem reader_sees_complete_ring (s0 : St) (h0 : Initial s0) (sched : List Nat) (i p : Nat) (v : Ring)
    (hget : (stepCall (run s0 sched) i).2 = .get p v) :
    replay (s0.cur p) (commitsOn (run s0 sched) p) = some v := by
  have hinv := run_inv s0.cur s0 sched (initial_inv s0 h0)
  have hl := hinv.lin
  generalize run s0 sched = s at *
  have key : ∀ (c : Call), (stepCall s i).2 = c → ∀ p v, c = .get p v → v = s.cur p := by
    intro c hc p v hcv
    subst hcv
    unfold stepCall at hc
    simp only at hc
    repeat' split at hc
    all_goals first
      | (simp at hc; done)
      | (simp at hc; obtain ⟨rfl, rfl⟩ := hc; rfl)
  rw [key _ hget p v rfl]
  exact hl p

/-- **A stale snapshot is safe.** Whatever snapshot a handle holds when it starts an operation, once
it has read the ring under the lock its snapshot is the stored ring, and what it then writes is its
transaction list applied to the *stored* ring (never to the stale one). -/
theorem stale_snapshot_safe (s0 : St) (h0 : Initial s0) (sched : List Nat) (i : Nat) :
    let s := run s0 sched
    ((s.h i).pc = .got → (s.h i).snap = s.cur (s.h i).path) ∧
    ((s.h i).pc = .put → s.new (s.h i).path = some (s.h i).snap ∧
        applyAll (s.h i).txs (s.cur (s.h i).path) = some (s.h i).snap) := by
  intro s
  have hinv := run_inv s0.cur s0 sched (initial_inv s0 h0)
  exact ⟨fun h => (hinv.gotOk i h).1, fun h => hinv.putOk i h⟩

/-- **Sequence numbers stay unique – even with imports** (the part of `seqnums_unique_increasing` that
needs no exclusion). If the initial rings have pairwise different sequence numbers and imported key
lists do too, then under every schedule every stored ring has pairwise different sequence numbers.

*Partial* with respect to "increasing", which is false once imports run on the ring
(`import_overwrite_order_counterexample`, `import_stale_add_counterexample`); the full statement for
rings without imports is `seqnums_unique_increasing` below. -/
theorem seqnums_unique_increasing_partial (s0 : St) (h0 : Initial s0) (hok : ∀ p, RingOK (s0.cur p))
    (hops : ∀ i, ∀ op ∈ (s0.h i).todo, OpOK op) (htx : ∀ i, (s0.h i).txs = [])
    (sched : List Nat) (p : Nat) :
    RingOK ((run s0 sched).cur p) := by
  have hinv := run_inv s0.cur s0 sched (initial_inv s0 h0)
  have ht0 : TxInv s0 := ⟨hops, by intro i t ht; simp [htx i] at ht, by intro c hc; simp [h0.commits] at hc⟩
  have ht := run_txinv s0 sched ht0
  refine replay_ok _ _ _ ?_ (hok p) (hinv.lin p)
  intro ts hts t htt
  simp only [commitsOn, List.mem_map, List.mem_filter] at hts
  obtain ⟨c, ⟨hc, _⟩, rfl⟩ := hts
  exact ht.commits c hc t htt

/-- what `seqnums_unique_increasing` needs of the initial state, for the ring path `p`: the stored ring
is strictly increasing, every handle of that ring holds a snapshot that is a *prefix* of it – the stored
ring continues the snapshot with consecutive numbers from the snapshot's `nextSeqnum` on (true of a
freshly opened handle, and of any stale snapshot of a ring numbered `1..n`) – and no handle of that ring
imports key lists (the exclusion made by the known finding `import-race-lost-update` and by the
`ImportOverwrite` delegate; handles of *other* rings may import). -/
structure OrderedStart (s : St) (p : Nat) : Prop where
  incr : Incr (s.cur p)
  snap : ∀ i, (s.h i).path = p → SnapPrefix (s.h i).snap (s.cur p)
  noImport : ∀ i, (s.h i).path = p → ∀ op ∈ (s.h i).todo, NoImport op

/-- **Sequence numbers are unique and strictly increasing in ring order, for all schedules.** For a ring
on which no handle runs an import, under every schedule of any number of threads the stored ring's
sequence numbers are strictly increasing in ring order (hence pairwise different), and the
*snapshot-prefix invariant* holds throughout: every handle's possibly stale snapshot is a prefix of the
stored ring, continued by consecutive numbers – so the number a stale handle computes before taking the
lock is either present in the stored ring (→ `errTxKeyExists`) or the stored ring's own next number. -/
theorem seqnums_unique_increasing (s0 : St) (h0 : Initial s0) (p : Nat) (hp : OrderedStart s0 p) (sched : List Nat) :
    let s := run s0 sched
    Incr (s.cur p) ∧ RingOK (s.cur p) ∧
    ∀ i, (s.h i).path = p → (s.h i).pc ≠ .put → SnapPrefix (s.h i).snap (s.cur p) := by
  intro s
  have hinv := initial_inv s0 h0
  have h0o : OrdInv p s0 :=
    ⟨hp.incr, hp.noImport, fun i hi _ => hp.snap i hi,
     by intro i _ hc; rcases hc with hc | hc <;> simp [h0.idle i] at hc,
     by intro i _ hc; simp [h0.idle i] at hc⟩
  have ho := run_ord s0.cur p s0 sched hinv h0o
  exact ⟨ho.incr, incr_nodup _ ho.incr, ho.pre⟩

/-- the same for freshly opened handles: every handle of ring `p` starts with the stored ring as its
snapshot (what opening a ring gives) -/
theorem seqnums_unique_increasing_fresh (s0 : St) (h0 : Initial s0) (p : Nat) (hi : Incr (s0.cur p))
    (hfresh : ∀ i, (s0.h i).path = p → (s0.h i).snap = s0.cur p)
    (hno : ∀ i, (s0.h i).path = p → ∀ op ∈ (s0.h i).todo, NoImport op) (sched : List Nat) :
    Incr ((run s0 sched).cur p) :=
  (seqnums_unique_increasing s0 h0 p ⟨hi, fun i h => by rw [hfresh i h]; exact snapPrefix_refl _, hno⟩ sched).1

/-- the same for rings numbered `1..n` (what `AddKey` alone produces) and arbitrarily stale snapshots
of them (numbered `1..m`, `m ≤ n`) -/
theorem seqnums_unique_increasing_numbered (s0 : St) (h0 : Initial s0) (p : Nat) (n : Nat)
    (hcur : (s0.cur p).seqs = runFrom 1 n)
    (hsnap : ∀ i, (s0.h i).path = p → ∃ m, m ≤ n ∧ (s0.h i).snap.seqs = runFrom 1 m)
    (hno : ∀ i, (s0.h i).path = p → ∀ op ∈ (s0.h i).todo, NoImport op) (sched : List Nat) :
    Incr ((run s0 sched).cur p) := by
  refine (seqnums_unique_increasing s0 h0 p ⟨?_, ?_, hno⟩ sched).1
  · unfold Incr
    rw [hcur]
    have : ∀ (a : Int) (k : Nat), (runFrom a k).Pairwise (· < ·) := by
      intro a k
      induction k generalizing a with
      | zero => simp [runFrom]
      | succ k ih =>
        rw [runFrom_snoc]
        have h1 := incr_snoc (runFrom a k) (ih a)
        cases k with
        | zero => simp [runFrom]
        | succ k =>
          have : nextOf (runFrom a (k + 1)) = a + (k + 1 : Nat) := by rw [runFrom_snoc, nextOf_snoc]; omega
          rw [this] at h1
          exact h1
    exact this 1 n
  · intro i hi
    obtain ⟨m, hmn, hm⟩ := hsnap i hi
    exact snapPrefix_of_numbered _ _ m (n - m) hm (by rw [hcur]; congr 1; omega)

/-- **A stale snapshot is safe, strong form: it either fails or does what a fresh handle does.** For a
ring without imports (`OrderedStart`), at every point of the sequential run that `v2_linearizable` relates
the concurrent execution to, the snapshot of every handle of the ring is a prefix of the stored ring;
therefore whenever the handle's next operation succeeds from that (possibly stale) snapshot, the same
operation started from a *fresh* snapshot of the stored ring prepares the same transactions, stores the
same ring and returns the same result. (An operation that fails its optimistic check from a stale
snapshot has no effect and refreshes the snapshot – `atomicOp`.) -/
theorem stale_success_is_fresh_success (s0 : St) (h0 : Initial s0) (p : Nat) (hp : OrderedStart s0 p) (sched : List Nat)
    (i : Nat) (hi : (s0.h i).path = p) :
    let a := atomicRun (AState.init s0) (linTrace s0 sched)
    SnapPrefix (a.snap i) (a.cur p) ∧
    ∀ op txs r' sn', atomicOp (a.cur p) (a.snap i) op = (r', sn', some txs) →
      atomicOp (a.cur p) (a.cur p) op = (r', sn', some txs) := by
  intro a
  have hinv0 := initial_inv s0 h0
  have hsim0 : Sim s0 (AState.init s0) :=
    ⟨fun _ => rfl, fun _ _ _ => rfl, by intro i hi; simp [h0.idle i] at hi,
     by intro i; simp [resultsOf, AState.init, h0.done i, pending_of_pc (s0.h i) (by simp [h0.idle i])],
     by simp [committed, AState.init, h0.commits], fun _ => rfl⟩
  have h0o : OrdInv p s0 :=
    ⟨hp.incr, hp.noImport, fun i hi _ => hp.snap i hi,
     by intro i _ hc; rcases hc with hc | hc <;> simp [h0.idle i] at hc,
     by intro i _ hc; simp [h0.idle i] at hc⟩
  have hseq := run_seqPrefix s0.cur p s0 _ sched hinv0 hsim0 h0o (fun j hj => hp.snap j hj) i (by rw [run_path]; exact hi)
  have hsim := run_sim s0.cur s0 _ sched hinv0 hsim0
  have hpre : SnapPrefix (a.snap i) (a.cur p) := by rw [hsim.cur p]; exact hseq
  exact ⟨hpre, fun op txs r' sn' h => atomicOp_fresh _ _ op txs r' sn' hpre h⟩

/-! ## the current marker -/

/-- **The current key is the one of the last committed `SetCurrent`.** Under every schedule, for every
ring path, the current marker of the stored ring is the one written by the last transaction list in the
commit log (rename order) that sets it – `SetCurrent`, or an import – and the initial marker when there
is none: a `SetCurrent` that committed earlier never overrides one that committed later, whatever the
interleaving of the back-end calls. -/
theorem current_is_last_committed (s0 : St) (h0 : Initial s0) (sched : List Nat) (p : Nat) :
    ((run s0 sched).cur p).current = lastCurrent (s0.cur p).current (commitsOn (run s0 sched) p) :=
  replay_current _ _ _ ((v2_linearizable s0 h0 sched).2.1.2 p)

/-- **Every committed `SetCurrent` replaced the marker its handle had seen.** Under every schedule: split
the commit log of a ring at any committed `SetCurrent` transaction `{old, new}`; then the commits before it
replay (from the initial ring) to a ring whose current marker is `old` – the marker in the handle's view
when the operation was prepared – and which holds the key `new`. A `SetCurrent` prepared from a view that
another writer's committed `SetCurrent` has made stale is therefore never in the commit log: with
`success_iff_committed_once` it returned an error, and (`stale_setCurrent_fails`) the atomic store it is
compared with says the same. This is the statement the oracle class `not-linearizable:setcurrent-stale`
judges on the implementation's history. -/
theorem committed_setCurrent_saw_current (s0 : St) (h0 : Initial s0) (sched : List Nat) (p : Nat)
    (pre post : List (List Tx)) (old new : Int)
    (hsplit : commitsOn (run s0 sched) p = pre ++ [.setCurrent old new] :: post) :
    ∃ r1, replay (s0.cur p) pre = some r1 ∧ r1.current = old ∧ r1.hasSeq new = true := by
  have hlin := (v2_linearizable s0 h0 sched).2.1.2 p
  rw [hsplit, replay_append] at hlin
  cases h1 : replay (s0.cur p) pre with
  | none => simp [h1] at hlin
  | some r1 =>
    simp only [h1, Option.bind_some, replay, applyAll] at hlin
    cases h2 : (Tx.setCurrent old new).apply r1 with
    | none => simp [h2] at hlin
    | some r2 =>
      obtain ⟨hc, hn, _⟩ := setCurrent_apply_pre h2
      exact ⟨r1, rfl, hc, hn⟩

/-- **A stale `SetCurrent` fails.** In the atomic key store a `SetCurrent` from a handle whose view has a
different current marker than the stored ring fails, stores nothing and refreshes the view. -/
theorem stale_setCurrent_fails (ring snap : Ring) (s : Int) (h : snap.current ≠ ring.current) :
    atomicOp ring snap (.setCurrent s) = (ring, ring, none) :=
  atomicOp_setCurrent_stale ring snap s h

/-- the scenario of the oracle's corpus, in the atomic store: ring `[key 1 (current)]`; handle A adds key 2;
handle B (fresh view) adds key 3 and makes it current; A's `SetCurrent 2` – prepared from "current is 1" –
fails and key 3 stays current (non-vacuity of `stale_setCurrent_fails`) -/
example :
    let r0 : Ring := ⟨[⟨1, 2, 1⟩], 1⟩
    let a1 := atomicOp r0 r0 (.addKey 10)
    let b1 := atomicOp a1.1 a1.1 (.addKey 11)
    let b2 := atomicOp b1.1 b1.2.1 (.setCurrent 3)
    let a2 := atomicOp b2.1 a1.2.1 (.setCurrent 2)
    b2.2.2.isSome = true ∧ a2.2.2 = none ∧ a2.1.current = 3 := by decide

/-! ## ring creation -/

/-- **A ring is created only while it is missing – creation overwrites nothing.** Under every schedule,
whenever a handle is between the `Get` and the `Rename` of a write (`got`/`put`): its operation is
`OpenKeyRingRW` **iff** the ring file does not exist; and in that case the ring is still missing at this
very moment, nothing has ever been committed on its path, and what the handle is about to store is the
empty ring with no transactions. (The `Get` that said `ErrNotExist` and the `Put`/`Rename` are under one
exclusive lock – `fact_open_cycle` – so no other handle can have created the ring in between.) -/
theorem creation_only_of_missing_ring (s0 : St) (h0 : Initial s0) (sched : List Nat) (i : Nat) :
    let s := run s0 sched
    ((s.h i).pc = .got ∨ (s.h i).pc = .put) →
      ((∃ rest, (s.h i).todo = .open :: rest) ↔ s.ex (s.h i).path = false) ∧
      (s.ex (s.h i).path = false →
        s.cur (s.h i).path = emptyRing ∧ commitsOn s (s.h i).path = [] ∧ (s.h i).txs = []) := by
  intro s hpc
  have hinv := run_inv s0.cur s0 sched (initial_inv s0 h0)
  obtain ⟨h1, h2⟩ := hinv.crt i hpc
  exact ⟨h1.symm, fun hex => ⟨(hinv.miss _ hex).1, (hinv.miss _ hex).2, h2 hex⟩⟩

/-- a ring on whose path something was committed exists, and a ring that exists keeps existing -/
theorem committed_ring_exists (s0 : St) (h0 : Initial s0) (sched : List Nat) (p : Nat) :
    (commitsOn (run s0 sched) p ≠ [] → (run s0 sched).ex p = true) ∧
    (s0.ex p = true → (run s0 sched).ex p = true) := by
  have hinv := run_inv s0.cur s0 sched (initial_inv s0 h0)
  refine ⟨fun hne => ?_, run_ex_mono s0 sched p⟩
  cases hex : (run s0 sched).ex p with
  | true => rfl
  | false => exact absurd (hinv.miss p hex).2 hne

/-- **Every successful `AddKey` is in the stored ring exactly once.** For a ring on which no handle runs
an import (`OrderedStart`; the ring may exist at the start or be created during the run), under every
schedule: every operation of a handle of this ring that returned success with a `txAddKey` in its
transaction list has its key in the stored ring – exactly one key of the stored ring carries the sequence
number that operation assigned. (Later `SetState`/`DestroyKey` operations change state and material of
that key, they never remove it; a creating `OpenKeyRingRW` never runs once a key is committed –
`creation_only_of_missing_ring`.) -/
theorem add_reflected_exactly_once (s0 : St) (h0 : Initial s0) (p : Nat) (hp : OrderedStart s0 p) (sched : List Nat)
    (i : Nat) (hi : (s0.h i).path = p) (op : Op) (txs : List Tx) (hop : op ≠ .refresh)
    (hdone : (op, some txs) ∈ ((run s0 sched).h i).done) (k : Key) (hk : Tx.add k ∈ txs) :
    ((run s0 sched).cur p).seqs.count k.seq = 1 := by
  have hinv0 := initial_inv s0 h0
  have hinv := run_inv s0.cur s0 sched hinv0
  have h0o : OrdInv p s0 :=
    ⟨hp.incr, hp.noImport, fun i hi _ => hp.snap i hi,
     by intro i _ hc; rcases hc with hc | hc <;> simp [h0.idle i] at hc,
     by intro i _ hc; simp [h0.idle i] at hc⟩
  have ho := run_ord s0.cur p s0 sched hinv0 h0o
  have hcp := run_commitPath s0 sched (by intro c hc; simp [h0.commits] at hc)
  have hak := run_addsKept s0.cur p s0 sched hinv0 h0o (by intro c hc; simp [h0.commits] at hc)
  -- the successful operation is in the commit log, under this handle's ring path
  have hmem : txs ∈ commitsBy (run s0 sched) i := by
    rw [hinv.mine i]
    apply List.mem_append_left
    simp only [okWrites, List.mem_filterMap]
    exact ⟨(op, some txs), hdone, by simp [hop]⟩
  simp only [commitsBy, List.mem_map, List.mem_filter] at hmem
  obtain ⟨c, ⟨hc, htid⟩, rfl⟩ := hmem
  have htid' : c.tid = i := by simpa using htid
  have hpath : c.path = p := by rw [hcp c hc, htid', run_path, hi]
  have hin := hak c hc hpath k hk
  have hnd : ((run s0 sched).cur p).seqs.Nodup := incr_nodup _ ho.incr
  rw [hnd.count]; simp [hin]

/-- the same for `AddKey` operations by name: the transaction list of a successful `AddKey(d)` is one
`txAddKey` of a pre-active key with that material, and exactly one key of the stored ring carries its
sequence number -/
theorem addKey_reflected_exactly_once (s0 : St) (h0 : Initial s0) (p : Nat) (hp : OrderedStart s0 p) (sched : List Nat)
    (i : Nat) (hi : (s0.h i).path = p) (d : Nat) (txs : List Tx)
    (hdone : (Op.addKey d, some txs) ∈ ((run s0 sched).h i).done) :
    ∃ seq, txs = [.add ⟨seq, stPreActive, d⟩] ∧ ((run s0 sched).cur p).seqs.count seq = 1 := by
  -- the result is one the sequential run produced: it has the shape `prepare` gives
  have hlin := (v2_linearizable s0 h0 sched).2.2.1 i
  have hshape := atomicRun_logShape (AState.init s0) (linTrace s0 sched) (by intro x hx; simp [AState.init] at hx)
  have hres : (Op.addKey d, some txs) ∈ resultsOf (atomicRun (AState.init s0) (linTrace s0 sched)).log i := by
    rw [hlin]; exact List.mem_append_left _ hdone
  simp only [resultsOf, List.mem_map, List.mem_filter] at hres
  obtain ⟨x, ⟨hx, _⟩, hxe⟩ := hres
  have hxop : x.1.op = .addKey d := (Prod.mk.inj hxe).1
  have hxres : x.2 = some txs := (Prod.mk.inj hxe).2
  rcases hshape x hx txs hxres with ⟨hr, _⟩ | ⟨snap, hprep⟩
  · rw [hxop] at hr; cases hr
  · rw [hxop] at hprep
    simp only [prepare, Option.some.injEq] at hprep
    refine ⟨snap.nextSeq, hprep.symm, ?_⟩
    exact add_reflected_exactly_once s0 h0 p hp sched i hi (.addKey d) txs (by simp) hdone ⟨snap.nextSeq, stPreActive, d⟩
      (by rw [← hprep]; simp)

/-- what the creation theorems need of a ring that does not exist at the start: every handle of the path
holds the empty snapshot of a fresh handle object (what `newKeyRing` gives; `OpenKeyRingRW` resets it
anyway) and none of them imports -/
structure MissingStart (s : St) (p : Nat) : Prop where
  missing : s.ex p = false
  snap : ∀ i, (s.h i).path = p → (s.h i).snap = emptyRing
  noImport : ∀ i, (s.h i).path = p → ∀ op ∈ (s.h i).todo, NoImport op

theorem MissingStart.ordered {s : St} {p : Nat} (h0 : Initial s) (h : MissingStart s p) : OrderedStart s p :=
  ⟨by rw [h0.missing p h.missing]; decide,
   fun i hi => by rw [h.snap i hi, h0.missing p h.missing]; exact snapPrefix_refl _, h.noImport⟩

/-- **Linearisability extends to ring creation: no `AddKey` is lost when the ring did not exist at the
start.** Any number of handles race to create the ring with `OpenKeyRingRW` and add keys to it; under every
schedule the stored ring is the replay, from the empty ring, of exactly the committed transaction lists
in linearisation order (the creating rename first – an empty list), its sequence numbers are strictly
increasing, and every `AddKey` that returned success has its key in the stored ring exactly once. -/
theorem created_ring_keeps_every_add (s0 : St) (h0 : Initial s0) (p : Nat) (hp : MissingStart s0 p) (sched : List Nat) :
    let s := run s0 sched
    replay emptyRing (commitsOn s p) = some (s.cur p) ∧ Incr (s.cur p) ∧
    ∀ i, (s0.h i).path = p → ∀ d txs, (Op.addKey d, some txs) ∈ (s.h i).done →
      ∃ seq, txs = [.add ⟨seq, stPreActive, d⟩] ∧ (s.cur p).seqs.count seq = 1 := by
  intro s
  have hinv := run_inv s0.cur s0 sched (initial_inv s0 h0)
  have hl := hinv.lin p
  rw [h0.missing p hp.missing] at hl
  exact ⟨hl, (seqnums_unique_increasing s0 h0 p (hp.ordered h0) sched).1,
    fun i hi d txs hd => addKey_reflected_exactly_once s0 h0 p (hp.ordered h0) sched i hi d txs hd⟩

/-! ## the lock file's life cycle: what the directory back end really locks -/

section lockfile
open AcraModel.KeystoreSec.FileLock

open Generated.FileLock in
/-- How a handle gets its lock: `newFileLock(path)` makes exactly one call, `os.Create(path)` on its own
parameter, and keeps the descriptor (`lockFile`) and the path; `os.Create` (Go standard library) passes
`O_RDWR|O_CREATE|O_TRUNC` – it creates the file only when the path names nothing and otherwise opens the file
the path names (no `O_EXCL`). Both constructors of `DirectoryBackend` anchor the lock at the same path,
`filepath.Join(root, lockFile)` with `lockFile = ".lock"`. This is the model's `LOp.openH`. -/
theorem fact_filelock_open :
    newFileLockCalls = ["os.Create"] ∧ newFileLockOpenArg = ["path"] ∧ newFileLockParams = ["path"] ∧
    newFileLockAssigns = ["lock, err := os.Create(path)"] ∧
    newFileLockFields = ["lockFile=lock", "path=path"] ∧
    osCreateFlags = ["O_RDWR", "O_CREATE", "O_TRUNC"] ∧
    createBackendLockPath = ["filepath.Join(root, lockFile)"] ∧
    openBackendLockPath = ["filepath.Join(root, lockFile)"] ∧
    lockFileName = ".lock" := by decide

open Generated.FileLock in
/-- How a handle gives its lock up: `fileLock.Close` makes exactly one call, `l.lockFile.Close()` – it closes
the descriptor and does NOT remove (or rename) the lock file, so the model's close step runs with
`closeUnlinks = false`. `DirectoryBackend.Close` only closes the lock (and logs), `KeyStore.Close` only closes the
back end. Besides the two constructors only `ListAll` mentions the lock file's name (to skip it), and the only
functions that use the lock's stored path are the poisoning / recovery pair (which close and re-open the same
path, `os.Create(l.path)`, after a failed `LOCK_UN`). -/
theorem fact_filelock_close :
    fileLockCloseCalls = ["l.lockFile.Close"] ∧
    backendCloseCalls = ["b.lock.Close", "b.log.WithError().Warn", "b.log.WithError"] ∧
    keyStoreCloseCalls = ["s.fs.Close", "runtime.SetFinalizer"] ∧
    lockPathUsers = ["fileLock.poisonLock", "fileLock.recoverLock"] ∧
    lockFileNameUsers = ["CreateDirectoryBackend", "OpenDirectoryBackend", "DirectoryBackend.ListAll"] ∧
    poisonLockCalls = ["l.lockFile.Close"] ∧ recoverLockCalls = ["os.Create"] ∧ recoverLockOpenArg = ["l.path"] ∧
    closeUnlinks = false := by decide

open Generated.FileLock in
/-- The lock cycle is the one the model runs: `Lock` / `RLock` take the handle's mutex first
(`LOp.enter`), then call `syscall.Flock` on the handle's own descriptor with `LOCK_EX` / `LOCK_SH` (`LOp.acquire`),
giving the mutex back only on an error path; `Unlock` / `RUnlock` release the mutex (deferred) after
`syscall.Flock(fd, LOCK_UN)` (`LOp.release`). The `DirectoryBackend` methods only delegate. -/
theorem fact_filelock_cycle :
    lockCalls = ["l.lockSync.Lock", "l.recoverLock", "l.lockSync.Unlock", "syscall.Flock", "l.lockSync.Unlock"] ∧
    rLockCalls = ["l.lockSync.Lock", "l.recoverLock", "l.lockSync.Unlock", "syscall.Flock", "l.lockSync.Unlock"] ∧
    unlockCalls = ["defer:l.lockSync.Unlock", "syscall.Flock", "l.poisonLock"] ∧
    rUnlockCalls = ["defer:l.lockSync.Unlock", "syscall.Flock", "l.poisonLock"] ∧
    lockFlockMode = ["syscall.LOCK_EX"] ∧ rLockFlockMode = ["syscall.LOCK_SH"] ∧
    unlockFlockMode = ["syscall.LOCK_UN"] ∧ rUnlockFlockMode = ["syscall.LOCK_UN"] ∧
    lockFlockFd = ["int(l.lockFile.Fd())"] ∧ rLockFlockFd = ["int(l.lockFile.Fd())"] ∧
    unlockFlockFd = ["int(l.lockFile.Fd())"] ∧ rUnlockFlockFd = ["int(l.lockFile.Fd())"] ∧
    backendLockCalls = ["b.lock.Lock"] ∧ backendRLockCalls = ["b.lock.RLock"] ∧
    backendUnlockCalls = ["b.lock.Unlock"] ∧ backendRUnlockCalls = ["b.lock.RUnlock"] := by decide

/-- the regenerated `Close` behaviour, as an equation the theorems below rewrite with -/
theorem close_keeps_lock_file : closeUnlinks = false := fact_filelock_close.2.2.2.2.2.2.2.2

/-- **All handles of a key directory lock the same file.** With the code's `Close`, for every history `ops` of
handles being opened, closed, locking and unlocking – from a directory in which `.lock` exists already (`p =
some _`) or not (`p = none`) – every handle ever opened (still open or closed since) refers to one and the
same inode, and that inode is the one the path `.lock` names now: the next handle to be opened will get it,
too. -/
theorem lock_inode_shared (p : Option Nat) (ops : List LOp) :
    let s := lrun closeUnlinks (linit p) ops
    ∀ i, i < s.n → s.path = some (s.h i).ino ∧ ∀ j, j < s.n → (s.h i).ino = (s.h j).ino := by
  intro s i hi
  have hs : Single s := by
    show Single (lrun closeUnlinks (linit p) ops)
    rw [close_keeps_lock_file]
    exact lrun_single _ ops (linit_inv p) (linit_single p)
  refine ⟨hs i hi, fun j hj => ?_⟩
  have e1 := hs i hi
  have e2 := hs j hj
  rw [e1] at e2
  exact Option.some.inj e2

/-- **Mutual exclusion carries over to any number of handles opened and closed at any time.** With the code's
`Close`, in every reachable state of the life-cycle model: two handles whose descriptors hold an exclusive
`flock` are the same handle, and while one handle holds the exclusive lock no other handle holds any lock,
shared or exclusive. -/
theorem lifecycle_mutual_exclusion (p : Option Nat) (ops : List LOp) (i j : Nat) :
    let s := lrun closeUnlinks (linit p) ops
    ((s.h i).held = some .ex → (s.h j).held = some .ex → i = j) ∧
    ((s.h i).held = some .ex → i ≠ j → (s.h j).held = none) := by
  intro s
  have hinv : LInv s := lrun_inv closeUnlinks (linit p) ops (linit_inv p)
  have hs : Single s := by
    show Single (lrun closeUnlinks (linit p) ops)
    rw [close_keeps_lock_file]
    exact lrun_single _ ops (linit_inv p) (linit_single p)
  refine ⟨fun hi hj => ?_, fun hi hij => global_excl hinv hs i j hij hi⟩
  apply Classical.byContradiction
  intro hij
  have := global_excl hinv hs i j hij hi
  rw [hj] at this; cases this

/-- **What `flock(2)` alone gives, whatever `Close` does:** exclusion among the handles whose descriptors refer
to the *same inode* – an exclusive holder, and next to it no other holder on that inode. (With a `Close` that
unlinks, handles of one directory can refer to different inodes: `unlinking_close_counterexample`.) -/
theorem flock_excludes_per_inode (cu : Bool) (p : Option Nat) (ops : List LOp) (i j : Nat) :
    let s := lrun cu (linit p) ops
    i ≠ j → (s.h i).ino = (s.h j).ino → (s.h i).held = some .ex → (s.h j).held = none :=
  (lrun_inv cu (linit p) ops (linit_inv p)).excl i j

/-- **The per-handle mutex keeps a handle from converting its own lock.** In every reachable state (whatever
`Close` does) a handle that is asking for a `flock` (inside `Lock()` / `RLock()`) holds its mutex and no `flock`
yet, and a handle that holds a `flock` holds its mutex and is not asking for another one – so `flock(2)`'s
silent conversion of a lock already held through the same descriptor never happens. -/
theorem handle_never_converts_its_flock (cu : Bool) (p : Option Nat) (ops : List LOp) (i : Nat) :
    let s := lrun cu (linit p) ops
    ((s.h i).want ≠ none → (s.h i).isOpen = true ∧ (s.h i).mutex = true ∧ (s.h i).held = none) ∧
    ((s.h i).held ≠ none → (s.h i).isOpen = true ∧ (s.h i).mutex = true ∧ (s.h i).want = none) :=
  ⟨(lrun_inv cu (linit p) ops (linit_inv p)).wantOpen i, (lrun_inv cu (linit p) ops (linit_inv p)).heldOpen i⟩

/-- **The life cycle of the real lock refines the abstract lock of the concurrency model.** With the code's
`Close`, every history of opens, closes, lock and unlock calls on any number of handles is, seen through the
abstraction "writer = the handle holding `LOCK_EX`, readers = the handles holding `LOCK_SH`" (`Abs`), a sequence of
moves of the abstract lock (`AStep`: the exclusive lock is granted only when there is no writer and no reader,
the shared lock only when there is no writer; opening a handle, entering `Lock()`, closing a handle that holds
nothing are stutter steps; closing a handle that holds a lock releases it). -/
theorem lifecycle_refines_abstract_lock (p : Option Nat) (ops : List LOp) :
    ∃ b, Abs (lrun closeUnlinks (linit p) ops) b ∧ AReach ALock.free b := by
  rw [close_keeps_lock_file]
  exact lrun_refines (linit p) ops (linit_inv p) (linit_single p) ALock.free ALock.free .refl (linit_abs p)

/-- **… and that abstract lock is the one `mutual_exclusion` and `v2_linearizable` are about.** Under every
schedule the lock of the concurrency model (`St.writer`, `St.readers` – what `stepCall` consults before it lets
a thread `Lock`/`RLock`) moves only by moves of the same abstract lock. Together with
`lifecycle_refines_abstract_lock`: the all-schedules theorems of this file assume a lock that behaves like
`ALock`, and the lock file – for every history of handles opened and closed – is one. -/
theorem conc_lock_is_abstract_lock (s0 : St) (h0 : Initial s0) (sched : List Nat) :
    ∃ b, LockView (run s0 sched) b ∧ AReach ALock.free b :=
  run_lockView s0.cur s0 sched (initial_inv s0 h0) ALock.free ALock.free .refl
    ⟨by simp [ALock.free, h0.writer], by intro j; simp [ALock.free, h0.readers]⟩

/-- **Why a `Close` that unlinks is fatal, in general:** in every reachable state (whatever `Close` does), when
the path `.lock` names nothing, the handle opened next gets an inode that no handle opened before refers to –
`flock` will never make it wait for any of them. -/
theorem unlinked_open_gets_new_inode (cu : Bool) (p : Option Nat) (ops : List LOp) :
    let s := lrun cu (linit p) ops
    s.path = none → ∀ i, i < s.n → ((lstep cu s .openH).h s.n).ino ≠ (s.h i).ino := by
  intro s hp i hi
  have hinv : LInv s := lrun_inv cu (linit p) ops (linit_inv p)
  have := hinv.freshH i hi
  simp only [lstep, hp, KeystoreSec.FileLock.upd_same]
  omega

/-- the history of the seeded change: S is opened, T is opened and closed again, U is opened; S and then U ask
for the exclusive lock -/
def stuHistory : List LOp :=
  [.openH, .openH, .closeH 1, .openH, .enter 0 .ex, .acquire 0, .enter 2 .ex, .acquire 2]

/-- **Counterexample for the unlinking `Close`.** If `fileLock.Close` also removed the lock file, the history
S open, T open, T close, U open would leave S and U – both open – on *different* inodes, and both would hold the
exclusive `flock` at the same time. (With the code's `Close` the same history leaves U waiting inside
`Lock()`: second part.) -/
theorem unlinking_close_counterexample :
    let s := lrun true (linit none) stuHistory
    ((s.h 0).isOpen = true ∧ (s.h 2).isOpen = true ∧ (s.h 0).ino ≠ (s.h 2).ino ∧
      (s.h 0).held = some .ex ∧ (s.h 2).held = some .ex) ∧
    (let t := lrun false (linit none) stuHistory
     (t.h 0).ino = (t.h 2).ino ∧ (t.h 0).held = some .ex ∧ (t.h 2).held = none ∧ (t.h 2).want = some .ex) := by
  decide

/-! ### non-vacuity -/

/-- a reachable state of the life cycle (code's `Close`) in which the exclusive lock is held while another
handle waits, a third is closed, and two readers share the lock afterwards -/
example : ((lrun closeUnlinks (linit none) stuHistory).h 0).held = some .ex := by decide

example : let s := lrun closeUnlinks (linit (some 7))
              [.openH, .openH, .enter 0 .sh, .acquire 0, .enter 1 .sh, .acquire 1, .closeH 0, .openH, .enter 2 .ex, .acquire 2]
    (s.h 0).isOpen = false ∧ (s.h 1).held = some .sh ∧ (s.h 2).want = some .ex ∧ (s.h 2).held = none ∧ (s.h 2).ino = 7 := by
  decide

/-- the abstract lock really moves: from the free lock, handle 0 takes the exclusive lock and gives it back,
then handles 1 and 2 share it -/
example : AReach ALock.free ⟨none, fun j => if j = 2 then true else if j = 1 then true else false⟩ :=
  .step (.step (.step (.step .refl
    (.lock 0 rfl (fun _ => rfl) (b := ⟨some 0, fun _ => false⟩) rfl (fun _ => rfl)))
    (.unlock 0 rfl (b := ⟨none, fun _ => false⟩) rfl (fun _ => rfl)))
    (.rlock 1 rfl (b := ⟨none, fun j => if j = 1 then true else false⟩) rfl (fun _ => rfl)))
    (.rlock 2 rfl rfl (fun _ => rfl))

end lockfile

/-! ## non-vacuity: a concrete race -/

/-- two handles (threads 0 and 1) on ring 0, both with the same empty snapshot, each adding a key -/
def demo : St where
  cur := fun _ => ⟨[], noKey⟩
  new := fun _ => none
  writer := none
  readers := []
  h := fun i => ⟨0, ⟨[], noKey⟩, [], if i = 0 then [.addKey 10] else if i = 1 then [.addKey 11, .addKey 12] else [], [], .idle⟩
  commits := []

example : Initial demo := ⟨rfl, rfl, fun _ => rfl, rfl, fun _ => rfl, fun _ => rfl, fun _ h => nomatch h⟩

/-- thread 1 loses the race with a stale snapshot (its seqnum 1 exists: `errTxKeyExists`), its
retry with the refreshed snapshot succeeds: the final ring holds 10 then 12 with seqnums 1, 2 -/
example : (run demo [0, 1, 0, 0, 0, 0, 1, 1, 1, 1, 1, 1, 1, 1]).cur 0 = ⟨[⟨1, 1, 10⟩, ⟨2, 1, 12⟩], noKey⟩ := by rfl

example : ((run demo [0, 1, 0, 0, 0, 0, 1, 1, 1, 1, 1, 1, 1, 1]).h 1).done.map (·.2.isSome) = [false, true] := by rfl

/-! ## known finding: concurrent imports of one ring -/

/-- two handles, both with the snapshot of the freshly created empty ring, each importing its own key list -/
def importRace : St where
  cur := fun _ => ⟨[], noKey⟩
  new := fun _ => none
  writer := none
  readers := []
  h := fun i => ⟨0, ⟨[], noKey⟩, [], if i = 0 then [.importKeys [⟨1, 1, 10⟩] noKey] else if i = 1 then [.importKeys [⟨1, 1, 11⟩] noKey] else [], [], .idle⟩
  commits := []

/-- **Known finding (C17, `import-race-lost-update`).** `txSetKeys` carries no optimistic check:
when two handles import into the same ring at the same time both operations succeed and the key
list of the first is overwritten – the keys of a *successful* import are gone. (Linearisability in
the sense of `v2_linearizable` still holds – the stored ring is the replay of both commits – but
sequentially the second import is refused with `ErrKeyRingExists`; the check that refuses it runs
outside the lock that protects the write.) Replayed on the real key store by the harness
(`mode:import-race`, every schedule). -/
theorem import_race_counterexample :
    let s := run importRace [0, 0, 0, 0, 0, 1, 1, 1, 1, 1]
    (s.h 0).done.map (·.2.isSome) = [true] ∧ (s.h 1).done.map (·.2.isSome) = [true] ∧
    s.cur 0 = ⟨[⟨1, 1, 11⟩], noKey⟩ := by
  refine ⟨by rfl, by rfl, by rfl⟩

/-! ## why `seqnums_unique_increasing` excludes imports and needs the prefix hypothesis -/

def oneRing (cur : Ring) (progs : Nat → Ring × List Op) : St where
  cur := fun _ => cur
  new := fun _ => none
  writer := none
  readers := []
  h := fun i => ⟨0, (progs i).1, [], (progs i).2, [], .idle⟩
  commits := []

/-- **`ImportOverwrite` breaks the order** (the scenario excluded by `OrderedStart.noImport`; needs an
`ImportOverwrite` delegate, which Acra never installs). Stored ring 1,2; handle 1 holds that snapshot;
handle 0 overwrites the ring with 1,2,6; handle 1 then adds a key with the number 3 it computed from
its snapshot – not in the ring, so `txAddKey` appends it: 1,2,6,3 – unique, not increasing. -/
theorem import_overwrite_order_counterexample :
    let r12 : Ring := ⟨[⟨1, 1, 10⟩, ⟨2, 1, 11⟩], noKey⟩
    let s0 := oneRing r12 fun i => (r12, if i = 0 then [.importKeys [⟨1, 1, 10⟩, ⟨2, 1, 11⟩, ⟨6, 1, 12⟩] noKey]
                                          else if i = 1 then [.addKey 13] else [])
    Initial s0 ∧ Incr (s0.cur 0) ∧ (∀ i, SnapPrefix (s0.h i).snap (s0.cur 0)) ∧
    ((run s0 [0, 0, 0, 0, 0, 1, 1, 1, 1, 1]).cur 0).seqs = [1, 2, 6, 3] ∧
    ¬ Incr ((run s0 [0, 0, 0, 0, 0, 1, 1, 1, 1, 1]).cur 0) := by
  exact ⟨⟨rfl, rfl, fun _ => rfl, rfl, fun _ => rfl, fun _ => rfl, fun _ h => nomatch h⟩, by decide, fun _ => snapPrefix_refl _, by rfl, by decide⟩

/-- **One import next to a stale handle breaks the order, too** (same class as the known finding
`import-race-lost-update`: the existence check of the import runs outside the lock that protects its
write). Empty ring; handle 1 holds the empty snapshot; handle 0 imports 5,6; handle 1 adds a key with
number 1: 5,6,1. -/
theorem import_stale_add_counterexample :
    let s0 := oneRing ⟨[], noKey⟩ fun i => (⟨[], noKey⟩, if i = 0 then [.importKeys [⟨5, 1, 10⟩, ⟨6, 1, 11⟩] noKey]
                                          else if i = 1 then [.addKey 13] else [])
    Initial s0 ∧ ((run s0 [0, 0, 0, 0, 0, 1, 1, 1, 1, 1]).cur 0).seqs = [5, 6, 1] := by
  exact ⟨⟨rfl, rfl, fun _ => rfl, rfl, fun _ => rfl, fun _ => rfl, fun _ h => nomatch h⟩, by rfl⟩

/-- **The prefix hypothesis is needed** (no import involved): a ring with a gap in its numbering
(1,2,6 – only an import produces one) and a handle whose snapshot 1,2 is not a prefix in the sense of
`SnapPrefix` (the ring does not continue with 3): the handle appends 3 after 6. -/
theorem stale_gap_counterexample :
    let s0 := oneRing ⟨[⟨1, 1, 10⟩, ⟨2, 1, 11⟩, ⟨6, 1, 12⟩], noKey⟩ fun i =>
      (⟨[⟨1, 1, 10⟩, ⟨2, 1, 11⟩], noKey⟩, if i = 0 then [.addKey 13] else [])
    Initial s0 ∧ Incr (s0.cur 0) ∧ (∀ i, ∀ op ∈ (s0.h i).todo, NoImport op) ∧
    ((run s0 [0, 0, 0, 0, 0]).cur 0).seqs = [1, 2, 6, 3] := by
  refine ⟨⟨rfl, rfl, fun _ => rfl, rfl, fun _ => rfl, fun _ => rfl, fun _ h => nomatch h⟩, by decide, ?_, by rfl⟩
  intro i op hop
  by_cases hi : i = 0
  · subst hi; simp [oneRing] at hop; subst hop; trivial
  · simp [oneRing, hi] at hop

/-! ## non-vacuity of the new hypotheses -/

/-- `OrderedStart` holds of the race `demo` (fresh empty snapshots, only `AddKey`s) -/
example : OrderedStart demo 0 :=
  ⟨by decide, fun _ _ => snapPrefix_refl _, by
    intro i _ op hop
    by_cases h0 : i = 0
    · subst h0; simp [demo] at hop; subst hop; trivial
    · by_cases h1 : i = 1
      · subst h1; simp [demo] at hop; rcases hop with rfl | rfl <;> trivial
      · simp [demo, h0, h1] at hop⟩

/-- a genuinely stale prefix snapshot: stored 1,2,3, snapshot 1 -/
example : SnapPrefix ⟨[⟨1, 1, 10⟩], noKey⟩ ⟨[⟨1, 1, 10⟩, ⟨2, 1, 11⟩, ⟨3, 1, 12⟩], noKey⟩ := ⟨2, by decide⟩

/-- the sequential run of the race `demo`: thread 1's first `AddKey` is linearised as a failure (stale
snapshot), its retry as a success -/
example : (resultsOf (atomicRun (AState.init demo) (linTrace demo [0, 1, 0, 0, 0, 0, 1, 1, 1, 1, 1, 1, 1, 1])).log 1).map (·.2.isSome)
    = [false, true] := by rfl

/-! ## non-vacuity: the creation race -/

/-- two handles open the same not yet existing ring for writing and add a key each -/
def createRace : St where
  cur := fun _ => emptyRing
  new := fun _ => none
  writer := none
  readers := []
  h := fun i => ⟨0, emptyRing, [], if i = 0 then [.open, .addKey 10] else if i = 1 then [.open, .addKey 11] else [], [], .idle⟩
  commits := []
  ex := fun _ => false

example : Initial createRace := ⟨rfl, rfl, fun _ => rfl, rfl, fun _ => rfl, fun _ => rfl, fun _ _ => rfl⟩

example : MissingStart createRace 0 :=
  ⟨rfl, fun _ _ => rfl, by
    intro i _ op hop
    by_cases h0 : i = 0
    · subst h0; simp [createRace] at hop; rcases hop with rfl | rfl <;> trivial
    · by_cases h1 : i = 1
      · subst h1; simp [createRace] at hop; rcases hop with rfl | rfl <;> trivial
      · simp [createRace, h0, h1] at hop⟩

/-- handle 0 creates the ring (`Lock, Get = ErrNotExist, Put, Rename, Unlock`) and adds key 10; handle 1,
which asked for the lock in between, finds the ring (`Lock, Get, Unlock` – it does NOT create) and adds
key 11 with the next sequence number: both keys are there -/
example : (run createRace [0, 0, 1, 0, 0, 0, 0, 0, 0, 0, 0, 1, 1, 1, 1, 1, 1, 1, 1]).cur 0
    = ⟨[⟨1, 1, 10⟩, ⟨2, 1, 11⟩], noKey⟩ := by rfl

example : ((run createRace [0, 0, 1, 0, 0, 0, 0, 0, 0, 0, 0, 1, 1, 1, 1, 1, 1, 1, 1]).h 1).done
    = [(.open, some []), (.addKey 11, some [.add ⟨2, 1, 11⟩])] := by rfl

/-- the two linearisation points of `OpenKeyRingRW` in the commit log: the creating rename of handle 0,
the `Get` of handle 1 that found the ring – both with the empty transaction list -/
example : ((run createRace [0, 0, 1, 0, 0, 0, 0, 0, 0, 0, 0, 1, 1, 1]).commits).map (fun c => (c.tid, c.txs))
    = [(0, []), (0, [.add ⟨1, 1, 10⟩]), (1, [])] := by rfl

end AcraModel.Props.C17
