import AcraModel.Token.Concurrent
import AcraModel.Token.Data
/-!
# C10 — tokens are format-preserving, reversible for the owner, and consistent
-/
namespace AcraModel.Props.C10
open AcraModel AcraModel.Token Generated.Token

/-- The retry loop of `generateNewValue` runs at least once. -/
theorem fact_loopLimit : loopLimit = 10 := by decide

end AcraModel.Props.C10
