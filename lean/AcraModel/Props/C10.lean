import AcraModel.Token.InvariantStep
import AcraModel.Token.GenLemmas
import AcraModel.Token.DataLemmas
import AcraModel.Crypto.Box
/-!
# C10 — tokens are format-preserving, reversible for the owner, and consistent

Property theorems only. Models: `Token/Store.lean` (context-scoped store), `Token/Gen.lean` (generators as
functions of a random stream), `Token/Tokenizer.lean` (the pseudoanonymizer as a machine of atomic store
steps), `Token/Concurrent.lean` (schedules), `Token/Data.lean` (text ↔ integer at the SQL boundary).

Concurrency: the theorems about `Sys.runSched` quantify over EVERY schedule – any interleaving of
the atomic store steps of any number of requests, new requests arriving at any time, maintenance
passes in between. Removing maintenance passes are excluded where stated (`NoRemove`): after a record
has been removed the property deliberately no longer speaks about it (a removed token is unknown).
Atomicity of the individual store calls is an assumption (see `Store.lean`), not a theorem.
-/
namespace AcraModel.Props.C10
open AcraModel AcraModel.Token Generated.Token

/-! ## facts regenerated from the source -/

/-- the retry bound of `generateNewValue` -/
theorem fact_loopLimit : loopLimit = 10 := by decide

/-- the alphabets: 62 characters, five generic and six country TLDs, short buffers (< 8) use country TLDs -/
theorem fact_alphabets : charsetB.length = 62 ∧ genericTLDs = [".com", ".net", ".org", ".edu", ".info"] ∧
    ccTLDs = [".au", ".br", ".de", ".jp", ".et", ".us"] ∧ shortEmailThreshold = 8 := by decide

/-- `randomEmail` guards the negative slice bound (repair of §8 #4) -/
theorem fact_email_guard : emailNegativeGuard = true := by decide

/-- `generateDataID` hashes delimiter, data, `zone‖AdditionalContext` or `client‖ClientID`, delimiter, type number -/
theorem fact_dataID : dataIDWrites = ["var:dataIDDelim", "var:data", "if-additional", "lit:zone", "field:AdditionalContext",
    "else", "lit:client", "field:ClientID", "end", "var:dataIDDelim", "itoa:dataType"] ∧ hashPrefix = "h." ∧ tokenPrefix = "t." := by decide

/-- the numeric type codes are single, pairwise different digits (needed for `dataIDPre_inj`) -/
theorem fact_type_codes : tokenTypeCodes = [("TokenType_Int32", 1), ("TokenType_Int64", 2), ("TokenType_String", 3),
    ("TokenType_Bytes", 4), ("TokenType_Email", 5)] := by decide

/-- `DataTokenizer` parses int32 columns with 32 bits and int64 columns with 64 bits, in both directions
(repair of §8 #15) -/
theorem fact_parse_bits : parseBits "Tokenize" .int32 = 32 ∧ parseBits "Detokenize" .int32 = 32 ∧
    parseBits "Tokenize" .int64 = 64 ∧ parseBits "Detokenize" .int64 = 64 := by decide

/-! ## shape -/

/-- **Token shape, for every random stream.** Whatever candidate the generator draws for a value of
`n` bytes has the type and length of the value: 4 / 8 bytes for integers (so the integer is in range by
construction), the same length for strings and byte strings, charset characters only for strings, and
for e-mails either the e-mail shape (charset characters, `@` at the code's position, a listed TLD) or
– when the value is shorter than the TLD drawn – a same-length charset string. -/
theorem token_shape (ty : TokenType) (n : Nat) (d : Draws) (t : Bytes) (h : genToken ty n d = .ok t) :
    shapeOK ty n t = true := genToken_shape ty n d t h

/-- **No value makes the generator panic** (in particular no 0–2 byte e-mail value, §8 #4). -/
theorem generator_never_panics (ty : TokenType) (n : Nat) (d : Draws) : genToken ty n d ≠ .panic := by
  cases ty with
  | email => exact randomEmail_no_panic fact_email_guard n d
  | int32 => intro h; cases h
  | int64 => intro h; cases h
  | str => intro h; cases h
  | bytes => intro h; cases h

/-- tokens have exactly the length of the value (strings, bytes, e-mails) -/
theorem token_length (ty : TokenType) (n : Nat) (d : Draws) (t : Bytes) (h : genToken ty n d = .ok t)
    (hty : ty = .str ∨ ty = .bytes ∨ ty = .email) : t.length = n := by
  rcases hty with rfl | rfl | rfl
  · simp only [genToken, Out.ok.injEq] at h; subst h; exact randomString_length _ _ _
  · simp only [genToken, Out.ok.injEq] at h; subst h; exact randomBytes_length _ _
  · simp only [genToken] at h
    rw [randomEmail_eq] at h
    have hp := pickedTld_pos n d
    split at h
    · split at h
      · cases h; exact randomString_length _ _ _
      · cases h
    · split at h
      · cases h; rw [List.length_append, emailBody_length]; omega
      · cases h

/-! ## the store invariant under every schedule -/

/-- **`store_inv`.** Starting from the empty store, after ANY schedule of atomic steps of any requests
(tokenize random/consistent, detokenize), requests arriving at any time, and enabling/disabling
maintenance passes: every `h.` record `v ↦ t` has its `t.` record `t ↦ v`, every token returned is
registered for exactly its value, and every consistent result is what the `h.` record of its value
decodes to. -/
theorem store_inv (c : CryptoOps) (hi : HashInj c) (enc : Bool) (sched : List SEv)
    (hnr : ∀ ev ∈ sched, NoRemove ev) : Inv c ((⟨Store.empty, []⟩ : Sys).runSched c enc sched) :=
  Sys.runSched_inv c hi enc sched _ (inv_empty c) hnr

/-- the same from any state that satisfies the invariant (e.g. a store that was populated earlier) -/
theorem store_inv_from (c : CryptoOps) (hi : HashInj c) (enc : Bool) (σ : Sys) (h : Inv c σ) (sched : List SEv)
    (hnr : ∀ ev ∈ sched, NoRemove ev) : Inv c (σ.runSched c enc sched) :=
  Sys.runSched_inv c hi enc sched σ h hnr

/-- **`consistent_same_token`.** In the state reached by any such schedule, two completed consistent
tokenizations of the same value in the same (effective) context return the same token – whatever the
interleaving of their store steps, and whatever the random streams. -/
theorem consistent_same_token (c : CryptoOps) (σ : Sys) (h : Inv c σ) (t₁ t₂ : Thread)
    (h₁ : t₁ ∈ σ.threads) (h₂ : t₂ ∈ σ.threads)
    (hk₁ : t₁.req.kind = .anon true) (hk₂ : t₂.req.kind = .anon true)
    (hx : t₁.req.ctx.bytes = t₂.req.ctx.bytes) (hty : t₁.req.ty = t₂.req.ty) (hv : t₁.req.v = t₂.req.v)
    (a b : Bytes) (r₁ : t₁.pc = .done (.ok a)) (r₂ : t₂.pc = .done (.ok b)) : a = b := by
  have i₁ := (h.thr t₁ h₁).1
  have i₂ := (h.thr t₂ h₂).1
  unfold TInv at i₁ i₂
  rw [r₁] at i₁; rw [r₂] at i₂
  simp only [hk₁, hk₂] at i₁ i₂
  obtain ⟨d₁, hd₁, e₁⟩ := i₁.2 trivial
  obtain ⟨d₂, hd₂, e₂⟩ := i₂.2 trivial
  rw [(keys_of_bytes_eq c hx _ _).2, hty, hv] at hd₁
  rw [hd₁] at hd₂
  cases hd₂
  rw [hty, e₂] at e₁
  cases e₁
  rfl

/-- **`distinct_values_distinct_tokens`.** Two completed tokenizations (random or consistent, in any
combination) in one context and type that returned the same token were given the same value: two
different values never share a token. -/
theorem distinct_values_distinct_tokens (c : CryptoOps) (σ : Sys) (h : Inv c σ) (t₁ t₂ : Thread)
    (h₁ : t₁ ∈ σ.threads) (h₂ : t₂ ∈ σ.threads) (m₁ m₂ : Bool)
    (hk₁ : t₁.req.kind = .anon m₁) (hk₂ : t₂.req.kind = .anon m₂)
    (hx : t₁.req.ctx.bytes = t₂.req.ctx.bytes) (hty : t₁.req.ty = t₂.req.ty)
    (tok : Bytes) (r₁ : t₁.pc = .done (.ok tok)) (r₂ : t₂.pc = .done (.ok tok)) : t₁.req.v = t₂.req.v := by
  have i₁ := (h.thr t₁ h₁).1
  have i₂ := (h.thr t₂ h₂).1
  unfold TInv at i₁ i₂
  rw [r₁] at i₁; rw [r₂] at i₂
  simp only [hk₁, hk₂] at i₁ i₂
  have e₁ := i₁.1
  rw [(keys_of_bytes_eq c hx _ _).1, hty] at e₁
  rw [i₂.1] at e₁
  simpa [encTV] using (Option.some.inj e₁).symm

/-! ## detokenization -/

/-- the one step of a `Deanonymize` call -/
def deanonResult (c : CryptoOps) (enc : Bool) (s : Store) (x : Ctx) (ty : TokenType) (tok : Bytes) : PC :=
  (stepThread c enc s (Thread.start ⟨.deanon, x, ty, tok⟩ fun _ _ => 0)).2.1.pc

/-- **`owner_roundtrip`.** In any state reached by such a schedule, for every completed tokenization of
`v` that returned `tok`, the owner (same effective context) detokenizing `tok` gets `v` back (as
`bytesToGolangValue` renders it) – or the token itself while the record is disabled by maintenance. -/
theorem owner_roundtrip (c : CryptoOps) (enc : Bool) (σ : Sys) (h : Inv c σ) (t : Thread) (ht : t ∈ σ.threads)
    (m : Bool) (hk : t.req.kind = .anon m) (tok : Bytes) (r : t.pc = .done (.ok tok))
    (x : Ctx) (hx : x.bytes = t.req.ctx.bytes) :
    deanonResult c enc σ.store x t.req.ty tok = .done (decodeAs t.req.ty t.req.v) ∨
      (deanonResult c enc σ.store x t.req.ty tok = .done (.ok tok) ∧ σ.store.get (tKey c x t.req.ty tok) = .disabled) := by
  have i := (h.thr t ht).1
  unfold TInv at i
  rw [r] at i
  simp only [hk] at i
  have hd := i.1
  rw [← (keys_of_bytes_eq c hx _ _).1] at hd
  unfold dataAt at hd
  cases hs : σ.store (tKey c x t.req.ty tok) with
  | none => rw [hs] at hd; cases hd
  | some rec =>
    rw [hs] at hd
    simp only [Option.map_some, Option.some.injEq] at hd
    by_cases hdis : rec.disabled = true
    · right
      simp [deanonResult, stepThread, Thread.start, Store.get, hs, hdis]
    · left
      simp [deanonResult, stepThread, Thread.start, Store.get, hs, hdis, hd, decTV, encTV]

/-- `pseudonymization/utils.go`: `decodeInt32` / `decodeInt64` start with `if len(data) != 4` / `!= 8`. -/
theorem fact_decode_int_length_checked :
    decodeIntLengthChecks = [("decodeInt32", 4), ("decodeInt64", 8)] := by decide

/-- **No stored record makes the tokenizer panic**: whatever bytes the token store returns under the id
that is looked up – a damaged record, a record of another length or of another type – decoding the
`h.` payload (`bytesToGolangValue`, consistent tokenization) and the `t.` record (`TokenValueFromData`,
type comparison, `bytesToGolangValue`; detokenization) ends in a value or an error. -/
theorem decode_record_no_panic (ty : TokenType) (data : Bytes) :
    decodeAs ty data ≠ .panic ∧ decTV ty data ≠ .panic :=
  ⟨decodeAs_no_panic ty data, decTV_no_panic ty data⟩

/-- … and what a record decodes to is the stored payload itself; an integer only ever comes from a
payload of exactly 4 / 8 bytes (a longer record is refused, not cut to its first bytes). -/
theorem decode_record_exact (ty : TokenType) (d v : Bytes) (h : decodeAs ty d = .ok v) :
    v = d ∧ (ty = .int32 → d.length = 4) ∧ (ty = .int64 → d.length = 8) := decodeAs_ok ty d v h

/-- a `t.` record of another type than the requested one is refused -/
theorem decode_record_type_checked (ty rty : TokenType) (hne : rty.code ≠ ty.code) (v : Bytes) :
    decTV ty (encTV rty v) = .err := by
  have h1 : rty.code < 256 := by cases rty <;> decide
  have h2 : ty.code < 256 := by cases ty <;> decide
  have : UInt8.ofNat rty.code ≠ UInt8.ofNat ty.code := by
    intro e
    have := congrArg UInt8.toNat e
    simp [Nat.mod_eq_of_lt h1, Nat.mod_eq_of_lt h2] at this
    exact hne this
  simp [decTV, encTV, this]

/-- The pinned tree (no length check in `decodeInt32`): a stored value shorter than 4 bytes panics. -/
theorem legacy_short_record_counterexample (name : String) (h0 : intLenCheck name = 0) :
    decodeInt name 4 [] = .panic ∧ decodeInt name 4 [1, 2, 3] = .panic ∧ decodeInt name 4 [1, 2, 3, 4, 5] = .ok [1, 2, 3, 4] :=
  ⟨legacy_short_record_panics name h0 [] (by decide), legacy_short_record_panics name h0 [1, 2, 3] (by decide),
   legacy_long_record_truncated name h0 [1, 2, 3, 4, 5] (by decide)⟩

/-- for well-formed values `bytesToGolangValue` is the identity: strings, bytes, e-mails always,
integers when encoded on 4 / 8 bytes (which `encodeToBytes` guarantees) -/
theorem decodeAs_wellformed (ty : TokenType) (v : Bytes)
    (h : (ty = .int32 → v.length = 4) ∧ (ty = .int64 → v.length = 8)) : decodeAs ty v = .ok v := by
  exact decodeAs_exact ty v h

/-- **`unknown_gets_itself`.** A token that has no record in the caller's context (never issued there,
or removed), and likewise a disabled one, comes back unchanged. -/
theorem unknown_gets_itself (c : CryptoOps) (enc : Bool) (s : Store) (x : Ctx) (ty : TokenType) (tok : Bytes)
    (h : s.get (tKey c x ty tok) ≠ .found ((s (tKey c x ty tok)).map (·.data) |>.getD [])) :
    deanonResult c enc s x ty tok = .done (.ok tok) := by
  unfold deanonResult
  simp only [stepThread, Thread.start]
  cases hg : s.get (tKey c x ty tok) with
  | found d =>
    exfalso
    apply h
    have := get_found_dataAt hg
    unfold dataAt at this
    rw [hg, this]
    rfl
  | notFound => rfl
  | disabled => rfl

/-- all requests of a system act in contexts whose bucket is not `b` -/
def AvoidsBucket (c : CryptoOps) (b : Bytes) : SEv → Prop
  | .spawn req _ => aggCtx c req.ctx ≠ b
  | _ => True

/-- **`foreign_gets_token`.** Whatever other clients do – any schedule of any of their requests and any
maintenance – a context whose bucket they do not share never acquires a record: a token issued to
client A, presented by client B (who never tokenized anything), comes back as the token itself. -/
theorem foreign_gets_token (c : CryptoOps) (enc : Bool) (b : Ctx) (sched : List SEv)
    (hav : ∀ ev ∈ sched, AvoidsBucket c (aggCtx c b) ev) (ty : TokenType) (tok : Bytes) :
    deanonResult c enc ((⟨Store.empty, []⟩ : Sys).runSched c enc sched).store b ty tok = .done (.ok tok) := by
  -- invariant: no record in b's bucket, no thread working in b's bucket
  have key : ∀ (sched : List SEv) (σ : Sys),
      (∀ k, k.1 = aggCtx c b → σ.store k = none) → (∀ t ∈ σ.threads, aggCtx c t.req.ctx ≠ aggCtx c b) →
      (∀ ev ∈ sched, AvoidsBucket c (aggCtx c b) ev) →
      ∀ k, k.1 = aggCtx c b → (σ.runSched c enc sched).store k = none := by
    intro sched
    induction sched with
    | nil => intro σ hs _ _; exact hs
    | cons ev r ih =>
      intro σ hs hth hav
      apply ih
      · -- store
        cases ev with
        | spawn req rnd => exact hs
        | visit act =>
          intro k hk
          simp [Sys.step, Store.visit, hs k hk]
        | run i =>
          intro k hk
          simp only [Sys.step]
          cases hti : σ.threads[i]? with
          | none => exact hs k hk
          | some t =>
            have hne := hth t (List.mem_of_getElem? hti)
            have hkt : ∀ a, k ≠ tKey c t.req.ctx t.req.ty a := by
              intro a he; apply hne; rw [← hk, he]; rfl
            have hkh : ∀ a, k ≠ hKey c t.req.ctx t.req.ty a := by
              intro a he; apply hne; rw [← hk, he]; rfl
            simp only []
            rcases t with ⟨⟨kind, x, ty, v⟩, pc, rnd, drawn⟩
            cases pc with
            | done r => exact hs k hk
            | look => simp only [stepThread]; split <;> exact hs k hk
            | getH tr => simp only [stepThread]; split <;> exact hs k hk
            | gen i tr =>
              simp only [stepThread]
              split
              · exact hs k hk
              · exact hs k hk
              · next tok' _ =>
                split
                · next s' hsave => show s' k = none; rw [Store.save_other hsave (hkt tok')]; exact hs k hk
                · exact hs k hk
            | saveH tok' tr =>
              simp only [stepThread]
              split
              · exact hs k hk
              · split
                · next s' hsave => show s' k = none; rw [Store.save_other hsave (hkh v)]; exact hs k hk
                · exact hs k hk
      · -- threads
        cases ev with
        | visit act => exact hth
        | spawn req rnd =>
          intro t ht
          simp only [Sys.step] at ht
          rcases List.mem_append.mp ht with ht | ht
          · exact hth t ht
          · simp only [List.mem_singleton] at ht
            subst ht
            have := hav _ List.mem_cons_self
            simpa [AvoidsBucket, Thread.start] using this
        | run i =>
          intro t ht
          simp only [Sys.step] at ht
          cases hti : σ.threads[i]? with
          | none => rw [hti] at ht; exact hth t ht
          | some u =>
            rw [hti] at ht
            simp only [] at ht
            rcases List.mem_or_eq_of_mem_set ht with ht | ht
            · exact hth t ht
            · have hu := hth u (List.mem_of_getElem? hti)
              subst ht
              rcases u with ⟨⟨kind, x, ty, v⟩, pc, rnd, drawn⟩
              cases pc <;> simp only [stepThread] <;> (repeat' split) <;> exact hu
      · exact fun e he => hav e (List.mem_cons_of_mem _ he)
  have hnone := key sched ⟨Store.empty, []⟩ (fun _ _ => rfl) (fun t ht => by cases ht) hav (tKey c b ty tok) rfl
  apply unknown_gets_itself
  simp [Store.get, hnone]

/-! ## the SQL boundary -/

/-- **`data_tokenizer_range`.** `DataTokenizer.Tokenize` on an int32 column either rejects the decimal
text or works on exactly the integer written there: the text is parsed with 32 bits, so a value outside
the int32 range is an error, never a wrapped value, and what is stored decodes back to the same integer. -/
theorem data_tokenizer_range (text v : Bytes) (h : textToValue "Tokenize" .int32 text = some v) :
    ∃ i : Int, parseInt 32 text = some i ∧ -2147483648 ≤ i ∧ i < 2147483648 ∧ v = encodeIntLE 4 i ∧ decodeIntLE v = i := by
  simp only [textToValue, fact_parse_bits.1, Option.map_eq_some_iff] at h
  obtain ⟨i, hi, hv⟩ := h
  have hr := parseInt_range 32 text i hi
  have e : ((2 ^ (32 - 1) : Nat) : Int) = 2147483648 := by decide
  rw [e] at hr
  exact ⟨i, hi, hr.1, hr.2, hv.symm, by rw [← hv]; exact decode_encode_int32 i hr.1 hr.2⟩

/-- **The defect of the pinned tree (§8 #15) as a theorem about 64-bit parsing**: with `bitSize` 64 the
text `4294967297` is accepted and its int32 encoding is that of `1`. -/
theorem int32_parsed_with_64_bits_counterexample :
    (parseInt 64 (strBytes "4294967297")).map (encodeIntLE 4) = some (encodeIntLE 4 1) ∧
      parseInt 32 (strBytes "4294967297") = none := by decide

/-! ## non-vacuity -/

/-- `HashInj` is satisfiable (the transparent-box instance) and the schedule theorems are about real
runs: two consistent requests for the same value, interleaved so that both miss the `h.` record, both
save a `t.` record, one wins the `h.` record and the other retries – both return the winner's token. -/
example : HashInj boxOps := Box.hashInj

def exReq : Req := ⟨.anon true, ⟨[1], []⟩, .str, [120, 121]⟩
def exSched : List SEv :=
  [.spawn exReq (fun _ _ => 0), .spawn exReq (fun _ i => i + 1), .run 0, .run 1, .run 0, .run 1, .run 0, .run 1, .run 1]

example : (((⟨Store.empty, []⟩ : Sys).runSched boxOps false exSched).threads.map (·.pc)) =
    [.done (.ok [97, 97]), .done (.ok [97, 97])] := by decide

example : Inv boxOps ((⟨Store.empty, []⟩ : Sys).runSched boxOps false exSched) :=
  store_inv boxOps Box.hashInj false exSched (by intro ev h; cases ev <;> first | trivial | (simp [exSched] at h))

end AcraModel.Props.C10
