import AcraModel.Envelope.SafeUnchanged
/-!
# C03 — any modification of a protected value is detected, never mis-decrypted

Property theorems only. Models: `AcraModel/Envelope/{AcraBlock,AcraStruct,Container,Detector}.lean`,
helper lemmas: `AcraModel/Envelope/Safe*.lean`. The "no panic" / bound theorems also serve C14
(no input can crash a handler or make it loop or allocate without bound).
-/
namespace AcraModel.Props.C03
open AcraModel AcraModel.Envelope Generated

/-! ## facts the proofs need from the regenerated layout -/

/-- Sizes add up: the AcraStruct header is 8+45+84+8 = 145 bytes, the AcraBlock header 18, the
container header 12, and the field positions of the AcraBlock are consecutive. -/
theorem fact_layout_sizes :
    structMin = 145 ∧ structTagLen = 8 ∧ structPubLen = 45 ∧ structKeyBlockLen = 129 ∧ structDataLenSize = 8 ∧
    blockMin = 18 ∧ blockKeyPos = 18 ∧ containerMin = 12 ∧
    Layout.blockTagBeginSize = 4 ∧ Layout.blockRestAcraBlockLengthPosition = 4 ∧ Layout.blockRestAcraBlockLengthSize = 8 ∧
    Layout.blockKeyEncryptionKeyTypePosition = 12 ∧ Layout.blockKeyEncryptionKeyIDPosition = 13 ∧
    Layout.blockKeyEncryptionKeyIDSize = 2 ∧ Layout.blockDataEncryptionTypePosition = 15 ∧
    Layout.blockDataEncryptionKeyLengthPosition = 16 ∧ Layout.blockDataEncryptionKeyLengthSize = 2 ∧
    Layout.containerTagBeginSize = 3 ∧ Layout.containerLengthSize = 8 := by decide

/-- Tags and ids: eight `"` for the AcraStruct, its first four for the AcraBlock, `%%%` for the
container; envelope ids 0xF0 (AcraBlock) and 0xF1 (AcraStruct); only backend 0 is registered. -/
theorem fact_layout_tags :
    structTag = List.replicate 8 34 ∧ blockTag = List.replicate 4 34 ∧ containerTag = List.replicate 3 37 ∧
    idBlock = 240 ∧ idStruct = 241 ∧ Layout.blockKeyBackends = [0] ∧ Layout.blockDataBackends = [0] ∧
    Layout.blockKeyEncryptionBackendTypeSecureCell = 0 ∧ Layout.blockDataEncryptionBackendTypeSecureCell = 0 := by decide

/-! ## A. no decoder panics, whatever the bytes (no crypto law needed: holds for every `c`) -/

/-- `ExtractAcraBlockFromData` never panics, whatever the input bytes. -/
theorem extractBlock_no_panic : ∀ d : Bytes, extractBlock d ≠ .panic := extractBlock_ne_panic

/-- `ValidateAcraStructLength` never panics, whatever the input bytes. -/
theorem validateStruct_no_panic : ∀ d : Bytes, validateStruct d ≠ .panic := validateStruct_ne_panic

/-- `GetDataLengthFromAcraStruct` slices `data[137:145]` unguarded: it panics exactly on inputs shorter
than the 145-byte header. Every caller checks the length first (see `validateStruct_no_panic`,
`matchOld_no_panic`, `processStructs_no_panic`). -/
theorem getDataLength_no_panic : ∀ d : Bytes, structMin ≤ d.length → getDataLength d ≠ .panic := by
  intro d h; rw [getDataLength_eq d h]; simp

/-- … and it does panic on every shorter input (the guard in the callers is necessary). -/
theorem getDataLength_panics_when_short : ∀ d : Bytes, d.length < structMin → getDataLength d = .panic :=
  getDataLength_short

/-- `ExtractAcraStruct` never panics: declared lengths that are negative as `int`, overflow, or exceed
the buffer are rejected before slicing. -/
theorem extractStruct_no_panic : ∀ d : Bytes, extractStruct d ≠ .panic := extractStruct_ne_panic

/-- `DecryptAcrastruct` never panics, for every key, context and input and every crypto back end. -/
theorem decryptStruct_no_panic : ∀ (c : CryptoOps) (priv ctx d : Bytes), decryptStruct c priv ctx d ≠ .panic :=
  decryptStruct_ne_panic

/-- `DecryptRotatedAcrastruct` never panics, for every list of private keys. -/
theorem decryptStructRotated_no_panic :
    ∀ (c : CryptoOps) (ctx d : Bytes) (keys : List Bytes), decryptStructRotated c ctx d keys ≠ .panic :=
  decryptStructRotated_ne_panic

/-- `validateSerializedContainer` never panics. -/
theorem validateContainer_no_panic : ∀ d : Bytes, validateContainer d ≠ .panic := validateContainer_ne_panic

/-- `matchOldContainer` never panics (it reads the AcraStruct length only after validation). -/
theorem matchOld_no_panic : ∀ d : Bytes, matchOld d ≠ .panic := matchOld_ne_panic

/-- `getEnvelopeIDFromData` never panics. -/
theorem getEnvelopeID_no_panic : ∀ d : Bytes, getEnvelopeID d ≠ .panic := getEnvelopeID_ne_panic

/-- `getSerializedContainerLength` slices `data[3:11]` unguarded: it panics exactly below 11 bytes … -/
theorem containerInternalLength_no_panic :
    ∀ d : Bytes, 11 ≤ d.length → containerInternalLength d ≠ .panic := containerInternalLength_ne_panic

theorem containerInternalLength_panics_when_short :
    ∀ d : Bytes, d.length < 11 → containerInternalLength d = .panic := containerInternalLength_short

/-- … but `DeserializeEncryptedData` only calls it after `validateSerializedContainer` accepted the
data (more than 12 bytes), so deserialisation never panics. -/
theorem deserialize_no_panic : ∀ d : Bytes, deserialize d ≠ .panic := deserialize_ne_panic

/-- `ExtractSerializedContainer` never panics. -/
theorem extractContainer_no_panic : ∀ d : Bytes, extractContainer d ≠ .panic := extractContainer_ne_panic

/-- `AcraBlock.Decrypt` calls through a nil backend when the backend byte is unknown (this mirrors
Go), but never on a block that `ExtractAcraBlockFromData` accepted: that function checks both
backend bytes against the registered tables. -/
theorem decryptBlock_extracted_no_panic (c : CryptoOps) (keys : List Bytes) (ctx d : Bytes) (n : Nat) (b : Bytes) :
    extractBlock d = .ok (n, b) → decryptBlock c keys ctx b ≠ .panic :=
  decryptBlock_extracted_ne_panic c keys ctx d n b

/-- The two `ContainerHandler.Decrypt` implementations never panic (the AcraBlock one decrypts only
what `ExtractAcraBlockFromData` returned). -/
theorem decryptKind_no_panic : ∀ (c : CryptoOps) (kv : KeyView) (k : Kind) (i : Bytes), decryptKind c kv k i ≠ .panic :=
  decryptKind_ne_panic

/-- `RegistryHandler.DecryptWithHandler` never panics. -/
theorem decryptWithHandler_no_panic :
    ∀ (c : CryptoOps) (kv : KeyView) (k : Kind) (d : Bytes), decryptWithHandler c kv k d ≠ .panic :=
  decryptWithHandler_ne_panic

/-- **Reveal never brings the handler down**: `RegistryHandler.Process` returns a value or an error
for every byte string, every key-store answer and every crypto back end. -/
theorem process_no_panic : ∀ (c : CryptoOps) (kv : KeyView) (d : Bytes), process c kv d ≠ .panic := process_ne_panic

theorem reveal_no_panic : ∀ (c : CryptoOps) (kv : KeyView) (d : Bytes), reveal c kv d ≠ .panic := process_ne_panic

/-- **Protect never brings the handler down** either, whatever bytes it is given (including bytes that
look like an envelope already). -/
theorem protect_no_panic :
    ∀ (c : CryptoOps) (kv : KeyView) (k : Kind) (d rnd : Bytes), protect c kv k d rnd ≠ .panic := protect_ne_panic

/-! ## B. the column scans stay inside the buffer, terminate, never panic

`scan`, `processStructs`, `processBlocks` are defined by well-founded recursion on the length of the
remaining buffer: their very definition is the termination proof (every iteration consumes at least
one byte). What remains is that the "slice out of range" branches are unreachable.

Model artefact, stated honestly: `Bytes` is a mathematical list, so it can be longer than any Go
slice. For a buffer of `2^63` bytes or more a declared container length `≥ 2^63` passes the (unsigned)
range check of `ExtractSerializedContainer` and becomes negative as `int`
(see `extractContainer_bounds_needs_int_range` at the end). Go slices are shorter than `2^63` bytes,
so the hypothesis `d.length < 2^63` below holds for every input that can exist. -/

/-- **The fix in `ExtractSerializedContainer`**: on success the caller is told to advance by at least
one byte and by no more than the data holds. -/
theorem extractContainer_bounds (d : Bytes) (n : Int) (cont : Bytes) (hd : d.length < 2^63) :
    extractContainer d = .ok (n, cont) → 0 < n ∧ n ≤ d.length := extractContainer_bounds' hd

/-- An extracted AcraBlock is a prefix of the data, at least the 18-byte header long. -/
theorem extractBlock_bounds (d : Bytes) (n : Nat) (b : Bytes) :
    extractBlock d = .ok (n, b) → 18 ≤ n ∧ n ≤ d.length ∧ b = d.take n := extractBlock_bounds'

/-- An extracted AcraStruct is a prefix of the data, at least the 145-byte header long (and it passes
`ValidateAcraStructLength`). -/
theorem extractStruct_bounds (d : Bytes) (n : Nat) (s : Bytes) :
    extractStruct d = .ok (n, s) → 145 ≤ n ∧ n ≤ d.length ∧ s = d.take n ∧ validateStruct s = .ok () :=
  extractStruct_bounds'

/-- **`OnColumn`'s loop never panics, for ALL callback lists**: callbacks are total functions, the
extractor never panics, and the skip length is in range, so `inBuffer[inIndex:]` is always valid. -/
theorem scan_no_panic : ∀ (cbs : List Callback) (rest : Bytes), rest.length < 2^63 → scan cbs rest ≠ .panic :=
  scan_ne_panic

/-- `EnvelopeDetector.OnColumn` never panics. -/
theorem onColumn_no_panic : ∀ (cbs : List Callback) (d : Bytes), d.length < 2^63 → onColumn cbs d ≠ .panic :=
  onColumn_ne_panic

/-- `ProcessAcraStructs` never panics when the per-struct handler does not (the unguarded
`GetDataLengthFromAcraStruct` is only reached with more than 145 bytes left; a declared length that is
non-positive or exceeds the buffer is skipped, not sliced). No length hypothesis needed. -/
theorem processStructs_no_panic (proc : Bytes → Out Bytes) (hp : ∀ x, proc x ≠ .panic) :
    ∀ rest, processStructs proc rest ≠ .panic := processStructs_ne_panic proc hp

/-- `ProcessAcraBlocks` never panics when the per-block handler does not. -/
theorem processBlocks_no_panic (proc : Bytes → Out Bytes) (hp : ∀ x, proc x ≠ .panic) :
    ∀ rest, processBlocks proc rest ≠ .panic := processBlocks_ne_panic proc hp

/-- `OldContainerDetectorWrapper.OnAcraStruct` / `OnAcraBlock` never panic. -/
theorem onBare_no_panic : ∀ (cbs : List Callback) (id : UInt8) (bare : Bytes), onBare cbs id bare ≠ .panic :=
  onBare_ne_panic

/-- **The transparent column processor never panics**: `OldContainerDetectorWrapper.OnColumn`
(container scan, then bare AcraStructs, then bare AcraBlocks) for every callback list and every
column value. -/
theorem onColumnCompat_no_panic :
    ∀ (cbs : List Callback) (d : Bytes), d.length < 2^63 → onColumnCompat cbs d ≠ .panic := onColumnCompat_ne_panic

/-- With the decrypt callback (which swallows every error) the scan never reports a fatal error –
a damaged value cannot turn into a failed query. True for any callbacks that never answer `fatal`. -/
theorem scan_never_fatal (cbs : List Callback) (hc : ∀ cb ∈ cbs, ∀ x, cb x ≠ .fatal) :
    ∀ rest, scan cbs rest ≠ .fatal := scan_ne_fatal cbs hc

theorem scan_decrypt_never_fatal (c : CryptoOps) (kv : KeyView) (rest : Bytes) :
    scan [decryptCallback c kv] rest ≠ .fatal :=
  scan_ne_fatal _ (by intro cb hm x; rw [List.mem_singleton.1 hm]; exact decryptCallback_ne_fatal c kv x) rest

theorem onColumn_decrypt_never_fatal (c : CryptoOps) (kv : KeyView) (d : Bytes) :
    onColumn [decryptCallback c kv] d ≠ .fatal :=
  onColumn_ne_fatal _ (by intro cb hm x; rw [List.mem_singleton.1 hm]; exact decryptCallback_ne_fatal c kv x) d

/-- … and the same for the whole compatibility wrapper: neither the container scan nor the legacy
struct/block scans can fail with the decrypt callback. -/
theorem onColumnCompat_decrypt_never_fatal (c : CryptoOps) (kv : KeyView) (d : Bytes) :
    onColumnCompat [decryptCallback c kv] d ≠ .fatal :=
  onColumnCompat_ne_fatal _ (by intro cb hm x; rw [List.mem_singleton.1 hm]; exact decryptCallback_ne_fatal c kv x) d

/-! ## C. bounded output (no unbounded allocation) -/

/-- The internal envelope `DeserializeEncryptedData` returns is never longer than its input. -/
theorem deserialize_output_bound (d i : Bytes) (id : UInt8) : deserialize d = .ok (i, id) → i.length ≤ d.length :=
  deserialize_length

/-- **Law-free structural bound on `OnColumn`'s output**: if no callback ever returns more than `B`
bytes, the output has at most `|input| · max 1 B` bytes (each step consumes ≥ 1 input byte and emits
either that byte or one replacement). -/
theorem scan_output_bound (cbs : List Callback) (B : Nat)
    (hc : ∀ cb ∈ cbs, ∀ x b, cb x = .replaced b → b.length ≤ B) (rest out : Bytes) (hit : Bool) :
    scan cbs rest = .ok out hit → out.length ≤ rest.length * max 1 B := scan_output_le cbs B hc rest out hit

/-! ## D. a damaged value is handed back unchanged -/

/-- If at no position the callbacks produce a replacement, the scan output is the input. -/
theorem scan_unchanged (cbs : List Callback) (rest : Bytes)
    (hs : ∀ i, i < rest.length → startsWith containerTag (rest.drop i) = true →
      ∀ n cont, extractContainer (rest.drop i) = .ok (n, cont) → runCallbacks cont cbs = .skip) :
    ∃ hit, scan cbs rest = .ok rest hit := scan_same cbs rest hs

/-- **Whatever cannot be decrypted is returned byte-identical**: if `Process` fails on every suffix of
the column value that starts with the container tag, `OnColumn` with the decrypt callback returns
the value unchanged (and no error). -/
theorem onColumn_damaged_unchanged (c : CryptoOps) (kv : KeyView) (rest : Bytes)
    (hs : ∀ i, i < rest.length → startsWith containerTag (rest.drop i) = true →
      ∀ m, process c kv (rest.drop i) ≠ .ok m) :
    ∃ hit, onColumn [decryptCallback c kv] rest = .ok rest hit :=
  onColumn_decrypt_same c kv rest (fun i hi hst m hm => absurd hm (hs i hi hst m))

end AcraModel.Props.C03
