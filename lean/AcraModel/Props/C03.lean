import AcraModel.Envelope.SafeExamples
import AcraModel.Envelope.SafeBound
import AcraModel.Envelope.SafeCompatSame
import AcraModel.Crypto.ShimLaws
import AcraModel.Envelope.TranslatorLemmas
import AcraModel.Props.C09
import AcraModel.Searchable.MatchLemmas
import AcraModel.Generated.SearchMatcher
/-!
# C03 — any modification of a protected value is detected, never mis-decrypted

Property theorems only. Models: `AcraModel/Envelope/{AcraBlock,AcraStruct,Container,Detector}.lean`,
helper lemmas: `AcraModel/Envelope/Safe*.lean`. The "no panic" / bound theorems also serve C14
(no input can crash a handler or make it loop or allocate without bound).
-/
namespace AcraModel.Props.C03
open AcraModel AcraModel.Envelope Generated

/-! ## facts the proofs need from the regenerated layout -/

/-- Sizes add up: the AcraStruct header is 8+45+84+8 = 145 bytes, the AcraBlock header 18, the
container header 12, and the field positions of the AcraBlock are consecutive. -/
theorem fact_layout_sizes :
    structMin = 145 ∧ structTagLen = 8 ∧ structPubLen = 45 ∧ structKeyBlockLen = 129 ∧ structDataLenSize = 8 ∧
    blockMin = 18 ∧ blockKeyPos = 18 ∧ containerMin = 12 ∧
    Layout.blockTagBeginSize = 4 ∧ Layout.blockRestAcraBlockLengthPosition = 4 ∧ Layout.blockRestAcraBlockLengthSize = 8 ∧
    Layout.blockKeyEncryptionKeyTypePosition = 12 ∧ Layout.blockKeyEncryptionKeyIDPosition = 13 ∧
    Layout.blockKeyEncryptionKeyIDSize = 2 ∧ Layout.blockDataEncryptionTypePosition = 15 ∧
    Layout.blockDataEncryptionKeyLengthPosition = 16 ∧ Layout.blockDataEncryptionKeyLengthSize = 2 ∧
    Layout.containerTagBeginSize = 3 ∧ Layout.containerLengthSize = 8 := by decide

/-- Tags and ids: eight `"` for the AcraStruct, its first four for the AcraBlock, `%%%` for the
container; envelope ids 0xF0 (AcraBlock) and 0xF1 (AcraStruct); only backend 0 is registered. -/
theorem fact_layout_tags :
    structTag = List.replicate 8 34 ∧ blockTag = List.replicate 4 34 ∧ containerTag = List.replicate 3 37 ∧
    idBlock = 240 ∧ idStruct = 241 ∧ Layout.blockKeyBackends = [0] ∧ Layout.blockDataBackends = [0] ∧
    Layout.blockKeyEncryptionBackendTypeSecureCell = 0 ∧ Layout.blockDataEncryptionBackendTypeSecureCell = 0 := by decide

/-! ## A. no decoder panics, whatever the bytes (no crypto law needed: holds for every `c`) -/

/-- `ExtractAcraBlockFromData` never panics, whatever the input bytes. -/
theorem extractBlock_no_panic : ∀ d : Bytes, extractBlock d ≠ .panic := extractBlock_ne_panic

/-- `ValidateAcraStructLength` never panics, whatever the input bytes. -/
theorem validateStruct_no_panic : ∀ d : Bytes, validateStruct d ≠ .panic := validateStruct_ne_panic

/-- `GetDataLengthFromAcraStruct` slices `data[137:145]` unguarded: it panics exactly on inputs shorter
than the 145-byte header. Every caller checks the length first (see `validateStruct_no_panic`,
`matchOld_no_panic`, `processStructs_no_panic`). -/
theorem getDataLength_no_panic : ∀ d : Bytes, structMin ≤ d.length → getDataLength d ≠ .panic := by
  intro d h; rw [getDataLength_eq d h]; simp

/-- … and it does panic on every shorter input (the guard in the callers is necessary). -/
theorem getDataLength_panics_when_short : ∀ d : Bytes, d.length < structMin → getDataLength d = .panic :=
  getDataLength_short

/-- `ExtractAcraStruct` never panics: declared lengths that are negative as `int`, overflow, or exceed
the buffer are rejected before slicing. -/
theorem extractStruct_no_panic : ∀ d : Bytes, extractStruct d ≠ .panic := extractStruct_ne_panic

/-- `DecryptAcrastruct` never panics, for every key, context and input and every crypto back end. -/
theorem decryptStruct_no_panic : ∀ (c : CryptoOps) (priv ctx d : Bytes), decryptStruct c priv ctx d ≠ .panic :=
  decryptStruct_ne_panic

/-- `DecryptRotatedAcrastruct` never panics, for every list of private keys. -/
theorem decryptStructRotated_no_panic :
    ∀ (c : CryptoOps) (ctx d : Bytes) (keys : List Bytes), decryptStructRotated c ctx d keys ≠ .panic :=
  decryptStructRotated_ne_panic

/-- `validateSerializedContainer` never panics. -/
theorem validateContainer_no_panic : ∀ d : Bytes, validateContainer d ≠ .panic := validateContainer_ne_panic

/-- `matchOldContainer` never panics (it reads the AcraStruct length only after validation). -/
theorem matchOld_no_panic : ∀ d : Bytes, matchOld d ≠ .panic := matchOld_ne_panic

/-- `getEnvelopeIDFromData` never panics. -/
theorem getEnvelopeID_no_panic : ∀ d : Bytes, getEnvelopeID d ≠ .panic := getEnvelopeID_ne_panic

/-- `getSerializedContainerLength` slices `data[3:11]` unguarded: it panics exactly below 11 bytes … -/
theorem containerInternalLength_no_panic :
    ∀ d : Bytes, 11 ≤ d.length → containerInternalLength d ≠ .panic := containerInternalLength_ne_panic

theorem containerInternalLength_panics_when_short :
    ∀ d : Bytes, d.length < 11 → containerInternalLength d = .panic := containerInternalLength_short

/-- … but `DeserializeEncryptedData` only calls it after `validateSerializedContainer` accepted the
data (more than 12 bytes), so deserialisation never panics. -/
theorem deserialize_no_panic : ∀ d : Bytes, deserialize d ≠ .panic := deserialize_ne_panic

/-- `ExtractSerializedContainer` never panics. -/
theorem extractContainer_no_panic : ∀ d : Bytes, extractContainer d ≠ .panic := extractContainer_ne_panic

/-- `AcraBlock.Decrypt` calls through a nil backend when the backend byte is unknown (this mirrors
Go), but never on a block that `ExtractAcraBlockFromData` accepted: that function checks both
backend bytes against the registered tables. -/
theorem decryptBlock_extracted_no_panic (c : CryptoOps) (keys : List Bytes) (ctx d : Bytes) (n : Nat) (b : Bytes) :
    extractBlock d = .ok (n, b) → decryptBlock c keys ctx b ≠ .panic :=
  decryptBlock_extracted_ne_panic c keys ctx d n b

/-- The two `ContainerHandler.Decrypt` implementations never panic (the AcraBlock one decrypts only
what `ExtractAcraBlockFromData` returned). -/
theorem decryptKind_no_panic : ∀ (c : CryptoOps) (kv : KeyView) (k : Kind) (i : Bytes), decryptKind c kv k i ≠ .panic :=
  decryptKind_ne_panic

/-- `RegistryHandler.DecryptWithHandler` never panics. -/
theorem decryptWithHandler_no_panic :
    ∀ (c : CryptoOps) (kv : KeyView) (k : Kind) (d : Bytes), decryptWithHandler c kv k d ≠ .panic :=
  decryptWithHandler_ne_panic

/-- **Reveal never brings the handler down**: `RegistryHandler.Process` returns a value or an error
for every byte string, every key-store answer and every crypto back end. -/
theorem process_no_panic : ∀ (c : CryptoOps) (kv : KeyView) (d : Bytes), process c kv d ≠ .panic := process_ne_panic

theorem reveal_no_panic : ∀ (c : CryptoOps) (kv : KeyView) (d : Bytes), reveal c kv d ≠ .panic := process_ne_panic

/-- **Protect never brings the handler down** either, whatever bytes it is given (including bytes that
look like an envelope already). -/
theorem protect_no_panic :
    ∀ (c : CryptoOps) (kv : KeyView) (k : Kind) (d rnd : Bytes), protect c kv k d rnd ≠ .panic := protect_ne_panic

/-! ## B. the column scans stay inside the buffer, terminate, never panic

`scan`, `processStructs`, `processBlocks` are defined by well-founded recursion on the length of the
remaining buffer: their very definition is the termination proof (every iteration consumes at least
one byte). What remains is that the "slice out of range" branches are unreachable.

Model artefact, stated honestly: `Bytes` is a mathematical list, so it can be longer than any Go
slice. For a buffer of `2^63` bytes or more a declared container length `≥ 2^63` passes the (unsigned)
range check of `ExtractSerializedContainer` and becomes negative as `int`
(see `extractContainer_bounds_needs_int_range` at the end). Go slices are shorter than `2^63` bytes,
so the hypothesis `d.length < 2^63` below holds for every input that can exist. -/

/-- **The fix in `ExtractSerializedContainer`**: on success the caller is told to advance by at least
one byte and by no more than the data holds. -/
theorem extractContainer_bounds (d : Bytes) (n : Int) (cont : Bytes) (hd : d.length < 2^63) :
    extractContainer d = .ok (n, cont) → 0 < n ∧ n ≤ d.length := extractContainer_bounds' hd

/-- An extracted AcraBlock is a prefix of the data, at least the 18-byte header long. -/
theorem extractBlock_bounds (d : Bytes) (n : Nat) (b : Bytes) :
    extractBlock d = .ok (n, b) → 18 ≤ n ∧ n ≤ d.length ∧ b = d.take n := extractBlock_bounds'

/-- An extracted AcraStruct is a prefix of the data, at least the 145-byte header long (and it passes
`ValidateAcraStructLength`). -/
theorem extractStruct_bounds (d : Bytes) (n : Nat) (s : Bytes) :
    extractStruct d = .ok (n, s) → 145 ≤ n ∧ n ≤ d.length ∧ s = d.take n ∧ validateStruct s = .ok () :=
  extractStruct_bounds'

/-- **`OnColumn`'s loop never panics, for ALL callback lists**: callbacks are total functions, the
extractor never panics, and the skip length is in range, so `inBuffer[inIndex:]` is always valid. -/
theorem scan_no_panic : ∀ (cbs : List Callback) (rest : Bytes), rest.length < 2^63 → scan cbs rest ≠ .panic :=
  scan_ne_panic

/-- `EnvelopeDetector.OnColumn` never panics. -/
theorem onColumn_no_panic : ∀ (cbs : List Callback) (d : Bytes), d.length < 2^63 → onColumn cbs d ≠ .panic :=
  onColumn_ne_panic

/-- `ProcessAcraStructs` never panics when the per-struct handler does not (the unguarded
`GetDataLengthFromAcraStruct` is only reached with more than 145 bytes left; a declared length that is
non-positive or exceeds the buffer is skipped, not sliced). No length hypothesis needed. -/
theorem processStructs_no_panic (proc : Bytes → Out Bytes) (hp : ∀ x, proc x ≠ .panic) :
    ∀ rest, processStructs proc rest ≠ .panic := processStructs_ne_panic proc hp

/-- `ProcessAcraBlocks` never panics when the per-block handler does not. -/
theorem processBlocks_no_panic (proc : Bytes → Out Bytes) (hp : ∀ x, proc x ≠ .panic) :
    ∀ rest, processBlocks proc rest ≠ .panic := processBlocks_ne_panic proc hp

/-- `OldContainerDetectorWrapper.OnAcraStruct` / `OnAcraBlock` never panic. -/
theorem onBare_no_panic : ∀ (cbs : List Callback) (id : UInt8) (bare : Bytes), onBare cbs id bare ≠ .panic :=
  onBare_ne_panic

/-- **The transparent column processor never panics**: `OldContainerDetectorWrapper.OnColumn`
(container scan, then bare AcraStructs, then bare AcraBlocks) for every callback list and every
column value. -/
theorem onColumnCompat_no_panic :
    ∀ (cbs : List Callback) (d : Bytes), d.length < 2^63 → onColumnCompat cbs d ≠ .panic := onColumnCompat_ne_panic

/-- With the decrypt callback (which swallows every error) the scan never reports a fatal error –
a damaged value cannot turn into a failed query. True for any callbacks that never answer `fatal`. -/
theorem scan_never_fatal (cbs : List Callback) (hc : ∀ cb ∈ cbs, ∀ x, cb x ≠ .fatal) :
    ∀ rest, scan cbs rest ≠ .fatal := scan_ne_fatal cbs hc

theorem scan_decrypt_never_fatal (c : CryptoOps) (kv : KeyView) (rest : Bytes) :
    scan [decryptCallback c kv] rest ≠ .fatal :=
  scan_ne_fatal _ (by intro cb hm x; rw [List.mem_singleton.1 hm]; exact decryptCallback_ne_fatal c kv x) rest

theorem onColumn_decrypt_never_fatal (c : CryptoOps) (kv : KeyView) (d : Bytes) :
    onColumn [decryptCallback c kv] d ≠ .fatal :=
  onColumn_ne_fatal _ (by intro cb hm x; rw [List.mem_singleton.1 hm]; exact decryptCallback_ne_fatal c kv x) d

/-- … and the same for the whole compatibility wrapper: neither the container scan nor the legacy
struct/block scans can fail with the decrypt callback. -/
theorem onColumnCompat_decrypt_never_fatal (c : CryptoOps) (kv : KeyView) (d : Bytes) :
    onColumnCompat [decryptCallback c kv] d ≠ .fatal :=
  onColumnCompat_ne_fatal _ (by intro cb hm x; rw [List.mem_singleton.1 hm]; exact decryptCallback_ne_fatal c kv x) d

/-! ## C. bounded output (no unbounded allocation) -/

/-- The internal envelope `DeserializeEncryptedData` returns is never longer than its input. -/
theorem deserialize_output_bound (d i : Bytes) (id : UInt8) : deserialize d = .ok (i, id) → i.length ≤ d.length :=
  deserialize_length

/-- **Law-free structural bound on `OnColumn`'s output**: if no callback ever returns more than `B`
bytes, the output has at most `|input| · max 1 B` bytes (each step consumes ≥ 1 input byte and emits
either that byte or one replacement). -/
theorem scan_output_bound (cbs : List Callback) (B : Nat)
    (hc : ∀ cb ∈ cbs, ∀ x b, cb x = .replaced b → b.length ≤ B) (rest out : Bytes) (hit : Bool) :
    scan cbs rest = .ok out hit → out.length ≤ rest.length * max 1 B := scan_output_le cbs B hc rest out hit

/-- **Reveal never grows a value** (laws of the real back end's algorithm: `SealLaws` + `SealLen`, both
proved for the Shim; no commitment assumed): the plaintext is at least 44 bytes shorter than the input. -/
theorem reveal_output_bound (c : CryptoOps) (hs : SealLaws c) (hl : SealLen c) (kv : KeyView) (d m : Bytes) :
    reveal c kv d = .ok m → m.length + 44 ≤ d.length := process_length hs hl

/-- **`OnColumn` with the decrypt callback never grows a value** (same laws): each replacement is
shorter than the declared length of the container it replaces, so the output buffer – allocated
with capacity `len(inBuffer)` in the Go code – never has to grow. -/
theorem scan_decrypt_output_bound (c : CryptoOps) (hs : SealLaws c) (hl : SealLen c) (kv : KeyView)
    (rest out : Bytes) (hit : Bool) :
    scan [decryptCallback c kv] rest = .ok out hit → out.length ≤ rest.length := scan_decrypt_le hs hl kv rest out hit

theorem onColumn_decrypt_output_bound (c : CryptoOps) (hs : SealLaws c) (hl : SealLen c) (kv : KeyView)
    (d out : Bytes) (hit : Bool) :
    onColumn [decryptCallback c kv] d = .ok out hit → out.length ≤ d.length := by
  unfold onColumn
  split
  · intro h; cases h; exact Nat.le_refl _
  · exact scan_decrypt_le hs hl kv d out hit

/-! ## D. a damaged value is handed back unchanged -/

/-- If at no position the callbacks produce a replacement, the scan output is the input. -/
theorem scan_unchanged (cbs : List Callback) (rest : Bytes)
    (hs : ∀ i, i < rest.length → startsWith containerTag (rest.drop i) = true →
      ∀ n cont, extractContainer (rest.drop i) = .ok (n, cont) → runCallbacks cont cbs = .skip) :
    ∃ hit, scan cbs rest = .ok rest hit := scan_same cbs rest hs

/-- **Whatever cannot be decrypted is returned byte-identical**: if `Process` fails on every suffix of
the column value that starts with the container tag, `OnColumn` with the decrypt callback returns
the value unchanged (and no error). -/
theorem onColumn_damaged_unchanged (c : CryptoOps) (kv : KeyView) (rest : Bytes)
    (hs : ∀ i, i < rest.length → startsWith containerTag (rest.drop i) = true →
      ∀ m, process c kv (rest.drop i) ≠ .ok m) :
    ∃ hit, onColumn [decryptCallback c kv] rest = .ok rest hit :=
  onColumn_decrypt_same c kv rest (fun i hi hst m hm => absurd hm (hs i hi hst m))

/-- **The transparent column processor hands a value it cannot decrypt back byte for byte**
(`OldContainerDetectorWrapper.OnColumn`: container scan, then bare AcraStructs, then bare AcraBlocks).
If `Process` fails at every position where a container tag starts, and on the serialized form of every
contiguous part of the value (that is what the legacy scans hand to the callbacks), the client
receives exactly the stored bytes, and no error. -/
theorem onColumnCompat_damaged_unchanged (c : CryptoOps) (kv : KeyView) (rest : Bytes)
    (h1 : ∀ i, i < rest.length → startsWith containerTag (rest.drop i) = true →
      ∀ m, process c kv (rest.drop i) ≠ .ok m)
    (h2 : ∀ x id s, x <:+: rest → serialize x id = .ok s → ∀ m, process c kv s ≠ .ok m) :
    ∃ hit, onColumnCompat [decryptCallback c kv] rest = .ok rest hit :=
  onColumnCompat_decrypt_same c kv rest h1 h2

/-! ## E. accepted ⇒ genuine (ideal authenticity of the seal: `SealLaws c`)

What the reader accepts is literally what the writer builds for exactly that plaintext under one of
the reader's keys. Consequences under commitment (`SealCommit c`, never together with a length
law): keeping the sealed data part fixes the plaintext; splicing parts of two values is rejected. -/

/-- **AcraBlock: accepted ⇒ genuine.** If `AcraBlock.Decrypt` returns `m`, then for one of the reader's
keys there are a data key and nonces such that the block, from byte 12 on, is exactly what
`CreateAcraBlock`/`Build` produces: backend ids, the key id of that key, the 2-byte length of the
sealed data key, the data key sealed under the reader's key, and `m` sealed under the data key
(same context). The only bytes `Decrypt` never looks at – hence free – are the first twelve: tag and
rest-length (checked by `ExtractAcraBlockFromData`, see `reveal_genuine`). -/
theorem decryptBlock_genuine (c : CryptoOps) (hs : SealLaws c) (keys : List Bytes) (ctx b m : Bytes)
    (h : decryptBlock c keys ctx b = .ok m) :
    ∃ key ∈ keys, ∃ dek n1 n2 encKey encData,
      n1.length = nonceLen ∧ n2.length = nonceLen ∧
      c.enc key ctx dek n2 = some encKey ∧ c.enc dek ctx m n1 = some encData ∧
      encKey = (b.take (18 + leVal ((b.take 18).drop 16))).drop 18 ∧
      encData = b.drop (18 + leVal ((b.take 18).drop 16)) ∧
      b.drop 12 = (buildBlock (keyId c key ctx) encKey encData).drop 12 := by
  obtain ⟨hl, h12, h15, key, hm, dek, hid, hk, hd⟩ := decryptBlock_ok_parts h
  obtain ⟨n2, hn2, e2⟩ := hs.enc_of_dec _ _ _ _ hk
  obtain ⟨n1, hn1, e1⟩ := hs.enc_of_dec _ _ _ _ hd
  refine ⟨key, hm, dek, n1, n2, blockEncKey b, blockEncData b, hn1, hn2, e2, e1, rfl, rfl, ?_⟩
  rw [hid]
  exact block_layout_from12 b hl h12 h15

/-- **AcraStruct: accepted ⇒ genuine.** If `DecryptAcrastruct` returns `m`, the input is
`tag | pub(45) | wrapped(84) | len(8) | body` with `len = |body|`, the wrapped key unwraps under the
reader's private key to a symmetric key, and `body` is `m` sealed under that key and the context –
the shape `CreateAcrastruct` produces. -/
theorem decryptStruct_genuine (c : CryptoOps) (hs : SealLaws c) (priv ctx d m : Bytes)
    (h : decryptStruct c priv ctx d = .ok m) :
    ∃ pub wrapped body symKey n2, pub.length = 45 ∧ wrapped.length = 84 ∧ n2.length = nonceLen ∧
      d = structTag ++ pub ++ wrapped ++ leBytes 8 body.length ++ body ∧
      c.unwrap priv pub wrapped = some symKey ∧ symKey ≠ [] ∧ c.enc symKey ctx m n2 = some body := by
  obtain ⟨hv, symKey, hne, hu, hd⟩ := decryptStruct_ok_parts h
  obtain ⟨n2, hn2, e2⟩ := hs.enc_of_dec _ _ _ _ hd
  have hl := (validateStruct_ok hv).1
  refine ⟨(d.drop 8).take 45, (d.drop 53).take 84, d.drop 145, symKey, n2, ?_, ?_, hn2,
    validateStruct_layout hv, hu, hne, e2⟩
  · rw [List.length_take, List.length_drop]; omega
  · rw [List.length_take, List.length_drop]; omega

/-- … and when the ephemeral public key in the AcraStruct belongs to a valid key pair (as it does when
`CreateAcrastruct` made it) and the reader's key is valid, the wrapped key is literally
`wrap ePriv (pubOf priv) symKey` (ideal authenticity of Secure Message, `MsgLaws c`). -/
theorem decryptStruct_genuine_sender (c : CryptoOps) (hs : SealLaws c) (hm : MsgLaws c) (priv ePriv ctx rest m : Bytes)
    (hp : c.validPriv priv = true) (he : c.validPriv ePriv = true)
    (h : decryptStruct c priv ctx (structTag ++ c.pubOf ePriv ++ rest) = .ok m) (hlen : (c.pubOf ePriv).length = 45) :
    ∃ wrapped body symKey n1 n2, n1.length = nonceLen ∧ n2.length = nonceLen ∧
      rest = wrapped ++ leBytes 8 body.length ++ body ∧
      c.wrap ePriv (c.pubOf priv) symKey n1 = some wrapped ∧ c.enc symKey ctx m n2 = some body := by
  obtain ⟨pub, wrapped, body, symKey, n2, hpl, hwl, hn2, hd, hu, _, e2⟩ := decryptStruct_genuine c hs _ _ _ _ h
  simp only [List.append_assoc] at hd
  have h1 := List.append_cancel_left hd
  have h2 := List.append_inj h1 (by rw [hlen, hpl])
  obtain ⟨h3, h4⟩ := h2
  subst h3
  obtain ⟨n1, hn1, e1⟩ := hm.wrap_of_unwrap ePriv priv wrapped symKey he hp hu
  exact ⟨wrapped, body, symKey, n1, n2, hn1, hn2, by rw [h4]; simp, e1, e2⟩

/-- **No mis-decryption (AcraBlock).** Whoever keeps the sealed data part of a value cannot make the
reader return anything but the original plaintext, whatever else is modified, truncated, extended
or spliced (tag, lengths, backend ids, key id, key part): if the bytes after the key part are a
ciphertext of `m0` and the block decrypts at all, it decrypts to `m0` – and only in the original
context. -/
theorem block_no_misdecrypt (c : CryptoOps) (hs : SealLaws c) (hc : SealCommit c) (keys : List Bytes)
    (ctx b m dek0 ctx0 m0 n0 ct0 : Bytes) (h : decryptBlock c keys ctx b = .ok m)
    (hdata : b.drop (18 + leVal ((b.take 18).drop 16)) = ct0) (h0 : c.enc dek0 ctx0 m0 n0 = some ct0) :
    m = m0 ∧ ctx = ctx0 := by
  obtain ⟨key, _, dek, n1, n2, encKey, encData, _, _, _, e1, _, hed, _⟩ := decryptBlock_genuine c hs keys ctx b m h
  rw [hed, hdata] at e1
  obtain ⟨_, h2, h3⟩ := hc.enc_inj _ _ _ _ _ _ _ _ _ e1 h0
  exact ⟨h3, h2⟩

/-- **Splicing is rejected (AcraBlock).** The key part of one value (data key `dek1`) combined with the
data part of another value (sealed under `dek2 ≠ dek1`) is never accepted, under any key list. -/
theorem block_splice_rejected (c : CryptoOps) (hs : SealLaws c) (hc : SealCommit c) (keys : List Bytes)
    (ctx b key1 dek1 nk encKey1 dek2 ctx2 m2 nd ct2 : Bytes)
    (hk : c.enc key1 ctx dek1 nk = some encKey1) (hd : c.enc dek2 ctx2 m2 nd = some ct2) (hne : dek1 ≠ dek2)
    (hkey : (b.take (18 + leVal ((b.take 18).drop 16))).drop 18 = encKey1)
    (hdata : b.drop (18 + leVal ((b.take 18).drop 16)) = ct2) :
    ∀ m, decryptBlock c keys ctx b ≠ .ok m := by
  intro m h
  obtain ⟨key, _, dek, n1, n2, encKey, encData, _, _, e2, e1, hek, hed, _⟩ := decryptBlock_genuine c hs keys ctx b m h
  rw [hek, hkey] at e2
  rw [hed, hdata] at e1
  obtain ⟨_, _, h3⟩ := hc.enc_inj _ _ _ _ _ _ _ _ _ e2 hk
  obtain ⟨h4, _, _⟩ := hc.enc_inj _ _ _ _ _ _ _ _ _ e1 hd
  exact hne (h3.symm.trans h4)

/-- **No mis-decryption (AcraStruct).** If the sealed body of an AcraStruct (the bytes after the
145-byte header) is a ciphertext of `m0`, a successful decryption yields `m0`, in the original context. -/
theorem struct_no_misdecrypt (c : CryptoOps) (hs : SealLaws c) (hc : SealCommit c)
    (priv ctx d m k0 ctx0 m0 n0 ct0 : Bytes) (h : decryptStruct c priv ctx d = .ok m)
    (hdata : d.drop 145 = ct0) (h0 : c.enc k0 ctx0 m0 n0 = some ct0) : m = m0 ∧ ctx = ctx0 := by
  obtain ⟨_, symKey, _, _, hd⟩ := decryptStruct_ok_parts h
  obtain ⟨n2, _, e2⟩ := hs.enc_of_dec _ _ _ _ hd
  rw [hdata] at e2
  obtain ⟨_, h2, h3⟩ := hc.enc_inj _ _ _ _ _ _ _ _ _ e2 h0
  exact ⟨h3, h2⟩

/-- **Reveal: accepted ⇒ genuine.** If `RegistryHandler.Process` returns `m` for `d`, then the internal
envelope `DeserializeEncryptedData` cuts out of `d` (the declared-length part of a serialized
container, or `d` itself for a bare envelope) is
* either *exactly* the AcraBlock `Build` produces for `m` – tag, rest-length and all – under one of
  the client's symmetric keys (empty context),
* or an AcraStruct of the shape `CreateAcrastruct` produces for `m`, whose wrapped key unwraps under
  one of the server's private keys.
In particular a value altered anywhere inside the internal envelope reveals to the original plaintext
or fails; bytes of `d` outside the internal envelope are only the 12-byte container header and
whatever follows the declared length. -/
theorem reveal_genuine (c : CryptoOps) (hs : SealLaws c) (kv : KeyView) (d m : Bytes) (h : reveal c kv d = .ok m) :
    ∃ internal id, deserialize d = .ok (internal, id) ∧
      ((id = idBlock ∧ ∃ ks, kv.syms = some ks ∧ ∃ key ∈ ks, ∃ dek n1 n2 encKey encData,
          n1.length = nonceLen ∧ n2.length = nonceLen ∧
          c.enc key [] dek n2 = some encKey ∧ c.enc dek [] m n1 = some encData ∧
          internal = buildBlock (keyId c key []) encKey encData) ∨
       (id = idStruct ∧ ∃ ps, kv.privs = some ps ∧ ∃ priv ∈ ps, ∃ pub wrapped body symKey n2,
          pub.length = 45 ∧ wrapped.length = 84 ∧ n2.length = nonceLen ∧
          internal = structTag ++ pub ++ wrapped ++ leBytes 8 body.length ++ body ∧
          c.unwrap priv pub wrapped = some symKey ∧ symKey ≠ [] ∧ c.enc symKey [] m n2 = some body)) := by
  obtain ⟨k, i, hd, hk⟩ := process_ok h
  refine ⟨i, k.id, hd, ?_⟩
  cases k with
  | block =>
    left
    obtain ⟨hh, hr, _, ks, hks, hdec⟩ := decryptKind_block_ok hk
    obtain ⟨hl, h12, h15, key, hm, dek, hid, hkd, hdd⟩ := decryptBlock_ok_parts hdec
    obtain ⟨n2, hn2, e2⟩ := hs.enc_of_dec _ _ _ _ hkd
    obtain ⟨n1, hn1, e1⟩ := hs.enc_of_dec _ _ _ _ hdd
    refine ⟨rfl, ks, hks, key, hm, dek, n1, n2, blockEncKey i, blockEncData i, hn1, hn2, e2, e1, ?_⟩
    rw [hid]
    exact block_layout_full i hl h12 h15 ((blockHeaderOk_iff i).1 hh).1 hr
  | struct =>
    right
    obtain ⟨ps, hps, priv, hpm, hdec⟩ := decryptKind_struct_ok hk
    exact ⟨rfl, ps, hps, priv, hpm, decryptStruct_genuine c hs priv [] i m hdec⟩

/-- **Reveal never yields different plaintext.** If the data part of the internal AcraBlock (or the body
of the internal AcraStruct) of `d` is a ciphertext of `m0`, then `reveal` either fails or returns
exactly `m0` – whatever else in `d` was flipped, truncated, extended, re-typed or spliced in. -/
theorem reveal_no_misdecrypt (c : CryptoOps) (hs : SealLaws c) (hc : SealCommit c) (kv : KeyView)
    (d internal : Bytes) (id : UInt8) (k0 ctx0 m0 n0 ct0 : Bytes)
    (hd : deserialize d = .ok (internal, id)) (h0 : c.enc k0 ctx0 m0 n0 = some ct0)
    (hdata : (id = idBlock ∧ internal.drop (18 + leVal ((internal.take 18).drop 16)) = ct0) ∨
             (id = idStruct ∧ internal.drop 145 = ct0)) :
    reveal c kv d = .err ∨ reveal c kv d = .ok m0 := by
  cases hr : reveal c kv d with
  | err => exact .inl rfl
  | panic => exact absurd hr (process_ne_panic c kv d)
  | ok m =>
    right
    obtain ⟨k, i, hd', hk⟩ := process_ok hr
    rw [hd] at hd'
    simp only [Out.ok.injEq, Prod.mk.injEq] at hd'
    obtain ⟨rfl, hid⟩ := hd'
    cases k with
    | block =>
      rcases hdata with ⟨_, hdat⟩ | ⟨hi, _⟩
      · obtain ⟨_, _, _, ks, _, hdec⟩ := decryptKind_block_ok hk
        rw [(block_no_misdecrypt c hs hc ks [] internal m k0 ctx0 m0 n0 ct0 hdec hdat h0).1]
      · rw [hi] at hid; exact absurd hid (by decide)
    | struct =>
      rcases hdata with ⟨hi, _⟩ | ⟨_, hdat⟩
      · rw [hi] at hid; exact absurd hid (by decide)
      · obtain ⟨ps, _, priv, _, hdec⟩ := decryptKind_struct_ok hk
        rw [(struct_no_misdecrypt c hs hc priv [] internal m k0 ctx0 m0 n0 ct0 hdec hdat h0).1]

/-! ## E'. a swapped search hash

A searchable value is stored as `hash ++ envelope` (`hash` = function number + HMAC of the plaintext).
The searchable reveal entry points – `DecryptRotatedSearchableAcraStruct` / `…AcraBlock`
(`decryptSearchableStruct/Block`), AcraTranslator `DecryptSearchable` / `DecryptSymSearchable`
(`Searchable.translatorDecrypt`, the core of `Translator.decryptSearchableWith`) and the two-pass
`hmac.Processor` around the envelope detector in the SQL proxies (`Searchable.column`) – re-verify the
hash after decryption. The theorems below are derived from C09's `bad_index_not_valid*`. -/

section SearchableHash
open AcraModel.Searchable AcraModel.Envelope.Translator

/-- Generic form (`NewHashProcessor` around any decrypting function `proc`). The envelope `e` is intact
and `proc` reveals `m` from it; the 33 bytes in front of it were replaced by ANY well-formed hash `h'`
(known function number, 32 more bytes – so that it is cut off as a hash). Then: whatever is accepted is
exactly `m`, and that happens only if `h'` is the genuine index of `m`; any other `h'` makes the reveal
fail (an error – not a panic, not another plaintext). -/
theorem searchable_hash_checked (c : CryptoOps) (hl : HashLen c) (k : Bytes) (proc : Bytes → Out Bytes)
    (h' e m : Bytes) (hwf : extractHash (h' ++ e) = some h') (hdec : proc e = .ok m) :
    (∀ p, hashProcessor c (some k) proc (h' ++ e) = .ok p → p = m ∧ h' = generateHMAC c k m) ∧
    (h' ≠ generateHMAC c k m → hashProcessor c (some k) proc (h' ++ e) = .err) ∧
    (h' = generateHMAC c k m → hashProcessor c (some k) proc (h' ++ e) = .ok m) := by
  have hdrop : (h' ++ e).drop h'.length = e := by simp
  have h1 : ∀ p, hashProcessor c (some k) proc (h' ++ e) = .ok p → p = m ∧ h' = generateHMAC c k m := by
    intro p hok
    obtain ⟨hh, hp⟩ := C09.bad_index_not_valid c hl k proc (h' ++ e) h' p hwf hok
    rw [hdrop, hdec] at hp
    cases hp
    exact ⟨rfl, hh⟩
  have hval : hashProcessor c (some k) proc (h' ++ e) = if isEqual c (some k) h' m then .ok m else .err := by
    unfold hashProcessor
    simp only [hwf, hdrop, hdec]
  refine ⟨h1, ?_, ?_⟩
  · intro hne
    cases hr : hashProcessor c (some k) proc (h' ++ e) with
    | ok p => exact absurd (h1 p hr).2 hne
    | err => rfl
    | panic => rw [hval] at hr; split at hr <;> cases hr
  · intro heq
    rw [hval, (isEqual_iff c hl k m hwf).mpr heq]
    rfl

/-- **A swapped search hash makes every searchable reveal fail.** `e` is an intact envelope of `m`
(each entry point's own decrypt step reveals `m` from it) and `h'` any well-formed hash other than the
genuine index of `m` put in front of it. Then
* the library calls `DecryptRotatedSearchableAcraStruct` / `DecryptRotatedSearchableAcraBlock` return an error,
* AcraTranslator's `DecryptSearchable` / `DecryptSymSearchable` answer with an error, whether the hash
  is passed as the separate argument or concatenated in front of the envelope,
* the SQL proxies' chain `hmacProcessor → detector → hmacProcessor` hands the client the STORED bytes
  unchanged (never the decrypted ones) and keeps no state for the next column. -/
theorem searchable_hash_swap (c : CryptoOps) (hl : HashLen c) (k : Bytes) (h' e m : Bytes)
    (hwf : extractHash (h' ++ e) = some h') (hne : h' ≠ generateHMAC c k m) :
    (∀ privs ctx, decryptStructRotated c ctx e privs = .ok m → decryptSearchableStruct c k privs ctx (h' ++ e) = .err) ∧
    (∀ keys ctx, decryptWholeBlock c keys ctx e = .ok m → decryptSearchableBlock c k keys ctx (h' ++ e) = .err) ∧
    (∀ kv kd, decryptWithHandler c kv kd e = .ok m → Searchable.translatorDecrypt c (some k) kv kd (h' ++ e) = .err) ∧
    (∀ (st : Store) id kd, st.hmac id = some k → decryptWithHandler c (st.keys id) kd e = .ok m →
      (decryptSearchableWith kd c st e (some h') (some id) none).1 = .err ∧
      (decryptSearchableWith kd c st (h' ++ e) none (some id) none).1 = .err) ∧
    (∀ det s hit, matchEnvelope e = .ok true → det e = .ok m hit →
      column c (some k) det s (h' ++ e) = .ok (PState.init, some (h' ++ e))) := by
  have hdrop : (h' ++ e).drop h'.length = e := by simp
  have htr : ∀ kv kd, decryptWithHandler c kv kd e = .ok m → Searchable.translatorDecrypt c (some k) kv kd (h' ++ e) = .err := by
    intro kv kd hd
    cases hr : Searchable.translatorDecrypt c (some k) kv kd (h' ++ e) with
    | err => rfl
    | ok p =>
      have hh := C09.bad_index_not_valid_translator c hl k kv kd (h' ++ e) h' p hwf hr
      obtain ⟨hp, _⟩ := translatorDecrypt_checked c (some k) kv kd (h' ++ e) h' p hwf hr
      rw [hdrop, hd] at hp
      cases hp
      exact absurd hh hne
    | panic =>
      unfold Searchable.translatorDecrypt extractHashAndData at hr
      simp only [hwf, hdrop, hd] at hr
      split at hr <;> cases hr
  refine ⟨?_, ?_, htr, ?_, ?_⟩
  · intro privs ctx hd
    exact (searchable_hash_checked c hl k _ h' e m hwf hd).2.1 hne
  · intro keys ctx hd
    exact (searchable_hash_checked c hl k _ h' e m hwf hd).2.1 hne
  · intro st id kd hk hd
    rw [decryptSearchableWith_fst, decryptSearchableWith_fst, hk]
    exact ⟨htr _ kd hd, htr _ kd hd⟩
  · intro det s hit hm hd
    exact (C09.bad_index_not_valid_proxy c hl k det s (h' ++ e) h' m hit hwf (by rw [hdrop]; exact hm)
      (by rw [hdrop]; exact hd)).1 hne

/-- **The hash of value A in front of the envelope of value B.** If HMAC under the client's key does
not collide on the two values at hand (finite hypothesis `NoColl` on `{a, m}` – not injectivity on all
byte strings, which 32-byte MACs cannot have), the index of `a ≠ m` in front of an envelope of `m` is a
swapped hash in the sense of `searchable_hash_swap`: every searchable reveal entry point fails (the
transparent path returns the stored bytes). -/
theorem searchable_hash_of_other_value (c : CryptoOps) (hl : HashLen c) (k a e m : Bytes)
    (hnc : NoColl c k (fun v => v = a ∨ v = m)) (ham : a ≠ m) :
    extractHash (generateHMAC c k a ++ e) = some (generateHMAC c k a) ∧
    generateHMAC c k a ≠ generateHMAC c k m ∧
    (∀ kv kd, decryptWithHandler c kv kd e = .ok m →
      Searchable.translatorDecrypt c (some k) kv kd (generateHMAC c k a ++ e) = .err) ∧
    (∀ keys ctx, decryptWholeBlock c keys ctx e = .ok m →
      decryptSearchableBlock c k keys ctx (generateHMAC c k a ++ e) = .err) ∧
    (∀ privs ctx, decryptStructRotated c ctx e privs = .ok m →
      decryptSearchableStruct c k privs ctx (generateHMAC c k a ++ e) = .err) ∧
    (∀ det s hit, matchEnvelope e = .ok true → det e = .ok m hit →
      column c (some k) det s (generateHMAC c k a ++ e) = .ok (PState.init, some (generateHMAC c k a ++ e))) := by
  have hwf := extractHash_stored c hl k a e
  have hne : generateHMAC c k a ≠ generateHMAC c k m := fun h =>
    ham (hnc a m (Or.inl rfl) (Or.inr rfl) ((generateHMAC_eq_iff c k a m).mp h))
  obtain ⟨h1, h2, h3, _, h5⟩ := searchable_hash_swap c hl k (generateHMAC c k a) e m hwf hne
  exact ⟨hwf, hne, h3, h2, h1, h5⟩

/-- **Hash function byte changed / hash cut short.** When the bytes in front of the envelope do not
start with a registered hash function number, or fewer than 33 bytes are there at all, nothing is cut
off as a hash: AcraTranslator's searchable decrypts answer with an error at once, for any keys. -/
theorem searchable_hash_unknown_function (c : CryptoOps) (hkey : Option Bytes) (kv : KeyView) (kd : Kind) (d : Bytes)
    (h : d.length < hashSize ∨ ∃ b rest, d = b :: rest ∧ knownFunc b = false) :
    Searchable.translatorDecrypt c hkey kv kd d = .err := by
  have hx : extractHash d = none := by
    unfold extractHash
    cases d with
    | nil => rfl
    | cons b rest =>
      simp only
      rcases h with h | ⟨b', rest', hd, hk⟩
      · by_cases hk : knownFunc b = true
        · have : rest.length < macLen := by
            simp only [List.length_cons, hashSize_eq] at h
            rw [macLen_eq]; omega
          simp [hk, this]
        · simp [hk]
      · cases hd
        simp [hk]
  unfold Searchable.translatorDecrypt extractHashAndData
  rw [hx]

/-- Whatever a searchable reveal entry point accepts (any input, damaged in any way) carries in front
the genuine index of exactly the plaintext handed out, and the rest of the input decrypts to that
plaintext – the hash can never "validate" different content. (C09's `bad_index_not_valid*` for the
library calls and the translator, restated next to the other C03 acceptance theorems.) -/
theorem searchable_accept_is_genuine (c : CryptoOps) (hl : HashLen c) (k : Bytes) (data h p : Bytes)
    (he : extractHash data = some h) :
    (∀ privs ctx, decryptSearchableStruct c k privs ctx data = .ok p →
      h = generateHMAC c k p ∧ decryptStructRotated c ctx (data.drop h.length) privs = .ok p) ∧
    (∀ keys ctx, decryptSearchableBlock c k keys ctx data = .ok p →
      h = generateHMAC c k p ∧ decryptWholeBlock c keys ctx (data.drop h.length) = .ok p) ∧
    (∀ kv kd, Searchable.translatorDecrypt c (some k) kv kd data = .ok p →
      h = generateHMAC c k p ∧ decryptWithHandler c kv kd (data.drop h.length) = .ok p) :=
  ⟨fun _ _ hok => C09.bad_index_not_valid c hl k _ data h p he hok,
   fun _ _ hok => C09.bad_index_not_valid c hl k _ data h p he hok,
   fun kv kd hok => ⟨C09.bad_index_not_valid_translator c hl k kv kd data h p he hok,
     (translatorDecrypt_checked c (some k) kv kd data h p he hok).1⟩⟩

/-- **The genuine hash pins the plaintext.** Take ANY input that still starts with the genuine index of `m`
(the envelope behind it may have been flipped, truncated, extended, re-typed or replaced by another
value's envelope): whatever a searchable reveal entry point accepts has the same HMAC as `m` – so, HMAC
not colliding on the two values at hand, it IS `m`. A spliced envelope of another value behind the hash of
`m` is therefore rejected by the hash check even where the envelope itself is intact. -/
theorem searchable_hash_pins_plaintext (c : CryptoOps) (hl : HashLen c) (k m rest p : Bytes)
    (hnc : NoColl c k (fun v => v = p ∨ v = m)) :
    (∀ privs ctx, decryptSearchableStruct c k privs ctx (generateHMAC c k m ++ rest) = .ok p → p = m) ∧
    (∀ keys ctx, decryptSearchableBlock c k keys ctx (generateHMAC c k m ++ rest) = .ok p → p = m) ∧
    (∀ kv kd, Searchable.translatorDecrypt c (some k) kv kd (generateHMAC c k m ++ rest) = .ok p → p = m) := by
  have he := extractHash_stored c hl k m rest
  have hpin : generateHMAC c k m = generateHMAC c k p → p = m := fun h =>
    hnc p m (Or.inl rfl) (Or.inr rfl) ((generateHMAC_eq_iff c k p m).mp h.symm)
  exact ⟨fun _ _ hok => hpin (C09.bad_index_not_valid c hl k _ _ _ p he hok).1,
         fun _ _ hok => hpin (C09.bad_index_not_valid c hl k _ _ _ p he hok).1,
         fun kv kd hok => hpin (C09.bad_index_not_valid_translator c hl k kv kd _ _ p he hok)⟩

/-- no searchable reveal entry point panics where its decrypt step does not: the hash handling itself
(cutting off, comparing) has no failing slice or index -/
theorem searchable_reveal_no_panic (c : CryptoOps) (hkey : Option Bytes) (kv : KeyView) (kd : Kind) (d : Bytes) :
    Searchable.translatorDecrypt c hkey kv kd d ≠ .panic ∧
    (∀ proc : Bytes → Out Bytes, (∀ x, proc x ≠ .panic) → hashProcessor c hkey proc d ≠ .panic) := by
  constructor
  · unfold Searchable.translatorDecrypt
    cases extractHashAndData d with
    | none => simp
    | some hc =>
      obtain ⟨h, container⟩ := hc
      simp only
      cases hd : decryptWithHandler c kv kd container with
      | ok plain => simp only; split <;> simp
      | err => simp
      | panic => exact absurd hd (decryptWithHandler_ne_panic c kv kd container)
  · intro proc hp
    unfold hashProcessor
    cases extractHash d with
    | none => exact hp d
    | some h =>
      simp only
      cases hd : proc (d.drop h.length) with
      | ok plain => simp only; split <;> simp
      | err => simp
      | panic => exact absurd hd (hp _)

/-! ### splices: something between the hash and the envelope

`hashA ++ hashB ++ envB` (the hash of one stored value put in front of the whole of another),
`hashA ++ junk ++ envA`, `hash ++ window bytes ++ envelope`: the column still starts with a well-formed
search hash, but the envelope no longer follows it directly. -/

open Generated.SearchMatcher in
/-- `EnvelopeMatcher.Match` hands the WHOLE data to the envelope detector – the detector's loop visits
every offset – and reports whether the matcher's callback (which only raises a flag and returns the
container unchanged) was invoked: this is `Searchable.matchEnvelope`. The first call of
`hmac.Processor.OnColumn` asks it about everything behind the extracted hash
(`data[p.matchedHash.Length():]`) and cuts the hash off – remembering it and the raw column – exactly when
the answer is "matched": this is the first branch of `Searchable.pOnColumn`. A shortcut in `Match` that
answers without running the detector (e.g. "data does not *start* with a tag") changes the first list. -/
theorem fact_matcher_whole_data :
    matcherMatchBody = ["matcher.detector.OnColumn(context.TODO(), data)", "result := matcher.matched", "matcher.matched = false", "return result"] ∧
    matcherNewBody = ["envelopeDetector := NewEnvelopeDetector()", "var detector base.DecryptionSubscriber = envelopeDetector", "if base.OldContainerDetectionOn { detector = NewOldContainerDetectorWrapper(envelopeDetector) }", "matcher := &EnvelopeMatcher{detector: detector}", "envelopeDetector.AddCallback(matcher)", "return matcher"] ∧
    matcherCallbackBody = ["matcher.matched = true", "return container, nil"] ∧
    processorMatchArgs = ["data[p.matchedHash.Length():]"] ∧
    processorFirstCall = ["ctx = context.WithValue(ctx, onColumnCalledCtxKey{}, true)", "p.hashData, p.matchedHash, p.rawData = nil, nil, nil", "p.matchedHash = ExtractHash(data)", "if p.matchedHash == nil { return ctx, data, nil }", "if !p.envelopeMatcher.Match(data[p.matchedHash.Length():]) { p.matchedHash = nil return ctx, data, nil }", "p.rawData = make([]byte, len(data))", "copy(p.rawData, data)", "p.hashData = p.rawData[:p.matchedHash.Length()]", "return ctx, data[p.matchedHash.Length():], nil"] := by
  refine ⟨by rfl, by rfl, by rfl, by rfl, by rfl⟩

/-- **`Match` finds an envelope at ANY offset.** Whatever bytes `pre` stand in front of it: if the data from
some offset on starts with the container tag and `ExtractSerializedContainer` accepts it (the declared length
covers the header and fits into what is there – true of every stored envelope, whatever follows it),
`EnvelopeMatcher.Match(pre ++ rest)` is true. -/
theorem match_finds_envelope_anywhere (pre rest : Bytes) (n : Int) (cont : Bytes)
    (ht : startsWith containerTag rest = true) (he : extractContainer rest = .ok (n, cont)) :
    matchEnvelope (pre ++ rest) = .ok true :=
  matchEnvelope_finds_container pre rest n cont ht he

/-- **No partial reveal behind a search hash.** Take EVERY column value of the shape `h ++ pre ++ rest`
where `h` is cut off as a search hash (33 bytes starting with the hash function number) and `rest` starts
with a serialized envelope – at any distance `pre` from the hash: another value's hash, inserted bytes, the
clear window of a masked value, nothing. Whatever the detector `det` of the chain does (any keys, any
callbacks): if the two-pass chain `hmacProcessor → detector → hmacProcessor` delivers a value `out` at all,
then `out` is either the STORED bytes, unchanged, or it is exactly what the detector made of everything
behind the hash AND `h` is the genuine search index of that very output. It is never `h ++ …plaintext…`:
the hash is cut off whenever an envelope follows anywhere, and what is then delivered is verified against
it. (A detector that fails fatally delivers nothing through this chain; the state is left clean otherwise.) -/
theorem searchable_splice_no_partial_reveal (c : CryptoOps) (hl : HashLen c) (k : Bytes) (det : Bytes → ScanOut)
    (s : PState) (h pre rest : Bytes) (n : Int) (cont : Bytes)
    (hwf : extractHash (h ++ (pre ++ rest)) = some h)
    (ht : startsWith containerTag rest = true) (he : extractContainer rest = .ok (n, cont))
    (s' : PState) (out : Bytes)
    (hcol : column c (some k) det s (h ++ (pre ++ rest)) = .ok (s', some out)) :
    s' = PState.init ∧
    (out = h ++ (pre ++ rest) ∨
      ∃ hit, det (pre ++ rest) = .ok out hit ∧ h = generateHMAC c k out) := by
  have hdrop : (h ++ (pre ++ rest)).drop h.length = pre ++ rest := by simp
  have hm : matchEnvelope ((h ++ (pre ++ rest)).drop h.length) = .ok true := by
    rw [hdrop]; exact matchEnvelope_finds_container pre rest n cont ht he
  have hfirst : pOnColumn c (some k) false s (h ++ (pre ++ rest)) =
      .ok ⟨{ hashData := some ((h ++ (pre ++ rest)).take h.length), matchedHash := some h, rawData := h ++ (pre ++ rest) },
        (h ++ (pre ++ rest)).drop h.length, false⟩ := by
    simp only [pOnColumn, Bool.false_eq_true, if_false, hwf, hm]
  cases hd : det (pre ++ rest) with
  | panic =>
    simp only [column, columnWith, hfirst, hdrop, hd] at hcol
    cases hcol
  | fatal =>
    simp only [column, columnWith, hfirst, hdrop, hd] at hcol
    cases hcol
  | ok d hit =>
    have hd' : det ((h ++ (pre ++ rest)).drop h.length) = .ok d hit := by rw [hdrop]; exact hd
    obtain ⟨h1, h2⟩ := C09.bad_index_not_valid_proxy c hl k det s (h ++ (pre ++ rest)) h d hit hwf hm hd'
    by_cases hq : h = generateHMAC c k d
    · rw [h2 hq] at hcol
      simp only [Out.ok.injEq, Prod.mk.injEq, Option.some.injEq] at hcol
      obtain ⟨hs, ho⟩ := hcol
      subst ho
      exact ⟨hs.symm, Or.inr ⟨hit, rfl, hq⟩⟩
    · rw [h1 hq] at hcol
      simp only [Out.ok.injEq, Prod.mk.injEq, Option.some.injEq] at hcol
      exact ⟨hcol.1.symm, Or.inl hcol.2.symm⟩

/-- **… so behind the genuine hash of `m` only `m` or the stored bytes come out.** If the 33 bytes in front
are the genuine index of `m` (value A's hash) and HMAC does not collide on `m` and the delivered value
(finite `NoColl`), a splice `hash(m) ++ pre ++ envelope…` comes back as stored or – when what the detector
made of `pre ++ envelope…` is `m` itself, i.e. `pre` is empty and the envelope is `m`'s – as `m`. In
particular `hashA ++ hashB ++ envB` is never delivered as `hashA ++ hashB ++ B`, nor as `hashB ++ B`. -/
theorem searchable_splice_genuine_or_stored (c : CryptoOps) (hl : HashLen c) (k : Bytes) (det : Bytes → ScanOut)
    (s : PState) (m pre rest : Bytes) (n : Int) (cont : Bytes)
    (ht : startsWith containerTag rest = true) (he : extractContainer rest = .ok (n, cont))
    (s' : PState) (out : Bytes)
    (hnc : NoColl c k (fun v => v = out ∨ v = m))
    (hcol : column c (some k) det s (generateHMAC c k m ++ (pre ++ rest)) = .ok (s', some out)) :
    out = generateHMAC c k m ++ (pre ++ rest) ∨ out = m := by
  have hwf := extractHash_stored c hl k m (pre ++ rest)
  rcases (searchable_splice_no_partial_reveal c hl k det s _ pre rest n cont hwf ht he s' out hcol).2 with h | ⟨_, _, hq⟩
  · exact Or.inl h
  · exact Or.inr (hnc out m (Or.inl rfl) (Or.inr rfl) ((generateHMAC_eq_iff c k out m).mp hq.symm))

end SearchableHash

/-! ## F. non-vacuity

Concrete values live in `Envelope/SafeExamples.lean`: `exBlock` is a genuine AcraBlock of `exMsg = [1,2,3]`
under `exKey` built with the Box back end (175 bytes), `exContainer` its serialized container
(187 bytes), `exDamaged` the container with one byte of the key part changed, `exSpliced` the key
part of one value with the data part of another, `exBadBackend` the block with an unregistered backend
id, `exStruct` a well-formed AcraStruct header with three data bytes. -/

set_option maxRecDepth 100000

/-- why `d.length < 2^63` is needed in group B (and only there): on a buffer of `2^63` bytes whose
declared container length is `2^63`, `ExtractSerializedContainer` succeeds with a *negative* `int` … -/
theorem extractContainer_bounds_needs_int_range :
    ∃ (d : Bytes) (n : Int) (cont : Bytes), extractContainer d = .ok (n, cont) ∧ n < 0 :=
  ⟨hugeHdr ++ List.replicate (2^63) 0, _, _, extractContainer_huge _ List.length_replicate, toInt64_huge⟩

/-- … and the loop would slice out of range. No Go slice is that long. -/
theorem scan_no_panic_needs_int_range : ∃ (cbs : List Callback) (rest : Bytes), scan cbs rest = .panic :=
  ⟨_, _, scan_huge (List.replicate (2^63) 0) List.length_replicate⟩

/-- the law bundles of group E are satisfiable: Box has seal authenticity + commitment + message laws,
the Shim (the algorithm the harness links Acra against) has the authenticity and length laws -/
example : SealLaws boxOps ∧ SealCommit boxOps ∧ MsgLaws boxOps := ⟨Box.sealLaws, Box.sealCommit, Box.msgLaws⟩
example : SealLaws shimOps ∧ MsgLaws shimOps := ⟨shim_sealLaws, shim_msgLaws⟩
/-- the bundle of the output bounds in group C (no commitment there) -/
example : SealLaws shimOps ∧ SealLen shimOps := ⟨shim_sealLaws, shim_sealLen⟩

/-- group E' (swapped search hash) is applicable: an instance with 32-byte MACs (`C09.lenOps`, Box
sealing), a genuine serialized AcraBlock of `exMsg` that the block handler reveals, the index of the
other value `exMsg2` as well-formed swapped hash, and no collision between the two values -/
example :
    let e := unwrapOr (protect C09.lenOps exKv .block exMsg exRnd)
    let h' := Searchable.generateHMAC C09.lenOps [1] exMsg2
    HashLen C09.lenOps ∧ Searchable.extractHash (h' ++ e) = some h' ∧ h' ≠ Searchable.generateHMAC C09.lenOps [1] exMsg ∧
    decryptWithHandler C09.lenOps exKv .block e = .ok exMsg ∧
    Searchable.decryptWholeBlock C09.lenOps [exKey2, exKey] [] (e.drop 12) = .ok exMsg ∧
    Searchable.translatorDecrypt C09.lenOps (some [1]) exKv .block (h' ++ e) = .err ∧
    Searchable.translatorDecrypt C09.lenOps (some [1]) exKv .block (Searchable.generateHMAC C09.lenOps [1] exMsg ++ e) = .ok exMsg ∧
    Searchable.NoColl C09.lenOps [1] (fun v => v = exMsg2 ∨ v = exMsg) := by
  refine ⟨C09.lenOps_hashLen, by decide, by decide, by decide, by decide, by decide, by decide, ?_⟩
  intro a b ha hb h
  rcases ha with rfl | rfl <;> rcases hb with rfl | rfl
  · rfl
  · exact absurd h (by decide)
  · exact absurd h (by decide)
  · rfl

/-- the splice theorems are applicable: `hashA ++ hashB ++ envB…` with the index of `exMsg2` in front of the
index of `exMsg` in front of a genuine serialized container followed by more bytes – the column starts with a
well-formed hash, the envelope is recognised at offset 33 of what follows the hash, and `Match` finds it there -/
example :
    let rest := exContainer ++ [1, 2, 3]
    let hA := Searchable.generateHMAC C09.lenOps [1] exMsg2
    let hB := Searchable.generateHMAC C09.lenOps [1] exMsg
    Searchable.extractHash (hA ++ (hB ++ rest)) = some hA ∧ startsWith containerTag rest = true ∧
    extractContainer rest = .ok (187, rest) ∧ Searchable.matchEnvelope (hB ++ rest) = .ok true := by
  refine ⟨by decide, by decide, by decide, ?_⟩
  exact match_finds_envelope_anywhere (Searchable.generateHMAC C09.lenOps [1] exMsg) (exContainer ++ [1, 2, 3]) 187
    (exContainer ++ [1, 2, 3]) (by decide) (by decide)

/-- decoders: both an error and a success occur (block family) -/
example : extractBlock [] = .err ∧ extractBlock (exBlock ++ [1, 2]) = .ok (175, exBlock) := by decide
example : decryptBlock boxOps [exKey2, exKey] [] exBlock = .ok exMsg ∧
    decryptBlock boxOps [exKey2] [] exBlock = .err := by decide
/-- `decryptBlock` does panic on bytes `extractBlock` rejects (unregistered backend, matching key id):
the hypothesis of `decryptBlock_extracted_no_panic` is needed and is met by `exBlock` -/
example : decryptBlock boxOps [exKey] [] exBadBackend = .panic ∧ extractBlock exBadBackend = .err := by decide

/-- struct family -/
example : validateStruct [] = .err ∧ validateStruct exStruct = .ok () := by decide
example : getDataLength [] = .panic ∧ getDataLength exStruct = .ok 3 := by decide
example : extractStruct [] = .err ∧ extractStruct (exStruct ++ [1, 2]) = .ok (148, exStruct) := by decide
example : decryptStruct boxOps [1] [] exStruct = .err ∧ decryptStruct safeToyOps [1] [] exStruct = .ok [9, 9, 9] ∧
    decryptStructRotated safeToyOps [] exStruct [] = .err ∧ decryptStructRotated safeToyOps [] exStruct [[1]] = .ok [9, 9, 9] := by
  decide

/-- container family -/
example : validateContainer [] = .err ∧ validateContainer exContainer = .ok idBlock := by decide
example : matchOld [] = .err ∧ matchOld exBlock = .ok (idBlock, 175) ∧ matchOld exStruct = .ok (idStruct, 148) := by decide
example : getEnvelopeID [] = .err ∧ getEnvelopeID exContainer = .ok (idBlock, false) ∧
    getEnvelopeID exBlock = .ok (idBlock, true) := by decide
example : containerInternalLength [] = .panic := by decide
example : deserialize [] = .err ∧ deserialize (exContainer ++ [1, 2, 3]) = .ok (exBlock, idBlock) := by decide
example : extractContainer [] = .err ∧
    extractContainer (exContainer ++ [1, 2, 3]) = .ok (187, exContainer ++ [1, 2, 3]) := by decide

/-- reveal / protect: success on the genuine value (container and bare form), error on the damaged one -/
example : reveal boxOps exKv exContainer = .ok exMsg ∧ reveal boxOps exKv exBlock = .ok exMsg ∧
    reveal boxOps exKv exDamaged = .err ∧ reveal boxOps exKv [] = .err := by decide
example : protect boxOps exKv .block exMsg exRnd = .ok exContainer ∧
    protect boxOps ⟨none, none, none, none⟩ .block exMsg exRnd = .err := by decide

/-- group E hypotheses are met: the genuine block decrypts (`decryptBlock_genuine`, `reveal_genuine`); its
data part is the Box ciphertext of `exMsg` (`block_no_misdecrypt`, `reveal_no_misdecrypt`) -/
example : exBlock.drop (18 + leVal ((exBlock.take 18).drop 16)) = exEncData ∧
    boxOps.enc (exRnd.take 32) [] exMsg ((exRnd.drop 32).take 12) = some exEncData := by decide

/-- `block_splice_rejected` applies to `exSpliced` (key part of value 1, data part of value 2, data keys
`5…5 ≠ 6…6`) – and indeed it is rejected -/
example : boxOps.enc exKey [] (exRnd.take 32) ((exRnd.drop 44).take 12) = some exEncKey ∧
    boxOps.enc (exRnd2.take 32) [] exMsg2 ((exRnd2.drop 32).take 12) = some exEncData2 ∧
    exRnd.take 32 ≠ exRnd2.take 32 ∧
    (exSpliced.take (18 + leVal ((exSpliced.take 18).drop 16))).drop 18 = exEncKey ∧
    exSpliced.drop (18 + leVal ((exSpliced.take 18).drop 16)) = exEncData2 := by decide
example : ∀ m, decryptBlock boxOps [exKey2, exKey] [] exSpliced ≠ .ok m :=
  block_splice_rejected boxOps Box.sealLaws Box.sealCommit _ [] exSpliced exKey (exRnd.take 32)
    ((exRnd.drop 44).take 12) exEncKey (exRnd2.take 32) [] exMsg2 ((exRnd2.drop 32).take 12) exEncData2
    (by decide) (by decide) (by decide) (by decide) (by decide)

/-- AcraStruct side of group E: with commitment (`boxOpenOps`: Box seal, permissive unwrap) a concrete
AcraStruct decrypts and its body is the ciphertext of `exMsg`; with the real back end's laws (Shim) a
genuine AcraStruct with valid keys, 45-byte public key and 84-byte wrapped key exists
(hypotheses of `decryptStruct_genuine`, `decryptStruct_genuine_sender`, `struct_no_misdecrypt`) -/
example : SealLaws boxOpenOps ∧ SealCommit boxOpenOps ∧ decryptStruct boxOpenOps [1] [] exStruct2 = .ok exMsg ∧
    exStruct2.drop 145 = exBody ∧ boxOpenOps.enc exSymKey [] exMsg (List.replicate 12 5) = some exBody :=
  ⟨boxOpen_sealLaws, boxOpen_sealCommit, by decide, by decide, by decide⟩
example : ∃ priv ePriv rest m, shimOps.validPriv priv = true ∧ shimOps.validPriv ePriv = true ∧
    (shimOps.pubOf ePriv).length = 45 ∧
    decryptStruct shimOps priv [] (structTag ++ shimOps.pubOf ePriv ++ rest) = .ok m :=
  struct_witness shimOps shim_sealLaws shim_sealLen shim_msgLaws shim_msgLen shim_keygenLaws

/-- column scan: a buffer that is one genuine container is replaced by the plaintext; the damaged one
satisfies the hypothesis of `onColumn_damaged_unchanged` (the only position where `%%%` starts is 0,
and `Process` fails there), so it is returned unchanged -/
example : scan [decryptCallback boxOps exKv] exContainer = .ok exMsg true :=
  scan_single _ exContainer 187 exContainer exMsg (by decide) (by decide) (by decide) (by decide)
example : ∃ hit, onColumn [decryptCallback boxOps exKv] exDamaged = .ok exDamaged hit :=
  onColumn_damaged_unchanged boxOps exKv exDamaged (by
    have h : ∀ i, i < exDamaged.length → startsWith containerTag (exDamaged.drop i) = true →
        process boxOps exKv (exDamaged.drop i) = .err := by decide
    intro i hi hs m hm
    rw [h i hi hs] at hm
    cases hm)

/-- `onColumnCompat_damaged_unchanged`: a truncated value that still carries all three tags (container
tag, then the AcraStruct/AcraBlock tag) meets both hypotheses – nothing shorter than 18 bytes is ever
revealed – and comes back unchanged -/
example : ∃ hit, onColumnCompat [decryptCallback boxOps exKv] [37, 37, 37, 34, 34, 34, 34, 34, 34, 34, 34, 1, 2, 3]
    = .ok [37, 37, 37, 34, 34, 34, 34, 34, 34, 34, 34, 1, 2, 3] hit :=
  onColumnCompat_damaged_unchanged boxOps exKv _
    (by
      have h : ∀ i, i < 14 → startsWith containerTag (([37, 37, 37, 34, 34, 34, 34, 34, 34, 34, 34, 1, 2, 3] : Bytes).drop i) = true →
          process boxOps exKv (([37, 37, 37, 34, 34, 34, 34, 34, 34, 34, 34, 1, 2, 3] : Bytes).drop i) = .err := by decide
      intro i hi hs m hm
      rw [h i hi hs] at hm
      cases hm)
    (fun x id s hx hs => process_serialized_short boxOps exKv x s id
      (Nat.lt_of_le_of_lt (infix_length_le hx) (by decide)) hs)

end AcraModel.Props.C03
