import AcraModel.Envelope.SafeContainer
/-!
# C03 — any modification of a protected value is detected, never mis-decrypted

Property theorems only. Models: `AcraModel/Envelope/{AcraBlock,AcraStruct,Container,Detector}.lean`,
helper lemmas: `AcraModel/Envelope/Safe*.lean`. The "no panic" / bound theorems also serve C14
(no input can crash a handler or make it loop or allocate without bound).
-/
namespace AcraModel.Props.C03
open AcraModel AcraModel.Envelope Generated

/-! ## facts the proofs need from the regenerated layout -/

/-- Sizes add up: the AcraStruct header is 8+45+84+8 = 145 bytes, the AcraBlock header 18, the
container header 12, and the field positions of the AcraBlock are consecutive. -/
theorem fact_layout_sizes :
    structMin = 145 ∧ structTagLen = 8 ∧ structPubLen = 45 ∧ structKeyBlockLen = 129 ∧ structDataLenSize = 8 ∧
    blockMin = 18 ∧ blockKeyPos = 18 ∧ containerMin = 12 ∧
    Layout.blockTagBeginSize = 4 ∧ Layout.blockRestAcraBlockLengthPosition = 4 ∧ Layout.blockRestAcraBlockLengthSize = 8 ∧
    Layout.blockKeyEncryptionKeyTypePosition = 12 ∧ Layout.blockKeyEncryptionKeyIDPosition = 13 ∧
    Layout.blockKeyEncryptionKeyIDSize = 2 ∧ Layout.blockDataEncryptionTypePosition = 15 ∧
    Layout.blockDataEncryptionKeyLengthPosition = 16 ∧ Layout.blockDataEncryptionKeyLengthSize = 2 ∧
    Layout.containerTagBeginSize = 3 ∧ Layout.containerLengthSize = 8 := by decide

/-- Tags and ids: eight `"` for the AcraStruct, its first four for the AcraBlock, `%%%` for the
container; envelope ids 0xF0 (AcraBlock) and 0xF1 (AcraStruct); only backend 0 is registered. -/
theorem fact_layout_tags :
    structTag = List.replicate 8 34 ∧ blockTag = List.replicate 4 34 ∧ containerTag = List.replicate 3 37 ∧
    idBlock = 240 ∧ idStruct = 241 ∧ Layout.blockKeyBackends = [0] ∧ Layout.blockDataBackends = [0] ∧
    Layout.blockKeyEncryptionBackendTypeSecureCell = 0 ∧ Layout.blockDataEncryptionBackendTypeSecureCell = 0 := by decide

/-! ## A. no decoder panics, whatever the bytes (no crypto law needed: holds for every `c`) -/

/-- `ExtractAcraBlockFromData` never panics, whatever the input bytes. -/
theorem extractBlock_no_panic : ∀ d : Bytes, extractBlock d ≠ .panic := extractBlock_ne_panic

/-- `ValidateAcraStructLength` never panics, whatever the input bytes. -/
theorem validateStruct_no_panic : ∀ d : Bytes, validateStruct d ≠ .panic := validateStruct_ne_panic

/-- `GetDataLengthFromAcraStruct` slices `data[137:145]` unguarded: it panics exactly on inputs shorter
than the 145-byte header. Every caller checks the length first (see `validateStruct_no_panic`,
`matchOld_no_panic`, `processStructs_no_panic`). -/
theorem getDataLength_no_panic : ∀ d : Bytes, structMin ≤ d.length → getDataLength d ≠ .panic := by
  intro d h; rw [getDataLength_eq d h]; simp

/-- … and it does panic on every shorter input (the guard in the callers is necessary). -/
theorem getDataLength_panics_when_short : ∀ d : Bytes, d.length < structMin → getDataLength d = .panic :=
  getDataLength_short

/-- `ExtractAcraStruct` never panics: declared lengths that are negative as `int`, overflow, or exceed
the buffer are rejected before slicing. -/
theorem extractStruct_no_panic : ∀ d : Bytes, extractStruct d ≠ .panic := extractStruct_ne_panic

/-- `DecryptAcrastruct` never panics, for every key, context and input and every crypto back end. -/
theorem decryptStruct_no_panic : ∀ (c : CryptoOps) (priv ctx d : Bytes), decryptStruct c priv ctx d ≠ .panic :=
  decryptStruct_ne_panic

/-- `DecryptRotatedAcrastruct` never panics, for every list of private keys. -/
theorem decryptStructRotated_no_panic :
    ∀ (c : CryptoOps) (ctx d : Bytes) (keys : List Bytes), decryptStructRotated c ctx d keys ≠ .panic :=
  decryptStructRotated_ne_panic

/-- `validateSerializedContainer` never panics. -/
theorem validateContainer_no_panic : ∀ d : Bytes, validateContainer d ≠ .panic := validateContainer_ne_panic

/-- `matchOldContainer` never panics (it reads the AcraStruct length only after validation). -/
theorem matchOld_no_panic : ∀ d : Bytes, matchOld d ≠ .panic := matchOld_ne_panic

/-- `getEnvelopeIDFromData` never panics. -/
theorem getEnvelopeID_no_panic : ∀ d : Bytes, getEnvelopeID d ≠ .panic := getEnvelopeID_ne_panic

/-- `getSerializedContainerLength` slices `data[3:11]` unguarded: it panics exactly below 11 bytes … -/
theorem containerInternalLength_no_panic :
    ∀ d : Bytes, 11 ≤ d.length → containerInternalLength d ≠ .panic := containerInternalLength_ne_panic

theorem containerInternalLength_panics_when_short :
    ∀ d : Bytes, d.length < 11 → containerInternalLength d = .panic := containerInternalLength_short

/-- … but `DeserializeEncryptedData` only calls it after `validateSerializedContainer` accepted the
data (more than 12 bytes), so deserialisation never panics. -/
theorem deserialize_no_panic : ∀ d : Bytes, deserialize d ≠ .panic := deserialize_ne_panic

/-- `ExtractSerializedContainer` never panics. -/
theorem extractContainer_no_panic : ∀ d : Bytes, extractContainer d ≠ .panic := extractContainer_ne_panic

/-- `AcraBlock.Decrypt` calls through a nil backend when the backend byte is unknown (this mirrors
Go), but never on a block that `ExtractAcraBlockFromData` accepted: that function checks both
backend bytes against the registered tables. -/
theorem decryptBlock_extracted_no_panic (c : CryptoOps) (keys : List Bytes) (ctx d : Bytes) (n : Nat) (b : Bytes) :
    extractBlock d = .ok (n, b) → decryptBlock c keys ctx b ≠ .panic :=
  decryptBlock_extracted_ne_panic c keys ctx d n b

/-- The two `ContainerHandler.Decrypt` implementations never panic (the AcraBlock one decrypts only
what `ExtractAcraBlockFromData` returned). -/
theorem decryptKind_no_panic : ∀ (c : CryptoOps) (kv : KeyView) (k : Kind) (i : Bytes), decryptKind c kv k i ≠ .panic :=
  decryptKind_ne_panic

/-- `RegistryHandler.DecryptWithHandler` never panics. -/
theorem decryptWithHandler_no_panic :
    ∀ (c : CryptoOps) (kv : KeyView) (k : Kind) (d : Bytes), decryptWithHandler c kv k d ≠ .panic :=
  decryptWithHandler_ne_panic

/-- **Reveal never brings the handler down**: `RegistryHandler.Process` returns a value or an error
for every byte string, every key-store answer and every crypto back end. -/
theorem process_no_panic : ∀ (c : CryptoOps) (kv : KeyView) (d : Bytes), process c kv d ≠ .panic := process_ne_panic

theorem reveal_no_panic : ∀ (c : CryptoOps) (kv : KeyView) (d : Bytes), reveal c kv d ≠ .panic := process_ne_panic

/-- **Protect never brings the handler down** either, whatever bytes it is given (including bytes that
look like an envelope already). -/
theorem protect_no_panic :
    ∀ (c : CryptoOps) (kv : KeyView) (k : Kind) (d rnd : Bytes), protect c kv k d rnd ≠ .panic := protect_ne_panic

end AcraModel.Props.C03
