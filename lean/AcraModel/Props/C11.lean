import AcraModel.Envelope.Masking
/-!
# C11 — masked columns show only the allowed window to clients that cannot decrypt

Property theorems only. Model: `AcraModel/Envelope/Masking.lean` (on top of the detector model).
-/
namespace AcraModel.Props.C11
open AcraModel AcraModel.Envelope

/-- **Values not longer than the window are protected in full**: when the configured clear window
would cover the whole value, the whole value goes through `protect` – nothing stays in clear. -/
theorem mask_short_full (c : CryptoOps) (kv : KeyView) (cfg : MaskCfg) (d rnd : Bytes)
    (hp : cfg.pattern ≠ []) (hk : d.length ≤ cfg.k) :
    maskWrite c kv cfg d rnd = protect c kv cfg.kind d rnd := by
  unfold maskWrite
  rw [if_neg hp, if_pos hk]

/-- Without a masking pattern the column is not masked: the value is stored as given. -/
theorem mask_no_pattern (c : CryptoOps) (kv : KeyView) (cfg : MaskCfg) (d rnd : Bytes)
    (hp : cfg.pattern = []) : maskWrite c kv cfg d rnd = .ok d := by
  unfold maskWrite
  rw [if_pos hp]

/-- **Stored form, left window**: the first `k` bytes in clear, followed by exactly the protected
form of the remaining bytes (and symmetrically for the right window). -/
theorem mask_write_left (c : CryptoOps) (kv : KeyView) (cfg : MaskCfg) (d rnd e : Bytes)
    (hp : cfg.pattern ≠ []) (hk : cfg.k < d.length) (hl : cfg.left = true)
    (he : protect c kv cfg.kind (d.drop cfg.k) rnd = .ok e) :
    maskWrite c kv cfg d rnd = .ok (d.take cfg.k ++ e) := by
  unfold maskWrite
  rw [if_neg hp, if_neg (by omega), if_pos hl, he]
  rfl

theorem mask_write_right (c : CryptoOps) (kv : KeyView) (cfg : MaskCfg) (d rnd e : Bytes)
    (hp : cfg.pattern ≠ []) (hk : cfg.k < d.length) (hl : cfg.left = false)
    (he : protect c kv cfg.kind (d.take (d.length - cfg.k)) rnd = .ok e) :
    maskWrite c kv cfg d rnd = .ok (e ++ d.drop (d.length - cfg.k)) := by
  unfold maskWrite
  rw [if_neg hp, if_neg (by omega), if_neg (by simp [hl]), he]
  rfl

end AcraModel.Props.C11
