import AcraModel.Envelope.Masking
import AcraModel.Envelope.MaskLemmas
import AcraModel.Envelope.MaskSession
import AcraModel.Envelope.MaskHeaderLemmas
import AcraModel.Envelope.MaskWindowLemmas
import AcraModel.Generated.MaskFlow
import AcraModel.Props.C01
/-!
# C11 — masked columns show only the allowed window to clients that cannot decrypt

Property theorems only. Model: `AcraModel/Envelope/Masking.lean` (on top of the detector model).
-/
namespace AcraModel.Props.C11
open AcraModel AcraModel.Envelope AcraModel.Props.C01

/-- **Values not longer than the window are protected in full**: when the configured clear window
would cover the whole value, the whole value goes through `protect` – nothing stays in clear. -/
theorem mask_short_full (c : CryptoOps) (kv : KeyView) (cfg : MaskCfg) (d rnd : Bytes)
    (hp : cfg.pattern ≠ []) (hk : d.length ≤ cfg.k) :
    maskWrite c kv cfg d rnd = protect c kv cfg.kind d rnd := by
  unfold maskWrite
  rw [if_neg hp, if_pos hk]

/-- Without a masking pattern the column is not masked: the value is stored as given. -/
theorem mask_no_pattern (c : CryptoOps) (kv : KeyView) (cfg : MaskCfg) (d rnd : Bytes)
    (hp : cfg.pattern = []) : maskWrite c kv cfg d rnd = .ok d := by
  unfold maskWrite
  rw [if_pos hp]

/-- **Stored form, left window**: the first `k` bytes in clear, followed by exactly the protected
form of the remaining bytes (and symmetrically for the right window). -/
theorem mask_write_left (c : CryptoOps) (kv : KeyView) (cfg : MaskCfg) (d rnd e : Bytes)
    (hp : cfg.pattern ≠ []) (hk : cfg.k < d.length) (hl : cfg.left = true)
    (he : protect c kv cfg.kind (d.drop cfg.k) rnd = .ok e) :
    maskWrite c kv cfg d rnd = .ok (d.take cfg.k ++ e) := by
  unfold maskWrite
  rw [if_neg hp, if_neg (by omega), if_pos hl, he]
  rfl

theorem mask_write_right (c : CryptoOps) (kv : KeyView) (cfg : MaskCfg) (d rnd e : Bytes)
    (hp : cfg.pattern ≠ []) (hk : cfg.k < d.length) (hl : cfg.left = false)
    (he : protect c kv cfg.kind (d.take (d.length - cfg.k)) rnd = .ok e) :
    maskWrite c kv cfg d rnd = .ok (e ++ d.drop (d.length - cfg.k)) := by
  unfold maskWrite
  rw [if_neg hp, if_neg (by omega), if_neg (by simp [hl]), he]
  rfl

/-! ## the parts of a masked value

`hiddenPart cfg v` / `windowPart cfg v` (in `Envelope/MaskLemmas.lean`) are the part of `v` that is
stored protected and the part that stays in clear: for a value longer than the window `cfg.k` the
window is the first (`left`) resp. last `cfg.k` bytes and the hidden part is the rest; for a value not
longer than the window everything is hidden and the window is empty. `joinSides cfg w x` puts `x` in
the place of the hidden part: `w ++ x` for the left window, `x ++ w` for the right one.
`afterContainer cfg w` are the bytes that follow the container in the stored value (`[]` resp. `w`):
they matter because `ExtractSerializedContainer` hands the callbacks the whole rest of the buffer. -/

/-- A clear window is *clean* when it contains neither the container tag byte `%` (0x25) nor the
AcraStruct/AcraBlock tag byte `"` (0x22). The stored form of a masked value is `window | container`
or `container | window` in ONE column value, and the reader finds the container by scanning for tag
bytes (in-band signalling). A window that contains tag material can therefore be mis-recognised:
e.g. a window that starts with `%%%`, a length and an envelope id is itself taken for a container,
fails to decrypt, and is replaced – together with as many following bytes as it declares – by the
masking pattern, for the owner too. This is inherent in the format, not a defect of the scan; the
theorems below are about clean windows. (Only the `%` half is actually used by the proofs: once the
real container has been recognised the "envelope seen" flag is set and the legacy scans for bare
AcraStructs/AcraBlocks – the only place where `"` matters – do not run. The lemmas
`maskRead_owner` / `maskRead_other` / `maskRead_nonOwner` in `Envelope/MaskLemmas.lean` are stated
with the `%` half only.) -/
def cleanWindow (w : Bytes) : Prop := ∀ x ∈ w, x ≠ 37 ∧ x ≠ 34

instance (w : Bytes) : Decidable (cleanWindow w) := inferInstanceAs (Decidable (∀ x ∈ w, x ≠ 37 ∧ x ≠ 34))

theorem cleanWindow_noPct {w : Bytes} (h : cleanWindow w) : ∀ x ∈ w, x ≠ 37 := fun x hx => (h x hx).1

/-- window and hidden part are a partition of the value -/
theorem mask_parts (cfg : MaskCfg) (v : Bytes) : joinSides cfg (windowPart cfg v) (hiddenPart cfg v) = v ∧
    (windowPart cfg v).length ≤ cfg.k ∧
    (cfg.k < v.length → windowPart cfg v = (if cfg.left then v.take cfg.k else v.drop (v.length - cfg.k)) ∧
      (windowPart cfg v).length = cfg.k) ∧
    (v.length ≤ cfg.k → windowPart cfg v = [] ∧ hiddenPart cfg v = v) := by
  refine ⟨joinSides_parts cfg v, windowPart_length_le cfg v, ?_, fun h => ⟨windowPart_short cfg v h, hiddenPart_short cfg v h⟩⟩
  intro hk
  unfold windowPart
  rw [if_neg (by omega)]
  refine ⟨rfl, ?_⟩
  split
  · rw [List.length_take]; omega
  · rw [List.length_drop]; omega

/-- **Stored form**: on a masked column a successful write stores the clear window joined with exactly
what `protect` made of the hidden part, on the configured side (this subsumes `mask_write_left`,
`mask_write_right` and `mask_short_full`). -/
theorem mask_write_form (c : CryptoOps) (kv : KeyView) (cfg : MaskCfg) (v rnd stored : Bytes)
    (hpat : cfg.pattern ≠ []) (hw : maskWrite c kv cfg v rnd = .ok stored) :
    ∃ p, protect c kv cfg.kind (hiddenPart cfg v) rnd = .ok p ∧ stored = joinSides cfg (windowPart cfg v) p :=
  maskWrite_ok hpat hw

/-! ## 1. the owning client receives the complete original value -/

/-- **The owner reads the original value** – both window sides, both envelope kinds, values longer
or not longer than the window. `v` is written by a client with key view `kvW` to a masked column
(`cfg.pattern ≠ []`) and read by a client with key view `kvR` through the SQL proxy's column
processor (`maskRead`: compatibility wrapper first, then the decrypt handler over the masking
processor). Hypotheses: the clear window is clean; the hidden part does not already look like a
protected value (`protect` would pass it through unchanged and it would be stored in clear); the
round-trip hypotheses of C01 for the hidden part hold for what `protect` returned – i.e. the
reader's key list contains the writer's key, possibly after rotations, and earlier keys do not
accidentally open the value; and the hidden plaintext is not literally equal to the container followed
by the rest of the stored value (the masking processor treats "decrypted to itself" as "not
decrypted"; under `SealLen` the container is at least 150 bytes longer than the plaintext, for the
AcraStruct kind the round-trip hypotheses include `SealLen`). Then the reader receives exactly `v`. -/
theorem mask_owner (c : CryptoOps) (kvW kvR : KeyView) (cfg : MaskCfg) (v rnd stored : Bytes)
    (hpat : cfg.pattern ≠ [])
    (hclean : cleanWindow (windowPart cfg v))
    (hnm : matchKind cfg.kind (hiddenPart cfg v) = false) (hnr : registryMatch (hiddenPart cfg v) = false)
    (hrt : ∀ p, protect c kvW cfg.kind (hiddenPart cfg v) rnd = .ok p →
      RoundTripHyps c cfg.kind kvW kvR (hiddenPart cfg v) rnd p ∧
      hiddenPart cfg v ≠ p ++ afterContainer cfg (windowPart cfg v))
    (hw : maskWrite c kvW cfg v rnd = .ok stored) :
    maskRead c kvR cfg stored = .ok v true := by
  obtain ⟨p, hp, rfl⟩ := maskWrite_ok hpat hw
  obtain ⟨h, hne⟩ := hrt p hp
  obtain ⟨e, rfl, he, hlen, hproc⟩ := protect_roundtrip_facts c cfg.kind kvW kvR _ rnd p h hnm hnr hp
  rw [maskRead_owner c kvR cfg _ e _ hpat (cleanWindow_noPct hclean) he hlen (hproc _) hne, joinSides_parts]

/-! ## 2. everybody else receives the window and the pattern, nothing more -/

/-- **A reader who cannot decrypt receives exactly the clear window joined with the masking pattern in
place of the protected part** – no byte of the container (ciphertext, wrapped keys, header) and no
hidden plaintext byte. `NonOwnerHyps` (in `Envelope/MaskLemmas.lean`): the hidden part does not
already look protected; `protect` produced the container `p`; the reader's `RegistryHandler.Process`
does not succeed on `p` followed by the rest of the stored value (no keys, or keys that fail); the
pattern is not literally that container (automatic for patterns of at most 12 bytes). No crypto law is
needed. For a value not longer than the window the window is empty and the reader sees the pattern
alone (`mask_short_other`). -/
theorem mask_other (c : CryptoOps) (kvW kvR : KeyView) (cfg : MaskCfg) (v rnd p stored : Bytes)
    (hpat : cfg.pattern ≠ [])
    (hclean : cleanWindow (windowPart cfg v))
    (h : NonOwnerHyps c kvW kvR cfg v rnd p)
    (hw : maskWrite c kvW cfg v rnd = .ok stored) :
    maskRead c kvR cfg stored = .ok (joinSides cfg (windowPart cfg v) cfg.pattern) true :=
  maskRead_nonOwner c kvW kvR cfg v rnd p stored hpat (cleanWindow_noPct hclean) h hw

/-- A reader whose key store holds no keys at all is a non-owner, whatever the crypto back end: it
receives window and pattern (no assumption about the cryptography is needed for confidentiality
towards a key-less reader – the bytes it gets do not depend on the container). -/
theorem mask_other_no_keys (c : CryptoOps) (kvW kvR : KeyView) (cfg : MaskCfg) (v rnd p stored : Bytes)
    (hpat : cfg.pattern ≠ []) (hclean : cleanWindow (windowPart cfg v))
    (hnm : matchKind cfg.kind (hiddenPart cfg v) = false) (hnr : registryMatch (hiddenPart cfg v) = false)
    (hp : protect c kvW cfg.kind (hiddenPart cfg v) rnd = .ok p) (hplen : p.length < 2^63)
    (hpc : cfg.pattern.length ≤ 12 ∨ cfg.pattern ≠ p ++ afterContainer cfg (windowPart cfg v))
    (hR : kvR.privs = none ∧ kvR.syms = none)
    (hw : maskWrite c kvW cfg v rnd = .ok stored) :
    maskRead c kvR cfg stored = .ok (joinSides cfg (windowPart cfg v) cfg.pattern) true :=
  mask_other c kvW kvR cfg v rnd p stored hpat hclean
    (nonOwner_of_no_keys c kvW kvR cfg v rnd p hnm hnr hp hplen hpc hR) hw

/-- Under key commitment (`SealLaws` + `SealCommit`; deliberately no length law, see `Crypto/Ops.lean`)
a reader who has symmetric keys, but not the writer's, is a non-owner of an AcraBlock-masked value:
"other keys fail" is a theorem here, not a hypothesis. -/
theorem mask_other_commit (c : CryptoOps) (hs : SealLaws c) (hcm : SealCommit c) (kvW kvR : KeyView) (cfg : MaskCfg)
    (v rnd p stored key : Bytes) (hkind : cfg.kind = .block)
    (hpat : cfg.pattern ≠ []) (hclean : cleanWindow (windowPart cfg v))
    (hW : kvW.sym = some key) (hkid : (keyId c key []).length = 2)
    (hEncKey : ∀ encKey, c.enc key [] (rnd.take 32) ((rnd.drop 44).take 12) = some encKey → encKey.length < 65536)
    (hnm : matchKind cfg.kind (hiddenPart cfg v) = false) (hnr : registryMatch (hiddenPart cfg v) = false)
    (hp : protect c kvW cfg.kind (hiddenPart cfg v) rnd = .ok p) (hplen : p.length < 2^63)
    (hpc : cfg.pattern.length ≤ 12 ∨ cfg.pattern ≠ p ++ afterContainer cfg (windowPart cfg v))
    (hdisj : ∀ ks, kvR.syms = some ks → key ∉ ks)
    (hw : maskWrite c kvW cfg v rnd = .ok stored) :
    maskRead c kvR cfg stored = .ok (joinSides cfg (windowPart cfg v) cfg.pattern) true :=
  mask_other c kvW kvR cfg v rnd p stored hpat hclean
    (nonOwner_of_commit c hs hcm kvW kvR cfg v rnd p key hkind hW hkid hEncKey hnm hnr hp hplen hpc hdisj) hw

/-- Left window, value longer than the window: the non-owner receives the first `k` bytes followed by
the pattern. -/
theorem mask_other_left (c : CryptoOps) (kvW kvR : KeyView) (cfg : MaskCfg) (v rnd p stored : Bytes)
    (hpat : cfg.pattern ≠ []) (hk : cfg.k < v.length) (hl : cfg.left = true)
    (hclean : cleanWindow (v.take cfg.k))
    (h : NonOwnerHyps c kvW kvR cfg v rnd p)
    (hw : maskWrite c kvW cfg v rnd = .ok stored) :
    maskRead c kvR cfg stored = .ok (v.take cfg.k ++ cfg.pattern) true := by
  have hwp : windowPart cfg v = v.take cfg.k := by
    unfold windowPart; rw [if_neg (by omega), if_pos hl]
  have := mask_other c kvW kvR cfg v rnd p stored hpat (by rw [hwp]; exact hclean) h hw
  rw [this, hwp]
  unfold joinSides
  rw [if_pos hl]

/-- Right window, value longer than the window: the non-owner receives the pattern followed by the
last `k` bytes. -/
theorem mask_other_right (c : CryptoOps) (kvW kvR : KeyView) (cfg : MaskCfg) (v rnd p stored : Bytes)
    (hpat : cfg.pattern ≠ []) (hk : cfg.k < v.length) (hl : cfg.left = false)
    (hclean : cleanWindow (v.drop (v.length - cfg.k)))
    (h : NonOwnerHyps c kvW kvR cfg v rnd p)
    (hw : maskWrite c kvW cfg v rnd = .ok stored) :
    maskRead c kvR cfg stored = .ok (cfg.pattern ++ v.drop (v.length - cfg.k)) true := by
  have hwp : windowPart cfg v = v.drop (v.length - cfg.k) := by
    unfold windowPart; rw [if_neg (by omega), if_neg (by simp [hl])]
  have := mask_other c kvW kvR cfg v rnd p stored hpat (by rw [hwp]; exact hclean) h hw
  rw [this, hwp]
  unfold joinSides
  rw [if_neg (by simp [hl])]

/-! ## 3. non-interference -/

/-- **What a non-owner sees is a function of (window, pattern) only.** Two values with the same clear
window stored in the same masked column – by any writers, with arbitrary different hidden parts and
arbitrary randomness, hence with completely different containers – are indistinguishable for a
reader who can open neither: `maskRead` returns the same result for both. This is the formal content
of "never any byte of the ciphertext and never a hidden plaintext byte". -/
theorem mask_noninterference (c : CryptoOps) (kvR : KeyView) (cfg : MaskCfg)
    (kvW₁ kvW₂ : KeyView) (v₁ v₂ rnd₁ rnd₂ p₁ p₂ stored₁ stored₂ : Bytes)
    (hpat : cfg.pattern ≠ [])
    (hwin : windowPart cfg v₁ = windowPart cfg v₂) (hclean : cleanWindow (windowPart cfg v₁))
    (h₁ : NonOwnerHyps c kvW₁ kvR cfg v₁ rnd₁ p₁) (hw₁ : maskWrite c kvW₁ cfg v₁ rnd₁ = .ok stored₁)
    (h₂ : NonOwnerHyps c kvW₂ kvR cfg v₂ rnd₂ p₂) (hw₂ : maskWrite c kvW₂ cfg v₂ rnd₂ = .ok stored₂) :
    maskRead c kvR cfg stored₁ = maskRead c kvR cfg stored₂ := by
  rw [mask_other c kvW₁ kvR cfg v₁ rnd₁ p₁ stored₁ hpat hclean h₁ hw₁,
    mask_other c kvW₂ kvR cfg v₂ rnd₂ p₂ stored₂ hpat (by rw [← hwin]; exact hclean) h₂ hw₂, hwin]

/-! ## 4. values not longer than the window -/

/-- **A value not longer than the window is hidden completely**: a non-owner receives exactly the
masking pattern (see `mask_short_full` for the write side: the whole value goes through `protect`). -/
theorem mask_short_other (c : CryptoOps) (kvW kvR : KeyView) (cfg : MaskCfg) (v rnd p stored : Bytes)
    (hpat : cfg.pattern ≠ []) (hk : v.length ≤ cfg.k)
    (h : NonOwnerHyps c kvW kvR cfg v rnd p)
    (hw : maskWrite c kvW cfg v rnd = .ok stored) :
    maskRead c kvR cfg stored = .ok cfg.pattern true := by
  have hwp := windowPart_short cfg v hk
  have := mask_other c kvW kvR cfg v rnd p stored hpat (by rw [hwp]; intro x hx; cases hx) h hw
  rw [this, hwp]
  unfold joinSides
  split <;> simp

/-! ## 5. termination, no panic -/

/-- **Reading a masked column never panics** (and terminates: `maskRead` is a total function built
from the well-founded scans of `Detector.lean`), for every crypto back end, key-store answer,
masking setting and stored value (shorter than `2^63` bytes – every Go slice is, see C03). -/
theorem maskRead_no_panic :
    ∀ (c : CryptoOps) (kv : KeyView) (cfg : MaskCfg) (d : Bytes), d.length < 2^63 → maskRead c kv cfg d ≠ .panic :=
  maskRead_ne_panic

/-- the name used in the property list -/
theorem mask_terminates :
    ∀ (c : CryptoOps) (kv : KeyView) (cfg : MaskCfg) (d : Bytes), d.length < 2^63 → maskRead c kv cfg d ≠ .panic :=
  maskRead_ne_panic

/-- **Writing to a masked column never panics**, whatever the value (including values that look like
envelopes already) and the random stream. -/
theorem maskWrite_no_panic :
    ∀ (c : CryptoOps) (kv : KeyView) (cfg : MaskCfg) (d rnd : Bytes), maskWrite c kv cfg d rnd ≠ .panic :=
  maskWrite_ne_panic

/-- Reading a masked column never fails the query either: neither the decrypt handler nor the masking
processor ever returns an error to the column scan. -/
theorem maskRead_never_fatal :
    ∀ (c : CryptoOps) (kv : KeyView) (cfg : MaskCfg) (d : Bytes), maskRead c kv cfg d ≠ .fatal :=
  maskRead_ne_fatal

/-! ## 6. several masked columns in one client session

`proxyFactory.New` creates ONE `masking.Processor` (inside ONE `DecryptHandler`, registered with ONE
`EnvelopeDetector` behind ONE `OldContainerDetectorWrapper`) per client session; every column of every
row the session reads goes through these objects, each with the setting of its own column.
`Envelope/MaskSession.lean` models the objects with their mutable fields as explicit state. -/

/-- What the model of the session objects needs from the source of `masking.Processor`
(`Generated/MaskFlow.lean`, regenerated from `masking/dataProcessor.go` on every run): the struct has
exactly one field, the decryptor handed to `NewProcessor`; no method assigns (or takes the address of)
a receiver field; `Process` reads the column setting from the context of the call it serves and, in
the branch of a masked column, returns either the pattern of THAT setting – when the decryptor failed
or changed nothing – or the decryptor's output. A pattern kept in the processor between calls (a new
field, a receiver write, a return of anything else) changes one of these facts. -/
theorem fact_masking_processor_stateless :
    Generated.MaskFlow.processorFields = [("decryptor", "base.ExtendedDataProcessor")] ∧
    Generated.MaskFlow.processorReceiverWrites = [] ∧
    Generated.MaskFlow.processSettingSource = "encryptor.EncryptionSettingFromContext(context.Context)" ∧
    Generated.MaskFlow.processMaskedCond = "ok && setting.GetMaskingPattern() != \"\"" ∧
    Generated.MaskFlow.processPatternCond = "err != nil || bytes.Equal(newData, data)" ∧
    Generated.MaskFlow.processMaskedReturns = ["[]byte(setting.GetMaskingPattern())", "newData"] := by
  decide

/-- **What a masked column shows depends on that column alone.** For every session state the previous
columns may have left, every sequence of (setting, stored value) pairs – different patterns, sides,
window lengths, envelope kinds – and every reader: the `i`-th result of the session is exactly
`maskRead` of the `i`-th pair on its own, and it is the same from any starting state. In particular the
pattern a non-owner sees in column `i` is the pattern configured for column `i`, never one carried over
from an earlier cell. -/
theorem mask_columns_independent (c : CryptoOps) (kv : KeyView) (s : MaskSession) (cols : List (MaskCfg × Bytes)) :
    (maskSessionColumns c kv s cols).2 = cols.map (fun x => maskRead c kv x.1 x.2) ∧
    (∀ s', (maskSessionColumns c kv s' cols).2 = (maskSessionColumns c kv s cols).2) ∧
    (∀ i (h : i < cols.length), (maskSessionColumns c kv s cols).2[i]? = some (maskRead c kv cols[i].1 cols[i].2)) := by
  refine ⟨maskSessionColumns_out c kv s cols, fun s' => ?_, fun i h => ?_⟩
  · rw [maskSessionColumns_out, maskSessionColumns_out]
  · rw [maskSessionColumns_out, List.getElem?_map, List.getElem?_eq_getElem h]
    rfl

/-- **A non-owner's view of a whole session**: if every column of the session was written to a masked
column (`maskWrite` succeeded under that column's setting), has a clean clear window and cannot be
opened by the reader (`NonOwnerHyps`, per column), the session hands the reader, column by column, that
column's window joined with THAT column's pattern – nothing else. -/
theorem mask_session_other (c : CryptoOps) (kvR : KeyView) (s : MaskSession)
    (cols : List (MaskCfg × Bytes)) (src : List (KeyView × Bytes × Bytes × Bytes))
    (hlen : src.length = cols.length)
    (h : ∀ i (hi : i < cols.length),
      let cfg := cols[i].1
      let (kvW, v, rnd, p) := src[i]'(by omega)
      cfg.pattern ≠ [] ∧ cleanWindow (windowPart cfg v) ∧ NonOwnerHyps c kvW kvR cfg v rnd p ∧
        maskWrite c kvW cfg v rnd = .ok cols[i].2) :
    ∀ i (hi : i < cols.length),
      (maskSessionColumns c kvR s cols).2[i]? =
        some (.ok (joinSides cols[i].1 (windowPart cols[i].1 (src[i]'(by omega)).2.1) cols[i].1.pattern) true) := by
  intro i hi
  rw [(mask_columns_independent c kvR s cols).2.2 i hi]
  have hh := h i hi
  generalize hsrc : src[i]'(by omega) = q at hh
  obtain ⟨kvW, v, rnd, p⟩ := q
  obtain ⟨hpat, hclean, hno, hw⟩ := hh
  rw [mask_other c kvW kvR cols[i].1 v rnd p cols[i].2 hpat hclean hno hw]

/-! ## 7. hidden parts that look like a protected value only at their first bytes

`protect` passes a value through unchanged when `RegistryHandler.MatchDataSignature` (or the chosen
handler's own test) recognises it as already protected; every theorem above therefore assumes
`matchKind … (hiddenPart …) = false` and `registryMatch (hiddenPart …) = false`. These two predicates
are the model of the REAL tests – full deserialization of the container and the envelope handler's
validation of the payload – not a test of the header. The theorems below make that explicit: a hidden
part that merely begins with a container header satisfies both hypotheses, so it is encrypted like any
other value and everything above applies to it. -/

/-- What the model's `registryMatch` needs from the source of `RegistryHandler.MatchDataSignature`
(`Generated/MaskFlow.lean`, from `crypto/registry_handler.go`): it deserializes the value, looks the
envelope handler up and returns what that handler says about the deserialized payload; both failures
answer `false`. A version that only inspects the header changes this fact. -/
theorem fact_registry_match_deserializes :
    Generated.MaskFlow.registryMatchCalls =
      ["DeserializeEncryptedData(data)", "GetHandlerByEnvelopeID(envelopeID)", "handler.MatchDataSignature(internal)"] ∧
    Generated.MaskFlow.registryMatchReturns = ["false", "false", "handler.MatchDataSignature(internal)"] := by
  decide

/-- **A container header in front of bytes that are no envelope is not a protected value.** Let the
hidden part be `%%%`, any 8 length bytes `L`, a registered envelope id, and at least one more byte
`junk`. `MatchDataSignature` answers exactly what the envelope handler says about the first
`declaredInternal L` bytes of `junk` (and `false` when `junk` is shorter than declared); so unless
those bytes really are an AcraStruct/AcraBlock, neither `registryMatch` nor any handler's `matchKind`
holds. Fewer than 18 bytes after the header never match, whatever length is declared. -/
theorem lookalike_header_not_protected (L junk : Bytes) (id : UInt8) (k : Kind) (hL : L.length = 8)
    (hk : kindOfId id = some k) (hj : junk ≠ []) :
    registryMatch (containerTag ++ L ++ [id] ++ junk) =
      (decide (declaredInternal L ≤ junk.length) && matchKind k (junk.take (declaredInternal L))) ∧
    (∀ k', matchKind k' (containerTag ++ L ++ [id] ++ junk) = false) ∧
    (junk.length < 18 → registryMatch (containerTag ++ L ++ [id] ++ junk) = false) := by
  refine ⟨registryMatch_header L junk id k hL hk hj, fun k' => ?_, registryMatch_header_short L junk id k hL hk hj⟩
  obtain ⟨r, hr⟩ := containerTag_cons
  rw [hr]
  exact matchKind_pct k' _

/-- **The stored form never contains the hidden plaintext in clear** (structural form, see DESIGN §4.3):
whenever the hidden part is not a protected value in the sense of the real match predicate, a
successful write to a masked column stores the clear window joined with a serialized container whose
envelope `e` was freshly built around the hidden part – the ONLY way the hidden bytes enter `e` is as
the message of the AEAD `c.enc` under the fresh data key drawn from `rnd` (`SealedIn`). This covers
hidden parts that begin with a look-alike container header (`lookalike_header_not_protected`). -/
theorem mask_hidden_sealed (c : CryptoOps) (kv : KeyView) (cfg : MaskCfg) (v rnd stored : Bytes)
    (hpat : cfg.pattern ≠ [])
    (hnm : matchKind cfg.kind (hiddenPart cfg v) = false) (hnr : registryMatch (hiddenPart cfg v) = false)
    (hw : maskWrite c kv cfg v rnd = .ok stored) :
    ∃ e, e ≠ [] ∧ stored = joinSides cfg (windowPart cfg v) (serBytes e cfg.kind.id) ∧
      SealedIn c kv cfg.kind (hiddenPart cfg v) rnd e := by
  obtain ⟨p, hp, rfl⟩ := maskWrite_ok hpat hw
  obtain ⟨e, hne, rfl, hs⟩ := protect_sealedIn hp hnm hnr
  exact ⟨e, hne, rfl, hs⟩

/-- the same for the look-alike header class spelled out: value = window + (`%%%` | L | id | junk) with
junk that is no envelope of the named kind – the masked write seals the whole hidden part -/
theorem mask_lookalike_header_sealed (c : CryptoOps) (kv : KeyView) (cfg : MaskCfg) (v rnd stored L junk : Bytes)
    (id : UInt8) (k : Kind) (hpat : cfg.pattern ≠ [])
    (hhid : hiddenPart cfg v = containerTag ++ L ++ [id] ++ junk)
    (hL : L.length = 8) (hk : kindOfId id = some k) (hj : junk ≠ [])
    (hno : junk.length < declaredInternal L ∨ matchKind k (junk.take (declaredInternal L)) = false)
    (hw : maskWrite c kv cfg v rnd = .ok stored) :
    ∃ e, e ≠ [] ∧ stored = joinSides cfg (windowPart cfg v) (serBytes e cfg.kind.id) ∧
      SealedIn c kv cfg.kind (hiddenPart cfg v) rnd e := by
  obtain ⟨h1, h2⟩ := header_lookalike_not_protected L junk id k cfg.kind hL hk hj hno
  exact mask_hidden_sealed c kv cfg v rnd stored hpat (by rw [hhid]; exact h1) (by rw [hhid]; exact h2) hw

/-! ## 8. clear windows that contain `%`

`cleanWindow` (no `%` in the window) is much more than the read theorems need. What they need is that
the column scan passes over every position of the window: `maskWindowOk cfg w p` (in
`Envelope/MaskWindowLemmas.lean`) says that at no position inside the window – read together with the
bytes that follow it in the stored value, the real container's header included – does
`ExtractSerializedContainer` succeed. It is stated with the model's own decode attempt, it is
executable (the harness asks the model for it, op `C11.windowok`, and judges exactly the windows that
satisfy it), and the theorems of §1–§3 hold under it. -/

/-- the old hypothesis implies the new one -/
theorem window_ok_of_clean (cfg : MaskCfg) (w p : Bytes) (h : cleanWindow w) : maskWindowOk cfg w p = true :=
  maskWindowOk_of_noPct cfg w p (cleanWindow_noPct h)

/-- **Non-owner, any window the scan passes over**: `mask_other` with `cleanWindow` replaced by the
condition actually needed. The window may contain `%`, `%%`, even `%%%` – as long as no position in it
decodes as a container start when read in front of the real container (left window) resp. on its own
(right window).

This is a PARTIAL statement. The full statement of the property – for ALL clear windows, "values
containing the pattern or envelope tags" included, the reader receives window and pattern and "never any
byte of the ciphertext" – is FALSE on the pinned tree: see `mask_other_window_counterexample` below (a
false container header inside the window makes the scan step over the real container's header and
hand the rest of the container to the reader). The hypothesis `maskWindowOk` is exactly the negation of
the input class of the known finding `window-false-header-shows-container-bytes`. -/
theorem mask_other_window (c : CryptoOps) (kvW kvR : KeyView) (cfg : MaskCfg) (v rnd p stored : Bytes)
    (hpat : cfg.pattern ≠ [])
    (hwin : maskWindowOk cfg (windowPart cfg v) p = true)
    (h : NonOwnerHyps c kvW kvR cfg v rnd p)
    (hw : maskWrite c kvW cfg v rnd = .ok stored) :
    maskRead c kvR cfg stored = .ok (joinSides cfg (windowPart cfg v) cfg.pattern) true :=
  maskRead_nonOwner_win c kvW kvR cfg v rnd p stored hpat hwin h hw

set_option maxRecDepth 100000 in
/-- **Counterexample to the full statement (known finding `window-false-header-shows-container-bytes`).**
Masked column, left window of 15 bytes, pattern `*`, AcraBlock kind (transparent-box instance; the reader
has NO keys, so no property of the cryptography is involved). The value is
`%%%%` `12 00 00 00 00 00 00 00` `f0` `%%` `%rcd`: its clear window `%%%% 12 00…00 f0 %%` holds, from its
second byte on, a well-formed container header declaring 18 bytes. The write is correct (`NonOwnerHyps`
holds: the hidden part `%rcd` is sealed into the container `p`). On read the false header is taken for a
container, replaced by the pattern, and the scan advances by the declared 18 bytes – past the first 4
bytes of the real container `p`. What the key-less reader receives is `%` `*` followed by **`p` without its
first four bytes** (envelope id, the whole AcraBlock with wrapped key and ciphertext) – not window and
pattern, and it contains container bytes. `maskWindowOk` is false for this window, as it must be. -/
theorem mask_other_window_counterexample :
    let cfg : MaskCfg := ⟨[42], 15, true, .block⟩
    let v : Bytes := [37,37,37,37,18,0,0,0,0,0,0,0,240,37,37,37,114,99,100]
    let kvW : KeyView := ⟨none, none, some [1,2,3], none⟩
    let kvN : KeyView := ⟨none, none, none, none⟩
    ∃ stored p, maskWrite boxOps kvW cfg v (List.replicate 56 5) = .ok stored ∧
      stored = windowPart cfg v ++ p ∧ NonOwnerHyps boxOps kvW kvN cfg v (List.replicate 56 5) p ∧
      maskWindowOk cfg (windowPart cfg v) p = false ∧
      maskRead boxOps kvN cfg stored = .ok ([37] ++ cfg.pattern ++ p.drop 4) true ∧
      maskRead boxOps kvN cfg stored ≠ .ok (joinSides cfg (windowPart cfg v) cfg.pattern) true ∧
      150 < (p.drop 4).length := by
  intro cfg v kvW kvN
  obtain ⟨st, hst⟩ : ∃ st, maskWrite boxOps kvW cfg v (List.replicate 56 5) = .ok st := by
    cases h : maskWrite boxOps kvW cfg v (List.replicate 56 5) with
    | ok e => exact ⟨e, rfl⟩
    | err => exact absurd h (by decide)
    | panic => exact absurd h (by decide)
  have hev : st = (match maskWrite boxOps kvW cfg v (List.replicate 56 5) with | .ok b => b | _ => []) := by rw [hst]
  have hsplit : st = [37] ++ (st.drop 1).take 18 ++ st.drop 19 := by rw [hev]; decide
  have hread : maskRead boxOps kvN cfg st = .ok ([37] ++ cfg.pattern ++ st.drop 19) true := by
    have := maskRead_false_header boxOps kvN cfg [37] ((st.drop 1).take 18) (st.drop 19) (by decide)
      (by rw [hev]; decide) (by rw [hev]; decide) (by rw [hev]; decide) (by rw [hev]; decide)
      (fun m => process_no_keys boxOps kvN rfl rfl _ m) (by rw [hev]; decide) (by rw [hev]; decide)
      (by rw [hev]; decide)
    rw [← hsplit] at this
    exact this
  have hd : (st.drop 15).drop 4 = st.drop 19 := by rw [List.drop_drop]
  refine ⟨st, st.drop 15, hst, by rw [hev]; decide, ?_, by rw [hev]; decide, by rw [hd]; exact hread, ?_, by rw [hev]; decide⟩
  · exact ⟨by decide, by decide, by rw [hev]; decide, by rw [hev]; decide,
      fun m => process_no_keys boxOps kvN rfl rfl _ m, Or.inl (by decide)⟩
  · rw [hread]
    intro h
    have := congrArg (fun o => match o with | ScanOut.ok b _ => b.length | _ => 0) h
    revert this
    rw [hev]
    decide

/-- **Owner, any window the scan passes over**: `mask_owner` under the weaker window condition. -/
theorem mask_owner_window (c : CryptoOps) (kvW kvR : KeyView) (cfg : MaskCfg) (v rnd stored : Bytes)
    (hpat : cfg.pattern ≠ [])
    (hnm : matchKind cfg.kind (hiddenPart cfg v) = false) (hnr : registryMatch (hiddenPart cfg v) = false)
    (hrt : ∀ p, protect c kvW cfg.kind (hiddenPart cfg v) rnd = .ok p →
      maskWindowOk cfg (windowPart cfg v) p = true ∧
      RoundTripHyps c cfg.kind kvW kvR (hiddenPart cfg v) rnd p ∧
      hiddenPart cfg v ≠ p ++ afterContainer cfg (windowPart cfg v))
    (hw : maskWrite c kvW cfg v rnd = .ok stored) :
    maskRead c kvR cfg stored = .ok v true := by
  obtain ⟨p, hp, rfl⟩ := maskWrite_ok hpat hw
  obtain ⟨hwin, h, hne⟩ := hrt p hp
  obtain ⟨e, rfl, he, hlen, hproc⟩ := protect_roundtrip_facts c cfg.kind kvW kvR _ rnd p h hnm hnr hp
  rw [maskRead_owner_win c kvR cfg _ e _ hpat hwin he hlen (hproc _) hne, joinSides_parts]

/-- non-interference under the weaker window condition: two values with the same window are
indistinguishable for a reader who can open neither -/
theorem mask_noninterference_window (c : CryptoOps) (kvR : KeyView) (cfg : MaskCfg)
    (kvW₁ kvW₂ : KeyView) (v₁ v₂ rnd₁ rnd₂ p₁ p₂ stored₁ stored₂ : Bytes)
    (hpat : cfg.pattern ≠ [])
    (hwin : windowPart cfg v₁ = windowPart cfg v₂)
    (hok₁ : maskWindowOk cfg (windowPart cfg v₁) p₁ = true) (hok₂ : maskWindowOk cfg (windowPart cfg v₂) p₂ = true)
    (h₁ : NonOwnerHyps c kvW₁ kvR cfg v₁ rnd₁ p₁) (hw₁ : maskWrite c kvW₁ cfg v₁ rnd₁ = .ok stored₁)
    (h₂ : NonOwnerHyps c kvW₂ kvR cfg v₂ rnd₂ p₂) (hw₂ : maskWrite c kvW₂ cfg v₂ rnd₂ = .ok stored₂) :
    maskRead c kvR cfg stored₁ = maskRead c kvR cfg stored₂ := by
  rw [mask_other_window c kvW₁ kvR cfg v₁ rnd₁ p₁ stored₁ hpat hok₁ h₁ hw₁,
    mask_other_window c kvW₂ kvR cfg v₂ rnd₂ p₂ stored₂ hpat hok₂ h₂ hw₂, hwin]

/-- **Left window ending in one or two `%`** (`100%| sure`, `50%%| off` – the run of `%` in front of the
container is not a multiple of the tag length): if the rest of the window has no `%` and the container
is shorter than 2^48 bytes, the window condition holds – so a non-owner receives exactly window and
pattern, and the owner the value. The scan advances ONE byte after the failed parse at the first `%`
and so meets the real container's tag; a scan that skipped the whole 3-byte tag would jump into it. -/
theorem window_ok_trailing_pct (c : CryptoOps) (kvW : KeyView) (cfg : MaskCfg) (v rnd p w0 : Bytes) (j : Nat)
    (hl : cfg.left = true) (hj : j ≤ 2)
    (hwp : windowPart cfg v = w0 ++ List.replicate j 37) (hw0 : ∀ x ∈ w0, x ≠ 37)
    (hnm : matchKind cfg.kind (hiddenPart cfg v) = false) (hnr : registryMatch (hiddenPart cfg v) = false)
    (hp : protect c kvW cfg.kind (hiddenPart cfg v) rnd = .ok p) (hplen : p.length < 2^48) :
    maskWindowOk cfg (windowPart cfg v) p = true := by
  obtain ⟨e, _, _, rfl⟩ := c01_protect_ok hp hnm hnr
  rw [c01_serBytes_length] at hplen
  unfold maskWindowOk afterContainer
  simp only [hl, if_true, Bool.and_eq_true]
  refine ⟨?_, windowOk_nil _⟩
  rw [hwp]
  exact windowOk_trailing_pct w0 e [] cfg.kind.id j hj hw0 (by omega)

/-- **Right window of at most 12 bytes, whatever it contains**: fewer than 13 bytes after the container
can never be taken for a container, so the window condition holds for EVERY content. -/
theorem window_ok_right_short (cfg : MaskCfg) (w p : Bytes) (hl : cfg.left = false) (hlen : w.length ≤ 12) :
    maskWindowOk cfg w p = true := by
  unfold maskWindowOk afterContainer
  simp only [hl, Bool.false_eq_true, if_false, Bool.and_eq_true]
  exact ⟨windowOk_nil _, windowOk_short w hlen⟩

/-! ## 9. non-vacuity: every hypothesis bundle above is met by a concrete instance -/

/-- LEFT window, AcraBlock kind, stand-in back end: "hello!" with a clear window of 2 bytes and pattern
`***`; written with key `[1,2,3]`; the owner reads with the rotated key list `[[4,5],[1,2,3],[1,2,9]]`
and gets `hello!`; a reader without keys gets `he***`. -/
example :
    let cfg : MaskCfg := ⟨[42,42,42], 2, true, .block⟩
    let v : Bytes := [104,101,108,108,111,33]
    let kvW : KeyView := ⟨none, none, some [1,2,3], none⟩
    let kvR : KeyView := ⟨none, none, some [4,5], some ([[4,5]] ++ [1,2,3] :: [[1,2,9]])⟩
    let kvN : KeyView := ⟨none, none, none, none⟩
    ∃ stored, maskWrite toyOps kvW cfg v (List.replicate 56 5) = .ok stored ∧
      maskRead toyOps kvR cfg stored = .ok v true ∧
      maskRead toyOps kvN cfg stored = .ok [104,101,42,42,42] true := by
  intro cfg v kvW kvR kvN
  have hs := toy_sealLaws
  have hsl := toy_sealLen
  have hkid := keyId_length toyOps toy_hashLen [1,2,3] []
  have hhid : hiddenPart cfg v = [108,108,111,33] := by decide
  have hwin : windowPart cfg v = [104,101] := by decide
  have hnm : matchKind cfg.kind (hiddenPart cfg v) = false := by rw [hhid]; decide
  have hnr : registryMatch (hiddenPart cfg v) = false := by rw [hhid]; decide
  obtain ⟨p, hp⟩ := protect_block_total toyOps hs kvW [1,2,3] (hiddenPart cfg v) (List.replicate 56 5) rfl (by decide)
    (by rw [hhid]; decide) (by rw [hhid]; decide) (by decide)
  obtain ⟨hpl, _⟩ := protect_block_length toyOps hs hsl kvW [1,2,3] _ _ p rfl hkid hnm hnr hp
  have hpl' : p.length = 154 := by rw [hpl, hhid]; rfl
  have hw : maskWrite toyOps kvW cfg v (List.replicate 56 5) = .ok (joinSides cfg (windowPart cfg v) p) := by
    rw [maskWrite_eq toyOps kvW cfg v _ (by decide), hp]; rfl
  have hclean : cleanWindow (windowPart cfg v) := by rw [hwin]; decide
  refine ⟨_, hw, ?_, ?_⟩
  · refine mask_owner toyOps kvW kvR cfg v _ _ (by decide) hclean hnm hnr ?_ hw
    intro p' hp'
    rw [hp] at hp'; cases hp'
    refine ⟨⟨hs, [1,2,3], [[4,5]], [[1,2,9]], hkid, rfl, rfl, ?_, ?_, by rw [hpl']; decide⟩, ?_⟩
    · intro k' hk' encKey _ hid
      simp only [List.mem_singleton] at hk'
      subst hk'
      exact absurd hid (by decide)
    · intro ek h
      rw [hsl.enc_len _ _ _ _ _ h]; decide
    · intro h
      have := congrArg List.length h
      rw [List.length_append, hpl', hhid] at this
      simp at this
      omega
  · have := mask_other toyOps kvW kvN cfg v _ p _ (by decide) hclean
      (nonOwner_of_no_keys toyOps kvW kvN cfg v _ p hnm hnr hp (by rw [hpl']; decide) (Or.inl (by decide)) ⟨rfl, rfl⟩) hw
    rw [this, hwin]
    rfl
/-- RIGHT window, AcraStruct kind, executable stand-in back end (`H` = SHA-256): seven bytes with a clear
window of the last 3 and pattern `*`; the owner (matching private key first in the list, another key
after it) reads the value back; a reader without keys gets `*` followed by the window. -/
example :
    let priv := shimOps.privOfSeed (List.replicate 32 1)
    let other := shimOps.privOfSeed (List.replicate 32 2)
    let cfg : MaskCfg := ⟨[42], 3, false, .struct⟩
    let v : Bytes := [1,2,3,4,5,6,7]
    let kvW : KeyView := ⟨some (shimOps.pubOf priv), none, none, none⟩
    let kvR : KeyView := ⟨none, some ([] ++ priv :: [other]), none, none⟩
    let kvN : KeyView := ⟨none, none, none, none⟩
    ∃ stored, maskWrite shimOps kvW cfg v (List.replicate 88 7) = .ok stored ∧
      maskRead shimOps kvR cfg stored = .ok v true ∧
      maskRead shimOps kvN cfg stored = .ok [42,5,6,7] true := by
  intro priv other cfg v kvW kvR kvN
  have hpriv : shimOps.validPriv priv = true := shim_keygenLaws.valid_seed _ (by decide)
  have hhid : hiddenPart cfg v = [1,2,3,4] := by decide
  have hwin : windowPart cfg v = [5,6,7] := by decide
  have hnm : matchKind cfg.kind (hiddenPart cfg v) = false := by rw [hhid]; decide
  have hnr : registryMatch (hiddenPart cfg v) = false := by rw [hhid]; decide
  obtain ⟨p, hp⟩ := protect_struct_total shimOps shim_sealLaws shim_msgLaws shim_keygenLaws kvW priv (hiddenPart cfg v)
    (List.replicate 88 7) hpriv rfl (by rw [hhid]; decide) (by rw [hhid]; decide) (by decide)
  obtain ⟨hpl, _⟩ := protect_struct_length shimOps shim_sealLaws shim_sealLen shim_msgLen shim_keygenLaws kvW _ _ p hnm hnr hp
  have hpl' : p.length = 205 := by rw [hpl, hhid]; rfl
  have hw : maskWrite shimOps kvW cfg v (List.replicate 88 7) = .ok (joinSides cfg (windowPart cfg v) p) := by
    rw [maskWrite_eq shimOps kvW cfg v _ (by decide), hp]; rfl
  have hclean : cleanWindow (windowPart cfg v) := by rw [hwin]; decide
  refine ⟨_, hw, ?_, ?_⟩
  · refine mask_owner shimOps kvW kvR cfg v _ _ (by decide) hclean hnm hnr ?_ hw
    intro p' hp'
    rw [hp] at hp'; cases hp'
    refine ⟨⟨shim_sealLaws, shim_sealLen, shim_msgLaws, shim_msgLen, shim_keygenLaws, priv, [], [other], hpriv, rfl, rfl, by simp⟩, ?_⟩
    intro h
    have := congrArg List.length h
    rw [List.length_append, hpl', hhid] at this
    simp at this
    omega
  · have := mask_other shimOps kvW kvN cfg v _ p _ (by decide) hclean
      (nonOwner_of_no_keys shimOps kvW kvN cfg v _ p hnm hnr hp (by rw [hpl']; decide) (Or.inl (by decide)) ⟨rfl, rfl⟩) hw
    rw [this, hwin]
    rfl

/-- Key commitment (`boxOps`: `SealLaws` + `SealCommit`): a reader who HAS keys, but not the writer's, is a
non-owner (`nonOwner_of_commit`) and sees window and pattern; here the left window `[7]` of `[7,9,9]`. -/
example :
    let cfg : MaskCfg := ⟨[42], 1, true, .block⟩
    let v : Bytes := [7,9,9]
    let kvW : KeyView := ⟨none, none, some [1,2,3], none⟩
    let kvO : KeyView := ⟨none, none, some [9,9], some [[9,9],[1,2,4]]⟩
    ∃ stored, maskWrite boxOps kvW cfg v (List.replicate 56 5) = .ok stored ∧
      maskRead boxOps kvO cfg stored = .ok [7,42] true := by
  intro cfg v kvW kvO
  have hs := Box.sealLaws
  have hhid : hiddenPart cfg v = [9,9] := by decide
  have hwin : windowPart cfg v = [7] := by decide
  have hnm : matchKind cfg.kind (hiddenPart cfg v) = false := by rw [hhid]; decide
  have hnr : registryMatch (hiddenPart cfg v) = false := by rw [hhid]; decide
  have hkid : (keyId boxOps [1,2,3] []).length = 2 := by decide
  have e1 : boxOps.enc ((List.replicate 56 5).take 32) [] [9,9] (((List.replicate 56 (5:UInt8)).drop 32).take 12) =
      some (Box.esc (List.replicate 32 5) ++ (Box.esc [] ++ (Box.esc (List.replicate 12 5) ++ [9,9]))) := by decide
  have e2 : boxOps.enc [1,2,3] [] ((List.replicate 56 5).take 32) (((List.replicate 56 (5:UInt8)).drop 44).take 12) =
      some (Box.esc [1,2,3] ++ (Box.esc [] ++ (Box.esc (List.replicate 12 5) ++ List.replicate 32 5))) := by decide
  have hek : ∀ encKey, boxOps.enc [1,2,3] [] ((List.replicate 56 5).take 32) (((List.replicate 56 (5:UInt8)).drop 44).take 12) = some encKey →
      encKey.length < 65536 := by
    intro encKey h
    rw [e2] at h
    cases h
    decide
  obtain ⟨p, hp⟩ := protect_block_total boxOps hs kvW [1,2,3] (hiddenPart cfg v) (List.replicate 56 5) rfl (by decide)
    (by rw [hhid]; decide) (by rw [hhid]; decide) (by decide)
  have hpl : p.length < 2^63 := by
    obtain ⟨e, he, _, rfl⟩ := c01_protect_ok hp hnm hnr
    obtain ⟨key', hk', hcb⟩ := c01_encryptKind_block he hnm
    cases hk'
    rw [hhid] at hcb
    obtain ⟨encData, encKey, h1, h2, rfl⟩ := c01_createBlock_ok hcb
    rw [e1] at h1; rw [e2] at h2
    cases h1; cases h2
    rw [c01_serBytes_length, c01_buildBlock_length _ _ _ hkid]
    decide
  have hw : maskWrite boxOps kvW cfg v (List.replicate 56 5) = .ok (joinSides cfg (windowPart cfg v) p) := by
    rw [maskWrite_eq boxOps kvW cfg v _ (by decide), hp]; rfl
  refine ⟨_, hw, ?_⟩
  have := mask_other boxOps kvW kvO cfg v _ p _ (by decide) (by rw [hwin]; decide)
    (nonOwner_of_commit boxOps hs Box.sealCommit kvW kvO cfg v _ p [1,2,3] rfl rfl hkid hek hnm hnr hp hpl
      (Or.inl (by decide)) (by intro ks hks; cases hks; decide)) hw
  rw [this, hwin]
  rfl

/-- Non-interference and the short case, stand-in back end: `he|llo!` and `he|y` (same window `he`,
different hidden parts, different writers' randomness) are indistinguishable for a reader without
keys; the one-byte value `h` (not longer than the window) is shown as the pattern alone. -/
example :
    let cfg : MaskCfg := ⟨[42,42,42], 2, true, .block⟩
    let kvW : KeyView := ⟨none, none, some [1,2,3], none⟩
    let kvN : KeyView := ⟨none, none, none, none⟩
    ∃ s₁ s₂ s₃, maskWrite toyOps kvW cfg [104,101,108,108,111,33] (List.replicate 56 5) = .ok s₁ ∧
      maskWrite toyOps kvW cfg [104,101,121] (List.replicate 56 6) = .ok s₂ ∧
      maskWrite toyOps kvW cfg [104] (List.replicate 56 7) = .ok s₃ ∧
      maskRead toyOps kvN cfg s₁ = maskRead toyOps kvN cfg s₂ ∧ maskRead toyOps kvN cfg s₃ = .ok [42,42,42] true := by
  intro cfg kvW kvN
  have hs := toy_sealLaws
  have hsl := toy_sealLen
  have hkid := keyId_length toyOps toy_hashLen [1,2,3] []
  have mk : ∀ (v rnd : Bytes), matchKind .block (hiddenPart cfg v) = false → registryMatch (hiddenPart cfg v) = false →
      hiddenPart cfg v ≠ [] → (hiddenPart cfg v).length < 100 → 56 ≤ rnd.length →
      ∃ p, NonOwnerHyps toyOps kvW kvN cfg v rnd p ∧
        maskWrite toyOps kvW cfg v rnd = .ok (joinSides cfg (windowPart cfg v) p) := by
    intro v rnd hnm hnr hne hlen hr
    obtain ⟨p, hp⟩ := protect_block_total toyOps hs kvW [1,2,3] (hiddenPart cfg v) rnd rfl (by decide) hne
      (by have : maxMsgLen = 2^32 := rfl; omega) hr
    obtain ⟨hpl, _⟩ := protect_block_length toyOps hs hsl kvW [1,2,3] _ _ p rfl hkid hnm hnr hp
    refine ⟨p, nonOwner_of_no_keys toyOps kvW kvN cfg v rnd p hnm hnr hp (by omega) (Or.inl (by decide)) ⟨rfl, rfl⟩, ?_⟩
    rw [maskWrite_eq toyOps kvW cfg v _ (by decide), hp]; rfl
  obtain ⟨p₁, h₁, w₁⟩ := mk [104,101,108,108,111,33] (List.replicate 56 5) (by decide) (by decide) (by decide) (by decide) (by decide)
  obtain ⟨p₂, h₂, w₂⟩ := mk [104,101,121] (List.replicate 56 6) (by decide) (by decide) (by decide) (by decide) (by decide)
  obtain ⟨p₃, h₃, w₃⟩ := mk [104] (List.replicate 56 7) (by decide) (by decide) (by decide) (by decide) (by decide)
  refine ⟨_, _, _, w₁, w₂, w₃, ?_, ?_⟩
  · exact mask_noninterference toyOps kvN cfg kvW kvW _ _ _ _ p₁ p₂ _ _ (by decide) (by decide) (by decide) h₁ w₁ h₂ w₂
  · exact mask_short_other toyOps kvW kvN cfg [104] _ p₃ _ (by decide) (by decide) h₃ w₃

/-- no-panic theorems: both outcomes other than panic occur – a successful write, and a write that
fails (no key) without panicking -/
example : (∃ s, maskWrite toyOps ⟨none, none, some [1,2,3], none⟩ ⟨[42], 1, true, .block⟩ [7,9,9] (List.replicate 56 5) = .ok s) ∧
    maskWrite toyOps ⟨none, none, none, none⟩ ⟨[42], 1, true, .block⟩ [7,9,9] (List.replicate 56 5) = .err := by
  constructor
  · obtain ⟨p, hp⟩ := protect_block_total toyOps toy_sealLaws ⟨none, none, some [1,2,3], none⟩ [1,2,3] [9,9] (List.replicate 56 5)
      rfl (by decide) (by decide) (by decide) (by decide)
    refine ⟨[7] ++ p, ?_⟩
    rw [maskWrite_eq _ _ _ _ _ (by decide)]
    have : hiddenPart ⟨[42], 1, true, .block⟩ [7,9,9] = [9,9] := by decide
    rw [this, hp]; rfl
  · decide

/-- A session of two masked columns with DIFFERENT patterns, sides and window lengths, read by a client
without keys through the same session objects (`mask_session_other`; stand-in back end): `he|llo!` with
pattern `***` on the right of a left window of 2, and `hey` with pattern `#` on the left of a right
window of 1 – the reader gets `he***` and then `#y`: each column its own pattern. -/
example :
    let cfg₁ : MaskCfg := ⟨[42,42,42], 2, true, .block⟩
    let cfg₂ : MaskCfg := ⟨[35], 1, false, .block⟩
    let kvW : KeyView := ⟨none, none, some [1,2,3], none⟩
    let kvN : KeyView := ⟨none, none, none, none⟩
    ∃ s₁ s₂, maskWrite toyOps kvW cfg₁ [104,101,108,108,111,33] (List.replicate 56 5) = .ok s₁ ∧
      maskWrite toyOps kvW cfg₂ [104,101,121] (List.replicate 56 6) = .ok s₂ ∧
      (maskSessionColumns toyOps kvN MaskSession.init [(cfg₁, s₁), (cfg₂, s₂)]).2 =
        [.ok [104,101,42,42,42] true, .ok [35,121] true] := by
  intro cfg₁ cfg₂ kvW kvN
  have hs := toy_sealLaws
  have hsl := toy_sealLen
  have hkid := keyId_length toyOps toy_hashLen [1,2,3] []
  have mk : ∀ (cfg : MaskCfg) (v rnd : Bytes), cfg.kind = .block → cfg.pattern ≠ [] → cfg.pattern.length ≤ 12 →
      matchKind .block (hiddenPart cfg v) = false → registryMatch (hiddenPart cfg v) = false →
      hiddenPart cfg v ≠ [] → (hiddenPart cfg v).length < 100 → 56 ≤ rnd.length →
      ∃ p, NonOwnerHyps toyOps kvW kvN cfg v rnd p ∧
        maskWrite toyOps kvW cfg v rnd = .ok (joinSides cfg (windowPart cfg v) p) := by
    intro cfg v rnd hkind hpat hpl hnm hnr hne hlen hr
    obtain ⟨p, hp⟩ := protect_block_total toyOps hs kvW [1,2,3] (hiddenPart cfg v) rnd rfl (by decide) hne
      (by have : maxMsgLen = 2^32 := rfl; omega) hr
    obtain ⟨hpl', _⟩ := protect_block_length toyOps hs hsl kvW [1,2,3] _ _ p rfl hkid hnm hnr hp
    rw [← hkind] at hp hnm
    refine ⟨p, nonOwner_of_no_keys toyOps kvW kvN cfg v rnd p hnm hnr hp (by omega) (Or.inl hpl) ⟨rfl, rfl⟩, ?_⟩
    rw [maskWrite_eq toyOps kvW cfg v _ hpat, hp]; rfl
  obtain ⟨p₁, h₁, w₁⟩ := mk cfg₁ [104,101,108,108,111,33] (List.replicate 56 5) rfl (by decide) (by decide) (by decide) (by decide)
    (by decide) (by decide) (by decide)
  obtain ⟨p₂, h₂, w₂⟩ := mk cfg₂ [104,101,121] (List.replicate 56 6) rfl (by decide) (by decide) (by decide) (by decide)
    (by decide) (by decide) (by decide)
  refine ⟨_, _, w₁, w₂, ?_⟩
  have hso := mask_session_other toyOps kvN MaskSession.init
    [(cfg₁, joinSides cfg₁ (windowPart cfg₁ [104,101,108,108,111,33]) p₁), (cfg₂, joinSides cfg₂ (windowPart cfg₂ [104,101,121]) p₂)]
    [(kvW, [104,101,108,108,111,33], List.replicate 56 5, p₁), (kvW, [104,101,121], List.replicate 56 6, p₂)] rfl
    (by
      intro i hi
      match i, hi with
      | 0, _ =>
        show cfg₁.pattern ≠ [] ∧ cleanWindow (windowPart cfg₁ [104,101,108,108,111,33]) ∧ _ ∧ _
        exact ⟨by decide, by decide, h₁, w₁⟩
      | 1, _ =>
        show cfg₂.pattern ≠ [] ∧ cleanWindow (windowPart cfg₂ [104,101,121]) ∧ _ ∧ _
        exact ⟨by decide, by decide, h₂, w₂⟩)
  have e0 := hso 0 (Nat.zero_lt_succ _)
  have e1 := hso 1 (Nat.succ_lt_succ (Nat.zero_lt_succ _))
  apply List.ext_getElem?
  intro i
  match i with
  | 0 => rw [e0]; rfl
  | 1 => rw [e1]; rfl
  | n + 2 =>
    rw [(mask_columns_independent toyOps kvN MaskSession.init _).1]
    rfl

/-- A hidden part that begins with a look-alike container header (`%%%`, declared length 15, id 0xF0)
followed by three bytes that are no AcraBlock: it is NOT passed through – the write seals it
(`mask_lookalike_header_sealed`), and a reader without keys sees window and pattern (`7*`). -/
example :
    let cfg : MaskCfg := ⟨[42], 1, true, .block⟩
    let hid : Bytes := containerTag ++ [15,0,0,0,0,0,0,0] ++ [idBlock] ++ [9,9,9]
    let v : Bytes := 7 :: hid
    let kvW : KeyView := ⟨none, none, some [1,2,3], none⟩
    let kvN : KeyView := ⟨none, none, none, none⟩
    ∃ stored e, maskWrite toyOps kvW cfg v (List.replicate 56 5) = .ok stored ∧
      stored = [7] ++ serBytes e idBlock ∧ SealedIn toyOps kvW .block hid (List.replicate 56 5) e ∧
      maskRead toyOps kvN cfg stored = .ok [7,42] true := by
  intro cfg hid v kvW kvN
  have hs := toy_sealLaws
  have hsl := toy_sealLen
  have hkid := keyId_length toyOps toy_hashLen [1,2,3] []
  have hhid : hiddenPart cfg v = containerTag ++ [15,0,0,0,0,0,0,0] ++ [idBlock] ++ [9,9,9] := by decide
  have hwin : windowPart cfg v = [7] := by decide
  obtain ⟨hnm, hnr⟩ := header_lookalike_not_protected [15,0,0,0,0,0,0,0] [9,9,9] idBlock .block .block rfl (by decide) (by decide)
    (Or.inr (matchKind_short _ _ (by rw [List.length_take]; simp; omega)))
  rw [← hhid] at hnm hnr
  obtain ⟨p, hp⟩ := protect_block_total toyOps hs kvW [1,2,3] (hiddenPart cfg v) (List.replicate 56 5) rfl (by decide)
    (by rw [hhid]; decide) (by rw [hhid]; decide) (by decide)
  obtain ⟨hpl, _⟩ := protect_block_length toyOps hs hsl kvW [1,2,3] _ _ p rfl hkid hnm hnr hp
  have hw : maskWrite toyOps kvW cfg v (List.replicate 56 5) = .ok (joinSides cfg (windowPart cfg v) p) := by
    rw [maskWrite_eq toyOps kvW cfg v _ (by decide), hp]; rfl
  obtain ⟨e, hne, hst, hsealed⟩ := mask_lookalike_header_sealed toyOps kvW cfg v _ _ [15,0,0,0,0,0,0,0] [9,9,9] idBlock .block
    (by decide) hhid rfl (by decide) (by decide)
    (Or.inr (matchKind_short _ _ (by rw [List.length_take]; simp; omega))) hw
  refine ⟨_, e, hw, ?_, ?_, ?_⟩
  · rw [hst, hwin]; rfl
  · rw [hhid] at hsealed; exact hsealed
  · have := mask_other_no_keys toyOps kvW kvN cfg v _ p _ (by decide) (by rw [hwin]; decide) hnm hnr hp
      (by rw [hpl, hhid]; decide) (Or.inl (by decide)) ⟨rfl, rfl⟩ hw
    rw [this, hwin]
    rfl

/-- `100% sure` with a left window of 4 (`100%`) and pattern `*` (stand-in back end, AcraBlock kind): the
window ends in `%` directly in front of the container's `%%%`; the window condition holds
(`window_ok_trailing_pct`), a reader without keys gets `100%*`. -/
example :
    let cfg : MaskCfg := ⟨[42], 4, true, .block⟩
    let v : Bytes := [49,48,48,37,32,115,117,114,101]
    let kvW : KeyView := ⟨none, none, some [1,2,3], none⟩
    let kvN : KeyView := ⟨none, none, none, none⟩
    ∃ stored, maskWrite toyOps kvW cfg v (List.replicate 56 5) = .ok stored ∧
      maskRead toyOps kvN cfg stored = .ok [49,48,48,37,42] true := by
  intro cfg v kvW kvN
  have hs := toy_sealLaws
  have hsl := toy_sealLen
  have hkid := keyId_length toyOps toy_hashLen [1,2,3] []
  have hhid : hiddenPart cfg v = [32,115,117,114,101] := by decide
  have hwin : windowPart cfg v = [49,48,48,37] := by decide
  have hnm : matchKind cfg.kind (hiddenPart cfg v) = false := by rw [hhid]; decide
  have hnr : registryMatch (hiddenPart cfg v) = false := by rw [hhid]; decide
  obtain ⟨p, hp⟩ := protect_block_total toyOps hs kvW [1,2,3] (hiddenPart cfg v) (List.replicate 56 5) rfl (by decide)
    (by rw [hhid]; decide) (by rw [hhid]; decide) (by decide)
  obtain ⟨hpl, _⟩ := protect_block_length toyOps hs hsl kvW [1,2,3] _ _ p rfl hkid hnm hnr hp
  have hpl' : p.length = 155 := by rw [hpl, hhid]; rfl
  have hw : maskWrite toyOps kvW cfg v (List.replicate 56 5) = .ok (joinSides cfg (windowPart cfg v) p) := by
    rw [maskWrite_eq toyOps kvW cfg v _ (by decide), hp]; rfl
  have hok := window_ok_trailing_pct toyOps kvW cfg v _ p [49,48,48] 1 rfl (by decide) (by rw [hwin]; rfl) (by decide)
    hnm hnr hp (by rw [hpl']; decide)
  refine ⟨_, hw, ?_⟩
  have := mask_other_window toyOps kvW kvN cfg v _ p _ (by decide) hok
    (nonOwner_of_no_keys toyOps kvW kvN cfg v _ p hnm hnr hp (by rw [hpl']; decide) (Or.inl (by decide)) ⟨rfl, rfl⟩) hw
  rw [this, hwin]
  rfl

end AcraModel.Props.C11
