import AcraModel.CrossClient.Reveal
import AcraModel.CrossClient.Hash
import AcraModel.CrossClient.Context
import AcraModel.CrossClient.Keys
import AcraModel.CrossClient.Token
import AcraModel.CrossClient.TokenColumn
import AcraModel.CrossClient.Tls
import AcraModel.CrossClient.TlsIdentity
import AcraModel.CrossClient.TlsIdentityInj
import AcraModel.CrossClient.TlsServer
import AcraModel.CrossClient.TlsConn
import AcraModel.CrossClient.ServerOps
import AcraModel.CrossClient.BoxLaws
import AcraModel.CrossClient.Box45
import AcraModel.CrossClient.NoPanic
import AcraModel.CrossClient.Compat
import AcraModel.Props.C01
import AcraModel.Crypto.Shim
/-!
# C02 — data protected for one client is never revealed under another identity

Property theorems only. Models: `AcraModel/Envelope/*` (C01, validated against the real code) and
`AcraModel/CrossClient/{Reveal,Hash,Context,Keys,Token,Tls}.lean`.

Crypto assumptions are hypotheses: `SealLaws c` (correctness + authenticity of Secure Cell), `SealCommit c`
(a ciphertext determines key and context), `MsgCommit c` (a wrapped key opens under one private key only),
`HashLen c` / `HashInj c` (never together). Key-generation randomness is the hypothesis `Fresh`.
Non-vacuity examples at the end use the `Box` instance.
-/
namespace AcraModel.Props.C02
open AcraModel AcraModel.Envelope AcraModel.CrossClient Generated

/-! ## facts regenerated from the source -/

/-- Every RPC of the services aggregated by `DecryptService` that `TLSDecryptServiceWrapper` declares
assigns `request.ClientId` from the connection (after checking the extraction error) before it forwards
the request; RPCs it does not declare are answered by the embedded `Unimplemented…Server` (never
forwarded). On the current tree all eleven are declared. -/
theorem fact_tls_overrides_all : ∀ r ∈ rpcTable, r.defined = false ∨ r.overrides = true := by decide

/-- `tls_overrides_all` in the form of DESIGN §7: every row of the table overrides. -/
theorem tls_overrides_all : ∀ r ∈ rpcTable, r.overrides = true := by decide

/-- an overriding wrapper method forwards to the method of the same name only -/
theorem fact_tls_forwards_same : ∀ r ∈ rpcTable, r.overrides = true → r.forwards = r.name := by decide

/-- the table is not empty and covers every operation of `ITranslatorService`; so does the HTTP API -/
theorem fact_every_translator_op_covered :
    TlsRpc.translatorOps ≠ [] ∧
    (∀ op ∈ TlsRpc.translatorOps, op ∈ rpcTable.map (·.name)) ∧
    (∀ op ∈ TlsRpc.translatorOps, op ∈ TlsRpc.httpOps.map (·.2.1)) := by decide

/-- `getClientID` looks at the request context (the gRPC peer) and nothing else: it takes no request, and
calls `peer.FromContext` and `network.GetClientIDFromAuthInfo` only -/
theorem fact_getClientID_reads_connection_only :
    TlsRpc.getClientIDCalls = ["peer.FromContext", "network.GetClientIDFromAuthInfo"] ∧
    TlsRpc.getClientIDParams = ["context.Context", "network.TLSClientIDExtractor"] := by decide

/-- every HTTP handler hands the translator service the identity of the connection
(`network.GetClientIDFromConnection` on the connection of the request context) or nil – HTTP requests
carry no client id at all -/
theorem fact_http_identity_from_connection : ∀ r ∈ TlsRpc.httpOps, r.2.2 = true := by decide

/-- the wrapped gRPC service uses `request.ClientId` – the field the wrapper has overwritten – for every
key-store and translator-service call -/
theorem fact_grpc_service_uses_request_id : ∀ r ∈ TlsRpc.grpcOps, r.2.2 = true := by decide

/-- v1: the bytes of a key context are the client id when there is one; every accessor of a per-client
secret key builds its context with `NewClientIDKeyContext(purpose, id)`; the key encryptor seals and
unseals with exactly those bytes -/
theorem fact_v1_context_is_client_id :
    IdentityCtx.v1KeyContextOrder = ["ClientID", "Context", "nil"] ∧
    (∀ r ∈ IdentityCtx.v1ClientKeyContexts, r.2.1 = "NewClientIDKeyContext" ∧ r.2.2 = "id") ∧
    IdentityCtx.v1KeyEncryptorEncryptCalls = ["encryptor.scell.Protect", "GetKeyContextFromContext"] ∧
    IdentityCtx.v1KeyEncryptorDecryptCalls = ["encryptor.scell.Unprotect", "GetKeyContextFromContext"] ∧
    IdentityCtx.v1ClientSymNameCalls = ["getSymmetricKeyName", "GetServerDecryptionKeyFilename"] := by decide

/-- v2: shapes of the context builders the model follows -/
theorem fact_v2_context_shapes :
    IdentityCtx.v2KeyRingContextShape = ["lit", "<r.path>", "lit", "<context>"] ∧
    IdentityCtx.v2KeyStoreContextShape = ["lit", "<context>"] ∧
    IdentityCtx.v2RingSignatureContextShape = ["lit", "<path>"] ∧
    IdentityCtx.v2SignWrites = ["context", "separator", "data"] ∧
    IdentityCtx.v2StoreEncryptCalls = ["keystoreV1.NewEmptyKeyContext", "s.keyStoreContext", "s.encryptor.Encrypt", "context.Background"] ∧
    IdentityCtx.v2StoreDecryptCalls = ["keystoreV1.NewEmptyKeyContext", "s.keyStoreContext", "s.encryptor.Decrypt", "context.Background"] ∧
    IdentityCtx.v2ClientStorageKeyPairPath = ["clientPrefix", "string(clientID)", "storageSuffix"] ∧
    IdentityCtx.v2ClientStorageSymmetricKeyPath = ["clientPrefix", "string(clientID)", "storageSymmetricSuffix"] ∧
    IdentityCtx.v2ClientHMACKeyPath = ["clientPrefix", "string(clientID)", "hmacSymmetricSuffix"] := by decide

/-- the literals of the v2 contexts: the ring context ends its path with `": "`, the two key kinds start
with different bytes, neither literal in front of the path contains a `:` the path could be confused with -/
theorem fact_v2_literals :
    bytesOfNats IdentityCtx.v2KeyRingContextLit1 = [58, 32] ∧
    (bytesOfNats IdentityCtx.v2PrivateKeyFormat).head? = some 112 ∧
    (bytesOfNats IdentityCtx.v2SymmetricKeyFormat).head? = some 115 := by decide

/-- token records: what `generateDataID` and `AggregateTokenContextToBytes` hash, in order -/
theorem fact_token_id_shapes :
    IdentityCtx.tokenDataIDWrites = ["dataIDDelim", "data", "lit:zone", "context.AdditionalContext", "lit:client",
      "context.ClientID", "dataIDDelim", "strconv.Itoa(int(dataType))"] ∧
    IdentityCtx.tokenContextWrites = ["lit:zone", "context.AdditionalContext", "lit:client", "context.ClientID"] ∧
    bytesOfNats IdentityCtx.tokenKeyPrefix ≠ bytesOfNats IdentityCtx.tokenHashKeyPrefix := by decide

/-- the search hash starts with byte 127 and `IsEqual` fetches the HMAC key of the id it is given first -/
theorem fact_hash_shape :
    hashFuncByte = 127 ∧ IdentityCtx.hashIsEqualCalls.head? = some "store.GetHMACSecretKey" := by decide

/-! ## revealing under another identity -/

/-- **Library / registry entry point, any two key views.** If the key views of two identities are
separated (no common symmetric key; B's private keys do not unwrap what A's unwrap), then every stored
value `v` that A can reveal – in particular every `protect c kvA kind m r` (C01 `reveal_protect`) – is an
*error* under B: not a value, not a panic. `v` is arbitrary, so this also covers values written before
any number of key rotations on either side. -/
theorem cross_client_reveal_separate {c : CryptoOps} (hl : SealLaws c) (hc : SealCommit c) {kvA kvB : KeyView}
    (hsep : KeysSeparate c kvA kvB) {v m : Bytes} (hown : reveal c kvA v = .ok m) :
    reveal c kvB v = .err :=
  process_cross hl hc hsep hown

/-- **`cross_client_reveal`, arbitrary key histories.** `pairs` and `syms` are the complete generation
histories (all clients, all rotations, newest first) of the storage key pairs and symmetric keys; the
random generator never repeated a key (`Fresh`). For different identities `a ≠ b`, whatever `a` can
reveal is an error under `b`. -/
theorem cross_client_reveal {c : CryptoOps} (hl : SealLaws c) (hc : SealCommit c) (hm : MsgCommit c)
    {pairs syms : History} (hp : Fresh pairs) (hs : Fresh syms) {a b : Bytes} (hab : a ≠ b) {v m : Bytes}
    (hown : revealAs c (storeOf c pairs syms) a v = .ok m) :
    revealAs c (storeOf c pairs syms) b v = .err :=
  process_cross hl hc (storeOf_separate hm hp hs hab) hown

/-- **`cross_client_reveal` over `protect`, AcraBlock.** A value `m` protected as AcraBlock under ANY
generation `key` of A's symmetric storage key (written before any number of rotations) is revealed to A
and is an error for every other identity B – for arbitrary fresh key histories on both sides. (C01
`reveal_protect_block_commit` supplies the owner's half. For AcraStructs C01's round trip needs the length
laws `SealLen`/`MsgLen`, which must never be combined with the commitment laws; there the statement is
`cross_client_reveal` with "A can reveal `v`" as its hypothesis, and the `box45` example below shows a
`protect` output satisfying it.) -/
theorem cross_client_reveal_protect_block {c : CryptoOps} (hl : SealLaws c) (hc : SealCommit c) (hm : MsgCommit c)
    {pairs syms : History} (hp : Fresh pairs) (hs : Fresh syms) {a b : Bytes} (hab : a ≠ b)
    (kvW : KeyView) (key m rnd p : Bytes)
    (hkid : (keyId c key []).length = 2) (hW : kvW.sym = some key) (hmem : key ∈ keysOf syms a)
    (hEncKey : ∀ encKey, c.enc key [] (rnd.take 32) ((rnd.drop 44).take 12) = some encKey → encKey.length < 65536)
    (hplen : p.length < 2^63)
    (hnm : matchKind .block m = false) (hnr : registryMatch m = false)
    (hprot : protect c kvW .block m rnd = .ok p) :
    revealAs c (storeOf c pairs syms) a p = .ok m ∧ revealAs c (storeOf c pairs syms) b p = .err := by
  have hown : revealAs c (storeOf c pairs syms) a p = .ok m :=
    C01.reveal_protect_block_commit c hl hc kvW (storeOf c pairs syms a) key m rnd p (keysOf syms a)
      hkid hW rfl hmem hEncKey hplen hnm hnr hprot
  exact ⟨hown, cross_client_reveal hl hc hm hp hs hab hown⟩

/-- **AcraTranslator `Decrypt` / `DecryptSym`** (`DecryptWithHandler`) under another identity. -/
theorem cross_client_decrypt {c : CryptoOps} (hl : SealLaws c) (hc : SealCommit c) (hm : MsgCommit c)
    {pairs syms : History} (hp : Fresh pairs) (hs : Fresh syms) {a b : Bytes} (hab : a ≠ b) {k : Kind} {v m : Bytes}
    (hown : decryptAs c (storeOf c pairs syms) a k v = .ok m) :
    decryptAs c (storeOf c pairs syms) b k v = .err :=
  decryptWithHandler_cross hl hc (storeOf_separate hm hp hs hab) hown

/-- **Transparent column path** (`EnvelopeDetector.OnColumn` with B's decrypt callback). If at every
position of the column where a container is recognised, that container is one A can read or one B cannot
read anyway, the column comes back byte for byte as it is stored: no error, no panic, nothing replaced.
In particular `pre ++ protect … a … ++ suf` is unchanged for every `pre`/`suf` in which B can read nothing. -/
theorem cross_client_column {c : CryptoOps} (hl : SealLaws c) (hc : SealCommit c) {kvA kvB : KeyView}
    (hsep : KeysSeparate c kvA kvB) {buf : Bytes}
    (hpos : ∀ i, i ≤ buf.length → ∀ cont adv, extractContainer (buf.drop i) = .ok (adv, cont) →
      (∃ m, process c kvA cont = .ok m) ∨ (∀ m, process c kvB cont ≠ .ok m)) :
    ∃ hit, onColumn [decryptCallback c kvB] buf = .ok buf hit := by
  unfold onColumn
  split
  · exact ⟨false, rfl⟩
  · apply scan_all_same [decryptCallback c kvB] buf.length buf (Nat.le_refl _)
    intro i hi cont adv he cb hcb
    simp only [List.mem_singleton] at hcb
    subst hcb
    apply decryptCallback_same
    intro m
    rcases hpos i hi cont adv he with ⟨m', hm'⟩ | hno
    · rw [process_cross hl hc hsep hm']
      simp
    · exact hno m

/-- the same for identities of a key store with arbitrary fresh histories -/
theorem cross_client_column_history {c : CryptoOps} (hl : SealLaws c) (hc : SealCommit c) (hm : MsgCommit c)
    {pairs syms : History} (hp : Fresh pairs) (hs : Fresh syms) {a b : Bytes} (hab : a ≠ b) {buf : Bytes}
    (hpos : ∀ i, i ≤ buf.length → ∀ cont adv, extractContainer (buf.drop i) = .ok (adv, cont) →
      (∃ m, process c (storeOf c pairs syms a) cont = .ok m) ∨ (∀ m, process c (storeOf c pairs syms b) cont ≠ .ok m)) :
    ∃ hit, columnAs c (storeOf c pairs syms) b buf = .ok buf hit :=
  cross_client_column hl hc (storeOf_separate hm hp hs hab) hpos

/-- **Transparent column path behind the compatibility wrapper** (`OldContainerDetectorWrapper.OnColumn`,
what both SQL proxies install). Besides serialized containers it looks for bare AcraStructs / AcraBlocks,
wraps each into a container and offers it to the callbacks. If every container recognised in the column,
and every slice of the column wrapped as a container of either kind, is something A can read or B cannot
read anyway, the column comes back byte for byte as stored: no error, no panic, nothing replaced. -/
theorem cross_client_column_compat {c : CryptoOps} (hl : SealLaws c) (hc : SealCommit c) {kvA kvB : KeyView}
    (hsep : KeysSeparate c kvA kvB) {buf : Bytes}
    (hpos : ∀ i, i ≤ buf.length → ∀ cont adv, extractContainer (buf.drop i) = .ok (adv, cont) →
      (∃ m, process c kvA cont = .ok m) ∨ (∀ m, process c kvB cont ≠ .ok m))
    (hbare : ∀ i l id s, serialize ((buf.drop i).take l) id = .ok s →
      (∃ m, process c kvA s = .ok m) ∨ (∀ m, process c kvB s ≠ .ok m)) :
    ∃ hit, onColumnCompat [decryptCallback c kvB] buf = .ok buf hit := by
  have key : ∀ s, ((∃ m, process c kvA s = .ok m) ∨ (∀ m, process c kvB s ≠ .ok m)) →
      ∀ cb, cb ∈ [decryptCallback c kvB] → cb s = .same := by
    intro s h cb hcb
    simp only [List.mem_singleton] at hcb
    subst hcb
    apply decryptCallback_same
    intro m
    rcases h with ⟨m', hm'⟩ | hno
    · rw [process_cross hl hc hsep hm']
      simp
    · exact hno m
  exact onColumnCompat_all_same _ buf
    (fun i hi cont adv he => key cont (hpos i hi cont adv he))
    (fun i l id s hs => key s (hbare i l id s hs))

/-! ## blind index -/

/-- **`cross_client_hash`.** The blind-index check of a hash produced for A (`GenerateHMAC` with A's key
over `m`) run under B against data `d` succeeds exactly when B's HMAC of `d` equals A's HMAC of `m`;
so it fails unless the two HMACs collide. No assumption beyond the stated inequality. -/
theorem cross_client_hash {c : CryptoOps} (hs : HmacStore) (b ka kb m d : Bytes) (hb : hs b = some kb)
    (hne : c.hmac kb d ≠ c.hmac ka m) :
    hashVerifyAs c hs b (generateHash c ka m) d = false := by
  unfold hashVerifyAs
  rw [hb]
  cases h : hashIsEqual c (generateHash c ka m) d (some kb) with
  | false => rfl
  | true => exact absurd ((hashIsEqual_generate ka m d kb).mp h) hne

/-- … and under idealised collision freedom (`HashInj`) it fails whenever the keys differ. -/
theorem cross_client_hash_inj {c : CryptoOps} (hi : HashInj c) (hs : HmacStore) (b ka kb m d : Bytes)
    (hb : hs b = some kb) (hk : ka ≠ kb) :
    hashVerifyAs c hs b (generateHash c ka m) d = false :=
  cross_client_hash hs b ka kb m d hb (fun h => hk (hi.hmac_inj kb d ka m h).1.symm)

/-- the hash that the searchable operations split off a stored value is the hash that was put in front
(32-byte HMAC) -/
theorem search_hash_extracted {c : CryptoOps} (hlen : HashLen c) (ka m container : Bytes) :
    extractHashAndData (generateHash c ka m ++ container) = some (generateHash c ka m, container) :=
  extract_generate hlen ka m container

/-- **Searchable decrypt** (`DecryptSearchable` / `DecryptSymSearchable`) under another identity: an error
that hands the caller's own input back – never the plaintext – for every stored value A can decrypt. -/
theorem cross_client_search_decrypt {c : CryptoOps} (hl : SealLaws c) (hc : SealCommit c) (hm : MsgCommit c)
    {pairs syms : History} (hp : Fresh pairs) (hs : Fresh syms) {a b : Bytes} (hab : a ≠ b)
    {ha hb : Option Bytes} {k : Kind} {data m : Bytes} {hash : Option Bytes}
    (hown : decryptSearchable c (storeOf c pairs syms a) ha k data hash = .ok m) :
    decryptSearchable c (storeOf c pairs syms b) hb k data hash = .errBack data :=
  decryptSearchable_cross hl hc (storeOf_separate hm hp hs hab) hown

/-! ## tokens -/

/-- **`cross_client_detokenize`.** After any history of consistent tokenizations (any identities, any
values, any random draws) starting from an empty storage, de-tokenizing ANY token under identity `b`
yields either the token itself, unchanged, or a value that was tokenized by an identity whose context
digest equals `b`'s. -/
theorem cross_client_detokenize {c : CryptoOps} (ops : List TokOp) (b tok r : Bytes) (ty : Nat)
    (h : detokenize c (runTok c [] ops) b tok ty = .ok r) :
    r = tok ∨ ∃ op, op ∈ ops ∧ aggCtx c op.id = aggCtx c b ∧ op.v = r := by
  have hinv : Owned c (ops.reverse ++ []) (runTok c [] ops) :=
    runTok_owned ops [] [] (by intro e he; cases he)
  unfold detokenize at h
  cases hg : (runTok c [] ops).get (aggCtx c b) (tokKey c tok b ty) with
  | none => simp only [hg] at h; cases h; exact Or.inl rfl
  | some d =>
    simp only [hg] at h
    cases d with
    | raw x => cases h
    | value v ty' =>
      simp only at h
      split at h
      · cases h
      · cases h
        obtain ⟨e, he, hctx, hd⟩ := TokStore.get_mem hg
        obtain ⟨op, hop, h1, h2⟩ := hinv e he r ty' hd
        refine Or.inr ⟨op, ?_, by rw [h1, hctx], h2⟩
        simpa using hop

/-- … with a collision-free SHA-256 on the identities at hand: a value only other clients tokenized is
never returned to `b`; `b` gets the token back or one of its own values. -/
theorem cross_client_detokenize_own {c : CryptoOps} (ops : List TokOp) (b tok r : Bytes) (ty : Nat)
    (hnc : ∀ op, op ∈ ops → aggCtx c op.id = aggCtx c b → op.id = b)
    (h : detokenize c (runTok c [] ops) b tok ty = .ok r) :
    r = tok ∨ ∃ op, op ∈ ops ∧ op.id = b ∧ op.v = r := by
  rcases cross_client_detokenize ops b tok r ty h with h | ⟨op, hop, hc, hv⟩
  · exact Or.inl h
  · exact Or.inr ⟨op, hop, hnc op hop hc, hv⟩

/-! ## tokenized columns behind the SQL proxies: which identity reaches the tokenizer -/

/-- **The read path takes the identity of the SESSION.** `TokenProcessor.OnColumn` builds exactly one
`TokenContext`; its `ClientID` element is `accessContext.GetClientID()`, `accessContext` being
`base.AccessContextFromContext(ctx)` and nothing else; that context is what it hands to `Detokenize`.
(A client id taken from the column setting – `columnSetting.ClientID()` – changes this table.) Regenerated. -/
theorem fact_token_read_uses_session_id :
    TokenColumn.readContextLiterals = 1 ∧
    TokenColumn.readContextClientID = [("init", "accessContext.GetClientID()")] ∧
    TokenColumn.readLocals = [("accessContext", [("init", "base.AccessContextFromContext(ctx)")])] ∧
    TokenColumn.readContextVar = "tokenContext" ∧
    TokenColumn.readDetokenizeCall = ["p.tokenizer.Detokenize", "data", "tokenContext", "columnSetting"] ∧
    readSource = .session := by decide

/-- **The write path.** `TokenEncryptor.EncryptWithClientID` puts its own `clientID` parameter into the token
context it hands to `Tokenize`; every call of an `EncryptWithClientID` in the source tree either hands the
caller's own client-id parameter on, or passes "the column's `client_id` when the encryptor config names one,
otherwise the session's" – and the sites that choose are the five statement / parameter / search-literal
encryptors of the two proxies. Regenerated. -/
theorem fact_token_write_sites :
    TokenColumn.encryptorParams.head? = some "clientID" ∧
    TokenColumn.encryptorContextClientID = [("param", "clientID")] ∧
    TokenColumn.encryptorTokenizeCall = ["e.tokenizer.Tokenize", "data", "tokenContext", "setting"] ∧
    encryptorSource = .param ∧
    (∀ r ∈ TokenColumn.writeCallSites, idSourceOf r.2.2 = .param ∨ idSourceOf r.2.2 = .columnOrSession) ∧
    choosingWriteSites.map (·.1) = [
      "decryptor/mysql/prepared_statement_sql_observer.go:PreparedStatementsQuery.handleColumnFromSetArg",
      myWriteSite, pgWriteSite,
      "pseudonymization/mysql_tokenize_query.go:MySQLTokenizeQuery.getTokenizerDataWithSetting",
      "pseudonymization/postgresql_tokenize_query.go:PostgreSQLTokenizeQuery.getTokenizerDataWithSetting"] ∧
    writeSourceOf pgWriteSite = .columnOrSession ∧ writeSourceOf myWriteSite = .columnOrSession := by decide

/-- **`proxy_token_read_is_session`.** For EVERY column setting – with or without an explicit `client_id` – and
every session identity `b`, the read path of a tokenized column de-tokenizes under `b`: the identity used is
the session's, never the column's. -/
theorem proxy_token_read_is_session (c : CryptoOps) (st : TokStore) (b : Bytes) (col : ColSetting) (data : Bytes) :
    onColumnToken c st b (some col) data = (if col.tokenized then detokenize c st b data col.ty else .ok data) := by
  unfold onColumnToken onColumnTokenWith
  rw [fact_token_read_uses_session_id.2.2.2.2.2]
  rfl

/-- … and every write site of the proxies tokenizes under `ownerOf session column`: the client the column is
configured for, else the client of the writing session – for both statement encryptors. -/
theorem proxy_token_write_is_owner (c : CryptoOps) (st : TokStore) (session : Bytes) (col : ColSetting) (v : Bytes) (cands : List Bytes) :
    ∀ site ∈ [pgWriteSite, myWriteSite],
      proxyWrite c (writeSourceOf site) st session col v cands =
        (if col.tokenized then
          (if col.consistent then tokenize c st (ownerOf session col) v col.ty cands else anonymize c st (ownerOf session col) v col.ty cands)
         else .ok (st, v)) := by
  intro site hs
  have hsrc : writeSourceOf site = .columnOrSession := by
    simp only [List.mem_cons, List.not_mem_nil, or_false] at hs
    rcases hs with h | h
    · rw [h]; exact fact_token_write_sites.2.2.2.2.2.2.1
    · rw [h]; exact fact_token_write_sites.2.2.2.2.2.2.2
  unfold proxyWrite tokenEncrypt
  rw [hsrc, fact_token_write_sites.2.2.2.1]
  rfl

/-- **`cross_client_column_detokenize`.** After ANY history of values written through the proxies (any
sessions, any column settings – with or without `client_id`, consistent or not, any token type –, any random
draws) starting from an empty token storage, a session of identity `b` that selects a tokenized column –
whatever that column's configured `client_id` is – and finds `tok` there receives either `tok` itself,
unchanged, or a value whose OWNER (`ownerOf`: the client the written column was configured for, else the writing
session's client) has the same context digest as `b`. -/
theorem cross_client_column_detokenize {c : CryptoOps} (ops : List ColOp) (b : Bytes) (col : ColSetting) (tok r : Bytes)
    (h : onColumnToken c (runCol c .columnOrSession [] ops) b (some col) tok = .ok r) :
    r = tok ∨ ∃ op, op ∈ ops ∧ op.col.tokenized = true ∧ aggCtx c (ownerOf op.session op.col) = aggCtx c b ∧ op.v = r := by
  rw [proxy_token_read_is_session] at h
  by_cases ht : col.tokenized = true
  · rw [if_pos ht] at h
    have hinv : OwnedCol c .columnOrSession (ops.reverse ++ []) (runCol c .columnOrSession [] ops) :=
      runCol_owned fact_token_write_sites.2.2.2.1 ops [] [] (by intro e he; cases he)
    rcases detokenize_owned hinv h with h1 | ⟨op, hop, h0, h1, h2⟩
    · exact Or.inl h1
    · exact Or.inr ⟨op, by simpa using hop, h0, h1, h2⟩
  · rw [if_neg ht] at h
    cases h
    exact Or.inl rfl

/-- … with a collision-free SHA-256 on the identities at hand: `b` gets the token back or a value that `b` owns. -/
theorem cross_client_column_detokenize_own {c : CryptoOps} (ops : List ColOp) (b : Bytes) (col : ColSetting) (tok r : Bytes)
    (hnc : ∀ op, op ∈ ops → aggCtx c (ownerOf op.session op.col) = aggCtx c b → ownerOf op.session op.col = b)
    (h : onColumnToken c (runCol c .columnOrSession [] ops) b (some col) tok = .ok r) :
    r = tok ∨ ∃ op, op ∈ ops ∧ ownerOf op.session op.col = b ∧ op.v = r := by
  rcases cross_client_column_detokenize ops b col tok r h with h | ⟨op, hop, _, hc, hv⟩
  · exact Or.inl h
  · exact Or.inr ⟨op, hop, hnc op hop hc, hv⟩

/-- **The case of the property.** No value of the history is owned by an identity whose context digest equals
`b`'s (they were written into columns configured with another client's id – by whatever session, `b`'s included –
or into columns without `client_id` by other clients' sessions). Then a session of `b` reading ANY tokenized
column – in particular one configured with `client_id: a` – gets what is stored back unchanged: never a plaintext. -/
theorem cross_client_column_token_back {c : CryptoOps} (ops : List ColOp) (b : Bytes) (col : ColSetting) (tok r : Bytes)
    (hnc : ∀ op, op ∈ ops → op.col.tokenized = true → aggCtx c (ownerOf op.session op.col) ≠ aggCtx c b)
    (h : onColumnToken c (runCol c .columnOrSession [] ops) b (some col) tok = .ok r) : r = tok := by
  rcases cross_client_column_detokenize ops b col tok r h with h | ⟨op, hop, ht, hc, _⟩
  · exact h
  · exact absurd hc (hnc op hop ht)

/-- … under idealised collision freedom of SHA-256 (`HashInj`) "owned by someone else" is enough: for every
owner `a ≠ b` of every value, the session of `b` gets the stored token back. -/
theorem cross_client_column_token_back_inj {c : CryptoOps} (hi : HashInj c) (ops : List ColOp) (b : Bytes) (col : ColSetting) (tok r : Bytes)
    (hother : ∀ op, op ∈ ops → op.col.tokenized = true → ownerOf op.session op.col ≠ b)
    (h : onColumnToken c (runCol c .columnOrSession [] ops) b (some col) tok = .ok r) : r = tok := by
  apply cross_client_column_token_back ops b col tok r _ h
  intro op hop ht heq
  exact hother op hop ht (List.append_cancel_left (hi.sha_inj _ _ heq))

/-! ## stored keys are bound to their owner -/

/-- **`stored_key_bound_v1`.** A per-client secret key of the v1 store written for `(p, a)` and then copied
(or renamed) to the file name of ANY purpose `p'` of a different client `b` does not load as `b`'s key:
the load fails. (The purpose is not part of the context – see `stored_key_v1_purpose_not_bound`.) -/
theorem stored_key_bound_v1 {c : CryptoOps} (hl : SealLaws c) (hc : SealCommit c) (master : Bytes) (fs fs' : Files)
    (p p' : V1Purpose) (a b key nonce : Bytes) (hab : a ≠ b)
    (hsave : v1Save c master fs p a key nonce = some fs') :
    v1Load c master (fs'.copy (v1FileName p a) (v1FileName p' b)) p' b = none := by
  unfold v1Save at hsave
  cases he : keyEncrypt c master (v1Context p a) key nonce with
  | none => simp [he] at hsave
  | some blob =>
    simp only [he, Option.map_some, Option.some.injEq] at hsave
    subst hsave
    unfold v1Load
    rw [Files.get_copy_dst _ _ _ blob (Files.get_put_same _ _ _)]
    exact keyDecrypt_other hl hc he (by simpa [v1Context, newClientIDKeyContext, keyContextBytes] using hab)

/-- v1 binds the owner but not the purpose: the context bytes of two purposes of one client coincide.
(Documented limitation, not a cross-client issue.) -/
theorem stored_key_v1_purpose_not_bound (p p' : V1Purpose) (a : Bytes) :
    keyContextBytes (v1Context p a) = keyContextBytes (v1Context p' a) := rfl

/-- v1 file names of per-client secret keys are injective in (purpose, client id): no two clients share a
key file, and no file of one purpose is the file of another purpose of some other client. -/
theorem v1_filenames_injective (p p' : V1Purpose) (a b : Bytes) (h : v1FileName p a = v1FileName p' b) :
    p = p' ∧ a = b := by
  have hrev := congrArg List.reverse h
  cases p <;> cases p' <;>
    simp only [v1FileName, bytesOfNats, IdentityCtx.v1StorageSuffix, IdentityCtx.v1SymSuffix, IdentityCtx.v1HmacSuffix,
      List.map_cons, List.map_nil, List.reverse_append, List.reverse_cons, List.reverse_nil, List.nil_append,
      List.cons_append, List.append_assoc, List.cons.injEq, List.reverse_inj] at hrev <;>
    first
      | exact ⟨rfl, hrev⟩
      | exact ⟨rfl, by simpa using hrev⟩
      | (exfalso; revert hrev; decide)
      | (exfalso; exact absurd hrev.1 (by decide))

/-- the context of a v2 key determines ring path, key kind and sequence number (paths without `:`,
which holds for every ring path of a client id without `:`) -/
theorem v2_context_injective (path path' : Bytes) (k k' : V2Kind) (n n' : Nat)
    (hp : (58 : UInt8) ∉ path) (hp' : (58 : UInt8) ∉ path')
    (h : keyContextBytes (v2KeyContext path k n) = keyContextBytes (v2KeyContext path' k' n')) :
    path = path' ∧ k = k' ∧ n = n' := by
  simp only [v2KeyContext, newEmptyKeyContext, keyContextBytes, v2KeyStoreContext, v2KeyRingContext,
    List.append_assoc, List.append_cancel_left_eq] at h
  have hlit : bytesOfNats IdentityCtx.v2KeyRingContextLit1 = [58, 32] := by decide
  rw [hlit] at h
  simp only [List.cons_append, List.nil_append] at h
  obtain ⟨hpath, hrest⟩ := split_at_colon _ _ _ _ hp hp' h
  simp only [List.cons.injEq, true_and] at hrest
  refine ⟨hpath, ?_⟩
  cases k <;> cases k'
  · simp only [v2KindContext, List.append_cancel_left_eq] at hrest
    exact ⟨rfl, decimal_inj hrest⟩
  · exfalso
    have := congrArg List.head? hrest
    simp [v2KindContext, bytesOfNats, IdentityCtx.v2PrivateKeyFormat, IdentityCtx.v2SymmetricKeyFormat] at this
  · exfalso
    have := congrArg List.head? hrest
    simp [v2KindContext, bytesOfNats, IdentityCtx.v2PrivateKeyFormat, IdentityCtx.v2SymmetricKeyFormat] at this
  · simp only [v2KindContext, List.append_cancel_left_eq] at hrest
    exact ⟨rfl, decimal_inj hrest⟩

/-- **`stored_key_bound_v2`.** A key sealed into the ring `path` as (kind, seqnum) does not unseal under
any other (ring path, kind, seqnum) – e.g. after the key, or the whole ring, has been moved to another
client's ring. -/
theorem stored_key_bound_v2 {c : CryptoOps} (hl : SealLaws c) (hc : SealCommit c) (master path path' : Bytes)
    (k k' : V2Kind) (n n' : Nat) (key nonce blob : Bytes)
    (hp : (58 : UInt8) ∉ path) (hp' : (58 : UInt8) ∉ path')
    (hne : ¬ (path = path' ∧ k = k' ∧ n = n'))
    (hsave : v2KeyEncrypt c master path k n key nonce = some blob) :
    v2KeyDecrypt c master path' k' n' blob = none :=
  keyDecrypt_other hl hc hsave (fun h => hne (v2_context_injective path path' k k' n n' hp hp' h))

/-- ring paths of different clients differ (ids without `/`), for any two ring kinds -/
theorem v2_ring_paths_injective (r r' : V2Ring) (a b : Bytes) (ha : slash ∉ a) (hb : slash ∉ b)
    (h : v2RingPath r a = v2RingPath r' b) : a = b := by
  simp only [v2RingPath, List.append_assoc, List.append_cancel_left_eq, List.cons_append, List.nil_append,
    List.cons.injEq, true_and] at h
  -- a ++ '/' :: suffix = b ++ '/' :: suffix'
  have key : ∀ (p p' s s' : Bytes), slash ∉ p → slash ∉ p' → p ++ slash :: s = p' ++ slash :: s' → p = p' := by
    intro p
    induction p with
    | nil =>
      intro p' s s' _ h2 h
      cases p' with
      | nil => rfl
      | cons y ys =>
        simp only [List.nil_append, List.cons_append, List.cons.injEq] at h
        exact absurd (h.1 ▸ List.mem_cons_self) h2
    | cons x xs ih =>
      intro p' s s' h1 h2 h
      cases p' with
      | nil =>
        simp only [List.nil_append, List.cons_append, List.cons.injEq] at h
        exact absurd (h.1 ▸ List.mem_cons_self) h1
      | cons y ys =>
        simp only [List.cons_append, List.cons.injEq] at h
        rw [h.1, ih ys s s' (fun hm => h1 (List.mem_cons_of_mem _ hm)) (fun hm => h2 (List.mem_cons_of_mem _ hm)) h.2]
  exact key a b _ _ ha hb h

/-- the signature of a key ring file is bound to its path: under collision-free HMAC a ring copied to
another path does not verify there -/
theorem ring_signature_bound {c : CryptoOps} (hi : HashInj c) (sigKey path path' payload : Bytes) (hne : path ≠ path') :
    v2Sign c sigKey path' payload ≠ v2Sign c sigKey path payload := by
  intro h
  have := (hi.hmac_inj _ _ _ _ h).2
  simp only [v2SignatureContext, v2KeyStoreContext, List.append_assoc, List.append_cancel_left_eq] at this
  have hsep : bytesOfNats IdentityCtx.v2SignatureSeparator = [58, 32] := by decide
  rw [hsep] at this
  -- path' ++ ": " ++ payload = path ++ ": " ++ payload  ⇒ equal lengths ⇒ equal paths
  have hl := congrArg List.length this
  simp only [List.length_append, List.length_cons, List.length_nil] at hl
  have hlen : path'.length = path.length := by omega
  exact hne (List.append_inj_left this hlen).symm

/-! ## different clients, different keys -/

/-- **Different clients always get different keys**, for arbitrary histories of key generation and
rotation, as long as the random generator does not repeat itself. -/
theorem distinct_clients_distinct_keys {h : History} (hf : Fresh h) {a b : Bytes} (hab : a ≠ b) :
    ∀ k, k ∈ keysOf h a → k ∈ keysOf h b → False :=
  keysOf_disjoint hf hab

/-! ## identity from the TLS connection -/

/-- **`tls_request_id_ignored`.** For every row of the regenerated table the result of the wrapper method
does not depend on the client id named in the request. -/
theorem tls_request_id_ignored {R : Type} : ∀ row ∈ rpcTable, ∀ (svc : Request → R) (e : R) (conn : ConnId) (p x y : Bytes),
    wrapperMethod row svc e conn ⟨x, p⟩ = wrapperMethod row svc e conn ⟨y, p⟩ := by
  intro row hrow svc e conn p x y
  exact wrapperMethod_overriding row (fact_tls_overrides_all row hrow) svc e conn p x y

/-- the id the wrapped service sees is the id of the connection -/
theorem tls_forwarded_id_is_connection : ∀ row ∈ rpcTable, ∀ (conn : ConnId) (req : Request) (id : Bytes),
    forwardedId row conn req = some id → conn = some id := by
  intro row hrow conn req id h
  have hov := tls_overrides_all row hrow
  unfold forwardedId wrapperMethod at h
  cases hd : row.defined <;> simp only [hd, hov, Bool.not_false, Bool.not_true, if_true, if_false] at h
  · cases h
  · cases conn with
    | none => cases h
    | some i => simpa using h

/-- **A forged client id does not help.** A decrypt request that reaches the translator through any
wrapper method over a connection authenticated as `b`, naming ANY client id (e.g. `a`'s), is an error for
every stored value that `a` can decrypt. -/
theorem tls_cross_client {c : CryptoOps} (hl : SealLaws c) (hc : SealCommit c) (hm : MsgCommit c)
    {pairs syms : History} (hp : Fresh pairs) (hs : Fresh syms) {a b : Bytes} (hab : a ≠ b) {k : Kind} {v m : Bytes}
    (hown : decryptAs c (storeOf c pairs syms) a k v = .ok m) :
    ∀ row ∈ rpcTable, ∀ forged : Bytes,
      wrapperMethod row (fun r => decryptAs c (storeOf c pairs syms) r.clientId k r.payload) .err (some b) ⟨forged, v⟩ = .err := by
  intro row hrow forged
  have hov := tls_overrides_all row hrow
  unfold wrapperMethod
  cases hd : row.defined <;> simp only [hd, hov, Bool.not_false, Bool.not_true, if_true, if_false]
  exact cross_client_decrypt hl hc hm hp hs hab hown

/-! ## which identity a TLS connection gets (`network/tls_authentication.go`) -/

/-- The two identifier extractors that `--tls_identifier_extractor_type` selects, what they read of the
certificate (`Subject.String()` / `SerialNumber.Bytes()` and nothing else), the errors they return, and that
they are field-less value types (nothing to remember). Regenerated from the source. -/
theorem fact_identifier_extractors :
    TlsIdentity.extractorByType = [("distinguished_name", "DistinguishedNameExtractor"), ("serial_number", "SerialNumberExtractor")] ∧
    TlsIdentity.defaultExtractorType = "distinguished_name" ∧
    TlsIdentity.identifierReads = [("DistinguishedNameExtractor", ["certificate.Subject.String"]),
      ("SerialNumberExtractor", ["certificate.SerialNumber", "certificate.SerialNumber.Bytes"])] ∧
    TlsIdentity.identifierValue = [("DistinguishedNameExtractor", ["certificate.Subject.String()"]),
      ("SerialNumberExtractor", ["certificate.SerialNumber.Bytes()"])] ∧
    TlsIdentity.identifierErrors = [("DistinguishedNameExtractor", ["ErrNoPeerCertificate", "ErrEmptyIdentifier"]),
      ("SerialNumberExtractor", ["ErrNoPeerCertificate", "ErrEmptyIdentifier"])] ∧
    TlsIdentity.identifierExtractorShape = [("DistinguishedNameExtractor", "fields=0 pointer-receiver=false calls=certificate.Subject.String"),
      ("SerialNumberExtractor", "fields=0 pointer-receiver=false calls=certificate.SerialNumber.Bytes")] := by decide

/-- `HexIdentifierConverter`: its only field is the hash constructor (`sha512.New` by default, 64-byte digests),
`Convert` has a value receiver and is `hex.Encode(out, newHash().Write(identifier).Sum(nil))`. -/
theorem fact_converter_is_hex_of_hash :
    TlsIdentity.converterFields = [("newHash", "func() hash.Hash")] ∧ TlsIdentity.converterDefaultHash = "sha512.New" ∧
    TlsIdentity.sha512Size = 64 ∧ TlsIdentity.convertPointerReceiver = false ∧ TlsIdentity.convertReceiverUses = ["c.newHash"] ∧
    TlsIdentity.convertCalls = ["hex.EncodedLen", "c.newHash", "h.Write", "h.Sum", "hex.Encode"] ∧
    TlsIdentity.convertDataFlow = ["h.Write(identifier)", "h.Sum(nil)", "hex.Encode(out,identifier)"] := by decide

/-- **The extractor object has no memory.** `tlsClientIDExtractor` consists of its two components;
`ExtractClientID` calls `idExtractor.GetCertificateIdentifier(certificate)` and `idConverter.Convert(identifier)`
and nothing else (logging aside), touches no other part of the receiver, reads no certificate field itself,
returns the converter's result, and the file has no package-level variable a cache could live in. A memo
table (a new field, a `Load`/`Store` call, a read of `certificate.Subject.CommonName`) changes these tables. -/
theorem fact_extractor_has_no_state :
    TlsIdentity.extractorFields = [("idExtractor", "CertificateIdentifierExtractor"), ("idConverter", "IdentifierConverter")] ∧
    TlsIdentity.extractCalls = ["extractor.idExtractor.GetCertificateIdentifier", "extractor.idConverter.Convert"] ∧
    TlsIdentity.extractReceiverUses = ["extractor.idConverter.Convert", "extractor.idExtractor.GetCertificateIdentifier"] ∧
    TlsIdentity.extractCertificateReads = [] ∧
    TlsIdentity.extractDataFlow = ["identifier, err := extractor.idExtractor.GetCertificateIdentifier(certificate)", "return nil, err",
      "clientID, err := extractor.idConverter.Convert(identifier)", "return nil, err", "return clientID, nil"] ∧
    TlsIdentity.packageVars = ["IdentifierExtractorTypesList"] ∧
    TlsIdentity.extractorConstructors = [("NewTLSClientIDExtractor", ["idExtractor=idExtractor", "idConverter=idConverter"]),
      ("NewDefaultTLSClientIDExtractor", ["idExtractor=idExtractor", "idConverter=idConverter"])] := by decide

/-- `pkix.Name.String()` of the Go toolchain in use: the nine standard attributes in print order, the two
single-valued ones only when non-empty, the escaped characters and the separators the model uses. -/
theorem fact_pkix_name_string :
    TlsIdentity.rdnPrinted.map (·.1) = ["SerialNumber", "CommonName", "OrganizationalUnit", "Organization", "PostalCode",
      "StreetAddress", "Locality", "Province", "Country"] ∧
    TlsIdentity.rdnSingleNonEmpty = ["CommonName", "SerialNumber"] ∧
    TlsIdentity.appendRDNsSkip = "len(values) == 0 || oidInAttributeTypeAndValue(oid, n.ExtraNames)" ∧
    TlsIdentity.rdnEscapeCases = ["44,43,34,92,60,62,59 => true", "32 => k == 0 || k == len(valueString)-1", "35 => k == 0"] ∧
    TlsIdentity.rdnStringLits = ["", ",", "+", "=#", "="] := by decide

/-- **`extract_stateless`.** The extractor is a function of the certificate. Whatever certificates one
long-lived extractor has seen before (`pre`) and sees afterwards (`post`), the connection presenting `c`
gets `extractClientID c` – the same certificate always gets the same id, the id of one certificate does not
depend on the others – and the extractor object is unchanged by a call. -/
theorem extract_stateless (e : Extractor) (pre post : List (Option Cert)) (c : Option Cert) :
    (e.run (pre ++ c :: post))[pre.length]? = some (extractClientID e.hash e.mode c) ∧ (e.extract c).1 = e := by
  refine ⟨?_, rfl⟩
  rw [Extractor.run_eq_map]
  simp

/-- … in particular the results of a run are those of any reordering of it, certificate by certificate -/
theorem extract_order_irrelevant (e : Extractor) (cs cs' : List (Option Cert)) (c : Option Cert) (i j : Nat)
    (hi : cs[i]? = some c) (hj : cs'[j]? = some c) : (e.run cs)[i]? = (e.run cs')[j]? := by
  rw [Extractor.run_eq_map, Extractor.run_eq_map]
  simp [hi, hj]

/-- **`tls_identity_injective_partial`.** Two certificates whose identifiers differ – the RFC 2253 form of
the subject in `distinguished_name` mode, the serial number bytes in `serial_number` mode – never get the
same client id, provided the hash does not collide on the identifiers at hand (`ids`, an explicit finite
list). Partial: collision freedom of SHA-512 is a hypothesis, and "different DN" is taken at the level of
`Subject.String()` (the standard library's formatter; two subjects with the same string form are one
identity for Acra by construction). -/
theorem tls_identity_injective_partial (h : Bytes → Bytes) (m : IdMode) (ids : List Bytes) (hnc : NoColl h ids)
    {c1 c2 : Option Cert} {i1 i2 id1 id2 : Bytes}
    (h1 : certIdentifier m c1 = .ok i1) (h2 : certIdentifier m c2 = .ok i2) (m1 : i1 ∈ ids) (m2 : i2 ∈ ids) (hne : i1 ≠ i2)
    (e1 : extractClientID h m c1 = .ok id1) (e2 : extractClientID h m c2 = .ok id2) : id1 ≠ id2 := by
  obtain ⟨j1, hj1, rfl⟩ := extractClientID_ok e1
  obtain ⟨j2, hj2, rfl⟩ := extractClientID_ok e2
  rw [h1] at hj1; rw [h2] at hj2
  cases hj1; cases hj2
  intro heq
  exact hne (hnc _ m1 _ m2 (hexLower_injective heq))

/-- `serial_number` mode, at full strength on the certificate side: different serial numbers, different ids
(the big-endian bytes of a number determine it). -/
theorem tls_identity_injective_serial (h : Bytes → Bytes) {c1 c2 : Cert} (hne : c1.serial ≠ c2.serial)
    (hnc : NoColl h [natBE c1.serial, natBE c2.serial]) {id1 id2 : Bytes}
    (e1 : extractClientID h .serialNumber (some c1) = .ok id1) (e2 : extractClientID h .serialNumber (some c2) = .ok id2) : id1 ≠ id2 :=
  tls_identity_injective_partial h .serialNumber _ hnc (i1 := natBE c1.serial) (i2 := natBE c2.serial) rfl rfl
    (by simp) (by simp) (fun he => hne (natBE_injective he)) e1 e2

/-- `distinguished_name` mode: different string forms of the subject, different ids. -/
theorem tls_identity_injective_dn (h : Bytes → Bytes) {c1 c2 : Cert} (hne : dnString c1.subject ≠ dnString c2.subject)
    (hnc : NoColl h [dnString c1.subject, dnString c2.subject]) {id1 id2 : Bytes}
    (e1 : extractClientID h .distinguishedName (some c1) = .ok id1) (e2 : extractClientID h .distinguishedName (some c2) = .ok id2) : id1 ≠ id2 := by
  have k : ∀ (c : Cert) (id : Bytes), extractClientID h .distinguishedName (some c) = .ok id →
      certIdentifier .distinguishedName (some c) = .ok (dnString c.subject) := by
    intro c id hx
    obtain ⟨j, hj, _⟩ := extractClientID_ok hx
    unfold certIdentifier at hj ⊢
    simp only [] at hj ⊢
    split at hj
    · cases hj
    · rename_i hemp; rw [if_neg hemp]
  exact tls_identity_injective_partial h .distinguishedName _ hnc (k c1 id1 e1) (k c2 id2 e2) (by simp) (by simp) hne e1 e2

/-- **The string form of a subject determines the subject** (`pkix.Name.String()` on the standard
attributes is injective: separators and backslashes inside values are escaped, the short names are distinct
and end in their only `=`). So "different distinguished name" may be read on the parsed certificate. -/
theorem dn_string_injective {n1 n2 : Name} (h : dnString n1 = dnString n2) : n1 = n2 := dnString_injective h

/-- `distinguished_name` mode on the certificate side at full strength: two certificates whose subjects differ
in any standard attribute (another OU, another O, another CN, …) get different client ids. -/
theorem tls_identity_injective_subject (h : Bytes → Bytes) {c1 c2 : Cert} (hne : c1.subject ≠ c2.subject)
    (hnc : NoColl h [dnString c1.subject, dnString c2.subject]) {id1 id2 : Bytes}
    (e1 : extractClientID h .distinguishedName (some c1) = .ok id1) (e2 : extractClientID h .distinguishedName (some c2) = .ok id2) : id1 ≠ id2 :=
  tls_identity_injective_dn h (fun he => hne (dnString_injective he)) hnc e1 e2

/-- the same certificate – indeed any two certificates with the same identifier – gets the same id -/
theorem tls_identity_deterministic (h : Bytes → Bytes) (m : IdMode) {c1 c2 : Option Cert}
    (hs : certIdentifier m c1 = certIdentifier m c2) : extractClientID h m c1 = extractClientID h m c2 := by
  unfold extractClientID; rw [hs]

/-- deriving an identity never panics, and a derived id is the hex text of one digest -/
theorem tls_identity_total (h : Bytes → Bytes) (m : IdMode) (c : Option Cert) :
    extractClientID h m c ≠ .panic ∧ ∀ id, extractClientID h m c = .ok id → ∃ ident, id.length = 2 * (h ident).length := by
  refine ⟨extractClientID_never_panics h m c, ?_⟩
  intro id hx
  obtain ⟨j, _, rfl⟩ := extractClientID_ok hx
  exact ⟨j, convert_length h j⟩

/-! ## what the gRPC server registers (`cmd/acra-translator/grpc_api/factory.go`) -/

/-- **Every registration gets the TLS wrapper.** Each `Register<Service>Server` call of `NewServer` passes a
variable that, at that point, holds `NewTLSDecryptServiceWrapper(plain service, data.TLSClientIDExtractor)`
whenever `data.UseConnectionClientID` is set. Regenerated from the source. -/
theorem fact_every_registration_wrapped : ∀ r ∈ registrations, r.holds = "tls" := by decide

/-- the service handed to `OngRPCServerInit` subscribers (which may register further gRPC services around it)
is the wrapped one as well -/
theorem fact_server_init_hook_wrapped : TlsIdentity.serverInitHook = [("OngRPCServerInit", "newService", "tls")] := by decide

/-- every RPC of the wrapper table belongs to a registered service, and every service of the API is registered -/
theorem fact_every_rpc_registered :
    (∀ row ∈ rpcTable, (regOf row.name).isSome = true) ∧
    (∀ s ∈ TlsIdentity.serviceRpcs, registrations.any (fun r => r.service == s.1) = true) ∧
    (∀ s ∈ TlsIdentity.serviceRpcs, ∀ rpc ∈ s.2, (rpcTable.find? (·.name == rpc)).isSome = true) := by decide

/-- **`server_request_id_ignored`.** On the server that `NewServer` builds with `UseConnectionClientID`, the
result of every RPC is independent of the client id named in the request. -/
theorem server_request_id_ignored {R : Type} (rpc : String) (svc : Request → R) (e : R) (conn : ConnId) (p x y : Bytes) :
    serverCall true rpc svc e conn ⟨x, p⟩ = serverCall true rpc svc e conn ⟨y, p⟩ :=
  serverCall_overriding fact_every_registration_wrapped fact_tls_overrides_all rpc svc e conn p x y

/-- **End to end.** Two TLS clients whose certificates have different identifiers connect to the server built
by `NewServer` (`UseConnectionClientID`), their connections being identified by ONE extractor in any order.
A decrypt request over B's connection naming ANY client id is an error for every stored value A can decrypt. -/
theorem tls_server_cross_client {c : CryptoOps} (hl : SealLaws c) (hc : SealCommit c) (hm : MsgCommit c)
    {pairs syms : History} (hp : Fresh pairs) (hs : Fresh syms)
    (e : Extractor) {certA certB : Option Cert} {ia ib a b : Bytes}
    (hia : certIdentifier e.mode certA = .ok ia) (hib : certIdentifier e.mode certB = .ok ib) (hne : ia ≠ ib)
    (hnc : NoColl e.hash [ia, ib])
    (seen : List (Option Cert)) (i j : Nat) (hi : seen[i]? = some certA) (hj : seen[j]? = some certB)
    (ha : (e.run seen)[i]? = some (.ok a)) (hb : (e.run seen)[j]? = some (.ok b))
    {k : Kind} {v m : Bytes} (hown : decryptAs c (storeOf c pairs syms) a k v = .ok m) :
    ∀ (rpc : String) (forged : Bytes),
      serverCall true rpc (fun r => decryptAs c (storeOf c pairs syms) r.clientId k r.payload) .err (some b) ⟨forged, v⟩ = .err := by
  intro rpc forged
  rw [Extractor.run_eq_map] at ha hb
  simp only [List.getElem?_map, hi, hj, Option.map_some, Option.some.injEq] at ha hb
  have hab : a ≠ b := tls_identity_injective_partial e.hash e.mode _ hnc hia hib (by simp) (by simp) hne ha hb
  unfold serverCall
  cases hr : regOf rpc with
  | none => rfl
  | some reg =>
    cases hw : rpcTable.find? (·.name == rpc) with
    | none => rfl
    | some row =>
      simp only []
      unfold serverMethod
      rw [if_pos ⟨fact_every_registration_wrapped reg (regOf_mem hr), rfl⟩]
      exact tls_cross_client hl hc hm hp hs hab hown row (List.mem_of_find?_eq_some hw) forged

/-! ## which certificate of a handshake is the identity of the connection (`network/tls_wrapper.go`) -/

/-- **Every site that turns a `tls.ConnectionState` into the certificate of the connection's identity takes the
leaf of the first VERIFIED chain.** In the whole source tree the two certificate lists of a connection state are
read by two functions only – `TLSConnectionWrapper.ServerHandshake` (gRPC transport credentials) and
`GetClientIDFromTLSConn` (WrapServer, i.e. AcraServer and the HTTP API, and `GetClientIDFromConnection` on a bare
`*tls.Conn`) –, both read `VerifiedChains` only (never `PeerCertificates`, the list the peer controls), both
take element `[0][0]` behind the guards `len(VerifiedChains) == 0 || len(VerifiedChains[0]) == 0`; the only other
call of an identity sink hands the certificate parameter of `getClientIDFromCertificate` on, after validating it.
Regenerated from the source on every run. -/
theorem fact_identity_certificate_is_verified_leaf :
    TlsConnState.connStateReads =
      [(grpcSiteName, "len(VerifiedChains)"), (grpcSiteName, "len(VerifiedChains[0])"), (grpcSiteName, "VerifiedChains[0][0]"),
       (connSiteName, "len(VerifiedChains)"), (connSiteName, "len(VerifiedChains[0])"), (connSiteName, "VerifiedChains[0][0]")] ∧
    TlsConnState.identitySinks = ["ExtractClientID", "getClientIDFromCertificate"] ∧
    (∀ st ∈ certSites,
      (certChoiceOf st.origin = .verified 0 0 ∧ st.guards = [["len(VerifiedChains)==0", "len(VerifiedChains[0])==0"]]) ∨
      (certChoiceOf st.origin = .param ∧ st.fn = "network/tls_wrapper.go:getClientIDFromCertificate")) ∧
    stateSites.map (·.fn) = [grpcSiteName, connSiteName] ∧
    grpcSite.callee = "wrapper.clientIDExtractor.ExtractClientID" ∧ connSite.callee = "getClientIDFromCertificate" ∧
    helperValidates = true := by decide

/-- **`connection_identity_is_leaf`.** After a handshake (`Handshaken`: the contract of crypto/tls) in which the
client's own certificate – the first one it sent – is `l`, every site that derives the identity of the connection
from the connection state runs its sink on `l`: whatever ELSE the peer appended to its certificate list
(intermediates, a CA, another client's certificate) and whatever the rest of the verified chains looks like. -/
theorem connection_identity_is_leaf (e : Extractor) {s : TlsState} (h : Handshaken s) {l : ConnCert} (hl : leafOf s = some l) :
    ∀ st ∈ stateSites, siteIdentity st e s = sinkRun st.callee e l := by
  intro st hst
  have hmem : st ∈ certSites := (List.mem_filter.mp hst).1
  have hnp : certChoiceOf st.origin ≠ .param := by
    have := (List.mem_filter.mp hst).2
    simpa using this
  rcases fact_identity_certificate_is_verified_leaf.2.2.1 st hmem with ⟨ho, hg⟩ | ⟨hp, _⟩
  · unfold siteIdentity
    rw [siteCert_verified_leaf ho hg h hl]
  · exact absurd hp hnp

/-- the gRPC transport credentials: the id is the extractor's id of the client's own certificate -/
theorem grpc_connection_identity (e : Extractor) {s : TlsState} (h : Handshaken s) {l : ConnCert} (hl : leafOf s = some l) :
    siteIdentity grpcSite e s = extractClientID e.hash e.mode (some l.cert) := by
  rw [connection_identity_is_leaf e h hl grpcSite (by decide)]
  unfold sinkRun
  rw [fact_identity_certificate_is_verified_leaf.2.2.2.2.1]
  rfl

/-- WrapServer / `GetClientIDFromTLSConn` (AcraServer, HTTP API): the same, after
`ValidateClientsAuthenticationCertificate` (no CA certificate, an authentication key usage) -/
theorem conn_connection_identity (e : Extractor) {s : TlsState} (h : Handshaken s) {l : ConnCert} (hl : leafOf s = some l) :
    siteIdentity connSite e s = (if validateCert l then extractClientID e.hash e.mode (some l.cert) else .err) := by
  rw [connection_identity_is_leaf e h hl connSite (by decide)]
  unfold sinkRun
  rw [fact_identity_certificate_is_verified_leaf.2.2.2.2.2.1, fact_identity_certificate_is_verified_leaf.2.2.2.2.2.2]
  cases validateCert l <;> rfl

/-- **Two clients behind the same intermediate CA get different ids.** Two handshakes whose clients' own
certificates have different identifiers (distinguished name / serial number), whatever both appended – e.g. the
SAME intermediate certificate –, through any two entry points: the client ids differ (unless SHA-512 collides on
the two identifiers). -/
theorem tls_chain_leaves_distinct_ids (e : Extractor) {s1 s2 : TlsState} (h1 : Handshaken s1) (h2 : Handshaken s2)
    {l1 l2 : ConnCert} (hl1 : leafOf s1 = some l1) (hl2 : leafOf s2 = some l2) {i1 i2 : Bytes}
    (hi1 : certIdentifier e.mode (some l1.cert) = .ok i1) (hi2 : certIdentifier e.mode (some l2.cert) = .ok i2) (hne : i1 ≠ i2)
    (hnc : NoColl e.hash [i1, i2]) {a b : Bytes} :
    ∀ st1 ∈ stateSites, ∀ st2 ∈ stateSites, siteIdentity st1 e s1 = .ok a → siteIdentity st2 e s2 = .ok b → a ≠ b := by
  intro st1 hs1 st2 hs2 ha hb
  rw [connection_identity_is_leaf e h1 hl1 st1 hs1] at ha
  rw [connection_identity_is_leaf e h2 hl2 st2 hs2] at hb
  exact tls_identity_injective_partial e.hash e.mode _ hnc hi1 hi2 (by simp) (by simp) hne (sinkRun_ok ha) (sinkRun_ok hb)

/-- the identity of a connection does not depend on anything but the client's own certificate: two handshakes with
the same first certificate get the same result at every site, whatever else was sent or verified -/
theorem connection_identity_ignores_appended (e : Extractor) {s s' : TlsState} (h : Handshaken s) (h' : Handshaken s')
    {l : ConnCert} (hl : leafOf s = some l) (hl' : leafOf s' = some l) :
    ∀ st ∈ stateSites, siteIdentity st e s = siteIdentity st e s' := by
  intro st hst
  rw [connection_identity_is_leaf e h hl st hst, connection_identity_is_leaf e h' hl' st hst]

/-- deriving the identity of a connection never panics, for ANY connection state (the guards in front of the
indexing are the ones the indexing needs) -/
theorem connection_identity_never_panics (e : Extractor) (s : TlsState) : ∀ st ∈ stateSites, siteIdentity st e s ≠ .panic := by
  intro st hst
  have hmem : st ∈ certSites := (List.mem_filter.mp hst).1
  have hnp : certChoiceOf st.origin ≠ .param := by
    have := (List.mem_filter.mp hst).2
    simpa using this
  rcases fact_identity_certificate_is_verified_leaf.2.2.1 st hmem with ⟨ho, hg⟩ | ⟨hp, _⟩
  · have hsc : siteCert st s ≠ .panic := by
      unfold siteCert
      rw [hg, ho]
      have := verified_guarded_never_panics s st.callee
      unfold siteCert at this
      simpa [certChoiceOf] using this
    unfold siteIdentity
    cases hc : siteCert st s with
    | ok c =>
      simp only []
      unfold sinkRun
      split
      · split
        · simp
        · exact extractClientID_never_panics _ _ _
      · exact extractClientID_never_panics _ _ _
    | err => simp
    | panic => exact absurd hc hsc
  · exact absurd hp hnp

/-- **End to end with certificate chains.** Two TLS clients whose own certificates have different identifiers
connect to the gRPC server that `NewServer` builds (`UseConnectionClientID`); each sends its certificate followed
by anything it likes (the same intermediate CA, the OTHER client's certificate, …). The connections get the ids
`a` and `b` from the transport credentials. A decrypt request over B's connection naming ANY client id is an
error for every stored value A can decrypt. -/
theorem tls_server_cross_client_chain {c : CryptoOps} (hl : SealLaws c) (hc : SealCommit c) (hm : MsgCommit c)
    {pairs syms : History} (hp : Fresh pairs) (hs : Fresh syms) (e : Extractor)
    {sA sB : TlsState} (hA : Handshaken sA) (hB : Handshaken sB) {lA lB : ConnCert} (hlA : leafOf sA = some lA) (hlB : leafOf sB = some lB)
    {ia ib a b : Bytes} (hia : certIdentifier e.mode (some lA.cert) = .ok ia) (hib : certIdentifier e.mode (some lB.cert) = .ok ib)
    (hne : ia ≠ ib) (hnc : NoColl e.hash [ia, ib])
    (ha : siteIdentity grpcSite e sA = .ok a) (hb : siteIdentity grpcSite e sB = .ok b)
    {k : Kind} {v m : Bytes} (hown : decryptAs c (storeOf c pairs syms) a k v = .ok m) :
    ∀ (rpc : String) (forged : Bytes),
      serverCall true rpc (fun r => decryptAs c (storeOf c pairs syms) r.clientId k r.payload) .err (some b) ⟨forged, v⟩ = .err := by
  rw [grpc_connection_identity e hA hlA] at ha
  rw [grpc_connection_identity e hB hlB] at hb
  exact tls_server_cross_client hl hc hm hp hs e hia hib hne hnc [some lA.cert, some lB.cert] 0 1 rfl rfl
    (by rw [Extractor.run_eq_map]; simp [ha]) (by rw [Extractor.run_eq_map]; simp [hb]) hown

/-! ## the other RPCs of the gRPC server and the HTTP API run under the identity of the connection -/

/-- the wrapper declares a method for every RPC of the table (none is left to the embedded `Unimplemented…Server`),
and every RPC of the API – decrypt-type or not – is served by a registration. Regenerated. -/
theorem fact_all_rpcs_declared_and_served :
    (∀ r ∈ rpcTable, r.defined = true) ∧
    (∀ rpc ∈ ["Decrypt", "DecryptSym", "DecryptSearchable", "DecryptSymSearchable", "Encrypt", "EncryptSym", "EncryptSearchable",
      "EncryptSymSearchable", "GenerateQueryHash", "Tokenize", "Detokenize"], Served rpc) ∧
    rpcTable.map (·.name) = ["Decrypt", "DecryptSearchable", "DecryptSym", "DecryptSymSearchable", "Detokenize", "Encrypt",
      "EncryptSearchable", "EncryptSym", "EncryptSymSearchable", "GenerateQueryHash", "Tokenize"] := by decide

/-- **`server_rpc_runs_as_connection`.** On the server `NewServer` builds with `UseConnectionClientID`, EVERY served
RPC – Tokenize, Detokenize, the Encrypt family and GenerateQueryHash as much as the decrypt family – hands the
service a request whose client id is the id of the connection, whatever the request named; without a connection
identity the service is not reached at all. -/
theorem server_rpc_runs_as_connection {R : Type} {rpc : String} (hs : Served rpc) (svc : Request → R) (e : R) (id x p : Bytes) :
    serverCall true rpc svc e (some id) ⟨x, p⟩ = svc ⟨id, p⟩ ∧ serverCall true rpc svc e none ⟨x, p⟩ = e :=
  ⟨serverCall_conn fact_every_registration_wrapped fact_all_rpcs_declared_and_served.1 tls_overrides_all hs svc e id x p,
   serverCall_noconn fact_every_registration_wrapped fact_all_rpcs_declared_and_served.1 tls_overrides_all rpc svc e ⟨x, p⟩⟩

/-- **Tokens through the server.** After ANY history of Tokenize requests (any connections, naming any client
ids, any values, any random draws), a Detokenize request over the connection of `b` – naming ANY client id – for
any token yields the token itself, unchanged, or a value that was tokenized over a CONNECTION whose identity has
the context digest of `b`. The ids named in the requests play no role. -/
theorem tls_server_detokenize_cross_client {c : CryptoOps} (ops : List SrvTokOp) (b forged tok r : Bytes) (ty : Nat)
    (h : serverCall true "Detokenize" (svcDetokenize c (runSrvTok c "Tokenize" [] ops) ty) .err (some b) ⟨forged, tok⟩ = .ok r) :
    r = tok ∨ ∃ op, op ∈ ops ∧ aggCtx c op.conn = aggCtx c b ∧ op.v = r := by
  have hT : Served "Tokenize" := fact_all_rpcs_declared_and_served.2.1 _ (by decide)
  have hD : Served "Detokenize" := fact_all_rpcs_declared_and_served.2.1 _ (by decide)
  rw [(server_rpc_runs_as_connection hD _ _ b forged tok).1,
    runSrvTok_eq fact_every_registration_wrapped fact_all_rpcs_declared_and_served.1 tls_overrides_all hT] at h
  rcases cross_client_detokenize (asTokOps ops) b tok r ty h with h1 | ⟨op, hop, hc, hv⟩
  · exact Or.inl h1
  · simp only [asTokOps, List.mem_map] at hop
    obtain ⟨o, ho, rfl⟩ := hop
    exact Or.inr ⟨o, ho, hc, hv⟩

/-- **Encrypt-type RPCs.** What an Encrypt / EncryptSym request over the connection of `b` produces – naming ANY
client id, e.g. `a`'s – is `protect` under `b`'s keys; so whenever `b` can read it back, `a ≠ b` cannot (arbitrary
fresh key histories): a forged id neither lets `b` write data that looks like `a`'s nor read `a`'s. -/
theorem tls_server_encrypt_belongs_to_connection {c : CryptoOps} (hl : SealLaws c) (hc : SealCommit c) (hm : MsgCommit c)
    {pairs syms : History} (hp : Fresh pairs) (hs : Fresh syms) {a b : Bytes} (hab : a ≠ b)
    (rpc : String) (hrpc : rpc ∈ ["Encrypt", "EncryptSym", "EncryptSearchable", "EncryptSymSearchable"]) (k : Kind) (forged m rnd : Bytes) :
    serverCall true rpc (svcEncrypt c (storeOf c pairs syms) k rnd) .err (some b) ⟨forged, m⟩ = protect c (storeOf c pairs syms b) k m rnd ∧
    ∀ p m', serverCall true rpc (svcEncrypt c (storeOf c pairs syms) k rnd) .err (some b) ⟨forged, m⟩ = .ok p →
      revealAs c (storeOf c pairs syms) b p = .ok m' → revealAs c (storeOf c pairs syms) a p = .err := by
  have hS : Served rpc := fact_all_rpcs_declared_and_served.2.1 rpc (by
    simp only [List.mem_cons, List.not_mem_nil, or_false] at hrpc ⊢
    rcases hrpc with h | h | h | h <;> simp [h])
  refine ⟨(server_rpc_runs_as_connection hS _ _ b forged m).1, ?_⟩
  intro p m' _ hb
  exact cross_client_reveal hl hc hm hp hs (Ne.symm hab) hb

/-- **GenerateQueryHash** over the connection of `b`, naming any client id, is the blind index under `b`'s HMAC
key – which does not verify under another identity's key unless the HMACs collide (`cross_client_hash`). -/
theorem tls_server_query_hash_is_connections {c : CryptoOps} (hs : HmacStore) (b forged kb data : Bytes) (hb : hs b = some kb) :
    serverCall true "GenerateQueryHash" (svcQueryHash c hs) .err (some b) ⟨forged, data⟩ = .ok (generateHash c kb data) := by
  have hS : Served "GenerateQueryHash" := fact_all_rpcs_declared_and_served.2.1 _ (by decide)
  rw [(server_rpc_runs_as_connection hS _ _ b forged data).1]
  simp [svcQueryHash, hb]

/-- **HTTP API: a request cannot name an identity.** For every call of the translator service by an HTTP handler
the result does not depend on any client id carried in the request: the id is the connection's (or none). -/
theorem http_request_cannot_name_identity {R : Type} : ∀ row ∈ httpTable, ∀ (svc : Request → R) (conn : ConnId) (x y body : Bytes),
    httpHandler row svc conn x body = httpHandler row svc conn y body := by
  intro row hrow svc conn x y body
  have hf : row.fromConn = true := by
    simp only [httpTable, List.mem_map] at hrow
    obtain ⟨t, ht, rfl⟩ := hrow
    exact fact_http_identity_from_connection t ht
  exact httpHandler_fromConn row hf svc conn x y body

/-- **HTTP decrypt under another identity.** A decrypt operation of the HTTP API over a TLS connection
authenticated as `b`, with any client id smuggled into the request, is an error for every stored value `a ≠ b`
can decrypt. -/
theorem http_cross_client {c : CryptoOps} (hl : SealLaws c) (hc : SealCommit c) (hm : MsgCommit c)
    {pairs syms : History} (hp : Fresh pairs) (hs : Fresh syms) {a b : Bytes} (hab : a ≠ b) {k : Kind} {v m : Bytes}
    (hown : decryptAs c (storeOf c pairs syms) a k v = .ok m) :
    ∀ row ∈ httpTable, ∀ smuggled : Bytes,
      httpHandler row (fun r => decryptAs c (storeOf c pairs syms) r.clientId k r.payload) (some b) smuggled v = .err := by
  intro row hrow smuggled
  have hf : row.fromConn = true := by
    simp only [httpTable, List.mem_map] at hrow
    obtain ⟨t, ht, rfl⟩ := hrow
    exact fact_http_identity_from_connection t ht
  unfold httpHandler
  rw [if_pos hf]
  exact cross_client_decrypt hl hc hm hp hs hab hown

/-! ## non-vacuity

The hypotheses of the theorems above are jointly satisfiable by concrete, non-trivial instances:
`box45` (transparent box with 45-byte key containers and 84-byte wrapped keys) satisfies `SealLaws`,
`SealCommit`, `MsgCommit`; the histories below contain a rotation on each side; the values are real
`protect` outputs of both envelope kinds which the owner reveals and the other identity does not. -/
section NonVacuity

def exRnd (n : Nat) : Bytes := (List.range n).map (fun i => UInt8.ofNat (i + 1))
def exA : Bytes := [97, 108, 105, 99, 101]        -- "alice"
def exB : Bytes := [98, 111, 98, 98, 121]         -- "bobby"
def exPrivA : Bytes := 0 :: List.replicate 44 7
def exPrivA' : Bytes := 0 :: List.replicate 44 5
def exPrivB : Bytes := 0 :: List.replicate 44 8
def exPairs : History := [⟨exA, exPrivA⟩, ⟨exB, exPrivB⟩, ⟨exA, exPrivA'⟩]
def exSyms : History := [⟨exB, [9, 9]⟩, ⟨exA, [1, 2, 3]⟩, ⟨exB, [4, 5, 6]⟩, ⟨exA, [3, 2, 1]⟩]
def exStore : Store := storeOf box45 exPairs exSyms
def exMsg : Bytes := [104, 105]
def exOf (o : Out Bytes) : Bytes := match o with | .ok v => v | _ => []
def exBlock : Bytes := exOf (protect box45 (exStore exA) .block exMsg (exRnd 56))
def exStruct : Bytes := exOf (protect box45 (exStore exA) .struct exMsg (exRnd 96))
/-- a value written under A's previous symmetric key (before the rotation) -/
def exOldBlock : Bytes := exOf (do let b ← createBlock box45 [3, 2, 1] [] exMsg (exRnd 56); serialize b idBlock)

example : SealLaws box45 ∧ SealCommit box45 ∧ MsgCommit box45 ∧ Fresh exPairs ∧ Fresh exSyms ∧ exA ≠ exB :=
  ⟨box45_sealLaws, box45_sealCommit, box45_msgCommit, by unfold Fresh; decide, by unfold Fresh; decide, by decide⟩

set_option maxRecDepth 100000 in
/-- AcraBlock: the owner reveals, the other identity gets an error (as `cross_client_reveal` says) -/
example : exBlock.length > 100 ∧ revealAs box45 exStore exA exBlock = .ok exMsg ∧ revealAs box45 exStore exB exBlock = .err := by decide

set_option maxRecDepth 100000 in
/-- AcraStruct -/
example : exStruct.length > 200 ∧ revealAs box45 exStore exA exStruct = .ok exMsg ∧ revealAs box45 exStore exB exStruct = .err := by decide

set_option maxRecDepth 100000 in
/-- a value from before a rotation, translator entry point -/
example : decryptAs box45 exStore exA .block exOldBlock = .ok exMsg ∧ decryptAs box45 exStore exB .block exOldBlock = .err := by decide

set_option maxRecDepth 100000 in
/-- the hypotheses of `cross_client_reveal_protect_block` hold for the value written under A's PREVIOUS key -/
example : (keyId box45 [3, 2, 1] []).length = 2 ∧ [3, 2, 1] ∈ keysOf exSyms exA ∧
    (∀ encKey, box45.enc [3, 2, 1] [] ((exRnd 56).take 32) (((exRnd 56).drop 44).take 12) = some encKey → encKey.length < 65536) ∧
    matchKind .block exMsg = false ∧ registryMatch exMsg = false ∧
    protect box45 { pub := none, privs := none, sym := some [3, 2, 1], syms := none } .block exMsg (exRnd 56) = .ok exOldBlock :=
  ⟨by decide, by decide, by intro e h; cases h; decide, by decide, by decide, by decide⟩

/-- the position hypothesis of `cross_client_column`, as a decidable check -/
def exPosOk (kvA kvB : KeyView) (buf : Bytes) (i : Nat) : Bool :=
  match extractContainer (buf.drop i) with
  | .ok (_, cont) => (process box45 kvA cont).isOk || !(process box45 kvB cont).isOk
  | _ => true

theorem exPos_sound (kvA kvB : KeyView) (buf : Bytes)
    (h : (List.range (buf.length + 1)).all (exPosOk kvA kvB buf) = true) :
    ∀ i, i ≤ buf.length → ∀ cont adv, extractContainer (buf.drop i) = .ok (adv, cont) →
      (∃ m, process box45 kvA cont = .ok m) ∨ (∀ m, process box45 kvB cont ≠ .ok m) := by
  intro i hi cont adv he
  have := List.all_eq_true.mp h i (List.mem_range.mpr (by omega))
  simp only [exPosOk, he, Bool.or_eq_true, Bool.not_eq_true'] at this
  rcases this with h1 | h2
  · left
    cases hp : process box45 kvA cont with
    | ok m => exact ⟨m, rfl⟩
    | err => simp [hp, Out.isOk] at h1
    | panic => simp [hp, Out.isOk] at h1
  · right
    intro m hm
    simp [hm, Out.isOk] at h2

def exColumn : Bytes := [37, 37] ++ exBlock ++ [34, 34, 34, 34, 0]

set_option maxRecDepth 100000 in
/-- the position hypothesis of `cross_client_column` holds for a column with A's container between
a `%%` prefix and a suffix that starts like an AcraBlock (the scan itself is a well-founded recursion the
kernel does not unfold by `decide`; its results on such columns are compared with the real code by the
correspondence ops `col` / `colcompat`) -/
example :
    ∀ i, i ≤ exColumn.length → ∀ cont adv, extractContainer (exColumn.drop i) = .ok (adv, cont) →
      (∃ m, process box45 (exStore exA) cont = .ok m) ∨ (∀ m, process box45 (exStore exB) cont ≠ .ok m) :=
  exPos_sound _ _ _ (by decide)

/-- blind index: an instance with 32-byte HMACs in which the stated inequality holds -/
def exHashOps : CryptoOps := { boxOps with hmac := fun k m => Shim.fixLen 32 (k ++ m), sha256 := fun m => Shim.fixLen 32 m }

example : HashLen exHashOps ∧ exHashOps.hmac [4, 5, 6] exMsg ≠ exHashOps.hmac [1, 2, 3] exMsg ∧
    hashVerifyAs exHashOps (fun id => if id = exB then some [4, 5, 6] else none) exB (generateHash exHashOps [1, 2, 3] exMsg) exMsg = false ∧
    hashVerifyAs exHashOps (fun id => if id = exA then some [1, 2, 3] else none) exA (generateHash exHashOps [1, 2, 3] exMsg) exMsg = true :=
  ⟨⟨fun _ _ => Shim.fixLen_length _ _, fun _ => Shim.fixLen_length _ _⟩, by decide, by decide, by decide⟩

example : HashInj boxOps := Box.hashInj

/-- tokens: A tokenizes a value, B tokenizes another one and draws the very same token; each gets its own
value back and never the other's; a token nobody of that identity owns comes back unchanged -/
def exTokOps : List TokOp := [⟨exA, [1, 1, 1], 4, [[7, 7, 7]]⟩, ⟨exB, [2, 2, 2], 4, [[7, 7, 7]]⟩, ⟨exA, [3, 3, 3], 4, [[7, 7, 7], [8, 8, 8]]⟩]

example : detokenize boxOps (runTok boxOps [] exTokOps) exA [7, 7, 7] 4 = .ok [1, 1, 1] ∧
    detokenize boxOps (runTok boxOps [] exTokOps) exB [7, 7, 7] 4 = .ok [2, 2, 2] ∧
    detokenize boxOps (runTok boxOps [] exTokOps) exB [8, 8, 8] 4 = .ok [8, 8, 8] ∧
    detokenize boxOps (runTok boxOps [] exTokOps) exA [8, 8, 8] 4 = .ok [3, 3, 3] := by decide

/-- tokenized columns behind the proxies: a session of B writes into a column configured with `client_id: A`
(the value is A's) and into a column without `client_id` (the value is B's); both draw the same token bytes.
A reads its value; a third session C gets the token back unchanged from either column; B – who owns a record
under the very same token bytes – gets its OWN value, from either column, never A's; the hypothesis of
`cross_client_column_token_back_inj` holds for C. -/
def exColA : ColSetting := ⟨exA, true, true, 4⟩
def exColNone : ColSetting := ⟨[], true, false, 4⟩
def exColPlain : ColSetting := ⟨exA, false, false, 0⟩
def exC : Bytes := [99, 97, 114, 111, 108]        -- "carol"
def exColOps : List ColOp := [⟨exB, exColA, [1, 1, 1], [[7, 7, 7]]⟩, ⟨exB, exColNone, [2, 2, 2], [[7, 7, 7]]⟩, ⟨exC, exColPlain, [3, 3, 3], []⟩]
def exColStore : TokStore := runCol boxOps .columnOrSession [] exColOps

example : ownerOf exB exColA = exA ∧ ownerOf exB exColNone = exB ∧
    onColumnToken boxOps exColStore exA (some exColA) [7, 7, 7] = .ok [1, 1, 1] ∧
    onColumnToken boxOps exColStore exB (some exColA) [7, 7, 7] = .ok [2, 2, 2] ∧
    onColumnToken boxOps exColStore exC (some exColA) [7, 7, 7] = .ok [7, 7, 7] ∧
    onColumnToken boxOps exColStore exC (some exColNone) [7, 7, 7] = .ok [7, 7, 7] ∧
    onColumnToken boxOps exColStore exB (some exColNone) [7, 7, 7] = .ok [2, 2, 2] ∧
    onColumnToken boxOps exColStore exA (some exColPlain) [7, 7, 7] = .ok [7, 7, 7] ∧
    onColumnToken boxOps exColStore exA none [7, 7, 7] = .ok [7, 7, 7] ∧
    (∀ op, op ∈ exColOps → op.col.tokenized = true → ownerOf op.session op.col ≠ exC) := by decide

/-- the regenerated fact is load-bearing: a read path that took the column's `client_id` when there is one
(the choice of the WRITE side) would hand A's value to a session of C -/
example : onColumnTokenWith boxOps .columnOrSession exColStore exC (some exColA) [7, 7, 7] = .ok [1, 1, 1] := by decide

/-- stored keys: a key can be saved for A (the premise of `stored_key_bound_v1/2` is satisfiable) and
loads for A -/
example : ∃ fs, v1Save boxOps [42] [] .storageSym exA [1, 2, 3] (exRnd 12) = some fs ∧
    v1Load boxOps [42] fs .storageSym exA = some [1, 2, 3] ∧
    v1Load boxOps [42] (fs.copy (v1FileName .storageSym exA) (v1FileName .searchHmac exB)) .searchHmac exB = none :=
  ⟨_, rfl, by decide, by decide⟩

example : ∃ blob, v2KeyEncrypt boxOps [42] (v2RingPath .storageSym exA) .symmetricKey 1 [1, 2, 3] (exRnd 12) = some blob ∧
    v2KeyDecrypt boxOps [42] (v2RingPath .storageSym exA) .symmetricKey 1 blob = some [1, 2, 3] ∧
    v2KeyDecrypt boxOps [42] (v2RingPath .storageSym exB) .symmetricKey 1 blob = none ∧
    v2KeyDecrypt boxOps [42] (v2RingPath .storageSym exA) .symmetricKey 2 blob = none ∧
    v2KeyDecrypt boxOps [42] (v2RingPath .storageSym exA) .privateKey 1 blob = none ∧
    (58 : UInt8) ∉ v2RingPath .storageSym exA ∧ (58 : UInt8) ∉ v2RingPath .storageSym exB ∧
    v2RingPath .storageSym exA ≠ v2RingPath .storageSym exB :=
  ⟨_, rfl, by decide, by decide, by decide, by decide, by decide, by decide, by decide⟩

/-- the TLS table is inhabited and a forged id is ignored on a concrete row -/
example : rpcTable.length = 11 ∧
    (rpcTable.map fun row => forwardedId row (some exB) ⟨exA, []⟩) = List.replicate 11 (some exB) := by decide

/-- TLS identities: two certificates that share the common name and differ in the organisational unit, a
third with the same subject as the first under another serial number. Identifiers and ids are as the theorems
say, in either order on one extractor (SHA-512 replaced by the identity function to keep the terms small) -/
def exNameA : Name := ⟨[], [], [], [], [], [[69, 120]], [[112, 97, 121]], [98, 105, 108, 108], []⟩   -- O=Ex, OU=pay, CN=bill
def exNameB : Name := { exNameA with orgUnit := [[109, 107, 116]] }                                      -- OU=mkt
def exCertA : Cert := ⟨exNameA, 1001⟩
def exCertB : Cert := ⟨exNameB, 2002⟩
def exCertA' : Cert := ⟨exNameA, 2002⟩
def exExtractor (m : IdMode) : Extractor := ⟨m, id⟩

example : dnString exNameA = [67, 78, 61, 98, 105, 108, 108, 44, 79, 85, 61, 112, 97, 121, 44, 79, 61, 69, 120] ∧  -- "CN=bill,OU=pay,O=Ex"
    dnString exNameA ≠ dnString exNameB ∧ NoColl (exExtractor .distinguishedName).hash [dnString exNameA, dnString exNameB] ∧
    natBE 1001 = [3, 233] ∧ natBE 0 = [] ∧
    escapeValue [32, 97, 44, 35, 32] = [92, 32, 97, 92, 44, 35, 92, 32] ∧ escapeValue [35, 43] = [92, 35, 92, 43] ∧
    (∃ a b, (exExtractor .distinguishedName).run [some exCertA, some exCertB, some exCertA', none] = [.ok a, .ok b, .ok a, .err] ∧ a ≠ b) ∧
    (∃ a b, (exExtractor .distinguishedName).run [some exCertB, some exCertA] = [.ok b, .ok a] ∧ a ≠ b) ∧
    (∃ a b, (exExtractor .serialNumber).run [some exCertA, some exCertB, some exCertA'] = [.ok a, .ok b, .ok b] ∧ a ≠ b) ∧
    certIdentifier .distinguishedName (some ⟨⟨[], [], [], [], [], [], [], [], []⟩, 5⟩) = .err :=
  ⟨by decide, by decide, by intro x hx y hy h; exact h, by decide, by decide, by decide, by decide,
   ⟨_, _, rfl, by decide⟩, ⟨_, _, rfl, by decide⟩, ⟨_, _, rfl, by decide⟩, by decide⟩

/-- certificate chains: two clients behind ONE intermediate CA (the server trusts the root only). A sends
`leaf, intermediate`; B sends `leaf, intermediate` and appends A's certificate. Both states satisfy the crypto/tls
contract; through both entry points A and B get different ids, B's id does not depend on what it appended; a
connection whose own certificate is a CA certificate is refused where `getClientIDFromCertificate` validates. -/
def exInterName : Name := ⟨[], [], [], [], [], [[69, 120]], [], [105, 110, 116], []⟩      -- O=Ex, CN=int
def exInter : ConnCert := ⟨⟨exInterName, 7⟩, true, true⟩
def exRootCert : ConnCert := ⟨⟨{ exInterName with commonName := [114] }, 1⟩, true, true⟩
def exLeafA : ConnCert := ⟨exCertA, false, true⟩
def exLeafB : ConnCert := ⟨exCertB, false, true⟩
def exStateA : TlsState := ⟨[exLeafA, exInter], [[exLeafA, exInter, exRootCert]]⟩
def exStateB : TlsState := ⟨[exLeafB, exInter, exLeafA], [[exLeafB, exInter, exRootCert]]⟩
def exStateB' : TlsState := ⟨[exLeafB, exInter], [[exLeafB, exInter, exRootCert]]⟩
def exStateCA : TlsState := ⟨[exInter], [[exInter, exRootCert]]⟩

example : Handshaken exStateA ∧ Handshaken exStateB ∧ Handshaken exStateB' ∧ leafOf exStateA = some exLeafA ∧ leafOf exStateB = some exLeafB :=
  ⟨⟨by decide, by intro ch h; simp only [exStateA, List.mem_singleton] at h; subst h; exact ⟨rfl, by decide⟩⟩,
   ⟨by decide, by intro ch h; simp only [exStateB, List.mem_singleton] at h; subst h; exact ⟨rfl, by decide⟩⟩,
   ⟨by decide, by intro ch h; simp only [exStateB', List.mem_singleton] at h; subst h; exact ⟨rfl, by decide⟩⟩, rfl, rfl⟩

example :
    (∃ a b, siteIdentity grpcSite (exExtractor .distinguishedName) exStateA = .ok a ∧
      siteIdentity grpcSite (exExtractor .distinguishedName) exStateB = .ok b ∧
      siteIdentity connSite (exExtractor .distinguishedName) exStateB = .ok b ∧
      siteIdentity connSite (exExtractor .distinguishedName) exStateB' = .ok b ∧ a ≠ b) ∧
    siteIdentity connSite (exExtractor .distinguishedName) exStateCA = .err ∧
    siteIdentity grpcSite (exExtractor .serialNumber) ⟨[], []⟩ = .err ∧
    siteIdentity connSite (exExtractor .serialNumber) ⟨[exLeafA], [[]]⟩ = .err :=
  ⟨⟨_, _, rfl, rfl, rfl, rfl, by decide⟩, by decide, by decide, by decide⟩

/-- the regenerated fact is load-bearing: a site that took the LAST certificate the peer sent would give A and B –
two clients behind the same intermediate – the intermediate's id, and would serve B under A's id as soon as B
appends A's (public) certificate to what it sends -/
def exBadSite : CertSite := ⟨"", "wrapper.clientIDExtractor.ExtractClientID", ["PeerCertificates[len(PeerCertificates)-1]"],
  [["len(VerifiedChains)==0", "len(PeerCertificates)==0"]]⟩

example : siteIdentity exBadSite (exExtractor .distinguishedName) exStateA = siteIdentity exBadSite (exExtractor .distinguishedName) exStateB' ∧
    siteIdentity exBadSite (exExtractor .distinguishedName) exStateB = siteIdentity grpcSite (exExtractor .distinguishedName) exStateA ∧
    (siteIdentity exBadSite (exExtractor .distinguishedName) exStateA).isOk = true := by decide

/-- the other RPCs and the HTTP API: the tables are inhabited; a value tokenized over A's connection in a request
NAMING B comes back to A's connection (naming B again) and stays a token for B's connection naming A; the query
hash over B's connection naming A is B's; an HTTP handler ignores a smuggled id -/
def exSrvOps : List SrvTokOp := [⟨exA, exB, [1, 1, 1], 4, [[7, 7, 7]]⟩]

example : httpTable.length = 13 ∧ Served "Tokenize" ∧ ¬ Served "NoSuchRpc" ∧
    serverCall true "Detokenize" (svcDetokenize boxOps (runSrvTok boxOps "Tokenize" [] exSrvOps) 4) .err (some exA) ⟨exB, [7, 7, 7]⟩ = .ok [1, 1, 1] ∧
    serverCall true "Detokenize" (svcDetokenize boxOps (runSrvTok boxOps "Tokenize" [] exSrvOps) 4) .err (some exB) ⟨exA, [7, 7, 7]⟩ = .ok [7, 7, 7] ∧
    serverCall true "Detokenize" (svcDetokenize boxOps (runSrvTok boxOps "Tokenize" [] exSrvOps) 4) .err none ⟨exA, [7, 7, 7]⟩ = .err ∧
    serverCall true "GenerateQueryHash" (svcQueryHash boxOps (fun id => if id = exB then some [4, 5, 6] else none)) .err (some exB) ⟨exA, exMsg⟩
      = .ok (generateHash boxOps [4, 5, 6] exMsg) ∧
    (httpTable.map fun row => httpHandler row (fun r => r.clientId) (some exB) exA []) = List.replicate 13 exB := by decide

/-- the registration table is inhabited; the server ignores a forged id on a concrete RPC of every service -/
example : registrations.length = 6 ∧
    (["Decrypt", "DecryptSym", "Tokenize", "Detokenize", "Encrypt", "EncryptSym", "GenerateQueryHash"].map fun rpc =>
      serverCall true rpc (fun r => some r.clientId) none (some exB) ⟨exA, []⟩) = List.replicate 7 (some exB) ∧
    serverCall true "NoSuchRpc" (fun r => some r.clientId) none (some exB) ⟨exA, []⟩ = none := by decide

end NonVacuity

end AcraModel.Props.C02
