import AcraModel.KeystoreSec.PathLemmas
import AcraModel.Generated.KeystoreSec
/-!
# C07 — keys at rest are encrypted, bound to their owner, tamper-evident and confined

Property theorems only. Part 1 (this section): confinement of the v2 directory back end
(`DirectoryBackend.osPath`, used by every `Get/Put/Rename/RenameNX`).
-/
namespace AcraModel.Props.C07
open AcraModel AcraModel.KeystoreSec AcraModel.KeystoreSec.Path

/-! ## facts the models need from the source (regenerated on every run) -/
open Generated.KeystoreSec in
/-- Every path-taking method of the directory back end maps its key path(s) through `osPath` before
touching the file system, and `osPath` judges the joined path by `filepath.Rel` to the root (the
repaired check the model `Path.osPath` follows). -/
theorem fact_backend_paths :
    osPathCalls = ["filepath.Join", "pathSeparators.Replace", "filepath.Rel", "strings.HasPrefix"] ∧
    backendGetCalls.head? = some "b.osPath" ∧ backendPutCalls.head? = some "b.osPath" ∧
    backendRenameCalls.take 2 = ["b.osPath", "b.osPath"] ∧ backendRenameNXCalls.take 2 = ["b.osPath", "b.osPath"] := by decide

open Generated.KeystoreSec in
/-- **Encrypt before write (v2).** In `addKeyData` the only value ever assigned to the stored
`PrivateKey` / `SymmetricKey` field is the result of `encryptPrivateKey` / `encryptSymmetricKey`
(the public key is stored as given), and those go through `KeyRing.encrypt` → `KeyStore.encrypt` →
`KeyEncryptor.Encrypt` with the context chain private/symmetric-key context → key-ring context →
key-store context. -/
theorem fact_v2_encrypt_before_write :
    addKeyDataAssigns = ["newData.PublicKey=data.PublicKey", "newData.PrivateKey=encryptedPrivateKey", "newData.SymmetricKey=encryptedSymmetricKey"] ∧
    addKeyDataEncrypted = ["encryptedPrivateKey=r.encryptPrivateKey()", "encryptedSymmetricKey=r.encryptSymmetricKey()"] ∧
    encryptPrivateKeyCalls = ["r.encrypt", "r.privateKeyContext"] ∧
    encryptSymmetricKeyCalls = ["r.encrypt", "r.symmetricKeyContext"] ∧
    ringEncryptCalls = ["r.store.encrypt", "r.keyRingContext"] ∧
    storeEncryptCalls = ["keystoreV1.NewEmptyKeyContext", "s.keyStoreContext", "s.encryptor.Encrypt"] := by decide

open Generated.KeystoreSec in
/-- **Encrypt before write (v1).** What `SaveKeyPairWithFilename` / `generateAndSaveSymmetricKey`
hand to `WritePrivateKey` is the output of `encryptor.Encrypt`; what reaches the cache is the output
of `cacheEncryptor.Encrypt` (or the public key). -/
theorem fact_v1_encrypt_before_write :
    v1SaveKeyPairPrivateArg = ["encryptedPrivate"] ∧
    v1SaveKeyPairAssigns = ["encryptedPrivate=store.encryptor.Encrypt()", "cacheEncryptedPrivate=store.cacheEncryptor.Encrypt()"] ∧
    v1SaveKeyPairCacheArgs = ["cacheEncryptedPrivate", "keypair.Public.Value"] ∧
    v1SaveSymmetricArg = ["encryptedSymKey"] ∧ v1SaveSymmetricAssigns = ["encryptedSymKey=store.encryptor.Encrypt()"] ∧
    v1LoadKeyAndCacheAddArg = ["cacheEncrypted"] ∧ v1LoadKeyAndCacheAssigns = ["cacheEncrypted=store.cacheEncryptor.Encrypt()"] := by decide

/-! ## confinement -/

/-- **Confinement.** For an absolute keystore root, whatever key path the directory back end is
given (any bytes: `..`, `/`, `\`, empty and dot components), `osPath` either rejects it or returns a
cleaned absolute OS path whose components are the root's components followed by ordinary components
only (no `..`, no `.`, no empty component, no separator inside) – lexically inside the root. -/
theorem osPath_contained (root p q : Bytes) (hroot : root.head? = some slash)
    (h : osPath root p = .ok q) :
    ∃ rest, q = render ⟨true, (cleanP root).comps ++ rest⟩ ∧ ∀ c ∈ rest, GoodComp c := by
  unfold osPath at h
  have hne : root ≠ [] := by intro e; simp [e] at hroot
  have hj : joinP root (replaceSeps p) = some (cleanP (root ++ slash :: replaceSeps p)) := by
    simp [joinP, hne]
  rw [hj] at h
  simp only at h
  -- the joined path is rooted, its stack extends the root's stack
  have hrooted : (root ++ slash :: replaceSeps p).head? = some slash := by
    cases root with
    | nil => exact absurd rfl hne
    | cons x r => simpa using hroot
  let S0 := cleanStack true [] (splitSlash root)
  let S1 := cleanStack true S0 (splitSlash (replaceSeps p))
  have hfull : cleanP (root ++ slash :: replaceSeps p) = ⟨true, S1.reverse⟩ := by
    simp only [cleanP, hrooted, splitSlash_append, cleanStack_append]
    simp [S1, S0]
  have hbase : cleanP root = ⟨true, S0.reverse⟩ := by
    simp [cleanP, hroot, S0]
  have hgood0 : ∀ x ∈ S0, GoodComp x :=
    cleanStack_good [] _ (by simp) (splitSlash_noslash root)
  have hgood1 : ∀ x ∈ S1, GoodComp x :=
    cleanStack_good S0 _ hgood0 (splitSlash_noslash _)
  rw [hfull, hbase] at h
  by_cases heq : (⟨true, S1.reverse⟩ : CPath) = ⟨true, S0.reverse⟩
  · -- the key path resolves to the root itself
    have hr : relP ⟨true, S0.reverse⟩ ⟨true, S1.reverse⟩ = some [[dot]] := by simp [relP, heq]
    rw [hr] at h
    have he : escapes (joinSlash [[dot]]) = false := by decide
    simp only [he] at h
    refine ⟨[], ?_, by simp⟩
    simp at h
    rw [← h, hbase, heq]
    simp
  · cases hsc : stripCommon S0.reverse S1.reverse with
    | mk b' t' =>
      have hr : relP ⟨true, S0.reverse⟩ ⟨true, S1.reverse⟩ =
          if b'.head? = some dd then none else some (b'.map (fun _ => dd) ++ t') := by
        simp [relP, heq, hsc]
      rw [hr] at h
      by_cases hdd : b'.head? = some dd
      · rw [if_pos hdd] at h; cases h
      · rw [if_neg hdd] at h
        simp only at h
        cases hb : b' with
        | cons x r =>
          rw [hb] at h
          simp only [List.map_cons, List.cons_append] at h
          rw [escapes_dd_cons] at h
          simp at h
        | nil =>
          rw [hb] at h
          simp only [List.map_nil, List.nil_append] at h
          by_cases hesc : escapes (joinSlash t') = true
          · rw [if_pos hesc] at h; cases h
          · rw [if_neg hesc] at h
            have hp := stripCommon_nil_prefix S0.reverse S1.reverse (by rw [hsc, hb])
            rw [hsc] at hp
            simp only at hp
            refine ⟨t', ?_, ?_⟩
            · cases h
              rw [hbase]
              simp only
              rw [← hp]
            · intro c hc
              have : c ∈ S1.reverse := by rw [hp]; simp [hc]
              exact hgood1 c (by simpa using this)

/-- **The pinned tree escapes** (DESIGN §8 #5): on the code as pinned, `osPath` accepts `../escaped`
and maps it to a sibling of the keystore root. Witness replayed against the real back end by the
regression corpus of the harness (`C07.put` with the pre-repair expectation). -/
theorem osPathPinned_counterexample :
    osPathPinned (ofStr "/tmp/ks/root") (ofStr "../escaped") = .ok (ofStr "/tmp/ks/escaped") := by
  decide

/-- the repaired function rejects the witness -/
theorem osPath_rejects_witness :
    osPath (ofStr "/tmp/ks/root") (ofStr "../escaped") = .err := by
  decide

/-- non-vacuity: an ordinary nested key path is accepted and lands below the root -/
example : osPath (ofStr "/tmp/ks/root") (ofStr "client/a\\b/../storage.keyring")
    = .ok (ofStr "/tmp/ks/root/client/a/storage.keyring") := by decide

end AcraModel.Props.C07
