import AcraModel.KeystoreSec.PathLemmas
import AcraModel.Generated.KeystoreSec
import AcraModel.KeystoreSec.WriteLog
import AcraModel.Crypto.Box
/-!
# C07 — keys at rest are encrypted, bound to their owner, tamper-evident and confined

Property theorems only. Part 1 (this section): confinement of the v2 directory back end
(`DirectoryBackend.osPath`, used by every `Get/Put/Rename/RenameNX`).
-/
namespace AcraModel.Props.C07
open AcraModel AcraModel.KeystoreSec AcraModel.KeystoreSec.Path AcraModel.KeystoreSec.Export AcraModel.KeystoreSec.WriteLog

/-! ## facts the models need from the source (regenerated on every run) -/
open Generated.KeystoreSec in
/-- Every path-taking method of the directory back end maps its key path(s) through `osPath` before
touching the file system, and `osPath` judges the joined path by `filepath.Rel` to the root (the
repaired check the model `Path.osPath` follows). -/
theorem fact_backend_paths :
    osPathCalls = ["filepath.Join", "pathSeparators.Replace", "filepath.Rel", "strings.HasPrefix"] ∧
    backendGetCalls.head? = some "b.osPath" ∧ backendPutCalls.head? = some "b.osPath" ∧
    backendRenameCalls.take 2 = ["b.osPath", "b.osPath"] ∧ backendRenameNXCalls.take 2 = ["b.osPath", "b.osPath"] := by decide

open Generated.KeystoreSec in
/-- **Encrypt before write (v2).** In `addKeyData` the only value ever assigned to the stored
`PrivateKey` / `SymmetricKey` field is the result of `encryptPrivateKey` / `encryptSymmetricKey`
(the public key is stored as given), and those go through `KeyRing.encrypt` → `KeyStore.encrypt` →
`KeyEncryptor.Encrypt` with the context chain private/symmetric-key context → key-ring context →
key-store context. -/
theorem fact_v2_encrypt_before_write :
    addKeyDataAssigns = ["newData.PublicKey=data.PublicKey", "newData.PrivateKey=encryptedPrivateKey", "newData.SymmetricKey=encryptedSymmetricKey"] ∧
    addKeyDataEncrypted = ["encryptedPrivateKey=r.encryptPrivateKey()", "encryptedSymmetricKey=r.encryptSymmetricKey()"] ∧
    encryptPrivateKeyCalls = ["r.encrypt", "r.privateKeyContext"] ∧
    encryptSymmetricKeyCalls = ["r.encrypt", "r.symmetricKeyContext"] ∧
    ringEncryptCalls = ["r.store.encrypt", "r.keyRingContext"] ∧
    storeEncryptCalls = ["keystoreV1.NewEmptyKeyContext", "s.keyStoreContext", "s.encryptor.Encrypt"] := by decide

open Generated.KeystoreSec in
/-- **Encrypt before write (v1).** What `SaveKeyPairWithFilename` / `generateAndSaveSymmetricKey`
hand to `WritePrivateKey` is the output of `encryptor.Encrypt`; what reaches the cache is the output
of `cacheEncryptor.Encrypt` (or the public key). -/
theorem fact_v1_encrypt_before_write :
    v1SaveKeyPairPrivateArg = ["encryptedPrivate"] ∧
    v1SaveKeyPairAssigns = ["encryptedPrivate=store.encryptor.Encrypt()", "cacheEncryptedPrivate=store.cacheEncryptor.Encrypt()"] ∧
    v1SaveKeyPairCacheArgs = ["cacheEncryptedPrivate", "keypair.Public.Value"] ∧
    v1SaveSymmetricArg = ["encryptedSymKey"] ∧ v1SaveSymmetricAssigns = ["encryptedSymKey=store.encryptor.Encrypt()"] ∧
    v1LoadKeyAndCacheAddArg = ["cacheEncrypted"] ∧ v1LoadKeyAndCacheAssigns = ["cacheEncrypted=store.cacheEncryptor.Encrypt()"] := by decide

/-! ## confinement -/

/-- **Confinement.** For an absolute keystore root, whatever key path the directory back end is
given (any bytes: `..`, `/`, `\`, empty and dot components), `osPath` either rejects it or returns a
cleaned absolute OS path whose components are the root's components followed by ordinary components
only (no `..`, no `.`, no empty component, no separator inside) – lexically inside the root. -/
theorem osPath_contained (root p q : Bytes) (hroot : root.head? = some slash)
    (h : osPath root p = .ok q) :
    ∃ rest, q = render ⟨true, (cleanP root).comps ++ rest⟩ ∧ ∀ c ∈ rest, GoodComp c := by
  unfold osPath at h
  have hne : root ≠ [] := by intro e; simp [e] at hroot
  have hj : joinP root (replaceSeps p) = some (cleanP (root ++ slash :: replaceSeps p)) := by
    simp [joinP, hne]
  rw [hj] at h
  simp only at h
  -- the joined path is rooted, its stack extends the root's stack
  have hrooted : (root ++ slash :: replaceSeps p).head? = some slash := by
    cases root with
    | nil => exact absurd rfl hne
    | cons x r => simpa using hroot
  let S0 := cleanStack true [] (splitSlash root)
  let S1 := cleanStack true S0 (splitSlash (replaceSeps p))
  have hfull : cleanP (root ++ slash :: replaceSeps p) = ⟨true, S1.reverse⟩ := by
    simp only [cleanP, hrooted, splitSlash_append, cleanStack_append]
    simp [S1, S0]
  have hbase : cleanP root = ⟨true, S0.reverse⟩ := by
    simp [cleanP, hroot, S0]
  have hgood0 : ∀ x ∈ S0, GoodComp x :=
    cleanStack_good [] _ (by simp) (splitSlash_noslash root)
  have hgood1 : ∀ x ∈ S1, GoodComp x :=
    cleanStack_good S0 _ hgood0 (splitSlash_noslash _)
  rw [hfull, hbase] at h
  by_cases heq : (⟨true, S1.reverse⟩ : CPath) = ⟨true, S0.reverse⟩
  · -- the key path resolves to the root itself
    have hr : relP ⟨true, S0.reverse⟩ ⟨true, S1.reverse⟩ = some [[dot]] := by simp [relP, heq]
    rw [hr] at h
    have he : escapes (joinSlash [[dot]]) = false := by decide
    simp only [he] at h
    refine ⟨[], ?_, by simp⟩
    simp at h
    rw [← h, hbase, heq]
    simp
  · cases hsc : stripCommon S0.reverse S1.reverse with
    | mk b' t' =>
      have hr : relP ⟨true, S0.reverse⟩ ⟨true, S1.reverse⟩ =
          if b'.head? = some dd then none else some (b'.map (fun _ => dd) ++ t') := by
        simp [relP, heq, hsc]
      rw [hr] at h
      by_cases hdd : b'.head? = some dd
      · rw [if_pos hdd] at h; cases h
      · rw [if_neg hdd] at h
        simp only at h
        cases hb : b' with
        | cons x r =>
          rw [hb] at h
          simp only [List.map_cons, List.cons_append] at h
          rw [escapes_dd_cons] at h
          simp at h
        | nil =>
          rw [hb] at h
          simp only [List.map_nil, List.nil_append] at h
          by_cases hesc : escapes (joinSlash t') = true
          · rw [if_pos hesc] at h; cases h
          · rw [if_neg hesc] at h
            have hp := stripCommon_nil_prefix S0.reverse S1.reverse (by rw [hsc, hb])
            rw [hsc] at hp
            simp only at hp
            refine ⟨t', ?_, ?_⟩
            · cases h
              rw [hbase]
              simp only
              rw [← hp]
            · intro c hc
              have : c ∈ S1.reverse := by rw [hp]; simp [hc]
              exact hgood1 c (by simpa using this)

/-- **The pinned tree escapes** (DESIGN §8 #5): on the code as pinned, `osPath` accepts `../escaped`
and maps it to a sibling of the keystore root. Witness replayed against the real back end by the
regression corpus of the harness (`C07.put` with the pre-repair expectation). -/
theorem osPathPinned_counterexample :
    osPathPinned (ofStr "/tmp/ks/root") (ofStr "../escaped") = .ok (ofStr "/tmp/ks/escaped") := by
  decide

/-- the repaired function rejects the witness -/
theorem osPath_rejects_witness :
    osPath (ofStr "/tmp/ks/root") (ofStr "../escaped") = .err := by
  decide

/-- non-vacuity: an ordinary nested key path is accepted and lands below the root -/
example : osPath (ofStr "/tmp/ks/root") (ofStr "client/a\\b/../storage.keyring")
    = .ok (ofStr "/tmp/ks/root/client/a/storage.keyring") := by decide

/-! ## keys at rest are encrypted -/

/-- **Every write is sealed (v2).** Whatever ring the key store writes (`ringFile`), each key-data
item inside the signed ring is sealed w.r.t. the plaintext it came from: the public key as given,
the private / symmetric part absent or `enc master (context of this ring, seqnum and purpose)
secret nonce` – the secret itself is never what is stored (structural "never in clear", DESIGN §4.3). -/
theorem writes_are_sealed (c : CryptoOps) (ν : Nonces) (master : Bytes) (x r : Ring)
    (h : storedRing c ν master x = some r) :
    r.purpose = x.purpose ∧ r.current = x.current ∧
    ∀ k' ∈ r.keys, ∃ k ∈ x.keys, k'.seq = k.seq ∧ k'.state = k.state ∧
      ∀ e ∈ k'.data, ∃ d ∈ k.data, SealedData c master x.purpose k.seq d e := by
  unfold storedRing at h
  cases hk : x.keys.mapM (fun (k : Key) => (k.data.mapM (addKeyData c ν master x.purpose k.seq)).map fun ds => { k with data := ds }) with
  | none => simp [hk] at h
  | some ks =>
    simp [hk] at h
    subst h
    refine ⟨rfl, rfl, ?_⟩
    intro k' hk'
    obtain ⟨k, hkm, hfk⟩ := mapM_mem _ _ _ hk k' hk'
    cases hd : k.data.mapM (addKeyData c ν master x.purpose k.seq) with
    | none => simp [hd] at hfk
    | some ds =>
      simp [hd] at hfk
      subst hfk
      refine ⟨k, hkm, rfl, rfl, ?_⟩
      intro e he
      obtain ⟨d, hdm, hfd⟩ := mapM_mem _ _ _ hd e he
      exact ⟨d, hdm, addKeyData_sealed c ν master x.purpose k.seq d e hfd⟩

/-- a sealed value is never the secret itself (length law of the AEAD) -/
theorem sealed_ne_secret (c : CryptoOps) (hlen : SealLen c) (k x m n ct : Bytes) (h : c.enc k x m n = some ct) : ct ≠ m := by
  intro e
  have := hlen.enc_len k x m n ct h
  rw [e] at this
  simp [sealOverhead] at this

/-- **Bound to owner and purpose.** A stored secret opens only under the very master key and the
very context (ring path, sequence number, private/symmetric purpose) it was sealed with: under any
other key or any other context bytes decryption fails – a key item copied into another ring, another
slot or another purpose does not load. (Key commitment + authenticity of the AEAD.) -/
theorem bound_to_owner (c : CryptoOps) (hl : SealLaws c) (hc : SealCommit c) (k x m n ct k' x' : Bytes)
    (h : c.enc k x m n = some ct) (hne : k' ≠ k ∨ x' ≠ x) : c.dec k' x' ct = none := by
  cases hd : c.dec k' x' ct with
  | none => rfl
  | some m' =>
    obtain ⟨n', _, hn'⟩ := hl.enc_of_dec _ _ _ _ hd
    have := hc.enc_inj _ _ _ _ _ _ _ _ _ hn' h
    rcases hne with e | e
    · exact absurd this.1 e
    · exact absurd this.2.1 e

/-- the private-key and the symmetric-key contexts of one slot differ, and contexts of different
sequence numbers in one ring differ – so `bound_to_owner` applies to purpose and slot swaps inside a ring -/
theorem contexts_differ (p : Bytes) :
    privCtx p 1 ≠ symCtx p 1 ∧ privCtx p 1 ≠ privCtx p 2 := by
  constructor
  · intro h
    simp only [privCtx, symCtx, ksCtx, ringCtx, List.append_assoc] at h
    have h1 := List.append_cancel_left h
    have h2 := List.append_cancel_left h1
    have h3 := List.append_cancel_left h2
    revert h3; decide
  · intro h
    simp only [privCtx, ksCtx, ringCtx, List.append_assoc] at h
    have h1 := List.append_cancel_left h
    have h2 := List.append_cancel_left h1
    have h3 := List.append_cancel_left h2
    revert h3; decide

/-! ## tamper evidence of stored rings -/

/-- **Ring tamper detection.** If a container carrying the signatures of an honestly signed ring
verifies under the key store's signature key for ring path `p'`, then its signed span is byte for
byte the honest payload and `p'` is the path it was signed for: any change of any byte of the signed
span (sequence numbers, states, validity, key data, current marker, time stamp), and any copy of the
file to another ring path, is rejected when the ring is read. (Collision freedom of the HMAC.) -/
theorem ring_tamper (c : CryptoOps) (hi : HashInj c) (key p raw p' raw' : Bytes)
    (h : Notary.verify c key (sigCtx p') ⟨raw', (Notary.sign c key (sigCtx p) raw).sigs⟩ = true)
    (hlen : raw'.length = raw.length ∨ p' = p) : raw' = raw ∧ p' = p := by
  have h2 := (Notary.verify_forces c hi _ _ _ _ _ _ h).2
  simp only [sigCtx, ksCtx, List.append_assoc] at h2
  have h3 := List.append_cancel_left (List.append_cancel_left h2)
  -- h3 : p' ++ (": " ++ raw') = p ++ (": " ++ raw)
  rcases hlen with hl | hp
  · have hlen2 : (ofStr ": " ++ raw').length = (ofStr ": " ++ raw).length := by simp [hl]
    have hp : p' = p := by
      have := congrArg List.length h3
      simp only [List.length_append] at this
      have hpl : p'.length = p.length := by omega
      exact (List.append_inj h3 hpl).1
    subst hp
    exact ⟨List.append_cancel_left (List.append_cancel_left h3), rfl⟩
  · subst hp
    exact ⟨List.append_cancel_left (List.append_cancel_left h3), rfl⟩

/-- signatures that are not the honest one are rejected: with the honest payload and path, every
known-algorithm signature in the set must equal the HMAC, and at least one must be present -/
theorem ring_signature_needed (c : CryptoOps) (key ctx raw : Bytes) (sigs : List Notary.Sig)
    (h : Notary.verify c key ctx ⟨raw, sigs⟩ = true) :
    (∃ s ∈ sigs, s.oid = Notary.sha256OID) ∧
    ∀ s ∈ sigs, s.oid = Notary.sha256OID → s.sig = Notary.signBytes c key ctx raw := by
  simp only [Notary.verify, Bool.and_eq_true, Bool.not_eq_true', List.all_eq_true, List.mem_filter, decide_eq_true_eq, beq_iff_eq, and_imp] at h
  constructor
  · cases hf : sigs.filter (fun s => decide (s.oid = Notary.sha256OID)) with
    | nil => simp [hf] at h
    | cons s r =>
      have : s ∈ sigs.filter (fun s => decide (s.oid = Notary.sha256OID)) := by simp [hf]
      simp only [List.mem_filter, decide_eq_true_eq] at this
      exact ⟨s, this.1, this.2⟩
  · intro s hs ho
    exact h.2 s hs ho

/-! ## non-vacuity -/

example : SealLaws boxOps ∧ SealCommit boxOps ∧ HashInj boxOps := ⟨Box.sealLaws, Box.sealCommit, Box.hashInj⟩

/-- a ring with one symmetric key is storable under the Box instance: `writes_are_sealed` has instances -/
example : (storedRing boxOps (fun _ _ => List.replicate 12 0) [1] ⟨ofStr "r", [⟨1, 1, 0, 10, [⟨fmtSym, [], [], [7]⟩]⟩], 1⟩).isSome = true := by
  decide

end AcraModel.Props.C07
