import AcraModel.KeystoreSec.PathLemmas
import AcraModel.Generated.KeystoreSec
import AcraModel.KeystoreSec.WriteLog
import AcraModel.Crypto.Box
import AcraModel.KeystoreSec.V1WriteLog
import AcraModel.KeystoreSec.V1NamesLemmas
import AcraModel.Generated.V1Export
import AcraModel.KeystoreSec.V1Methods
import AcraModel.KeystoreSec.Perms
import AcraModel.KeystoreSec.RingOpenLemmas
import AcraModel.KeystoreSec.DerRoundTrip
/-!
# C07 — keys at rest are encrypted, bound to their owner, tamper-evident and confined

Property theorems only. Part 1 (this section): confinement of the v2 directory back end
(`DirectoryBackend.osPath`, used by every `Get/Put/Rename/RenameNX`).
-/
namespace AcraModel.Props.C07
open AcraModel AcraModel.KeystoreSec AcraModel.KeystoreSec.Path AcraModel.KeystoreSec.Export AcraModel.KeystoreSec.WriteLog

/-! ## facts the models need from the source (regenerated on every run) -/
open Generated.KeystoreSec in
/-- Every path-taking method of the directory back end maps its key path(s) through `osPath` before
touching the file system, and `osPath` judges the joined path by `filepath.Rel` to the root (the
repaired check the model `Path.osPath` follows). -/
theorem fact_backend_paths :
    osPathCalls = ["filepath.Join", "pathSeparators.Replace", "filepath.Rel", "strings.HasPrefix"] ∧
    backendGetCalls.head? = some "b.osPath" ∧ backendPutCalls.head? = some "b.osPath" ∧
    backendRenameCalls.take 2 = ["b.osPath", "b.osPath"] ∧ backendRenameNXCalls.take 2 = ["b.osPath", "b.osPath"] := by decide

open Generated.KeystoreSec in
/-- **Encrypt before write (v2).** In `addKeyData` the only value ever assigned to the stored
`PrivateKey` / `SymmetricKey` field is the result of `encryptPrivateKey` / `encryptSymmetricKey`
(the public key is stored as given), and those go through `KeyRing.encrypt` → `KeyStore.encrypt` →
`KeyEncryptor.Encrypt` with the context chain private/symmetric-key context → key-ring context →
key-store context. -/
theorem fact_v2_encrypt_before_write :
    addKeyDataAssigns = ["newData.PublicKey=data.PublicKey", "newData.PrivateKey=encryptedPrivateKey", "newData.SymmetricKey=encryptedSymmetricKey"] ∧
    addKeyDataEncrypted = ["encryptedPrivateKey=r.encryptPrivateKey()", "encryptedSymmetricKey=r.encryptSymmetricKey()"] ∧
    encryptPrivateKeyCalls = ["r.encrypt", "r.privateKeyContext"] ∧
    encryptSymmetricKeyCalls = ["r.encrypt", "r.symmetricKeyContext"] ∧
    ringEncryptCalls = ["r.store.encrypt", "r.keyRingContext"] ∧
    storeEncryptCalls = ["keystoreV1.NewEmptyKeyContext", "s.keyStoreContext", "s.encryptor.Encrypt"] := by decide

open Generated.KeystoreSec in
/-- **Encrypt before write (v1).** What `SaveKeyPairWithFilename` / `generateAndSaveSymmetricKey`
hand to `WritePrivateKey` is the output of `encryptor.Encrypt`; what reaches the cache is the output
of `cacheEncryptor.Encrypt` (or the public key). -/
theorem fact_v1_encrypt_before_write :
    v1SaveKeyPairPrivateArg = ["encryptedPrivate"] ∧
    v1SaveKeyPairAssigns = ["encryptedPrivate=store.encryptor.Encrypt()", "cacheEncryptedPrivate=store.cacheEncryptor.Encrypt()"] ∧
    v1SaveKeyPairCacheArgs = ["cacheEncryptedPrivate", "keypair.Public.Value"] ∧
    v1SaveSymmetricArg = ["encryptedSymKey"] ∧ v1SaveSymmetricAssigns = ["encryptedSymKey=store.encryptor.Encrypt()"] ∧
    v1LoadKeyAndCacheAddArg = ["cacheEncrypted"] ∧ v1LoadKeyAndCacheAssigns = ["cacheEncrypted=store.cacheEncryptor.Encrypt()"] := by decide

/-! ## confinement -/

/-- **Join-and-check containment.** For an absolute root and any relative path `p` (any bytes),
`containedJoin` either refuses `p` or returns a cleaned absolute path whose components are the root's
components followed by ordinary components only – lexically inside the root. This is the check shared
by the v2 directory back end (`osPath`) and the v1 bundle import (`isInsideFolder`). -/
theorem containedJoin_contained (root p q : Bytes) (hroot : root.head? = some slash)
    (h : containedJoin root p = .ok q) :
    ∃ rest, q = render ⟨true, (cleanP root).comps ++ rest⟩ ∧ ∀ c ∈ rest, GoodComp c := by
  unfold containedJoin at h
  have hne : root ≠ [] := by intro e; simp [e] at hroot
  have hj : joinP root (p) = some (cleanP (root ++ slash :: p)) := by
    simp [joinP, hne]
  rw [hj] at h
  simp only at h
  -- the joined path is rooted, its stack extends the root's stack
  have hrooted : (root ++ slash :: p).head? = some slash := by
    cases root with
    | nil => exact absurd rfl hne
    | cons x r => simpa using hroot
  let S0 := cleanStack true [] (splitSlash root)
  let S1 := cleanStack true S0 (splitSlash (p))
  have hfull : cleanP (root ++ slash :: p) = ⟨true, S1.reverse⟩ := by
    simp only [cleanP, hrooted, splitSlash_append, cleanStack_append]
    simp [S1, S0]
  have hbase : cleanP root = ⟨true, S0.reverse⟩ := by
    simp [cleanP, hroot, S0]
  have hgood0 : ∀ x ∈ S0, GoodComp x :=
    cleanStack_good [] _ (by simp) (splitSlash_noslash root)
  have hgood1 : ∀ x ∈ S1, GoodComp x :=
    cleanStack_good S0 _ hgood0 (splitSlash_noslash _)
  rw [hfull, hbase] at h
  by_cases heq : (⟨true, S1.reverse⟩ : CPath) = ⟨true, S0.reverse⟩
  · -- the key path resolves to the root itself
    have hr : relP ⟨true, S0.reverse⟩ ⟨true, S1.reverse⟩ = some [[dot]] := by simp [relP, heq]
    rw [hr] at h
    have he : escapes (joinSlash [[dot]]) = false := by decide
    simp only [he] at h
    refine ⟨[], ?_, by simp⟩
    simp at h
    rw [← h, hbase, heq]
    simp
  · cases hsc : stripCommon S0.reverse S1.reverse with
    | mk b' t' =>
      have hr : relP ⟨true, S0.reverse⟩ ⟨true, S1.reverse⟩ =
          if b'.head? = some dd then none else some (b'.map (fun _ => dd) ++ t') := by
        simp [relP, heq, hsc]
      rw [hr] at h
      by_cases hdd : b'.head? = some dd
      · rw [if_pos hdd] at h; cases h
      · rw [if_neg hdd] at h
        simp only at h
        cases hb : b' with
        | cons x r =>
          rw [hb] at h
          simp only [List.map_cons, List.cons_append] at h
          rw [escapes_dd_cons] at h
          simp at h
        | nil =>
          rw [hb] at h
          simp only [List.map_nil, List.nil_append] at h
          by_cases hesc : escapes (joinSlash t') = true
          · rw [if_pos hesc] at h; cases h
          · rw [if_neg hesc] at h
            have hp := stripCommon_nil_prefix S0.reverse S1.reverse (by rw [hsc, hb])
            rw [hsc] at hp
            simp only at hp
            refine ⟨t', ?_, ?_⟩
            · cases h
              rw [hbase]
              simp only
              rw [← hp]
            · intro c hc
              have : c ∈ S1.reverse := by rw [hp]; simp [hc]
              exact hgood1 c (by simpa using this)


/-- **Confinement.** For an absolute keystore root, whatever key path the directory back end is
given (any bytes: `..`, `/`, `\`, empty and dot components), `osPath` either rejects it or returns a
cleaned absolute OS path whose components are the root's components followed by ordinary components
only (no `..`, no `.`, no empty component, no separator inside) – lexically inside the root. -/
theorem osPath_contained (root p q : Bytes) (hroot : root.head? = some slash)
    (h : osPath root p = .ok q) :
    ∃ rest, q = render ⟨true, (cleanP root).comps ++ rest⟩ ∧ ∀ c ∈ rest, GoodComp c :=
  containedJoin_contained root (replaceSeps p) q hroot h

/-- **Confinement of the v1 bundle import.** Whatever name a key carries inside an export bundle
(`KeyBackuper.Import` takes the names from the bundle, and a bundle is sealed under keys that travel
with it), the key is either refused – and the whole bundle with it, before anything is written – or
written to a cleaned path made of the key folder's components followed by ordinary components. -/
theorem v1_import_contained (root name q : Bytes) (hroot : root.head? = some slash)
    (h : importPath root name = .ok q) :
    ∃ rest, q = render ⟨true, (cleanP root).comps ++ rest⟩ ∧ ∀ c ∈ rest, GoodComp c :=
  containedJoin_contained root name q hroot h

open Generated.V1Methods in
/-- `KeyBackuper.Import` checks every key name of the bundle against both key folders
(`isInsideFolder` – `filepath.Rel` of the joined path must not start with `..`, the check `containedJoin`
models) before the first storage call. -/
theorem fact_v1_import_checks_names :
    v1ImportCalls.take 3 = ["isInsideFolder", "isInsideFolder", "store.storage.MkdirAll"] ∧
    (v1ImportCalls.drop 2).all (· != "isInsideFolder") = true ∧
    v1IsInsideFolderBody = ["relPath, err := filepath.Rel(folder, filepath.Join(folder, name))", "return err == nil && relPath != \"..\" && !strings.HasPrefix(relPath, \"..\"+string(filepath.Separator))"] := by
  refine ⟨by decide, by decide, by decide⟩

/-- **The pinned import escaped** (repair 52): a bundle whose key is named `../escaped.pub` was written
next to the key folder (and a public key is written as it comes – attacker-chosen bytes at an
attacker-chosen place); the repaired import refuses the bundle. -/
theorem v1_import_pinned_counterexample :
    importPathPinned (ofStr "/tmp/ks/root") (ofStr "../escaped.pub") = ofStr "/tmp/ks/escaped.pub" ∧
    importPath (ofStr "/tmp/ks/root") (ofStr "../escaped.pub") = .err ∧
    importPath (ofStr "/tmp/ks/root") (ofStr "client_a_storage.pub") = .ok (ofStr "/tmp/ks/root/client_a_storage.pub") := by
  refine ⟨by decide, by decide, by decide⟩

/-- **The pinned tree escapes** (DESIGN §8 #5): on the code as pinned, `osPath` accepts `../escaped`
and maps it to a sibling of the keystore root. Witness replayed against the real back end by the
regression corpus of the harness (`C07.put` with the pre-repair expectation). -/
theorem osPathPinned_counterexample :
    osPathPinned (ofStr "/tmp/ks/root") (ofStr "../escaped") = .ok (ofStr "/tmp/ks/escaped") := by
  decide

/-- the repaired function rejects the witness -/
theorem osPath_rejects_witness :
    osPath (ofStr "/tmp/ks/root") (ofStr "../escaped") = .err := by
  decide

/-- non-vacuity: an ordinary nested key path is accepted and lands below the root -/
example : osPath (ofStr "/tmp/ks/root") (ofStr "client/a\\b/../storage.keyring")
    = .ok (ofStr "/tmp/ks/root/client/a/storage.keyring") := by decide

/-! ## keys at rest are encrypted -/

/-- **Every write is sealed (v2).** Whatever ring the key store writes (`ringFile`), each key-data
item inside the signed ring is sealed w.r.t. the plaintext it came from: the public key as given,
the private / symmetric part absent or `enc master (context of this ring, seqnum and purpose)
secret nonce` – the secret itself is never what is stored (structural "never in clear", DESIGN §4.3). -/
theorem writes_are_sealed (c : CryptoOps) (ν : Nonces) (master : Bytes) (x r : Ring)
    (h : storedRing c ν master x = some r) :
    r.purpose = x.purpose ∧ r.current = x.current ∧
    ∀ k' ∈ r.keys, ∃ k ∈ x.keys, k'.seq = k.seq ∧ k'.state = k.state ∧
      ∀ e ∈ k'.data, ∃ d ∈ k.data, SealedData c master x.purpose k.seq d e := by
  unfold storedRing at h
  cases hk : x.keys.mapM (fun (k : Key) => (k.data.mapM (addKeyData c ν master x.purpose k.seq)).map fun ds => { k with data := ds }) with
  | none => simp [hk] at h
  | some ks =>
    simp [hk] at h
    subst h
    refine ⟨rfl, rfl, ?_⟩
    intro k' hk'
    obtain ⟨k, hkm, hfk⟩ := mapM_mem _ _ _ hk k' hk'
    cases hd : k.data.mapM (addKeyData c ν master x.purpose k.seq) with
    | none => simp [hd] at hfk
    | some ds =>
      simp [hd] at hfk
      subst hfk
      refine ⟨k, hkm, rfl, rfl, ?_⟩
      intro e he
      obtain ⟨d, hdm, hfd⟩ := mapM_mem _ _ _ hd e he
      exact ⟨d, hdm, addKeyData_sealed c ν master x.purpose k.seq d e hfd⟩

/-- a sealed value is never the secret itself (length law of the AEAD) -/
theorem sealed_ne_secret (c : CryptoOps) (hlen : SealLen c) (k x m n ct : Bytes) (h : c.enc k x m n = some ct) : ct ≠ m := by
  intro e
  have := hlen.enc_len k x m n ct h
  rw [e] at this
  simp [sealOverhead] at this

/-- **Bound to owner and purpose.** A stored secret opens only under the very master key and the
very context (ring path, sequence number, private/symmetric purpose) it was sealed with: under any
other key or any other context bytes decryption fails – a key item copied into another ring, another
slot or another purpose does not load. (Key commitment + authenticity of the AEAD.) -/
theorem bound_to_owner (c : CryptoOps) (hl : SealLaws c) (hc : SealCommit c) (k x m n ct k' x' : Bytes)
    (h : c.enc k x m n = some ct) (hne : k' ≠ k ∨ x' ≠ x) : c.dec k' x' ct = none := by
  cases hd : c.dec k' x' ct with
  | none => rfl
  | some m' =>
    obtain ⟨n', _, hn'⟩ := hl.enc_of_dec _ _ _ _ hd
    have := hc.enc_inj _ _ _ _ _ _ _ _ _ hn' h
    rcases hne with e | e
    · exact absurd this.1 e
    · exact absurd this.2.1 e

/-- the private-key and the symmetric-key contexts of one slot differ, and contexts of different
sequence numbers in one ring differ – so `bound_to_owner` applies to purpose and slot swaps inside a ring -/
theorem contexts_differ (p : Bytes) :
    privCtx p 1 ≠ symCtx p 1 ∧ privCtx p 1 ≠ privCtx p 2 := by
  constructor
  · intro h
    simp only [privCtx, symCtx, ksCtx, ringCtx, List.append_assoc] at h
    have h1 := List.append_cancel_left h
    have h2 := List.append_cancel_left h1
    have h3 := List.append_cancel_left h2
    revert h3; decide
  · intro h
    simp only [privCtx, ksCtx, ringCtx, List.append_assoc] at h
    have h1 := List.append_cancel_left h
    have h2 := List.append_cancel_left h1
    have h3 := List.append_cancel_left h2
    revert h3; decide

/-! ## tamper evidence of stored rings -/

/-- **Ring tamper detection.** If a container carrying the signatures of an honestly signed ring
verifies under the key store's signature key for ring path `p'`, then its signed span is byte for
byte the honest payload and `p'` is the path it was signed for: any change of any byte of the signed
span (sequence numbers, states, validity, key data, current marker, time stamp), and any copy of the
file to another ring path, is rejected when the ring is read. (Collision freedom of the HMAC.) -/
theorem ring_tamper (c : CryptoOps) (hi : HashInj c) (key p raw p' raw' : Bytes)
    (h : Notary.verify c key (sigCtx p') ⟨raw', (Notary.sign c key (sigCtx p) raw).sigs⟩ = true)
    (hlen : raw'.length = raw.length ∨ p' = p) : raw' = raw ∧ p' = p := by
  have h2 := (Notary.verify_forces c hi _ _ _ _ _ _ h).2
  simp only [sigCtx, ksCtx, List.append_assoc] at h2
  have h3 := List.append_cancel_left (List.append_cancel_left h2)
  -- h3 : p' ++ (": " ++ raw') = p ++ (": " ++ raw)
  rcases hlen with hl | hp
  · have hlen2 : (ofStr ": " ++ raw').length = (ofStr ": " ++ raw).length := by simp [hl]
    have hp : p' = p := by
      have := congrArg List.length h3
      simp only [List.length_append] at this
      have hpl : p'.length = p.length := by omega
      exact (List.append_inj h3 hpl).1
    subst hp
    exact ⟨List.append_cancel_left (List.append_cancel_left h3), rfl⟩
  · subst hp
    exact ⟨List.append_cancel_left (List.append_cancel_left h3), rfl⟩

/-- signatures that are not the honest one are rejected: with the honest payload and path, every
known-algorithm signature in the set must equal the HMAC, and at least one must be present -/
theorem ring_signature_needed (c : CryptoOps) (key ctx raw : Bytes) (sigs : List Notary.Sig)
    (h : Notary.verify c key ctx ⟨raw, sigs⟩ = true) :
    (∃ s ∈ sigs, s.oid = Notary.sha256OID) ∧
    ∀ s ∈ sigs, s.oid = Notary.sha256OID → s.sig = Notary.signBytes c key ctx raw := by
  simp only [Notary.verify, Bool.and_eq_true, Bool.not_eq_true', List.all_eq_true, List.mem_filter, decide_eq_true_eq, beq_iff_eq, and_imp] at h
  constructor
  · cases hf : sigs.filter (fun s => decide (s.oid = Notary.sha256OID)) with
    | nil => simp [hf] at h
    | cons s r =>
      have : s ∈ sigs.filter (fun s => decide (s.oid = Notary.sha256OID)) := by simp [hf]
      simp only [List.mem_filter, decide_eq_true_eq] at this
      exact ⟨s, this.1, this.2⟩
  · intro s hs ho
    exact h.2 s hs ho


/-! # The v1 key store write path (`WritePrivateKey` / `WriteKeyFile`)

Model `KeystoreSec/V1WriteLog.lean`; tied by the op `C07.v1.write` (every byte string the real key
store hands to `Storage.WriteFile` is recomputed by the model) and `C07.v1.load`. -/
section V1
open AcraModel.KeystoreSec.V1 AcraModel.KeystoreSec.V1WriteLog
open AcraModel.CrossClient (KeyContext keyContextBytes keyEncrypt keyDecrypt)


open Generated.V1Export in
/-- Every per-client writer of the v1 key store starts by refusing ids `keystore.ValidateID` rejects
(repair 50 for three of them), and `ValidateID` is the length window 5…256 plus the byte classes
`a-z A-Z 0-9` and `ValidChars = "_- "` that `V1.validateID` models. -/
theorem fact_v1_writers_validate :
    v1WriterGenerateDataEncryptionKeysFirst = "if !keystore.ValidateID(id) { return keystore.ErrInvalidClientID }" ∧
    v1WriterSaveDataEncryptionKeysFirst = "if !keystore.ValidateID(id) { return keystore.ErrInvalidClientID }" ∧
    v1WriterGenerateClientIDSymmetricKeyFirst = "if !keystore.ValidateID(id) { return keystore.ErrInvalidClientID }" ∧
    v1WriterGenerateHmacKeyFirst = "if !keystore.ValidateID(id) { return keystore.ErrInvalidClientID }" ∧
    validateIDBody = ["if len(clientID) < MinClientIDLength || len(clientID) > MaxClientIDLength { return false }", "for _, c := range string(clientID) { if (c < 'a' || c > 'z') && (c < 'A' || c > 'Z') && (c < '0' || c > '9') && !strings.ContainsRune(ValidChars, c) { return false } }", "return true"] ∧
    cValidChars = "_- " ∧ minClientIDLength = cMinClientIDLength ∧ maxClientIDLength = cMaxClientIDLength ∧
    (cValidChars.toList.map fun ch => validChar (UInt8.ofNat ch.toNat)) = [true, true, true] := by
  refine ⟨by rfl, by rfl, by rfl, by rfl, by rfl, by rfl, by rfl, by rfl, by decide⟩

/-- **Every v1 write is sealed.** Whatever key-producing operation the v1 key store performs
(storage key pair generated or saved, storage symmetric key, HMAC key, audit-log key, poison key
pair, poison symmetric key – first time or rotation), its write log consists of exactly one private
write, to the operation's file, of `enc master (bytes of the operation's key context) secret nonce`,
followed – for key pairs – by one public write of the public key to `<file>.pub`. The secret never
reaches `Storage.WriteFile` otherwise; with the length law the private write is not the secret. -/
theorem v1_writes_are_sealed (c : CryptoOps) (master nonce : Bytes) (op : Op) (ws : List Write)
    (h : writes c master nonce op = some ws) :
    ∃ ct, c.enc master (keyContextBytes op.ctx) op.secret nonce = some ct ∧
      ws = ⟨op.file, ct, true⟩ :: (match op.public with | some pub => [⟨op.file ++ sPub, pub, false⟩] | none => []) ∧
      (∀ w ∈ ws, w.priv = true → w.data = ct) ∧
      (SealLen c → ct ≠ op.secret) := by
  unfold writes at h
  split at h
  · cases h
  · cases he : keyEncrypt c master op.ctx op.secret nonce with
    | none => simp [he] at h
    | some ct =>
      simp only [he, Option.map_some, Option.some.injEq] at h
      subst h
      refine ⟨ct, he, rfl, ?_, fun hlen => sealed_ne_secret c hlen _ _ _ _ _ he⟩
      intro w hw hp
      simp only [List.mem_cons] at hw
      rcases hw with rfl | hw
      · rfl
      · cases hpub : op.public with
        | none => simp [hpub] at hw
        | some pub =>
          simp only [hpub, List.mem_cons, List.not_mem_nil, or_false] at hw
          subst hw
          cases hp

/-- **Bound to the owner (v1).** The private write of an operation opens only under the master key
and the context bytes it was sealed with: loading it the way a getter for any other key context does
– another client id, the poison or audit-log context, another master key – fails. -/
theorem v1_bound_to_owner (c : CryptoOps) (hl : SealLaws c) (hc : SealCommit c) (master nonce : Bytes) (op : Op)
    (ws : List Write) (h : writes c master nonce op = some ws) (w : Write) (hw : w ∈ ws) (hp : w.priv = true)
    (master' : Bytes) (kc' : KeyContext) (hne : master' ≠ master ∨ keyContextBytes kc' ≠ keyContextBytes op.ctx) :
    load c master' kc' w.data = none := by
  obtain ⟨ct, he, _, hall, _⟩ := v1_writes_are_sealed c master nonce op ws h
  rw [hall w hw hp]
  exact bound_to_owner c hl hc _ _ _ _ _ master' (keyContextBytes kc') he hne

/-- the context of a per-client operation is the client id: two different owners never share one -/
theorem v1_client_context (op : Op) (id : Bytes) (h : op.clientId = some id) : keyContextBytes op.ctx = id := by
  cases op <;> simp [Op.clientId] at h <;> subst h <;> rfl

/-- the contexts of the key store's own keys (poison pair, poison symmetric, audit log) are fixed
strings no valid client id equals (they contain `.` or are the log key name – `secure_log_key` *is* a
valid client id: a client of that name shares the audit-log key's context) -/
theorem v1_global_contexts (id : Bytes) (hv : validateID id = true) :
    id ≠ keyContextBytes (Op.ctx (.genPoisonPair [] [])) ∧ id ≠ keyContextBytes (Op.ctx (.genPoisonSym [])) := by
  constructor <;> (intro e; have := validateID_chars hv 46 (by rw [e]; decide); revert this; decide)

/-- **The purpose is not bound (known finding `v1-purpose-not-bound`).** Storage symmetric key and
HMAC key of one client are sealed under the same context – the client id: the file of one loads as
the other. -/
theorem v1_purpose_not_bound_counterexample (c : CryptoOps) (hl : SealLaws c) (master nonce id key : Bytes) (ws : List Write)
    (h : writes c master nonce (.genHmacKey id key) = some ws) :
    ∃ w ∈ ws, load c master (Op.ctx (.genSymKey id [])) w.data = some key := by
  obtain ⟨ct, he, hws, _, _⟩ := v1_writes_are_sealed c master nonce _ ws h
  refine ⟨⟨hmacName id, ct, true⟩, by rw [hws]; simp [Op.file], ?_⟩
  exact hl.dec_enc _ _ _ _ _ he

/-- **Confinement of the v1 writers.** Every path in the write log of every operation consists of
ordinary components only (no `..`, no `.`, no empty component, no separator inside a component):
relative to the key folder it stays inside it, lexically. Per-client operations get there because
they refuse every client id `keystore.ValidateID` does not accept (letters, digits, `_`, `-`, space;
5 … 256 bytes); the key store's own names are `secure_log_key` and `.poison_key/poison_key[_sym|.pub]`. -/
theorem v1_paths_contained (c : CryptoOps) (master nonce : Bytes) (op : Op) (ws : List Write)
    (h : writes c master nonce op = some ws) :
    ∀ w ∈ ws, ∀ comp ∈ Path.splitSlash w.path, GoodComp comp := by
  have hrej : op.rejected = false := by
    unfold writes at h
    cases hr : op.rejected with
    | false => rfl
    | true => simp [hr] at h
  obtain ⟨ct, _, hws, _, _⟩ := v1_writes_are_sealed c master nonce op ws h
  -- the file of the operation and, for pairs, `<file>.pub`
  have hfile : (∀ comp ∈ Path.splitSlash op.file, GoodComp comp) ∧ (∀ comp ∈ Path.splitSlash (op.file ++ sPub), GoodComp comp) := by
    cases hid : op.clientId with
    | some id =>
      have hv : validateID id = true := by
        simp only [Op.rejected, hid, Bool.not_eq_false'] at hrej
        exact hrej
      have hgood : ∀ suf : Bytes, Path.slash ∉ suf → ∀ comp ∈ Path.splitSlash (id ++ suf), GoodComp comp := by
        intro suf hs comp hc
        have hg := goodComp_valid_append hv suf hs
        rw [splitSlash_noslash_eq _ hg.2.2.2] at hc
        simp only [List.mem_cons, List.not_mem_nil, or_false] at hc
        rw [hc]; exact hg
      cases op <;> simp only [Op.clientId, Option.some.injEq, reduceCtorEq] at hid <;> subst hid
      all_goals
        simp only [Op.file, storageName, symName, hmacName, List.append_assoc]
        exact ⟨hgood _ (by decide), hgood _ (by decide)⟩
    | none =>
      cases op <;> simp only [Op.clientId, reduceCtorEq] at hid
      all_goals
        simp only [Op.file]
        have hg := global_names_good
        simp only [List.all_cons, List.all_nil, Bool.and_true, Bool.and_eq_true] at hg
        first
          | exact ⟨splitSlash_all_good hg.1, splitSlash_all_good hg.2.1⟩
          | exact ⟨splitSlash_all_good hg.2.2.1, splitSlash_all_good hg.2.2.2.1⟩
          | exact ⟨splitSlash_all_good hg.2.2.2.2.1, splitSlash_all_good hg.2.2.2.2.2⟩
  intro w hw
  rw [hws] at hw
  simp only [List.mem_cons] at hw
  rcases hw with rfl | hw
  · exact hfile.1
  · cases hpub : op.public with
    | none => simp [hpub] at hw
    | some pub =>
      simp only [hpub, List.mem_cons, List.not_mem_nil, or_false] at hw
      subst hw
      exact hfile.2

/-- **The pinned tree escaped (repair 50).** Before the repair only `GenerateDataEncryptionKeys`
validated: `GenerateClientIDSymmetricKey("../escaped")` wrote to `../escaped_storage_sym`, a path
whose first component is `..`. The repaired writer refuses the id. -/
theorem v1_writer_pinned_counterexample :
    (writesPinned boxOps [1] (List.replicate 12 0) (.genSymKey (Path.ofStr "../escaped") [7])).map (fun ws => ws.map (·.path)) =
      some [Path.ofStr "../escaped_storage_sym"] ∧
    Path.splitSlash (Path.ofStr "../escaped_storage_sym") = [Path.dd, Path.ofStr "escaped_storage_sym"] ∧
    writes boxOps [1] (List.replicate 12 0) (.genSymKey (Path.ofStr "../escaped") [7]) = none := by
  refine ⟨by decide, by decide, by decide⟩

/-- non-vacuity: a valid client gets its files written under the Box instance -/
example : (writes boxOps [1] (List.replicate 12 0) (.genDataKeys (Path.ofStr "client_a") [7] [8])).isSome = true := by decide

end V1

/-! # Every id-taking method of the v1 key store is confined (readers and destroyers included)

Model `KeystoreSec/V1Methods.lean`; tied by the regenerated method table and the op `C07.v1.access`
(a recording `filesystem.Storage` under the real key store: every path handed to
`Stat/Exists/ReadFile/ReadDir/Remove/MkdirAll/TempFile/WriteFile/Link/Rename`). -/
section V1Methods
open AcraModel.KeystoreSec.V1 AcraModel.KeystoreSec.V1Methods

open Generated.V1Methods in
/-- The exported methods of `KeyStore` / `TranslatorFileSystemKeyStore` that turn a caller-supplied
`[]byte` into a file name are exactly the 23 methods of the model, in source order, and **every one of
them** begins with `if !keystore.ValidateID(id) { return …, keystore.ErrInvalidClientID }` (the writers
since repair 50, the readers and destroyers since repair 51). The name functions are the seven of
`filenames.go` / `key_names.go`; the only other exported methods with a `[]byte` parameter take key
*data*; the exported methods taking file names as strings are the package's plumbing (they are handed
names built by the methods above or the key store's fixed names). A new id-taking method, or a guard
that disappears, changes this table. -/
theorem fact_v1_id_methods :
    v1IdMethods.map (·.1) = Method.all.map Method.goName ∧
    (v1IdMethods.all fun r => r.2.1) = true ∧
    v1NameFunctions = ["GetServerDecryptionKeyFilename", "getClientIDSymmetricKeyName", "getConnectorKeyFilename", "getHmacKeyFilename", "getPublicKeyFilename", "getServerKeyFilename", "getTranslatorKeyFilename"] ∧
    v1OtherByteMethods = ["KeyStore.WritePrivateKey", "KeyStore.WritePublicKey", "KeyStore.WriteKeyFile", "KeyStore.Add"] ∧
    v1PathMethods = ["KeyStore.SaveKeyPairWithFilename(filename)", "KeyStore.WritePrivateKey(filename)", "KeyStore.WritePublicKey(filename)", "KeyStore.ReadKeyFile(filename)", "KeyStore.WriteKeyFile(filename)", "KeyStore.GetPrivateKeyFilePath(filename)", "KeyStore.GetPublicKeyFilePath(filename)", "KeyStore.GetHistoricalPrivateKeyFilenames(filename)", "KeyStore.Add(keyID)", "KeyStore.Get(keyID)"] := by
  refine ⟨by decide, by decide, by decide, by decide, by decide⟩

/-- every method of the model is guarded in the regenerated table -/
theorem fact_v1_all_methods_validate : ∀ m : Method, m.validates = true := by
  intro m; cases m <;> decide

/-- **Confinement of every id-taking method of the v1 key store.** Whatever client id a generator,
getter, "get all" reader, destroyer or rotated-key destroyer of the key store – or the translator key
store's `CheckIfPrivateKeyExists` / `GetPrivateKey` – is given: either the call is refused before the
storage is touched, or every path it hands to the storage (to read, list, stat, create, link, rename
or remove) consists of ordinary components only – no `..`, no `.`, no empty component, no separator
inside a component – relative to the key folder: lexically inside it. (`e`: names a directory listing,
`TempFile` and the clock contribute; they are ordinary components / separator-free / time stamps.) -/
theorem v1_all_methods_contained (m : Method) (id : Bytes) (e : Env) (he : e.WellFormed) (ps : List Bytes)
    (h : access m id e = some ps) :
    ∀ p ∈ ps, ∀ comp ∈ Path.splitSlash p, GoodComp comp := by
  have hv : validateID id = true := by
    unfold access accessWith at h
    have hm : validatesIn Generated.V1Methods.v1IdMethods m = true := fact_v1_all_methods_validate m
    rw [hm] at h
    cases hid : validateID id with
    | true => rfl
    | false => simp [hid] at h
  have hps : ps = touched m id e := by
    unfold access accessWith at h
    simp only [hv, Bool.not_true, Bool.and_false, Bool.false_eq_true, if_false, Option.some.injEq] at h
    exact h.symm
  subst hps
  have one : ∀ suf : Bytes, Path.slash ∉ suf → AllGood [id ++ suf] := fun suf hs =>
    allGood_cons (split_single_good hv suf hs) allGood_nil
  have pair : ∀ suf : Bytes, Path.slash ∉ suf → Path.slash ∉ suf ++ sPub → AllGood (savePair (id ++ suf) e) := by
    intro suf hs hsp
    unfold savePair
    refine allGood_append (writeKeyFile_good hv suf _ _ _ hs he.tmpPriv he.tsPriv) ?_
    rw [List.append_assoc]
    exact writeKeyFile_good hv (suf ++ sPub) _ _ _ hsp he.tmpPub he.tsPub
  have nil_pair : AllGood (savePair id e) := by
    have := pair [] (by simp) (by decide)
    simpa using this
  cases m
  case getClientIDEncryptionPublicKey =>
    show AllGood [id ++ sStorage ++ sPub]
    rw [List.append_assoc]; exact one (sStorage ++ sPub) (by decide)
  case getPeerPublicKey => exact one sPub (by decide)
  case getPrivateKey => exact one sServer (by decide)
  case getServerDecryptionPrivateKey => exact one sStorage (by decide)
  case getServerDecryptionPrivateKeys => exact readAll_good hv sStorage (by decide) e he.privHist
  case generateConnectorKeys => exact nil_pair
  case generateServerKeys => exact pair sServer (by decide) (by decide)
  case generateTranslatorKeys => exact pair sTranslator (by decide) (by decide)
  case generateDataEncryptionKeys => exact pair sStorage (by decide) (by decide)
  case saveDataEncryptionKeys => exact pair sStorage (by decide) (by decide)
  case getHMACSecretKey => exact one sHmac (by decide)
  case generateHmacKey => exact writeKeyFile_good hv sHmac _ _ _ (by decide) he.tmpPriv he.tsPriv
  case generateClientIDSymmetricKey =>
    simp only [touched, symName, List.append_assoc]
    exact writeKeyFile_good hv (sStorage ++ sSym) _ _ _ (by decide) he.tmpPriv he.tsPriv
  case getClientIDSymmetricKeys =>
    simp only [touched, symName, List.append_assoc]
    exact readAll_good hv (sStorage ++ sSym) (by decide) e he.privHist
  case getClientIDSymmetricKey =>
    show AllGood [id ++ sStorage ++ sSym]
    rw [List.append_assoc]; exact one (sStorage ++ sSym) (by decide)
  case destroyClientIDEncryptionKeyPair =>
    simp only [touched, storageName, storagePubName, List.append_assoc]
    exact allGood_cons (split_single_good hv _ (by decide)) (one (sStorage ++ sPub) (by decide))
  case destroyClientIDSymmetricKey =>
    show AllGood [id ++ sStorage ++ sSym]
    rw [List.append_assoc]; exact one (sStorage ++ sSym) (by decide)
  case destroyHmacSecretKey =>
    simp only [touched, hmacName, List.append_assoc]
    exact allGood_cons (split_single_good hv _ (by decide)) (one (sHmac ++ sPub) (by decide))
  case destroyRotatedClientIDEncryptionKeyPair =>
    have hold : AllGood [oldDir (id ++ sStorage)] := by
      unfold oldDir; rw [List.append_assoc]; exact one (sStorage ++ sOld) (by decide)
    have h1 := destroyRotated_good hv sStorage (by decide) e.privHist e.index he.privHist
    have h2 := destroyRotated_good hv (sStorage ++ sPub) (by decide) e.pubHist e.index he.pubHist
    rw [← List.append_assoc] at h2
    show AllGood (if e.present = true then
        if (destroyRotated (id ++ sStorage) e.privHist e.index).2 = true then
          (destroyRotated (id ++ sStorage) e.privHist e.index).1 ++ (destroyRotated (id ++ sStorage ++ sPub) e.pubHist e.index).1
        else (destroyRotated (id ++ sStorage) e.privHist e.index).1
      else [oldDir (id ++ sStorage)])
    split
    · split
      · exact allGood_append h1 h2
      · exact h1
    · exact hold
  case destroyRotatedClientIDSymmetricKey =>
    simp only [touched, symName, List.append_assoc]
    cases e.present
    · simp only [Bool.false_eq_true, if_false]
      unfold oldDir; rw [List.append_assoc, List.append_assoc]; exact one (sStorage ++ (sSym ++ sOld)) (by decide)
    · exact destroyRotated_good hv (sStorage ++ sSym) (by decide) e.privHist e.index he.privHist
  case destroyRotatedHmacSecretKey =>
    simp only [touched, hmacName]
    cases e.present
    · simp only [Bool.false_eq_true, if_false]
      unfold oldDir; rw [List.append_assoc]; exact one (sHmac ++ sOld) (by decide)
    · exact destroyRotated_good hv sHmac (by decide) e.privHist e.index he.privHist
  case translatorCheckIfPrivateKeyExists => exact one sTranslator (by decide)
  case translatorGetPrivateKey => exact one sTranslator (by decide)

/-- an invalid id is refused by every method before anything is touched -/
theorem v1_invalid_id_refused (m : Method) (id : Bytes) (e : Env) (h : validateID id = false) : access m id e = none := by
  unfold access accessWith
  have hm : validatesIn Generated.V1Methods.v1IdMethods m = true := fact_v1_all_methods_validate m
  simp [hm, h]

/-- **The readers and destroyers escaped before repair 51** (known finding
`v1-unvalidated-client-id-escapes`, now fixed): with the guard table of the tree as it was after
repair 50, `DestroyClientIDSymmetricKey("../../victim")` handed `../../victim_storage_sym` – a path
whose first two components are `..` – to `Storage.Remove`, and `GetClientIDSymmetricKey("../escaped")`
read `../escaped_storage_sym`. With the regenerated table both calls are refused. -/
theorem v1_readers_pinned_counterexample :
    let e : Env := ⟨false, [], [], [], [], [], [], 2⟩
    accessWith pinnedTable .destroyClientIDSymmetricKey (Path.ofStr "../../victim") e = some [Path.ofStr "../../victim_storage_sym"] ∧
    Path.splitSlash (Path.ofStr "../../victim_storage_sym") = [Path.dd, Path.dd, Path.ofStr "victim_storage_sym"] ∧
    accessWith pinnedTable .getClientIDSymmetricKey (Path.ofStr "../escaped") e = some [Path.ofStr "../escaped_storage_sym"] ∧
    access .destroyClientIDSymmetricKey (Path.ofStr "../../victim") e = none ∧
    access .getClientIDSymmetricKey (Path.ofStr "../escaped") e = none := by
  refine ⟨by decide, by decide, by decide, by decide, by decide⟩

/-- non-vacuity: a valid client's "read all" touches the file, its history directory and the rotated keys -/
example : access .getClientIDSymmetricKeys (Path.ofStr "client_a")
    ⟨true, [Path.ofStr "2024-01-02T03:04:05.6"], [], [], [], Path.ofStr "2024-01-02T03:04:05", Path.ofStr "2024-01-02T03:04:05", 2⟩ =
    some [Path.ofStr "client_a_storage_sym.old", Path.ofStr "client_a_storage_sym", Path.ofStr "client_a_storage_sym.old/2024-01-02T03:04:05.6"] := by decide

end V1Methods

/-! # Permission discipline

Model `KeystoreSec/Perms.lean`; tied by the regenerated call table / constants and the ops `C07.perm.*`
(real key stores of both formats under real umasks; every one of the 512 directory / file modes). -/
section Perms
open AcraModel.KeystoreSec.Perms AcraModel.KeystoreSec.V1WriteLog AcraModel.KeystoreSec.V1
open AcraModel.CrossClient (keyContextBytes)

open Generated.KeyPerms in
/-- The permission constants are 0600 / 0644 / 0700 in both formats; the checks on existing key
directories and key files are the ones `Perms.v1OpenAccepts / v2OpenAccepts / v1LoadAccepts` model;
`FileStorage.TempFile` creates (0600) and then `Chmod`s to the requested mode; a history `Copy` keeps
the source's mode; `Import` starts from the public mode and switches to the private one for private keys. -/
theorem fact_perm_constants :
    v1PrivateFileMode = 0o600 ∧ v1PublicFileMode = 0o644 ∧ v1KeyDirMode = 0o700 ∧
    v2KeyFilePerm = 0o600 ∧ v2VersionPerm = 0o644 ∧ v2KeyDirPerm = 0o700 ∧
    v1OpenPermConds = ["runtime.GOOS == \"linux\" && fi.Mode().Perm().String() != expectedPermission"] ∧
    expectedPermission = "-rwx------" ∧
    v1LoadPrivateKeyPermConds = ["runtime.GOOS == \"linux\" && fi.Mode().Perm() > PrivateFileMode"] ∧
    v2CreatePermConds = ["fi.Mode().Perm() != keyDirPerm"] ∧ v2OpenPermConds = ["fi.Mode().Perm() != keyDirPerm"] ∧
    v1TempFileCalls = ["ioutil.TempFile", "tmp.Chmod"] ∧
    v1CopyPerm = ["perm := fi.Mode() & os.ModePerm"] ∧
    v1ImportFilePermission = ["filePermission := publicFileMode", "filePermission = PrivateFileMode"] := by
  refine ⟨by decide, by decide, by decide, by decide, by decide, by decide, by decide, by decide, by decide, by decide, by decide, by decide, by decide, by decide⟩

/-- mode of a write of the v1 write log: `WritePrivateKey` / `WritePublicKey` -/
def writeMode (w : Write) : Nat := if w.priv then Generated.KeyPerms.v1PrivateFileMode else Generated.KeyPerms.v1PublicFileMode

/-- **Permission discipline.**
(1) *Call table (regenerated):* every call in `keystore/filesystem` and the v2 directory back end that
creates a file or directory is classified; every directory is created with 0700; every file with a
constant mode gets 0600 – or 0644 inside `WritePublicKey` / `createVersionFile` only; the `mode`
parameter of `WriteKeyFile` is fed by `WritePrivateKey` (0600), `WritePublicKey` (0644) and direct calls
with `PrivateFileMode`; no call creates, reads or resolves a symbolic link.
(2) *Write log:* in every operation of the v1 key store the write that carries the sealed secret is a
0600 write; the only 0644 write carries the public key.
(3) *Under every umask* what is created at a site holding key material (v1 key folder, `.poison_key`,
history directories, private key files; v2 directories and ring files) has no group / other bit, and
a created directory / file never has a bit its constant lacks. -/
theorem perm_discipline :
    disciplined Generated.KeyPerms.permCalls = true ∧
    noSymlinkCalls Generated.KeyPerms.permCalls = true ∧
    (∀ (c : CryptoOps) (master nonce : Bytes) (op : Op) (ws : List Write), writes c master nonce op = some ws →
      ∃ ct, c.enc master (keyContextBytes op.ctx) op.secret nonce = some ct ∧
        ∀ w ∈ ws, (w.data = ct → w.path = op.file → writeMode w = 0o600) ∧ (writeMode w ≠ 0o600 → some w.data = op.public)) ∧
    (∀ (s : Site) (umask : Nat), s.holdsKeys = true → ownerOnly (effectiveAt s umask) = true) ∧
    (∀ (umask i : Nat), (effectiveAt .v2Version umask).testBit i = true → (0o644 : Nat).testBit i = true) := by
  refine ⟨by decide, by decide, ?_, ?_, ?_⟩
  · intro c master nonce op ws h
    obtain ⟨ct, he, hws, _, _⟩ := v1_writes_are_sealed c master nonce op ws h
    refine ⟨ct, he, ?_⟩
    intro w hw
    rw [hws] at hw
    simp only [List.mem_cons] at hw
    rcases hw with rfl | hw
    · exact ⟨fun _ _ => by simp [writeMode]; decide, fun hne => absurd (by simp [writeMode]; decide) hne⟩
    · cases hpub : op.public with
      | none => simp [hpub] at hw
      | some pub =>
        simp only [hpub, List.mem_cons, List.not_mem_nil, or_false] at hw
        subst hw
        refine ⟨fun _ hp => ?_, fun _ => rfl⟩
        -- `<file>.pub` is not `<file>`
        have := congrArg List.length hp
        simp only [List.length_append] at this
        have hl : sPub.length = 4 := by decide
        omega
  · intro s umask hs
    cases s <;> simp only [Site.holdsKeys, Bool.false_eq_true] at hs
    · exact created_ownerOnly _ _ (by decide)
    · show ownerOnly (chmodded Generated.KeyPerms.v1PrivateFileMode) = true
      decide
    · exact created_ownerOnly _ _ (by decide)
    · exact created_ownerOnly _ _ (by decide)
  · intro umask i h
    exact created_sub _ _ _ h

set_option maxRecDepth 20000 in
/-- the permission string of 9 bits is `-rwx------` exactly for 0700 (all 512 values) -/
theorem perm_string_key : ∀ k, k < 512 → ((permString k == expectedPermission) = true ↔ k = 0o700) := by decide

/-- **The checks on what already exists.** A v1 key store opens over an existing private key folder
iff its permission bits are exactly 0700; the v2 directory back end creates / opens over an existing
root iff its permission bits are exactly 0700 – in particular every directory with a group or other
bit is refused by both. -/
theorem open_perm_check (m : Nat) :
    (v1OpenAccepts m = true ↔ m &&& 0o777 = 0o700) ∧ (v2OpenAccepts m = true ↔ m &&& 0o777 = 0o700) ∧
    (m &&& 0o077 ≠ 0 → v1OpenAccepts m = false ∧ v2OpenAccepts m = false) := by
  have hlt : m &&& 0o777 < 512 := Nat.lt_of_le_of_lt Nat.and_le_right (by decide)
  have key : ∀ k, k < 512 → ((permString k == expectedPermission) = true ↔ k = 0o700) := perm_string_key
  have h1 : v1OpenAccepts m = true ↔ m &&& 0o777 = 0o700 := by
    unfold v1OpenAccepts permMask; exact key _ hlt
  have h2 : v2OpenAccepts m = true ↔ m &&& 0o777 = 0o700 := by
    unfold v2OpenAccepts permMask
    simp only [beq_iff_eq]
    constructor <;> (intro h; rw [h]) <;> decide
  refine ⟨h1, h2, ?_⟩
  intro hgo
  have hne : m &&& 0o777 ≠ 0o700 := by
    intro e
    apply hgo
    have : m &&& 0o077 = (m &&& 0o777) &&& 0o077 := by
      rw [Nat.and_assoc]; rfl
    rw [this, e]; decide
  constructor
  · cases hv : v1OpenAccepts m with
    | false => rfl
    | true => exact absurd (h1.mp hv) hne
  · cases hv : v2OpenAccepts m with
    | false => rfl
    | true => exact absurd (h2.mp hv) hne

set_option maxRecDepth 20000 in
/-- **`loadPrivateKey`'s check is a numeric comparison** (modelled as it is): a private key file is
refused iff its permission bits, read as a number, exceed 0600. Every file the owner can read and write
that has any further bit is refused (`0640`, `0604`, `0700` …) – but a file *without* owner write
permission passes whatever its group / other bits: `0444` (world readable) is accepted. The key store
never creates such a file (`perm_discipline`); a file system somebody else changed is outside the
property's attacker model (trusted base), so this is recorded, not reported. -/
theorem v1_load_perm_check (m : Nat) (uid0 : Bool) :
    (v1LoadAccepts m uid0 = true → m &&& 0o777 ≤ 0o600) ∧
    (v1LoadAccepts 0o600 uid0 = true) ∧
    (∀ k, k < 512 → k &&& 0o600 = 0o600 → k ≠ 0o600 → v1LoadAccepts k uid0 = false) ∧
    v1LoadAccepts 0o444 uid0 = true ∧ v1LoadAccepts 0o640 uid0 = false := by
  refine ⟨?_, by cases uid0 <;> decide, by cases uid0 <;> decide, by cases uid0 <;> decide, by cases uid0 <;> decide⟩
  intro h
  unfold v1LoadAccepts at h
  simp only [Bool.and_eq_true, Bool.not_eq_true', decide_eq_false_iff_not] at h
  have := h.1
  unfold permMask at this
  have hc : Generated.KeyPerms.v1PrivateFileMode = 0o600 := by decide
  omega

end Perms

/-! # The read-write open of a v2 key ring never overwrites what it cannot load

Model `KeystoreSec/{DerParse,RingOpen,RingOpenLemmas}.lean` (`openKeyRing` / `OpenKeyRingRW`, `readKeyRing`,
`writeKeyRing`, `importKeyRing`, the table of read-write entry points of the v2 `ServerKeyStore`); the guard
of the create branch is the regenerated `Generated.RingOpen.openCreateGuard`. Tied by the ops `C07.rwopen`,
`C07.rwentry`, `C07.rwimport` (real key stores over an in-memory / directory back end whose files are read
directly before and after every call). -/
section RingOpen
open AcraModel.KeystoreSec.RingOpen AcraModel.KeystoreSec.DerParse

/-- **The create guard of `openKeyRing` is "the ring does not exist" and nothing else.** Evaluated from
the regenerated guard (operator and error value as they stand in the source) for every error a ring load
can end with: an empty ring is pushed exactly for `backend.ErrNotExist` – not for a signature mismatch,
a missing signature, an unparsable file, a wrong content type / version, an invalid path or an I/O error. -/
theorem fact_open_ring_creates_iff_not_exist : ∀ e : LoadErr, createsOn e = true ↔ e = .notExist := by
  intro e; cases e <;> decide

open Generated.RingOpen in
/-- The statements of `openKeyRing`, `pullRingUpdates`, `verifyKeyRing`, `Notary.Verify`, `writeKeyRing`,
`readKeyRing` the model follows (log statements dropped): exclusive lock first, unlock deferred (its
error replaces only a nil result); after the pull the error branch is the guard followed by `return err`;
the guarded branch is `return s.pushNewRingState(ring)`; every step of the pull returns its error; the
signature context is built from the ring's own path; the notary checks the signatures over the raw
payload bytes of the file; content type and version are checked after the signature; only the error of
`UnmarshalKeyRing` is merely logged; a write-back returns the error of its pull before anything is pushed. -/
theorem fact_open_ring_shape :
    openBeforePull = ["err = s.fs.Lock()", "if err != nil { return err }",
      "defer func() { err2 := s.fs.Unlock(); if err2 != nil { if err == nil { err = err2 } } }"] ∧
    openCreateBranch = ["return s.pushNewRingState(ring)"] ∧ openErrorReturn = "return err" ∧ openAfterPull = ["return nil"] ∧
    pullSteps = ["s.fetchASNring:return", "s.verifyKeyRing:return", "ring.loadASN1:return"] ∧
    pullVerifyArgs = ["ring.path"] ∧ pullFetchArgs = ["ring.path"] ∧
    verifySteps = ["s.notary.Verify:return", "asn1.UnmarshalKeyRing:log-only"] ∧
    verifyContextCalls = ["s.keyRingSignatureContext"] ∧ verifyContextArg = ["path"] ∧ verifyNotaryArgs = ["data", "context"] ∧
    verifyChecks = ["err != nil => return nil, nil, err",
      "verified.Payload.ContentType != asn1.TypeKeyRing => return nil, nil, errIncorrectContentType",
      "verified.Payload.Version != asn1.KeyRingVersion2 => return nil, nil, errUnsupportedVersion", "err != nil => "] ∧
    notaryVerifySteps = ["asn1.UnmarshalVerifiedContainer:return", "s.verifySignatures:return"] ∧
    notaryVerifySigArgs = ["decoded.Signatures", "decoded.Payload.RawContent", "context"] ∧
    writeSteps = ["s.pullRingUpdates:return", "ring.applyPendingTX:return", "s.pushNewRingState:return"] ∧
    readSteps = ["s.pullRingUpdates:return"] ∧
    backendErrors = ["ErrNotExist", "ErrExist", "ErrInvalidPath"] ∧
    Generated.KeystoreSec.pushASNringCalls = ["s.fs.Put", "s.fs.Rename"] ∧ Generated.KeystoreSec.pushASNringPutPath = ["newPath"] ∧
    Generated.KeystoreSec.fetchASNringCalls = ["s.fs.Get"] ∧ Generated.KeystoreSec.pushNewRingStateCalls = ["s.signKeyRing", "s.pushASNring"] := by
  refine ⟨by decide, by decide, by decide, by decide, by decide, by decide, by decide, by decide, by decide, by decide, by decide,
    by decide, by decide, by decide, by decide, by decide, by decide, by decide, by decide, by decide, by decide⟩

open Generated.RingOpen in
/-- Inside the file-system key store only `pushASNring` calls `Backend.Put` / `Rename`, only
`pushNewRingState` calls it, and `pushNewRingState` is reached from `openKeyRing` (the guarded branch) and
`writeKeyRing` (after a successful pull) only; `openKeyRing` is called by `OpenKeyRingRW` and
`importKeyRing`. Nothing uses `RenameNX`. -/
theorem fact_ring_push_callers :
    pushCallers = ["KeyStore.OpenKeyRingRW>s.openKeyRing", "KeyStore.importKeyRing>s.openKeyRing",
      "KeyStore.openKeyRing>s.pushNewRingState", "KeyStore.pushASNring>s.fs.Put", "KeyStore.pushASNring>s.fs.Rename",
      "KeyStore.pushNewRingState>s.pushASNring", "KeyStore.writeKeyRing>s.pushNewRingState"] := by decide

open Generated.RingOpen in
/-- `importKeyRing` reads the ring first and goes on to `openKeyRing` only in the `backendAPI.ErrNotExist`
case of its `switch err`; the default case returns the error. -/
theorem fact_import_opens_iff_not_exist :
    (∀ e : LoadErr, importOpensOn e = true ↔ e = .notExist) ∧
    importSwitchCases = ["nil", "ErrNotExist", "default"] ∧ importDefaultCase = ["return err"] := by
  refine ⟨?_, by decide, by decide⟩
  intro e; cases e <;> decide

open Generated.RingOpen in
/-- **The read-write entry points of the v2 `ServerKeyStore`.** The functions of `keystore/v2/keystore`
that call `OpenKeyRingRW` are exactly these 26 methods (sorted by name: generators, savers, destroyers, rotated-key
destroyers, the four poison-key getters, the five importers reached from `ImportKeyFileV1`), **every one of
them** opens its ring as its first action and returns the error of the open, and the ring path is one of
the six path expressions of the store. A new read-write method, or one that does something before the
open / swallows its error, changes this table. -/
theorem fact_rw_entry_points :
    rwEntryPoints.map (·.2.1) = ["ServerKeyStore.DestroyClientIDEncryptionKeyPair", "ServerKeyStore.DestroyClientIDSymmetricKey",
      "ServerKeyStore.DestroyHmacSecretKey", "ServerKeyStore.DestroyPoisonKeyPair", "ServerKeyStore.DestroyPoisonSymmetricKey",
      "ServerKeyStore.DestroyRotatedClientIDEncryptionKeyPair", "ServerKeyStore.DestroyRotatedClientIDSymmetricKey",
      "ServerKeyStore.DestroyRotatedHmacSecretKey", "ServerKeyStore.DestroyRotatedPoisonKeyPair", "ServerKeyStore.DestroyRotatedPoisonSymmetricKey",
      "ServerKeyStore.GenerateClientIDSymmetricKey", "ServerKeyStore.GenerateDataEncryptionKeys", "ServerKeyStore.GenerateHmacKey",
      "ServerKeyStore.GenerateLogKey", "ServerKeyStore.GeneratePoisonKeyPair", "ServerKeyStore.GeneratePoisonSymmetricKey",
      "ServerKeyStore.GetPoisonKeyPair", "ServerKeyStore.GetPoisonPrivateKeys", "ServerKeyStore.GetPoisonSymmetricKey",
      "ServerKeyStore.GetPoisonSymmetricKeys", "ServerKeyStore.SaveDataEncryptionKeys", "ServerKeyStore.importClientIDSymmetricKey",
      "ServerKeyStore.importHmacKey", "ServerKeyStore.importLogKey", "ServerKeyStore.importPoisonRecordSymmetricKey",
      "ServerKeyStore.savePoisonKeyPair"] ∧
    (rwEntryPoints.all fun r => r.2.2.2 == "open-first-return-err") = true ∧
    (rwEntryPoints.all fun r => ["auditLogSymmetricKeyPath", "poisonKeyPath", "poisonSymmetricKeyPath", "s.clientHMACKeyPath(clientID)",
      "s.clientStorageSymmetricKeyPath(clientID)", "s.clientStorageKeyPairPath(clientID)"].contains r.2.2.1) = true ∧
    rwInternalCallers = ["ServerKeyStore.ImportKeyFileV1>importClientIDSymmetricKey", "ServerKeyStore.ImportKeyFileV1>importHmacKey",
      "ServerKeyStore.ImportKeyFileV1>importLogKey", "ServerKeyStore.ImportKeyFileV1>importPoisonRecordSymmetricKey",
      "ServerKeyStore.ImportKeyFileV1>savePoisonKeyPair"] := by
  refine ⟨by decide, by decide, by decide, by decide⟩

/-- the temporary `<ring>.keyring.new` is not the ring file (the suffix `.new` is not empty) -/
theorem fact_new_suffix : newSuffix ≠ [] := by decide

/-- **A read-write open that cannot load what is stored fails and preserves it** – for every state of
the back end, every ring path, every error: when the pull ends with anything but "the ring does not
exist" (bad signature, signature made for another path, no known signature, unparsable bytes, wrong
content type / version, invalid path, unreadable file), `OpenKeyRingRW` returns an error, the back end is
exactly as before, and neither `Put` nor `Rename` is called. -/
theorem rw_open_error_preserves (c : CryptoOps) (sigKey : Bytes) (time : Int) (b : Backend) (path : Bytes) (e : LoadErr)
    (hp : pull c sigKey b path = .error e) (hne : e ≠ .notExist) :
    let r := openKeyRing c sigKey time b path
    r.out.isErr = true ∧ r.backend = b ∧ ∀ call ∈ r.trace, call.isWrite = false := by
  have hg : createsOn e = false := by
    cases h : createsOn e with
    | false => rfl
    | true => exact absurd ((fact_open_ring_creates_iff_not_exist e).mp h) hne
  have := openKeyRing_no_create c sigKey time b path e hp hg
  exact ⟨this.2.1, this.1, this.2.2⟩

/-- **Tamper evidence survives the read-write open.** Whatever byte string `d` is stored at a ring's
path: if it does not load there – it does not parse as a signed container, a known signature does not
match the payload bytes under *this path's* context, there is no known signature, or type / version are
wrong – then `OpenKeyRingRW` returns an error AND the stored bytes (and everything else in the back end)
are identical afterwards; no `Put`, no `Rename`. The evidence of the tampering and the keys inside are
not replaced by a fresh empty ring. -/
theorem rw_open_tampered_fails_and_preserves (c : CryptoOps) (sigKey : Bytes) (time : Int) (b : Backend) (path d : Bytes) (e : LoadErr)
    (hstored : b.get (ringFile path) = .ok d) (hbad : loadBytes c sigKey path d = .error e) :
    let r := openKeyRing c sigKey time b path
    r.out.isErr = true ∧ r.backend = b ∧ r.backend.files (ringFile path) = some d ∧ ∀ call ∈ r.trace, call.isWrite = false := by
  have hp : pull c sigKey b path = .error e := by rw [pull_of_get c sigKey b path d hstored]; exact hbad
  have hne : e ≠ .notExist := by
    intro h; rw [h] at hbad; exact loadBytes_ne_notExist _ _ _ _ hbad
  have := rw_open_error_preserves c sigKey time b path e hp hne
  refine ⟨this.1, this.2.1, ?_, this.2.2⟩
  simp only at this
  rw [this.2.1]
  exact get_ok_files b _ d hstored

/-- **Only a missing ring is created.** If `OpenKeyRingRW` calls `Put` or `Rename`, changes the back
end in any way, or reports a creation, then nothing was stored at the ring's path (`Get` answered
`ErrNotExist`). And a reported creation leaves exactly: the signed empty ring for this path (purpose =
path, no keys, no current key, signed under this path's context) at the ring's path, no temporary,
every other path untouched; the calls were `Lock, Get, Put(<ring>.keyring.new), Rename, Unlock` in this
order – check and creation under one exclusive lock. -/
theorem rw_open_creates_only_missing (c : CryptoOps) (sigKey : Bytes) (time : Int) (b : Backend) (path : Bytes) :
    let r := openKeyRing c sigKey time b path
    (((∃ call ∈ r.trace, call.isWrite = true) ∨ r.backend ≠ b ∨ r.out = .created) → b.get (ringFile path) = .error .notExist) ∧
    (r.out = .created →
      r.backend.files (ringFile path) = some (signedFile c sigKey path time (emptyRing path)) ∧
      r.backend.files (newFile path) = none ∧
      (∀ q, q ≠ ringFile path → q ≠ newFile path → r.backend.files q = b.files q) ∧
      r.trace = [.lock, .get (ringFile path), .put (newFile path) (signedFile c sigKey path time (emptyRing path)),
        .rename (newFile path) (ringFile path), .unlock]) := by
  refine ⟨?_, ?_⟩
  · intro h
    obtain ⟨e, hp, hg⟩ := openKeyRing_write_only_on_guard c sigKey time b path h
    have := (fact_open_ring_creates_iff_not_exist e).mp hg
    subst this
    exact pull_notExist c sigKey b path hp
  · intro h
    exact openKeyRing_created c sigKey time b path fact_new_suffix h

/-- the empty ring a creation writes verifies under its own path's context (it is an honest ring) -/
theorem rw_open_created_ring_is_signed (c : CryptoOps) (sigKey path : Bytes) (time : Int) :
    Notary.verify c sigKey (sigCtx path) (Notary.sign c sigKey (sigCtx path) (ringPayload time (emptyRing path))) = true :=
  Notary.verify_sign c sigKey _ _

/-- **Every read-write entry point of the v2 key store preserves tamper evidence.** For every row of the
regenerated table of methods that open a ring read-write (generators, savers, destroyers, poison-key
getters, importers), whatever the method goes on to do after a successful open (`rest`, arbitrary): if
what is stored at the method's ring path does not load, the method returns an error and the back end –
the tampered file included – is exactly as before. -/
theorem rw_entry_points_preserve_tamper_evidence (row : String × String × String × String)
    (hrow : row ∈ Generated.RingOpen.rwEntryPoints)
    (c : CryptoOps) (sigKey : Bytes) (time : Int) (b : Backend) (path d : Bytes) (e : LoadErr)
    (rest : Backend → OpenOut → Done) (other : Backend → Done)
    (hstored : b.get (ringFile path) = .ok d) (hbad : loadBytes c sigKey path d = .error e) :
    (runEntry row.2.2.2 c sigKey time b path rest other).failed = true ∧
    (runEntry row.2.2.2 c sigKey time b path rest other).backend = b ∧
    (runEntry row.2.2.2 c sigKey time b path rest other).backend.files (ringFile path) = some d := by
  have hall := fact_rw_entry_points.2.1
  rw [List.all_eq_true] at hall
  have hshape : row.2.2.2 = "open-first-return-err" := by simpa using hall row hrow
  have ht := rw_open_tampered_fails_and_preserves c sigKey time b path d e hstored hbad
  simp only at ht
  unfold runEntry
  rw [if_pos hshape]
  cases ho : (openKeyRing c sigKey time b path).out with
  | err e' => simp only [ho]; exact ⟨trivial, ht.2.1, ht.2.2.1⟩
  | loaded x => rw [ho] at ht; exact absurd ht.1 (by simp [OpenOut.isErr])
  | created => rw [ho] at ht; exact absurd ht.1 (by simp [OpenOut.isErr])

/-- **A write-back over a ring that no longer loads** (`AddKey`, `SetCurrent`, `SetState`, `DestroyKey`,
`importASN1` on a handle whose file was changed after the open): error, back end untouched – and a
write-back never creates, not even when the ring has disappeared. -/
theorem rw_write_back_preserves (c : CryptoOps) (sigKey : Bytes) (time : Int) (b : Backend) (path : Bytes)
    (apply : Bytes → Option Export.Ring) (e : LoadErr) (hp : pull c sigKey b path = .error e) :
    let r := writeKeyRing c sigKey time b path apply
    r.out.isErr = true ∧ r.backend = b ∧ ∀ call ∈ r.trace, call.isWrite = false := by
  have := writeKeyRing_no_load c sigKey time b path apply e hp
  exact ⟨this.2.1, this.1, this.2.2⟩

/-- **Bundle import over a ring that does not load** (`ImportKeyRings` → `importKeyRing`): the ring is
read first; a ring that is there but does not load makes the import fail with the back end untouched –
whatever the conflict delegate would decide and whatever the import would write. -/
theorem rw_import_preserves (c : CryptoOps) (sigKey : Bytes) (time : Int) (b : Backend) (path d : Bytes) (e : LoadErr)
    (onExisting : Backend → Bytes → Done) (k : Backend → Done)
    (hstored : b.get (ringFile path) = .ok d) (hbad : loadBytes c sigKey path d = .error e) :
    (RingOpen.importKeyRing c sigKey time b path onExisting k).failed = true ∧
    (RingOpen.importKeyRing c sigKey time b path onExisting k).backend = b := by
  have hp : pull c sigKey b path = .error e := by rw [pull_of_get c sigKey b path d hstored]; exact hbad
  have hne : e ≠ .notExist := by
    intro h; rw [h] at hbad; exact loadBytes_ne_notExist _ _ _ _ hbad
  have hpure := (readKeyRing_pure c sigKey b path).1
  have hno : importOpensOn e = false := by
    cases h : importOpensOn e with
    | false => rfl
    | true => exact absurd ((fact_import_opens_iff_not_exist.1 e).mp h) hne
  have hlock : importOpensOn .lock = false := by decide
  unfold RingOpen.importKeyRing
  rcases readKeyRing_err c sigKey b path e hp with ho | ho
  · simp only [ho, hno, Bool.false_eq_true, if_false]
    exact ⟨trivial, hpure⟩
  · simp only [ho, hlock, Bool.false_eq_true, if_false]
    exact ⟨trivial, hpure⟩

/-- **A modified or copied ring does not load** (the link to `ring_tamper`): let the bytes stored at
ring path `path` parse as a container that carries the signatures an honest key store made for payload
`raw` at ring path `p₀`. If the payload bytes now differ from `raw` (same length: any changed byte of the
signed span), or the file sits at another path than it was signed for (`path ≠ p₀`: alice's ring copied
to bob's path), the load fails with a signature error. (Collision freedom of the HMAC.) -/
theorem tampered_or_copied_ring_does_not_load (c : CryptoOps) (hi : HashInj c) (sigKey path p₀ raw d : Bytes) (p : Parsed)
    (hparse : parseContainer d = some p) (hsigs : p.sigs = (Notary.sign c sigKey (sigCtx p₀) raw).sigs)
    (hlen : p.raw.length = raw.length ∨ path = p₀) (hne : p.raw ≠ raw ∨ path ≠ p₀) :
    loadBytes c sigKey path d = .error .signature := by
  unfold loadBytes
  simp only [hparse]
  cases hv : verifySignatures c sigKey (sigCtx path) p.container with
  | ok u =>
    have hver : Notary.verify c sigKey (sigCtx path) ⟨p.raw, (Notary.sign c sigKey (sigCtx p₀) raw).sigs⟩ = true := by
      have := (verifySignatures_ok_iff c sigKey (sigCtx path) p.container).mp hv
      simpa [Parsed.container, hsigs] using this
    have := ring_tamper c hi sigKey p₀ raw path p.raw hver hlen
    rcases hne with h | h
    · exact absurd this.1 h
    · exact absurd this.2 h
  | error e =>
    -- the only known signature is the honest one: it is a mismatch, not a missing signature
    simp only
    unfold verifySignatures at hv
    simp only [Parsed.container, hsigs, Notary.sign] at hv
    simp only [List.filter_cons, decide_true, if_true, List.filter_nil, List.any_cons, List.any_nil, Bool.or_false,
      List.isEmpty_cons, Bool.false_eq_true, if_false] at hv
    split at hv
    · cases hv; rfl
    · cases hv

/-- **Alice's ring at Bob's path is preserved and reported.** Alice's honestly written ring file copied
to Bob's ring path (`bob ≠ alice`) does not load there – the signature context is the path – so every
read-write open of Bob's ring returns an error and leaves the copied file, and the whole back end, as it
is: Bob does not silently get a fresh ring, and the evidence stays. The same for a ring whose signed span
was modified in place. -/
theorem copied_ring_preserved_and_reported (c : CryptoOps) (hi : HashInj c) (sigKey alice bob raw d : Bytes) (p : Parsed)
    (time : Int) (b : Backend)
    (hparse : parseContainer d = some p) (hraw : p.raw = raw) (hsigs : p.sigs = (Notary.sign c sigKey (sigCtx alice) raw).sigs)
    (hne : bob ≠ alice) (hstored : b.get (ringFile bob) = .ok d) :
    let r := openKeyRing c sigKey time b bob
    r.out.isErr = true ∧ r.backend = b ∧ r.backend.files (ringFile bob) = some d ∧ ∀ call ∈ r.trace, call.isWrite = false :=
  rw_open_tampered_fails_and_preserves c sigKey time b bob d .signature hstored
    (tampered_or_copied_ring_does_not_load c hi sigKey bob alice raw d p hparse hsigs (Or.inl (by rw [hraw])) (Or.inr hne))

/-- **An untouched ring loads, and the read-write open leaves it alone.** The file `signKeyRing` wrote for
ring path `path` (any ring `r`, any time stamp; sizes in the range Go's reader accepts) passes the pull at
`path`: `OpenKeyRingRW` hands out the ring's data, changes nothing and writes nothing. (Together with the
theorems above: rings that load are kept as they are, rings that do not load are kept as they are and
reported, only missing rings are created.) -/
theorem honest_ring_file_loads (c : CryptoOps) (sigKey path : Bytes) (time t' : Int) (r : Export.Ring) (b : Backend)
    (hr : (Der.derRing r).length < 8388608)
    (hsig : (Notary.signBytes c sigKey (sigCtx path) (ringPayload time r)).length < 16777216)
    (hstored : b.get (ringFile path) = .ok (signedFile c sigKey path time r)) :
    pull c sigKey b path = .ok (Der.derRing r) ∧
    (openKeyRing c sigKey t' b path).backend = b ∧
    (∀ call ∈ (openKeyRing c sigKey t' b path).trace, call.isWrite = false) ∧
    (b.lockFails = false → b.unlockFails = false → (openKeyRing c sigKey t' b path).out = .loaded (Der.derRing r)) := by
  have hp : pull c sigKey b path = .ok (Der.derRing r) := by
    rw [pull_of_get c sigKey b path _ hstored]
    exact loadBytes_signedFile c sigKey path time r hr hsig
  have hl := openKeyRing_loaded c sigKey t' b path _ hp
  refine ⟨hp, hl.1, hl.2, ?_⟩
  intro h1 h2
  unfold openKeyRing
  simp [h1, hp, withUnlock, h2]

/-- **Alice's honestly written ring file at Bob's path** (the statement of `copied_ring_preserved_and_reported`
for the very bytes the key store wrote): the file `signKeyRing` made for ring path `alice`, stored at ring
path `bob ≠ alice`, does not load there; every read-write open of `bob` fails and leaves the file and the
whole back end as they are. -/
theorem honest_ring_at_foreign_path_preserved_and_reported (c : CryptoOps) (hi : HashInj c) (sigKey alice bob : Bytes)
    (time t' : Int) (r : Export.Ring) (b : Backend)
    (hr : (Der.derRing r).length < 8388608)
    (hsig : (Notary.signBytes c sigKey (sigCtx alice) (ringPayload time r)).length < 16777216)
    (hne : bob ≠ alice) (hstored : b.get (ringFile bob) = .ok (signedFile c sigKey alice time r)) :
    let res := openKeyRing c sigKey t' b bob
    res.out.isErr = true ∧ res.backend = b ∧ res.backend.files (ringFile bob) = some (signedFile c sigKey alice time r) ∧
    ∀ call ∈ res.trace, call.isWrite = false :=
  copied_ring_preserved_and_reported c hi sigKey alice bob (ringPayload time r) _ _ t' b
    (parse_signedFile c sigKey alice time r hr hsig) rfl rfl hne hstored

/-- the size hypotheses of `honest_ring_file_loads` are satisfiable (Box instance, the empty ring of path `p`) -/
example : (Der.derRing (emptyRing (ofStr "p"))).length < 8388608 ∧
    (Notary.signBytes boxOps [7] (sigCtx (ofStr "p")) (ringPayload 0 (emptyRing (ofStr "p")))).length < 16777216 := by
  refine ⟨by decide, ?_⟩
  obtain ⟨pc, hpc, hlen, _⟩ := parsePayload_ring 0 (emptyRing (ofStr "p")) (by decide)
  rw [hpc]
  have h0 : (Der.derRing (emptyRing (ofStr "p"))).length < 100 := by decide
  have h1 := tlv_length_le 0x30 pc (by omega)
  have h2 : (sigCtx (ofStr "p")).length = 37 := by decide
  show (Box.esc [7] ++ (sigCtx (ofStr "p") ++ (ofStr ": " ++ Der.tlv 0x30 pc))).length < 16777216
  have h3 : (Box.esc [7]).length ≤ 8 := by decide
  have h4 : (ofStr ": ").length = 2 := by decide
  simp only [List.length_append]
  omega

/-- **Modes on the creation path of a ring.** In the directory back end the only creating calls of `Put`
are `MkdirAll(…, keyDirPerm)` for the ring's directories and `OpenFile(O_CREATE|O_EXCL, keyFilePerm)` for the
file – this is how `<ring>.keyring.new` comes into being – and `Rename` / `RenameNX` contain no creating or
mode-changing call (the ring file IS the temporary, renamed: it never passes through another mode). Under
every umask the temporary, hence the ring file, and the directories have no group / other bit. (Regenerated
call table; the kernel's `perm & ~umask` is the POSIX contract, checked by the stream `rwopen-modes`.) -/
theorem rw_open_created_file_modes :
    ((Generated.KeyPerms.permCalls.filter fun r => r.2.1 == "DirectoryBackend.Put").map fun r => (r.2.2.1, r.2.2.2)) =
      [("os.MkdirAll", "keyDirPerm"), ("os.OpenFile", "keyFilePerm")] ∧
    (Generated.KeyPerms.permCalls.filter fun r => r.2.1 == "DirectoryBackend.Rename" || r.2.1 == "DirectoryBackend.RenameNX" ||
      r.2.1 == "DirectoryBackend.doRenameNX") = [] ∧
    (∀ umask, Perms.ownerOnly (Perms.effectiveAt .v2File umask) = true ∧ Perms.ownerOnly (Perms.effectiveAt .v2Dir umask) = true) := by
  refine ⟨by decide, by decide, fun umask => ⟨Perms.created_ownerOnly _ _ (by decide), Perms.created_ownerOnly _ _ (by decide)⟩⟩

/-- What the adversary can put into the signature fields of a file: anything but a fresh valid MAC.
Whenever a signature value in `sigs` IS the HMAC, under the key store's signature key, of some
`context ‖ ": " ‖ data`, it is one the key store itself made – for one of the (ring path, payload) pairs of
`honest`. (Unforgeability of the HMAC, as a hypothesis about the file.) -/
def NoForgery (c : CryptoOps) (sigKey : Bytes) (honest : List (Bytes × Bytes)) (sigs : List Notary.Sig) : Prop :=
  ∀ s ∈ sigs, ∀ ctx x, s.sig = Notary.signBytes c sigKey ctx x →
    ∃ h ∈ honest, s.sig = Notary.signBytes c sigKey (sigCtx h.1) h.2

/-- **What a ring file that loads can contain** (tamper evidence of the *content*, whatever is done to the
file as a whole – any number of changed, inserted or appended bytes, any DER framing Go's reader accepts).
If the bytes stored at ring path `path` parse and load, and the adversary could not forge a MAC
(`NoForgery`), then the data element handed to the key ring is the one inside the payload found in the file,
and that payload – every byte of it: content type, version, time stamp, purpose, all keys with their states,
validity and sealed key data, the current-key marker – was signed by the key store itself; it is, byte for
byte, a payload the key store signed **for this very path** whenever the lengths agree or the paths do (the
`context ‖ ": " ‖ payload` string is otherwise only known to agree as a whole – same caveat as `ring_tamper`).
What is *not* pinned are bytes outside the payload that carry no ring content: `der_outside_span_counterexample`. -/
theorem ring_file_content_tamper_evident (c : CryptoOps) (hi : HashInj c) (sigKey path d data : Bytes)
    (honest : List (Bytes × Bytes)) (p : Parsed) (hparse : parseContainer d = some p)
    (hnf : NoForgery c sigKey honest p.sigs) (hload : loadBytes c sigKey path d = .ok data) :
    data = p.payload.data ∧
    ∃ h ∈ honest, path ++ (ofStr ": " ++ p.raw) = h.1 ++ (ofStr ": " ++ h.2) ∧
      ((p.raw.length = h.2.length ∨ path = h.1) → path = h.1 ∧ p.raw = h.2) := by
  unfold loadBytes at hload
  simp only [hparse] at hload
  cases hv : verifySignatures c sigKey (sigCtx path) p.container with
  | error e => simp [hv] at hload
  | ok u =>
    simp only [hv] at hload
    have hdata : data = p.payload.data := by
      split at hload
      · cases hload
      · split at hload
        · cases hload
        · cases hload; rfl
    refine ⟨hdata, ?_⟩
    have hver := (verifySignatures_ok_iff c sigKey (sigCtx path) p.container).mp hv
    obtain ⟨⟨s, hs, hoid⟩, hall⟩ := ring_signature_needed c sigKey (sigCtx path) p.raw p.sigs hver
    have hsig := hall s hs hoid
    obtain ⟨h, hh, heq⟩ := hnf s hs _ _ hsig
    rw [hsig] at heq
    have h2 := (hi.hmac_inj _ _ _ _ heq).2
    simp only [sigCtx, ksCtx, List.append_assoc] at h2
    have h3 := List.append_cancel_left (List.append_cancel_left h2)
    refine ⟨h, hh, h3, ?_⟩
    intro hlen
    rcases hlen with hl | hp
    · have hlen2 : (ofStr ": " ++ p.raw).length = (ofStr ": " ++ h.2).length := by simp [hl]
      have hp : path = h.1 := by
        have := congrArg List.length h3
        simp only [List.length_append] at this
        have hpl : path.length = h.1.length := by omega
        exact (List.append_inj h3 hpl).1
      rw [hp] at h3
      exact ⟨hp, List.append_cancel_left (List.append_cancel_left h3)⟩
    · rw [hp] at h3
      exact ⟨hp, List.append_cancel_left (List.append_cancel_left h3)⟩

/-- a minimal payload: `SEQUENCE { INTEGER 1 (key ring), INTEGER 2 (version), UTCTime, NULL }` -/
def demoRaw : Bytes := [0x30, 0x0b, 0x02, 0x01, 0x01, 0x02, 0x01, 0x02, 0x17, 0x01, 0x5a, 0x05, 0x00]
def demoSig : Notary.Sig := ⟨Notary.sha256OID, Notary.signBytes boxOps [7] (sigCtx (ofStr "p")) demoRaw⟩
def demoSigEl (extra : Bytes) : Bytes := Der.tlv 0x30 (Der.derOID demoSig.oid ++ Der.derOctets demoSig.sig ++ extra)
def demoFile (sigEls : List Bytes) (tail : Bytes) : Bytes := Der.tlv 0x30 (demoRaw ++ Der.tlv 0x31 sigEls.flatten ++ tail)

set_option maxRecDepth 20000 in
/-- **The ring file is malleable outside the signed span – in bytes that carry no content** (recorded, not
a finding: the property quantifies over single-byte modifications, all of which are refused – enumeration
`tamper` – and the key ring a reader gets is unaffected, `ring_file_content_tamper_evident`). Go's
`encoding/asn1` ignores bytes after the last field of a `SEQUENCE` it reads into a struct, and the notary skips
signatures of unknown algorithms "for future compatibility". For an honestly signed container (first line:
the demo file IS `derContainer (sign …)`, and it loads), these modified files load as well, with the same
data: two bytes appended inside the outer `SEQUENCE` after the signature set; two bytes appended inside the
signature element; a second signature of an unknown algorithm after / before the real one. The same file at
another path fails with a signature error; with only an unknown-algorithm signature it fails with "no
signature". Replayed against the real reader by the stream `malleable` (ops `C07.roopen` / `C07.rwopen`). -/
theorem der_outside_span_counterexample :
    demoFile [demoSigEl []] [] = Der.derContainer (Notary.sign boxOps [7] (sigCtx (ofStr "p")) demoRaw) ∧
    loadBytes boxOps [7] (ofStr "p") (demoFile [demoSigEl []] []) = .ok [5, 0] ∧
    loadBytes boxOps [7] (ofStr "p") (demoFile [demoSigEl []] [0xde, 0xad]) = .ok [5, 0] ∧
    loadBytes boxOps [7] (ofStr "p") (demoFile [demoSigEl [5, 0]] []) = .ok [5, 0] ∧
    loadBytes boxOps [7] (ofStr "p") (demoFile [demoSigEl [], Der.derSig [1, 2, 3] [9]] []) = .ok [5, 0] ∧
    loadBytes boxOps [7] (ofStr "p") (demoFile [Der.derSig [1, 2, 3] [9], demoSigEl []] []) = .ok [5, 0] ∧
    loadBytes boxOps [7] (ofStr "q") (demoFile [demoSigEl []] []) = .error .signature ∧
    loadBytes boxOps [7] (ofStr "p") (demoFile [Der.derSig [1, 2, 3] [9]] []) = .error .noSignature := by
  refine ⟨by decide, by decide, by decide, by decide, by decide, by decide, by decide, by decide⟩


/-- `NoForgery` is satisfiable by a file that carries the honest signature (non-vacuity) -/
example : NoForgery boxOps [7] [(ofStr "p", demoRaw)] [demoSig] := by
  intro s hs ctx x _
  refine ⟨(ofStr "p", demoRaw), List.mem_singleton.mpr rfl, ?_⟩
  rw [List.mem_singleton.mp hs]
  rfl

/-! non-vacuity: a back end whose ring file was replaced by garbage, opened under the Box instance -/

/-- a back end with `<path>.keyring ↦ d` and nothing else -/
def oneFile (path d : Bytes) : Backend :=
  ⟨fun q => if q = ringFile path then some d else none, fun _ => true, fun _ => false, false, false⟩

example : (oneFile (ofStr "client/bob/hmac-sym") [0x30, 0x03, 0x02, 0x01, 0x01]).get (ringFile (ofStr "client/bob/hmac-sym")) = .ok [0x30, 0x03, 0x02, 0x01, 0x01] ∧
    loadBytes boxOps [7] (ofStr "client/bob/hmac-sym") [0x30, 0x03, 0x02, 0x01, 0x01] = .error .parse ∧
    loadBytes boxOps [7] (ofStr "client/bob/hmac-sym") [] = .error .parse ∧
    (openKeyRing boxOps [7] 0 (oneFile (ofStr "client/bob/hmac-sym") [0x30, 0x03, 0x02, 0x01, 0x01]) (ofStr "client/bob/hmac-sym")).out = .err .parse := by
  refine ⟨by decide, by decide, by decide, by decide⟩

/-- a missing ring is created (the create branch is reachable) -/
example : (openKeyRing boxOps [7] 0 ⟨fun _ => none, fun _ => true, fun _ => false, false, false⟩ (ofStr "poison-record")).out = .created := by
  decide

end RingOpen

/-! ## non-vacuity -/

example : SealLaws boxOps ∧ SealCommit boxOps ∧ HashInj boxOps := ⟨Box.sealLaws, Box.sealCommit, Box.hashInj⟩

/-- a ring with one symmetric key is storable under the Box instance: `writes_are_sealed` has instances -/
example : (storedRing boxOps (fun _ _ => List.replicate 12 0) [1] ⟨ofStr "r", [⟨1, 1, 0, 10, [⟨fmtSym, [], [], [7]⟩]⟩], 1⟩).isSome = true := by
  decide

end AcraModel.Props.C07
